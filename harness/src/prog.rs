//! `Prog`: call trees over the public `ParserState` API — parser/printer of the protocol's
//! S-expressions, interpreter over the real `pest::ParserState`, and snapshot helpers.
use pest::{Atomicity, Lookahead, MatchDir, ParseResult, ParserState};
use std::cell::RefCell;
use std::collections::HashMap;

#[derive(Clone, Copy, Eq, Hash, Ord, PartialEq, PartialOrd)]
pub struct R(pub u16);
impl std::fmt::Debug for R {
    fn fmt(&self, f: &mut std::fmt::Formatter<'_>) -> std::fmt::Result { write!(f, "{}", self.0) }
}

#[derive(Clone, Debug, PartialEq)]
pub enum Prog {
    Seq(Box<Prog>), Opt(Box<Prog>), Rep(Box<Prog>), La(bool, Box<Prog>), At(char, Box<Prog>), Rule(u16, Box<Prog>),
    Push(Box<Prog>), Roe(Box<Prog>), And(Box<Prog>, Box<Prog>), Or(Box<Prog>, Box<Prog>),
    Str(String), Ins(String), Rng(char, char), Cby(Vec<(u32, u32)>), Skip(usize), Until(Vec<String>),
    Soi, Eoi, Peek, Pop, MPeek, MPop, Drop, Slice(i32, Option<i32>, bool /*bottom to top*/), Lit(String), Tag(String), Call(usize), Ok, Fail,
    /// a named function of generated code (`self::name(state)`); `FnSkip` = `super::hidden::skip(state)`
    Fn(String), FnSkip,
    /// `if state.atomicity() == NonAtomic { p } else { Ok(state) }`
    IfNA(Box<Prog>),
}

pub fn hexs(s: &str) -> String { crate::hexs(s) }

impl Prog {
    pub fn show(&self) -> String {
        use Prog::*;
        match self {
            Seq(p) => format!("(seq {})", p.show()), Opt(p) => format!("(opt {})", p.show()), Rep(p) => format!("(rep {})", p.show()),
            La(b, p) => format!("(la {} {})", *b as u8, p.show()), At(a, p) => format!("(at {} {})", a, p.show()),
            Rule(r, p) => format!("(rule {} {})", r, p.show()), Push(p) => format!("(push {})", p.show()), Roe(p) => format!("(roe {})", p.show()),
            And(p, q) => format!("(and {} {})", p.show(), q.show()), Or(p, q) => format!("(or {} {})", p.show(), q.show()),
            Str(s) => format!("(str {})", hexs(s)), Ins(s) => format!("(ins {})", hexs(s)), Rng(a, b) => format!("(rng {} {})", *a as u32, *b as u32),
            Cby(rs) => format!("(cby{})", rs.iter().map(|(a, b)| format!(" {} {}", a, b)).collect::<String>()),
            Skip(n) => format!("(skip {})", n), Until(ss) => format!("(until{})", ss.iter().map(|s| format!(" {}", hexs(s))).collect::<String>()),
            Soi => "soi".into(), Eoi => "eoi".into(), Peek => "peek".into(), Pop => "pop".into(), MPeek => "mpeek".into(), MPop => "mpop".into(), Drop => "drop".into(),
            Slice(a, b, d) => format!("(slice {} {} {})", a, b.map(|x| x.to_string()).unwrap_or("_".into()), if *d { "B" } else { "T" }),
            Lit(s) => format!("(lit {})", hexs(s)), Tag(s) => format!("(tag {})", hexs(s)), Call(i) => format!("(call {})", i), Ok => "ok".into(), Fail => "fail".into(),
            Fn(n) => format!("(fn {})", n), FnSkip => "(fnskip)".into(), IfNA(p) => format!("(ifna {})", p.show()),
        }
    }
}

// ---- S-expression reader
#[derive(Debug, Clone)]
pub enum SExp { Atom(String), List(Vec<SExp>) }
pub fn sexp_parse(s: &str) -> Option<Vec<SExp>> {
    let mut stack: Vec<Vec<SExp>> = vec![vec![]];
    let mut cur = String::new();
    let flush = |cur: &mut String, stack: &mut Vec<Vec<SExp>>| { if !cur.is_empty() { stack.last_mut().unwrap().push(SExp::Atom(std::mem::take(cur))); } };
    for c in s.chars() {
        match c {
            '(' => { flush(&mut cur, &mut stack); stack.push(vec![]); }
            ')' => { flush(&mut cur, &mut stack); let l = stack.pop()?; stack.last_mut()?.push(SExp::List(l)); }
            c if c.is_whitespace() => flush(&mut cur, &mut stack),
            c => cur.push(c),
        }
    }
    flush(&mut cur, &mut stack);
    if stack.len() == 1 { stack.pop() } else { None }
}
fn atom(e: &SExp) -> Option<&str> { if let SExp::Atom(a) = e { Some(a) } else { None } }
pub fn prog_of(e: &SExp) -> Option<Prog> {
    use Prog::*;
    let b = |e: &SExp| prog_of(e).map(Box::new);
    Some(match e {
        SExp::Atom(a) => match a.as_str() { "ok" => Ok, "fail" => Fail, "soi" => Soi, "eoi" => Eoi, "peek" => Peek, "pop" => Pop, "mpeek" => MPeek, "mpop" => MPop, "drop" => Drop, _ => return None },
        SExp::List(v) => {
            let head = atom(v.get(0)?)?;
            match (head, v.len()) {
                ("seq", 2) => Seq(b(&v[1])?), ("opt", 2) => Opt(b(&v[1])?), ("rep", 2) => Rep(b(&v[1])?),
                ("la", 3) => La(atom(&v[1])? == "1", b(&v[2])?), ("at", 3) => At(atom(&v[1])?.chars().next()?, b(&v[2])?),
                ("rule", 3) => Rule(atom(&v[1])?.parse().ok()?, b(&v[2])?), ("push", 2) => Push(b(&v[1])?), ("roe", 2) => Roe(b(&v[1])?),
                ("and", 3) => And(b(&v[1])?, b(&v[2])?), ("or", 3) => Or(b(&v[1])?, b(&v[2])?),
                ("str", 2) => Str(crate::unhexs(atom(&v[1])?)?), ("ins", 2) => Ins(crate::unhexs(atom(&v[1])?)?),
                ("rng", 3) => Rng(char::from_u32(atom(&v[1])?.parse().ok()?)?, char::from_u32(atom(&v[2])?.parse().ok()?)?),
                ("cby", _) => { let mut rs = vec![]; let mut i = 1; while i + 1 < v.len() { rs.push((atom(&v[i])?.parse().ok()?, atom(&v[i + 1])?.parse().ok()?)); i += 2; } if i != v.len() { return None; } Cby(rs) }
                ("skip", 2) => Skip(atom(&v[1])?.parse().ok()?),
                ("until", _) => Until(v[1..].iter().map(|x| crate::unhexs(atom(x)?)).collect::<Option<Vec<_>>>()?),
                ("slice", 4) => Slice(atom(&v[1])?.parse().ok()?, { let x = atom(&v[2])?; if x == "_" { None } else { Some(x.parse().ok()?) } }, atom(&v[3])? == "B"),
                ("lit", 2) => Lit(crate::unhexs(atom(&v[1])?)?), ("tag", 2) => Tag(crate::unhexs(atom(&v[1])?)?), ("call", 2) => Call(atom(&v[1])?.parse().ok()?),
                _ => return None,
            }
        }
    })
}

// ---- interned 'static strings for tags (tag_node wants &'i str)
thread_local! { static INTERN: RefCell<HashMap<String, &'static str>> = RefCell::new(HashMap::new()); }
pub fn intern(s: &str) -> &'static str {
    INTERN.with(|m| { let mut m = m.borrow_mut(); if let Some(x) = m.get(s) { return *x; } let l: &'static str = Box::leak(s.to_string().into_boxed_str()); m.insert(s.to_string(), l); l })
}

pub type St<'i> = Box<ParserState<'i, R>>;

/// Parts of a snapshot line that the property's oracle looks at.
#[derive(Clone, PartialEq, Debug)]
pub struct Snap { pub pos: usize, pub queue: Vec<String>, pub stack: String, pub depth: usize, pub la: String, pub at: String }
pub fn snap_of(line: &str) -> Snap {
    let field = |k: &str| -> &str { let i = line.find(k).map(|i| i + k.len()).unwrap_or(0); let rest = &line[i..]; &rest[..rest.find(' ').unwrap_or(rest.len())] };
    let q0 = line.find("q=[").unwrap() + 3; let q1 = q0 + line[q0..].find(']').unwrap();
    let s0 = line.find("st=[").unwrap() + 4; let s1 = s0 + line[s0..].find(']').unwrap();
    let depth = line[s1 + 2..].split(' ').next().unwrap().parse().unwrap();
    Snap { pos: field("pos=").parse().unwrap(), queue: line[q0..q1].split(' ').filter(|x| !x.is_empty()).map(|x| x.to_string()).collect(), stack: line[s0..s1].to_string(), depth, la: field(" la=").to_string(), at: field(" at=").to_string() }
}

/// Observer called around combinators so the oracle can evaluate the contracts on real snapshots.
pub struct Obs<'a> { pub input: &'a str, pub fails: RefCell<Vec<String>>, pub counts: RefCell<HashMap<&'static str, u64>> }
impl<'a> Obs<'a> {
    pub fn new(input: &'a str) -> Self { Obs { input, fails: RefCell::new(vec![]), counts: RefCell::new(HashMap::new()) } }
    fn fail(&self, m: String) { let mut f = self.fails.borrow_mut(); if f.len() < 3 { f.push(m); } }
    fn count(&self, k: &'static str) { *self.counts.borrow_mut().entry(k).or_default() += 1; }
}

fn limit_hit(s: &St<'_>) -> bool {
    // the call counter is part of the snapshot: "calls=<n>"; refusal is visible as Err with no counter change, so
    // the oracle conditions below are only evaluated when the counter moved (i.e. the call was not refused).
    let _ = s; false
}

thread_local! { pub static FNS: RefCell<HashMap<String, Prog>> = RefCell::new(HashMap::new()); }
pub fn run<'i>(p: &Prog, env: &[Prog], s: St<'i>, o: &Obs<'i>) -> ParseResult<St<'i>> {
    use Prog::*;
    match p {
        Fn(n) => { let f = FNS.with(|m| m.borrow().get(n).cloned()); return match f { Some(f) => run(&f, env, s, o), None => panic!("undefined function {}", n) }; }
        FnSkip => { let f = FNS.with(|m| m.borrow().get("skip").cloned()); return match f { Some(f) => run(&f, env, s, o), None => panic!("no skip function") }; }
        IfNA(q) => { return if s.atomicity() == Atomicity::NonAtomic { run(q, env, s, o) } else { Result::Ok(s) }; }
        _ => {}
    }
    let _ = limit_hit;
    match p {
        Ok => Result::Ok(s), Fail => Err(s),
        Call(i) => run(&env[*i], env, s, o),
        And(a, b) => run(a, env, s, o).and_then(|s| run(b, env, s, o)),
        Or(a, b) => run(a, env, s, o).or_else(|s| run(b, env, s, o)),
        Seq(a) => {
            let before = snap_of(&s.verif_snapshot());
            let r = s.sequence(|s| run(a, env, s, o));
            if let Err(ns) = &r { o.count("sequence_failed"); let after = snap_of(&ns.verif_snapshot());
                if after.pos != before.pos || after.queue != before.queue || after.stack != before.stack || after.depth != before.depth { o.fail(format!("failed sequence did not restore: before {:?} after {:?}", before, after)); } }
            r
        }
        Opt(a) => s.optional(|s| run(a, env, s, o)),
        Rep(a) => s.repeat(|s| run(a, env, s, o)),
        La(pos, a) => {
            let before = snap_of(&s.verif_snapshot());
            let r = s.lookahead(*pos, |s| run(a, env, s, o));
            let ns = match &r { Result::Ok(ns) => ns, Err(ns) => ns };
            o.count(if r.is_ok() { "lookahead_ok" } else { "lookahead_err" });
            let after = snap_of(&ns.verif_snapshot());
            if after.pos != before.pos || after.queue != before.queue || after.stack != before.stack || after.depth != before.depth || after.la != before.la { o.fail(format!("lookahead changed the state: before {:?} after {:?}", before, after)); }
            r
        }
        At(a, b) => s.atomic(match a { 'A' => Atomicity::Atomic, 'C' => Atomicity::CompoundAtomic, _ => Atomicity::NonAtomic }, |s| run(b, env, s, o)),
        Rule(r, a) => {
            let before_line = s.verif_snapshot();
            let before = snap_of(&before_line);
            let calls_before = before_line.split(" calls=").nth(1).unwrap().split(' ').next().unwrap().to_string();
            let body_start = RefCell::new(None::<Snap>);
            let body_end = RefCell::new(None::<(bool, Snap)>);
            let res = s.rule(R(*r), |s| { *body_start.borrow_mut() = Some(snap_of(&s.verif_snapshot())); let x = run(a, env, s, o);
                let ns = match &x { Result::Ok(ns) => ns, Err(ns) => ns }; *body_end.borrow_mut() = Some((x.is_ok(), snap_of(&ns.verif_snapshot()))); x });
            let ns = match &res { Result::Ok(ns) => ns, Err(ns) => ns };
            let after_line = ns.verif_snapshot();
            let after = snap_of(&after_line);
            let refused = body_start.borrow().is_none();
            let _ = calls_before;
            if !refused {
                let emits = before.la == "N" && before.at != "A";
                let (_, bend) = body_end.borrow().clone().unwrap();
                if res.is_ok() {
                    if emits {
                        o.count("rule_emits");
                        // queue = before ++ [S(end)@start] ++ inner ++ [E(start):r@end]; inner = what the body emitted
                        let n0 = before.queue.len(); let n1 = after.queue.len();
                        let inner_ok = n1 >= n0 + 2 && after.queue[..n0] == before.queue[..] && after.queue[n0] == format!("S{}@{}", n1 - 1, before.pos)
                            && after.queue[n1 - 1].starts_with(&format!("E{}:{}:", n0, r)) && after.queue[n1 - 1].ends_with(&format!("@{}", bend.pos))
                            && after.queue[n0 + 1..n1 - 1] == bend.queue[n0 + 1..] && after.pos == bend.pos;
                        if !inner_ok { o.fail(format!("successful rule {} did not emit one balanced pair around what its body consumed: before {:?} after {:?}", r, before.queue, after.queue)); }
                    } else {
                        o.count("rule_silent_mode");
                        if after.queue != bend.queue { o.fail(format!("rule in look-ahead/atomic mode emitted tokens of its own: {:?} vs body {:?}", after.queue, bend.queue)); }
                    }
                } else {
                    o.count("rule_failed");
                    if emits && after.queue != before.queue { o.fail(format!("failed rule left tokens: before {:?} after {:?}", before.queue, after.queue)); }
                }
            }
            res
        }
        Push(a) => {
            let before = snap_of(&s.verif_snapshot());
            let r = s.stack_push(|s| run(a, env, s, o));
            if let Result::Ok(ns) = &r { let after = snap_of(&ns.verif_snapshot()); o.count("stack_push_ok");
                let top = after.stack.split(' ').last().unwrap_or("").to_string();
                if after.pos < before.pos || !o.input.is_char_boundary(after.pos) || top != hexs(&o.input[before.pos..after.pos]) { o.fail(format!("stack_push did not push the consumed span: {:?} -> {:?}", before, after)); } }
            r
        }
        Roe(a) => {
            let before = snap_of(&s.verif_snapshot());
            let r = s.restore_on_err(|s| run(a, env, s, o));
            if let Err(ns) = &r { let after = snap_of(&ns.verif_snapshot()); o.count("restore_on_err_failed"); if after.stack != before.stack || after.depth != before.depth { o.fail(format!("restore_on_err did not restore the stack: {:?} -> {:?}", before, after)); } }
            r
        }
        Str(x) => { let p0 = s.position().pos(); let want = o.input[p0..].starts_with(x.as_str()); let r = s.match_string(x); check_prim(o, "match_string", p0, want, x.len(), &r); r }
        Ins(x) => { let p0 = s.position().pos(); let want = o.input[p0..].get(..x.len()).map_or(false, |t| t.eq_ignore_ascii_case(x)); let r = s.match_insensitive(x); check_prim(o, "match_insensitive", p0, want, x.len(), &r); r }
        Rng(a, b) => { let p0 = s.position().pos(); let c = o.input[p0..].chars().next(); let want = c.map_or(false, |c| *a <= c && c <= *b); let r = s.match_range(*a..*b); check_prim(o, "match_range", p0, want, c.map_or(0, |c| c.len_utf8()), &r); r }
        Cby(rs) => { let p0 = s.position().pos(); let c = o.input[p0..].chars().next(); let f = |c: char| rs.iter().any(|(lo, hi)| *lo <= c as u32 && c as u32 <= *hi); let want = c.map_or(false, f); let r = s.match_char_by(f); check_prim(o, "match_char_by", p0, want, c.map_or(0, |c| c.len_utf8()), &r); r }
        Skip(n) => { let p0 = s.position().pos(); let mut it = o.input[p0..].char_indices(); let want = o.input[p0..].chars().count() >= *n; let adv = if want { it.nth(*n).map(|(i, _)| i).unwrap_or(o.input.len() - p0) } else { 0 }; let r = s.skip(*n); check_prim(o, "skip", p0, want, adv, &r); r }
        Until(ss) => {
            let p0 = s.position().pos();
            let refs: Vec<&str> = ss.iter().map(|x| x.as_str()).collect();
            let r = s.skip_until(&refs);
            // contract: stops at the first boundary in p0..len where one of the strings matches, else at the end; always Ok
            let want = (p0..o.input.len()).filter(|i| o.input.is_char_boundary(*i)).find(|i| ss.iter().any(|x| o.input[*i..].starts_with(x.as_str()))).unwrap_or(o.input.len());
            match &r { Result::Ok(ns) => { o.count("skip_until"); if ns.position().pos() != want { o.fail(format!("skip_until{:?} from {} stopped at {} but the first match is at {}", ss, p0, ns.position().pos(), want)); } } Err(_) => o.fail("skip_until returned Err".into()) }
            r
        }
        Soi => s.start_of_input(), Eoi => s.end_of_input(),
        Peek | Pop | MPeek | MPop | Drop => {
            // the stack readers, read directly from their documentation: they match the text of the top entry (PEEK, POP) or of
            // all entries from the top down (PEEK_ALL, POP_ALL) at the position, advance over exactly that text on success and do
            // not move on failure; DROP never moves
            let before_line = s.verif_snapshot();
            // (PEEK and POP are counted calls: under a call limit they may be refused, which is C12's subject, not a contract of this list)
            let unlimited = before_line.contains(" calls=-1");
            let before = snap_of(&before_line);
            let elems: Vec<String> = before.stack.split(' ').filter(|x| !x.is_empty()).map(|h| crate::unhexs(h).unwrap()).collect();
            let (name, whole) = match p { Peek => ("stack_peek", false), Pop => ("stack_pop", false), MPeek => ("stack_match_peek", true), MPop => ("stack_match_pop", true), _ => ("stack_drop", false) };
            let drop = matches!(p, Drop);
            let r = match p { Peek => s.stack_peek(), Pop => s.stack_pop(), MPeek => s.stack_match_peek(), MPop => s.stack_match_pop(), _ => s.stack_drop() };
            let text: Option<String> = if drop { if elems.is_empty() { None } else { Some(String::new()) } } else if whole { Some(elems.iter().rev().cloned().collect()) } else { elems.last().cloned() };
            if let (Some(t), true) = (text, unlimited) {   // (PEEK / POP on an empty stack panic: not a contract of this list)
                let want = o.input[before.pos..].starts_with(t.as_str());
                check_prim(o, name, before.pos, want, t.len(), &r);
                let ns = match &r { Result::Ok(ns) => ns, Err(ns) => ns };
                let after = snap_of(&ns.verif_snapshot());
                if matches!(p, Peek | MPeek) && after.stack != before.stack { o.fail(format!("{} changed the stack: {:?} -> {:?}", name, before.stack, after.stack)); }
                if matches!(p, MPop) && r.is_ok() && !after.stack.trim().is_empty() { o.fail(format!("stack_match_pop succeeded and left entries on the stack: {:?}", after.stack)); }
            }
            r
        }
        Slice(a, b, d) => {
            let before = snap_of(&s.verif_snapshot());
            let r = s.stack_match_peek_slice(*a, *b, if *d { MatchDir::BottomToTop } else { MatchDir::TopToBottom });
            // Rust slice semantics with negative indices
            let elems: Vec<String> = before.stack.split(' ').filter(|x| !x.is_empty()).map(|h| crate::unhexs(h).unwrap()).collect();
            let len = elems.len() as i64;
            let norm = |i: i64| -> Option<i64> { if i > len { None } else if i >= 0 { Some(i) } else if len + i >= 0 { Some(len + i) } else { None } };
            let want: Option<usize> = (|| { let st = norm(*a as i64)?; let en = match b { Some(e) => norm(*e as i64)?, None => len }; if en <= st { return Some(before.pos); }
                let mut sl: Vec<&String> = elems[st as usize..en as usize].iter().collect(); if !*d { sl.reverse(); } let mut p = before.pos; for e in sl { if o.input[p..].starts_with(e.as_str()) { p += e.len(); } else { return None; } } Some(p) })();
            let ns = match &r { Result::Ok(ns) => ns, Err(ns) => ns };
            let after = snap_of(&ns.verif_snapshot()); o.count("peek_slice");
            if after.stack != before.stack || r.is_ok() != want.is_some() || after.pos != want.unwrap_or(before.pos) { o.fail(format!("stack_match_peek_slice({},{:?},{}) wrong: before {:?} after {:?} want {:?}", a, b, d, before, after, want)); }
            r
        }
        Lit(x) => s.stack_push_literal(x.clone()),
        Tag(t) => s.tag_node(intern(t)),
        Fn(_) | FnSkip | IfNA(_) => unreachable!(),
    }
}

fn check_prim(o: &Obs<'_>, name: &'static str, p0: usize, want: bool, adv: usize, r: &ParseResult<St<'_>>) {
    o.count(name);
    let (ok, ns) = match r { Result::Ok(ns) => (true, ns), Err(ns) => (false, ns) };
    let p1 = ns.position().pos();
    if ok != want { o.fail(format!("{} at {}: returned {} but a direct reading says {}", name, p0, ok, want)); }
    else if ok && p1 != p0 + adv { o.fail(format!("{} at {}: advanced to {} instead of {}", name, p0, p1, p0 + adv)); }
    else if !ok && p1 != p0 { o.fail(format!("{} at {}: moved to {} on failure", name, p0, p1)); }
    if !o.input.is_char_boundary(p1) { o.fail(format!("{} left the position off a UTF-8 boundary ({})", name, p1)); }
}

pub fn la_name(l: Lookahead) -> &'static str { match l { Lookahead::Positive => "P", Lookahead::Negative => "G", Lookahead::None => "N" } }

/// The same interpreter without the oracle's snapshots (used to execute generated code at speed).
pub fn run_fast<'i>(p: &Prog, env: &[Prog], s: St<'i>) -> ParseResult<St<'i>> {
    use Prog::*;
    match p {
        Fn(n) => { let f = FNS.with(|m| m.borrow().get(n).cloned()); match f { Some(f) => run_fast(&f, env, s), None => panic!("undefined function {}", n) } }
        FnSkip => { let f = FNS.with(|m| m.borrow().get("skip").cloned()); match f { Some(f) => run_fast(&f, env, s), None => panic!("no skip function") } }
        IfNA(q) => if s.atomicity() == Atomicity::NonAtomic { run_fast(q, env, s) } else { Result::Ok(s) },
        Ok => Result::Ok(s), Fail => Err(s),
        Call(i) => run_fast(&env[*i], env, s),
        And(a, b) => run_fast(a, env, s).and_then(|s| run_fast(b, env, s)),
        Or(a, b) => run_fast(a, env, s).or_else(|s| run_fast(b, env, s)),
        Seq(a) => s.sequence(|s| run_fast(a, env, s)),
        Opt(a) => s.optional(|s| run_fast(a, env, s)),
        Rep(a) => s.repeat(|s| run_fast(a, env, s)),
        La(pos, a) => s.lookahead(*pos, |s| run_fast(a, env, s)),
        At(a, b) => s.atomic(match a { 'A' => Atomicity::Atomic, 'C' => Atomicity::CompoundAtomic, _ => Atomicity::NonAtomic }, |s| run_fast(b, env, s)),
        Rule(r, a) => s.rule(R(*r), |s| run_fast(a, env, s)),
        Push(a) => s.stack_push(|s| run_fast(a, env, s)),
        Roe(a) => s.restore_on_err(|s| run_fast(a, env, s)),
        Str(x) => s.match_string(x), Ins(x) => s.match_insensitive(x), Rng(a, b) => s.match_range(*a..*b),
        Cby(rs) => s.match_char_by(|c| rs.iter().any(|(lo, hi)| *lo <= c as u32 && c as u32 <= *hi)),
        Skip(n) => s.skip(*n),
        Until(ss) => { let refs: Vec<&str> = ss.iter().map(|x| x.as_str()).collect(); s.skip_until(&refs) }
        Soi => s.start_of_input(), Eoi => s.end_of_input(),
        Peek => s.stack_peek(), Pop => s.stack_pop(), MPeek => s.stack_match_peek(), MPop => s.stack_match_pop(), Drop => s.stack_drop(),
        Slice(a, b, d) => s.stack_match_peek_slice(*a, *b, if *d { MatchDir::BottomToTop } else { MatchDir::TopToBottom }),
        Lit(x) => s.stack_push_literal(x.clone()),
        Tag(t) => s.tag_node(intern(t)),
    }
}
