import PestModel.Model.Ref
import PestModel.Model.RefSpec
/-!
C01 / C09: when every name resolves, nothing reads a single stack entry or pushes, and bounded repetitions have non-empty
unrollings, the reference semantics has no "no meaning" (`stuck`) outcome — the outcome that stands for a panic of the back-ends.
-/
namespace PestModel.Ref
open PestModel.G
open PestModel.LineCol (Str bLen cLen splitAt?)
open PestModel.Views (Tree)
open PestModel.PS (Atomicity CharSet restAt eqIgnoreAsciiCase normalizeIndex)

/-- the built-in rule names that never get stuck (everything `call` knows except the stack readers). -/
def plainBuiltins : List String :=
  ["ANY", "SOI", "EOI", "PEEK_ALL", "POP_ALL", "DROP", "ASCII_DIGIT", "ASCII_NONZERO_DIGIT", "ASCII_BIN_DIGIT", "ASCII_OCT_DIGIT",
   "ASCII_HEX_DIGIT", "ASCII_ALPHA_LOWER", "ASCII_ALPHA_UPPER", "ASCII_ALPHA", "ASCII_ALPHANUMERIC", "ASCII", "NEWLINE"]

/-- the name resolves: a rule of the grammar, a built-in that cannot get stuck, or a property the Unicode table knows. -/
def nameOK (c : Ctx) (n : String) : Bool :=
  c.has n || plainBuiltins.contains n || (n ≠ "PEEK" && n ≠ "POP" && (c.uni n).isSome)

/-- an expression whose evaluation has no "no meaning" case: every name resolves, no `PUSH` (its slice) and no `PEEK`/`POP`
(empty stack), and every bounded repetition has a non-empty unrolling. -/
def NS (c : Ctx) : Expr → Bool
  | .ident n => nameOK c n
  | .push _ => false
  | .posPred e | .negPred e | .opt e | .rep e | .repOnce e | .nodeTag e _ => NS c e
  | .repExact e n => NS c e && decide (0 < n)
  | .repMin e _ => NS c e
  | .repMax e n => NS c e && decide (0 < n)
  | .repMinMax e _ hi => NS c e && decide (0 < hi)
  | .seq a b | .choice a b => NS c a && NS c b
  | _ => true

/-- all rule bodies are such expressions. -/
def RulesNS (c : Ctx) : Prop := ∀ name id r, c.rule? name = some (id, r) → NS c r.expr = true

theorem lit_ns (c : Ctx) (s : St) (str : Str) : lit c s str ≠ .stuck := by
  unfold lit; split
  · split <;> simp
  · simp

theorem oneChar_ns (c : Ctx) (s : St) (p : Char → Bool) : oneChar c s p ≠ .stuck := by
  unfold oneChar; split
  · split <;> simp
  · simp

theorem seqOfList_ns (c : Ctx) : ∀ (l : List Expr) (u : Expr), seqOfList l = some u → (∀ x ∈ l, NS c x = true) → NS c u = true
  | [], u, h, _ => by simp [seqOfList] at h
  | [e], u, h, hl => by simp [seqOfList] at h; subst h; exact hl _ (by simp)
  | e :: e2 :: es, u, h, hl => by
    simp only [seqOfList] at h
    cases hr : seqOfList (e2 :: es) with
    | none => simp [hr] at h
    | some v =>
      simp only [hr, Option.map_some, Option.some.injEq] at h
      subst h
      simp only [NS, Bool.and_eq_true]
      exact ⟨hl e (by simp), seqOfList_ns c (e2 :: es) v hr (fun x hx => hl x (List.mem_cons_of_mem _ hx))⟩

theorem seqOfList_isSome : ∀ (l : List Expr), l ≠ [] → (seqOfList l).isSome = true
  | [], h => absurd rfl h
  | [e], _ => rfl
  | e :: e2 :: es, _ => by
    simp only [seqOfList]
    have := seqOfList_isSome (e2 :: es) (by simp)
    cases h : seqOfList (e2 :: es) with
    | none => simp [h] at this
    | some v => rfl

structure IHns (c : Ctx) (f : Nat) : Prop where
  den : ∀ m la e s, NS c e = true → denote c f m la e s ≠ .stuck
  rep : ∀ m la e s acc, NS c e = true → repLoop c f m la e s acc ≠ .stuck
  skp : ∀ m la s, skipWs c f m la s ≠ .stuck
  star : ∀ la n s acc, nameOK c n = true → star c f la n s acc ≠ .stuck
  cmt : ∀ la s acc, c.has "COMMENT" = true → c.has "WHITESPACE" = true → commentLoop c f la s acc ≠ .stuck
  call : ∀ m la n s, nameOK c n = true → call c f m la n s ≠ .stuck

theorem ihns_zero (c : Ctx) : IHns c 0 where
  den := by intros; simp [denote]
  rep := by intros; simp [repLoop]
  skp := by intros; simp [skipWs]
  star := by intros; simp [star]
  cmt := by intros; simp [commentLoop]
  call := by intros; simp [call]

theorem star_ns {c : Ctx} {f : Nat} (ih : IHns c f) (la : Bool) (n : String) (s : St) (acc : List Tree)
    (hn : nameOK c n = true) : star c (f + 1) la n s acc ≠ .stuck := by
  simp only [star]
  have g := ih.call .nonAtomic la n s hn
  cases hres : call c f .nonAtomic la n s with
  | ok s1 f1 => exact ih.star la n s1 _ hn
  | fail => simp
  | stuck => exact absurd hres g
  | fuel => simp

theorem has_nameOK {c : Ctx} {n : String} (h : c.has n = true) : nameOK c n = true := by simp [nameOK, h]

theorem cmt_ns {c : Ctx} {f : Nat} (ih : IHns c f) (la : Bool) (s : St) (acc : List Tree)
    (hc : c.has "COMMENT" = true) (hw : c.has "WHITESPACE" = true) : commentLoop c (f + 1) la s acc ≠ .stuck := by
  simp only [commentLoop]
  have g := ih.call .nonAtomic la "COMMENT" s (has_nameOK hc)
  cases hres : call c f .nonAtomic la "COMMENT" s with
  | ok s1 f1 =>
    simp only []
    have g2 := ih.star la "WHITESPACE" s1 [] (has_nameOK hw)
    cases hres2 : star c f la "WHITESPACE" s1 [] with
    | ok s2 f2 => exact ih.cmt la s2 _ hc hw
    | fail => simp
    | stuck => exact absurd hres2 g2
    | fuel => simp
  | fail => simp
  | stuck => exact absurd hres g
  | fuel => simp

theorem skp_ns {c : Ctx} {f : Nat} (ih : IHns c f) (m : Atomicity) (la : Bool) (s : St) : skipWs c (f + 1) m la s ≠ .stuck := by
  simp only [skipWs]
  split
  · simp
  · split
    · simp
    · rename_i hw _; exact ih.star la "WHITESPACE" s [] (has_nameOK hw)
    · rename_i _ hc; exact ih.star la "COMMENT" s [] (has_nameOK hc)
    · rename_i hw hc
      have g := ih.star la "WHITESPACE" s [] (has_nameOK hw)
      cases hres : star c f la "WHITESPACE" s [] with
      | ok s1 f1 => exact ih.cmt la s1 f1 hc hw
      | fail => simp
      | stuck => exact absurd hres g
      | fuel => simp

theorem rep_ns {c : Ctx} {f : Nat} (ih : IHns c f) (m : Atomicity) (la : Bool) (e : Expr) (s : St) (acc : List Tree)
    (he : NS c e = true) : repLoop c (f + 1) m la e s acc ≠ .stuck := by
  simp only [repLoop]
  have g := ih.skp m la s
  cases hres : skipWs c f m la s with
  | ok s1 f1 =>
    simp only []
    have g2 := ih.den m la e s1 he
    cases hres2 : denote c f m la e s1 with
    | ok s2 f2 => exact ih.rep m la e s2 _ he
    | fail => simp
    | stuck => exact absurd hres2 g2
    | fuel => simp
  | fail => simp
  | stuck => exact absurd hres g
  | fuel => simp

theorem call_ns {c : Ctx} {f : Nat} (hr : RulesNS c) (ih : IHns c f) (m : Atomicity) (la : Bool) (n : String) (s : St)
    (hn : nameOK c n = true) : call c (f + 1) m la n s ≠ .stuck := by
  simp only [call]
  split
  · rename_i id r hrule
    have g := ih.den (bodyMode r.name r.ty m) la r.expr s (hr n id r hrule)
    cases hres : denote c f (bodyMode r.name r.ty m) la r.expr s with
    | ok s1 f1 => simp only []; split <;> simp
    | fail => simp
    | stuck => exact absurd hres g
    | fuel => simp
  · rename_i hnone
    have hhas : c.has n = false := by simp [Ctx.has, hnone]
    simp only [nameOK, hhas, Bool.false_or, Bool.or_eq_true, Bool.and_eq_true, decide_eq_true_eq] at hn
    split
    all_goals first
      | exact oneChar_ns c s _
      | exact lit_ns c s _
      | skip
    · split <;> simp
    · split <;> simp
    · rcases hn with hn | hn
      · simp [plainBuiltins] at hn
      · exact absurd rfl hn.1.1
    · rcases hn with hn | hn
      · simp [plainBuiltins] at hn
      · exact absurd rfl hn.1.2
    · split <;> simp
    · split <;> simp
    · split <;> simp
    · have g1 := lit_ns c s ['\n']
      have g2 := lit_ns c s ['\r', '\n']
      have g3 := lit_ns c s ['\r']
      split
      · split
        · exact g3
        · exact g2
      · exact g1
    · rcases hn with hn | hn
      · simp only [plainBuiltins, List.contains_iff_mem, List.mem_cons, List.not_mem_nil, or_false] at hn
        rename_i h1 h2 h3 h4 h5 h6 h7 h8 h9 h10 h11 h12 h13 h14 h15 h16 h17 h18 h19
        rcases hn with rfl | rfl | rfl | rfl | rfl | rfl | rfl | rfl | rfl | rfl | rfl | rfl | rfl | rfl | rfl | rfl | rfl <;> simp_all
      · obtain ⟨cs, hcs⟩ := Option.isSome_iff_exists.1 hn.2
        simp only [hcs]
        exact oneChar_ns c s _

theorem den_ns {c : Ctx} {f : Nat} (ih : IHns c f) (m : Atomicity) (la : Bool) (e : Expr) (s : St) (he : NS c e = true) :
    denote c (f + 1) m la e s ≠ .stuck := by
  cases e with
  | str str => simp only [denote]; exact lit_ns c s str
  | insens str =>
    simp only [denote]
    split
    · split
      · split <;> simp
      · simp
    · simp
  | range a b => simp only [denote]; exact oneChar_ns c s _
  | ident n => simp only [denote]; exact ih.call m la n s (by simpa [NS] using he)
  | peekSlice a b =>
    simp only [denote]
    split
    · split
      · simp
      · split <;> simp
    · simp
  | posPred e =>
    simp only [denote]
    have g := ih.den m true e s (by simpa [NS] using he)
    cases hres : denote c f m true e s with
    | ok s1 f1 => simp
    | fail => simp
    | stuck => exact absurd hres g
    | fuel => simp
  | negPred e =>
    simp only [denote]
    have g := ih.den m true e s (by simpa [NS] using he)
    cases hres : denote c f m true e s with
    | ok s1 f1 => simp
    | fail => simp
    | stuck => exact absurd hres g
    | fuel => simp
  | seq a b =>
    simp only [NS, Bool.and_eq_true] at he
    simp only [denote]
    have g1 := ih.den m la a s he.1
    cases h1 : denote c f m la a s with
    | ok s1 f1 =>
      simp only []
      have g2 := ih.skp m la s1
      cases h2 : skipWs c f m la s1 with
      | ok s2 f2 =>
        simp only []
        have g3 := ih.den m la b s2 he.2
        cases h3 : denote c f m la b s2 with
        | ok s3 f3 => simp
        | fail => simp
        | stuck => exact absurd h3 g3
        | fuel => simp
      | fail => simp
      | stuck => exact absurd h2 g2
      | fuel => simp
    | fail => simp
    | stuck => exact absurd h1 g1
    | fuel => simp
  | choice a b =>
    simp only [NS, Bool.and_eq_true] at he
    simp only [denote]
    have g1 := ih.den m la a s he.1
    cases h1 : denote c f m la a s with
    | ok s1 f1 => simp
    | fail => exact ih.den m la b s he.2
    | stuck => exact absurd h1 g1
    | fuel => simp
  | opt e =>
    simp only [denote]
    have g := ih.den m la e s (by simpa [NS] using he)
    cases hres : denote c f m la e s with
    | ok s1 f1 => simp
    | fail => simp
    | stuck => exact absurd hres g
    | fuel => simp
  | rep e =>
    have he' : NS c e = true := by simpa [NS] using he
    simp only [denote]
    have g := ih.den m la e s he'
    cases hres : denote c f m la e s with
    | ok s1 f1 => exact ih.rep m la e s1 f1 he'
    | fail => simp
    | stuck => exact absurd hres g
    | fuel => simp
  | repOnce e =>
    have he' : NS c e = true := by simpa [NS] using he
    simp only [denote]
    split
    · have g := ih.den m la e s he'
      cases hres : denote c f m la e s with
      | ok s1 f1 => exact ih.rep m la e s1 f1 he'
      | fail => simp
      | stuck => exact absurd hres g
      | fuel => simp
    · exact ih.den m la _ s (by simp [NS, he'])
  | skip strs =>
    simp only [denote]
    split <;> simp
  | push e => simp [NS] at he
  | pushLiteral str => simp [denote]
  | nodeTag e t =>
    simp only [denote]
    have g := ih.den m la e s (by simpa [NS] using he)
    cases hres : denote c f m la e s with
    | ok s1 f1 => simp
    | fail => simp
    | stuck => exact absurd hres g
    | fuel => simp
  | repExact e n =>
    simp only [NS, Bool.and_eq_true, decide_eq_true_eq] at he
    simp only [denote]
    have hs := seqOfList_isSome (List.replicate n e) (by cases n with | zero => omega | succ k => simp [List.replicate])
    obtain ⟨u, hu⟩ := Option.isSome_iff_exists.1 hs
    simp only [hu]
    exact ih.den m la u s (seqOfList_ns c _ u hu (fun x hx => by rw [List.eq_of_mem_replicate hx]; exact he.1))
  | repMin e n =>
    have he' : NS c e = true := by simpa [NS] using he
    simp only [denote]
    have hs := seqOfList_isSome (List.replicate n e ++ [.rep e]) (by simp)
    obtain ⟨u, hu⟩ := Option.isSome_iff_exists.1 hs
    simp only [hu]
    refine ih.den m la u s (seqOfList_ns c _ u hu (fun x hx => ?_))
    rcases List.mem_append.1 hx with hx | hx
    · rw [List.eq_of_mem_replicate hx]; exact he'
    · simp at hx; subst hx; simpa [NS] using he'
  | repMax e n =>
    simp only [NS, Bool.and_eq_true, decide_eq_true_eq] at he
    simp only [denote]
    have hs := seqOfList_isSome (List.replicate n (.opt e)) (by cases n with | zero => omega | succ k => simp [List.replicate])
    obtain ⟨u, hu⟩ := Option.isSome_iff_exists.1 hs
    simp only [hu]
    exact ih.den m la u s (seqOfList_ns c _ u hu (fun x hx => by rw [List.eq_of_mem_replicate hx]; simpa [NS] using he.1))
  | repMinMax e lo hi =>
    simp only [NS, Bool.and_eq_true, decide_eq_true_eq] at he
    simp only [denote]
    have hs := seqOfList_isSome ((List.range hi).map fun i => if i + 1 ≤ lo then e else .opt e)
      (by cases hi with | zero => omega | succ k => simp [List.range_succ])
    obtain ⟨u, hu⟩ := Option.isSome_iff_exists.1 hs
    simp only [hu]
    refine ih.den m la u s (seqOfList_ns c _ u hu (fun x hx => ?_))
    obtain ⟨i, _, rfl⟩ := List.mem_map.1 hx
    split
    · exact he.1
    · simpa [NS] using he.1

theorem ihns_all (c : Ctx) (hr : RulesNS c) : ∀ f, IHns c f
  | 0 => ihns_zero c
  | f + 1 =>
    have ih := ihns_all c hr f
    ⟨den_ns ih, rep_ns ih, skp_ns ih, star_ns ih, cmt_ns ih, call_ns hr ih⟩

/-- **No "no meaning" outcome**: when every name in the grammar resolves, nothing reads a single stack entry or pushes, and
every bounded repetition has a non-empty unrolling, the reference semantics never gets stuck — from any defined rule, any
mode, any state. -/
theorem call_never_stuck (c : Ctx) (hr : RulesNS c) (f : Nat) (m : Atomicity) (la : Bool) (n : String) (s : St)
    (hn : nameOK c n = true) : call c f m la n s ≠ .stuck :=
  (ihns_all c hr f).call m la n s hn
end PestModel.Ref
