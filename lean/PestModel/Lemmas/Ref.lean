import PestModel.Model.RefSpec
/-!
Helper lemmas for C05, part 1: the reference semantics as the limit of its fuel approximations.

* `Fam`: the six mutually recursive functions as one record; `step c X` = one unfolding of the
  mutual block with the recursive calls replaced by `X`; `lev c n` = the block at fuel `n`.
* `step` is monotone for the flat order `Res.le` (`step_mono`) and continuous (`step_conv`).
* `V c` = the pointwise limit; `V c = step c (V c)`.
-/
namespace PestModel.Ref
open PestModel.G
open PestModel.LineCol (Str bLen cLen splitAt?)
open PestModel.Views (Tree)
open PestModel.PS (Atomicity CharSet restAt asciiLower eqIgnoreAsciiCase normalizeIndex)

/-- `r ⊑ r'`: `r` is `.fuel` or already the final answer. -/
def Res.le (r r' : Res) : Prop := r = .fuel ∨ r = r'

theorem Res.le_refl (r : Res) : r.le r := Or.inr rfl
theorem Res.fuel_le (r : Res) : Res.le .fuel r := Or.inl rfl
theorem Res.le_trans {a b c : Res} (h1 : a.le b) (h2 : b.le c) : a.le c := by
  rcases h1 with h1 | h1
  · exact Or.inl h1
  · subst h1; exact h2

structure Fam where
  d : Atomicity → Bool → Expr → St → Res
  l : Atomicity → Bool → Expr → St → List Tree → Res
  k : Atomicity → Bool → St → Res
  st : Bool → String → St → List Tree → Res
  cl : Bool → St → List Tree → Res
  ca : Atomicity → Bool → String → St → Res

def denoteF (c : Ctx) (X : Fam) (m : Atomicity) (la : Bool) (e : Expr) (s : St) : Res :=
  match e with
  | .str str => lit c s str
  | .insens str =>
    match restAt c.input s.pos with
    | some rest =>
      match splitAt? rest (bLen str) with
      | some (pre, _) => if eqIgnoreAsciiCase pre str then .ok { s with pos := s.pos + bLen str } [] else .fail
      | none => .fail
    | none => .fail
  | .range a b => oneChar c s (fun ch => a ≤ ch ∧ ch ≤ b)
  | .ident n => X.ca m la n s
  | .peekSlice a b =>
    let len := s.stack.length
    match normalizeIndex a len, (match b with | some e => normalizeIndex e len | none => some len) with
    | some i, some j =>
      if j ≤ i then .ok s [] else
      match matchStrs c.input ((s.stack.reverse.drop i).take (j - i)) s.pos with
      | some p => .ok { s with pos := p } []
      | none => .fail
    | _, _ => .fail
  | .posPred e =>
    match X.d m true e s with
    | .ok _ _ => .ok s []
    | r => r
  | .negPred e =>
    match X.d m true e s with
    | .ok _ _ => .fail
    | .fail => .ok s []
    | r => r
  | .seq a b =>
    match X.d m la a s with
    | .ok s1 f1 =>
      match X.k m la s1 with
      | .ok s2 f2 =>
        match X.d m la b s2 with
        | .ok s3 f3 => .ok s3 (f1 ++ f2 ++ f3)
        | r => r
      | r => r
    | r => r
  | .choice a b =>
    match X.d m la a s with
    | .fail => X.d m la b s
    | r => r
  | .opt e =>
    match X.d m la e s with
    | .fail => .ok s []
    | r => r
  | .rep e =>
    match X.d m la e s with
    | .ok s1 f1 => X.l m la e s1 f1
    | .fail => .ok s []
    | r => r
  | .repOnce e =>
    if c.extras then
      match X.d m la e s with
      | .ok s1 f1 => X.l m la e s1 f1
      | r => r
    else X.d m la (.seq e (.rep e)) s
  | .skip strs =>
    match restAt c.input s.pos with
    | some rest => .ok { s with pos := search strs rest s.pos } []
    | none => .fail
  | .push e =>
    match X.d m la e s with
    | .ok s1 f1 =>
      match PestModel.LineCol.slice? c.input s.pos s1.pos with
      | some str => .ok { s1 with stack := str :: s1.stack } f1
      | none => .stuck
    | r => r
  | .pushLiteral str => .ok { s with stack := str :: s.stack } []
  | .nodeTag e t =>
    match X.d m la e s with
    | .ok s1 f1 => .ok s1 (if la then f1 else setLastTag f1 t)
    | r => r
  | .repExact e n =>
    match seqOfList (List.replicate n e) with
    | some u => X.d m la u s
    | none => .stuck
  | .repMin e n =>
    match seqOfList (List.replicate n e ++ [.rep e]) with
    | some u => X.d m la u s
    | none => .stuck
  | .repMax e n =>
    match seqOfList (List.replicate n (.opt e)) with
    | some u => X.d m la u s
    | none => .stuck
  | .repMinMax e lo hi =>
    match seqOfList ((List.range hi).map fun i => if i + 1 ≤ lo then e else .opt e) with
    | some u => X.d m la u s
    | none => .stuck

def repLoopF (X : Fam) (m : Atomicity) (la : Bool) (e : Expr) (s : St) (acc : List Tree) : Res :=
  match X.k m la s with
  | .ok s1 f1 =>
    match X.d m la e s1 with
    | .ok s2 f2 => X.l m la e s2 (acc ++ f1 ++ f2)
    | .fail => .ok s acc
    | r => r
  | .fail => .ok s acc
  | r => r

def skipWsF (c : Ctx) (X : Fam) (m : Atomicity) (la : Bool) (s : St) : Res :=
  if m ≠ .nonAtomic then .ok s [] else
  match c.has "WHITESPACE", c.has "COMMENT" with
  | false, false => .ok s []
  | true, false => X.st la "WHITESPACE" s []
  | false, true => X.st la "COMMENT" s []
  | true, true =>
    match X.st la "WHITESPACE" s [] with
    | .ok s1 f1 => X.cl la s1 f1
    | r => r

def starF (X : Fam) (la : Bool) (name : String) (s : St) (acc : List Tree) : Res :=
  match X.ca .nonAtomic la name s with
  | .ok s1 f1 => X.st la name s1 (acc ++ f1)
  | .fail => .ok s acc
  | r => r

def commentLoopF (X : Fam) (la : Bool) (s : St) (acc : List Tree) : Res :=
  match X.ca .nonAtomic la "COMMENT" s with
  | .ok s1 f1 =>
    match X.st la "WHITESPACE" s1 [] with
    | .ok s2 f2 => X.cl la s2 (acc ++ f1 ++ f2)
    | r => r
  | .fail => .ok s acc
  | r => r

/-- the built-in rules (no recursion). -/
def builtin (c : Ctx) (m : Atomicity) (la : Bool) (name : String) (s : St) : Res :=
  let rng := fun (a b : Char) => oneChar c s (fun ch => a ≤ ch ∧ ch ≤ b)
  match name with
  | "ANY" => oneChar c s (fun _ => true)
  | "SOI" => if s.pos = 0 then .ok s [] else .fail
  | "EOI" =>
    if s.pos = bLen c.input then
      .ok s (if emitsFor .normal m la then [.node c.rules.length s.pos s.pos none []] else [])
    else .fail
  | "PEEK" =>
    match s.stack with
    | [] => .stuck
    | top :: _ => lit c s top
  | "POP" =>
    match s.stack with
    | [] => .stuck
    | top :: rest =>
      match lit c s top with
      | .ok s1 f => .ok { s1 with stack := rest } f
      | r => r
  | "PEEK_ALL" =>
    match matchStrs c.input s.stack s.pos with
    | some p => .ok { s with pos := p } []
    | none => .fail
  | "POP_ALL" =>
    match matchStrs c.input s.stack s.pos with
    | some p => .ok { pos := p, stack := [] } []
    | none => .fail
  | "DROP" =>
    match s.stack with
    | [] => .fail
    | _ :: rest => .ok { s with stack := rest } []
  | "ASCII_DIGIT" => rng '0' '9'
  | "ASCII_NONZERO_DIGIT" => rng '1' '9'
  | "ASCII_BIN_DIGIT" => rng '0' '1'
  | "ASCII_OCT_DIGIT" => rng '0' '7'
  | "ASCII_HEX_DIGIT" => oneChar c s (fun ch => ('0' ≤ ch ∧ ch ≤ '9') ∨ ('a' ≤ ch ∧ ch ≤ 'f') ∨ ('A' ≤ ch ∧ ch ≤ 'F'))
  | "ASCII_ALPHA_LOWER" => rng 'a' 'z'
  | "ASCII_ALPHA_UPPER" => rng 'A' 'Z'
  | "ASCII_ALPHA" => oneChar c s (fun ch => ('a' ≤ ch ∧ ch ≤ 'z') ∨ ('A' ≤ ch ∧ ch ≤ 'Z'))
  | "ASCII_ALPHANUMERIC" => oneChar c s (fun ch => ('a' ≤ ch ∧ ch ≤ 'z') ∨ ('A' ≤ ch ∧ ch ≤ 'Z') ∨ ('0' ≤ ch ∧ ch ≤ '9'))
  | "ASCII" => rng '\x00' '\x7f'
  | "NEWLINE" =>
    match lit c s ['\n'] with
    | .fail => (match lit c s ['\r', '\n'] with | .fail => lit c s ['\r'] | r => r)
    | r => r
  | _ =>
    match c.uni name with
    | some cs => oneChar c s cs.mem
    | none => .stuck

def callF (c : Ctx) (X : Fam) (m : Atomicity) (la : Bool) (name : String) (s : St) : Res :=
  match c.rule? name with
  | some (id, r) =>
    match X.d (bodyMode r.name r.ty m) la r.expr s with
    | .ok s1 f1 =>
      if emitsFor r.ty m la then .ok s1 [.node id s.pos s1.pos none f1] else .ok s1 f1
    | res => res
  | none => builtin c m la name s

def step (c : Ctx) (X : Fam) : Fam where
  d := denoteF c X
  l := repLoopF X
  k := skipWsF c X
  st := starF X
  cl := commentLoopF X
  ca := callF c X

def lev (c : Ctx) (n : Nat) : Fam where
  d := denote c n
  l := repLoop c n
  k := skipWs c n
  st := star c n
  cl := commentLoop c n
  ca := call c n

theorem lev_succ (c : Ctx) (n : Nat) : lev c (n + 1) = step c (lev c n) := by
  simp only [lev, step, Fam.mk.injEq]
  refine ⟨?_, ?_, ?_, ?_, ?_, ?_⟩
  · funext m la e s; cases e <;> rfl
  · funext m la e s acc; rfl
  · funext m la s; rfl
  · funext la name s acc; rfl
  · funext la s acc; rfl
  · funext m la name s
    rw [call]
    simp only [callF]
    cases c.rule? name <;> rfl

theorem lev_zero_d (c : Ctx) m la e s : (lev c 0).d m la e s = .fuel := by simp [lev, denote]
theorem lev_zero_l (c : Ctx) m la e s acc : (lev c 0).l m la e s acc = .fuel := by simp [lev, repLoop]
theorem lev_zero_k (c : Ctx) m la s : (lev c 0).k m la s = .fuel := by simp [lev, skipWs]
theorem lev_zero_st (c : Ctx) la n s acc : (lev c 0).st la n s acc = .fuel := by simp [lev, star]
theorem lev_zero_cl (c : Ctx) la s acc : (lev c 0).cl la s acc = .fuel := by simp [lev, commentLoop]
theorem lev_zero_ca (c : Ctx) m la n s : (lev c 0).ca m la n s = .fuel := by simp [lev, call]

end PestModel.Ref
