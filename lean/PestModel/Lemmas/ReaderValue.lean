import PestModel.Lemmas.ReaderNoPanic
/-!
C07, pair level: **what the pairs of a grammar text denote, and that `consume_rules` computes it.**

`ExprV` / `UnArgsV` / `UnBodyV` / `PostsV` say, without reference to the reader's code, which expression a list of pairs
stands for: `~` binds tighter than `|` and both group to the left (`foldGo`), a leading `|` is ignored, a tag wraps the whole
term, prefix operators apply to everything after them in the term, postfix operators apply left to right to the node before
them, parentheses are transparent. `reads_value`: the reader returns exactly that expression.
-/
namespace PestModel.ReaderValue
open PestModel.G PestModel.Reader PestModel.ReaderFull PestModel.ReaderShape
open PestModel.Views (Tree sizeList)
open PestModel.LineCol (Str)
open PestModel.C07Full

/-- one postfix operator. -/
def PostV (text : Str) (p : Tree) (x y : Expr) : Prop :=
  (kind p = "optional_operator" ∧ y = .opt x) ∨ (kind p = "repeat_operator" ∧ y = .rep x) ∨
  (kind p = "repeat_once_operator" ∧ y = .repOnce x) ∨
  (kind p = "repeat_exact" ∧ ∃ o n c r, p.children = o :: n :: c :: r ∧ ∃ k, numberOf text n = some k ∧ k ≠ 0 ∧ y = .repExact x k) ∨
  (kind p = "repeat_min" ∧ ∃ o n r, p.children = o :: n :: r ∧ ∃ k, numberOf text n = some k ∧ y = .repMin x k) ∨
  (kind p = "repeat_max" ∧ ∃ o cm n r, p.children = o :: cm :: n :: r ∧ ∃ k, numberOf text n = some k ∧ k ≠ 0 ∧ y = .repMax x k) ∨
  (kind p = "repeat_min_max" ∧ ∃ o a cm b r, p.children = o :: a :: cm :: b :: r ∧
    ∃ lo hi, numberOf text a = some lo ∧ numberOf text b = some hi ∧ hi ≠ 0 ∧ y = .repMinMax x lo hi)

/-- postfix operators, applied left to right. -/
inductive PostsV (text : Str) : List Tree → Expr → Expr → Prop
  | nil (x : Expr) : PostsV text [] x x
  | cons {p : Tree} {ps : List Tree} {x y z : Expr} : PostV text p x y → PostsV text ps y z → PostsV text (p :: ps) x z

/-- a terminal other than `PUSH(…)`: what it denotes is what its text spells (C07's `unescape_spell`, `count_roundtrip`,
`index_roundtrip` are the theorems about the spellings). -/
def LeafV (extras : Bool) (text : Str) (t : Tree) (x : Expr) : Prop :=
  (kind t = "_push_literal" ∨ kind t = "peek_slice" ∨ kind t = "identifier" ∨ kind t = "string" ∨
    kind t = "insensitive_string" ∨ kind t = "range") ∧ leafNode extras text t = some x

mutual
  inductive ExprV (extras : Bool) (text : Str) : List Tree → Expr → Prop
    | mk (lead : List Tree) (t0 : Tree) (rest : List Tree) (x0 : Expr) (xs : List (Bool × Expr)) :
        LeadOK lead → kind t0 = "term" → UnArgsV extras text t0.children x0 → RestV extras text rest xs →
        ExprV extras text (lead ++ t0 :: rest) (foldGo none x0 xs)
  /-- `(infix_operator ~ term)*`: `true` = `|`, `false` = `~`. -/
  inductive RestV (extras : Bool) (text : Str) : List Tree → List (Bool × Expr) → Prop
    | nil : RestV extras text [] []
    | cons {p t : Tree} {ps : List Tree} {o : Bool} {x : Expr} {xs : List (Bool × Expr)} :
        IsOpOf p o → kind t = "term" → UnArgsV extras text t.children x → RestV extras text ps xs →
        RestV extras text (p :: t :: ps) ((o, x) :: xs)
  inductive UnArgsV (extras : Bool) (text : Str) : List Tree → Expr → Prop
    | tagged {g asg : Tree} {rest : List Tree} {name : Str} {x : Expr} : strOf text g = some ('#' :: name) →
        kind asg = "assignment_operator" → UnBodyV extras text rest x →
        UnArgsV extras text (g :: asg :: rest) (if extras then .nodeTag x name else x)
    | plain {rest : List Tree} {x : Expr} : UnBodyV extras text rest x → UnArgsV extras text rest x
    | parenRest {e c : Tree} {post : List Tree} {x y : Expr} : kind e = "expression" → ExprV extras text e.children x →
        kind c = "closing_paren" → PostsV text post x y → UnArgsV extras text (e :: c :: post) y
  inductive UnBodyV (extras : Bool) (text : Str) : List Tree → Expr → Prop
    | pos {p : Tree} {rest : List Tree} {x : Expr} : kind p = "positive_predicate_operator" → UnBodyV extras text rest x →
        UnBodyV extras text (p :: rest) (.posPred x)
    | neg {p : Tree} {rest : List Tree} {x : Expr} : kind p = "negative_predicate_operator" → UnBodyV extras text rest x →
        UnBodyV extras text (p :: rest) (.negPred x)
    | paren {o e c : Tree} {post : List Tree} {x y : Expr} : kind o = "opening_paren" → kind e = "expression" →
        ExprV extras text e.children x → kind c = "closing_paren" → PostsV text post x y →
        UnBodyV extras text (o :: e :: c :: post) y
    | push {t o e : Tree} {cs post : List Tree} {x y : Expr} : kind t = "_push" → t.children = o :: e :: cs →
        kind e = "expression" → ExprV extras text e.children x → PostsV text post (.push x) y →
        UnBodyV extras text (t :: post) y
    | leaf {t : Tree} {post : List Tree} {x y : Expr} : LeafV extras text t x → PostsV text post x y →
        UnBodyV extras text (t :: post) y
end

/-! ### postfix operators -/

theorem postV_kind_ne {text : Str} {p : Tree} {x y : Expr} (h : PostV text p x y) :
    kind p ≠ "assignment_operator" ∧ kind p ≠ "closing_paren" := by
  rcases h with ⟨h, _⟩ | ⟨h, _⟩ | ⟨h, _⟩ | ⟨h, _⟩ | ⟨h, _⟩ | ⟨h, _⟩ | ⟨h, _⟩ <;> simp [h]

theorem postfixOp_value {text : Str} {p : Tree} {x y : Expr} (h : PostV text p x y) : postfixOp text x p = some y := by
  rcases h with ⟨hk, rfl⟩ | ⟨hk, rfl⟩ | ⟨hk, rfl⟩ | ⟨hk, o, n, c, r, hc, k, hn, hk0, rfl⟩ | ⟨hk, o, n, r, hc, k, hn, rfl⟩ |
    ⟨hk, o, cm, n, r, hc, k, hn, hk0, rfl⟩ | ⟨hk, o, a, cm, b, r, hc, lo, hi, ha, hb, h0, rfl⟩
  · simp [postfixOp, hk]
  · simp [postfixOp, hk]
  · simp [postfixOp, hk]
  · simp [postfixOp, hk, hc, hn, hk0]
  · simp [postfixOp, hk, hc, hn]
  · simp [postfixOp, hk, hc, hn, hk0]
  · simp [postfixOp, hk, hc, ha, hb, h0]

theorem postfixes_value {text : Str} {ps : List Tree} {x y : Expr} (h : PostsV text ps x y) : postfixes text x ps = some y := by
  induction h with
  | nil x => rfl
  | cons hp _ ih => rw [postfixes_cons, postfixOp_value hp]; simpa using ih

theorem postfixes_paren_value {text : Str} {c : Tree} {ps : List Tree} {x y : Expr} (hc : kind c = "closing_paren")
    (h : PostsV text ps x y) : postfixes text x (c :: ps) = some y := by
  rw [postfixes_cons]
  have : postfixOp text x c = some x := by simp [postfixOp, hc]
  rw [this]
  simpa using postfixes_value h

theorem posts_noTag {text : Str} {ps : List Tree} {x y : Expr} (h : PostsV text ps x y) : NoTag ps := by
  intro q r hq
  cases h with
  | nil => cases hq
  | cons hp _ => cases hq; exact (postV_kind_ne hp).1


/-! ### the reader computes the denoted value -/

theorem unBodyV_cons {extras : Bool} {text : Str} {l : List Tree} {x : Expr} (h : UnBodyV extras text l x) :
    ∃ p r, l = p :: r ∧ kind p ≠ "assignment_operator" ∧ NoTag r := by
  cases h with
  | pos hk hb =>
    obtain ⟨p', r', rfl, hp', _⟩ := unBodyV_cons hb
    exact ⟨_, _, rfl, by simp [hk], by intro q r hq; cases hq; exact hp'⟩
  | neg hk hb =>
    obtain ⟨p', r', rfl, hp', _⟩ := unBodyV_cons hb
    exact ⟨_, _, rfl, by simp [hk], by intro q r hq; cases hq; exact hp'⟩
  | paren ho he _ _ _ => exact ⟨_, _, rfl, by simp [ho], by intro q r hq; cases hq; simp [he]⟩
  | push ht _ _ _ hp => exact ⟨_, _, rfl, by simp [ht], posts_noTag hp⟩
  | leaf hl hp =>
    refine ⟨_, _, rfl, ?_, posts_noTag hp⟩
    rcases hl.1 with h | h | h | h | h | h <;> simp [h]

theorem body_value {extras : Bool} {text : Str} {f : Nat}
    (ih1 : ∀ pairs e, ExprV extras text pairs e → sizeList pairs + 1 ≤ f → consumeExpr extras text f pairs = some e)
    (ih2 : ∀ pairs e, UnArgsV extras text pairs e → sizeList pairs + 1 ≤ f → unaries extras text f pairs = some e)
    {p : Tree} {r : List Tree} {x : Expr} (h : UnBodyV extras text (p :: r) x) (hfit : sizeList (p :: r) ≤ f) :
    unaries extras text (f + 1) (p :: r) = some x := by
  obtain ⟨_, _, he, _, hnt⟩ := unBodyV_cons h
  cases he
  have hp2 : 2 ≤ p.size := by rw [size_eq]; omega
  have hr : sizeList r + 1 ≤ f := by simp only [sizeList] at hfit; omega
  cases h with
  | pos hk hb => rw [unaries_pos extras text f p r hk hnt, ih2 r _ (.plain hb) hr]; rfl
  | neg hk hb => rw [unaries_neg extras text f p r hk hnt, ih2 r _ (.plain hb) hr]; rfl
  | paren ho he hx hc hp =>
    rw [unaries_paren extras text f p _ ho hnt]
    exact ih2 _ _ (.parenRest he hx hc hp) hr
  | push ht hc he hx hp =>
    rename_i o e cs x'
    rw [unaries_push extras text f p o e cs r ht hc hnt]
    have hsz : sizeList e.children + 1 ≤ f := by
      have h1 : e.size ≤ sizeList p.children := by rw [hc]; exact size_le_of_mem (by simp)
      have h2 := size_eq e
      have h3 := size_eq p
      simp only [sizeList] at hfit
      omega
    rw [ih1 _ _ hx hsz]
    simpa using postfixes_value hp
  | leaf hl hp =>
    have hk := hl.1
    rw [unaries_leaf extras text f p r (by rcases hk with h | h | h | h | h | h <;> simp [h])
      (by rcases hk with h | h | h | h | h | h <;> simp [h]) (by rcases hk with h | h | h | h | h | h <;> simp [h])
      (by rcases hk with h | h | h | h | h | h <;> simp [h]) (by rcases hk with h | h | h | h | h | h <;> simp [h]) hnt]
    rw [hl.2]
    simpa using postfixes_value hp

theorem reads_of_restV {extras : Bool} {text : Str} {f : Nat}
    (ih2 : ∀ pairs e, UnArgsV extras text pairs e → sizeList pairs + 1 ≤ f → unaries extras text f pairs = some e)
    {ps : List Tree} {xs : List (Bool × Expr)} (h : RestV extras text ps xs) (hfit : sizeList ps ≤ f) :
    Reads (fun p => unaries extras text f p.children) ps xs := by
  cases h with
  | nil => exact .nil
  | cons hop ht hu hr =>
    rename_i p t ps' o x xs'
    have h1 := size_eq t
    have hp2 : 2 ≤ p.size := by rw [size_eq]; omega
    simp only [sizeList] at hfit
    exact .cons hop (by simp [IsTerm, ht]) (ih2 _ _ hu (by omega)) (reads_of_restV ih2 hr (by omega))

/-- **`consume_expr` / `unaries` return the expression the pairs denote.** -/
theorem reads_value (extras : Bool) (text : Str) : ∀ f : Nat,
    (∀ pairs e, ExprV extras text pairs e → sizeList pairs + 1 ≤ f → consumeExpr extras text f pairs = some e) ∧
    (∀ pairs e, UnArgsV extras text pairs e → sizeList pairs + 1 ≤ f → unaries extras text f pairs = some e) := by
  intro f
  induction f with
  | zero => exact ⟨fun _ _ _ h => by omega, fun _ _ _ h => by omega⟩
  | succ f ih =>
    obtain ⟨ih1, ih2⟩ := ih
    constructor
    · intro pairs e hk hfit
      cases hk with
      | mk lead t0 rest x0 xs hl h0 hu0 hr =>
        have hd : dropLead (lead ++ t0 :: rest) = t0 :: rest := by
          rcases hl with rfl | ⟨l, rfl, hk⟩
          · simp [dropLead, h0]
          · simp [dropLead, hk]
        have hsz : sizeList (t0 :: rest) ≤ f := by
          rcases hl with rfl | ⟨l, rfl, hk⟩
          · simpa using Nat.le_of_succ_le_succ hfit
          · simp only [List.cons_append, List.nil_append, sizeList] at hfit ⊢; omega
        have h1 := size_eq t0
        simp only [sizeList] at hsz
        exact consumeExpr_fold extras text f _ t0 rest x0 xs hd (by simp [IsTerm, h0])
          (ih2 _ _ hu0 (by omega)) (reads_of_restV ih2 hr (by omega))
    · intro pairs e hu hfit
      cases hu with
      | tagged hg ha hb =>
        rename_i g asg rest name x
        obtain ⟨p, r, rfl, _, hnt⟩ := unBodyV_cons hb
        rw [unaries_tag extras text f g asg p r '#' name ha hg (by decide) hnt]
        have hg2 : 2 ≤ g.size := by rw [size_eq]; omega
        have ha2 : 2 ≤ asg.size := by rw [size_eq]; omega
        rw [body_value ih1 ih2 hb (by simp only [sizeList] at hfit ⊢; omega)]
        rfl
      | plain hb =>
        obtain ⟨p, r, rfl, _, _⟩ := unBodyV_cons hb
        exact body_value ih1 ih2 hb (by omega)
      | parenRest he hx hc hp =>
        rename_i e c post x
        rw [unaries_expression extras text f e (c :: post) he (by intro q r hq; cases hq; simp [hc])]
        have hsz : sizeList e.children + 1 ≤ f := by
          have := size_eq e
          simp only [sizeList] at hfit
          omega
        rw [ih1 _ _ hx hsz]
        simpa using postfixes_paren_value hc hp


/-! ### rules -/

/-- the modifier pair (if any) and the rule type it stands for. -/
def ModV (mods : List Tree) (ty : RuleType) : Prop :=
  (mods = [] ∧ ty = .normal) ∨ ∃ m, mods = [m] ∧
    ((kind m = "silent_modifier" ∧ ty = .silent) ∨ (kind m = "atomic_modifier" ∧ ty = .atomic) ∨
     (kind m = "compound_atomic_modifier" ∧ ty = .compound) ∨ (kind m = "non_atomic_modifier" ∧ ty = .nonAtomic))

/-- a `grammar_rule` pair that is not a doc comment denotes the rule `name = ty { e }`. -/
def RuleV (extras : Bool) (text : Str) (t : Tree) (r : Rule) : Prop :=
  ∃ id asg mods ob e cb, t.children = id :: asg :: (mods ++ [ob, e, cb]) ∧ kind id ≠ "line_doc" ∧
    strOf text id = some r.name.toList ∧ ModV mods r.ty ∧ kind ob = "opening_brace" ∧ ExprV extras text e.children r.expr

/-- the top-level pairs denote the rules: doc comments and `EOI` are skipped. -/
inductive RulesV (extras : Bool) (text : Str) : List Tree → List Rule → Prop
  | nil : RulesV extras text [] []
  | other {t : Tree} {ts : List Tree} {rs : List Rule} : kind t ≠ "grammar_rule" → RulesV extras text ts rs →
      RulesV extras text (t :: ts) rs
  | doc {t c : Tree} {cs ts : List Tree} {rs : List Rule} : kind t = "grammar_rule" → t.children = c :: cs →
      kind c = "line_doc" → RulesV extras text ts rs → RulesV extras text (t :: ts) rs
  | rule {t : Tree} {ts : List Tree} {r : Rule} {rs : List Rule} : kind t = "grammar_rule" → RuleV extras text t r →
      RulesV extras text ts rs → RulesV extras text (t :: ts) (r :: rs)

theorem exprV_ne_nil {extras : Bool} {text : Str} {ps : List Tree} {e : Expr} (h : ExprV extras text ps e) : ps ≠ [] := by
  cases h with
  | mk lead t0 rest x0 xs _ _ _ _ => simp

theorem exprV_dropLead {extras : Bool} {text : Str} {ps : List Tree} {e : Expr} (h : ExprV extras text ps e) :
    ExprV extras text (dropLead ps) e ∧ sizeList (dropLead ps) ≤ sizeList ps := by
  cases h with
  | mk lead t0 rest x0 xs hl h0 hu0 hr =>
    have hd : dropLead (lead ++ t0 :: rest) = t0 :: rest := by
      rcases hl with rfl | ⟨l, rfl, hk⟩
      · simp [dropLead, h0]
      · simp [dropLead, hk]
    rw [hd]
    refine ⟨by simpa using ExprV.mk (extras := extras) (text := text) [] t0 rest x0 xs (Or.inl rfl) h0 hu0 hr, ?_⟩
    rcases hl with rfl | ⟨l, rfl, hk⟩
    · simp
    · simp [sizeList]

theorem consumeRule_value {extras : Bool} {text : Str} {fuel : Nat} {t : Tree} {r : Rule} (h : RuleV extras text t r)
    (hfit : t.size ≤ fuel) : consumeRule extras text fuel t = some r := by
  obtain ⟨id, asg, mods, ob, e, cb, hc, _, hs, hm, hob, he⟩ := h
  have hne := exprV_ne_nil he
  obtain ⟨hd, hle⟩ := exprV_dropLead he
  have hsz : sizeList (dropLead e.children) + 1 ≤ fuel := by
    have h1 : e.size ≤ sizeList t.children := by
      rw [hc]; exact size_le_of_mem (by rcases hm with ⟨rfl, _⟩ | ⟨m, rfl, _⟩ <;> simp)
    have h2 := size_eq e
    have h3 := size_eq t
    omega
  have parts : ruleParts text t = some (r.name, r.ty, e.children) := by
    rcases hm with ⟨rfl, hty⟩ | ⟨m, rfl, hmod⟩
    · simp only [ruleParts, hc, List.nil_append, hob, ne_eq, not_true_eq_false, if_false, hs, hty]
      cases hch : e.children with
      | nil => exact absurd hch hne
      | cons a b => simp [String.ofList_toList]
    · have hk : kind m ≠ "opening_brace" ∧ modifierOf (kind m) = some r.ty := by
        rcases hmod with ⟨h, e'⟩ | ⟨h, e'⟩ | ⟨h, e'⟩ | ⟨h, e'⟩ <;> simp [h, e', modifierOf]
      simp only [ruleParts, hc, List.cons_append, List.nil_append, ne_eq, hk.1, not_false_eq_true, if_true, hk.2,
        Option.map_some, hs]
      cases hch : e.children with
      | nil => exact absurd hch hne
      | cons a b => simp [String.ofList_toList]
  simp only [consumeRule, parts]
  rw [(reads_value extras text fuel).1 _ _ hd hsz]
  rfl

theorem consumeRulesGo_value {extras : Bool} {text : Str} {fuel : Nat} {ts : List Tree} {rs : List Rule}
    (h : RulesV extras text ts rs) (hfit : ∀ t ∈ ts, t.size ≤ fuel) : consumeRulesGo extras text fuel ts = some rs := by
  induction h with
  | nil => rfl
  | other hk _ ih => simp only [consumeRulesGo, hk, if_false]; exact ih (fun t ht => hfit t (by simp [ht]))
  | doc hk hc hd _ ih =>
    simp only [consumeRulesGo, hk, if_true, hc, hd]
    exact ih (fun t ht => hfit t (by simp [ht]))
  | @rule t ts r rs hk hr _ ih =>
    have hcr := consumeRule_value hr (hfit t (by simp))
    obtain ⟨id, asg, mods, ob, e, cb, hc, hnl, _⟩ := hr
    simp only [consumeRulesGo, hk, if_true, hc, hnl, if_false]
    rw [hcr, ih (fun t ht => hfit t (by simp [ht]))]

/-- **`consume_rules` returns the rules the pairs denote** (when `validate_ast` has nothing to report about them). -/
theorem consumeRules_value (extras : Bool) (text : Str) (forest : List Tree) (rs : List Rule)
    (h : RulesV extras text forest rs) (hv : PestModel.V.validateAst extras rs = []) :
    consumeRules extras text forest = some rs := by
  rw [consumeRules_iff]
  refine ⟨?_, hv⟩
  unfold consumeRulesWithSpans
  exact consumeRulesGo_value h (fun t ht => by have := size_le_of_mem ht; omega)

end PestModel.ReaderValue
