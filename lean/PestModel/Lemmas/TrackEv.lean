import PestModel.Lemmas.Track
/-! Lemmas for C08, part 2: the instrumented reference as a big-step relation. `EvD c m la e s r cs`:
from some fuel on, `denoteT c · m la e s` is `(r, cs)`; one introduction rule per clause of the
mutual block (only the definite outcomes `ok`/`fail` are needed). -/
namespace PestModel.Track
open PestModel.G PestModel.Ref PestModel.RefTrace
open PestModel.LineCol (Str bLen cLen splitAt?)
open PestModel.PS (Atomicity CharSet restAt eqIgnoreAsciiCase normalizeIndex)

def EvD (c : Ctx) (m : Atomicity) (la : LA) (e : Expr) (s : St) (r : R) (cs : List Call) : Prop :=
  ∃ F, ∀ f, F ≤ f → denoteT c f m la e s = (r, cs)
def EvL (c : Ctx) (m : Atomicity) (la : LA) (e : Expr) (s : St) (acc : List Call) (r : R) (cs : List Call) : Prop :=
  ∃ F, ∀ f, F ≤ f → repLoopT c f m la e s acc = (r, cs)
def EvK (c : Ctx) (m : Atomicity) (la : LA) (s : St) (r : R) (cs : List Call) : Prop :=
  ∃ F, ∀ f, F ≤ f → skipT c f m la s = (r, cs)
def EvSt (c : Ctx) (la : LA) (name : String) (s : St) (acc : List Call) (r : R) (cs : List Call) : Prop :=
  ∃ F, ∀ f, F ≤ f → starT c f la name s acc = (r, cs)
def EvCl (c : Ctx) (la : LA) (s : St) (acc : List Call) (r : R) (cs : List Call) : Prop :=
  ∃ F, ∀ f, F ≤ f → commentLoopT c f la s acc = (r, cs)
def EvCa (c : Ctx) (m : Atomicity) (la : LA) (name : String) (s : St) (r : R) (cs : List Call) : Prop :=
  ∃ F, ∀ f, F ≤ f → callT c f m la name s = (r, cs)

variable {c : Ctx} {m : Atomicity} {la : LA} {s s1 s2 : St} {r : R} {cs c1 c2 c3 acc : List Call}

theorem succ_of_le {F f : Nat} (h : F + 1 ≤ f) : ∃ f', f = f' + 1 ∧ F ≤ f' := ⟨f - 1, by omega, by omega⟩

/-! ### expressions -/

theorem EvD.of_const {e : Expr} {t : T} (h : ∀ f, denoteT c (f + 1) m la e s = t) : EvD c m la e s t.1 t.2 :=
  ⟨1, fun f hf => by obtain ⟨f', rfl, -⟩ := succ_of_le (F := 0) hf; exact h f'⟩

theorem EvD.ident {n : String} (h : EvCa c m la n s r cs) : EvD c m la (.ident n) s r cs := by
  obtain ⟨F, hF⟩ := h
  refine ⟨F + 1, fun f hf => ?_⟩
  obtain ⟨f', rfl, hf'⟩ := succ_of_le hf
  rw [denoteT]; exact hF f' hf'

theorem EvD.posPred_ok {e : Expr} (h : EvD c m la.enterPos e s (.ok s1) cs) :
    EvD c m la (.posPred e) s (.ok s) cs := by
  obtain ⟨F, hF⟩ := h
  refine ⟨F + 1, fun f hf => ?_⟩
  obtain ⟨f', rfl, hf'⟩ := succ_of_le hf
  rw [denoteT]; simp only [hF f' hf']

theorem EvD.posPred_fail {e : Expr} (h : EvD c m la.enterPos e s .fail cs) :
    EvD c m la (.posPred e) s .fail cs := by
  obtain ⟨F, hF⟩ := h
  refine ⟨F + 1, fun f hf => ?_⟩
  obtain ⟨f', rfl, hf'⟩ := succ_of_le hf
  rw [denoteT]; simp only [hF f' hf']

theorem EvD.negPred_ok {e : Expr} (h : EvD c m la.enterNeg e s (.ok s1) cs) :
    EvD c m la (.negPred e) s .fail cs := by
  obtain ⟨F, hF⟩ := h
  refine ⟨F + 1, fun f hf => ?_⟩
  obtain ⟨f', rfl, hf'⟩ := succ_of_le hf
  rw [denoteT]; simp only [hF f' hf']

theorem EvD.negPred_fail {e : Expr} (h : EvD c m la.enterNeg e s .fail cs) :
    EvD c m la (.negPred e) s (.ok s) cs := by
  obtain ⟨F, hF⟩ := h
  refine ⟨F + 1, fun f hf => ?_⟩
  obtain ⟨f', rfl, hf'⟩ := succ_of_le hf
  rw [denoteT]; simp only [hF f' hf']

theorem EvD.seq_fail1 {a b : Expr} (h : EvD c m la a s .fail c1) : EvD c m la (.seq a b) s .fail c1 := by
  obtain ⟨F, hF⟩ := h
  refine ⟨F + 1, fun f hf => ?_⟩
  obtain ⟨f', rfl, hf'⟩ := succ_of_le hf
  rw [denoteT]; simp only [hF f' hf']

theorem EvD.seq_fail2 {a b : Expr} (h : EvD c m la a s (.ok s1) c1) (hk : EvK c m la s1 .fail c2) :
    EvD c m la (.seq a b) s .fail (c1 ++ c2) := by
  obtain ⟨F, hF⟩ := h
  obtain ⟨G, hG⟩ := hk
  refine ⟨F + G + 1, fun f hf => ?_⟩
  obtain ⟨f', rfl, hf'⟩ := succ_of_le hf
  rw [denoteT]; simp only [hF f' (by omega), hG f' (by omega)]

theorem EvD.seq_go {a b : Expr} (h : EvD c m la a s (.ok s1) c1) (hk : EvK c m la s1 (.ok s2) c2)
    (hb : EvD c m la b s2 r c3) : EvD c m la (.seq a b) s r (c1 ++ c2 ++ c3) := by
  obtain ⟨F, hF⟩ := h
  obtain ⟨G, hG⟩ := hk
  obtain ⟨H, hH⟩ := hb
  refine ⟨F + G + H + 1, fun f hf => ?_⟩
  obtain ⟨f', rfl, hf'⟩ := succ_of_le hf
  rw [denoteT]; simp only [hF f' (by omega), hG f' (by omega), hH f' (by omega)]

theorem EvD.choice_ok {a b : Expr} (h : EvD c m la a s (.ok s1) c1) : EvD c m la (.choice a b) s (.ok s1) c1 := by
  obtain ⟨F, hF⟩ := h
  refine ⟨F + 1, fun f hf => ?_⟩
  obtain ⟨f', rfl, hf'⟩ := succ_of_le hf
  rw [denoteT]; simp only [hF f' hf']

theorem EvD.choice_fail {a b : Expr} (h : EvD c m la a s .fail c1) (hb : EvD c m la b s r c2) :
    EvD c m la (.choice a b) s r (c1 ++ c2) := by
  obtain ⟨F, hF⟩ := h
  obtain ⟨G, hG⟩ := hb
  refine ⟨F + G + 1, fun f hf => ?_⟩
  obtain ⟨f', rfl, hf'⟩ := succ_of_le hf
  rw [denoteT]; simp only [hF f' (by omega), hG f' (by omega)]

theorem EvD.opt_ok {e : Expr} (h : EvD c m la e s (.ok s1) c1) : EvD c m la (.opt e) s (.ok s1) c1 := by
  obtain ⟨F, hF⟩ := h
  refine ⟨F + 1, fun f hf => ?_⟩
  obtain ⟨f', rfl, hf'⟩ := succ_of_le hf
  rw [denoteT]; simp only [hF f' hf']

theorem EvD.opt_fail {e : Expr} (h : EvD c m la e s .fail c1) : EvD c m la (.opt e) s (.ok s) c1 := by
  obtain ⟨F, hF⟩ := h
  refine ⟨F + 1, fun f hf => ?_⟩
  obtain ⟨f', rfl, hf'⟩ := succ_of_le hf
  rw [denoteT]; simp only [hF f' hf']

theorem EvD.rep_fail {e : Expr} (h : EvD c m la e s .fail c1) : EvD c m la (.rep e) s (.ok s) c1 := by
  obtain ⟨F, hF⟩ := h
  refine ⟨F + 1, fun f hf => ?_⟩
  obtain ⟨f', rfl, hf'⟩ := succ_of_le hf
  rw [denoteT]; simp only [hF f' hf']

theorem EvD.rep_ok {e : Expr} (h : EvD c m la e s (.ok s1) c1) (hl : EvL c m la e s1 c1 r cs) :
    EvD c m la (.rep e) s r cs := by
  obtain ⟨F, hF⟩ := h
  obtain ⟨G, hG⟩ := hl
  refine ⟨F + G + 1, fun f hf => ?_⟩
  obtain ⟨f', rfl, hf'⟩ := succ_of_le hf
  rw [denoteT]; simp only [hF f' (by omega), hG f' (by omega)]

theorem EvD.repOnce_fail {e : Expr} (hx : c.extras = true) (h : EvD c m la e s .fail c1) :
    EvD c m la (.repOnce e) s .fail c1 := by
  obtain ⟨F, hF⟩ := h
  refine ⟨F + 1, fun f hf => ?_⟩
  obtain ⟨f', rfl, hf'⟩ := succ_of_le hf
  rw [denoteT]; simp only [hx, if_true, hF f' hf']

theorem EvD.repOnce_ok {e : Expr} (hx : c.extras = true) (h : EvD c m la e s (.ok s1) c1)
    (hl : EvL c m la e s1 c1 r cs) : EvD c m la (.repOnce e) s r cs := by
  obtain ⟨F, hF⟩ := h
  obtain ⟨G, hG⟩ := hl
  refine ⟨F + G + 1, fun f hf => ?_⟩
  obtain ⟨f', rfl, hf'⟩ := succ_of_le hf
  rw [denoteT]; simp only [hx, if_true, hF f' (by omega), hG f' (by omega)]

theorem EvD.push_fail {e : Expr} (h : EvD c m la e s .fail c1) : EvD c m la (.push e) s .fail c1 := by
  obtain ⟨F, hF⟩ := h
  refine ⟨F + 1, fun f hf => ?_⟩
  obtain ⟨f', rfl, hf'⟩ := succ_of_le hf
  rw [denoteT]; simp only [hF f' hf']

theorem EvD.push_ok {e : Expr} {str : Str} (h : EvD c m la e s (.ok s1) c1)
    (hs : PestModel.LineCol.slice? c.input s.pos s1.pos = some str) :
    EvD c m la (.push e) s (.ok { s1 with stack := str :: s1.stack }) c1 := by
  obtain ⟨F, hF⟩ := h
  refine ⟨F + 1, fun f hf => ?_⟩
  obtain ⟨f', rfl, hf'⟩ := succ_of_le hf
  rw [denoteT]; simp only [hF f' hf', hs]

theorem EvD.nodeTag {e : Expr} {t : Str} (h : EvD c m la e s r cs) : EvD c m la (.nodeTag e t) s r cs := by
  obtain ⟨F, hF⟩ := h
  refine ⟨F + 1, fun f hf => ?_⟩
  obtain ⟨f', rfl, hf'⟩ := succ_of_le hf
  rw [denoteT]; exact hF f' hf'

/-! ### the repetition loop -/

theorem EvL.step {e : Expr} (hk : EvK c m la s (.ok s1) c1) (he : EvD c m la e s1 (.ok s2) c2)
    (hl : EvL c m la e s2 (acc ++ c1 ++ c2) r cs) : EvL c m la e s acc r cs := by
  obtain ⟨F, hF⟩ := hk
  obtain ⟨G, hG⟩ := he
  obtain ⟨H, hH⟩ := hl
  refine ⟨F + G + H + 1, fun f hf => ?_⟩
  obtain ⟨f', rfl, hf'⟩ := succ_of_le hf
  rw [repLoopT]; simp only [hF f' (by omega), hG f' (by omega), hH f' (by omega)]

theorem EvL.stop_e {e : Expr} (hk : EvK c m la s (.ok s1) c1) (he : EvD c m la e s1 .fail c2) :
    EvL c m la e s acc (.ok s) (acc ++ c1 ++ c2) := by
  obtain ⟨F, hF⟩ := hk
  obtain ⟨G, hG⟩ := he
  refine ⟨F + G + 1, fun f hf => ?_⟩
  obtain ⟨f', rfl, hf'⟩ := succ_of_le hf
  rw [repLoopT]; simp only [hF f' (by omega), hG f' (by omega)]

theorem EvL.stop_k {e : Expr} (hk : EvK c m la s .fail c1) : EvL c m la e s acc (.ok s) (acc ++ c1) := by
  obtain ⟨F, hF⟩ := hk
  refine ⟨F + 1, fun f hf => ?_⟩
  obtain ⟨f', rfl, hf'⟩ := succ_of_le hf
  rw [repLoopT]; simp only [hF f' (by omega)]

/-! ### the implicit `skip` -/

theorem EvK.atomic (h : m ≠ .nonAtomic) : EvK c m la s (.ok s) [] :=
  ⟨1, fun f hf => by
    obtain ⟨f', rfl, -⟩ := succ_of_le (F := 0) hf
    rw [skipT]; simp only [h, ne_eq, not_false_eq_true, if_true]⟩

theorem EvK.none (h1 : c.has "WHITESPACE" = false) (h2 : c.has "COMMENT" = false) :
    EvK c m la s (.ok s) [] :=
  ⟨1, fun f hf => by
    obtain ⟨f', rfl, -⟩ := succ_of_le (F := 0) hf
    rw [skipT]
    split
    · rfl
    · simp only [h1, h2]⟩

theorem EvK.ws (hm : m = .nonAtomic) (h1 : c.has "WHITESPACE" = true) (h2 : c.has "COMMENT" = false)
    (h : EvSt c la "WHITESPACE" s [] r cs) : EvK c m la s r cs := by
  obtain ⟨F, hF⟩ := h
  refine ⟨F + 1, fun f hf => ?_⟩
  obtain ⟨f', rfl, hf'⟩ := succ_of_le hf
  rw [skipT]; simp only [hm, ne_eq, not_true_eq_false, if_false, h1, h2, hF f' hf']

theorem EvK.cm (hm : m = .nonAtomic) (h1 : c.has "WHITESPACE" = false) (h2 : c.has "COMMENT" = true)
    (h : EvSt c la "COMMENT" s [] r cs) : EvK c m la s r cs := by
  obtain ⟨F, hF⟩ := h
  refine ⟨F + 1, fun f hf => ?_⟩
  obtain ⟨f', rfl, hf'⟩ := succ_of_le hf
  rw [skipT]; simp only [hm, ne_eq, not_true_eq_false, if_false, h1, h2, hF f' hf']

theorem EvK.both (hm : m = .nonAtomic) (h1 : c.has "WHITESPACE" = true) (h2 : c.has "COMMENT" = true)
    (h : EvSt c la "WHITESPACE" s [] (.ok s1) c1) (hc : EvCl c la s1 c1 r cs) : EvK c m la s r cs := by
  obtain ⟨F, hF⟩ := h
  obtain ⟨G, hG⟩ := hc
  refine ⟨F + G + 1, fun f hf => ?_⟩
  obtain ⟨f', rfl, hf'⟩ := succ_of_le hf
  rw [skipT]; simp only [hm, ne_eq, not_true_eq_false, if_false, h1, h2, hF f' (by omega), hG f' (by omega)]

theorem EvSt.step {name : String} (h : EvCa c .nonAtomic la name s (.ok s1) c1)
    (hl : EvSt c la name s1 (acc ++ c1) r cs) : EvSt c la name s acc r cs := by
  obtain ⟨F, hF⟩ := h
  obtain ⟨G, hG⟩ := hl
  refine ⟨F + G + 1, fun f hf => ?_⟩
  obtain ⟨f', rfl, hf'⟩ := succ_of_le hf
  rw [starT]; simp only [hF f' (by omega), hG f' (by omega)]

theorem EvSt.stop {name : String} (h : EvCa c .nonAtomic la name s .fail c1) :
    EvSt c la name s acc (.ok s) (acc ++ c1) := by
  obtain ⟨F, hF⟩ := h
  refine ⟨F + 1, fun f hf => ?_⟩
  obtain ⟨f', rfl, hf'⟩ := succ_of_le hf
  rw [starT]; simp only [hF f' (by omega)]

theorem EvCl.step (h : EvCa c .nonAtomic la "COMMENT" s (.ok s1) c1)
    (hw : EvSt c la "WHITESPACE" s1 [] (.ok s2) c2)
    (hl : EvCl c la s2 (acc ++ c1 ++ c2) r cs) : EvCl c la s acc r cs := by
  obtain ⟨F, hF⟩ := h
  obtain ⟨G, hG⟩ := hw
  obtain ⟨H, hH⟩ := hl
  refine ⟨F + G + H + 1, fun f hf => ?_⟩
  obtain ⟨f', rfl, hf'⟩ := succ_of_le hf
  rw [commentLoopT]; simp only [hF f' (by omega), hG f' (by omega), hH f' (by omega)]

theorem EvCl.stop (h : EvCa c .nonAtomic la "COMMENT" s .fail c1) :
    EvCl c la s acc (.ok s) (acc ++ c1) := by
  obtain ⟨F, hF⟩ := h
  refine ⟨F + 1, fun f hf => ?_⟩
  obtain ⟨f', rfl, hf'⟩ := succ_of_le hf
  rw [commentLoopT]; simp only [hF f' (by omega)]

/-! ### rule calls -/

def _root_.PestModel.RefTrace.R.isOk : R → Bool
  | .ok _ => true
  | _ => false

/-- the calls a rule call contributes: its interior if the rule is silent, else one node. -/
def ruleCalls (id : Nat) (rl : Rule) (m : Atomicity) (la : LA) (s : St) (res : R) (kids : List Call) : List Call :=
  if rl.ty = .silent then kids else
    [.node id s.pos res.isOk (decide (la = .neg)) (decide (modeAtRule rl.name rl.ty m ≠ .atomic)) kids]

theorem EvCa.rule {name : String} {id : Nat} {rl : Rule} {kids : List Call}
    (hr : c.rule? name = some (id, rl))
    (h : EvD c (bodyMode rl.name rl.ty m) la rl.expr s r kids) :
    EvCa c m la name s r (ruleCalls id rl m la s r kids) := by
  obtain ⟨F, hF⟩ := h
  refine ⟨F + 1, fun f hf => ?_⟩
  obtain ⟨f', rfl, hf'⟩ := succ_of_le hf
  rw [callT]; simp only [hr, hF f' hf', ruleCalls]
  split
  · rfl
  · cases r <;> rfl

/-- the built-in rules, instrumented (the `none` branch of `callT`). -/
def builtinT (c : Ctx) (m : Atomicity) (la : LA) (name : String) (s : St) : T :=
  let neg := la = .neg
  let rng := fun (a b : Char) => RefTrace.oneChar c s (fun ch => a ≤ ch ∧ ch ≤ b)
  match name with
  | "ANY" => RefTrace.oneChar c s (fun _ => true)
  | "SOI" => if s.pos = 0 then (.ok s, []) else (.fail, [])
  | "EOI" =>
    let ok := s.pos = bLen c.input
    ((if ok then .ok s else .fail), [.node c.rules.length s.pos ok neg (m ≠ .atomic) []])
  | "PEEK" => match s.stack with | [] => (.stuck, []) | top :: _ => RefTrace.lit c s top
  | "POP" =>
    match s.stack with
    | [] => (.stuck, [])
    | top :: rest => match RefTrace.lit c s top with | (.ok s1, cs) => (.ok { s1 with stack := rest }, cs) | r => r
  | "PEEK_ALL" => match matchStrs c.input s.stack s.pos with | some p => (.ok { s with pos := p }, []) | none => (.fail, [])
  | "POP_ALL" => match matchStrs c.input s.stack s.pos with | some p => (.ok { pos := p, stack := [] }, []) | none => (.fail, [])
  | "DROP" => match s.stack with | [] => (.fail, []) | _ :: rest => (.ok { s with stack := rest }, [])
  | "ASCII_DIGIT" => rng '0' '9'
  | "ASCII_NONZERO_DIGIT" => rng '1' '9'
  | "ASCII_BIN_DIGIT" => rng '0' '1'
  | "ASCII_OCT_DIGIT" => rng '0' '7'
  | "ASCII_HEX_DIGIT" => RefTrace.oneChar c s (fun ch => ('0' ≤ ch ∧ ch ≤ '9') ∨ ('a' ≤ ch ∧ ch ≤ 'f') ∨ ('A' ≤ ch ∧ ch ≤ 'F'))
  | "ASCII_ALPHA_LOWER" => rng 'a' 'z'
  | "ASCII_ALPHA_UPPER" => rng 'A' 'Z'
  | "ASCII_ALPHA" => RefTrace.oneChar c s (fun ch => ('a' ≤ ch ∧ ch ≤ 'z') ∨ ('A' ≤ ch ∧ ch ≤ 'Z'))
  | "ASCII_ALPHANUMERIC" => RefTrace.oneChar c s (fun ch => ('a' ≤ ch ∧ ch ≤ 'z') ∨ ('A' ≤ ch ∧ ch ≤ 'Z') ∨ ('0' ≤ ch ∧ ch ≤ '9'))
  | "ASCII" => rng '\x00' '\x7f'
  | "NEWLINE" =>
    match RefTrace.lit c s ['\n'] with
    | (.fail, _) => (match RefTrace.lit c s ['\r', '\n'] with | (.fail, _) => RefTrace.lit c s ['\r'] | r => r)
    | r => r
  | _ =>
    match c.uni name with
    | some cs => RefTrace.oneChar c s cs.mem
    | none => (.stuck, [])

theorem callT_builtin {name : String} (hr : c.rule? name = none) (f : Nat) :
    callT c (f + 1) m la name s = builtinT c m la name s := by
  rw [callT]
  simp only [hr]
  rfl

theorem EvCa.builtin {name : String} (hr : c.rule? name = none) :
    EvCa c m la name s (builtinT c m la name s).1 (builtinT c m la name s).2 :=
  ⟨1, fun f hf => by
    obtain ⟨f', rfl, -⟩ := succ_of_le (F := 0) hf
    rw [callT_builtin hr]⟩

end PestModel.Track
