import PestModel.Lemmas.DebuggerInv
namespace PestModel.Dbg

theorem park_match_eq (pc : PPc) : (match pc with | .park _ => true | _ => false) = isPark pc := by
  cases pc <;> rfl

set_option hygiene false in
/-- the facts of the invariant that do not depend on the current thread. -/
macro "inv_facts0" hi:ident : tactic =>
  `(tactic| (obtain ⟨c1, c2, c3, c4, c5, -, -, -, -, -, -, -, -⟩ := $hi))

/-- a controller step that leaves the thread's program counter alone: case analysis on it. -/
macro "ctrl_cur" : tactic => `(tactic| (cases hpc : Thread.pc ‹Thread› <;> inv_auto))

theorem Inv_ctrl_idle_run {s s' : State} {rest : List Cmd} (hi : Inv s) (hcpc : s.cpc = .idle) (htd : s.todo = .run :: rest)
    (h : controllerStep s = some s') : Inv s' := by
  simp only [controllerStep, hcpc, htd] at h
  split at h
  · rename_i t hc
    inv_facts hi t hc
    cases h
    cases hpc : t.pc <;> inv_auto
  · rename_i hc
    cases h
    inv_facts0 hi
    inv_auto

theorem Inv_ctrl_idle_cont {s s' : State} {rest : List Cmd} (hi : Inv s) (hcpc : s.cpc = .idle) (htd : s.todo = .cont :: rest)
    (h : controllerStep s = some s') : Inv s' := by
  simp only [controllerStep, hcpc, htd] at h
  cases h
  cases hc : s.cur with
  | none => inv_facts0 hi; inv_auto
  | some t => inv_facts hi t hc; cases hpc : t.pc <;> inv_auto

theorem Inv_ctrl_idle_add {s s' : State} {rest : List Cmd} {r : Rule} (hi : Inv s) (hcpc : s.cpc = .idle)
    (htd : s.todo = .add r :: rest) (h : controllerStep s = some s') : Inv s' := by
  simp only [controllerStep, hcpc, htd] at h
  cases h
  cases hc : s.cur with
  | none => inv_facts0 hi; inv_auto
  | some t => inv_facts hi t hc; cases hpc : t.pc <;> inv_auto

theorem Inv_ctrl_idle_del {s s' : State} {rest : List Cmd} {r : Rule} (hi : Inv s) (hcpc : s.cpc = .idle)
    (htd : s.todo = .del r :: rest) (h : controllerStep s = some s') : Inv s' := by
  simp only [controllerStep, hcpc, htd] at h
  cases h
  cases hc : s.cur with
  | none => inv_facts0 hi; inv_auto
  | some t => inv_facts hi t hc; cases hpc : t.pc <;> inv_auto

theorem Inv_ctrl_idle_clear {s s' : State} {rest : List Cmd} (hi : Inv s) (hcpc : s.cpc = .idle)
    (htd : s.todo = .clear :: rest) (h : controllerStep s = some s') : Inv s' := by
  simp only [controllerStep, hcpc, htd] at h
  cases h
  cases hc : s.cur with
  | none => inv_facts0 hi; inv_auto
  | some t => inv_facts hi t hc; cases hpc : t.pc <;> inv_auto

theorem Inv_ctrl_idle_recv {s s' : State} {rest : List Cmd} (hi : Inv s) (hcpc : s.cpc = .idle)
    (htd : s.todo = .recv :: rest) (h : controllerStep s = some s') : Inv s' := by
  simp only [controllerStep, hcpc, htd] at h
  split at h
  · rename_i t hc
    inv_facts hi t hc
    split at h
    · cases h
      cases hpc : t.pc <;> inv_auto
    · split at h
      · cases h
        rename_i hpc
        inv_auto
      · cases h
  · rename_i hc
    cases h
    inv_facts0 hi
    inv_auto

theorem Inv_ctrl_idle {s s' : State} (hi : Inv s) (hcpc : s.cpc = .idle) (h : controllerStep s = some s') : Inv s' := by
  cases htd : s.todo with
  | nil => simp [controllerStep, hcpc, htd] at h
  | cons c rest =>
    cases c with
    | run => exact Inv_ctrl_idle_run hi hcpc htd h
    | cont => exact Inv_ctrl_idle_cont hi hcpc htd h
    | add r => exact Inv_ctrl_idle_add hi hcpc htd h
    | del r => exact Inv_ctrl_idle_del hi hcpc htd h
    | clear => exact Inv_ctrl_idle_clear hi hcpc htd h
    | recv => exact Inv_ctrl_idle_recv hi hcpc htd h

theorem Inv_ctrl_runLoadDone {s s' : State} (hi : Inv s) (hcpc : s.cpc = .runLoadDone)
    (h : controllerStep s = some s') : Inv s' := by
  simp only [controllerStep, hcpc] at h
  cases h
  cases hc : s.cur with
  | none => inv_facts0 hi; inv_auto
  | some t => inv_facts hi t hc; cases hpc : t.pc <;> cases hd : s.isDone <;> inv_auto

theorem Inv_ctrl_runStoreDone {s s' : State} (hi : Inv s) (hcpc : s.cpc = .runStoreDone)
    (h : controllerStep s = some s') : Inv s' := by
  simp only [controllerStep, hcpc] at h
  cases h
  cases hc : s.cur with
  | none => inv_facts0 hi; inv_auto
  | some t => inv_facts hi t hc; cases hpc : t.pc <;> inv_auto

theorem Inv_ctrl_runStoreFalse {s s' : State} (hi : Inv s) (hcpc : s.cpc = .runStoreFalse)
    (h : controllerStep s = some s') : Inv s' := by
  simp only [controllerStep, hcpc] at h
  cases h
  inv_facts0 hi
  inv_auto

theorem Inv_ctrl_contLoadDone {s s' : State} (hi : Inv s) (hcpc : s.cpc = .contLoadDone)
    (h : controllerStep s = some s') : Inv s' := by
  simp only [controllerStep, hcpc] at h
  cases hc : s.cur with
  | none => inv_facts0 hi; split at h <;> cases h <;> inv_auto
  | some t => inv_facts hi t hc; split at h <;> cases h <;> cases hpc : t.pc <;> inv_auto

theorem Inv_ctrl_unpark {s s' : State} (hi : Inv s) (hcpc : s.cpc = .runUnpark ∨ s.cpc = .contUnpark)
    (h : controllerStep s = some s') : Inv s' := by
  cases hc : s.cur with
  | none =>
    inv_facts0 hi
    rcases hcpc with hcpc | hcpc <;> simp only [controllerStep, hcpc, hc] at h
    · cases h
    · cases h; inv_auto
  | some t =>
    inv_facts hi t hc
    rcases hcpc with hcpc | hcpc <;> simp only [controllerStep, hcpc, hc] at h
    · cases h; cases hpc : t.pc <;> inv_auto
    · cases h; cases hpc : t.pc <;> inv_auto

theorem Inv_ctrl_join {s s' : State} (hi : Inv s) (hcpc : s.cpc = .runJoin)
    (h : controllerStep s = some s') : Inv s' := by
  inv_facts0 hi
  simp only [controllerStep, hcpc] at h
  split at h
  · split at h
    · cases h; inv_auto
    · cases h; inv_auto
    · cases h
  · cases h

theorem Inv_ctrl_spawn {s s' : State} (hi : Inv s) (hcpc : s.cpc = .runSpawn)
    (h : controllerStep s = some s') : Inv s' := by
  inv_facts0 hi
  simp only [controllerStep, hcpc] at h
  cases h
  constructor <;> simp_all [Thread.fresh, PcData, pendEv, TokOk, RJ, RU, RG, isPark, isExited, allBp, expectedEvents_nil]

theorem Inv_ctrl {s s' : State} (hi : Inv s) (h : controllerStep s = some s') : Inv s' := by
  cases hcpc : s.cpc with
  | idle => exact Inv_ctrl_idle hi hcpc h
  | runLoadDone => exact Inv_ctrl_runLoadDone hi hcpc h
  | runStoreDone => exact Inv_ctrl_runStoreDone hi hcpc h
  | runUnpark => exact Inv_ctrl_unpark hi (by simp [hcpc]) h
  | runJoin => exact Inv_ctrl_join hi hcpc h
  | runStoreFalse => exact Inv_ctrl_runStoreFalse hi hcpc h
  | runSpawn => exact Inv_ctrl_spawn hi hcpc h
  | contLoadDone => exact Inv_ctrl_contLoadDone hi hcpc h
  | contUnpark => exact Inv_ctrl_unpark hi (by simp [hcpc]) h

theorem Inv_step {s s' : State} (hi : Inv s) (h : Step s s') : Inv s' := by
  rcases h with h | h
  · exact Inv_ctrl hi h
  · exact Inv_parser hi h

theorem Inv_reach {s0 s : State} (h0 : Inv s0) (hr : Reach s0 s) : Inv s := by
  induction hr with
  | refl => exact h0
  | step _ hs ih => exact Inv_step ih hs

end PestModel.Dbg
