import PestModel.Lemmas.JsonList
/-!
C18 helper lemmas, part 7: `value`, `object`, `pair`, `array`, `bool`, `null` and the top rule `json`:
the fuel-free meaning of the grammar is the RFC recogniser.
-/
namespace PestModel.Json
open PestModel.Ref PestModel.G
open PestModel.LineCol (Str cLen bLen)
open PestModel.PS (Atomicity CharSet restAt restAt_iff restAt_advance)
open PestModel.Views (Tree)

theorem true_toList : "true".toList = ['t', 'r', 'u', 'e'] := by decide
theorem false_toList : "false".toList = ['f', 'a', 'l', 's', 'e'] := by decide
theorem null_toList : "null".toList = ['n', 'u', 'l', 'l'] := by decide

/-! ### RFC side: which alternative can apply -/

theorem string_none {c : Cur} (h : ∀ cs, c.rest ≠ '"' :: cs) : string c = none := by
  unfold string
  split
  · rename_i tl hr; exact absurd hr (h tl)
  · rfl

theorem number_nil {c : Cur} (hr : c.rest = []) : number c = none := by
  rw [number_eq]
  have : numEnd c = none := by simp [numEnd, signC, intO, hr]
  rw [this]

theorem number_none {c : Cur} {ch : Char} {cs : Str} (hr : c.rest = ch :: cs) (h1 : ch ≠ '-') (h2 : isDigit ch = false) :
    number c = none := by
  rw [number_eq]
  have hs : signC c = c := by
    unfold signC; split
    · rename_i tl h'; rw [hr] at h'; simp at h'; exact absurd h'.1 h1
    · rfl
  have h0 : ch ≠ '0' := by intro e; subst e; simp [isDigit] at h2
  have h19 : ¬ ('1' ≤ ch ∧ ch ≤ '9') := by
    intro h
    have : isDigit ch = true := by
      simp only [isDigit, decide_eq_true_eq]
      exact ⟨Char.le_trans (by decide) h.1, h.2⟩
    rw [this] at h2; simp at h2
  have : numEnd c = none := by
    simp [numEnd, hs, intO, hr, h19]
  rw [this]

theorem literal_none {c : Cur} {a : Char} {as : Str} {label : String} (h : ∀ cs, c.rest ≠ a :: cs) :
    literal (a :: as) label c = none := by
  unfold literal
  cases hr : c.rest with
  | nil => simp [List.isPrefixOf]
  | cons ch cs =>
    have : ¬ a = ch := fun e => h cs (by rw [hr, e])
    simp [List.isPrefixOf, this]

theorem value_close {c : Cur} {cs : Str} (hr : c.rest = ']' :: cs) (f : Nat) : value f c = none := by
  cases f with
  | zero => simp [value]
  | succ f =>
    rw [value_succ]
    have : valueInner f c = none := by
      unfold valueInner
      simp only [hr]
      exact number_none hr (by decide) (by decide)
    rw [this]

section
variable {input : Str} {uni : String → Option CharSet}

/-! ### literals -/

theorem lit_literal {c : Cur} (h : At input c) (stk : List Str) (str : Str) (label : String) (id : Nat)
    (hl : bLen str = str.length) (hid : ruleIdx label = id) :
    (match lit (jctx input uni) ⟨c.pos, stk⟩ str with
      | .ok s1 f1 => .ok s1 [Tree.node id c.pos s1.pos none f1]
      | r => r) = vRes (literal str label c) stk := by
  rw [lit_at h]
  unfold literal
  by_cases hp : str.isPrefixOf c.rest = true
  · simp [hp, JT_node, hid, hl]
  · simp [hp]

theorem bool_call {c : Cur} (h : At input c) (stk : List Str) :
    valCa (jctx input uni) .nonAtomic false "bool" ⟨c.pos, stk⟩ =
      match vRes (literal "true".toList "bool" c) stk with
      | .fail => vRes (literal "false".toList "bool" c) stk
      | r => r := by
  rw [call_normal_of (rule_bool input uni) (by decide)]
  simp only [eBool, val_choice, val_str]
  rw [← lit_literal (uni := uni) h stk "true".toList "bool" 12 (by decide) (by decide),
    ← lit_literal (uni := uni) h stk "false".toList "bool" 12 (by decide) (by decide), true_toList, false_toList]
  cases lit (jctx input uni) ⟨c.pos, stk⟩ ['t', 'r', 'u', 'e'] <;> rfl

theorem null_call {c : Cur} (h : At input c) (stk : List Str) :
    valCa (jctx input uni) .nonAtomic false "null" ⟨c.pos, stk⟩ = vRes (literal "null".toList "null" c) stk := by
  rw [call_normal_of (rule_null input uni) (by decide)]
  simp only [eNull, val_str]
  rw [← lit_literal (uni := uni) h stk "null".toList "null" 13 (by decide) (by decide), null_toList]
  cases lit (jctx input uni) ⟨c.pos, stk⟩ ['n', 'u', 'l', 'l'] <;> rfl

/-! ### pairs -/

theorem pair_call {c : Cur} (h : At input c) (stk : List Str) (f : Nat)
    (hv : ∀ c3, At input c3 → c3.rest.length + 2 ≤ c.rest.length →
      valCa (jctx input uni) .nonAtomic false "value" ⟨c3.pos, stk⟩ = vRes (value f c3) stk) :
    valCa (jctx input uni) .nonAtomic false "pair" ⟨c.pos, stk⟩ = vRes (pairR f c) stk := by
  rw [call_normal_of (rule_pair input uni) (by decide)]
  simp only [ePair, val_seq, val_ident, val_str]
  rw [string_call h]
  unfold pairR
  cases hs : string c with
  | none => rfl
  | some p =>
    obtain ⟨k, c1⟩ := p
    have hr1 := string_reach hs
    have h1 := h.reach hr1.1
    have h2 := h1.reach (wsC_reach c1)
    simp only []
    rw [skip_at h1]
    simp only []
    cases hr : (wsC c1).rest with
    | nil => simp [lit_nil h2 hr]
    | cons ch cs =>
      rw [lit1_cons h2 hr]
      by_cases hc : ch = ':'
      · subst hc
        simp only [if_true]
        rw [skip_at h2.adv]
        simp only []
        have h3 := h2.adv.reach (wsC_reach _)
        rw [hv _ h3 (by
          have := (wsC_reach (wsC c1).adv).len; have := adv_len_lt hr; have := (wsC_reach c1).len; omega)]
        cases hv' : value f (wsC (wsC c1).adv) with
        | none => rfl
        | some q =>
          obtain ⟨v, c4⟩ := q
          simp [JT_node, ruleIdx]
          decide
      · simp [hc]

/-! ### the main induction -/

variable (input uni) in
def PV (stk : List Str) (f : Nat) : Prop :=
  ∀ c : Cur, At input c → 3 * c.rest.length + 1 ≤ f →
    valCa (jctx input uni) .nonAtomic false "value" ⟨c.pos, stk⟩ = vRes (value f c) stk

variable (input uni) in
def PO (stk : List Str) (f : Nat) : Prop :=
  ∀ (c : Cur) (cs : Str), At input c → c.rest = '{' :: cs → 3 * c.rest.length ≤ f →
    valCa (jctx input uni) .nonAtomic false "object" ⟨c.pos, stk⟩ = vRes (object f c) stk

variable (input uni) in
def PA (stk : List Str) (f : Nat) : Prop :=
  ∀ (c : Cur) (cs : Str), At input c → c.rest = '[' :: cs → 3 * c.rest.length ≤ f →
    valCa (jctx input uni) .nonAtomic false "array" ⟨c.pos, stk⟩ = vRes (array f c) stk

variable (input uni) in
def PM (stk : List Str) (f : Nat) : Prop :=
  ∀ c : Cur, At input c → 3 * c.rest.length + 2 ≤ f →
    itemsG input uni "pair" '}' c stk = lRes '}' (members f c []) stk

variable (input uni) in
def PE (stk : List Str) (f : Nat) : Prop :=
  ∀ c : Cur, At input c → 3 * c.rest.length + 2 ≤ f →
    itemsG input uni "value" ']' c stk = lRes ']' (elements f c []) stk

theorem members_step {stk : List Str} {f : Nat} (hV : PV input uni stk f) (hM : PM input uni stk f) :
    PM input uni stk (f + 1) := by
  intro c h hb
  have hp := pair_call (uni := uni) h stk f (fun c3 h3 hl => hV c3 h3 (by omega))
  have := items_step (input := input) (uni := uni) (c := c) stk "pair" '}' (by decide) (pairR f c)
    (fun c6 => members f c6 []) hp
    (fun t c4 e => h.reach (pairR_reach e).1)
    (fun t c4 e cs hr => hM _ ((h.reach (pairR_reach e).1).reach
        (Reach.trans (wsC_reach c4) (Reach.trans (Reach.adv _) (wsC_reach _))))
      (by
        have := (pairR_reach e).2
        have := (wsC_reach c4).len
        have := adv_len_lt hr
        have := (wsC_reach (wsC c4).adv).len
        omega))
  rw [this, members_succ]
  rfl

theorem elements_step {stk : List Str} {f : Nat} (hV : PV input uni stk f) (hE : PE input uni stk f) :
    PE input uni stk (f + 1) := by
  intro c h hb
  have hp := hV c h (by omega)
  have := items_step (input := input) (uni := uni) (c := c) stk "value" ']' (by decide) (value f c)
    (fun c6 => elements f c6 []) hp
    (fun t c4 e => h.reach (value_reach e))
    (fun t c4 e cs hr => hE _ ((h.reach (value_reach e)).reach
        (Reach.trans (wsC_reach c4) (Reach.trans (Reach.adv _) (wsC_reach _))))
      (by
        have := (value_reach e).len
        have := (wsC_reach c4).len
        have := adv_len_lt hr
        have := (wsC_reach (wsC c4).adv).len
        omega))
  rw [this, elements_succ]
  rfl

/-- the body of `object` / `array` from the list of items. -/
theorem bracket_eq {c : Cur} (h : At input c) {cs : Str} {op : Char} (hr : c.rest = op :: cs) (stk : List Str)
    (it : String) (cl : Char) (label : String) (id : Nat) (hid : ruleIdx label = id)
    (itemR : Option (JTree × Cur))
    (hit : valCa (jctx input uni) .nonAtomic false it ⟨(wsC c.adv).pos, stk⟩ = vRes itemR stk)
    (hAt : ∀ t c4, itemR = some (t, c4) → At input c4)
    (hfail : ∀ cs', (wsC c.adv).rest = cl :: cs' → itemR = none)
    (ms : Option (List JTree × Cur))
    (hms : itemsG input uni it cl (wsC c.adv) stk = lRes cl ms stk) :
    (match val (jctx input uni) .nonAtomic false
        (.choice (listE op cl it) (.seq (.str [op]) (.str [cl]))) ⟨c.pos, stk⟩ with
      | .ok s1 f1 => .ok s1 [Tree.node id c.pos s1.pos none f1]
      | r => r) =
    vRes (match (wsC c.adv).rest with
      | ch :: _ => if ch = cl then some (.node label c.pos (wsC c.adv).adv.pos [], (wsC c.adv).adv)
                   else closeR label cl c.pos ms
      | [] => closeR label cl c.pos ms) stk := by
  rw [val_choice, listE_eq h hr stk it cl itemR hit hAt, emptyE_eq h hr]
  cases hr1 : (wsC c.adv).rest with
  | nil =>
    simp only []
    rw [hms]
    cases ms with
    | none => rfl
    | some p =>
      obtain ⟨l, c2⟩ := p
      simp only [lRes, closeR]
      cases c2.rest with
      | nil => rfl
      | cons d ds =>
        simp only []
        by_cases hd : d = cl <;> simp [hd, JT_node, hid]
  | cons ch cs' =>
    simp only []
    by_cases hc : ch = cl
    · subst hc
      have hn := hfail cs' hr1
      have : itemsG input uni it ch (wsC c.adv) stk = .fail := by
        unfold itemsG; rw [hit, hn]; rfl
      rw [this]
      simp [JT_node, hid]
    · simp only [hc, if_false]
      rw [hms]
      cases ms with
      | none => rfl
      | some p =>
        obtain ⟨l, c2⟩ := p
        simp only [lRes, closeR]
        cases c2.rest with
        | nil => rfl
        | cons d ds =>
          simp only []
          by_cases hd : d = cl <;> simp [hd, JT_node, hid]

theorem object_succ' (f : Nat) (c : Cur) :
    object (f + 1) c =
      match (wsC c.adv).rest with
      | ch :: _ => if ch = '}' then some (.node "object" c.pos (wsC c.adv).adv.pos [], (wsC c.adv).adv)
                   else closeR "object" '}' c.pos (members f (wsC c.adv) [])
      | [] => closeR "object" '}' c.pos (members f (wsC c.adv) []) := by
  rw [object_succ]
  cases hr : (wsC c.adv).rest with
  | nil => rfl
  | cons ch cs =>
    by_cases hc : ch = '}'
    · subst hc; simp
    · simp [hc]

theorem array_succ' (f : Nat) (c : Cur) :
    array (f + 1) c =
      match (wsC c.adv).rest with
      | ch :: _ => if ch = ']' then some (.node "array" c.pos (wsC c.adv).adv.pos [], (wsC c.adv).adv)
                   else closeR "array" ']' c.pos (elements f (wsC c.adv) [])
      | [] => closeR "array" ']' c.pos (elements f (wsC c.adv) []) := by
  rw [array_succ]
  cases hr : (wsC c.adv).rest with
  | nil => rfl
  | cons ch cs =>
    by_cases hc : ch = ']'
    · subst hc; simp
    · simp [hc]

theorem object_step {stk : List Str} {f : Nat} (hV : PV input uni stk f) (hM : PM input uni stk f) :
    PO input uni stk (f + 1) := by
  intro c cs h hr hb
  have hlen : c.rest.length = cs.length + 1 := by rw [hr]; simp
  have hadv : c.adv.rest.length = cs.length := by rw [adv_cons hr]
  have h1 := h.adv.reach (wsC_reach c.adv)
  have hl1 := (wsC_reach c.adv).len
  have hp := pair_call (uni := uni) h1 stk f (fun c3 h3 hl => hV c3 h3 (by omega))
  rw [call_normal_of (rule_object input uni) (by decide), object_succ']
  exact bracket_eq h hr stk "pair" '}' "object" 1 (by decide) (pairR f (wsC c.adv)) hp
    (fun t c4 e => h1.reach (pairR_reach e).1)
    (fun cs' hr1 => by
      unfold pairR
      rw [string_none (fun cs'' e => by rw [hr1] at e; simp at e)])
    (members f (wsC c.adv) []) (hM _ h1 (by omega))

theorem array_step {stk : List Str} {f : Nat} (hV : PV input uni stk f) (hE : PE input uni stk f) :
    PA input uni stk (f + 1) := by
  intro c cs h hr hb
  have hlen : c.rest.length = cs.length + 1 := by rw [hr]; simp
  have hadv : c.adv.rest.length = cs.length := by rw [adv_cons hr]
  have h1 := h.adv.reach (wsC_reach c.adv)
  have hl1 := (wsC_reach c.adv).len
  have hp := hV _ h1 (by omega)
  rw [call_normal_of (rule_array input uni) (by decide), array_succ']
  exact bracket_eq h hr stk "value" ']' "array" 3 (by decide) (value f (wsC c.adv)) hp
    (fun t c4 e => h1.reach (value_reach e))
    (fun cs' hr1 => value_close hr1 f)
    (elements f (wsC c.adv) []) (hE _ h1 (by omega))

end
end PestModel.Json
