import PestModel.Model.Grammar
import PestModel.Lemmas.OptTotal
/-! C05/C09: the skipper's bound — `populate_choices` with its early exit computes what the model's `skipF` states
(the bound applied to the finished list). -/
namespace PestModel.G
open PestModel.LineCol (Str)

theorem populateChoices_len (rules : List Rule) : ∀ (fuel : Nat) (e : Expr) (ch l : List Str),
    populateChoices rules fuel e ch = some (.skip l) → ch.length ≤ l.length
  | 0, _, _, _, h => by simp [populateChoices] at h
  | fuel + 1, e, ch, l, h => by
    unfold populateChoices at h
    split at h
    · have := populateChoices_len rules fuel _ _ _ h; simp at this; omega
    · split at h
      · have := populateChoices_len rules fuel _ _ _ h; simp at this; omega
      · simp at h
    · simp at h
    · simp at h; subst h; simp
    · obtain ⟨x, _, hx⟩ := Option.bind_eq_some_iff.1 h
      exact populateChoices_len rules fuel _ _ _ hx
    · simp at h

theorem capResult_of_long {cap : Nat} {r : Option Expr} (h : ∀ l, r = some (.skip l) → cap < l.length) (hs : ∀ x, r = some x → ∃ l, x = .skip l) :
    capResult cap r = none := by
  cases r with
  | none => rfl
  | some x =>
    obtain ⟨l, rfl⟩ := hs x rfl
    simp [capResult, h l rfl]

/-- **giving up on the way is the same as refusing a final list that is too long**: the search list only grows, and every
inlined list ends up inside the final one. -/
theorem populateChoicesCapped_eq (cap : Nat) (rules : List Rule) : ∀ (fuel : Nat) (e : Expr) (ch : List Str),
    populateChoicesCapped cap rules fuel e ch = capResult cap (populateChoices rules fuel e ch)
  | 0, _, _ => by simp [populateChoicesCapped, populateChoices, capResult]
  | fuel + 1, e, ch => by
    have hskip := PestModel.OptTotal.populateChoices_skip rules
    unfold populateChoicesCapped
    by_cases hc : cap < ch.length
    · rw [if_pos hc]
      symm
      apply capResult_of_long
      · intro l hl
        have := populateChoices_len rules _ _ _ _ hl
        omega
      · intro x hx; exact hskip _ _ _ _ hx
    · rw [if_neg hc]
      unfold populateChoices
      split
      · exact populateChoicesCapped_eq cap rules fuel _ _
      · rename_i name rhs
        -- the inlined rule
        cases hl : lookupExpr rules name with
        | none => simp [hl, capResult]
        | some body =>
          simp only [hl, Option.bind_some]
          rw [populateChoicesCapped_eq cap rules fuel body []]
          cases hin : populateChoices rules fuel body [] with
          | none => simp [capResult]
          | some x =>
            obtain ⟨inl, rfl⟩ := hskip _ _ _ _ hin
            by_cases hlong : cap < inl.length
            · simp only [capResult, hlong, if_true]
              symm
              apply capResult_of_long
              · intro l hl'
                have := populateChoices_len rules _ _ _ _ hl'
                simp at this; omega
              · intro x hx; exact hskip _ _ _ _ hx
            · simp only [capResult, hlong, if_false]
              exact populateChoicesCapped_eq cap rules fuel _ _
      · simp [capResult]
      · rename_i s
        by_cases h2 : cap < (ch ++ [s]).length
        · simp [capResult, h2]
        · simp [capResult, h2]
      · rename_i name
        cases hl : lookupExpr rules name with
        | none => simp [hl, capResult]
        | some body => simp only [hl, Option.bind_some]; exact populateChoicesCapped_eq cap rules fuel _ _
      · simp [capResult]
/-- the model's `skipF` (bound applied to the finished list) is the transcription. -/
theorem skipF_as_written (rules : List Rule) (e : Expr) : skipF rules e = skipFAsWritten rules e := by
  unfold skipF skipFAsWritten
  split
  · rename_i inner
    cases hm : PestModel.Gen.Consts.maxSkipStrings with
    | none =>
      simp only []
      cases hp : populateChoices rules (rulesSize rules + inner.size + 1) inner [] with
      | none => rfl
      | some x =>
        obtain ⟨l, rfl⟩ := PestModel.OptTotal.populateChoices_skip rules _ _ _ _ hp
        simp [skipTooLong, hm]
    | some c =>
      simp only []
      rw [populateChoicesCapped_eq]
      cases hp : populateChoices rules (rulesSize rules + inner.size + 1) inner [] with
      | none => rfl
      | some x =>
        obtain ⟨l, rfl⟩ := PestModel.OptTotal.populateChoices_skip rules _ _ _ _ hp
        by_cases hl : c < l.length
        · simp [skipTooLong, hm, capResult, hl]
        · simp [skipTooLong, hm, capResult, hl]
  · rename_i hne
    first
      | rfl
      | (split
         · rename_i inner
           exact (hne inner rfl).elim
         · rfl)
end PestModel.G
