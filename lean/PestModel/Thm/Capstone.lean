import PestModel.Thm.EndToEnd
import PestModel.Thm.C18
import PestModel.Gen.JsonGrammar
import PestModel.Gen.MetaGrammar
import PestModel.Thm.C14
import PestModel.Lemmas.Capstone
/-!
# Capstones on the two grammars that ship compiled: `json.pest` (C18) and `grammar.pest` (C14)

Both grammars are REGENERATED into Lean values on every run (`PestModel.Gen.Json`, `PestModel.Gen.Meta`:
the rules as read by the real front-end and the real optimizer's output), so these theorems are
re-checked against what the source says now. They instantiate the end-to-end composition
(`PestModel.E2E`) — and for JSON compose it with C18's `json_iff` — so that the statement is about the
back-end models directly: the VM model and the generated-parser model accept exactly the RFC 8259 texts,
with exactly the RFC document tree as pairs.
-/
namespace PestModel.Capstone
open PestModel.G PestModel.PS PestModel.Lower PestModel.Ref
open PestModel.LineCol (Str)

set_option maxRecDepth 100000 in
/-- `json.pest` with the real optimizer's output satisfies every hypothesis of the end-to-end theorems
(accepted by the validator model, stack-free, untagged, `list` pass idle, Lean optimizer = real optimizer). -/
theorem json_accepted : PestModel.E2E.Accepted false PestModel.Gen.Json.rules PestModel.Gen.Json.optimized where
  nodup := by decide +kernel
  notAny := by decide +kernel
  stackFree := by decide +kernel
  noTag := by decide +kernel
  valid := by decide +kernel
  optimized := PestModel.C14.json_optimize_eq
  listIdle := PestModel.C14.json_untouched_by_lister.trans PestModel.C14.json_optimize_eq
  small := by decide +kernel

/-- the reference result of rule `json` is the RFC's. -/
theorem json_means (uni : String → Option CharSet) (input : Str) :
    Means PestModel.Gen.Json.rules false uni "json" input
      (match PestModel.Json.jsonText input with
       | some t => .ok ⟨PestModel.LineCol.bLen input, []⟩ [PestModel.C18.toTree t]
       | none => .fail) := by
  obtain ⟨n, hn⟩ := PestModel.C18.json_iff uni input
  refine means_of_meaning hn ?_
  cases PestModel.Json.jsonText input <;> simp

/-- **The VM (model) on `json.pest` accepts exactly RFC 8259 JSON, with exactly the RFC tree.** -/
theorem json_vm_conforms (uni : String → Option CharSet) (memchr detail : Bool) (input : Str) :
    ∃ fuel, match PestModel.C01.vmParse PestModel.Gen.Json.optimized uni memchr detail fuel "json" input with
      | .ok st => ∃ t, PestModel.Json.jsonText input = some t ∧ st.queue = PestModel.Views.build [PestModel.C18.toTree t]
      | .err _ => PestModel.Json.jsonText input = none
      | .panic => False
      | .fuel => False := by
  obtain ⟨r, fuel, hm, hv⟩ := PestModel.E2E.accepted_grammar_parses_as_documented false _ _ json_accepted uni
    memchr detail "json" input
  have hr := means_det hm (json_means uni input)
  refine ⟨fuel, ?_⟩
  cases ho : PestModel.C01.vmParse PestModel.Gen.Json.optimized uni memchr detail fuel "json" input with
  | ok st =>
    rw [ho] at hv
    obtain ⟨forest, hb, he⟩ := hv
    cases ht : PestModel.Json.jsonText input with
    | none => rw [ht, he] at hr; cases hr
    | some t =>
      rw [ht, he] at hr
      simp only [Res.ok.injEq] at hr
      exact ⟨t, rfl, by rw [← hb, hr.2]⟩
  | err st =>
    rw [ho] at hv
    cases ht : PestModel.Json.jsonText input with
    | none => rfl
    | some t => rw [ht, hv] at hr; cases hr
  | panic =>
    rw [ho] at hv
    cases ht : PestModel.Json.jsonText input with
    | none => rw [ht, hv] at hr; cases hr
    | some t => rw [ht, hv] at hr; cases hr
  | fuel =>
    rw [ho] at hv
    exact hv

/-- **… and so does the generated parser (model)**: it terminates with the VM's report. -/
theorem json_generated_conforms (uni : String → Option CharSet) (memchr detail : Bool) (input : Str) :
    ∃ fuel, match PestModel.C02.parseWith .gen PestModel.Gen.Json.optimized uni memchr detail fuel "json" input with
      | .ok st => ∃ t, PestModel.Json.jsonText input = some t ∧ st.queue = PestModel.Views.build [PestModel.C18.toTree t]
      | .err _ => PestModel.Json.jsonText input = none
      | .panic => False
      | .fuel => False := by
  obtain ⟨fv, hvm⟩ := json_vm_conforms uni memchr detail input
  rw [← PestModel.E2E.parseWith_vm_eq] at hvm
  have h := json_accepted
  obtain ⟨hagree, hterm⟩ := PestModel.C02.gen_eq_vm_optimized false _ h.isOptimized h.tagsExtras h.small
    h.tagPlain uni memchr detail "json" input
  have hv' : PestModel.C02.parseWith .vm PestModel.Gen.Json.optimized uni memchr detail fv "json" input ≠ .fuel := by
    intro hf
    rw [hf] at hvm
    exact hvm
  obtain ⟨fg, hg⟩ := hterm.1 ⟨fv, hv'⟩
  have ho := hagree fv fg hv' hg
  refine ⟨fg, ?_⟩
  unfold PestModel.C02.outcome at ho
  cases hov : PestModel.C02.parseWith .vm PestModel.Gen.Json.optimized uni memchr detail fv "json" input with
  | ok st =>
    rw [hov] at hvm ho
    rw [finish_ok_of_new _ _ _ _ _ _ hov] at ho
    cases hog : PestModel.C02.parseWith .gen PestModel.Gen.Json.optimized uni memchr detail fg "json" input with
    | ok st' =>
      rw [hog, finish_ok_of_new _ _ _ _ _ _ hog] at ho
      simp only [Option.some.injEq, Report.success.injEq] at ho
      obtain ⟨t, ht, hq⟩ := hvm
      exact ⟨t, ht, by rw [← ho, hq]⟩
    | err st' => rw [hog, finish_err_of_new _ _ _ _ _ _ hog] at ho; simp at ho
    | panic => rw [hog] at ho; simp [finish] at ho
    | fuel => exact hg hog
  | err st =>
    rw [hov] at hvm ho
    rw [finish_err_of_new _ _ _ _ _ _ hov] at ho
    cases hog : PestModel.C02.parseWith .gen PestModel.Gen.Json.optimized uni memchr detail fg "json" input with
    | ok st' => rw [hog, finish_ok_of_new _ _ _ _ _ _ hog] at ho; simp at ho
    | err st' => exact hvm
    | panic => rw [hog] at ho; simp [finish] at ho
    | fuel => exact hg hog
  | panic => rw [hov] at hvm; exact hvm.elim
  | fuel => exact (hv' hov).elim

set_option maxRecDepth 100000 in
/-- `grammar.pest` (the meta-grammar) with the real optimizer's output satisfies the hypotheses too. -/
theorem meta_accepted : PestModel.E2E.Accepted false PestModel.Gen.Meta.rules PestModel.Gen.Meta.optimized where
  nodup := by decide +kernel
  notAny := by decide +kernel
  stackFree := by decide +kernel
  noTag := by decide +kernel
  valid := by decide +kernel
  optimized := PestModel.C14.meta_optimize_eq
  listIdle := PestModel.C14.meta_untouched_by_lister.trans PestModel.C14.meta_optimize_eq
  small := by decide +kernel

/-- **The bootstrap, on the model**: for every rule of `grammar.pest` and every text, the VM model run on
the optimizer's output terminates with exactly the result the documented semantics assign to
`grammar.pest` as written, and the generated-parser model reports the same. -/
theorem meta_vm_conforms (uni : String → Option CharSet) (memchr detail : Bool) (name : String) (input : Str) :
    ∃ (r : Res) (fuel : Nat), Means PestModel.Gen.Meta.rules false uni name input r ∧
      match PestModel.C01.vmParse PestModel.Gen.Meta.optimized uni memchr detail fuel name input with
      | .ok st => ∃ forest, PestModel.Views.build forest = st.queue ∧ r = .ok ⟨st.pos, st.stack.cache⟩ forest
      | .err _ => r = .fail
      | .panic => r = .stuck
      | .fuel => False :=
  PestModel.E2E.accepted_grammar_parses_as_documented false _ _ meta_accepted uni memchr detail name input

/-- … and the generated-parser model terminates on `grammar.pest` too, with the VM's report. -/
theorem meta_generated_agrees (uni : String → Option CharSet) (memchr detail : Bool) (name : String) (input : Str) :
    ∃ fv fg, PestModel.C02.parseWith .vm PestModel.Gen.Meta.optimized uni memchr detail fv name input ≠ .fuel ∧
      PestModel.C02.parseWith .gen PestModel.Gen.Meta.optimized uni memchr detail fg name input ≠ .fuel ∧
      PestModel.C02.outcome (PestModel.C02.parseWith .vm PestModel.Gen.Meta.optimized uni memchr detail fv name input) =
        PestModel.C02.outcome (PestModel.C02.parseWith .gen PestModel.Gen.Meta.optimized uni memchr detail fg name input) :=
  PestModel.E2E.accepted_grammar_generated_parser_agrees false _ _ meta_accepted uni memchr detail name input

/-- **A text that is not a grammar is rejected with a position inside the text** (C09's "located errors", for the parse stage):
when the VM model of the bootstrapped meta-parser fails on a text, under any start rule of `grammar.pest`, its error position is
a UTF-8 boundary of that text (C08 `error_position_inside` on the regenerated, really-optimized meta-grammar). -/
theorem meta_error_located (uni : String → Option CharSet) (memchr detail : Bool) (fuel : Nat) (name : String) (input : Str)
    (st : PState) (h : PestModel.C01.vmParse PestModel.Gen.Meta.optimized uni memchr detail fuel name input = .err st) :
    PestModel.LineCol.isBoundary input st.attemptPos = true :=
  PestModel.C08.error_position_inside false _ meta_accepted.isOptimized meta_accepted.tagRules meta_accepted.small
    uni memchr detail fuel name input st h

set_option maxRecDepth 100000 in
/-- **The bootstrapped meta-parser (VM model) never panics**: `grammar.pest` only mentions its own rules and built-ins that cannot
get stuck, so for every one of its rules as start rule and every text the VM model ends with pairs or with an error — the parse
stage of C09's "never panics", for the model of the parser that `parse_and_optimize` runs first. -/
theorem meta_vm_never_panics (uni : String → Option CharSet) (memchr detail : Bool) (name : String)
    (hn : (PestModel.Gen.Meta.rules.map (·.name)).contains name = true) (input : Str) :
    ∃ fuel, match PestModel.C01.vmParse PestModel.Gen.Meta.optimized uni memchr detail fuel name input with
      | .ok _ => True
      | .err _ => True
      | .panic => False
      | .fuel => False :=
  PestModel.E2E.accepted_closed_grammar_never_panics false _ _ meta_accepted (by decide +kernel) uni memchr detail name hn input

end PestModel.Capstone
