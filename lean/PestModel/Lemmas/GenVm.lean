import PestModel.Model.Lower
import PestModel.Lemmas.GenVmTop
import PestModel.Lemmas.VmRefCex
/-! Lemmas for C02: the generator's lowering and the VM's lowering are observationally equal
(on rule sets satisfying `GenVm.RulesOK`). The development is split over `GenVm*.lean`:
`Base` (states equal up to saved stack snapshots, big-step `Ev`), `Frame`/`FrameRun` (frame independence
of `run`), `Sim` (fuel-stratified simulation and congruences), `Chain`/`Seq` (flattened sequences and
choices), `Clean`/`CleanVm` (clean failures), `Rep` (atomic repetition), `Expr`/`Main`/`Top`
(main induction, rules, entry point). -/
namespace PestModel.GenVm
open PestModel.PS PestModel.VmRef

variable {cfg : Cfg}

theorem div_rule {r : Nat} {p : Prog} {st : PState} (hi : incCall st = some st) (hp : VmRef.Div cfg p (rulePre st)) :
    VmRef.Div cfg (.rule r p) st := by
  intro F
  cases F with
  | zero => exact run_zero _ _ _
  | succ k => rw [run_rule, hi]; dsimp only; rw [hp k]

theorem div_atomic {a : Atomicity} {p : Prog} {st : PState} (hi : incCall st = some st)
    (hp : VmRef.Div cfg p (atomPre a st)) : VmRef.Div cfg (.atomic a p) st := by
  intro F
  cases F with
  | zero => exact run_zero _ _ _
  | succ k => rw [run_atomic, hi]; dsimp only; rw [hp k]

end PestModel.GenVm
