import PestModel.Model.StackSpec
import PestModel.Lemmas.Stack
/-!
# C11 — the backtracking stack is transactional for every history

Property theorems only (helper lemmas live in `PestModel/Lemmas/Stack.lean`).
`step`/`run` model `pest::Stack` with every Rust panic site an explicit `none`;
`Naive` is the copy-at-snapshot specification from the property text.
-/
namespace PestModel.C11
open PestModel.Stack

variable {α : Type}

/-- The invariant holds initially. -/
theorem inv_init : StkInv (Stk.new : Stk α) := by
  simp [StkInv, StkInvL, Stk.new]

/-- No operation panics on a state satisfying the invariant. -/
theorem step_no_panic (s : Stk α) (op : Op α) (h : StkInv s) : (step s op).isSome := by
  obtain ⟨cache, popped, lengths⟩ := s
  cases op with
  | push x => simp [step]
  | pop =>
    simp only [step, pop]
    cases cache with
    | nil => simp
    | cons x c =>
      cases lengths with
      | nil => simp
      | cons lr ls => obtain ⟨len, rem⟩ := lr; simp only []; split <;> simp
  | peek => simp [step]
  | snapshot => simp [step]
  | clearSnapshot =>
    simp only [step, clearSnapshot]
    cases lengths with
    | nil => simp
    | cons lr ls =>
      obtain ⟨len, rem⟩ := lr
      cases ls with
      | nil =>
        simp only [StkInv, StkInvL] at h
        simp only []
        rw [if_neg (by omega), if_neg (by omega)]; simp
      | cons pr ls' =>
        obtain ⟨plen, prem⟩ := pr
        simp only [StkInv, StkInvL] at h
        simp only []
        rw [if_neg (by omega), if_neg (by omega), if_neg (by omega)]; simp
  | restore =>
    simp only [step, restore]
    cases lengths with
    | nil => simp
    | cons lr ls =>
      obtain ⟨len, rem⟩ := lr
      simp only [StkInv, StkInvL] at h
      simp only []
      split
      · rw [if_neg (by omega)]; simp
      · simp

/-- The invariant is preserved by every operation. -/
theorem step_inv (s s' : Stk α) (op : Op α) (o : Out α) (h : StkInv s)
    (hs : step s op = some (s', o)) : StkInv s' := by
  obtain ⟨cache, popped, lengths⟩ := s
  cases op with
  | push x =>
    simp only [step, Option.some.injEq, Prod.mk.injEq] at hs
    obtain ⟨rfl, -⟩ := hs
    exact StkInvL_push _ _ _ h
  | pop =>
    simp only [step, pop] at hs
    cases cache with
    | nil =>
      simp at hs; obtain ⟨rfl, -⟩ := hs; exact h
    | cons x c =>
      cases lengths with
      | nil => simp at hs; obtain ⟨rfl, -⟩ := hs; exact h
      | cons lr ls =>
        obtain ⟨len, rem⟩ := lr
        simp only [StkInv, StkInvL, List.length_cons] at h
        simp only [] at hs
        split at hs
        · simp at hs; obtain ⟨rfl, -⟩ := hs
          simp only [StkInv, StkInvL, List.length_cons]
          refine ⟨by omega, by omega, by omega, ?_⟩
          have e : popped.length + 1 - (len - (rem - 1)) = popped.length - (len - rem) := by omega
          rw [e]; exact h.2.2.2
        · simp at hs; obtain ⟨rfl, -⟩ := hs
          simp only [StkInv, StkInvL]
          exact ⟨by omega, by omega, by omega, h.2.2.2⟩
  | peek =>
    simp only [step, Option.some.injEq, Prod.mk.injEq] at hs
    obtain ⟨rfl, -⟩ := hs; exact h
  | snapshot =>
    simp only [step, Option.some.injEq, Prod.mk.injEq] at hs
    obtain ⟨rfl, -⟩ := hs
    simp only [StkInv, StkInvL]
    refine ⟨by omega, by omega, by omega, ?_⟩
    simpa [StkInv] using h
  | clearSnapshot =>
    simp only [step, clearSnapshot] at hs
    cases lengths with
    | nil => simp at hs; obtain ⟨rfl, -⟩ := hs; exact h
    | cons lr ls =>
      obtain ⟨len, rem⟩ := lr
      cases ls with
      | nil =>
        simp only [StkInv, StkInvL] at h
        simp only [] at hs
        rw [if_neg (by omega), if_neg (by omega)] at hs
        simp at hs; obtain ⟨rfl, -⟩ := hs
        simp only [StkInv, StkInvL, List.length_drop]; omega
      | cons pr ls' =>
        obtain ⟨plen, prem⟩ := pr
        simp only [StkInv, StkInvL] at h
        simp only [] at hs
        rw [if_neg (by omega), if_neg (by omega), if_neg (by omega)] at hs
        simp at hs; obtain ⟨rfl, -⟩ := hs
        simp only [StkInv, StkInvL, List.length_append, List.length_take, List.length_drop]
        refine ⟨by omega, by omega, by omega, ?_⟩
        have e : min (prem - min prem rem) (min (len - rem) popped.length) + (popped.length - (len - rem)) - (plen - min prem rem) = popped.length - (len - rem) - (plen - prem) := by omega
        rw [e]; exact h.2.2.2.2.2.2
  | restore =>
    simp only [step, restore] at hs
    cases lengths with
    | nil => simp at hs; obtain ⟨rfl, -⟩ := hs; simpa [StkInv, StkInvL] using h
    | cons lr ls =>
      obtain ⟨len, rem⟩ := lr
      simp only [StkInv, StkInvL] at h
      simp only [] at hs
      split at hs
      · rw [if_neg (by omega)] at hs
        simp at hs; obtain ⟨rfl, -⟩ := hs
        simp only [StkInv]
        have e : ((List.take (len - rem) popped).reverse ++
          if rem < cache.length then List.drop (cache.length - rem) cache else cache).length = len := by
          split <;> simp <;> omega
        rw [e, List.length_drop]; exact h.2.2.2
      · simp at hs; obtain ⟨rfl, -⟩ := hs
        simp only [StkInv]
        have e : (if rem < cache.length then List.drop (cache.length - rem) cache else cache).length = len := by
          split
          · simp; omega
          · omega
        have e2 : popped.length - (len - rem) = popped.length := by omega
        rw [e, ← e2]; exact h.2.2.2

/-- One step of the implementation model is one step of the naive model, through `abs`. -/
theorem step_refines (s s' : Stk α) (op : Op α) (o : Out α) (h : StkInv s)
    (hs : step s op = some (s', o)) : Naive.step (abs s) op = (abs s', o) := by
  obtain ⟨cache, popped, lengths⟩ := s
  cases op with
  | push x =>
    simp only [step, Option.some.injEq, Prod.mk.injEq] at hs
    obtain ⟨rfl, rfl⟩ := hs
    simp only [Naive.step, abs, Prod.mk.injEq, and_true, Naive.mk.injEq, true_and]
    apply absSaved_congr_cur
    rintro len rem l rfl
    simp only [StkInv, StkInvL] at h
    have e : (x :: cache).length - rem = (cache.length - rem) + 1 := by simp; omega
    rw [e]; rfl
  | pop =>
    simp only [step, pop] at hs
    cases cache with
    | nil =>
      simp at hs; obtain ⟨rfl, rfl⟩ := hs; simp [Naive.step, abs]
    | cons x c =>
      cases lengths with
      | nil => simp at hs; obtain ⟨rfl, rfl⟩ := hs; simp [Naive.step, abs, absSaved]
      | cons lr ls =>
        obtain ⟨len, rem⟩ := lr
        simp only [StkInv, StkInvL, List.length_cons] at h
        simp only [] at hs
        split at hs
        · simp at hs; obtain ⟨rfl, rfl⟩ := hs
          simp only [Naive.step, abs, List.tail_cons, List.head?_cons, Prod.mk.injEq, and_true,
            Naive.mk.injEq, true_and, absSaved]
          have e1 : len - (rem - 1) = (len - rem) + 1 := by omega
          have e2 : (x :: c).length - rem = 0 := by simp; omega
          have e3 : c.length - (rem - 1) = 0 := by omega
          rw [e1, e2, e3]
          simp
        · simp at hs; obtain ⟨rfl, rfl⟩ := hs
          simp only [Naive.step, abs, List.tail_cons, List.head?_cons, Prod.mk.injEq, and_true,
            Naive.mk.injEq, true_and]
          apply absSaved_congr_cur
          rintro len rem l h'
          simp only [List.cons.injEq, Prod.mk.injEq] at h'
          obtain ⟨⟨rfl, rfl⟩, rfl⟩ := h'
          have e : (x :: c).length - rem = (c.length - rem) + 1 := by simp; omega
          rw [e]; rfl
  | peek =>
    simp only [step, Option.some.injEq, Prod.mk.injEq] at hs
    obtain ⟨rfl, rfl⟩ := hs; rfl
  | snapshot =>
    simp only [step, Option.some.injEq, Prod.mk.injEq] at hs
    obtain ⟨rfl, rfl⟩ := hs
    simp [Naive.step, abs, absSaved]
  | clearSnapshot =>
    simp only [step, clearSnapshot] at hs
    cases lengths with
    | nil => simp at hs; obtain ⟨rfl, rfl⟩ := hs; simp [Naive.step, abs, absSaved]
    | cons lr ls =>
      obtain ⟨len, rem⟩ := lr
      cases ls with
      | nil =>
        simp only [StkInv, StkInvL] at h
        simp only [] at hs
        rw [if_neg (by omega), if_neg (by omega)] at hs
        simp at hs; obtain ⟨rfl, rfl⟩ := hs
        simp [Naive.step, abs, absSaved]
      | cons pr ls' =>
        obtain ⟨plen, prem⟩ := pr
        simp only [StkInv, StkInvL] at h
        simp only [] at hs
        rw [if_neg (by omega), if_neg (by omega), if_neg (by omega)] at hs
        simp only [Option.map_some, Option.some.injEq, Prod.mk.injEq] at hs
        obtain ⟨rfl, rfl⟩ := hs
        simp only [Naive.step, abs, absSaved, List.tail_cons, Prod.mk.injEq, and_true,
          Naive.mk.injEq, true_and]
        have hk : (popped.take (len - rem)).length = len - rem := by simp; omega
        obtain ⟨c1, c2⟩ := clear_core cache (popped.take (len - rem)) (popped.drop (len - rem))
          len rem plen prem hk (by omega) (by omega) (by omega) (by omega)
        rw [c1, c2]
  | restore =>
    simp only [step, restore] at hs
    cases lengths with
    | nil => simp at hs; obtain ⟨rfl, rfl⟩ := hs; simp [Naive.step, abs, absSaved]
    | cons lr ls =>
      obtain ⟨len, rem⟩ := lr
      simp only [StkInv, StkInvL] at h
      simp only [] at hs
      have ec : (if rem < cache.length then List.drop (cache.length - rem) cache else cache)
          = cache.drop (cache.length - rem) := by
        split
        · rfl
        · have : cache.length - rem = 0 := by omega
          rw [this]; rfl
      rw [ec] at hs
      split at hs
      · rw [if_neg (by omega)] at hs
        simp at hs; obtain ⟨rfl, rfl⟩ := hs
        simp [Naive.step, abs, absSaved]
      · simp at hs; obtain ⟨rfl, rfl⟩ := hs
        have : len - rem = 0 := by omega
        simp [Naive.step, abs, absSaved, this]

/-- Generalised form of `run_refines` from any state satisfying the invariant. -/
theorem run_refines_from (s : Stk α) (ops : List (Op α)) (h : StkInv s) :
    ∃ s', run s ops = some (s', (Naive.run (abs s) ops).2) ∧ StkInv s' ∧
      abs s' = (Naive.run (abs s) ops).1 := by
  induction ops generalizing s with
  | nil => exact ⟨s, rfl, h, rfl⟩
  | cons op ops ih =>
    have hp := step_no_panic s op h
    obtain ⟨⟨s1, o⟩, hs⟩ := Option.isSome_iff_exists.mp hp
    have hi := step_inv s s1 op o h hs
    have hr := step_refines s s1 op o h hs
    obtain ⟨s2, h1, h2, h3⟩ := ih s1 hi
    refine ⟨s2, ?_, h2, ?_⟩
    · simp only [run, hs, h1, Naive.run, hr]
    · simp only [Naive.run, hr]; exact h3

/-- **Main theorem.** For every history from the empty stack: no operation panics, every
`pop`/`peek` returns what the naive model returns, and the contents afterwards are the naive
model's contents.  (Every prefix of a history is a history, so this is "after each operation".) -/
theorem run_refines (ops : List (Op α)) :
    ∃ s', run Stk.new ops = some (s', (Naive.run Naive.new ops).2) ∧
      s'.cache = (Naive.run Naive.new ops).1.cur := by
  have e : abs (Stk.new : Stk α) = Naive.new := rfl
  obtain ⟨s', h1, -, h3⟩ := run_refines_from (Stk.new : Stk α) ops inv_init
  rw [e] at h1 h3
  exact ⟨s', h1, by rw [← h3]; rfl⟩

/-- Non-vacuity: a reachable three-deep state with pops below the snapshot line and re-pushes
satisfies the invariant and is not the trivial state. -/
example :
    let ops : List (Op Nat) := [.push 1, .push 2, .snapshot, .pop, .snapshot, .pop, .push 3,
      .snapshot, .pop, .push 4, .push 5]
    ∃ s os, run Stk.new ops = some (s, os) ∧ s.lengths.length = 3 ∧ s.popped ≠ [] ∧ StkInv s := by
  refine ⟨_, _, rfl, rfl, by decide, ?_⟩
  simp [StkInv, StkInvL, Stk.new]

end PestModel.C11
