import PestModel.Model.RefSpec
import PestModel.Lemmas.RefVal
import PestModel.Lemmas.PStateLimitTr
/-!
# Glue for the capstones (`PestModel/Thm/Capstone.lean`)

* the documented semantics assign at most one definite result (`means_det`);
* a run that starts without a call limit ends without one, so `finish` (what the caller of `parse`
  sees) classifies the outcome faithfully: `.ok` ↦ `success queue`, `.err` ↦ `parsingError`,
  a panic ↦ `none` (`finish_ok_of_new`, `finish_err_of_new`).
-/
namespace PestModel.Capstone
open PestModel.G PestModel.PS PestModel.Ref
open PestModel.LineCol (Str)

/-- `Means` is deterministic. -/
theorem means_det {rules : List Rule} {extras : Bool} {uni : String → Option CharSet} {name : String}
    {input : Str} {r r' : Res} (h : Means rules extras uni name input r)
    (h' : Means rules extras uni name input r') : r = r' := by
  rw [means_iff] at h h'
  exact h.2.symm.trans h'.2

/-- a definite value of `meaning` is what the grammar `Means`. -/
theorem means_of_meaning {rules : List Rule} {extras : Bool} {uni : String → Option CharSet} {name : String}
    {input : Str} {fuel : Nat} {r : Res} (h : meaning rules extras uni fuel name input = r) (hr : r ≠ .fuel) :
    Means rules extras uni name input r := ⟨hr, fuel, h⟩

/-- without a call limit at the start there is none at the end. -/
theorem reached_false_of_run (cfg : Cfg) (fuel : Nat) (p : Prog) (s s' : PState) (h0 : s.calls = none)
    (h : (run cfg fuel p s).state? = some s') : reachedCallLimit s' = false := by
  have hc := (run_callsMono cfg fuel p s s' h).1 h0
  unfold reachedCallLimit
  rw [hc]

theorem finish_ok_of_new (cfg : Cfg) (fuel : Nat) (p : Prog) (input : Str) (detail : Bool) (st : PState)
    (h : run cfg fuel p (PState.new input none detail) = .ok st) :
    finish (.ok st) = some (.success st.queue) := by
  have := reached_false_of_run cfg fuel p (PState.new input none detail) st rfl (by rw [h]; rfl)
  simp [finish, this]

theorem finish_err_of_new (cfg : Cfg) (fuel : Nat) (p : Prog) (input : Str) (detail : Bool) (st : PState)
    (h : run cfg fuel p (PState.new input none detail) = .err st) :
    finish (.err st) = some (.parsingError st.attemptPos (sortDedup st.posAtt) (sortDedup st.negAtt)) := by
  have := reached_false_of_run cfg fuel p (PState.new input none detail) st rfl (by rw [h]; rfl)
  simp [finish, this]

end PestModel.Capstone
