import PestModel.Lemmas.GenVmExpr
/-! C02, part 11: the main induction — every expression, rule and environment slot lowered by the VM
and by the generator simulate each other. -/
namespace PestModel.GenVm
open PestModel.PS PestModel.Stack PestModel.Lower PestModel.G
open PestModel.LineCol (Str isBoundary slice?)
open PestModel.VmRef (Dirty index_some index_none)

/-! ### `Both`-level congruences -/

section
variable {A B : Cfg} {n : Nat}

theorem both_andThen {P P' Q Q' : Prog} (h1 : Both A B n P P') (h2 : Both A B n Q Q') :
    Both A B n (.andThen P Q) (.andThen P' Q') := ⟨sim_andThen h1.1 h2.1, sim_andThen h1.2 h2.2⟩
theorem both_orElse {P P' Q Q' : Prog} (h1 : Both A B n P P') (h2 : Both A B n Q Q') :
    Both A B n (.orElse P Q) (.orElse P' Q') := ⟨sim_orElse h1.1 h2.1, sim_orElse h1.2 h2.2⟩
theorem both_sequence {P Q : Prog} (h : Both A B n P Q) : Both A B n (.sequence P) (.sequence Q) :=
  ⟨sim_sequence h.1, sim_sequence h.2⟩
theorem both_optional {P Q : Prog} (h : Both A B n P Q) : Both A B n (.optional P) (.optional Q) :=
  ⟨sim_optional h.1, sim_optional h.2⟩
theorem both_repeat {P Q : Prog} (h : Both A B n P Q) : Both A B n (.repeat_ P) (.repeat_ Q) :=
  ⟨sim_repeat h.1, sim_repeat h.2⟩
theorem both_lookahead (b : Bool) {P Q : Prog} (h : Both A B n P Q) :
    Both A B n (.lookahead b P) (.lookahead b Q) := ⟨sim_lookahead b h.1, sim_lookahead b h.2⟩
theorem both_atomic (a : Atomicity) {P Q : Prog} (h : Both A B n P Q) :
    Both A B n (.atomic a P) (.atomic a Q) := ⟨sim_atomic a h.1, sim_atomic a h.2⟩
theorem both_rule (r : Nat) {P Q : Prog} (h : Both A B n P Q) : Both A B n (.rule r P) (.rule r Q) :=
  ⟨sim_rule r h.1, sim_rule r h.2⟩
theorem both_stackPush {P Q : Prog} (h : Both A B n P Q) : Both A B n (.stackPush P) (.stackPush Q) :=
  ⟨sim_stackPush h.1, sim_stackPush h.2⟩
theorem both_restoreOnErr {P Q : Prog} (h : Both A B n P Q) :
    Both A B n (.restoreOnErr P) (.restoreOnErr Q) := ⟨sim_restoreOnErr h.1, sim_restoreOnErr h.2⟩
theorem both_leaf (hm : A.memchr = B.memchr) {p : Prog} (hp : Prog.isLeaf p = true) : Both A B n p p :=
  ⟨sim_leaf hm hp, sim_leaf hm.symm hp⟩
theorem both_call (h1 : EnvSim A B n) (h2 : EnvSim B A n) (i : Nat) : Both A B (n+1) (.call i) (.call i) :=
  ⟨sim_call h1 i, sim_call h2 i⟩

end

variable {env : Env} {memchr : Bool}

local notation "V" => cfgOf Backend.vm env memchr
local notation "Gc" => cfgOf Backend.gen env memchr

theorem memchr_eq : (cfgOf Backend.vm env memchr).memchr = (cfgOf Backend.gen env memchr).memchr := rfl

/-- all slots related, both ways. -/
def Phi (env : Env) (memchr : Bool) (n : Nat) : Prop :=
  EnvSim (cfgOf .vm env memchr) (cfgOf .gen env memchr) n ∧
  EnvSim (cfgOf .gen env memchr) (cfgOf .vm env memchr) n

variable {n : Nat}

theorem both_rng (a b : Char) : Both V Gc n (rng a b) (rng a b) := both_leaf memchr_eq rfl

theorem both_builtin (h : Phi env memchr n) (name : String) :
    Both V Gc (n+1) (builtin env name) (builtin env name) := by
  unfold builtin
  split
  · exact both_leaf memchr_eq rfl
  · exact both_rule _ (both_leaf memchr_eq rfl)
  · exact both_leaf memchr_eq rfl
  · exact both_leaf memchr_eq rfl
  · exact both_leaf memchr_eq rfl
  · exact both_leaf memchr_eq rfl
  · exact both_leaf memchr_eq rfl
  · exact both_leaf memchr_eq rfl
  · exact both_rng _ _
  · exact both_rng _ _
  · exact both_rng _ _
  · exact both_rng _ _
  · exact both_orElse (both_orElse (both_rng _ _) (both_rng _ _)) (both_rng _ _)
  · exact both_rng _ _
  · exact both_rng _ _
  · exact both_orElse (both_rng _ _) (both_rng _ _)
  · exact both_orElse (both_orElse (both_rng _ _) (both_rng _ _)) (both_rng _ _)
  · exact both_rng _ _
  · exact both_orElse (both_orElse (both_leaf memchr_eq rfl) (both_leaf memchr_eq rfl)) (both_leaf memchr_eq rfl)
  · split
    · exact both_leaf memchr_eq rfl
    · exact both_call h.1 h.2 _

theorem both_callRule (h : Phi env memchr n) (name : String) (ctx : Atomicity) :
    Both V Gc (n+1) (callRule env name ctx) (callRule env name ctx) := by
  unfold callRule
  cases env.index name with
  | none => exact both_builtin h name
  | some i => exact both_call h.1 h.2 _

theorem both_skipProg (h : Phi env memchr n) (ctx : Atomicity) :
    Both V Gc (n+1) (skipProg env ctx) (skipProg env ctx) := by
  unfold skipProg
  split
  · exact both_leaf memchr_eq rfl
  · have ws := both_callRule h "WHITESPACE" .nonAtomic
    have cm := both_callRule h "COMMENT" .nonAtomic
    dsimp only
    split
    · exact both_leaf memchr_eq rfl
    · exact both_repeat ws
    · exact both_repeat cm
    · exact both_sequence (both_andThen (both_repeat ws)
        (both_repeat (both_sequence (both_andThen cm (both_repeat ws)))))

theorem skipProg_atomic {ctx : Atomicity} (h : ctx ≠ .nonAtomic) : skipProg env ctx = .ok := by
  unfold skipProg; rw [if_pos h]

/-! ### expressions -/

/-- the statement for one expression. -/
def ExprOK (env : Env) (memchr : Bool) (n : Nat) (e : OExpr) : Prop :=
  ∀ (ctx : Atomicity) (ag : Bool) (f : Nat), osize e ≤ f → TagPlain e →
    (ag = true → ctx ≠ .nonAtomic ∧ RepClean env.rules e) →
    Both (cfgOf .vm env memchr) (cfgOf .gen env memchr) n (vmExpr env ctx e) (genExpr env ctx ag f e)

theorem exprOK_all (hsize : env.rules.length ≤ 333333333) (h : Phi env memchr n) :
    ∀ (N : Nat) (e : OExpr), osize e ≤ N → ExprOK env memchr (n+1) e
  | 0, e, hN => by have := osize_pos e; omega
  | N + 1, e, hN => by
    have ih := exprOK_all hsize h N
    intro ctx ag f hf htag hag
    obtain ⟨f, rfl⟩ : ∃ f', f = f' + 1 := ⟨f - 1, by have := osize_pos e; omega⟩
    have hskip := both_skipProg h ctx
    unfold genExpr
    cases e with
    | str s => exact both_leaf memchr_eq rfl
    | insens s => exact both_leaf memchr_eq rfl
    | range a b => exact both_leaf memchr_eq rfl
    | ident name => exact both_callRule h name ctx
    | peekSlice a b => exact both_leaf memchr_eq rfl
    | skip ss => exact both_leaf memchr_eq rfl
    | pushLiteral s => exact both_leaf memchr_eq rfl
    | posPred e =>
      simp only [osize] at hN hf
      exact both_lookahead true (ih e (by omega) ctx ag f (by omega) htag hag)
    | negPred e =>
      simp only [osize] at hN hf
      exact both_lookahead false (ih e (by omega) ctx ag f (by omega) htag hag)
    | opt e =>
      simp only [osize] at hN hf
      exact both_optional (ih e (by omega) ctx ag f (by omega) htag hag)
    | push e =>
      simp only [osize] at hN hf
      exact both_stackPush (ih e (by omega) ctx ag f (by omega) htag hag)
    | restoreOnErr e =>
      simp only [osize] at hN hf
      exact both_restoreOnErr (ih e (by omega) ctx ag f (by omega) htag hag)
    | nodeTag e t =>
      simp only [osize] at hN hf
      rw [gen_nodeTag _ _ _ _ _ _ htag.1]
      exact both_andThen (ih e (by omega) ctx ag f (by omega) htag.2 hag) (both_leaf memchr_eq rfl)
    | repOnce e =>
      simp only [osize] at hN hf
      have he := ih e (by omega) ctx ag f (by omega) htag hag
      unfold genExpr at he
      cases ag with
      | false =>
        rw [gen_repOnce_plain]
        exact both_sequence (both_andThen he (both_repeat (both_sequence (both_andThen hskip he))))
      | true =>
        rw [gen_repOnce_atomic]
        show Both _ _ _ (.sequence (.andThen _ (.repeat_ (.sequence (.andThen (skipProg env ctx) _))))) _
        rw [skipProg_atomic (hag rfl).1] at he ⊢
        exact ⟨sim_sequence (sim_andThen he.1 (sim_repeat (sim_sequence (sim_ok_andThen_src he.1)))),
          sim_sequence (sim_andThen he.2 (sim_repeat (sim_sequence (sim_ok_andThen_tgt he.2))))⟩
    | rep e =>
      simp only [osize] at hN hf
      cases ag with
      | false =>
        have he := ih e (by omega) ctx false f (by omega) htag (fun x => by cases x)
        unfold genExpr at he
        rw [gen_rep_plain]
        exact both_sequence (both_optional (both_andThen he
          (both_repeat (both_sequence (both_andThen hskip he)))))
      | true =>
        obtain ⟨hctx, hd, hrc⟩ := hag rfl
        have he := ih e (by omega) ctx true f (by omega) htag (fun _ => ⟨hctx, hrc⟩)
        unfold genExpr at he
        rw [gen_rep_atomic]
        show Both _ _ _ (.sequence (.optional (.andThen _ (.repeat_ (.sequence (.andThen (skipProg env ctx) _)))))) _
        rw [skipProg_atomic hctx] at he ⊢
        have hcl := errClean_vm (memchr := memchr) hsize hd ctx
        exact ⟨rep_VG he.1 hcl, rep_GV he.2 hcl⟩
    | choice a b =>
      simp only [osize] at hN hf
      have ha := ih a (by omega) ctx ag f (by omega) htag.1 (fun x => ⟨(hag x).1, (hag x).2.1⟩)
      unfold genExpr at ha
      rw [gen_choice]
      show Both _ _ _ (.orElse (vmExpr env ctx a) (vmExpr env ctx b)) _
      rcases choice_or_not b with ⟨b1, b2, rfl⟩ | hb
      · have hb := ih (.choice b1 b2) (by omega) ctx ag (f+1) (by omega) htag.2
          (fun x => ⟨(hag x).1, (hag x).2.2⟩)
        unfold genExpr at hb
        rw [gen_choice] at hb
        have hp : PrefixE Gc (genExprWith (skipProg env ctx) (fun n => callRule env n ctx) ag f a)
            ((choiceItems (.choice b1 b2)).foldl (fun acc t => Prog.orElse acc
              (genExprWith (skipProg env ctx) (fun n => callRule env n ctx) ag f t))
              (genExprWith (skipProg env ctx) (fun n => callRule env n ctx) ag f a))
            ((choiceItems b2).foldl (fun acc t => Prog.orElse acc
              (genExprWith (skipProg env ctx) (fun n => callRule env n ctx) ag f t))
              (genExprWith (skipProg env ctx) (fun n => callRule env n ctx) ag f b1)) := by
          show PrefixE _ _ ((b1 :: choiceItems b2).foldl _ _) _
          rw [List.foldl_cons]
          exact prefixE_foldl _ _ (prefixE_orElse _ _)
        exact ⟨choice_VG ha.1 hb.1 hp, choice_GV ha.2 hb.2 hp⟩
      · have hb' := ih b (by omega) ctx ag f (by omega) htag.2 (fun x => ⟨(hag x).1, (hag x).2.2⟩)
        unfold genExpr at hb'
        rw [hb]
        exact both_orElse ha hb'
    | seq a b =>
      simp only [osize] at hN hf
      have ha := ih a (by omega) ctx ag f (by omega) htag.1 (fun x => ⟨(hag x).1, (hag x).2.1⟩)
      unfold genExpr at ha
      rw [gen_seq]
      show Both _ _ _ (.sequence (.andThen (.andThen (vmExpr env ctx a) (skipProg env ctx)) (vmExpr env ctx b))) _
      -- the prefix `a ~ skip`
      have hpre : ∃ P0, Both V Gc (n+1) (.andThen (vmExpr env ctx a) (skipProg env ctx)) P0 ∧
          ∀ T, seqStep ag (skipProg env ctx) (genExprWith (skipProg env ctx) (fun n => callRule env n ctx) ag f)
            (genExprWith (skipProg env ctx) (fun n => callRule env n ctx) ag f a) T =
            .andThen P0 (genExprWith (skipProg env ctx) (fun n => callRule env n ctx) ag f T) := by
        cases ag with
        | false => exact ⟨_, both_andThen ha hskip, fun T => rfl⟩
        | true =>
          refine ⟨_, ?_, fun T => rfl⟩
          rw [skipProg_atomic (hag rfl).1] at ha ⊢
          exact ⟨sim_andThen_ok_src ha.1, sim_andThen_ok_tgt ha.2⟩
      obtain ⟨P0, hP0, hstep⟩ := hpre
      rcases seq_or_not b with ⟨b1, b2, rfl⟩ | hb
      · have hb := ih (.seq b1 b2) (by omega) ctx ag (f+1) (by omega) htag.2
          (fun x => ⟨(hag x).1, (hag x).2.2⟩)
        unfold genExpr at hb
        rw [gen_seq] at hb
        have hp : Prefix Gc P0
            ((seqItems (.seq b1 b2)).foldl (seqStep ag (skipProg env ctx)
              (genExprWith (skipProg env ctx) (fun n => callRule env n ctx) ag f))
              (genExprWith (skipProg env ctx) (fun n => callRule env n ctx) ag f a))
            ((seqItems b2).foldl (seqStep ag (skipProg env ctx)
              (genExprWith (skipProg env ctx) (fun n => callRule env n ctx) ag f))
              (genExprWith (skipProg env ctx) (fun n => callRule env n ctx) ag f b1)) := by
          show Prefix _ _ ((b1 :: seqItems b2).foldl _ _) _
          rw [List.foldl_cons, hstep]
          exact prefix_foldl _ _ _ _ (prefix_andThen _ _)
        exact ⟨flatten_VG hP0.1 hb.1 hp, flatten_GV hP0.2 hb.2 hp⟩
      · have hb' := ih b (by omega) ctx ag f (by omega) htag.2 (fun x => ⟨(hag x).1, (hag x).2.2⟩)
        unfold genExpr at hb'
        rw [hb, List.foldl_cons, List.foldl_nil, hstep]
        exact both_sequence (both_andThen hP0 hb')

end PestModel.GenVm
