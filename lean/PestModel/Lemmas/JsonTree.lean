import PestModel.Lemmas.JsonStr
/-!
C18 helper lemmas, part 5: the structural part of the RFC side (`value`, `object`, `members`, `array`,
`elements`): cursors of results, accumulators, and fuel-free unfoldings.
-/
namespace PestModel.Json
open PestModel.LineCol (Str cLen bLen)

theorem ws_reach (n : Nat) (c : Cur) : Reach c (ws n c) := by
  induction n generalizing c with
  | zero => exact Reach.refl c
  | succ n ih =>
    rw [ws]
    split
    · split
      · exact Reach.trans (Reach.adv c) (ih _)
      · exact Reach.refl c
    · exact Reach.refl c

theorem literal_reach {lit : Str} {label : String} {c : Cur} {t : JTree} {c' : Cur}
    (h : literal lit label c = some (t, c')) (hl : bLen lit = lit.length) : Reach c c' := by
  unfold literal at h
  split at h
  · rename_i hp
    simp only [Option.some.injEq, Prod.mk.injEq] at h
    obtain ⟨_, rfl⟩ := h
    obtain ⟨t, ht⟩ := List.isPrefixOf_iff_prefix.1 hp
    refine ⟨lit, ?_, ?_⟩
    · simp [← ht]
    · simp [hl]
  · simp at h

theorem number_reach {c : Cur} {t : JTree} {c' : Cur} (h : number c = some (t, c')) : Reach c c' := by
  rw [number_eq] at h
  cases hn : numEnd c with
  | none => simp [hn] at h
  | some c4 =>
    simp only [hn, Option.some.injEq, Prod.mk.injEq] at h
    obtain ⟨_, rfl⟩ := h
    exact numEnd_reach hn

/-- the alternatives of `value`. -/
def valueInner (f : Nat) (c : Cur) : Option (JTree × Cur) :=
  match c.rest with
  | '"' :: _ => string c
  | '{' :: _ => object f c
  | '[' :: _ => array f c
  | 't' :: _ => literal "true".toList "bool" c
  | 'f' :: _ => literal "false".toList "bool" c
  | 'n' :: _ => literal "null".toList "null" c
  | _ => number c

theorem value_succ (f : Nat) (c : Cur) : value (f + 1) c =
    match valueInner f c with
    | some (t, c') => some (.node "value" c.pos c'.pos [t], c')
    | none => none := by
  rw [value]; rfl

theorem struct_reach (f : Nat) :
    (∀ c t c', value f c = some (t, c') → Reach c c') ∧
    (∀ c t c', object f c = some (t, c') → Reach c c') ∧
    (∀ c acc ms c', members f c acc = some (ms, c') → Reach c c') ∧
    (∀ c t c', array f c = some (t, c') → Reach c c') ∧
    (∀ c acc vs c', elements f c acc = some (vs, c') → Reach c c') := by
  induction f with
  | zero =>
    refine ⟨?_, ?_, ?_, ?_, ?_⟩ <;> intros <;> rename_i h
    · simp [value] at h
    · simp [object] at h
    · simp [members] at h
    · simp [array] at h
    · simp [elements] at h
  | succ f ih =>
    obtain ⟨ihv, iho, ihm, iha, ihe⟩ := ih
    refine ⟨?_, ?_, ?_, ?_, ?_⟩
    · intro c t c' h
      rw [value_succ] at h
      cases hi : valueInner f c with
      | none => simp [hi] at h
      | some p =>
        obtain ⟨t1, c1⟩ := p
        simp only [hi, Option.some.injEq, Prod.mk.injEq] at h
        obtain ⟨_, rfl⟩ := h
        unfold valueInner at hi
        split at hi
        · exact (string_reach hi).1
        · exact iho _ _ _ hi
        · exact iha _ _ _ hi
        · exact literal_reach hi (by decide)
        · exact literal_reach hi (by decide)
        · exact literal_reach hi (by decide)
        · exact number_reach hi
    · intro c t c' h
      rw [object] at h
      try simp only [] at h
      split at h
      · simp only [Option.some.injEq, Prod.mk.injEq] at h
        obtain ⟨_, rfl⟩ := h
        exact Reach.trans (Reach.adv c) (Reach.trans (ws_reach _ _) (Reach.adv _))
      · split at h
        · rename_i ms c2 hm
          split at h
          · simp only [Option.some.injEq, Prod.mk.injEq] at h
            obtain ⟨_, rfl⟩ := h
            exact Reach.trans (Reach.adv c) (Reach.trans (ws_reach _ _) (Reach.trans (ihm _ _ _ _ hm) (Reach.adv _)))
          · simp at h
        · simp at h
    · intro c acc ms c' h
      rw [members] at h
      split at h
      · rename_i k c1 hs
        try simp only [] at h
        split at h
        · split at h
          · rename_i v c4 hv
            try simp only [] at h
            have r4 : Reach c c4 :=
              Reach.trans (string_reach hs).1 (Reach.trans (ws_reach _ _) (Reach.trans (Reach.adv _)
                (Reach.trans (ws_reach _ _) (ihv _ _ _ hv))))
            split at h
            · exact Reach.trans r4 (Reach.trans (ws_reach _ _) (Reach.trans (Reach.adv _)
                (Reach.trans (ws_reach _ _) (ihm _ _ _ _ h))))
            · simp only [Option.some.injEq, Prod.mk.injEq] at h
              obtain ⟨_, rfl⟩ := h
              exact Reach.trans r4 (ws_reach _ _)
          · simp at h
        · simp at h
      · simp at h
    · intro c t c' h
      rw [array] at h
      try simp only [] at h
      split at h
      · simp only [Option.some.injEq, Prod.mk.injEq] at h
        obtain ⟨_, rfl⟩ := h
        exact Reach.trans (Reach.adv c) (Reach.trans (ws_reach _ _) (Reach.adv _))
      · split at h
        · rename_i ms c2 hm
          split at h
          · simp only [Option.some.injEq, Prod.mk.injEq] at h
            obtain ⟨_, rfl⟩ := h
            exact Reach.trans (Reach.adv c) (Reach.trans (ws_reach _ _) (Reach.trans (ihe _ _ _ _ hm) (Reach.adv _)))
          · simp at h
        · simp at h
    · intro c acc ms c' h
      rw [elements] at h
      split at h
      · rename_i v c1 hv
        try simp only [] at h
        have r1 : Reach c c1 := ihv _ _ _ hv
        split at h
        · exact Reach.trans r1 (Reach.trans (ws_reach _ _) (Reach.trans (Reach.adv _)
            (Reach.trans (ws_reach _ _) (ihe _ _ _ _ h))))
        · simp only [Option.some.injEq, Prod.mk.injEq] at h
          obtain ⟨_, rfl⟩ := h
          exact Reach.trans r1 (ws_reach _ _)
      · simp at h

theorem value_reach {f : Nat} {c : Cur} {t : JTree} {c' : Cur} (h : value f c = some (t, c')) : Reach c c' :=
  (struct_reach f).1 _ _ _ h

/-! ### accumulators -/

/-- prepend to the list of a result. -/
def preJ (a : List JTree) (o : Option (List JTree × Cur)) : Option (List JTree × Cur) :=
  match o with
  | some (ms, c) => some (a ++ ms, c)
  | none => none

@[simp] theorem preJ_none (a : List JTree) : preJ a none = none := rfl
@[simp] theorem preJ_some (a ms : List JTree) (c : Cur) : preJ a (some (ms, c)) = some (a ++ ms, c) := rfl

theorem preJ_preJ (a b : List JTree) (o) : preJ a (preJ b o) = preJ (a ++ b) o := by
  cases o with
  | none => rfl
  | some p => obtain ⟨ms, c⟩ := p; simp

theorem members_acc (f : Nat) : ∀ c acc, members f c acc = preJ acc (members f c []) := by
  induction f with
  | zero => intro c acc; simp [members]
  | succ f ih =>
    intro c acc
    rw [members, members]
    split
    · simp only []
      split
      · split
        · try simp only []
          split
          · rw [ih _ (acc ++ _), ih _ ([] ++ _), preJ_preJ]; simp
          · simp
        · rfl
      · rfl
    · rfl

theorem elements_acc (f : Nat) : ∀ c acc, elements f c acc = preJ acc (elements f c []) := by
  induction f with
  | zero => intro c acc; simp [elements]
  | succ f ih =>
    intro c acc
    rw [elements, elements]
    split
    · simp only []
      split
      · rw [ih _ (acc ++ _), ih _ ([] ++ _), preJ_preJ]; simp
      · simp
    · rfl

/-! ### fuel-free unfoldings -/

/-- one `member` (key, colon, value). -/
def pairR (f : Nat) (c : Cur) : Option (JTree × Cur) :=
  match string c with
  | some (k, c1) =>
    match (wsC c1).rest with
    | ':' :: _ =>
      match value f (wsC (wsC c1).adv) with
      | some (v, c4) => some (.node "pair" c.pos c4.pos [k, v], c4)
      | none => none
    | _ => none
  | none => none

theorem pairR_reach {f : Nat} {c : Cur} {t : JTree} {c' : Cur} (h : pairR f c = some (t, c')) :
    Reach c c' ∧ c'.rest.length < c.rest.length := by
  unfold pairR at h
  split at h
  · rename_i k c1 hs
    split at h
    · split at h
      · rename_i v c4 hv
        simp only [Option.some.injEq, Prod.mk.injEq] at h
        obtain ⟨_, rfl⟩ := h
        have r := Reach.trans (wsC_reach c1) (Reach.trans (Reach.adv _) (Reach.trans (wsC_reach _) (value_reach hv)))
        exact ⟨Reach.trans (string_reach hs).1 r, by have := r.len; have := (string_reach hs).2; omega⟩
      · simp at h
    · simp at h
  · simp at h

/-- what follows an item of a list: `ws` then a comma and more items, or the end. -/
def tailR (next : Cur → Option (List JTree × Cur)) (c4 : Cur) : Option (List JTree × Cur) :=
  match (wsC c4).rest with
  | ',' :: _ => next (wsC (wsC c4).adv)
  | _ => some ([], wsC c4)

theorem members_succ (f : Nat) (c : Cur) :
    members (f + 1) c [] =
      match pairR f c with
      | some (m, c4) => preJ [m] (tailR (fun c6 => members f c6 []) c4)
      | none => none := by
  rw [members, pairR]
  cases hs : string c with
  | none => rfl
  | some p =>
    obtain ⟨k, c1⟩ := p
    have h1 := (string_reach hs).1.len
    simp only []
    rw [ws_eq _ c1 (by omega)]
    cases hr : (wsC c1).rest with
    | nil => simp
    | cons ch cs =>
      by_cases hc : ch = ':'
      · subst hc
        simp only []
        rw [ws_eq _ (wsC c1).adv (by have := (wsC_reach c1).len; have := (Reach.adv (wsC c1)).len; omega)]
        cases hv : value f (wsC (wsC c1).adv) with
        | none => simp
        | some q =>
          obtain ⟨v, c4⟩ := q
          have h4 : c4.rest.length ≤ c.rest.length := by
            have := (wsC_reach c1).len; have := (Reach.adv (wsC c1)).len
            have := (wsC_reach (wsC c1).adv).len; have := (value_reach hv).len; omega
          simp only []
          rw [ws_eq _ c4 (by omega)]
          unfold tailR
          cases hr5 : (wsC c4).rest with
          | nil => simp
          | cons d ds =>
            by_cases hd : d = ','
            · subst hd
              simp only []
              rw [ws_eq _ (wsC c4).adv (by have := (wsC_reach c4).len; have := (Reach.adv (wsC c4)).len; omega)]
              rw [members_acc]
              simp
            · simp [hd]
      · simp [hc]

theorem elements_succ (f : Nat) (c : Cur) :
    elements (f + 1) c [] =
      match value f c with
      | some (v, c1) => preJ [v] (tailR (fun c6 => elements f c6 []) c1)
      | none => none := by
  rw [elements]
  cases hv : value f c with
  | none => rfl
  | some q =>
    obtain ⟨v, c1⟩ := q
    have h1 := (value_reach hv).len
    simp only []
    rw [ws_eq _ c1 (by omega)]
    unfold tailR
    cases hr5 : (wsC c1).rest with
    | nil => simp
    | cons d ds =>
      by_cases hd : d = ','
      · subst hd
        simp only []
        rw [ws_eq _ (wsC c1).adv (by have := (wsC_reach c1).len; have := (Reach.adv (wsC c1)).len; omega)]
        rw [elements_acc]
        simp
      · simp [hd]

/-- the closing bracket after the items. -/
def closeR (label : String) (cl : Char) (start : Nat) (o : Option (List JTree × Cur)) : Option (JTree × Cur) :=
  match o with
  | some (ms, c2) =>
    match c2.rest with
    | ch :: _ => if ch = cl then some (.node label start c2.adv.pos ms, c2.adv) else none
    | [] => none
  | none => none

theorem closeR_obj (start : Nat) (o : Option (List JTree × Cur)) :
    (match o with
      | some (ms, c2) =>
        (match c2.rest with
          | '}' :: _ => some (JTree.node "object" start c2.adv.pos ms, c2.adv)
          | _ => none)
      | none => none) = closeR "object" '}' start o := by
  unfold closeR
  cases o with
  | none => rfl
  | some p =>
    obtain ⟨ms, c2⟩ := p
    simp only []
    cases hr : c2.rest with
    | nil => rfl
    | cons ch cs =>
      by_cases hc : ch = '}'
      · subst hc; simp
      · simp [hc]

theorem closeR_arr (start : Nat) (o : Option (List JTree × Cur)) :
    (match o with
      | some (ms, c2) =>
        (match c2.rest with
          | ']' :: _ => some (JTree.node "array" start c2.adv.pos ms, c2.adv)
          | _ => none)
      | none => none) = closeR "array" ']' start o := by
  unfold closeR
  cases o with
  | none => rfl
  | some p =>
    obtain ⟨ms, c2⟩ := p
    simp only []
    cases hr : c2.rest with
    | nil => rfl
    | cons ch cs =>
      by_cases hc : ch = ']'
      · subst hc; simp
      · simp [hc]

theorem object_succ (f : Nat) (c : Cur) :
    object (f + 1) c =
      match (wsC c.adv).rest with
      | '}' :: _ => some (.node "object" c.pos (wsC c.adv).adv.pos [], (wsC c.adv).adv)
      | _ => closeR "object" '}' c.pos (members f (wsC c.adv) []) := by
  rw [object]
  try simp only []
  rw [ws_eq _ c.adv (by have := (Reach.adv c).len; omega)]
  split
  · rename_i heq; simp only [heq]
  · rename_i hne
    symm
    split
    · rename_i tl heq; exact (hne tl heq).elim
    · symm; exact closeR_obj _ _

theorem array_succ (f : Nat) (c : Cur) :
    array (f + 1) c =
      match (wsC c.adv).rest with
      | ']' :: _ => some (.node "array" c.pos (wsC c.adv).adv.pos [], (wsC c.adv).adv)
      | _ => closeR "array" ']' c.pos (elements f (wsC c.adv) []) := by
  rw [array]
  try simp only []
  rw [ws_eq _ c.adv (by have := (Reach.adv c).len; omega)]
  split
  · rename_i heq; simp only [heq]
  · rename_i hne
    symm
    split
    · rename_i tl heq; exact (hne tl heq).elim
    · symm; exact closeR_arr _ _

end PestModel.Json
