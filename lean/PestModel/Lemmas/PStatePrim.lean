import PestModel.Model.PStateSpec
import PestModel.Lemmas.LineColBasic
/-! Helper lemmas for C03 part 2 (matching primitives of `position.rs`). -/
namespace PestModel.PS
open PestModel.LineCol

theorem restAt_iff (input rest : Str) (pos : Nat) :
    restAt input pos = some rest ↔ ∃ pre, input = pre ++ rest ∧ bLen pre = pos := by
  unfold restAt
  constructor
  · intro h
    cases hs : splitAt? input pos with
    | none => simp [hs] at h
    | some p =>
      obtain ⟨a, b⟩ := p
      simp [hs] at h
      subst h
      exact ⟨a, splitAt_some hs⟩
  · rintro ⟨pre, rfl, rfl⟩
    simp [splitAt_append]

theorem restAt_advance {input rest pre post : Str} {pos : Nat}
    (h : restAt input pos = some rest) (hp : rest = pre ++ post) :
    restAt input (pos + bLen pre) = some post := by
  obtain ⟨p0, rfl, rfl⟩ := (restAt_iff _ _ _).1 h
  subst hp
  exact (restAt_iff _ _ _).2 ⟨p0 ++ pre, by simp, by simp⟩

theorem restAt_isBoundary {input rest : Str} {pos : Nat} (h : restAt input pos = some rest) :
    isBoundary input pos = true := by
  obtain ⟨p0, rfl, rfl⟩ := (restAt_iff _ _ _).1 h
  exact (isBoundary_iff _ _).2 ⟨p0, rest, rfl, rfl⟩

/-! ### `skip_until` -/

theorem skipUntilBasicGo_spec (strs : List Str) (rest : Str) (off : Nat) :
    ∃ skipped rest', rest = skipped ++ rest' ∧
      (skipUntilBasicGo strs rest off).1 = off + bLen skipped ∧
      (rest' ≠ [] → strs.any (·.isPrefixOf rest') = true) ∧
      (∀ k, k < skipped.length → strs.any (·.isPrefixOf (rest.drop k)) = false) := by
  induction rest generalizing off with
  | nil => exact ⟨[], [], rfl, by simp [skipUntilBasicGo], by simp, by simp⟩
  | cons c cs ih =>
    unfold skipUntilBasicGo
    by_cases hc : strs.any (·.isPrefixOf (c :: cs)) = true
    · rw [if_pos hc]
      exact ⟨[], c :: cs, rfl, by simp, fun _ => hc, by simp⟩
    · rw [if_neg hc]
      obtain ⟨sk, r', hr, h1, h2, h3⟩ := ih (off + cLen c)
      refine ⟨c :: sk, r', by simp [hr], by rw [h1]; simp; omega, h2, ?_⟩
      intro k hk
      cases k with
      | zero => simpa using hc
      | succ k => simpa using h3 k (by simpa using hk)

/-- the needle search of `memmem` equals the basic search with a single string. -/
theorem memmemGo_eq_basic (s1 rest : Str) (off : Nat) :
    (memmemGo s1 rest off).getD (off + bLen rest) = (skipUntilBasicGo [s1] rest off).1 := by
  induction rest generalizing off with
  | nil =>
    unfold memmemGo skipUntilBasicGo
    split <;> simp
  | cons c cs ih =>
    unfold memmemGo skipUntilBasicGo
    by_cases hc : s1.isPrefixOf (c :: cs) = true
    · simp [hc]
    · have := ih (off + cLen c)
      simp [hc, Nat.add_assoc] at this ⊢
      exact this

theorem isPrefixOf_cons_head {a c : Char} {as cs : Str}
    (h : (a :: as).isPrefixOf (c :: cs) = true) : a = c := by
  simp [List.isPrefixOf] at h
  exact h.1

/-- the `memchr` candidate filter is lossless when all strings are non-empty and their lead bytes
are among the searched bytes. -/
theorem memchrGo_eq_basic (firsts : List UInt8) (strs : List Str) (rest : Str) (off : Nat)
    (hs : ∀ s ∈ strs, ∃ a as, s = a :: as ∧ leadByte a ∈ firsts) :
    (memchrGo firsts strs rest off).getD (off + bLen rest) = (skipUntilBasicGo strs rest off).1 := by
  induction rest generalizing off with
  | nil => simp [memchrGo, skipUntilBasicGo]
  | cons c cs ih =>
    unfold memchrGo skipUntilBasicGo
    by_cases hc : strs.any (·.isPrefixOf (c :: cs)) = true
    · have hf : firsts.contains (leadByte c) = true := by
        obtain ⟨s, hsm, hp⟩ := List.any_eq_true.1 hc
        obtain ⟨a, as, rfl, hm⟩ := hs s hsm
        have := isPrefixOf_cons_head hp
        subst this
        simpa using hm
      have hf' : leadByte c ∈ firsts := by simpa using hf
      simp [hc, hf']
    · have := ih (off + cLen c)
      simp [hc, Nat.add_assoc] at this ⊢
      exact this

theorem skipUntilBasicGo_nil (rest : Str) (off : Nat) :
    (skipUntilBasicGo [] rest off).1 = off + bLen rest := by
  induction rest generalizing off with
  | nil => simp [skipUntilBasicGo]
  | cons c cs ih => simp [skipUntilBasicGo, ih, Nat.add_assoc]

/-! ### `matchAll` -/

theorem posMatchString_eq {input rest : Str} {pos : Nat} (str : Str)
    (h : restAt input pos = some rest) :
    posMatchString input pos str =
      some (if str.isPrefixOf rest then (true, pos + bLen str) else (false, pos)) := by
  unfold posMatchString
  rw [h]
  simp only []
  split <;> rfl

theorem matchAll_spec' (input rest : Str) (pos : Nat) (xs : List Str)
    (h : restAt input pos = some rest) :
    ∃ b pos', matchAll input xs pos = some (b, pos') ∧
      (b = true ↔ xs.flatten.isPrefixOf rest = true) ∧ (b = true → pos' = pos + bLen xs.flatten) := by
  induction xs generalizing pos rest with
  | nil => exact ⟨true, pos, rfl, by simp, by simp⟩
  | cons x xs ih =>
    unfold matchAll
    rw [posMatchString_eq x h]
    by_cases hp : x.isPrefixOf rest = true
    · obtain ⟨t, rfl⟩ := List.isPrefixOf_iff_prefix.1 hp
      obtain ⟨b, pos', h1, h2, h3⟩ := ih t (pos + bLen x) (restAt_advance h rfl)
      refine ⟨b, pos', by simp [h1], ?_, ?_⟩
      · rw [h2]
        simp [List.isPrefixOf_iff_prefix, List.prefix_append_right_inj]
      · intro hb
        rw [h3 hb]
        simp [Nat.add_assoc]
    · refine ⟨false, pos, by simp [hp], ?_, by simp⟩
      simp only [Bool.false_eq_true, false_iff]
      intro hc
      apply hp
      rw [List.isPrefixOf_iff_prefix] at hc ⊢
      exact List.IsPrefix.trans (by simp) hc

end PestModel.PS
