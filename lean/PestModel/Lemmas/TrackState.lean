import PestModel.Lemmas.TrackEv
/-! Lemmas for C08, part 3: the attempt bookkeeping of a `PState`; what `rule` does to it; programs
that leave it alone. -/
namespace PestModel.Track
open PestModel.G PestModel.PS PestModel.Lower PestModel.Ref PestModel.RefTrace PestModel.VmRef
open PestModel.LineCol (Str isBoundary bLen cLen splitAt? slice?)

/-- the attempt bookkeeping of a state. -/
def att (s : PState) : Att := (s.attemptPos, s.posAtt, s.negAtt)

theorem track_att (s : PState) (rule pos pai nai prev : Nat) :
    att (track s rule pos pai nai prev) =
      trackA (decide (s.atomicity = .atomic)) (decide (s.lookahead = .negative)) (att s) rule pos pai nai prev := by
  unfold track trackA att attemptsAt
  by_cases h1 : s.atomicity = .atomic
  · simp [h1]
  · simp only [h1, decide_false, if_false, Bool.false_eq_true]
    by_cases h3 : s.lookahead = .negative <;> by_cases h2 : pos = s.attemptPos
    · subst h2
      by_cases h5 : (s.posAtt.length + s.negAtt.length > prev ∧ s.posAtt.length + s.negAtt.length - prev = 1) <;>
        simp [h3, h5]
    · have h2' : ¬ s.attemptPos = pos := fun h => h2 h.symm
      by_cases h4 : pos > s.attemptPos <;> simp [h2, h2', h3, h4]
    · subst h2
      by_cases h5 : (s.posAtt.length + s.negAtt.length > prev ∧ s.posAtt.length + s.negAtt.length - prev = 1) <;>
        simp [h3, h5]
    · have h2' : ¬ s.attemptPos = pos := fun h => h2 h.symm
      by_cases h4 : pos > s.attemptPos <;> simp [h2, h2', h3, h4]

/-! ### `rule` -/

theorem rulePre_att (st : PState) : att (rulePre st) = att st := by
  unfold rulePre; split <;> rfl

theorem rulePai_fst (st : PState) :
    (rulePai st).1 = if st.pos = st.attemptPos then st.posAtt.length else 0 := by
  unfold rulePai; split <;> rfl
theorem rulePai_snd (st : PState) :
    (rulePai st).2 = if st.pos = st.attemptPos then st.negAtt.length else 0 := by
  unfold rulePai; split <;> rfl

theorem rulePrev (st : PState) : attemptsAt (rulePre st) st.pos =
    if st.attemptPos = st.pos then st.posAtt.length + st.negAtt.length else 0 := by
  have h := rulePre_att st
  simp only [att, Prod.mk.injEq] at h
  unfold attemptsAt
  rw [h.1, h.2.1, h.2.2]

/-- `track` after the interior of a reported attempt. -/
theorem ruleTrack_attempt {st ns : PState} {r : Nat} {kids : List Call} {mt : Bool}
    (hatt : att ns = stepAtt (att st) kids) (hat : ns.atomicity ≠ .atomic)
    (hA : isAttempt (.node r st.pos mt (decide (ns.lookahead = .negative)) true kids) = true) :
    att (ruleTrack st r ns) =
      stepAtt (att st) [.node r st.pos mt (decide (ns.lookahead = .negative)) true kids] := by
  unfold ruleTrack
  rw [track_att, hatt, rulePai_fst, rulePai_snd, rulePrev]
  have : decide (ns.atomicity = .atomic) = false := by simp [hat]
  rw [this]
  exact trackA_spec st.attemptPos st.posAtt st.negAtt r st.pos mt _ kids hA

theorem ruleTrack_atomic {st ns : PState} {r : Nat} (hat : ns.atomicity = .atomic) :
    att (ruleTrack st r ns) = att ns := by
  unfold ruleTrack
  rw [track_att]
  simp [trackA, hat]

theorem ruleEmit_att {s1 x y : PState} {r : Nat} (h : ruleEmit s1 r x = some y) :
    att y = att x ∧ y.pos = x.pos ∧ y.stack = x.stack := by
  unfold ruleEmit at h
  split at h
  · split at h
    · simp at h; subst h; exact ⟨rfl, rfl, rfl⟩
    · simp at h
  · simp at h; subst h; exact ⟨rfl, rfl, rfl⟩

theorem ruleTrackIf_fields (st : PState) (r : Nat) (ns : PState) :
    (ruleTrackIf st r ns).pos = ns.pos ∧ (ruleTrackIf st r ns).stack = ns.stack ∧
      (ruleTrackIf st r ns).pa = ns.pa := by
  obtain ⟨a, b, c, h⟩ := ruleTrackIf_eq st r ns
  rw [h]; exact ⟨rfl, rfl, rfl⟩

theorem ruleOkPost_att {st ns s' : PState} {r : Nat} (hen : ns.pa.enabled = false)
    (h : ruleOkPost st r ns = .ok s') :
    att s' = att (ruleTrackIf st r ns) ∧ s'.pos = ns.pos ∧ s'.stack = ns.stack := by
  unfold ruleOkPost at h
  obtain ⟨f1, f2, f3⟩ := ruleTrackIf_fields st r ns
  cases he : ruleEmit st r (ruleTrackIf st r ns) with
  | none => rw [he] at h; simp at h
  | some y =>
    rw [he] at h
    dsimp only at h
    obtain ⟨e1, e2, e3⟩ := ruleEmit_att he
    have hy : y.pa.enabled = false := by rw [(ruleEmit_core he).2.1, f3]; exact hen
    rw [ruleFinish_no_panic hy] at h
    simp only [Out.ok.injEq] at h
    subst h
    exact ⟨e1, e2.trans f1, e3.trans f2⟩

theorem ruleTrack_fields (st : PState) (r : Nat) (ns : PState) :
    (ruleTrack st r ns).pa = ns.pa ∧ (ruleTrack st r ns).lookahead = ns.lookahead ∧
      (ruleTrack st r ns).atomicity = ns.atomicity := by
  obtain ⟨a, b, c, h⟩ : ∃ a b c, ruleTrack st r ns =
      { ns with posAtt := a, negAtt := b, attemptPos := c } := track_eq _ _ _ _ _ _
  rw [h]; exact ⟨rfl, rfl, rfl⟩

theorem ruleErrTrunc_att (st ns : PState) : att (ruleErrTrunc st ns) = att ns := by
  unfold ruleErrTrunc; split <;> rfl

theorem ruleErrPost_att {st ns s' : PState} {r : Nat} (hen : ns.pa.enabled = false)
    (h : ruleErrPost st r ns = .err s') :
    att s' = if ns.lookahead ≠ .negative then att (ruleTrack st r ns) else att ns := by
  unfold ruleErrPost ruleErrAdd at h
  have hen' : (ruleTrack st r ns).pa.enabled = false := by rw [(ruleTrack_fields st r ns).1]; exact hen
  by_cases hl : ns.lookahead ≠ .negative
  · rw [if_pos hl] at h ⊢
    simp only [hen', Bool.false_eq_true, if_false, Out.err.injEq] at h
    subst h
    exact ruleErrTrunc_att _ _
  · rw [if_neg hl] at h ⊢
    simp only [Out.err.injEq] at h
    subst h
    exact ruleErrTrunc_att _ _

/-! ### programs that leave the bookkeeping alone -/

theorem terminal_att {s s' : PState} {r : Option (Bool × Nat)} {tok : Option PTok}
    (h : (terminal s r tok).state? = some s') : att s' = att s := by
  unfold terminal at h
  split at h
  · simp at h
  · rename_i succ pos'
    cases tok with
    | none =>
      simp only [] at h
      split at h <;> (simp at h; subst h; rfl)
    | some t =>
      obtain ⟨pa', he, -⟩ := handleToken_eq { s with pos := pos' } s.pos t succ
      simp only [] at h
      rw [he] at h
      split at h <;> (simp at h; subst h; rfl)

/-- `p` never touches the attempt bookkeeping. -/
def Frame (cfg : Cfg) (p : Prog) : Prop :=
  ∀ n s s', (run cfg n p s).state? = some s' → att s' = att s

variable {cfg : Cfg}

theorem Frame.of_succ {p : Prog}
    (h : ∀ n s s', (run cfg (n + 1) p s).state? = some s' → att s' = att s) : Frame cfg p := by
  intro n s s' hr
  cases n with
  | zero => rw [run_zero] at hr; simp at hr
  | succ k => exact h k s s' hr

theorem frame_matchString (str : Str) : Frame cfg (.matchString str) :=
  Frame.of_succ fun n s s' h => by rw [run] at h; exact terminal_att h
theorem frame_matchInsensitive (str : Str) : Frame cfg (.matchInsensitive str) :=
  Frame.of_succ fun n s s' h => by rw [run] at h; exact terminal_att h
theorem frame_matchRange (a b : Char) : Frame cfg (.matchRange a b) :=
  Frame.of_succ fun n s s' h => by rw [run] at h; exact terminal_att h
theorem frame_matchCharBy (cs : CharSet) : Frame cfg (.matchCharBy cs) :=
  Frame.of_succ fun n s s' h => by rw [run] at h; exact terminal_att h
theorem frame_skip (k : Nat) : Frame cfg (.skip k) :=
  Frame.of_succ fun n s s' h => by rw [run] at h; exact terminal_att h

theorem frame_stackPeek : Frame cfg .stackPeek :=
  Frame.of_succ fun n s s' h => by
    rw [run] at h
    split at h
    · simp at h; subst h; rfl
    split at h
    · simp at h
    · exact terminal_att h

theorem frame_stackPop : Frame cfg .stackPop :=
  Frame.of_succ fun n s s' h => by
    rw [run] at h
    split at h
    · simp at h; subst h; rfl
    split at h
    · simp at h
    · simp at h
    · rename_i st str hp
      simp only [] at h
      exact terminal_att (s := { s with stack := st }) h

theorem frame_simple (p : Prog)
    (hp : match p with
      | .skipUntil _ | .startOfInput | .endOfInput | .stackMatchPeek | .stackMatchPop | .stackDrop
      | .stackMatchPeekSlice _ _ _ | .stackPushLiteral _ | .tagNode _ | .ok | .fail => True
      | _ => False) : Frame cfg p :=
  Frame.of_succ fun n s s' h => by
    cases p <;> simp only [] at hp <;> rw [run] at h
    all_goals (repeat' (first | split at h | (simp only [] at h; split at h)))
    all_goals first
      | (simp at h; done)
      | (simp at h; subst h; rfl)

theorem frame_orElse {p q : Prog} (hp : Frame cfg p) (hq : Frame cfg q) : Frame cfg (.orElse p q) :=
  Frame.of_succ fun n s s' h => by
    rw [run_orElse] at h
    split at h
    · rename_i s1 h1
      exact (hq _ _ _ h).trans (hp n s s1 (by rw [h1]; rfl))
    · exact hp _ _ _ h

theorem frame_call_none {i : Nat} (hi : cfg.env[i]? = none) : Frame cfg (.call i) :=
  Frame.of_succ fun n s s' h => by
    rw [run_call, hi] at h
    simp at h

end PestModel.Track
