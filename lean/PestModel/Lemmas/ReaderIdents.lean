import PestModel.Lemmas.ReaderValue
import PestModel.Lemmas.PipelineLocated
/-!
C01 / C09: every rule name an expression read from pairs mentions is the text of an `identifier` pair under those pairs
(`exprV_ids`, by recursion on what the pairs denote).
-/
namespace PestModel.ReaderValue
open PestModel.G PestModel.Reader PestModel.ReaderFull PestModel.ReaderShape
open PestModel.Views (Tree sizeList preorderList)
open PestModel.LineCol (Str)
open PestModel.C07Full
open PestModel.Pipeline (mem_preorder_self mem_preorderList_of_mem mem_preorder_children)

/-- the rule names an expression mentions. -/
def idents : Expr → List String
  | .ident n => [n]
  | .posPred e | .negPred e | .opt e | .rep e | .repOnce e | .push e | .nodeTag e _ => idents e
  | .repExact e _ | .repMin e _ | .repMax e _ | .repMinMax e _ _ => idents e
  | .seq a b | .choice a b => idents a ++ idents b
  | _ => []

/-- the name is the text of an `identifier` pair somewhere in the pairs. -/
def IdIn (text : Str) (P : List Tree) (n : String) : Prop :=
  ∃ t ∈ preorderList P, kind t = "identifier" ∧ (strOf text t).map String.ofList = some n

def AllIn (text : Str) (P : List Tree) (e : Expr) : Prop := ∀ n ∈ idents e, IdIn text P n

theorem IdIn.mono {text : Str} {P Q : List Tree} {n : String} (h : ∀ t ∈ preorderList P, t ∈ preorderList Q)
    (hn : IdIn text P n) : IdIn text Q n := by
  obtain ⟨t, ht, hk, hs⟩ := hn
  exact ⟨t, h t ht, hk, hs⟩

theorem AllIn.mono {text : Str} {P Q : List Tree} {e : Expr} (h : ∀ t ∈ preorderList P, t ∈ preorderList Q)
    (he : AllIn text P e) : AllIn text Q e := fun n hn => (he n hn).mono h

theorem AllIn.congr {text : Str} {P : List Tree} {e e' : Expr} (h : idents e' = idents e) (he : AllIn text P e) :
    AllIn text P e' := fun n hn => he n (h ▸ hn)

/-- the pairs under a member of the list are among the pairs of the list. -/
theorem under_mem {P : List Tree} {t : Tree} (ht : t ∈ P) : ∀ x ∈ preorderList t.children, x ∈ preorderList P :=
  fun x hx => mem_preorderList_of_mem ht x (mem_preorder_children t x hx)

theorem preorderList_append (a b : List Tree) : preorderList (a ++ b) = preorderList a ++ preorderList b := by
  induction a with
  | nil => simp [preorderList]
  | cons x xs ih => simp [preorderList, ih]

theorem suffix_mem (a b : List Tree) : ∀ x ∈ preorderList b, x ∈ preorderList (a ++ b) := by
  intro x hx; rw [preorderList_append]; exact List.mem_append_right _ hx

theorem postV_idents {text : Str} {p : Tree} {x y : Expr} (h : PostV text p x y) : idents y = idents x := by
  rcases h with ⟨_, rfl⟩ | ⟨_, rfl⟩ | ⟨_, rfl⟩ | ⟨_, _, _, _, _, _, _, _, _, rfl⟩ | ⟨_, _, _, _, _, _, _, rfl⟩ |
    ⟨_, _, _, _, _, _, _, _, _, rfl⟩ | ⟨_, _, _, _, _, _, _, _, _, _, _, _, rfl⟩ <;> rfl

theorem postsV_idents {text : Str} {ps : List Tree} {x z : Expr} (h : PostsV text ps x z) : idents z = idents x := by
  induction h with
  | nil x => rfl
  | cons hp _ ih => rw [ih, postV_idents hp]

theorem foldGo_idents (P : String → Prop) : ∀ (xs : List (Bool × Expr)) (acc : Option Expr) (cur : Expr),
    (∀ a, acc = some a → ∀ n ∈ idents a, P n) → (∀ n ∈ idents cur, P n) → (∀ p ∈ xs, ∀ n ∈ idents p.2, P n) →
    ∀ n ∈ idents (foldGo acc cur xs), P n
  | [], acc, cur, ha, hc, _ => by
    cases acc with
    | none => simpa [foldGo, joinE] using hc
    | some a =>
      intro n hn
      simp only [foldGo, joinE, idents, List.mem_append] at hn
      rcases hn with hn | hn
      · exact ha a rfl n hn
      · exact hc n hn
  | (false, x) :: r, acc, cur, ha, hc, hx => by
    simp only [foldGo]
    refine foldGo_idents P r acc (.seq cur x) ha ?_ (fun p hp => hx p (List.mem_cons_of_mem _ hp))
    intro n hn
    simp only [idents, List.mem_append] at hn
    rcases hn with hn | hn
    · exact hc n hn
    · exact hx (false, x) (by simp) n hn
  | (true, x) :: r, acc, cur, ha, hc, hx => by
    simp only [foldGo]
    refine foldGo_idents P r (some (joinE acc cur)) x ?_ (hx (true, x) (by simp)) (fun p hp => hx p (List.mem_cons_of_mem _ hp))
    intro a hae n hn
    simp only [Option.some.injEq] at hae
    subst hae
    cases acc with
    | none => exact hc n (by simpa [joinE] using hn)
    | some a0 =>
      simp only [joinE, idents, List.mem_append] at hn
      rcases hn with hn | hn
      · exact ha a0 rfl n hn
      · exact hc n hn

theorem leafV_idents {extras : Bool} {text : Str} {t : Tree} {x : Expr} (h : LeafV extras text t x) :
    idents x = [] ∨ (kind t = "identifier" ∧ ∃ s, strOf text t = some s ∧ x = .ident (String.ofList s)) := by
  obtain ⟨_, hl⟩ := h
  unfold leafNode at hl
  simp only [] at hl
  split at hl
  · split at hl
    · split at hl
      · obtain ⟨v, _, rfl⟩ := Option.map_eq_some_iff.1 hl; exact .inl rfl
      · simp at hl
    · simp at hl
  · split at hl
    · left
      unfold peekSlice at hl
      split at hl
      · simp only [] at hl
        split at hl
        · split at hl
          · simp at hl; subst hl; rfl
          · split at hl
            · split at hl
              · obtain ⟨v, _, rfl⟩ := Option.map_eq_some_iff.1 hl; rfl
              · simp at hl
            · simp at hl
        · simp at hl
      · simp at hl
    · split at hl
      · rename_i hk
        obtain ⟨v, hv, rfl⟩ := Option.map_eq_some_iff.1 hl
        exact .inr ⟨hk, v, hv, rfl⟩
      · split at hl
        · obtain ⟨v, _, rfl⟩ := Option.map_eq_some_iff.1 hl; exact .inl rfl
        · split at hl
          · split at hl
            · obtain ⟨v, _, rfl⟩ := Option.map_eq_some_iff.1 hl; exact .inl rfl
            · simp at hl
          · split at hl
            · split at hl
              · split at hl
                · split at hl
                  · simp at hl; subst hl; exact .inl rfl
                  · simp at hl
                · simp at hl
              · simp at hl
            · simp at hl

mutual
  theorem exprV_ids {extras : Bool} {text : Str} : ∀ {ps : List Tree} {e : Expr}, ExprV extras text ps e → AllIn text ps e
    | _, _, .mk lead t0 rest x0 xs _ _ hu hr => by
      have h0 : AllIn text (lead ++ t0 :: rest) x0 :=
        (unArgsV_ids hu).mono (under_mem (by simp))
      have hx := restV_ids hr
      intro n hn
      refine foldGo_idents (IdIn text (lead ++ t0 :: rest)) xs none x0 (by simp) h0 ?_ n hn
      intro p hp m hm
      refine (hx p hp m hm).mono ?_
      intro t ht
      have : lead ++ t0 :: rest = (lead ++ [t0]) ++ rest := by simp
      rw [this]
      exact suffix_mem _ _ t ht
  theorem restV_ids {extras : Bool} {text : Str} : ∀ {ps : List Tree} {xs : List (Bool × Expr)}, RestV extras text ps xs →
      ∀ p ∈ xs, AllIn text ps p.2
    | _, _, .nil => by simp
    | _, _, @RestV.cons _ _ p t ps' o x xs' _ _ hu hr => by
      intro q hq
      rcases List.mem_cons.1 hq with rfl | hq
      · exact (unArgsV_ids hu).mono (under_mem (by simp))
      · refine (restV_ids hr q hq).mono ?_
        intro u hu'
        exact suffix_mem [p, t] ps' u hu'
  theorem unArgsV_ids {extras : Bool} {text : Str} : ∀ {ps : List Tree} {e : Expr}, UnArgsV extras text ps e → AllIn text ps e
    | _, _, @UnArgsV.tagged _ _ g asg rest name x _ _ hb => by
      have h := (unBodyV_ids hb).mono (suffix_mem [g, asg] rest)
      by_cases hx : extras = true
      · simp only [hx, if_true]; exact h.congr rfl
      · simp only [hx]; exact h
    | _, _, .plain hb => unBodyV_ids hb
    | _, _, @UnArgsV.parenRest _ _ e c post x y _ he _ hp => by
      exact ((exprV_ids he).mono (under_mem (by simp))).congr (postsV_idents hp)
  theorem unBodyV_ids {extras : Bool} {text : Str} : ∀ {ps : List Tree} {e : Expr}, UnBodyV extras text ps e → AllIn text ps e
    | _, _, @UnBodyV.pos _ _ p rest x _ hb => ((unBodyV_ids hb).mono (suffix_mem [p] rest)).congr rfl
    | _, _, @UnBodyV.neg _ _ p rest x _ hb => ((unBodyV_ids hb).mono (suffix_mem [p] rest)).congr rfl
    | _, _, @UnBodyV.paren _ _ o e c post x y _ _ he _ hp =>
      ((exprV_ids he).mono (under_mem (by simp))).congr (postsV_idents hp)
    | _, _, @UnBodyV.push _ _ t o e cs post x y _ hc _ he hp => by
      have h1 : AllIn text t.children x := (exprV_ids he).mono (under_mem (by rw [hc]; simp))
      have h2 : AllIn text (t :: post) x := h1.mono (under_mem (by simp))
      exact h2.congr (by rw [postsV_idents hp]; rfl)
    | _, _, @UnBodyV.leaf _ _ t post x y hl hp => by
      intro n hn
      rw [postsV_idents hp] at hn
      rcases leafV_idents hl with h0 | ⟨hk, s, hs, rfl⟩
      · rw [h0] at hn; simp at hn
      · simp only [idents, List.mem_singleton] at hn
        subst hn
        exact ⟨t, by simp only [preorderList, List.mem_append]; exact .inl (mem_preorder_self t), hk, by simp [hs]⟩
end
end PestModel.ReaderValue
