#!/bin/bash
# usage: tools/verify_seed4.sh <ID>  — confirm a round-6 seeded change in its scratch worktree /tmp/mut6/<ID>:
#   demo passes on the clean tree, fails with patch.diff applied, and the existing test suite still passes with it.
# Writes /tmp/mut6/verify/<ID>.txt; on success copies the change to /verif/seeded/<ID>/m6/.
id=$1; w=/tmp/mut6/$id; o=/tmp/mut6/out/$id; log=/tmp/mut6/verify/$id.txt
export CARGO_NET_OFFLINE=true CARGO_TARGET_DIR=$w/target
{
cd $w || exit 2
git checkout -- . ; git clean -fdq -e target
echo "== demo on clean tree"; bash $o/demo/run.sh $w > $log.clean 2>&1; c=$?; echo "exit $c"
git checkout -- . ; git clean -fdq -e target
git apply $o/patch.diff || { echo "PATCH DOES NOT APPLY"; exit 3; }
echo "== demo with patch"; bash $o/demo/run.sh $w > $log.patched 2>&1; p=$?; echo "exit $p"
git status --short
echo "== test suite with patch"
cargo test --workspace --no-fail-fast --offline > $log.tests 2>&1; t=$?
grep -E "^test result|FAILED|failed" $log.tests | sort | uniq -c | sort -rn | head -20
fails=$(grep -E "^test .* FAILED$" $log.tests | grep -v "^test quote" | wc -l)
cerr=$(grep -cE "^error(\[E|: could not compile)" $log.tests)
echo "other-failures=$fails compile-errors=$cerr"
git checkout -- . ; git clean -fdq -e target
if [ $c -eq 0 ] && [ $p -ne 0 ] && [ $fails -eq 0 ] && [ $cerr -eq 0 ]; then
  d=/verif/seeded/$id/m6; mkdir -p $d; cp $o/patch.diff $d/patch.diff; cp $o/meta.json $d/meta.json; rm -rf $d/demo; cp -r $o/demo $d/demo
  echo "CONFIRMED -> $d"
else echo "NOT CONFIRMED (clean=$c patched=$p fails=$fails cerr=$cerr)"; fi
} > $log 2>&1
tail -3 $log
