//! C11: `pest::Stack<u32>` through its public API vs. the Lean model (`pestmodel stack`)
//! and vs. the naive copy-at-snapshot oracle evaluated here.
use std::collections::BTreeMap;
use verif_harness::*;

#[derive(Clone, Copy, PartialEq, Debug)]
enum Op { Push(u32), Pop, Peek, Snap, Clear, Restore }

fn show(op: Op) -> String {
    match op { Op::Push(v) => format!("u{}", v), Op::Pop => "o".into(), Op::Peek => "k".into(), Op::Snap => "s".into(), Op::Clear => "c".into(), Op::Restore => "r".into() }
}
fn parse(w: &str) -> Option<Op> {
    Some(match w { "o" => Op::Pop, "k" => Op::Peek, "s" => Op::Snap, "c" => Op::Clear, "r" => Op::Restore,
        _ if w.starts_with('u') => Op::Push(w[1..].parse().ok()?), _ => return None })
}
fn contents(v: &[u32]) -> String { v.iter().map(|x| x.to_string()).collect::<Vec<_>>().join(",") }
fn val(v: Option<u32>) -> String { v.map(|x| x.to_string()).unwrap_or("_".into()) }

/// Returns (implementation line, oracle verdict).
fn run_case(ops: &[Op]) -> (String, String) {
    let mut out: Vec<String> = vec![];
    let mut verdict = "ok".to_string();
    let mut st = pest::Stack::<u32>::new();
    // oracle: copy at snapshot
    let mut cur: Vec<u32> = vec![];
    let mut saved: Vec<Vec<u32>> = vec![];
    for (i, &op) in ops.iter().enumerate() {
        let r = catch(|| {
            let tag = match op {
                Op::Push(v) => { st.push(v); "u".to_string() }
                Op::Pop => format!("o={}", val(st.pop())),
                Op::Peek => format!("k={}", val(st.peek().copied())),
                Op::Snap => { st.snapshot(); "s".into() }
                Op::Clear => { st.clear_snapshot(); "c".into() }
                Op::Restore => { st.restore(); "r".into() }
            };
            let n = st.len();
            // internal bookkeeping (hooks, cfg pest_parser_pest_verif): one length pair per open snapshot, retained pops
            format!("{}:{}|d{}p{}", tag, contents(&st[0..n]), st.verif_snapshot_depth(), st.verif_popped_len())
        });
        let expect = {
            let tag = match op {
                Op::Push(v) => { cur.push(v); "u".to_string() }
                Op::Pop => format!("o={}", val(cur.pop())),
                Op::Peek => format!("k={}", val(cur.last().copied())),
                Op::Snap => { saved.push(cur.clone()); "s".into() }
                Op::Clear => { saved.pop(); "c".into() }
                Op::Restore => { match saved.pop() { Some(c) => cur = c, None => cur.clear() }; "r".into() }
            };
            format!("{}:{}", tag, contents(&cur))
        };
        match r {
            Ok(s) => {
                // the oracle judges the public part only (what C11 states); the bookkeeping after `|` is compared with the
                // Lean model by the correspondence, where a difference is "no longer checks", not a failing input
                let public = s.split('|').next().unwrap_or("");
                if public != expect && verdict == "ok" { verdict = format!("FAIL op#{} impl={} naive={}", i, s, expect); }
                out.push(s);
            }
            Err(_) => {
                if verdict == "ok" { verdict = format!("FAIL op#{} impl=panic naive={}", i, expect); }
                out.push(format!("panic@{}", i));
                break;
            }
        }
    }
    (out.join(" "), verdict)
}

fn line(ops: &[Op]) -> String {
    let mut s = String::from("H");
    for &o in ops { s.push(' '); s.push_str(&show(o)); }
    s
}

fn main() {
    quiet_panics();
    let mut out = Out::new();
    let mut hist: BTreeMap<String, u64> = BTreeMap::new();
    let mut maxdepth = 0usize;
    let mut nontrivial = std::collections::HashSet::new();
    let mut eval = |ops: &[Op], out: &mut Out| {
        let (imp, v) = run_case(ops);
        // non-trivial: at least one snapshot followed (later) by a pop and then a restore or clear
        let s = ops.iter().position(|o| *o == Op::Snap);
        let nt = s.map_or(false, |i| ops[i..].iter().position(|o| *o == Op::Pop).map_or(false, |j| ops[i + j..].iter().any(|o| matches!(o, Op::Restore | Op::Clear))));
        let l = line(ops);
        if nt { nontrivial.insert(l.clone()); }
        let mut d = 0usize;
        for o in ops { match o { Op::Snap => { d += 1; maxdepth = maxdepth.max(d) } Op::Clear | Op::Restore => d = d.saturating_sub(1), _ => {} }
            *hist.entry(show(*o).chars().next().unwrap().to_string()).or_default() += 1; }
        out.push(l, imp, v);
    };
    let (exh_len, n_random, max_len);
    match cli() {
        Cmd::Run { ops, out: dir } => {
            for l in &ops {
                let parsed: Option<Vec<Op>> = l.split_whitespace().skip(1).map(parse).collect();
                match parsed { Some(p) if l.starts_with("H") => eval(&p, &mut out), _ => out.push(l.clone(), "bad-op".into(), "ok".into()) }
            }
            out.write(&dir, "{}");
            return;
        }
        Cmd::Gen { thorough, seed, out: dir } => {
            if thorough { exh_len = 7; n_random = 20000; max_len = 4000; } else { exh_len = 6; n_random = 4000; max_len = 64; }
            let alphabet = [Op::Push(1), Op::Push(2), Op::Pop, Op::Peek, Op::Snap, Op::Clear, Op::Restore];
            // exhaustive: all histories of length exactly exh_len (each shorter history is a prefix of one)
            let mut idx = vec![0usize; exh_len];
            loop {
                let ops: Vec<Op> = idx.iter().map(|&i| alphabet[i]).collect();
                eval(&ops, &mut out);
                let mut k = exh_len;
                loop {
                    if k == 0 { break; }
                    k -= 1;
                    idx[k] += 1;
                    if idx[k] < alphabet.len() { break; }
                    idx[k] = 0;
                    if k == 0 { k = usize::MAX; break; }
                }
                if k == usize::MAX { break; }
            }
            // random histories biased towards nested snapshots with pops below the line and re-pushes
            let mut rng = Rng::new(seed);
            let mut next_val = 10u32;
            for case in 0..n_random {
                let len = if case % 50 == 0 { max_len } else { rng.range(8, max_len.min(200)) };
                let mut ops = Vec::with_capacity(len);
                let (wp, wo, ws, wc, wr) = match rng.below(4) { 0 => (4, 4, 3, 2, 2), 1 => (3, 5, 2, 1, 2), 2 => (5, 3, 3, 3, 1), _ => (2, 2, 2, 2, 2) };
                for _ in 0..len {
                    let t = rng.below(wp + wo + 1 + ws + wc + wr);
                    ops.push(if t < wp { next_val += 1; Op::Push(next_val) } else if t < wp + wo { Op::Pop } else if t < wp + wo + 1 { Op::Peek }
                        else if t < wp + wo + 1 + ws { Op::Snap } else if t < wp + wo + 1 + ws + wc { Op::Clear } else { Op::Restore });
                }
                eval(&ops, &mut out);
            }
            let samples: Vec<String> = out.ops.iter().step_by((out.ops.len() / 5).max(1)).take(5).map(|s| if s.len() > 160 { format!("{}…", &s[..160]) } else { s.clone() }).collect();
            let stats = format!(
                "{{\"evaluations\":{},\"distinct_nontrivial\":{},\"exhaustive_length\":{},\"alphabet\":\"u1 u2 o k s c r\",\"random_histories\":{},\"max_random_length\":{},\"max_snapshot_depth\":{},\"op_histogram\":{:?},\"samples\":{:?}}}",
                out.ops.len(), nontrivial.len(), exh_len, n_random, max_len, maxdepth, hist, samples);
            out.write(&dir, &stats);
        }
    }
}
