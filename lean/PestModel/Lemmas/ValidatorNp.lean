import PestModel.Lemmas.ValidatorProg
/-! C06 helper lemmas, part 3: what `isNonProgressing … = false` means once its fuel and trace
cut-offs are taken into account: the expression is `Prog`, or one of the rules of the trace is
reachable from it along the positions the left-recursion check visits. -/
namespace PestModel.V
open PestModel.G
open PestModel.LineCol (Str)

theorem Expr.size_pos (e : Expr) : 0 < e.size := by
  cases e <;> simp [Expr.size]

/-! ### the fuel budget -/

/-- size budget of the rules that are not being inlined. -/
def rem : List Rule → List String → Nat
  | [], _ => 0
  | r :: rs, T => (if T.contains r.name then 0 else r.expr.size + 1) + rem rs T

theorem rem_mono (rules : List Rule) {T T' : List String} (h : ∀ x ∈ T, x ∈ T') : rem rules T' ≤ rem rules T := by
  induction rules with
  | nil => simp [rem]
  | cons r rs ih =>
    simp only [rem]
    by_cases h1 : r.name ∈ T
    · have h2 := h _ h1
      simp [h1, h2, ih]
    · by_cases h2 : r.name ∈ T'
      · simp [h1, h2]; omega
      · simp [h1, h2, ih]

theorem rem_step {rules : List Rule} {T : List String} {n : String} {body : Expr}
    (hl : lookup rules n = some body) (hn : n ∉ T) : body.size + 1 + rem rules (T ++ [n]) ≤ rem rules T := by
  induction rules with
  | nil => simp [lookup] at hl
  | cons r rs ih =>
    simp only [rem]
    have hm : rem rs (T ++ [n]) ≤ rem rs T := rem_mono rs (fun x hx => List.mem_append_left _ hx)
    by_cases hr : r.name = n
    · have hb : r.expr = body := by
        simp [lookup, hr] at hl
        exact hl
      subst hr
      simp [hn, hb]; omega
    · have hl' : lookup rs n = some body := by
        simp only [lookup, List.find?_cons, hr, decide_false] at hl ⊢
        exact hl
      have := ih hl'
      by_cases h1 : r.name ∈ T
      · simp [h1]; omega
      · have h2 : r.name ∉ T ++ [n] := by simp [h1, hr]
        simp only [List.contains_eq_mem, h1, h2, decide_false]
        simp only [Bool.false_eq_true, if_false]
        omega

theorem foldl_size (rules : List Rule) (a : Nat) :
    rules.foldl (fun n r => n + r.expr.size + 1) a = a + rem rules [] := by
  induction rules generalizing a with
  | nil => simp [rem]
  | cons r rs ih =>
    simp only [List.foldl_cons, rem]
    rw [ih]
    simp; omega

theorem rem_lt_rulesSize (rules : List Rule) (T : List String) : rem rules T < rulesSize rules := by
  have h1 : rem rules T ≤ rem rules [] := rem_mono rules (by simp)
  have h2 := foldl_size rules 1
  unfold rulesSize
  omega

theorem fuelFor_ok (rules : List Rule) (e : Expr) (T : List String) : e.size + rem rules T ≤ fuelFor rules e := by
  have := rem_lt_rulesSize rules T
  unfold fuelFor; omega

/-! ### monotonicity of `isNonProgressing` in the trace (with adequate fuel) -/

theorem np_mono (rules : List Rule) : ∀ (F' : Nat) (e : Expr) (T' : List String) (F : Nat) (T : List String),
    isNonProgressing rules F' e T' = true → (∀ x ∈ T, x ∈ T') → e.size + rem rules T ≤ F →
    isNonProgressing rules F e T = true := by
  intro F'
  induction F' with
  | zero => intro e T' F T h; simp [isNonProgressing] at h
  | succ F' ih =>
    intro e T' F T h hT hF
    have hpos := Expr.size_pos e
    obtain ⟨G, rfl⟩ : ∃ G, F = G + 1 := ⟨F - 1, by omega⟩
    cases e <;> simp only [isNonProgressing] at h ⊢ <;> simp only [Expr.size] at hF
    case str s => exact h
    case insens s => exact h
    case ident id =>
      by_cases hs : id = "SOI" ∨ id = "EOI"
      · simp [hs]
      · simp only [hs, if_false] at h ⊢
        by_cases hc : id ∈ T'
        · simp [hc] at h
        · have hc' : id ∉ T := fun hx => hc (hT _ hx)
          simp only [List.contains_eq_mem, hc, hc', decide_false, Bool.not_false, if_true] at h ⊢
          cases hl : lookup rules id with
          | none => simp [hl] at h
          | some body =>
            simp only [hl] at h ⊢
            have := rem_step hl hc'
            refine ih body _ G _ h ?_ (by omega)
            intro x hx
            simp only [List.mem_append, List.mem_singleton] at hx ⊢
            rcases hx with hx | hx
            · exact Or.inl (hT _ hx)
            · exact Or.inr hx
    case seq a b =>
      simp only [Bool.and_eq_true] at h ⊢
      exact ⟨ih a _ G _ h.1 hT (by omega), ih b _ G _ h.2 hT (by omega)⟩
    case choice a b =>
      simp only [Bool.or_eq_true] at h ⊢
      rcases h with h | h
      · exact Or.inl (ih a _ G _ h hT (by omega))
      · exact Or.inr (ih b _ G _ h hT (by omega))
    case repExact e n =>
      simp only [Bool.or_eq_true] at h ⊢
      rcases h with h | h
      · exact Or.inl h
      · exact Or.inr (ih e _ G _ h hT (by omega))
    case repMin e n =>
      simp only [Bool.or_eq_true] at h ⊢
      rcases h with h | h
      · exact Or.inl h
      · exact Or.inr (ih e _ G _ h hT (by omega))
    case repMinMax e n k =>
      simp only [Bool.or_eq_true] at h ⊢
      rcases h with h | h
      · exact Or.inl h
      · exact Or.inr (ih e _ G _ h hT (by omega))
    case push e => exact ih e _ G _ h hT (by omega)
    case repOnce e => exact ih e _ G _ h hT (by omega)
    case nodeTag e t => exact ih e _ G _ h hT (by omega)
    all_goals first | rfl | exact h

/-! ### the positions visited by the left-recursion check -/

/-- the decision `check_expr` takes at `lhs ~ rhs` inside the body of rule `cur`. -/
def cross (rules : List Rule) (cur : String) (a : Expr) : Bool :=
  isNonFailing rules (fuelFor rules a) a [cur] || isNonProgressing rules (fuelFor rules a) a [cur]

/-- the identifiers `check_expr` looks at in `e` (inside the body of rule `cur`), without entering rules. -/
def lm (extras : Bool) (rules : List Rule) (cur : String) : Expr → List String
  | .ident n => [n]
  | .seq a b => if cross rules cur a then lm extras rules cur a ++ lm extras rules cur b else lm extras rules cur a
  | .choice a b => lm extras rules cur a ++ lm extras rules cur b
  | .rep e | .repOnce e | .opt e | .posPred e | .negPred e | .push e => lm extras rules cur e
  | .repExact e _ | .repMin e _ | .repMax e _ | .repMinMax e _ _ => lm extras rules cur e
  | .nodeTag e _ => if extras then lm extras rules cur e else []
  | _ => []

/-- rule `id` is reachable from `e` (in the body of `cur`) along visited positions. -/
inductive CReach (extras : Bool) (rules : List Rule) : String → Expr → String → Prop
  | direct {cur : String} {e : Expr} {id : String} : id ∈ lm extras rules cur e → CReach extras rules cur e id
  | step {cur : String} {e : Expr} {n : String} {body : Expr} {id : String} :
      n ∈ lm extras rules cur e → lookup rules n = some body → CReach extras rules n body id →
      CReach extras rules cur e id

theorem CReach.mono {extras : Bool} {rules : List Rule} {cur : String} {e e' : Expr} {id : String}
    (hsub : ∀ n ∈ lm extras rules cur e, n ∈ lm extras rules cur e') (h : CReach extras rules cur e id) :
    CReach extras rules cur e' id := by
  cases h with
  | direct h => exact .direct (hsub _ h)
  | step h1 h2 h3 => exact .step (hsub _ h1) h2 h3

/-- no `nodeTag` anywhere. -/
def NoTag : Expr → Bool
  | .nodeTag _ _ => false
  | .posPred e | .negPred e | .opt e | .rep e | .repOnce e | .push e => NoTag e
  | .repExact e _ | .repMin e _ | .repMax e _ | .repMinMax e _ _ => NoTag e
  | .seq a b | .choice a b => NoTag a && NoTag b
  | _ => true

/-- tags only occur with `grammar-extras`. -/
def TagOK (extras : Bool) (e : Expr) : Bool := extras || NoTag e

theorem mem_of_getLast? {T : List String} {x : String} (h : T.getLast? = some x) : x ∈ T := by
  exact List.mem_of_getLast? h

set_option maxHeartbeats 800000 in
/-- the meaning of a negative answer of `isNonProgressing`. -/
theorem np_false_cases (extras : Bool) (rules : List Rule) (hsf : ∀ r ∈ rules, SF r.expr = true)
    (htag : ∀ r ∈ rules, TagOK extras r.expr = true)
    (hnc : ∀ id body, lookup rules id = some body → ¬ CReach extras rules id body id) :
    ∀ (F : Nat) (e : Expr) (T : List String) (cur : String), SF e = true → TagOK extras e = true →
      (T ≠ [] → T.getLast? = some cur) → e.size + rem rules T ≤ F → isNonProgressing rules F e T = false →
      Prog rules e ∨ ∃ id ∈ T, CReach extras rules cur e id := by
  intro F
  induction F with
  | zero => intro e T cur _ _ _ hF; have := Expr.size_pos e; omega
  | succ F ih =>
    intro e T cur hs ht hcur hF h
    have tagsub : ∀ {x : Expr}, (extras || NoTag x) = true → TagOK extras x = true := fun h => h
    cases e <;> simp only [isNonProgressing] at h <;> simp only [Expr.size] at hF <;>
      simp only [SF, Bool.and_eq_true, Bool.false_eq_true] at hs <;>
      simp only [TagOK, NoTag, Bool.or_eq_true, Bool.and_eq_true] at ht
    case str s => exact Or.inl (.str (by intro hx; simp [hx] at h))
    case insens s => exact Or.inl (.insens (by intro hx; simp [hx] at h))
    case range a b => exact Or.inl (.range a b)
    case ident id =>
      by_cases hse : id = "SOI" ∨ id = "EOI"
      · simp [hse] at h
      · simp only [hse, if_false] at h
        by_cases hc : id ∈ T
        · exact Or.inr ⟨id, hc, .direct (by simp [lm])⟩
        · simp only [List.contains_eq_mem, hc, decide_false, Bool.not_false, if_true] at h
          cases hl : lookup rules id with
          | none =>
            refine Or.inl (.builtin hl (fun hx => hse (Or.inl hx)) (fun hx => hse (Or.inr hx)) ?_)
            simpa [stackNames] using hs
          | some body =>
            simp only [hl] at h
            obtain ⟨r, hr, hrn, hrb⟩ := lookup_some_mem hl
            have := rem_step hl hc
            have h1 := ih body (T ++ [id]) id (hrb ▸ hsf r hr) (hrb ▸ htag r hr) (fun _ => by simp) (by omega) h
            rcases h1 with h1 | ⟨id', hid', h1⟩
            · exact Or.inl (.rule hl h1)
            · simp only [List.mem_append, List.mem_singleton] at hid'
              rcases hid' with hid' | rfl
              · exact Or.inr ⟨id', hid', .step (by simp [lm]) hl h1⟩
              · exact absurd h1 (hnc _ _ hl)
    case seq a b =>
      have hta : TagOK extras a = true := by
        unfold TagOK; rcases ht with ht | ht
        · simp [ht]
        · simp [ht.1]
      have htb : TagOK extras b = true := by
        unfold TagOK; rcases ht with ht | ht
        · simp [ht]
        · simp [ht.2]
      cases ha : isNonProgressing rules F a T with
      | false =>
        rcases ih a T cur hs.1 hta hcur (by omega) ha with h1 | ⟨id, hid, h1⟩
        · exact Or.inl (.seqL h1)
        · refine Or.inr ⟨id, hid, h1.mono ?_⟩
          intro n hn
          simp only [lm]
          split
          · exact List.mem_append_left _ hn
          · exact hn
      | true =>
        have hb : isNonProgressing rules F b T = false := by simpa [ha] using h
        rcases ih b T cur hs.2 htb hcur (by omega) hb with h1 | ⟨id, hid, h1⟩
        · exact Or.inl (.seqR h1)
        · have hne : T ≠ [] := List.ne_nil_of_mem hid
          have hcT : cur ∈ T := mem_of_getLast? (hcur hne)
          have hx : isNonProgressing rules (fuelFor rules a) a [cur] = true :=
            np_mono rules F a T _ [cur] ha (by intro x hx; simp at hx; subst hx; exact hcT) (fuelFor_ok rules a _)
          refine Or.inr ⟨id, hid, h1.mono ?_⟩
          intro n hn
          simp only [lm, cross, hx, Bool.or_true, if_true]
          exact List.mem_append_right _ hn
    case choice a b =>
      have hta : TagOK extras a = true := by
        unfold TagOK; rcases ht with ht | ht
        · simp [ht]
        · simp [ht.1]
      have htb : TagOK extras b = true := by
        unfold TagOK; rcases ht with ht | ht
        · simp [ht]
        · simp [ht.2]
      simp only [Bool.or_eq_false_iff] at h
      rcases ih a T cur hs.1 hta hcur (by omega) h.1 with h1 | ⟨id, hid, h1⟩
      · rcases ih b T cur hs.2 htb hcur (by omega) h.2 with h2 | ⟨id, hid, h2⟩
        · exact Or.inl (.choice h1 h2)
        · exact Or.inr ⟨id, hid, h2.mono (fun n hn => by simp only [lm]; exact List.mem_append_right _ hn)⟩
      · exact Or.inr ⟨id, hid, h1.mono (fun n hn => by simp only [lm]; exact List.mem_append_left _ hn)⟩
    case repOnce e =>
      rcases ih e T cur hs (tagsub (by simpa using ht)) hcur (by omega) h with h1 | ⟨id, hid, h1⟩
      · exact Or.inl (.repOnce h1)
      · exact Or.inr ⟨id, hid, h1.mono (fun n hn => by simpa only [lm] using hn)⟩
    case nodeTag e t =>
      have hex : extras = true := by simpa using ht
      rcases ih e T cur hs (by simp [TagOK, hex]) hcur (by omega) h with h1 | ⟨id, hid, h1⟩
      · exact Or.inl (.nodeTag h1)
      · exact Or.inr ⟨id, hid, h1.mono (fun n hn => by simpa only [lm, hex, if_true] using hn)⟩
    case repExact e n =>
      simp only [Bool.or_eq_false_iff, beq_eq_false_iff_ne] at h
      rcases ih e T cur hs (tagsub (by simpa using ht)) hcur (by omega) h.2 with h1 | ⟨id, hid, h1⟩
      · exact Or.inl (.repExact h.1 h1)
      · exact Or.inr ⟨id, hid, h1.mono (fun n hn => by simpa only [lm] using hn)⟩
    case repMin e n =>
      simp only [Bool.or_eq_false_iff, beq_eq_false_iff_ne] at h
      rcases ih e T cur hs (tagsub (by simpa using ht)) hcur (by omega) h.2 with h1 | ⟨id, hid, h1⟩
      · exact Or.inl (.repMin h.1 h1)
      · exact Or.inr ⟨id, hid, h1.mono (fun n hn => by simpa only [lm] using hn)⟩
    case repMinMax e n k =>
      simp only [Bool.or_eq_false_iff, beq_eq_false_iff_ne] at h
      rcases ih e T cur hs (tagsub (by simpa using ht)) hcur (by omega) h.2 with h1 | ⟨id, hid, h1⟩
      · exact Or.inl (.repMinMax h.1 h1)
      · exact Or.inr ⟨id, hid, h1.mono (fun n hn => by simpa only [lm] using hn)⟩
    all_goals first | exact absurd h (by simp) | exact absurd hs (by simp)

end PestModel.V
