import PestModel.Model.PStateSpec
import PestModel.Thm.C11
/-! Bridging lemmas: the stack operations used by `PState.lean` seen through `abs` (C11). -/
namespace PestModel.PS
open PestModel.Stack

variable {α : Type}

theorem step_spec (st : Stk α) (op : Op α) (h : StkInv st) :
    ∃ st' o, step st op = some (st', o) ∧ StkInv st' ∧ Naive.step (abs st) op = (abs st', o) := by
  obtain ⟨⟨st', o⟩, hs⟩ := Option.isSome_iff_exists.mp (C11.step_no_panic st op h)
  exact ⟨st', o, hs, C11.step_inv st st' op o h hs, C11.step_refines st st' op o h hs⟩

theorem abs_cur (st : Stk α) : (abs st).cur = st.cache := rfl

theorem snapshot_spec (st : Stk α) (h : StkInv st) :
    StkInv { st with lengths := (st.cache.length, st.cache.length) :: st.lengths } ∧
    (abs { st with lengths := (st.cache.length, st.cache.length) :: st.lengths }).saved
      = st.cache :: (abs st).saved := by
  obtain ⟨st', o, hs, hi, hr⟩ := step_spec st .snapshot h
  simp only [step, Option.some.injEq, Prod.mk.injEq] at hs
  obtain ⟨rfl, rfl⟩ := hs
  refine ⟨hi, ?_⟩
  simp only [Naive.step, Prod.mk.injEq, and_true] at hr
  rw [← hr]; rfl

theorem clearSnapshot_spec (st : Stk α) (h : StkInv st) :
    ∃ st', clearSnapshot st = some st' ∧ StkInv st' ∧ st'.cache = st.cache ∧
      (abs st').saved = (abs st).saved.tail := by
  obtain ⟨st', o, hs, hi, hr⟩ := step_spec st .clearSnapshot h
  simp only [step, Option.map_eq_some_iff, Prod.mk.injEq] at hs
  obtain ⟨st'', hc, rfl, rfl⟩ := hs
  refine ⟨st'', hc, hi, ?_, ?_⟩
  · simp only [Naive.step, Prod.mk.injEq, and_true] at hr
    have := congrArg Naive.cur hr
    exact this.symm
  · simp only [Naive.step, Prod.mk.injEq, and_true] at hr
    have := congrArg Naive.saved hr
    exact this.symm

theorem restore_spec (st : Stk α) (h : StkInv st) :
    ∃ st', restore st = some st' ∧ StkInv st' ∧
      ∀ c cs, (abs st).saved = c :: cs → st'.cache = c ∧ (abs st').saved = cs := by
  obtain ⟨st', o, hs, hi, hr⟩ := step_spec st .restore h
  simp only [step, Option.map_eq_some_iff, Prod.mk.injEq] at hs
  obtain ⟨st'', hc, rfl, rfl⟩ := hs
  refine ⟨st'', hc, hi, ?_⟩
  intro c cs hsv
  simp only [Naive.step, hsv, Prod.mk.injEq, and_true] at hr
  exact ⟨(congrArg Naive.cur hr).symm, (congrArg Naive.saved hr).symm⟩

theorem push_spec (st : Stk α) (x : α) (h : StkInv st) :
    StkInv { st with cache := x :: st.cache } ∧
    (abs { st with cache := x :: st.cache }).saved = (abs st).saved := by
  obtain ⟨st', o, hs, hi, hr⟩ := step_spec st (.push x) h
  simp only [step, Option.some.injEq, Prod.mk.injEq] at hs
  obtain ⟨rfl, rfl⟩ := hs
  refine ⟨hi, ?_⟩
  simp only [Naive.step, Prod.mk.injEq, and_true] at hr
  exact (congrArg Naive.saved hr).symm

theorem pop_total (st : Stk α) : ∃ st' v, Stack.pop st = some (st', v) := by
  unfold Stack.pop
  split
  · exact ⟨_, _, rfl⟩
  · split
    · exact ⟨_, _, rfl⟩
    · split <;> exact ⟨_, _, rfl⟩

theorem pop_spec (st st' : Stk α) (v : Option α) (h : StkInv st) (hp : Stack.pop st = some (st', v)) :
    StkInv st' ∧ v = st.cache.head? ∧ st'.cache = st.cache.tail ∧ (abs st').saved = (abs st).saved := by
  obtain ⟨st'', o, hs, hi, hr⟩ := step_spec st .pop h
  simp only [step, hp, Option.map_some, Option.some.injEq, Prod.mk.injEq] at hs
  obtain ⟨rfl, rfl⟩ := hs
  simp only [Naive.step, Prod.mk.injEq, Out.val.injEq] at hr
  obtain ⟨hr1, hr2⟩ := hr
  exact ⟨hi, hr2.symm, (congrArg Naive.cur hr1).symm, (congrArg Naive.saved hr1).symm⟩

theorem pop_cache_length (st st' : Stk α) (v : Option α) (hp : Stack.pop st = some (st', v)) :
    st'.cache.length = st.cache.length - 1 ∧ (v = none → st.cache = []) := by
  unfold Stack.pop at hp
  split at hp
  · rename_i hc; simp at hp; obtain ⟨rfl, rfl⟩ := hp; simp [hc]
  · rename_i x c hc
    split at hp
    · simp at hp; obtain ⟨rfl, rfl⟩ := hp; simp [hc]
    · split at hp <;> (simp at hp; obtain ⟨rfl, rfl⟩ := hp; simp [hc])

end PestModel.PS
