#!/usr/bin/env python3
"""Runs the registered checks against the seeded changes under /verif/seeded/<id>/<name>/patch.diff:
applies the patch to /repo, runs `./check <prop> --tier <tier>` for the property (and, with --all, every
claimed property), records exit code and VIOLATION lines in result.json, and restores /repo.
Replay/evidence files of these runs go to /verif/build/seeded-out (never to /verif/evidence)."""
import json, os, subprocess, sys, glob, time
V = os.path.dirname(os.path.dirname(os.path.abspath(__file__)))
REPO = "/repo"

def sh(cmd, **kw):
    return subprocess.run(cmd, capture_output=True, text=True, **kw)

def main():
    args = [a for a in sys.argv[1:] if not a.startswith("--")]
    tier = "thorough" if "--thorough" in sys.argv else "quick"
    every = "--all" in sys.argv
    dirs = sorted(glob.glob(os.path.join(V, "seeded", "*", "*", "patch.diff")))
    if args:
        dirs = [d for d in dirs if any(a in d for a in args)]
    claimed = [c["property_id"] for c in json.load(open(os.path.join(V, "MANIFEST.json")))["checks"]]
    if sh(["git", "-C", REPO, "status", "--porcelain"]).stdout.strip():
        print("refusing: /repo has uncommitted changes"); return 2
    for patch in dirs:
        d = os.path.dirname(patch)
        prop = os.path.basename(os.path.dirname(d))
        r = sh(["git", "-C", REPO, "apply", patch])
        if r.returncode != 0:
            print(f"{d}: patch does not apply: {r.stderr[:300]}"); continue
        res = {"property": prop, "tier": tier, "checks": {}}
        try:
            for p in ([prop] + [c for c in claimed if c != prop] if every else [prop]):
                t0 = time.time()
                env = dict(os.environ, VERIF_OUT_DIR=os.path.join(V, "build", "seeded-out"))
                c = sh([os.path.join(V, "check"), p, "--tier", tier], cwd=V, env=env)
                lines = [l for l in (c.stdout + c.stderr).splitlines() if l.startswith("VIOLATION") or l.startswith("KNOWN-FINDING")]
                res["checks"][p] = {"exit": c.returncode, "lines": lines, "wall_s": round(time.time() - t0, 1)}
                viol = [l for l in lines if l.startswith("VIOLATION")]
                detail = None
                if viol:
                    best = next((v for v in viol if not v.endswith("no-failing-input-found")), viol[0])
                    rp = best.split("replay=")[1].split()[0]
                    try:
                        j = json.load(open(rp))
                        detail = {k: j.get(k) for k in ("kind", "case", "oracle", "obligation", "problems", "impl", "model") if j.get(k) is not None}
                        detail = json.loads(json.dumps(detail)[:100000]) if len(json.dumps(detail)) < 100000 else {"kind": j.get("kind")}
                    except Exception as e:
                        detail = {"error": str(e)}
                res["checks"][p]["first_replay"] = detail
                print(f"{os.path.relpath(d, V)}: check {p} exit={c.returncode} " + ("DETECTED" + (" (no-failing-input-found)" if viol and all(v.endswith("no-failing-input-found") for v in viol) else " with failing input") if viol else "missed"), flush=True)
        finally:
            sh(["git", "-C", REPO, "checkout", "--", "."])
        res["detected_by"] = [p for p, v in res["checks"].items() if any(l.startswith("VIOLATION") for l in v["lines"])]
        tag = os.environ.get("SEEDED_TAG")     # e.g. SEEDED_TAG=seed1 VERIF_SEED=1: a second opinion with another random stream
        json.dump(res, open(os.path.join(d, f"result-{tier}{'-' + tag if tag else ''}.json"), "w"), indent=1)
    return 0

def readme():
    rows = []
    for patch in sorted(glob.glob(os.path.join(V, "seeded", "*", "*", "patch.diff"))):
        d = os.path.dirname(patch)
        prop, name = os.path.basename(os.path.dirname(d)), os.path.basename(d)
        meta = {}
        try:
            meta = json.load(open(os.path.join(d, "meta.json")))
        except Exception:
            pass
        res = {}
        for tier in ("quick", "thorough"):
            f = os.path.join(d, f"result-{tier}.json")
            if os.path.exists(f):
                res[tier] = json.load(open(f))
        own = "not run"
        others = []
        for tier, r in res.items():
            c = r["checks"].get(prop)
            if c:
                v = [l for l in c["lines"] if l.startswith("VIOLATION")]
                own = (f"{tier}: DETECTED" + (" (no failing input found)" if v and all(l.endswith("no-failing-input-found") for l in v) else " with failing input")) if v else (own if own.startswith(("quick: DETECTED", "thorough: DETECTED")) else f"{tier}: missed")
            others += [p for p in r.get("detected_by", []) if p != prop]
        files = ", ".join(sorted(set(l[6:] for l in open(patch) if l.startswith("+++ b/"))))
        rows.append((prop, name, (meta.get("summary") or "").replace("\n", " ").replace("|", "/")[:220], files.strip(), own, ", ".join(sorted(set(others))) or "-"))
    out = ["# Seeded changes", "",
           "Each directory holds a change written by a fresh sub-agent that saw only the property text and a scratch worktree:",
           "`patch.diff` (apply with `git -C /repo apply`), `meta.json` (what/why/when), `demo/` (the agent's own demonstration),",
           "`result-<tier>.json` (what `tools/seeded.py` observed: exit code and VIOLATION lines of the registered check).", "",
           "| property | change | summary | files | own check | also caught by |", "|---|---|---|---|---|---|"]
    for r in rows:
        out.append("| " + " | ".join(r) + " |")
    open(os.path.join(V, "seeded", "README.md"), "w").write("\n".join(out) + "\n")
    print(f"seeded/README.md: {len(rows)} changes")


if __name__ == "__main__":
    if "--readme" in sys.argv:
        readme(); sys.exit(0)
    sys.exit(main())
