import PestModel.Model.Reader
/-! helper lemmas for C07: decimal numbers. -/
namespace PestModel.Reader
open PestModel.LineCol (Str)

abbrev decStep : Nat → Char → Option Nat :=
  fun acc c => if '0' ≤ c ∧ c ≤ '9' then some (acc * 10 + (c.toNat - '0'.toNat)) else none

theorem isDigit_iff (c : Char) : c.isDigit = true ↔ '0' ≤ c ∧ c ≤ '9' := by
  simp [Char.isDigit, Char.le_def, UInt32.le_iff_toNat_le]

theorem foldlM_digits : ∀ (l : Str) (acc : Nat), (∀ c ∈ l, c.isDigit = true) →
    l.foldlM decStep acc = some (Nat.ofDigitChars 10 l acc)
  | [], acc, _ => by simp
  | c :: l, acc, h => by
    have hc := (isDigit_iff c).1 (h c (by simp))
    rw [List.foldlM_cons, Nat.ofDigitChars_cons]
    simp only [decStep, hc, and_self, if_true]
    rw [Nat.mul_comm 10 acc]
    exact foldlM_digits l _ (fun c hc => h c (by simp [hc]))

theorem natDigits_eq (n : Nat) : natDigits n = Nat.toDigits 10 n := by
  simp [natDigits]

theorem zeros_digits_isDigit (z n : Nat) : ∀ c ∈ List.replicate z '0' ++ natDigits n, c.isDigit = true := by
  intro c hc
  rw [List.mem_append] at hc
  rcases hc with hc | hc
  · rw [(List.mem_replicate.1 hc).2]; rfl
  · rw [natDigits_eq] at hc
    exact Nat.isDigit_of_mem_toDigits (by decide) (by decide) hc

theorem zeros_digits_fold (z n : Nat) :
    (List.replicate z '0' ++ natDigits n).foldlM decStep 0 = some n := by
  rw [foldlM_digits _ _ (zeros_digits_isDigit z n), Nat.ofDigitChars_append, natDigits_eq]
  simp

theorem zeros_digits_ne_nil (z n : Nat) : (List.replicate z '0' ++ natDigits n).isEmpty = false := by
  have : natDigits n ≠ [] := by rw [natDigits_eq]; exact Nat.toDigits_ne_nil
  cases h : natDigits n with
  | nil => exact absurd h this
  | cons a b => cases z <;> simp [List.replicate_succ]

theorem zeros_digits_head (z n : Nat) : ∃ c r, List.replicate z '0' ++ natDigits n = c :: r ∧ c.isDigit = true := by
  have h1 := zeros_digits_ne_nil z n
  have h2 := zeros_digits_isDigit z n
  cases h : List.replicate z '0' ++ natDigits n with
  | nil => rw [h] at h1; simp at h1
  | cons c r => exact ⟨c, r, rfl, h2 c (by rw [h]; simp)⟩

theorem parseU32_noPlus {s : Str} (h : s.head? ≠ some '+') :
    parseU32 s = if s.isEmpty then none else
      match s.foldlM decStep 0 with
      | some v => if v < 2 ^ 32 then some v else none
      | none => none := by
  unfold parseU32
  split
  · simp at h
  · rfl

theorem zeros_digits_head_ne (z n : Nat) (d : Char) (hd : d.isDigit = false) :
    (List.replicate z '0' ++ natDigits n).head? ≠ some d := by
  obtain ⟨c, r, hcr, hc⟩ := zeros_digits_head z n
  rw [hcr]
  simp only [List.head?_cons, ne_eq, Option.some.injEq]
  rintro rfl
  simp [hc] at hd

theorem parseU32_zeros_digits (n z : Nat) (h : n < 2 ^ 32) :
    parseU32 (List.replicate z '0' ++ natDigits n) = some n := by
  rw [parseU32_noPlus (zeros_digits_head_ne z n '+' (by decide)), zeros_digits_ne_nil, zeros_digits_fold]
  simp [h]

theorem parseI32_neg (s : Str) :
    parseI32 ('-' :: s) = if s.isEmpty ∨ s.head? = some '+' then none else
      match s.foldlM decStep 0 with
      | some v => if v ≤ 2 ^ 31 then some (-(v : Int)) else none
      | none => none := by
  rw [parseI32]
  rfl

theorem parseI32_pos {s : Str} (h1 : s.head? ≠ some '+') (h2 : s.head? ≠ some '-') :
    parseI32 s = if s.isEmpty then none else
      match s.foldlM decStep 0 with
      | some v => if v < 2 ^ 31 then some (v : Int) else none
      | none => none := by
  unfold parseI32
  split
  · simp at h2
  · split
    · simp at h1
    · rfl

theorem parseI32_zeros_digits (i : Int) (z : Nat) (h : -(2 ^ 31 : Int) ≤ i ∧ i < 2 ^ 31) :
    parseI32 (if i < 0 then '-' :: (List.replicate z '0' ++ natDigits i.natAbs)
              else List.replicate z '0' ++ natDigits i.toNat) = some i := by
  split
  · rw [parseI32_neg, zeros_digits_ne_nil, zeros_digits_fold]
    have := zeros_digits_head_ne z i.natAbs '+' (by decide)
    simp only [this, or_self, Bool.false_eq_true, if_false]
    rw [if_pos (by omega)]
    congr 1
    omega
  · rw [parseI32_pos (zeros_digits_head_ne z _ '+' (by decide)) (zeros_digits_head_ne z _ '-' (by decide)),
      zeros_digits_ne_nil, zeros_digits_fold]
    simp only [Bool.false_eq_true, if_false]
    rw [if_pos (by omega)]
    congr 1
    omega

end PestModel.Reader
