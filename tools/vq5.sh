#!/bin/bash
# queue a round-5 seed verification (serialised with flock, runs in the background)
for id in "$@"; do (flock /tmp/mut5/verify.lock /verif/tools/verify_seed5.sh $id > /dev/null 2>&1 &) ; done
