import PestModel.Lemmas.TrackErase
import PestModel.Lemmas.VmRefTop
/-! Lemmas for C08, part 6: the main induction — every lowered expression, rule call and `skip`
satisfies the traced specification — and the whole parse. -/
namespace PestModel.Track
open PestModel.G PestModel.PS PestModel.Lower PestModel.Ref PestModel.RefTrace PestModel.VmRef
open PestModel.LineCol (Str isBoundary bLen cLen splitAt? slice?)

section
variable (env : Env) (extras memchr : Bool) (input : Str)

/-- the traced statement for expressions at fuel `n`. -/
def PET (n : Nat) : Prop :=
  ∀ (e : OExpr) (m : Atomicity) (la : LA), GoodE extras env.rules e → CtxOK env extras m e →
    TSpec (mkCfg env memchr) input n (vmExpr env m e) m la
      (EvD (mkCtx env extras input) m la (ofOptimized e))

theorem PET_zero : PET env extras memchr input 0 := fun _ _ _ _ _ => TSpec.zero _ _ _ _

variable {env extras memchr input}

theorem PET_le {n : Nat} (ih : ∀ k, k < n → PET env extras memchr input k) (k : Nat) (hk : k ≤ n - 1) :
    PET env extras memchr input k := by
  by_cases h : k < n
  · exact ih k h
  · have : k = 0 := by omega
    rw [this]; exact PET_zero _ _ _ _

/-- `Vm::parse_rule` for a user rule. -/
theorem tspec_vmRule {N : Nat} (ih : ∀ k, k ≤ N → PET env extras memchr input k) (i : Nat) (r : ORule)
    (hg : GoodE extras env.rules r.expr) (m : Atomicity) (la : LA)
    (hc : CtxOK env extras (bodyMode r.name r.ty m) r.expr) :
    TSpec (mkCfg env memchr) input N (vmRule env i r m) m la
      (fun σ res cs => ∃ kids,
        EvD (mkCtx env extras input) (bodyMode r.name r.ty m) la (ofOptimized r.expr) σ res kids ∧
        cs = ruleCalls i (oruleToRule r) m la σ res kids) := by
  unfold vmRule
  by_cases hws : isWsCm r.name = true
  · rw [if_pos hws, bodyMode_ws hws]
    rw [bodyMode_ws hws] at hc
    revert hc
    cases hty : r.ty <;> dsimp only <;> intro hc
    · exact (tspec_rule i (tspec_atomic .atomic (ih _ (by omega) r.expr .atomic la hg hc))).mono
        fun σ res cs ⟨kids, hd, hcs⟩ => ⟨kids, hd, by rw [hcs]; simp [ruleCalls, oruleToRule, hty, modeAtRule]⟩
    · exact (tspec_atomic .atomic (ih _ (by omega) r.expr .atomic la hg hc)).mono
        fun σ res cs hd => ⟨cs, hd, by simp [ruleCalls, oruleToRule, hty]⟩
    · exact (tspec_rule i (tspec_atomic .atomic (ih _ (by omega) r.expr .atomic la hg hc))).mono
        fun σ res cs ⟨kids, hd, hcs⟩ => ⟨kids, hd, by rw [hcs]; simp [ruleCalls, oruleToRule, hty, modeAtRule]⟩
    · exact (tspec_atomic .compound (tspec_rule i (ih _ (by omega) r.expr .compound la hg hc))).mono
        fun σ res cs ⟨kids, hd, hcs⟩ => ⟨kids, hd, by rw [hcs]; simp [ruleCalls, oruleToRule, hty, modeAtRule]⟩
    · exact (tspec_atomic .nonAtomic (tspec_rule i (tspec_atomic .atomic
        (ih _ (by omega) r.expr .atomic la hg hc)))).mono
        fun σ res cs ⟨kids, hd, hcs⟩ => ⟨kids, hd, by rw [hcs]; simp [ruleCalls, oruleToRule, hty, modeAtRule]⟩
  · rw [if_neg hws, bodyMode_nws hws]
    rw [bodyMode_nws hws] at hc
    revert hc
    cases hty : r.ty <;> dsimp only <;> intro hc
    · exact (tspec_rule i (ih _ (by omega) r.expr m la hg hc)).mono
        fun σ res cs ⟨kids, hd, hcs⟩ => ⟨kids, hd, by rw [hcs]; simp [ruleCalls, oruleToRule, hty, modeAtRule]⟩
    · exact (ih _ (Nat.le_refl _) r.expr m la hg hc).mono
        fun σ res cs hd => ⟨cs, hd, by simp [ruleCalls, oruleToRule, hty]⟩
    · exact (tspec_rule i (tspec_atomic .atomic (ih _ (by omega) r.expr .atomic la hg hc))).mono
        fun σ res cs ⟨kids, hd, hcs⟩ => ⟨kids, hd, by rw [hcs]; simp [ruleCalls, oruleToRule, hty, modeAtRule]⟩
    · exact (tspec_atomic .compound (tspec_rule i (ih _ (by omega) r.expr .compound la hg hc))).mono
        fun σ res cs ⟨kids, hd, hcs⟩ => ⟨kids, hd, by rw [hcs]; simp [ruleCalls, oruleToRule, hty, modeAtRule]⟩
    · exact (tspec_atomic .nonAtomic (tspec_rule i (ih _ (by omega) r.expr .nonAtomic la hg hc))).mono
        fun σ res cs ⟨kids, hd, hcs⟩ => ⟨kids, hd, by rw [hcs]; simp [ruleCalls, oruleToRule, hty, modeAtRule]⟩

variable (hsize : env.rules.length ≤ 333333333) (hgood : GoodRules extras env.rules)
  (htr : TagRules extras env.rules)
include hsize hgood htr

omit hsize hgood htr in
theorem builtinT_eoi (m : Atomicity) (la : LA) (σ : St) :
    builtinT (mkCtx env extras input) m la "EOI" σ =
      ((if σ.pos = bLen input then .ok σ else .fail),
        [.node env.rules.length σ.pos (decide (σ.pos = bLen input)) (decide (la = .neg))
          (decide (m ≠ .atomic)) []]) := by
  have hl : (mkCtx env extras input).rules.length = env.rules.length := by
    simp [mkCtx, ofOptimizedRules]
  rw [← hl]
  rfl

/-- a rule reference `Ident(name)` in context `m`. -/
theorem tspec_callRule {n : Nat} (ih : ∀ k, k < n → PET env extras memchr input k) (name : String)
    (m : Atomicity) (la : LA) (hreach : Reach env.rules name m) :
    TSpec (mkCfg env memchr) input n (callRule env name m) m la
      (EvCa (mkCtx env extras input) m la name) := by
  unfold callRule
  cases hidx : env.index name with
  | none =>
    dsimp only
    have hrule := (index_none (extras := extras) (input := input) hidx).1
    by_cases hn : name = "EOI"
    · subst hn
      refine (tspec_rule (n := n) env.rules.length (tspec_leaf
        (spec_endOfInput (c := mkCtx env extras input)) (frame_simple _ trivial))).mono ?_
      rintro σ res cs ⟨kids, ⟨hr, hk⟩, hcs⟩
      have hb := EvCa.builtin (m := m) (la := la) (s := σ) hrule
      rw [builtinT_eoi] at hb
      subst hk hcs hr
      have e : (mkCtx env extras input).input = input := rfl
      rw [e]
      by_cases hp : σ.pos = bLen input
      · rw [if_pos hp, decide_eq_true hp] at hb
        rw [if_pos hp]
        exact hb
      · rw [if_neg hp, decide_eq_false hp] at hb
        rw [if_neg hp]
        exact hb
    · refine (tspec_leaf (spec_builtin (extras := extras) hsize name) (frame_builtin hsize name hn)).mono ?_
      rintro σ res cs ⟨hr, hcs⟩
      have hb := EvCa.builtin (m := m) (la := la) (s := σ) hrule
      rw [builtinT_erase _ _ _ la.b _ _ hn] at hb
      subst hr hcs
      exact hb
  | some i =>
    dsimp only
    obtain ⟨r, hget, hname, hlook, hrule, hfind⟩ := index_some (extras := extras) (input := input) hidx
    have hmem : r ∈ env.rules := List.mem_of_getElem? hget
    have hg : GoodE extras env.rules r.expr := hgood.expr r hmem
    have hc : CtxOK env extras (bodyMode r.name r.ty m) r.expr :=
      ⟨fun n' hn' => Reach.step hreach hfind hn', htr r hmem m (by rw [hname]; exact hreach)⟩
    have := tspec_vmRule (N := n - 1) (fun k hk => PET_le ih k hk) i r hg m la hc
    refine (tspec_call (env_get m hget) this).mono ?_
    rintro σ res cs ⟨kids, hd, hcs⟩
    rw [hcs]
    exact EvCa.rule hrule hd

/-- C01's specification of any lowered expression, at any fuel. -/
theorem specE (k : Nat) (e : OExpr) (m : Atomicity) (la : Bool) (hg : GoodE extras env.rules e)
    (hc : CtxOK env extras m e) :
    Spec (mkCfg env memchr) input k (vmExpr env m e) m la
      (val (mkCtx env extras input) m la (ofOptimized e)) (Rest (¬ Dirty env.rules e)) :=
  PE_all hsize hgood htr k e m la hg hc

theorem specCall (j : Nat) (name : String) (la : Bool) (hd : ¬ Dirty env.rules (.ident name)) :
    Spec (mkCfg env memchr) input j (callRule env name .nonAtomic) .nonAtomic la
      (valCa (mkCtx env extras input) .nonAtomic la name) (Rest True) :=
  (spec_callRule hsize hgood htr (fun k _ => PE_all hsize hgood htr k) name .nonAtomic la
    (Reach.entry name)).weaken fun _ _ h => h.mono fun _ => hd

/-- the implicit `skip`. -/
theorem tspec_skipProg {n : Nat} (ih : ∀ k, k < n → PET env extras memchr input k) (m : Atomicity)
    (la : LA) :
    TSpec (mkCfg env memchr) input n (skipProg env m) m la (EvK (mkCtx env extras input) m la) := by
  have tcall : ∀ (j : Nat), j ≤ n → ∀ name,
      TSpec (mkCfg env memchr) input j (callRule env name .nonAtomic) .nonAtomic la
        (EvCa (mkCtx env extras input) .nonAtomic la name) := fun j hj name =>
    tspec_callRule hsize hgood htr (fun k hk => ih k (by omega)) name .nonAtomic la (Reach.entry name)
  unfold skipProg
  by_cases hm : m ≠ .nonAtomic
  · rw [if_pos hm]
    refine tspec_ok.mono ?_
    rintro σ r cs ⟨rfl, rfl⟩
    exact EvK.atomic hm
  · rw [if_neg hm]
    have hm' : m = .nonAtomic := by simpa using hm
    subst hm'
    have tws : ∀ j, j ≤ n → TSpec (mkCfg env memchr) input j
        (.repeat_ (callRule env "WHITESPACE" .nonAtomic)) .nonAtomic la
        (loopT (EvSt (mkCtx env extras input) la "WHITESPACE")) := fun j hj =>
      tspec_repeat (isLoopT_star _ la "WHITESPACE")
        (fun j' _ => specCall hsize hgood htr j' "WHITESPACE" la.b hgood.ws)
        (fun j' _ => tcall j' (by omega) _)
    have sws : ∀ j E, Spec (mkCfg env memchr) input j
        (.repeat_ (callRule env "WHITESPACE" .nonAtomic)) .nonAtomic la.b
        (fun σ => valSt (mkCtx env extras input) la.b "WHITESPACE" σ []) E := fun j E =>
      spec_repeat (isLoop_valSt _ la.b "WHITESPACE") fun j' _ =>
        specCall hsize hgood htr j' "WHITESPACE" la.b hgood.ws
    cases h1 : env.has "WHITESPACE" <;> cases h2 : env.has "COMMENT" <;> dsimp only
    · refine tspec_ok.mono ?_
      rintro σ r cs ⟨rfl, rfl⟩
      exact EvK.none (by rw [has_eq, h1]) (by rw [has_eq, h2])
    · refine (tspec_repeat (isLoopT_star _ la "COMMENT")
        (fun j' _ => specCall hsize hgood htr j' "COMMENT" la.b hgood.cm)
        (fun j' _ => tcall j' (by omega) _)).mono ?_
      intro σ r cs h
      have := h []
      rw [List.nil_append] at this
      exact EvK.cm rfl (by rw [has_eq, h1]) (by rw [has_eq, h2]) this
    · refine (tws n (Nat.le_refl _)).mono ?_
      intro σ r cs h
      have := h []
      rw [List.nil_append] at this
      exact EvK.ws rfl (by rw [has_eq, h1]) (by rw [has_eq, h2]) this
    · have innerS : ∀ j, Spec (mkCfg env memchr) input j
          (.sequence (.andThen (callRule env "COMMENT" .nonAtomic)
            (.repeat_ (callRule env "WHITESPACE" .nonAtomic)))) .nonAtomic la.b
          (seqD (valCa (mkCtx env extras input) .nonAtomic la.b "COMMENT")
            (fun σ => valSt (mkCtx env extras input) la.b "WHITESPACE" σ [])) (Rest True) := fun j =>
        spec_sequence (spec_andThen (specCall hsize hgood htr _ "COMMENT" la.b hgood.cm) (sws _ Any))
      have innerT : ∀ j, j ≤ n → TSpec (mkCfg env memchr) input j
          (.sequence (.andThen (callRule env "COMMENT" .nonAtomic)
            (.repeat_ (callRule env "WHITESPACE" .nonAtomic)))) .nonAtomic la
          (seqT (EvCa (mkCtx env extras input) .nonAtomic la "COMMENT")
            (loopT (EvSt (mkCtx env extras input) la "WHITESPACE"))) := fun j hj =>
        tspec_sequence (tspec_andThen (tcall _ (by omega) _) (tws _ (by omega)))
      refine (tspec_sequence (tspec_andThen (tws (n - 1 - 1) (by omega))
        (tspec_repeat (n := n - 1 - 1) (isLoopT_comment (mkCtx env extras input) la)
          (fun j' _ => innerS j') (fun j' _ => innerT j' (by omega))))).mono ?_
      rintro σ r cs (⟨-, hf⟩ | ⟨σ1, c1, c2, hw, hcl, rfl⟩)
      · exact (EvSt.ne_fail (hf [])).elim
      · have hw' := hw []
        rw [List.nil_append] at hw'
        exact EvK.both rfl (by rw [has_eq, h1]) (by rw [has_eq, h2]) hw' (hcl c1)

omit hsize hgood htr in
theorem leafEv (m : Atomicity) (la : LA) (e : Expr) (h : isLeaf e = true) (σ : St) (r : R) (cs : List Call)
    (hr : r = eraseR (val (mkCtx env extras input) m la.b e σ) ∧ cs = []) :
    EvD (mkCtx env extras input) m la e σ r cs := by
  obtain ⟨rfl, rfl⟩ := hr
  exact EvD.of_const (t := (eraseR (val (mkCtx env extras input) m la.b e σ), []))
    fun f => leaf_erase _ m la la.b e σ f h

/-- **the main induction.** -/
theorem PET_all : ∀ n, PET env extras memchr input n := by
  intro n
  induction n using Nat.strongRecOn with
  | _ n ih =>
  have ihle := PET_le ih
  intro e m la hg hc
  have SE := @specE env extras memchr input hsize hgood htr
  -- the repetition tail `(skip ~ e)*`
  have tailS : ∀ (e : OExpr), GoodE extras env.rules e → CtxOK env extras m e → ∀ j E,
      Spec (mkCfg env memchr) input j
        (.repeat_ (.sequence (.andThen (skipProg env m) (vmExpr env m e)))) m la.b
        (fun σ => valL (mkCtx env extras input) m la.b (ofOptimized e) σ []) E := fun e hge hce j E =>
    spec_repeat (isLoop_valL _ m la.b (ofOptimized e)) fun j' hj' =>
      spec_sequence (spec_andThen
        (spec_skipProg hsize hgood htr (fun k _ => PE_all hsize hgood htr k) m la.b)
        (SE _ e m la.b hge hce))
  have tailT : ∀ (e : OExpr), GoodE extras env.rules e → CtxOK env extras m e → ∀ j, j ≤ n - 1 →
      TSpec (mkCfg env memchr) input j
        (.repeat_ (.sequence (.andThen (skipProg env m) (vmExpr env m e)))) m la
        (loopT (EvL (mkCtx env extras input) m la (ofOptimized e))) := fun e hge hce j hj =>
    tspec_repeat (isLoopT_rep _ m la (ofOptimized e))
      (fun j' hj' => spec_sequence (spec_andThen
        (spec_skipProg hsize hgood htr (fun k _ => PE_all hsize hgood htr k) m la.b)
        (SE _ e m la.b hge hce)))
      (fun j' hj' => tspec_sequence (tspec_andThen
        (tspec_skipProg hsize hgood htr (fun k hk => ih k (by omega)) m la)
        (ihle _ (by omega) e m la hge hce)))
  cases e with
  | str s =>
    exact (tspec_leaf (SE n (.str s) m la.b hg hc) (frame_matchString s)).mono
      (leafEv m la (.str s) rfl)
  | insens s =>
    exact (tspec_leaf (SE n (.insens s) m la.b hg hc) (frame_matchInsensitive s)).mono
      (leafEv m la (.insens s) rfl)
  | range a b =>
    exact (tspec_leaf (SE n (.range a b) m la.b hg hc) (frame_matchRange a b)).mono
      (leafEv m la (.range a b) rfl)
  | ident name =>
    exact (tspec_callRule hsize hgood htr ih name m la (hc.1 name (by simp [identsOf]))).mono
      fun _ _ _ h => EvD.ident h
  | peekSlice a b =>
    exact (tspec_leaf (SE n (.peekSlice a b) m la.b hg hc) (frame_simple _ trivial)).mono
      (leafEv m la (.peekSlice a b) rfl)
  | posPred e =>
    refine (tspec_lookahead true (ihle _ (Nat.le_refl _) e m la.enterPos hg hc)).mono ?_
    rintro σ r cs (⟨σ1, hd, rfl⟩ | ⟨hd, rfl⟩)
    · exact EvD.posPred_ok hd
    · exact EvD.posPred_fail hd
  | negPred e =>
    refine (tspec_lookahead false (ihle _ (Nat.le_refl _) e m la.enterNeg hg hc)).mono ?_
    rintro σ r cs (⟨σ1, hd, rfl⟩ | ⟨hd, rfl⟩)
    · exact EvD.negPred_ok hd
    · exact EvD.negPred_fail hd
  | seq a b =>
    obtain ⟨hga, hgb⟩ := hg
    refine (tspec_sequence (tspec_andThen (tspec_andThen (ihle _ (by omega) a m la hga hc.left)
      (tspec_skipProg hsize hgood htr (fun k hk => ih k (by omega)) m la))
      (ihle _ (by omega) b m la hgb hc.right))).mono ?_
    rintro σ r cs (⟨rfl, (⟨-, h⟩ | ⟨σ1, c1, c2, ha, hk, rfl⟩)⟩ | ⟨σ2, c12, c3, (⟨h, -⟩ | ⟨σ1, c1, c2, ha, hk, rfl⟩), hb, rfl⟩)
    · exact EvD.seq_fail1 h
    · exact EvD.seq_fail2 ha hk
    · cases h
    · exact EvD.seq_go ha hk hb
  | choice a b =>
    obtain ⟨hda, hga, hgb⟩ := hg
    refine (tspec_orElse ((SE _ a m la.b hga hc.cleft).weaken fun _ _ h => h.mono fun _ => hda)
      (ihle _ (Nat.le_refl _) a m la hga hc.cleft) (ihle _ (Nat.le_refl _) b m la hgb hc.cright)).mono ?_
    rintro σ r cs (⟨σ1, rfl, h⟩ | ⟨c1, c2, h1, h2, rfl⟩)
    · exact EvD.choice_ok h
    · exact EvD.choice_fail h1 h2
  | opt e =>
    obtain ⟨hd, hge⟩ := hg
    refine (tspec_optional ((SE _ e m la.b hge hc).weaken fun _ _ h => h.mono fun _ => hd)
      (ihle _ (Nat.le_refl _) e m la hge hc)).mono ?_
    rintro σ r cs (⟨σ1, rfl, h⟩ | ⟨rfl, h⟩)
    · exact EvD.opt_ok h
    · exact EvD.opt_fail h
  | rep e =>
    obtain ⟨hd, hge⟩ := hg
    refine (tspec_sequence (tspec_optional
      (spec_andThen_left ((SE _ e m la.b hge hc).weaken fun _ _ h => h.mono fun _ => hd)
        (tailS e hge hc _ _))
      (tspec_andThen (ihle _ (by omega) e m la hge hc) (tailT e hge hc _ (by omega))))).mono ?_
    rintro σ r cs (⟨σ1, rfl, (⟨h, -⟩ | ⟨σ', c1, c2, he, hl, rfl⟩)⟩ | ⟨rfl, (⟨-, he⟩ | ⟨σ', c1, c2, he, hl, rfl⟩)⟩)
    · cases h
    · exact EvD.rep_ok he (hl c1)
    · exact EvD.rep_fail he
    · exact (EvL.ne_fail (hl [])).elim
  | repOnce e =>
    obtain ⟨hx, hge⟩ := hg
    have hx' : (mkCtx env extras input).extras = true := hx
    refine (tspec_sequence (tspec_andThen (ihle _ (by omega) e m la hge hc)
      (tailT e hge hc _ (by omega)))).mono ?_
    rintro σ r cs (⟨rfl, he⟩ | ⟨σ', c1, c2, he, hl, rfl⟩)
    · exact EvD.repOnce_fail hx' he
    · exact EvD.repOnce_ok hx' he (hl c1)
  | skip ss =>
    exact (tspec_leaf (SE n (.skip ss) m la.b hg hc) (frame_simple _ trivial)).mono
      (leafEv m la (.skip ss) rfl)
  | push e =>
    refine (tspec_stackPush (ihle _ (Nat.le_refl _) e m la hg hc)).mono ?_
    rintro σ r cs (⟨rfl, h⟩ | ⟨σ1, str, h, hsl, rfl⟩)
    · exact EvD.push_fail h
    · exact EvD.push_ok h hsl
  | pushLiteral s =>
    exact (tspec_leaf (SE n (.pushLiteral s) m la.b hg hc) (frame_simple _ trivial)).mono
      (leafEv m la (.pushLiteral s) rfl)
  | nodeTag e t =>
    exact (tspec_tag t (ihle _ (Nat.le_refl _) e m la hg hc.tag)).mono fun _ _ _ h => EvD.nodeTag h
  | restoreOnErr e => exact tspec_restoreOnErr (ihle _ (Nat.le_refl _) e m la hg hc)

end

theorem eraseDetail_att (s : PState) : att s.eraseDetail = att s := rfl

/-- **the whole parse**: a failing `Vm::parse` leaves the bookkeeping the specification assigns to the
calls of the instrumented reference. -/
theorem track_top (env : Env) (extras memchr detail : Bool) (input : Str)
    (hsize : env.rules.length ≤ 333333333) (hgood : GoodRules extras env.rules)
    (htr : TagRules extras env.rules) (fuel : Nat) (name : String) (st : PState)
    (h : run (mkCfg env memchr) fuel (entry env name) (PState.new input none detail) = .err st) :
    ∃ f calls, callT (mkCtx env extras input) f .nonAtomic .none name ⟨0, []⟩ = (.fail, calls) ∧
      att st = stepAtt (0, [], []) calls := by
  have e := run_eraseDetail (mkCfg env memchr) fuel (entry env name) (PState.new input none detail)
  rw [new_eraseDetail, h] at e
  have hr : run (mkCfg env memchr) fuel (callRule env name .nonAtomic) (PState.new input none false) =
      .err st.eraseDetail := e.symm
  have T := tspec_callRule (memchr := memchr) (input := input) hsize hgood htr (n := fuel)
    (fun k _ => PET_all hsize hgood htr k) name .nonAtomic .none (Reach.entry name)
  obtain ⟨cs, ⟨F, hF⟩, ha⟩ := T.err (sim_init input) rfl hr
  exact ⟨F, cs, hF F (Nat.le_refl _), by rw [← eraseDetail_att, ha]; rfl⟩

end PestModel.Track
