import PestModel.Lemmas.RefVal
/-! C05 helper lemmas, part 5: equivalence on an invariant set of states is a congruence. -/
namespace PestModel.Ref
open PestModel.G
open PestModel.LineCol (Str bLen cLen splitAt?)
open PestModel.Views (Tree)
open PestModel.PS (Atomicity CharSet restAt asciiLower eqIgnoreAsciiCase normalizeIndex)

theorem Res.le_antisymm {a b : Res} (h1 : a.le b) (h2 : b.le a) : a = b := by
  rcases h1 with h1 | h1
  · rcases h2 with h2 | h2
    · rw [h1, h2]
    · exact h2.symm
  · exact h1

/-- equal meaning from all states satisfying `P`. -/
def EqOn (P : St → Prop) (c : Ctx) (m : Atomicity) (e e' : Expr) : Prop :=
  ∀ la s, P s → val c m la e s = val c m la e' s

/-- `P` is preserved by successful evaluation. -/
structure Inv (P : St → Prop) (c : Ctx) : Prop where
  d : ∀ m la e s s' f, P s → val c m la e s = .ok s' f → P s'
  k : ∀ m la s s' f, P s → valK c m la s = .ok s' f → P s'

theorem inv_true (c : Ctx) : Inv (fun _ => True) c := ⟨fun _ _ _ _ _ _ _ _ => trivial, fun _ _ _ _ _ _ _ => trivial⟩

theorem equiv_iff_eqOn (c : Ctx) m e e' : Equiv c m e e' ↔ EqOn (fun _ => True) c m e e' := by
  rw [equiv_iff]
  exact ⟨fun h la s _ => h la s, fun h la s => h la s trivial⟩

section
variable {P : St → Prop} {c : Ctx} {m : Atomicity}

theorem EqOn.refl (e : Expr) : EqOn P c m e e := fun _ _ _ => rfl
theorem EqOn.symm {e e' : Expr} (h : EqOn P c m e e') : EqOn P c m e' e := fun la s hs => (h la s hs).symm
theorem EqOn.trans {e e' e'' : Expr} (h : EqOn P c m e e') (h' : EqOn P c m e' e'') : EqOn P c m e e'' :=
  fun la s hs => (h la s hs).trans (h' la s hs)
theorem EqOn.of_eq {e e' : Expr} (h : e = e') : EqOn P c m e e' := h ▸ EqOn.refl e
theorem EqOn.mono {Q : St → Prop} {e e' : Expr} (h : EqOn P c m e e') (hq : ∀ s, Q s → P s) : EqOn Q c m e e' :=
  fun la s hs => h la s (hq s hs)

/-- the loop is the least solution of its unfolding equation (on `P`-states). -/
theorem valL_least (hP : Inv P c) (la : Bool) (e : Expr) (T : St → List Tree → Res)
    (hT : ∀ s acc, P s → T s acc =
      match valK c m la s with
      | .ok s1 f1 =>
        match val c m la e s1 with
        | .ok s2 f2 => T s2 (acc ++ f1 ++ f2)
        | .fail => .ok s acc
        | r => r
      | .fail => .ok s acc
      | r => r) :
    ∀ s acc, P s → (valL c m la e s acc).le (T s acc) := by
  have key : ∀ n s acc, P s → (repLoop c n m la e s acc).le (T s acc) := by
    intro n
    induction n with
    | zero => intro s acc _; rw [repLoop]; exact Res.fuel_le _
    | succ n ih =>
      intro s acc hs
      have e1 : repLoop c (n + 1) m la e s acc = repLoopF (lev c n) m la e s acc := by
        have := congrArg (fun X => X.l m la e s acc) (lev_succ c n)
        exact this
      rw [e1, hT s acc hs]
      simp only [repLoopF]
      rcases (lev_le_V c n).k m la s with h1 | h1
      · rw [h1]; exact Res.fuel_le _
      · rw [h1]
        change (match valK c m la s with | .ok s1 f1 => _ | .fail => _ | r => r).le _
        cases hk : valK c m la s <;> simp only [] <;> try exact Res.le_refl _
        rename_i s1 f1
        have hs1 := hP.k m la s s1 f1 hs hk
        rcases (lev_le_V c n).d m la e s1 with h2 | h2
        · rw [h2]; exact Res.fuel_le _
        · rw [h2]
          change (match val c m la e s1 with | .ok s2 f2 => _ | .fail => _ | r => r).le _
          cases hd : val c m la e s1 <;> simp only [] <;> try exact Res.le_refl _
          rename_i s2 f2
          exact ih s2 _ (hP.d m la e s1 s2 f2 hs1 hd)
  intro s acc hs
  obtain ⟨N, hN⟩ := (lev_conv c).l m la e s acc
  have := key N s acc hs
  have hN' := hN N (Nat.le_refl _)
  simp only [lev] at hN'
  rw [hN'] at this
  exact this

theorem valL_congr (hP : Inv P c) {e e' : Expr} (h : EqOn P c m e e') (la : Bool) :
    ∀ s acc, P s → valL c m la e s acc = valL c m la e' s acc := by
  have one : ∀ {e e' : Expr}, EqOn P c m e e' → ∀ s acc, P s → (valL c m la e s acc).le (valL c m la e' s acc) := by
    intro e e' h
    apply valL_least hP
    intro s acc hs
    rw [valL_unfold]
    cases hk : valK c m la s <;> simp only []
    rename_i s1 f1
    rw [h la s1 (hP.k m la s s1 f1 hs hk)]
    rfl
  intro s acc hs
  exact Res.le_antisymm (one h s acc hs) (one h.symm s acc hs)

/-! ### congruence -/

theorem EqOn.posPred {e e' : Expr} (h : EqOn P c m e e') : EqOn P c m (.posPred e) (.posPred e') := by
  intro la s hs; rw [val_posPred, val_posPred, h true s hs]
theorem EqOn.negPred {e e' : Expr} (h : EqOn P c m e e') : EqOn P c m (.negPred e) (.negPred e') := by
  intro la s hs; rw [val_negPred, val_negPred, h true s hs]
theorem EqOn.opt {e e' : Expr} (h : EqOn P c m e e') : EqOn P c m (.opt e) (.opt e') := by
  intro la s hs; rw [val_opt, val_opt, h la s hs]
theorem EqOn.push {e e' : Expr} (h : EqOn P c m e e') : EqOn P c m (.push e) (.push e') := by
  intro la s hs; rw [val_push, val_push, h la s hs]
theorem EqOn.nodeTag {e e' : Expr} (h : EqOn P c m e e') (t : Str) : EqOn P c m (.nodeTag e t) (.nodeTag e' t) := by
  intro la s hs; rw [val_nodeTag, val_nodeTag, h la s hs]
theorem EqOn.choice {a a' b b' : Expr} (ha : EqOn P c m a a') (hb : EqOn P c m b b') :
    EqOn P c m (.choice a b) (.choice a' b') := by
  intro la s hs; rw [val_choice, val_choice, ha la s hs, hb la s hs]
theorem EqOn.seq (hP : Inv P c) {a a' b b' : Expr} (ha : EqOn P c m a a') (hb : EqOn P c m b b') :
    EqOn P c m (.seq a b) (.seq a' b') := by
  intro la s hs
  rw [val_seq, val_seq, ← ha la s hs]
  cases h1 : val c m la a s <;> simp only []
  rename_i s1 f1
  have hs1 := hP.d m la a s s1 f1 hs h1
  cases h2 : valK c m la s1 <;> simp only []
  rename_i s2 f2
  rw [hb la s2 (hP.k m la s1 s2 f2 hs1 h2)]
theorem EqOn.rep (hP : Inv P c) {e e' : Expr} (h : EqOn P c m e e') : EqOn P c m (.rep e) (.rep e') := by
  intro la s hs
  rw [val_rep, val_rep, ← h la s hs]
  cases h1 : val c m la e s <;> simp only []
  rename_i s1 f1
  exact valL_congr hP h la s1 f1 (hP.d m la e s s1 f1 hs h1)
theorem EqOn.repOnce (hP : Inv P c) {e e' : Expr} (h : EqOn P c m e e') : EqOn P c m (.repOnce e) (.repOnce e') := by
  intro la s hs
  rw [val_repOnce, val_repOnce]
  split
  · rw [← h la s hs]
    cases h1 : val c m la e s <;> simp only []
    rename_i s1 f1
    exact valL_congr hP h la s1 f1 (hP.d m la e s s1 f1 hs h1)
  · exact (EqOn.seq hP h (EqOn.rep hP h)) la s hs

inductive Forall2 (R : Expr → Expr → Prop) : List Expr → List Expr → Prop
  | nil : Forall2 R [] []
  | cons {x x' xs xs'} : R x x' → Forall2 R xs xs' → Forall2 R (x :: xs) (x' :: xs')

theorem seqOfList_cons_ne_none (x : Expr) (xs : List Expr) : seqOfList (x :: xs) ≠ none := by
  induction xs generalizing x with
  | nil => simp [seqOfList]
  | cons y ys ih => simp [seqOfList, ih y]

/-- pointwise equivalent lists have equivalent `seqOfList`s. -/
theorem seqOfList_congr (hP : Inv P c) {l l' : List Expr} (h : Forall2 (EqOn P c m) l l') :
    (seqOfList l = none ∧ seqOfList l' = none) ∨
      ∃ u u', seqOfList l = some u ∧ seqOfList l' = some u' ∧ EqOn P c m u u' := by
  induction h with
  | nil => exact Or.inl ⟨rfl, rfl⟩
  | cons hx hxs ih =>
    rename_i x x' xs xs'
    right
    cases hxs with
    | nil => exact ⟨x, x', rfl, rfl, hx⟩
    | cons hy hys =>
      rename_i y y' ys ys'
      rcases ih with ⟨h1, _⟩ | ⟨u, u', h1, h2, h3⟩
      · exact absurd h1 (seqOfList_cons_ne_none _ _)
      · refine ⟨.seq x u, .seq x' u', ?_, ?_, EqOn.seq hP hx h3⟩
        · simp only [seqOfList] at h1 ⊢; rw [h1]; rfl
        · simp only [seqOfList] at h2 ⊢; rw [h2]; rfl

theorem val_seqOfList_congr (hP : Inv P c) {l l' : List Expr} (h : Forall2 (EqOn P c m) l l') (la s) (hs : P s) :
    (match seqOfList l with | some u => val c m la u s | none => Res.stuck) =
    (match seqOfList l' with | some u => val c m la u s | none => Res.stuck) := by
  rcases seqOfList_congr hP h with ⟨h1, h2⟩ | ⟨u, u', h1, h2, h3⟩
  · rw [h1, h2]
  · rw [h1, h2]; exact h3 la s hs

theorem forall₂_replicate {R : Expr → Expr → Prop} {e e' : Expr} (h : R e e') (n : Nat) :
    Forall2 R (List.replicate n e) (List.replicate n e') := by
  induction n with
  | zero => exact .nil
  | succ n ih => exact .cons h ih

theorem forall₂_append {R : Expr → Expr → Prop} {l1 l1' l2 l2' : List Expr} (h1 : Forall2 R l1 l1')
    (h2 : Forall2 R l2 l2') : Forall2 R (l1 ++ l2) (l1' ++ l2') := by
  induction h1 with
  | nil => exact h2
  | cons hx _ ih => exact .cons hx ih

theorem forall₂_map {R : Expr → Expr → Prop} {f g : Nat → Expr} (l : List Nat) (h : ∀ i, R (f i) (g i)) :
    Forall2 R (l.map f) (l.map g) := by
  induction l with
  | nil => exact .nil
  | cons x xs ih => exact .cons (h x) ih

theorem EqOn.repExact (hP : Inv P c) {e e' : Expr} (h : EqOn P c m e e') (n : Nat) :
    EqOn P c m (.repExact e n) (.repExact e' n) := by
  intro la s hs
  rw [val_repExact, val_repExact]
  exact val_seqOfList_congr hP (forall₂_replicate h n) la s hs
theorem EqOn.repMin (hP : Inv P c) {e e' : Expr} (h : EqOn P c m e e') (n : Nat) :
    EqOn P c m (.repMin e n) (.repMin e' n) := by
  intro la s hs
  rw [val_repMin, val_repMin]
  exact val_seqOfList_congr hP (forall₂_append (forall₂_replicate h n) (.cons (EqOn.rep hP h) .nil)) la s hs
theorem EqOn.repMax (hP : Inv P c) {e e' : Expr} (h : EqOn P c m e e') (n : Nat) :
    EqOn P c m (.repMax e n) (.repMax e' n) := by
  intro la s hs
  rw [val_repMax, val_repMax]
  exact val_seqOfList_congr hP (forall₂_replicate (EqOn.opt h) n) la s hs
theorem EqOn.repMinMax (hP : Inv P c) {e e' : Expr} (h : EqOn P c m e e') (lo hi : Nat) :
    EqOn P c m (.repMinMax e lo hi) (.repMinMax e' lo hi) := by
  intro la s hs
  rw [val_repMinMax, val_repMinMax]
  refine val_seqOfList_congr hP (forall₂_map (f := fun i => if i + 1 ≤ lo then e else .opt e) (g := fun i => if i + 1 ≤ lo then e' else .opt e') _ fun i => ?_) la s hs
  split
  · exact h
  · exact EqOn.opt h

/-! ### traversals -/

theorem mapBottomUp_eqOn (hP : Inv P c) (f : Expr → Expr) (hf : ∀ x, EqOn P c m x (f x)) (e : Expr) :
    EqOn P c m e (mapBottomUp f e) := by
  induction e <;> simp only [mapBottomUp] <;> try exact hf _
  case posPred e ih => exact (EqOn.posPred ih).trans (hf _)
  case negPred e ih => exact (EqOn.negPred ih).trans (hf _)
  case seq a b iha ihb => exact (EqOn.seq hP iha ihb).trans (hf _)
  case choice a b iha ihb => exact (EqOn.choice iha ihb).trans (hf _)
  case opt e ih => exact (EqOn.opt ih).trans (hf _)
  case rep e ih => exact (EqOn.rep hP ih).trans (hf _)
  case repOnce e ih => exact (EqOn.repOnce hP ih).trans (hf _)
  case repExact e n ih => exact (EqOn.repExact hP ih n).trans (hf _)
  case repMin e n ih => exact (EqOn.repMin hP ih n).trans (hf _)
  case repMax e n ih => exact (EqOn.repMax hP ih n).trans (hf _)
  case repMinMax e lo hi ih => exact (EqOn.repMinMax hP ih lo hi).trans (hf _)
  case push e ih => exact (EqOn.push ih).trans (hf _)
  case nodeTag e t ih => exact (EqOn.nodeTag ih t).trans (hf _)

theorem mapTopDown_eqOn (hP : Inv P c) (f : Expr → Expr) (hf : ∀ x, EqOn P c m x (f x)) (n : Nat) (e : Expr) :
    EqOn P c m e (mapTopDown f n e) := by
  induction n generalizing e with
  | zero => exact EqOn.refl e
  | succ n ih =>
    refine (hf e).trans ?_
    rw [mapTopDown]
    cases f e <;> simp only [] <;> try exact EqOn.refl _
    case posPred e => exact EqOn.posPred (ih e)
    case negPred e => exact EqOn.negPred (ih e)
    case seq a b => exact EqOn.seq hP (ih a) (ih b)
    case choice a b => exact EqOn.choice (ih a) (ih b)
    case opt e => exact EqOn.opt (ih e)
    case rep e => exact EqOn.rep hP (ih e)
    case repOnce e => exact EqOn.repOnce hP (ih e)
    case repExact e k => exact EqOn.repExact hP (ih e) k
    case repMin e k => exact EqOn.repMin hP (ih e) k
    case repMax e k => exact EqOn.repMax hP (ih e) k
    case repMinMax e lo hi => exact EqOn.repMinMax hP (ih e) lo hi
    case push e => exact EqOn.push (ih e)
    case nodeTag e t => exact EqOn.nodeTag (ih e) t

end
end PestModel.Ref
