import PestModel.Lemmas.VmRefPrim
/-! C01, part 4: the stack primitives (`PEEK`, `POP`, `PEEK_ALL`, `POP_ALL`, `DROP`, `PEEK[a..b]`). -/
namespace PestModel.VmRef
open PestModel.G PestModel.PS PestModel.Lower PestModel.Ref PestModel.Views
open PestModel.LineCol (Str isBoundary bLen cLen splitAt? slice?)
open PestModel.Stack (StkInv Stk)

variable {cfg : Cfg} {c : Ctx}

theorem matchAll_matchStrs (input : Str) (xs : List Str) : ∀ (pos : Nat) (rest : Str),
    restAt input pos = some rest →
    match matchStrs input xs pos with
    | some p => matchAll input xs pos = some (true, p)
    | none => ∃ p', matchAll input xs pos = some (false, p') := by
  induction xs with
  | nil => intro pos rest _; simp [matchStrs, matchAll]
  | cons x xs ih =>
    intro pos rest h
    unfold matchStrs matchAll
    rw [posMatchString_eq x h, h]
    dsimp only
    by_cases hp : x.isPrefixOf rest = true
    · rw [if_pos hp, if_pos hp]
      dsimp only
      obtain ⟨t, ht⟩ := List.isPrefixOf_iff_prefix.1 hp
      exact ih _ t (restAt_advance h ht.symm)
    · rw [if_neg hp, if_neg hp]
      exact ⟨pos, rfl⟩

theorem Sim.notLimit {m la} {st : PState} {σ : St} (hs : Sim c.input m la st σ) :
    reachedCallLimit st = false := by
  unfold reachedCallLimit; rw [hs.calls]

theorem spec_stackPeek {n m la} :
    Spec cfg c.input n .stackPeek m la
      (fun σ => match σ.stack with | [] => .stuck | top :: _ => lit c σ top) (Rest True) :=
  spec_of_outSpec fun k _ st σ hs => by
    rw [run, hs.notLimit]
    simp only [Bool.false_eq_true, if_false]
    rw [hs.stk]
    cases hst : σ.stack with
    | nil => rfl
    | cons top tl => exact outSpec_matchString hs top _

theorem spec_stackPop {n m la} :
    Spec cfg c.input n .stackPop m la
      (fun σ => match σ.stack with
        | [] => .stuck
        | top :: rest =>
          match lit c σ top with
          | .ok s1 f => .ok { s1 with stack := rest } f
          | r => r) (Rest False) :=
  spec_of_outSpec fun k _ st σ hs => by
    rw [run, hs.notLimit]
    simp only [Bool.false_eq_true, if_false]
    obtain ⟨st', v, hp⟩ := pop_total st.stack
    obtain ⟨hinv, hv, hc, -⟩ := pop_spec _ _ _ hs.inv hp
    rw [hp, hs.stk] at *
    cases hst : σ.stack with
    | nil =>
      rw [hst] at hv; simp at hv; subst hv
      rfl
    | cons top tl =>
      rw [hst] at hv hc; simp at hv hc; subst hv
      dsimp only
      obtain ⟨rest, h1, h2⟩ := hs.restAt
      rw [hs.inp, posMatchString_eq top h1, lit_eq h2]
      by_cases hb : top.isPrefixOf rest = true
      · rw [if_pos hb, if_pos hb, terminal_eq (by exact hs.en), if_pos rfl]
        exact ⟨_, [], rfl, by show st.pos + bLen top = σ.pos + bLen top; rw [hs.pos], hc,
          by rw [pushNodes_nil]⟩
      · rw [if_neg hb, if_neg hb, terminal_eq (by exact hs.en), if_neg (by simp)]
        exact ⟨rfl, rfl, rfl, fun h => h.elim⟩

theorem spec_stackMatchPeek {n m la} :
    Spec cfg c.input n .stackMatchPeek m la
      (fun σ => match matchStrs c.input σ.stack σ.pos with
        | some p => .ok { σ with pos := p } []
        | none => .fail) (Rest True) :=
  spec_of_outSpec fun k _ st σ hs => by
    rw [run]
    obtain ⟨rest, h1, h2⟩ := hs.restAt
    split
    · rename_i he
      have : σ.stack = [] := by rw [← hs.stk]; simpa using he
      rw [show matchStrs c.input σ.stack σ.pos = some σ.pos by rw [this]; rfl]
      exact ⟨σ, [], rfl, hs.pos, hs.stk, by rw [pushNodes_nil]⟩
    · have := matchAll_matchStrs c.input σ.stack σ.pos rest h2
      rw [hs.inp, hs.stk, hs.pos]
      cases hm : matchStrs c.input σ.stack σ.pos with
      | some p =>
        rw [hm] at this; rw [this]
        exact ⟨_, [], rfl, rfl, hs.stk, by rw [pushNodes_nil]⟩
      | none =>
        rw [hm] at this; obtain ⟨p', hp'⟩ := this; rw [hp']
        exact ⟨rfl, rfl, rfl, fun _ => rfl⟩

theorem matchPopLoop_matchStrs (input : Str) : ∀ (n : Nat) (stk : Stk Str) (pos : Nat) (rest : Str),
    StkInv stk → stk.cache.length < n → restAt input pos = some rest →
    match matchStrs input stk.cache pos with
    | some p => ∃ stk', matchPopLoop input n stk pos = some (stk', true, p) ∧ stk'.cache = []
    | none => ∃ stk' p', matchPopLoop input n stk pos = some (stk', false, p')
  | 0, _, _, _, _, hl, _ => by omega
  | n + 1, stk, pos, rest, hinv, hl, hr => by
    obtain ⟨st', v, hp⟩ := pop_total stk
    obtain ⟨hinv', hv, hc, -⟩ := pop_spec _ _ _ hinv hp
    unfold matchPopLoop
    rw [hp]
    cases hst : stk.cache with
    | nil =>
      rw [hst] at hv hc; simp at hv hc; subst hv
      simp only [matchStrs]
      exact ⟨st', rfl, hc⟩
    | cons x xs =>
      rw [hst] at hv hc hl; simp at hv hc hl; subst hv
      dsimp only
      unfold matchStrs
      rw [posMatchString_eq x hr, hr]
      dsimp only
      by_cases hb : x.isPrefixOf rest = true
      · rw [if_pos hb, if_pos hb]
        dsimp only
        obtain ⟨t, ht⟩ := List.isPrefixOf_iff_prefix.1 hb
        have := matchPopLoop_matchStrs input n st' (pos + bLen x) t hinv' (by rw [hc]; omega)
          (restAt_advance hr ht.symm)
        rw [hc] at this
        exact this
      · rw [if_neg hb, if_neg hb]
        exact ⟨st', pos, rfl⟩

theorem spec_stackMatchPop {n m la} :
    Spec cfg c.input n .stackMatchPop m la
      (fun σ => match matchStrs c.input σ.stack σ.pos with
        | some p => .ok { pos := p, stack := [] } []
        | none => .fail) (Rest False) :=
  spec_of_outSpec fun k _ st σ hs => by
    rw [run]
    obtain ⟨rest, h1, h2⟩ := hs.restAt
    have := matchPopLoop_matchStrs c.input (st.stack.cache.length + 1) st.stack st.pos rest hs.inv
      (by omega) h1
    rw [hs.inp]
    have e : matchStrs c.input st.stack.cache st.pos = matchStrs c.input σ.stack σ.pos := by
      rw [hs.stk, hs.pos]
    rw [e] at this
    cases hm : matchStrs c.input σ.stack σ.pos with
    | some p =>
      rw [hm] at this; obtain ⟨stk', h, hc⟩ := this
      rw [h]
      exact ⟨_, [], rfl, rfl, hc, by rw [pushNodes_nil]⟩
    | none =>
      rw [hm] at this; obtain ⟨stk', p', h⟩ := this
      rw [h]
      exact ⟨rfl, rfl, rfl, fun h => h.elim⟩

theorem spec_stackDrop {n m la} :
    Spec cfg c.input n .stackDrop m la
      (fun σ => match σ.stack with
        | [] => .fail
        | _ :: rest => .ok { σ with stack := rest } []) (Rest True) :=
  spec_of_outSpec fun k _ st σ hs => by
    rw [run]
    obtain ⟨st', v, hp⟩ := pop_total st.stack
    obtain ⟨hinv, hv, hc, -⟩ := pop_spec _ _ _ hs.inv hp
    rw [hp, hs.stk] at *
    cases hst : σ.stack with
    | nil =>
      rw [hst] at hv; simp at hv; subst hv
      exact ⟨rfl, rfl, rfl, fun _ => rfl⟩
    | cons top tl =>
      rw [hst] at hv hc; simp at hv hc; subst hv
      exact ⟨_, [], rfl, hs.pos, hc, by rw [pushNodes_nil]⟩

theorem spec_peekSlice {n m la} (a : Int) (b : Option Int) :
    Spec cfg c.input n (.stackMatchPeekSlice a b .bottomToTop) m la
      (fun σ =>
        match normalizeIndex a σ.stack.length,
          (match b with | some e => normalizeIndex e σ.stack.length | none => some σ.stack.length) with
        | some i, some j =>
          if j ≤ i then .ok σ [] else
          match matchStrs c.input ((σ.stack.reverse.drop i).take (j - i)) σ.pos with
          | some p => .ok { σ with pos := p } []
          | none => .fail
        | _, _ => .fail) (Rest True) :=
  spec_of_outSpec fun k _ st σ hs => by
    rw [run]
    obtain ⟨rest, h1, h2⟩ := hs.restAt
    have hfail : OutSpec (.err st) st .fail (Rest True) := ⟨rfl, rfl, rfl, fun _ => rfl⟩
    unfold constrainIdxs
    rw [hs.stk]
    cases hi : normalizeIndex a σ.stack.length with
    | none => exact hfail
    | some i =>
      dsimp only
      have key : ∀ j, OutSpec
          (if j ≤ i then Out.ok st else
            match matchAll st.input ((σ.stack.reverse.drop i).take (j - i)) st.pos with
            | none => .panic
            | some (true, pos') => .ok { st with pos := pos' }
            | some (false, _) => .err st) st
          (if j ≤ i then .ok σ [] else
            match matchStrs c.input ((σ.stack.reverse.drop i).take (j - i)) σ.pos with
            | some p => .ok { σ with pos := p } []
            | none => .fail) (Rest True) := by
        intro j
        by_cases hji : j ≤ i
        · rw [if_pos hji, if_pos hji]
          exact ⟨σ, [], rfl, hs.pos, hs.stk, by rw [pushNodes_nil]⟩
        · rw [if_neg hji, if_neg hji]
          have := matchAll_matchStrs c.input ((σ.stack.reverse.drop i).take (j - i)) σ.pos rest h2
          rw [hs.inp, hs.pos]
          cases hm : matchStrs c.input ((σ.stack.reverse.drop i).take (j - i)) σ.pos with
          | some p =>
            rw [hm] at this; rw [this]
            exact ⟨_, [], rfl, rfl, hs.stk, by rw [pushNodes_nil]⟩
          | none =>
            rw [hm] at this; obtain ⟨p', hp'⟩ := this; rw [hp']
            exact hfail
      cases b with
      | none => exact key _
      | some e =>
        dsimp only
        cases hj : normalizeIndex e σ.stack.length with
        | none => exact hfail
        | some j => exact key j

end PestModel.VmRef
