import PestModel.Model.StackSpec
namespace PestModel.Stack

variable {α : Type}

/-- Core list identity behind `clearSnapshot`: merging the child's segment `seg` into the
parent's record yields the same parent copy and the same remaining `popped` tail. -/
theorem clear_core (cache seg rest : List α) (len rem plen prem : Nat)
    (hk : seg.length = len - rem) (h1 : rem ≤ len) (h2 : rem ≤ cache.length)
    (h4 : prem ≤ plen) (h5 : prem ≤ len) :
    ((seg.take (prem - min prem rem) ++ rest).take (plen - min prem rem)).reverse
        ++ cache.drop (cache.length - min prem rem)
      = (rest.take (plen - prem)).reverse
        ++ (seg.reverse ++ cache.drop (cache.length - rem)).drop
            ((seg.reverse ++ cache.drop (cache.length - rem)).length - prem)
    ∧ (seg.take (prem - min prem rem) ++ rest).drop (plen - min prem rem)
      = rest.drop (plen - prem) := by
  have hlen : (seg.reverse ++ cache.drop (cache.length - rem)).length = len := by
    simp; omega
  rw [hlen]
  by_cases hc : prem ≤ rem
  · have hm : min prem rem = prem := by omega
    simp only [hm, Nat.sub_self, List.take_zero, List.nil_append]
    refine ⟨?_, trivial⟩
    congr 1
    have e : len - prem = seg.reverse.length + (rem - prem) := by simp; omega
    rw [e, List.drop_length_add_append, List.drop_drop]
    congr 1; omega
  · have hm : min prem rem = rem := by omega
    have hl : (seg.take (prem - rem)).length = prem - rem := by simp; omega
    have e : plen - rem = (seg.take (prem - rem)).length + (plen - prem) := by omega
    simp only [hm]
    rw [e, List.take_length_add_append, List.drop_length_add_append]
    refine ⟨?_, rfl⟩
    rw [List.drop_append_of_le_length (by simp; omega), List.drop_reverse,
      List.reverse_append, List.append_assoc]
    have e2 : seg.length - (len - prem) = prem - rem := by omega
    rw [e2]

/-- Growing the current stack keeps the snapshot invariant. -/
theorem StkInvL_push (n p : Nat) (ls : List (Nat × Nat)) (h : StkInvL n p ls) :
    StkInvL (n + 1) p ls := by
  cases ls with
  | nil => exact h
  | cons lr ls =>
    obtain ⟨len, rem⟩ := lr; simp only [StkInvL] at h ⊢
    exact ⟨h.1, by omega, h.2.2.1, h.2.2.2⟩

/-- `absSaved` looks at the current stack only through its bottom `rem` elements. -/
theorem absSaved_congr_cur (cur cur' popped : List α) (ls : List (Nat × Nat))
    (h : ∀ len rem l, ls = (len, rem) :: l →
      cur.drop (cur.length - rem) = cur'.drop (cur'.length - rem)) :
    absSaved cur popped ls = absSaved cur' popped ls := by
  cases ls with
  | nil => rfl
  | cons lr ls =>
    obtain ⟨len, rem⟩ := lr
    simp only [absSaved]
    rw [h len rem ls rfl]

end PestModel.Stack
