import PestModel.Model.PStateSpec
import PestModel.Lemmas.PStateInv
/-!
The *trace* of a completed `run`, as far as the two bookkeeping components `calls` and `pa` are
concerned: every completed run is a composition of
* steps that touch neither `calls` nor `pa` (`post`),
* `incCall`,
* `handleToken` (inside `terminal`),
* `tryAddRuleToStack` at the end of a `rule` whose body started in a known state (`add`).

`run_tr` is proved once, by induction on fuel; the monotonicity facts of C12/C15 are then short
inductions on `Tr`.
-/
namespace PestModel.PS
open PestModel.LineCol PestModel.Stack

/-- the input is the same and a boundary position stays a boundary position. -/
def Bnd (a b : PState) : Prop :=
  b.input = a.input ∧ (isBoundary a.input a.pos = true → isBoundary a.input b.pos = true)

theorem Bnd.refl (s : PState) : Bnd s s := ⟨rfl, id⟩

theorem Bnd.trans {a b c : PState} (h1 : Bnd a b) (h2 : Bnd b c) : Bnd a c := by
  refine ⟨h2.1.trans h1.1, fun h => ?_⟩
  have := h2.2 (by rw [h1.1]; exact h1.2 h)
  rwa [h1.1] at this

theorem Rel.toBnd {s s' : PState} (r : Rel s s') : Bnd s s' := ⟨r.input, r.bnd⟩

theorem Bnd.of_eq {a b : PState} (h1 : b.input = a.input) (h2 : b.pos = a.pos) : Bnd a b :=
  ⟨h1, fun h => by rw [h2]; exact h⟩

inductive Tr : PState → PState → Prop
  | refl (s : PState) : Tr s s
  | post {s ns ns' : PState} (h : Tr s ns) (hc : ns'.calls = ns.calls) (hp : ns'.pa = ns.pa)
      (hb : Bnd s ns') : Tr s ns'
  | inc {s s1 : PState} (h : incCall s = some s1) : Tr s s1
  | tok {s : PState} (start : Nat) (t : PTok) (succ : Bool) : Tr s (handleToken s start t succ)
  | add {s1 ns ns' : PState} (r : Nat) (h1 : Tr s1 ns)
      (h : tryAddRuleToStack ns r s1.pa.callStacks.length s1.pa.maxPos = some ns') : Tr s1 ns'
  | trans {a b c : PState} (h1 : Tr a b) (h2 : Tr b c) : Tr a c

theorem Tr.core {s s' : PState} (hc : s'.calls = s.calls) (hp : s'.pa = s.pa) (hb : Bnd s s') :
    Tr s s' := Tr.post (Tr.refl s) hc hp hb

theorem Tr.bnd {s s' : PState} (h : Tr s s') : Bnd s s' := by
  induction h with
  | refl s => exact Bnd.refl s
  | post _ _ _ hb _ => exact hb
  | inc h =>
    obtain ⟨c, rfl⟩ := incCall_some h
    exact Bnd.of_eq rfl rfl
  | tok start t succ =>
    rename_i s
    obtain ⟨pa', he, -⟩ := handleToken_eq s start t succ
    rw [he]; exact Bnd.of_eq rfl rfl
  | add r _ h ih =>
    obtain ⟨pa', rfl, -⟩ := tryAddRuleToStack_eq h
    exact ih.trans (Bnd.of_eq rfl rfl)
  | trans _ _ ih1 ih2 => exact ih1.trans ih2

/-! ### leaves -/

theorem terminal_tr (s s' : PState) (r : Option (Bool × Nat)) (tok : Option PTok)
    (hg : PosGood s.input s.pos r) (h : (terminal s r tok).state? = some s') : Tr s s' := by
  unfold terminal at h
  split at h
  · simp at h
  · rename_i succ pos'
    obtain ⟨hle, hb⟩ := hg succ pos' rfl
    have h0 : Tr s { s with pos := pos' } := Tr.core rfl rfl ⟨rfl, fun _ => hb⟩
    cases tok with
    | none =>
      simp only [] at h
      split at h <;> (simp at h; subst h; exact h0)
    | some t =>
      simp only [] at h
      have h1 : Tr s (handleToken { s with pos := pos' } s.pos t succ) := h0.trans (Tr.tok _ _ _)
      split at h <;> (simp at h; subst h; exact h1)

abbrev TIH (cfg : Cfg) (fuel : Nat) : Prop :=
  ∀ p s s', (run cfg fuel p s).state? = some s' → Tr s s'

theorem TIH.ok {cfg fuel} (ih : TIH cfg fuel) {p s s'} (h : run cfg fuel p s = .ok s') : Tr s s' :=
  ih p s s' (by rw [h]; rfl)
theorem TIH.err {cfg fuel} (ih : TIH cfg fuel) {p s s'} (h : run cfg fuel p s = .err s') : Tr s s' :=
  ih p s s' (by rw [h]; rfl)

/-- A completed run whose final state has the `calls` and `pa` of the start state. -/
theorem Tr.of_rel {s s' : PState} (r : Rel s s') (hc : s'.calls = s.calls) (hp : s'.pa = s.pa) :
    Tr s s' := Tr.core hc hp r.toBnd

section cases
variable (cfg : Cfg) (fuel : Nat)

theorem tr_stackPeek (s s' : PState)
    (h : (run cfg (fuel+1) .stackPeek s).state? = some s') : Tr s s' := by
  rw [run] at h
  split at h
  · simp [Out.state?] at h; subst h; exact Tr.refl _
  split at h
  · simp at h
  · exact terminal_tr _ _ _ _ (posMatchString_good _ _ _) h

theorem tr_stackPop (s s' : PState)
    (h : (run cfg (fuel+1) .stackPop s).state? = some s') : Tr s s' := by
  rw [run] at h
  split at h
  · simp [Out.state?] at h; subst h; exact Tr.refl _
  split at h
  · simp at h
  · simp at h
  · rename_i st str hp
    simp only [] at h
    refine Tr.trans (b := { s with stack := st }) (Tr.core rfl rfl (Bnd.of_eq rfl rfl)) ?_
    exact terminal_tr { s with stack := st } _ _ _ (posMatchString_good _ _ _) h

/-- the leaves that touch neither `calls` nor `pa`. -/
theorem leaf_core (p : Prog) (s s' : PState) (h : (run cfg (fuel+1) p s).state? = some s')
    (hp : match p with
      | .skipUntil _ | .startOfInput | .endOfInput | .stackMatchPeek | .stackMatchPop | .stackDrop
      | .stackMatchPeekSlice _ _ _ | .stackPushLiteral _ | .tagNode _ | .ok | .fail => True
      | _ => False) :
    s'.calls = s.calls ∧ s'.pa = s.pa := by
  cases p <;> simp only [] at hp <;> rw [run] at h
  all_goals (repeat' (first | split at h | (simp only [] at h; split at h)))
  all_goals first
    | (simp at h; done)
    | (simp at h; subst h; exact ⟨rfl, rfl⟩)

variable (ih : TIH cfg fuel)
include ih

theorem tr_andThen (p q : Prog) (s s' : PState)
    (h : (run cfg (fuel+1) (.andThen p q) s).state? = some s') : Tr s s' := by
  rw [run_andThen] at h
  split at h
  · rename_i s1 h1
    exact (ih.ok h1).trans (ih _ _ _ h)
  · exact ih _ _ _ h

theorem tr_orElse (p q : Prog) (s s' : PState)
    (h : (run cfg (fuel+1) (.orElse p q) s).state? = some s') : Tr s s' := by
  rw [run_orElse] at h
  split at h
  · rename_i s1 h1
    exact (ih.err h1).trans (ih _ _ _ h)
  · exact ih _ _ _ h

theorem tr_call (i : Nat) (s s' : PState)
    (h : (run cfg (fuel+1) (.call i) s).state? = some s') : Tr s s' := by
  rw [run_call] at h
  split at h
  · exact ih _ _ _ h
  · simp at h

theorem tr_optional (p : Prog) (s s' : PState)
    (h : (run cfg (fuel+1) (.optional p) s).state? = some s') : Tr s s' := by
  rw [run_optional] at h
  split at h
  · simp at h; subst h; exact Tr.refl _
  · rename_i s1 hic
    refine (Tr.inc hic).trans ?_
    split at h
    · rename_i ns hb; simp at h; subst h; exact ih.ok hb
    · rename_i ns hb; simp at h; subst h; exact ih.err hb
    · exact ih _ _ _ h

theorem tr_repeat (p : Prog) (s s' : PState)
    (h : (run cfg (fuel+1) (.repeat_ p) s).state? = some s') : Tr s s' := by
  rw [run_repeat] at h
  split at h
  · simp at h; subst h; exact Tr.refl _
  · rename_i s1 hic
    exact (Tr.inc hic).trans (ih _ _ _ h)

theorem tr_repLoop (p : Prog) (s s' : PState)
    (h : (run cfg (fuel+1) (.repLoop p) s).state? = some s') : Tr s s' := by
  rw [run_repLoop] at h
  split at h
  · rename_i s1 hb
    exact (ih.ok hb).trans (ih _ _ _ h)
  · rename_i s1 hb; simp at h; subst h; exact ih.err hb
  · exact ih _ _ _ h

omit ih in
/-- generic shape of a bracketing combinator: `incCall`, a pre-step that keeps `calls`/`pa`, the body,
a post-step that keeps `calls`/`pa`. -/
theorem tr_bracket {s s1 pre ns s' : PState} (hic : Tr s s1)
    (hpre : pre.calls = s1.calls ∧ pre.pa = s1.pa ∧ pre.input = s1.input ∧ pre.pos = s1.pos)
    (hbody : Tr pre ns) (hpost : s'.calls = ns.calls ∧ s'.pa = ns.pa) (hrel : Rel s s') : Tr s s' :=
  Tr.post (hic.trans ((Tr.core hpre.1 hpre.2.1 (Bnd.of_eq hpre.2.2.1 hpre.2.2.2)).trans hbody))
    hpost.1 hpost.2 hrel.toBnd

theorem tr_sequence (p : Prog) (s s' : PState)
    (h : (run cfg (fuel+1) (.sequence p) s).state? = some s') : Tr s s' := by
  have hrel := run_rel cfg _ _ _ _ h
  rw [run_sequence] at h
  split at h
  · simp at h; subst h; exact Tr.refl _
  · rename_i s1 hic
    split at h
    · rename_i ns hb
      split at h
      · rename_i ns' hck
        simp at h; subst h
        obtain ⟨st, hcl, rfl⟩ := checkpointOk_some hck
        exact tr_bracket (pre := checkpoint s1) (Tr.inc hic) ⟨rfl, rfl, rfl, rfl⟩ (ih.ok hb) ⟨rfl, rfl⟩ hrel
      · simp at h
    · rename_i ns hb
      split at h
      · rename_i ns' hrs
        simp at h; subst h
        obtain ⟨st, hre, rfl⟩ := restoreStack_some hrs
        exact tr_bracket (pre := checkpoint s1) (Tr.inc hic) ⟨rfl, rfl, rfl, rfl⟩ (ih.err hb) ⟨rfl, rfl⟩ hrel
      · simp at h
    · rename_i o h1 h2
      rcases state?_some_cases h with h' | h'
      · exact (h1 s' h').elim
      · exact (h2 s' h').elim

theorem tr_restoreOnErr (p : Prog) (s s' : PState)
    (h : (run cfg (fuel+1) (.restoreOnErr p) s).state? = some s') : Tr s s' := by
  have hrel := run_rel cfg _ _ _ _ h
  rw [run_restoreOnErr] at h
  split at h
  · rename_i ns hb
    split at h
    · rename_i ns' hck
      simp at h; subst h
      obtain ⟨st, hcl, rfl⟩ := checkpointOk_some hck
      exact tr_bracket (pre := checkpoint s) (Tr.refl s) ⟨rfl, rfl, rfl, rfl⟩ (ih.ok hb) ⟨rfl, rfl⟩ hrel
    · simp at h
  · rename_i ns hb
    split at h
    · rename_i ns' hrs
      simp at h; subst h
      obtain ⟨st, hre, rfl⟩ := restoreStack_some hrs
      exact tr_bracket (pre := checkpoint s) (Tr.refl s) ⟨rfl, rfl, rfl, rfl⟩ (ih.err hb) ⟨rfl, rfl⟩ hrel
    · simp at h
  · rename_i o h1 h2
    rcases state?_some_cases h with h' | h'
    · exact (h1 s' h').elim
    · exact (h2 s' h').elim

theorem tr_lookahead (positive : Bool) (p : Prog) (s s' : PState)
    (h : (run cfg (fuel+1) (.lookahead positive p) s).state? = some s') : Tr s s' := by
  have hrel := run_rel cfg _ _ _ _ h
  rw [run_lookahead] at h
  split at h
  · simp at h; subst h; exact Tr.refl _
  · rename_i s1 hic
    have key : ∀ ns ns', Tr (checkpoint { s1 with lookahead := laMode positive s1.lookahead }) ns →
        laPost s1 ns = some ns' → Rel s ns' → Tr s ns' := by
      intro ns ns' hb hla hr
      obtain ⟨st, hre, rfl⟩ := restoreStack_some hla
      exact tr_bracket (pre := checkpoint { s1 with lookahead := laMode positive s1.lookahead }) (Tr.inc hic) ⟨rfl, rfl, rfl, rfl⟩ hb ⟨rfl, rfl⟩ hr
    split at h
    · rename_i ns hb
      split at h
      · rename_i ns' hla
        split at h <;> (simp at h; subst h; exact key _ _ (ih.ok hb) hla hrel)
      · simp at h
    · rename_i ns hb
      split at h
      · rename_i ns' hla
        split at h <;> (simp at h; subst h; exact key _ _ (ih.err hb) hla hrel)
      · simp at h
    · rename_i o h1 h2
      rcases state?_some_cases h with h' | h'
      · exact (h1 s' h').elim
      · exact (h2 s' h').elim

omit ih in
theorem atomPre_core (a : Atomicity) (s1 : PState) :
    (atomPre a s1).calls = s1.calls ∧ (atomPre a s1).pa = s1.pa ∧ (atomPre a s1).input = s1.input ∧
      (atomPre a s1).pos = s1.pos := by
  unfold atomPre; split <;> exact ⟨rfl, rfl, rfl, rfl⟩

omit ih in
theorem atomPost_core (a : Atomicity) (s1 ns : PState) :
    (atomPost a s1 ns).calls = ns.calls ∧ (atomPost a s1 ns).pa = ns.pa := by
  unfold atomPost; split <;> exact ⟨rfl, rfl⟩

theorem tr_atomic (a : Atomicity) (p : Prog) (s s' : PState)
    (h : (run cfg (fuel+1) (.atomic a p) s).state? = some s') : Tr s s' := by
  have hrel := run_rel cfg _ _ _ _ h
  rw [run_atomic] at h
  split at h
  · simp at h; subst h; exact Tr.refl _
  · rename_i s1 hic
    split at h
    · rename_i ns hb; simp at h; subst h
      exact tr_bracket (Tr.inc hic) (atomPre_core a s1) (ih.ok hb) (atomPost_core a s1 ns) hrel
    · rename_i ns hb; simp at h; subst h
      exact tr_bracket (Tr.inc hic) (atomPre_core a s1) (ih.err hb) (atomPost_core a s1 ns) hrel
    · rename_i o h1 h2
      rcases state?_some_cases h with h' | h'
      · exact (h1 s' h').elim
      · exact (h2 s' h').elim

theorem tr_stackPush (p : Prog) (s s' : PState)
    (h : (run cfg (fuel+1) (.stackPush p) s).state? = some s') : Tr s s' := by
  have hrel := run_rel cfg _ _ _ _ h
  rw [run_stackPush] at h
  split at h
  · simp at h; subst h; exact Tr.refl _
  · rename_i s1 hic
    split at h
    · rename_i ns hb
      unfold pushSpan at h
      split at h
      · simp at h; subst h
        exact tr_bracket (Tr.inc hic) ⟨rfl, rfl, rfl, rfl⟩ (ih.ok hb) ⟨rfl, rfl⟩ hrel
      · simp at h
    · exact (Tr.inc hic).trans (ih _ _ _ h)

/-! ### `rule` -/

omit ih in
theorem rulePre_core (s1 : PState) :
    (rulePre s1).calls = s1.calls ∧ (rulePre s1).pa = s1.pa ∧ (rulePre s1).input = s1.input ∧
      (rulePre s1).pos = s1.pos := by
  unfold rulePre; split <;> exact ⟨rfl, rfl, rfl, rfl⟩

omit ih in
theorem ruleEmit_core {s1 x y : PState} {r : Nat} (h : ruleEmit s1 r x = some y) :
    y.calls = x.calls ∧ y.pa = x.pa ∧ y.input = x.input ∧ y.pos = x.pos := by
  unfold ruleEmit at h
  split at h
  · split at h
    · simp at h; subst h; exact ⟨rfl, rfl, rfl, rfl⟩
    · simp at h
  · simp at h; subst h; exact ⟨rfl, rfl, rfl, rfl⟩

omit ih in
theorem ruleTrackIf_core (s1 : PState) (r : Nat) (ns : PState) :
    (ruleTrackIf s1 r ns).calls = ns.calls ∧ (ruleTrackIf s1 r ns).pa = ns.pa ∧
      (ruleTrackIf s1 r ns).input = ns.input ∧ (ruleTrackIf s1 r ns).pos = ns.pos := by
  obtain ⟨a, b, c, h⟩ := ruleTrackIf_eq s1 r ns
  rw [h]; exact ⟨rfl, rfl, rfl, rfl⟩

omit ih in
theorem ruleTrack_core (s1 : PState) (r : Nat) (ns : PState) :
    (ruleTrack s1 r ns).calls = ns.calls ∧ (ruleTrack s1 r ns).pa = ns.pa ∧
      (ruleTrack s1 r ns).input = ns.input ∧ (ruleTrack s1 r ns).pos = ns.pos := by
  obtain ⟨a, b, c, h⟩ : ∃ a b c, ruleTrack s1 r ns =
      { ns with posAtt := a, negAtt := b, attemptPos := c } := track_eq _ _ _ _ _ _
  rw [h]; exact ⟨rfl, rfl, rfl, rfl⟩

omit ih in
theorem ruleErrTrunc_core (s1 ns : PState) :
    (ruleErrTrunc s1 ns).calls = ns.calls ∧ (ruleErrTrunc s1 ns).pa = ns.pa := by
  unfold ruleErrTrunc; split <;> exact ⟨rfl, rfl⟩

omit ih in
/-- keeping `calls`/`pa`, input and position after a traced run. -/
theorem Tr.post_same {s ns ns' : PState} (h : Tr s ns)
    (hc : ns'.calls = ns.calls ∧ ns'.pa = ns.pa ∧ ns'.input = ns.input ∧ ns'.pos = ns.pos) :
    Tr s ns' :=
  Tr.post h hc.1 hc.2.1 (h.bnd.trans (Bnd.of_eq hc.2.2.1 hc.2.2.2))

omit ih in
theorem ruleOkPost_tr {s1 ns s' : PState} {r : Nat} (hb : Tr (rulePre s1) ns)
    (h : (ruleOkPost s1 r ns).state? = some s') : Tr (rulePre s1) s' := by
  unfold ruleOkPost at h
  split at h
  · simp at h
  · rename_i ns2 he
    have h2 : Tr (rulePre s1) ns2 := by
      have c1 := ruleTrackIf_core s1 r ns
      have c2 := ruleEmit_core he
      exact hb.post_same ⟨c2.1.trans c1.1, c2.2.1.trans c1.2.1, c2.2.2.1.trans c1.2.2.1,
        c2.2.2.2.trans c1.2.2.2⟩
    unfold ruleFinish at h
    split at h
    · split at h
      · rename_i ns3 ha
        simp at h; subst h
        exact Tr.add r h2 ha
      · simp at h
    · simp at h; subst h; exact h2

omit ih in
theorem ruleErrPost_tr {s1 ns s' : PState} {r : Nat} (hb : Tr (rulePre s1) ns)
    (h : (ruleErrPost s1 r ns).state? = some s') (hrel : Bnd (rulePre s1) s') :
    Tr (rulePre s1) s' := by
  unfold ruleErrPost at h
  split at h
  · simp at h
  · rename_i ns2 ha
    simp at h; subst h
    have c3 := ruleErrTrunc_core s1 ns2
    refine Tr.post (ns := ns2) ?_ c3.1 c3.2 hrel
    unfold ruleErrAdd at ha
    split at ha
    · have h2 : Tr (rulePre s1) (ruleTrack s1 r ns) := hb.post_same (ruleTrack_core s1 r ns)
      split at ha
      · exact Tr.add r h2 ha
      · simp at ha; subst ha; exact h2
    · simp at ha; subst ha; exact hb

theorem tr_rule (r : Nat) (p : Prog) (s s' : PState)
    (h : (run cfg (fuel+1) (.rule r p) s).state? = some s') : Tr s s' := by
  rw [run_rule] at h
  split at h
  · simp at h; subst h; exact Tr.refl _
  · rename_i s1 hic
    have c := rulePre_core s1
    have h0 : Tr s (rulePre s1) :=
      (Tr.inc hic).trans (Tr.core c.1 c.2.1 (Bnd.of_eq c.2.2.1 c.2.2.2))
    refine h0.trans ?_
    split at h
    · rename_i ns hb
      exact ruleOkPost_tr (ih.ok hb) h
    · rename_i ns hb
      have hr : Rel s1 s' := ruleErrPost_rel (run_err_rel hb) h
      exact ruleErrPost_tr (ih.err hb) h
        ⟨hr.input.trans c.2.2.1.symm, by rw [c.2.2.1, c.2.2.2]; exact hr.bnd⟩
    · rename_i o h1 h2
      rcases state?_some_cases h with h' | h'
      · exact (h1 s' h').elim
      · exact (h2 s' h').elim

end cases
/-- **Every completed run is a trace.** -/
theorem run_tr (cfg : Cfg) : ∀ (fuel : Nat) (p : Prog) (s s' : PState),
    (run cfg fuel p s).state? = some s' → Tr s s'
  | 0, p, s, s', h => by rw [run_zero] at h; simp at h
  | fuel + 1, p, s, s', h => by
    have ih : TIH cfg fuel := run_tr cfg fuel
    cases p with
    | sequence p => exact tr_sequence cfg fuel ih p s s' h
    | optional p => exact tr_optional cfg fuel ih p s s' h
    | repeat_ p => exact tr_repeat cfg fuel ih p s s' h
    | repLoop p => exact tr_repLoop cfg fuel ih p s s' h
    | lookahead b p => exact tr_lookahead cfg fuel ih b p s s' h
    | atomic a p => exact tr_atomic cfg fuel ih a p s s' h
    | rule r p => exact tr_rule cfg fuel ih r p s s' h
    | stackPush p => exact tr_stackPush cfg fuel ih p s s' h
    | restoreOnErr p => exact tr_restoreOnErr cfg fuel ih p s s' h
    | andThen p q => exact tr_andThen cfg fuel ih p q s s' h
    | orElse p q => exact tr_orElse cfg fuel ih p q s s' h
    | call i => exact tr_call cfg fuel ih i s s' h
    | matchString str =>
      rw [run] at h; exact terminal_tr _ _ _ _ (posMatchString_good _ _ _) h
    | matchInsensitive str =>
      rw [run] at h; exact terminal_tr _ _ _ _ (posMatchInsensitive_good _ _ _) h
    | matchRange a b =>
      rw [run] at h; exact terminal_tr _ _ _ _ (posMatchRange_good _ _ _ _) h
    | matchCharBy cs =>
      rw [run] at h; exact terminal_tr _ _ _ _ (posMatchCharBy_good _ _ _) h
    | skip n =>
      rw [run] at h; exact terminal_tr _ _ _ _ (posSkip_good _ _ _) h
    | stackPeek => exact tr_stackPeek cfg fuel s s' h
    | stackPop => exact tr_stackPop cfg fuel s s' h
    | skipUntil strs =>
      obtain ⟨a, b⟩ := leaf_core cfg fuel _ s s' h trivial
      exact Tr.of_rel (run_rel cfg _ _ _ _ h) a b
    | startOfInput =>
      obtain ⟨a, b⟩ := leaf_core cfg fuel _ s s' h trivial
      exact Tr.of_rel (run_rel cfg _ _ _ _ h) a b
    | endOfInput =>
      obtain ⟨a, b⟩ := leaf_core cfg fuel _ s s' h trivial
      exact Tr.of_rel (run_rel cfg _ _ _ _ h) a b
    | stackMatchPeek =>
      obtain ⟨a, b⟩ := leaf_core cfg fuel _ s s' h trivial
      exact Tr.of_rel (run_rel cfg _ _ _ _ h) a b
    | stackMatchPop =>
      obtain ⟨a, b⟩ := leaf_core cfg fuel _ s s' h trivial
      exact Tr.of_rel (run_rel cfg _ _ _ _ h) a b
    | stackDrop =>
      obtain ⟨a, b⟩ := leaf_core cfg fuel _ s s' h trivial
      exact Tr.of_rel (run_rel cfg _ _ _ _ h) a b
    | stackMatchPeekSlice x y d =>
      obtain ⟨a, b⟩ := leaf_core cfg fuel _ s s' h trivial
      exact Tr.of_rel (run_rel cfg _ _ _ _ h) a b
    | stackPushLiteral str =>
      obtain ⟨a, b⟩ := leaf_core cfg fuel _ s s' h trivial
      exact Tr.of_rel (run_rel cfg _ _ _ _ h) a b
    | tagNode t =>
      obtain ⟨a, b⟩ := leaf_core cfg fuel _ s s' h trivial
      exact Tr.of_rel (run_rel cfg _ _ _ _ h) a b
    | ok =>
      obtain ⟨a, b⟩ := leaf_core cfg fuel _ s s' h trivial
      exact Tr.of_rel (run_rel cfg _ _ _ _ h) a b
    | fail =>
      obtain ⟨a, b⟩ := leaf_core cfg fuel _ s s' h trivial
      exact Tr.of_rel (run_rel cfg _ _ _ _ h) a b

/-! ### Consequences: the call counter -/

/-- the counter only grows and the limit is constant. -/
def CallsMono (s s' : PState) : Prop :=
  (s.calls = none → s'.calls = none) ∧
  (∀ c n, s.calls = some (c, n) → ∃ c', s'.calls = some (c', n) ∧ c ≤ c')

theorem CallsMono.refl (s : PState) : CallsMono s s :=
  ⟨id, fun c _ h => ⟨c, h, Nat.le_refl _⟩⟩

theorem CallsMono.of_eq {s s' : PState} (h : s'.calls = s.calls) : CallsMono s s' :=
  ⟨fun h0 => h.trans h0, fun c _ h0 => ⟨c, h.trans h0, Nat.le_refl _⟩⟩

theorem CallsMono.trans {a b c : PState} (h1 : CallsMono a b) (h2 : CallsMono b c) : CallsMono a c := by
  refine ⟨fun h => h2.1 (h1.1 h), fun x n h => ?_⟩
  obtain ⟨x1, e1, l1⟩ := h1.2 x n h
  obtain ⟨x2, e2, l2⟩ := h2.2 x1 n e1
  exact ⟨x2, e2, Nat.le_trans l1 l2⟩

theorem incCall_mono {s s1 : PState} (h : incCall s = some s1) : CallsMono s s1 := by
  unfold incCall at h
  split at h
  · simp at h; subst h; exact CallsMono.refl _
  · rename_i cur lim hc
    split at h
    · simp at h
    · simp at h; subst h
      refine ⟨fun h0 => by rw [hc] at h0; simp at h0, fun c n h0 => ?_⟩
      rw [hc] at h0; simp at h0
      obtain ⟨rfl, rfl⟩ := h0
      exact ⟨cur + 1, rfl, Nat.le_succ _⟩

theorem Tr.callsMono {s s' : PState} (h : Tr s s') : CallsMono s s' := by
  induction h with
  | refl s => exact CallsMono.refl s
  | post _ hc _ _ ih => exact ih.trans (CallsMono.of_eq hc)
  | inc h => exact incCall_mono h
  | tok start t succ =>
    rename_i s
    obtain ⟨pa', he, -⟩ := handleToken_eq s start t succ
    rw [he]; exact CallsMono.of_eq rfl
  | add r _ h ih =>
    obtain ⟨pa', rfl, -⟩ := tryAddRuleToStack_eq h
    exact ih.trans (CallsMono.of_eq rfl)
  | trans _ _ ih1 ih2 => exact ih1.trans ih2

theorem run_callsMono (cfg : Cfg) (fuel : Nat) (p : Prog) (s s' : PState)
    (h : (run cfg fuel p s).state? = some s') : CallsMono s s' :=
  (run_tr cfg fuel p s s' h).callsMono

/-- a reached limit stays reached. -/
theorem CallsMono.reached {s s' : PState} (h : CallsMono s s') (hr : reachedCallLimit s = true) :
    reachedCallLimit s' = true := by
  unfold reachedCallLimit at hr ⊢
  split at hr
  · simp at hr
  · rename_i cur lim hc
    obtain ⟨c', e, l⟩ := h.2 cur lim hc
    rw [e]; simp at hr ⊢; omega

theorem CallsMono.not_reached {s s' : PState} (h : CallsMono s s') (hr : reachedCallLimit s' = false) :
    reachedCallLimit s = false := by
  cases h0 : reachedCallLimit s with
  | false => rfl
  | true => rw [h.reached h0] at hr; exact hr

/-! ### Consequences: the attempts bookkeeping -/

def PaMono (a b : PAttempts) : Prop :=
  a.maxPos ≤ b.maxPos ∧ (b.maxPos = a.maxPos → a.callStacks.length ≤ b.callStacks.length)

theorem PaMono.refl (a : PAttempts) : PaMono a a := ⟨Nat.le_refl _, fun _ => Nat.le_refl _⟩

theorem PaMono.trans {a b c : PAttempts} (h1 : PaMono a b) (h2 : PaMono b c) : PaMono a c := by
  refine ⟨Nat.le_trans h1.1 h2.1, fun h => ?_⟩
  have e1 : b.maxPos = a.maxPos := by have := h1.1; have := h2.1; omega
  have e2 : c.maxPos = b.maxPos := by omega
  exact Nat.le_trans (h1.2 e1) (h2.2 e2)

theorem tryAddNewToken_mono (pa : PAttempts) (tok : PTok) (a b : Nat) (n : Bool) :
    PaMono pa (pa.tryAddNewToken tok a b n) := by
  unfold PAttempts.tryAddNewToken
  simp only []
  repeat' split
  all_goals first
    | exact PaMono.refl _
    | (refine ⟨?_, fun h => ?_⟩ <;> simp at * <;> omega)

theorem handleToken_mono (s : PState) (start : Nat) (tok : PTok) (succ : Bool) :
    PaMono s.pa (handleToken s start tok succ).pa := by
  unfold handleToken
  simp only []
  repeat' split
  all_goals first
    | exact PaMono.refl _
    | exact tryAddNewToken_mono _ _ _ _ _
    | (refine ⟨?_, fun h => ?_⟩ <;> simp [PAttempts.nullify] at * <;> omega)

theorem tryAddNewStackRule_spec {pa pa' : PAttempts} {r st : Nat}
    (h : pa.tryAddNewStackRule r st = some pa') :
    pa'.maxPos = pa.maxPos ∧ st ≤ pa'.callStacks.length := by
  unfold PAttempts.tryAddNewStackRule at h
  simp only [] at h
  split at h
  · simp at h
  · rename_i hst
    repeat' split at h
    all_goals (simp only [Option.some.injEq] at h; subst h; refine ⟨rfl, ?_⟩; simp; omega)

theorem tryAddNewStackRule_isSome {pa : PAttempts} {r st : Nat} (h : st ≤ pa.callStacks.length) :
    ∃ pa', pa.tryAddNewStackRule r st = some pa' := by
  unfold PAttempts.tryAddNewStackRule
  simp only []
  rw [if_neg (by omega)]
  repeat' split
  all_goals exact ⟨_, rfl⟩

theorem tryAddRuleToStack_mono {s1 ns ns' : PState} {r : Nat} (h0 : PaMono s1.pa ns.pa)
    (h : tryAddRuleToStack ns r s1.pa.callStacks.length s1.pa.maxPos = some ns') :
    PaMono s1.pa ns'.pa := by
  unfold tryAddRuleToStack at h
  simp only [] at h
  split at h
  · split at h
    · rename_i pa hp
      simp at h; subst h
      obtain ⟨e, l⟩ := tryAddNewStackRule_spec hp
      refine ⟨by show _ ≤ pa.maxPos; rw [e]; exact h0.1, fun h => ?_⟩
      have h' : ns.pa.maxPos = s1.pa.maxPos := by rw [← e]; exact h
      rw [if_neg (by omega)] at l
      exact l
    · simp at h
  · simp at h; subst h; exact h0

/-- the `splice` in `try_add_rule_to_stack` is always in range. -/
theorem tryAddRuleToStack_isSome {s1 ns : PState} {r : Nat} (h0 : PaMono s1.pa ns.pa) :
    ∃ ns', tryAddRuleToStack ns r s1.pa.callStacks.length s1.pa.maxPos = some ns' := by
  unfold tryAddRuleToStack
  simp only []
  split
  · have : (if ns.pa.maxPos > s1.pa.maxPos then 0 else s1.pa.callStacks.length) ≤
        ns.pa.callStacks.length := by
      split
      · omega
      · exact h0.2 (by have := h0.1; omega)
    obtain ⟨pa', hp⟩ := tryAddNewStackRule_isSome (r := r) this
    rw [hp]; exact ⟨_, rfl⟩
  · exact ⟨_, rfl⟩

theorem Tr.paMono {s s' : PState} (h : Tr s s') : PaMono s.pa s'.pa := by
  induction h with
  | refl s => exact PaMono.refl _
  | post _ _ hp _ ih => rw [hp]; exact ih
  | inc h =>
    obtain ⟨c, rfl⟩ := incCall_some h
    exact PaMono.refl _
  | tok start t succ => exact handleToken_mono _ _ _ _
  | add r _ h ih => exact tryAddRuleToStack_mono ih h
  | trans _ _ ih1 ih2 => exact ih1.trans ih2

theorem run_paMono (cfg : Cfg) (fuel : Nat) (p : Prog) (s s' : PState)
    (h : (run cfg fuel p s).state? = some s') : PaMono s.pa s'.pa :=
  (run_tr cfg fuel p s s' h).paMono

/-! ### Consequences: `max_position` is a boundary -/

theorem tryAddNewToken_maxPos (pa : PAttempts) (tok : PTok) (a b : Nat) (n : Bool) :
    (pa.tryAddNewToken tok a b n).maxPos = pa.maxPos ∨ (pa.tryAddNewToken tok a b n).maxPos = b := by
  unfold PAttempts.tryAddNewToken
  simp only []
  repeat' split
  all_goals first
    | exact Or.inl rfl
    | exact Or.inr rfl

theorem handleToken_maxPos (s : PState) (start : Nat) (tok : PTok) (succ : Bool) :
    (handleToken s start tok succ).pa.maxPos = s.pa.maxPos ∨
    (handleToken s start tok succ).pa.maxPos = s.pos := by
  unfold handleToken
  simp only []
  repeat' split
  all_goals first
    | exact Or.inl rfl
    | exact tryAddNewToken_maxPos _ _ _ _ _
    | exact Or.inr rfl

theorem tryAddRuleToStack_maxPos {ns ns' : PState} {r a b : Nat}
    (h : tryAddRuleToStack ns r a b = some ns') : ns'.pa.maxPos = ns.pa.maxPos := by
  unfold tryAddRuleToStack at h
  simp only [] at h
  split at h
  · split at h
    · rename_i pa hp
      simp at h; subst h
      exact (tryAddNewStackRule_spec hp).1
    · simp at h
  · simp at h; subst h; rfl

theorem Tr.maxPosBnd {s s' : PState} (h : Tr s s') (hb : isBoundary s.input s.pos = true)
    (hm : isBoundary s.input s.pa.maxPos = true) : isBoundary s.input s'.pa.maxPos = true := by
  induction h with
  | refl s => exact hm
  | post _ _ hp _ ih => rw [hp]; exact ih hb hm
  | inc h =>
    obtain ⟨c, rfl⟩ := incCall_some h
    exact hm
  | tok start t succ =>
    rcases handleToken_maxPos _ start t succ with e | e <;> rw [e] <;> assumption
  | add r _ h ih => rw [tryAddRuleToStack_maxPos h]; exact ih hb hm
  | trans h1 _ ih1 ih2 =>
    have b1 := h1.bnd
    have := ih2 (by rw [b1.1]; exact b1.2 hb) (by rw [b1.1]; exact ih1 hb hm)
    rwa [b1.1] at this

end PestModel.PS
