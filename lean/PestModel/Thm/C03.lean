import PestModel.Model.PStateSpec
import PestModel.Lemmas.PStateInv
import PestModel.Lemmas.PStateStackReaders
/-!
# C03 — parser-state combinators are all-or-nothing and match exactly (part 1: combinators)

Property theorems only; helper lemmas in `PestModel/Lemmas/PStateInv*.lean`.
`run` is the executable model of `pest::ParserState` (every public operation; Rust panics are the
outcome `panic`, model fuel exhaustion is `fuel`). All theorems hold for every program, input,
fuel, call limit and error-detail setting, with and without `memchr`.
-/
namespace PestModel.C03
open PestModel.PS PestModel.LineCol PestModel.Stack

/-- The initial state is well formed. -/
theorem new_wf (input : Str) (limit : Option Nat) (detail : Bool) : (PState.new input limit detail).WF := by
  exact new_wf' input limit detail

/-- Well-formedness (boundary position, stack invariant) is preserved by every program; the input,
the look-ahead mode and the atomicity are the same after the call as before. -/
theorem run_wf (cfg : Cfg) (fuel : Nat) (p : Prog) (s s' : PState) (hwf : s.WF)
    (h : (run cfg fuel p s).state? = some s') :
    s'.WF ∧ s'.input = s.input ∧ s'.lookahead = s.lookahead ∧ s'.atomicity = s.atomicity := by
  have r := run_rel cfg fuel p s s' h
  exact ⟨r.wf hwf, r.input, r.la, r.atom⟩

/-- Snapshot discipline: every program leaves the saved snapshots of the stack exactly as they were
(each combinator that takes a snapshot clears or restores it). -/
theorem run_saved (cfg : Cfg) (fuel : Nat) (p : Prog) (s s' : PState) (hwf : s.WF)
    (h : (run cfg fuel p s).state? = some s') :
    (Stack.abs s'.stack).saved = (Stack.abs s.stack).saved := by
  exact ((run_rel cfg fuel p s s' h).stk hwf.2).2

/-- Tokens already in the queue are never removed or altered by a program, except that the tag of
the very last one may be set (by `tag_node`). -/
theorem run_queue (cfg : Cfg) (fuel : Nat) (p : Prog) (s s' : PState)
    (h : (run cfg fuel p s).state? = some s') :
    s.queue.length ≤ s'.queue.length ∧
    s'.queue.take (s.queue.length - 1) = s.queue.take (s.queue.length - 1) ∧
    (s'.queue.take s.queue.length).map QTok.eraseTag = s.queue.map QTok.eraseTag := by
  have r := run_rel cfg fuel p s s' h
  exact ⟨r.q.length, r.q.take_pred, r.q.take_erase⟩

/-- Inside look-ahead no token is emitted, removed or tagged. -/
theorem run_queue_lookahead (cfg : Cfg) (fuel : Nat) (p : Prog) (s s' : PState)
    (hla : s.lookahead ≠ .none) (h : (run cfg fuel p s).state? = some s') : s'.queue = s.queue := by
  exact (run_rel cfg fuel p s s' h).qla hla

/-- **A failed sequence leaves the position, the emitted tokens and the stack exactly as they were.** -/
theorem sequence_err_restores (cfg : Cfg) (fuel : Nat) (p : Prog) (s s' : PState) (hwf : s.WF)
    (h : run cfg fuel (.sequence p) s = .err s') :
    s'.pos = s.pos ∧ s'.queue = s.queue ∧ stackEq s'.stack s.stack := by
  exact sequence_err_restores' cfg fuel p s s' hwf h

/-- **Any look-ahead, whether it succeeds or fails, leaves position, tokens, stack and the
look-ahead mode exactly as they were.** -/
theorem lookahead_restores (cfg : Cfg) (fuel : Nat) (positive : Bool) (p : Prog) (s s' : PState)
    (hwf : s.WF) (h : (run cfg fuel (.lookahead positive p) s).state? = some s') :
    s'.pos = s.pos ∧ s'.queue = s.queue ∧ stackEq s'.stack s.stack ∧ s'.lookahead = s.lookahead := by
  exact lookahead_restores' cfg fuel positive p s s' hwf h

/-- **A rule that succeeds outside look-ahead and atomic mode emits one balanced start/end pair
around what its body emitted and consumed** (matching indices, start position = position at entry,
end position = position at exit). -/
theorem rule_ok_emits (cfg : Cfg) (fuel : Nat) (r : Nat) (p : Prog) (s s' : PState)
    (hla : s.lookahead = .none) (hat : s.atomicity ≠ .atomic)
    (h : run cfg fuel (.rule r p) s = .ok s') :
    ∃ inner, s'.queue = s.queue ++ [.start (s.queue.length + 1 + inner.length) s.pos] ++ inner ++
      [.end_ s.queue.length r none s'.pos] := by
  exact rule_ok_emits' cfg fuel r p s s' hla hat h

/-- A rule that fails outside look-ahead and atomic mode leaves the token queue as it was. -/
theorem rule_err_truncates (cfg : Cfg) (fuel : Nat) (r : Nat) (p : Prog) (s s' : PState)
    (hla : s.lookahead = .none) (hat : s.atomicity ≠ .atomic)
    (h : run cfg fuel (.rule r p) s = .err s') : s'.queue = s.queue := by
  exact rule_err_truncates' cfg fuel r p s s' hla hat h

/-- In look-ahead or atomic mode a rule adds no token of its own: the queue afterwards is the queue
its body left. -/
theorem rule_silent (cfg : Cfg) (fuel : Nat) (r : Nat) (p : Prog) (s s' : PState)
    (hmode : s.lookahead ≠ .none ∨ s.atomicity = .atomic)
    (h : (run cfg (fuel + 1) (.rule r p) s).state? = some s') :
    s' = s ∨ ∃ s1 ns, s1.queue = s.queue ∧ (run cfg fuel p s1).state? = some ns ∧ s'.queue = ns.queue := by
  exact rule_silent' cfg fuel r p s s' hmode h

/-- `restore_on_err` undoes every stack change of a failed body. -/
theorem restoreOnErr_restores (cfg : Cfg) (fuel : Nat) (p : Prog) (s s' : PState) (hwf : s.WF)
    (h : run cfg fuel (.restoreOnErr p) s = .err s') : stackEq s'.stack s.stack := by
  exact restoreOnErr_restores' cfg fuel p s s' hwf h

/-- `stack_push` pushes exactly the span its body consumed. -/
theorem stackPush_pushes_span (cfg : Cfg) (fuel : Nat) (p : Prog) (s s' : PState)
    (h : run cfg (fuel + 1) (.stackPush p) s = .ok s') :
    ∃ s1 ns str, s1.pos = s.pos ∧ run cfg fuel p s1 = .ok ns ∧ s'.pos = ns.pos ∧
      slice? s'.input s.pos s'.pos = some str ∧ s'.stack.cache = str :: ns.stack.cache := by
  exact stackPush_pushes_span' cfg fuel p s s' h

/-- No program that avoids `stack_peek`/`stack_pop` (documented to panic on an empty stack) can
panic with error detail off: every slice, index, `unwrap`, `unreachable!` and `usize` subtraction of
the modelled code is safe on well-formed states. (With error detail on see C15.) -/
theorem run_no_panic (cfg : Cfg) (fuel : Nat) (p : Prog) (s : PState) (hwf : s.WF)
    (hclosed : cfg.closed p) (hnp : cfg.noPeekPop p) (hdet : s.pa.enabled = false) :
    run cfg fuel p s ≠ .panic := by
  exact run_no_panic' cfg fuel p s hwf hclosed hnp hdet

/-- **The stack readers do not move on failure**: when `PEEK`, `POP`, `PEEK_ALL`, `POP_ALL`, `PEEK[a..b]` or `DROP` fails, the
position is where it was (for `POP_ALL` also when some entries had matched and were popped before the one that did not). -/
theorem stack_readers_err_pos (cfg : Cfg) (fuel : Nat) (p : Prog) (s s' : PState)
    (hp : p = .stackPeek ∨ p = .stackPop ∨ p = .stackMatchPeek ∨ p = .stackMatchPop ∨ p = .stackDrop ∨
      ∃ a b d, p = .stackMatchPeekSlice a b d)
    (h : run cfg (fuel + 1) p s = .err s') : s'.pos = s.pos := by
  rcases hp with rfl | rfl | rfl | rfl | rfl | ⟨a, b, d, rfl⟩
  · simp only [PS.run] at h
    split at h
    · simp at h; subst h; rfl
    · split at h
      · simp at h
      · exact terminal_err_pos _ _ _ _ (fun p hp => posMatchString_false' hp) h
  · simp only [PS.run] at h
    split at h
    · simp at h; subst h; rfl
    · split at h
      · simp at h
      · simp at h
      · have := terminal_err_pos _ _ _ _ (fun p hp => posMatchString_false' hp) h
        simpa using this
  · simp only [PS.run] at h
    split at h
    · simp at h
    · split at h
      · simp at h
      · simp at h
      · simp at h; subst h; rfl
  · simp only [PS.run] at h
    split at h
    · simp at h
    · simp at h
    · simp at h; subst h; rfl
  · simp only [PS.run] at h
    split at h
    · simp at h
    · simp at h
    · simp at h; subst h; rfl
  · simp only [PS.run] at h
    split at h
    · simp at h; subst h; rfl
    · split at h
      · simp at h
      · split at h
        · simp at h
        · simp at h
        · simp at h; subst h; rfl

/-- **`POP_ALL` on success**: the stack is empty and the position has advanced over exactly the texts of the entries, matched one
after the other from the top down (what `PEEK_ALL` matches without popping). -/
theorem stackMatchPop_ok (cfg : Cfg) (fuel : Nat) (s s' : PState) (h : PS.run cfg (fuel + 1) .stackMatchPop s = .ok s') :
    s'.stack.cache = [] ∧ matchAll s.input s.stack.cache s.pos = some (true, s'.pos) := by
  simp only [PS.run] at h
  split at h
  · simp at h
  · rename_i st pos' hm
    simp only [Out.ok.injEq] at h
    subst h
    exact matchPopLoop_ok _ _ _ _ _ _ (by omega) hm
  · simp at h

end PestModel.C03
