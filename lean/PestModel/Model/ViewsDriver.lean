import PestModel.Model.Views
import PestModel.Model.Proto
/-! Driver mode `views`: `W <input-hex> (<tree>*) <op>*`, tree = `(n <rule> <start> <end> <tag-hex|_> <tree>*)`. -/
namespace PestModel.ViewsDriver
open PestModel.Views PestModel.Proto PestModel.LineCol
open PestModel.PS (QTok)

def hexS (s : Str) : String := toHexOrDash (String.ofList s)

partial def treeOf : SExp → Option Tree
  | .list (.atom "n" :: .atom r :: .atom a :: .atom b :: .atom t :: kids) => do
    let r ← r.toNat?
    let a ← a.toNat?
    let b ← b.toNat?
    let tag ← if t = "_" then some none else (hexOrDash t).map fun s => some s.toList
    let ks ← kids.mapM treeOf
    pure (.node r a b tag ks)
  | _ => none

inductive View where
  | pairs (v : Pairs)
  | flat (v : Flat)
  | toks (a b : Nat)

structure M where
  cur : View
  stack : List View

def summary (q : List QTok) (i : Nat) : Option String :=
  match pairRule q i, pairSpan q i with
  | some r, some (a, b) => some s!"r{r}@{a}-{b}"
  | _, _ => none

def showTok : Tok → String
  | .start r p => s!"S{r}@{p}"
  | .stop r p => s!"E{r}@{p}"

/-- `find_first_tagged(tag)`: the pair found, or `_`. -/
def findFirst (q : List QTok) (v : Pairs) (tag : Str) (m : M) : Option (String × M) := do
  match ← v.findFirstTagged q tag with
  | some i => pure ((← summary q i), m)
  | none => pure ("_", m)

/-- `find_tagged(tag)`: all pairs found, in order. -/
def findAll (q : List QTok) (v : Pairs) (tag : Str) (m : M) : Option (String × M) := do
  let is ← v.findTagged q tag
  let ss ← is.mapM (summary q)
  pure ("[" ++ ",".intercalate ss ++ "]", m)

/-- One op: `none` = panic. Returns the observation and the new machine. -/
def stepOp (q : List QTok) (input : Str) (m : M) (op : String) : Option (String × M) :=
  let n := q.length
  match op, m.cur with
  | "n", .pairs v => do
    let (r, v') ← v.next q
    match r with
    | some i => pure ((← summary q i), { m with cur := .pairs v' })
    | none => pure ("_", { m with cur := .pairs v' })
  | "b", .pairs v => do
    let (r, v') ← v.nextBack q
    match r with
    | some i => pure ((← summary q i), { m with cur := .pairs v' })
    | none => pure ("_", { m with cur := .pairs v' })
  | "l", .pairs v => some (toString v.count, m)
  | "p", .pairs v =>
    match v.peek with
    | some i => (summary q i).map fun s => (s, m)
    | none => some ("_", m)
  | "s", .pairs v => (v.asStr q input).map fun s => (hexS s, m)
  | "c", .pairs v => (v.concat q input).map fun s => (hexS s, m)
  | "e", .pairs v => some (if v.count = 0 then "1" else "0", m)
  | "i", .pairs v => do
    let (r, v') ← v.next q
    match r with
    | some i =>
      let inner ← pairInner q i
      pure ((← summary q i), { cur := .pairs inner, stack := .pairs v' :: m.stack })
    | none => pure ("_", { m with cur := .pairs v' })
  | "I", .pairs v => do
    let (r, v') ← v.nextBack q
    match r with
    | some i =>
      let inner ← pairInner q i
      pure ((← summary q i), { cur := .pairs inner, stack := .pairs v' :: m.stack })
    | none => pure ("_", { m with cur := .pairs v' })
  | "g", .pairs v => do
    let (r, v') ← v.next q
    match r with
    | some i =>
      let sg ← pairsSingle q i
      pure ((← summary q i), { cur := .pairs sg, stack := .pairs v' :: m.stack })
    | none => pure ("_", { m with cur := .pairs v' })
  | "x", .pairs v => do
    let (r, v') ← v.next q
    match r with
    | some i =>
      let s ← summary q i
      let tag ← pairTag q i
      let (a, _) ← pairSpan q i
      let lc ← lineIndexLineCol (lineOffsets input) input a
      let str ← pairStr q input i
      let alt ← showPairAlt q (4 * n + 8) i
      pure (s!"{s}:tag={match tag with | some t => hexS t | none => "_"}:lc={lc.1},{lc.2}:str={hexS str}:alt={hexS alt}",
        { m with cur := .pairs v' })
    | none => pure ("_", { m with cur := .pairs v' })
  | "T", .pairs v => do
    let (r, v') ← v.next q
    match r with
    | some i =>
      let (a, b) ← pairTokens q i
      pure ((← summary q i), { cur := .toks a b, stack := .pairs v' :: m.stack })
    | none => pure ("_", { m with cur := .pairs v' })
  | "F0", .pairs v => findFirst q v "t".toList m
  | "F1", .pairs v => findFirst q v "tag".toList m
  | "F2", .pairs v => findFirst q v "é".toList m
  | "W0", .pairs v => findAll q v "t".toList m
  | "W1", .pairs v => findAll q v "tag".toList m
  | "W2", .pairs v => findAll q v "é".toList m
  | "f", .pairs v => some ("f", { cur := .flat ⟨v.start, v.stop⟩, stack := m.cur :: m.stack })
  | "t", .pairs v => some ("t", { cur := .toks v.start v.stop, stack := m.cur :: m.stack })
  | "t", .flat v => some ("t", { cur := .toks v.start v.stop, stack := m.cur :: m.stack })
  | "D", .pairs v => (v.display q input).map fun s => (hexS s, m)
  | "A", .pairs v => (v.displayAlt q).map fun s => (hexS s, m)
  | "G", .pairs v => (v.debug q input).map fun s => (hexS s, m)
  | "J", .pairs v => (v.json q input).map fun s => (hexS s, m)
  | "n", .flat v => do
    let (r, v') ← v.next q
    match r with
    | some i => pure ((← summary q i), { m with cur := .flat v' })
    | none => pure ("_", { m with cur := .flat v' })
  | "b", .flat v => do
    let (r, v') ← v.nextBack q
    match r with
    | some i => pure ((← summary q i), { m with cur := .flat v' })
    | none => pure ("_", { m with cur := .flat v' })
  | "k", .flat v => do
    let n ← v.len q
    let is ← flatAll q (v.stop - v.start + 1) v
    let ss ← is.mapM (summary q)
    pure (s!"{n}:[" ++ ",".intercalate ss ++ "]", m)
  | "l", .flat v => (v.len q).map fun k => (toString k, m)
  | "n", .toks a b =>
    if a ≥ b then some ("_", m) else (createToken q a).map fun t => (showTok t, { m with cur := .toks (a + 1) b })
  | "b", .toks a b =>
    if b ≤ a then some ("_", m) else (createToken q (b - 1)).map fun t => (showTok t, { m with cur := .toks a (b - 1) })
  | "l", .toks a b => if b < a then none else some (toString (b - a), m)
  | "u", _ =>
    match m.stack with
    | v :: rest => some ("u", { cur := v, stack := rest })
    | [] => some ("-", m)
  | _, _ => some ("-", m)

def runOps (q : List QTok) (input : Str) : M → List String → List String → List String
  | _, [], acc => acc.reverse
  | m, op :: ops, acc =>
    match stepOp q input m op with
    | some (o, m') => runOps q input m' ops (o :: acc)
    | none => ("panic" :: acc).reverse

def runLine (line : String) : String :=
  match sexpTokens line with
  | "W" :: inh :: rest =>
    match (hexOrDash inh).map (·.toList), sexpParse rest with
    | some input, some (.list ts :: ops) =>
      match ts.mapM treeOf, ops.mapM (fun | SExp.atom a => some a | _ => none) with
      | some forest, some ops =>
        let q := build forest
        match Pairs.new q 0 q.length with
        | some v => " ".intercalate (runOps q input { cur := .pairs v, stack := [] } ops [])
        | none => "panic"
      | _, _ => "bad-op"
    | _, _ => "bad-op"
  | _ => "bad-op"

end PestModel.ViewsDriver
