import PestModel.Model.StackSpec
/-! # C11 — placeholder until the refinement proofs land (statements: see DESIGN.md §6 C11). -/
namespace PestModel.C11
open PestModel.Stack

/-- Non-vacuity / smoke: the model computes on a concrete nested history. -/
theorem smoke :
    (run (Stk.new : Stk Nat) [.push 1, .snapshot, .pop, .push 2, .restore, .peek]).map (·.2) =
      some [.unit, .unit, .val (some 1), .unit, .unit, .val (some 1)] := by decide

end PestModel.C11
