"""C09 — the grammar front-end is total: any text yields rules or located errors."""
from props.common import *
import binascii

MODULE = ["PestModel.Thm.C09", "PestModel.Thm.Capstone"]
DRV = "drv_front"
DEEP_ID = "C09-deep-nesting-stack-overflow"


def max_nesting(text):
    d = m = run = 0
    for ch in text:
        if ch in "([{":
            d += 1; m = max(m, d)
        elif ch in ")]}":
            d = max(0, d - 1)
        if ch in "!&":
            run += 1; m = max(m, run)
        elif not ch.isspace():
            run = 0
    return m


COMMENT_ID = "C09-unclosed-nested-comments-exponential"


def classify(ctx, kind, t):
    """ABORT (native stack overflow) on texts nested deeper than 500 levels is the recorded finding; so is a TIMEOUT on a text
    with many unclosed `/*` (the meta-grammar's block_comment rule re-scans the rest once per opener)."""
    i, op, imp, verdict = t
    if kind != "oracle" or ("ABORT" not in imp and "TIMEOUT" not in imp):
        return None
    try:
        text = binascii.unhexlify(op.split()[1]).decode(errors="replace")
    except Exception:
        return None
    if "TIMEOUT" in imp:
        if text.count("/*") - text.count("*/") >= 15 and ctx.match_known(lambda k: k["id"] == COMMENT_ID):
            return {"id": COMMENT_ID, "what": "the meta-grammar's block_comment = _{ \"/*\" ~ (block_comment | !\"*/\" ~ ANY)* ~ \"*/\" } takes time exponential in the number of unclosed `/*` openers (each is first tried as a nested comment, which scans to the end and fails, then re-scanned as text): a = { \"x\" } followed by 22 times `/* ` takes 16 s, 40 times does not finish; the result is the correct located error"}
        return None
    if max_nesting(text) > 500 and ctx.match_known(lambda k: k["id"] == DEEP_ID):
        return {"id": DEEP_ID, "what": "the recursive-descent front-end (generated meta-parser, consume_expr, validator, optimizer) overflows the native stack and aborts on expressions nested a few thousand levels deep, e.g. a = { (((…\"x\"…))) } with 3000 parentheses"}
    return None


def run(ctx):
    simple_property(
        ctx, MODULE, DRV, None,
        oracle_kind="the grammar front-end panicked, aborted, timed out, or returned an error without a location inside the text / that cannot be rendered",
        corr_kind="(no model column: outcomes are judged by the oracle)",
        rule="seeded mutations (deletions, insertions of delimiters/operators/escapes/non-ASCII, replacements, truncations, swaps, numeric edge values such as {4294967296} and PEEK[2147483648..], non-scalar \\u{…} escapes, bursts of opening parentheses, invalid rule snippets) of 12 real grammars and their rule-sized parts, run through pest_meta::parse_and_optimize and pest_generator::docs::consume in child processes (30 s per 1000 texts; a crash or time-out is an observation attributed to the text that caused it); plus the corpus (deep nesting); non-trivial = texts that reach a verdict (rules or errors)",
        nontrivial_key="distinct_nontrivial",
        assumptions=[
            "totality of the Rust front-end is sampled, not proved (DESIGN §6 C09: partial); the theorem side covers the modelled panic sites only",
            "repetition counts are kept bounded as the property states; nesting depth beyond ~500 is the recorded known finding (native stack)",
        ],
        classify=classify,
    )


    # the reader models on a sample of the same texts: what parse + consume_rules return (rules / located error / panic)
    # against ReaderP (the model frontend_no_panic is about) and ReaderFull, `R` lines of the C07 driver
    d = os.path.join(ctx.rundir, "gen")
    ops = read_lines(os.path.join(d, "ops.txt")) if os.path.exists(os.path.join(d, "ops.txt")) else []
    short = [o.split()[1] for o in ops if o.startswith("F ") and len(o.split()) == 2 and 2 <= len(o.split()[1]) <= 2 * 140]
    step = max(1, len(short) // (4000 if ctx.tier == "thorough" else 600))
    sample = short[::step]
    ok, out, bindir, _ = cargo_build("default", ["drv_read"])
    if not ok:
        ctx.violation({"obligation": "harness does not build against /repo", "log": out[-2000:]}, no_input=True)
        return
    rd = os.path.join(ctx.rundir, "reader"); os.makedirs(rd, exist_ok=True)
    opsf = os.path.join(rd, "r_ops.txt")
    open(opsf, "w").write("\n".join("R " + h for h in sample) + "\n")
    c = correspond("reader", os.path.join(bindir, "drv_read"), ["run", opsf], "read", os.path.join(rd, "out"))
    classes = {}
    if c.error:
        ctx.violation({"correspondence": c.name, "error": c.error}, no_input=True)
    else:
        imp = read_lines(os.path.join(rd, "out", "impl.txt"))
        for x in imp:
            k = x.split(" ")[0]; classes[k] = classes.get(k, 0) + 1
        pan = [(i, op, im, mo) for (i, op, im, mo) in c.mismatch if im.startswith("panic")]
        if pan:
            i, op, im, mo = min(pan, key=lambda t: len(t[1]))
            ctx.violation({"kind": "pest_meta::parser::parse + consume_rules panicked on a text", "leg": "reader", "case": op, "impl": im, "model": mo})
        elif c.mismatch:
            i, op, im, mo = min(c.mismatch, key=lambda t: len(t[1]))
            ctx.violation({"kind": "correspondence `R` (what the real reader returns for a text vs the reader models ReaderP / ReaderFull) no longer checks", "leg": "reader",
                           "case": op, "impl": im[:1500], "model": mo[:1500], "mismatches_in_run": len(c.mismatch)}, no_input=True)
    # the whole pipeline (parse, validate_pairs, consume_rules, validate_ast, optimize): `rules n` / `errors n` of the real
    # parse_and_optimize against PestModel.Pipeline.parseAndOptimize on the same sample (F lines through the read mode)
    pf = os.path.join(rd, "f_ops.txt")
    open(pf, "w").write("\n".join("F " + h for h in sample) + "\n")
    okb, outb, bindir2, _ = cargo_build("default", [DRV])
    cp = correspond("pipeline", os.path.join(bindir2, DRV), ["run", pf], "read", os.path.join(rd, "pipe")) if okb else None
    pipe_stats = {}
    if cp is None or cp.error:
        ctx.violation({"correspondence": "pipeline", "error": (cp.error if cp else outb[-1500:])}, no_input=True)
    else:
        real = [t for t in cp.mismatch if not t[3].startswith("stuck") and not t[2].startswith(("TIMEOUT", "ABORT"))]
        pipe_stats = {"texts": cp.n, "mismatches": len(real)}
        if real:
            i, op, im, mo = min(real, key=lambda t: len(t[1]))
            ctx.violation({"kind": "correspondence `F` (rules / number of errors returned by the real parse_and_optimize vs the pipeline model PestModel.Pipeline) no longer checks", "leg": "pipeline",
                           "case": op, "impl": im[:600], "model": mo[:600], "mismatches_in_run": len(real)}, no_input=not im.startswith("PANIC"))
    ev_path = os.path.join(EVIDENCE, f"{ctx.prop}.json")
    ev = json.load(open(ev_path))
    ev["coverage"]["distribution"] = dict(ev["coverage"].get("distribution", {}), pipeline_model=pipe_stats)
    json.dump(ev, open(ev_path, "w"), indent=1)
    ev["coverage"]["distribution"] = dict(ev["coverage"].get("distribution", {}), reader_models={"texts": len(sample), "real_reader_outcomes": classes, "mismatches": len(c.mismatch) if not c.error else None})
    ev["coverage"]["traces_validated_against_impl"] = ev["coverage"].get("traces_validated_against_impl", 0) + len(sample)
    ev["violations"] = len(ctx.violations)
    ev["wall_s"] = round(time.time() - ctx.t0, 2)
    json.dump(ev, open(ev_path, "w"), indent=1)


def replay(ctx, path):
    r = json.load(open(path))
    if r.get("leg") == "reader":
        return replay_generic(ctx, path, "drv_read", "read")
    if r.get("leg") == "pipeline":
        return replay_generic(ctx, path, DRV, "read")
    return replay_generic(ctx, path, DRV, None)
