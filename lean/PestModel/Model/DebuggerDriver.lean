import PestModel.Model.Debugger
import PestModel.Model.Proto
/-! Driver mode `dbg`: resolves a bit string into a concrete schedule of the protocol model and
predicts what the real threads will show when forced along it.
`G cap=<n> ok=<0|1> aborts=<n:o|e|p,…|-> entries=<r@p,…|-> bps=<r,…|-> cmds=<run,cont,recv,add<r>,del<r>,…> bits=<01…|->` -/
namespace PestModel.DbgDriver
open PestModel.Dbg PestModel.Proto

def kv (w : String) : Option (String × String) :=
  match w.splitOn "=" with
  | [k, v] => some (k, v)
  | _ => none

def listOf (v : String) : List String := if v = "-" ∨ v = "" then [] else v.splitOn ","

def parseCmd (w : String) : Option Cmd :=
  match w with
  | "run" => some .run
  | "cont" => some .cont
  | "recv" => some .recv
  | "clr" => some .clear
  | _ =>
    if w.startsWith "add" then (w.drop 3).toString.toNat?.map .add
    else if w.startsWith "del" then (w.drop 3).toString.toNat?.map .del
    else none

def showEv : Event → String
  | .breakpoint r p => s!"B{r}@{p}"
  | .eof => "eof"
  | .error => "error"

def parserLabel : PPc → Option String
  | .checkDone _ => some "parser.check_done"
  | .lockBps _ => some "parser.lock_bps"
  | .send _ => some "parser.send"
  | .park _ => some "parser.park"
  | .abortCheck _ _ => some "parser.check_done"
  | .checkCancel _ => some "parser.check_cancel"
  | .finishSend _ => some "parser.finish_send"
  | .setDone => some "parser.set_done"
  | .exited _ => none

/-- label of the controller step about to be taken (`none` for the two unobservable steps of `run`). -/
def controllerLabel (s : State) : Option String :=
  match s.cpc with
  | .idle =>
    match s.todo with
    | .run :: _ => some "cmd.run"
    | .cont :: _ => some "cmd.cont"
    | .recv :: _ => some "cmd.recv"
    | .add _ :: _ => some "cmd.add"
    | .del _ :: _ => some "cmd.del"
    | .clear :: _ => some "cmd.del"
    | [] => none
  | .runLoadDone => some "run.load_done"
  | .runStoreDone => some "run.store_done"
  | .runUnpark => some "run.unpark"
  | .runJoin => some "run.join"
  | .contLoadDone => some "cont.load_done"
  | .contUnpark => some "cont.unpark"
  | .runStoreFalse | .runSpawn => none

/-- the parser thread is at a `send` that would block. std's channel parks the sending thread while it
waits, which uses the same park token as the debugger's own `thread::park()`: what a run does after
such a state depends on the runtime and is outside the model (trusted base). -/
def sendBlocked (s : State) : Bool :=
  match s.cur with
  | some t => (match t.pc with | .send _ | .finishSend _ => t.chan.length ≥ s.cap | _ => false)
  | none => false

/-- In the real code the listener is only entered for a rule entry, and a parked thread waits at
the point before `park()`: the model's `park` step is "park returns". The Bool result says whether
a would-block `send` was seen. -/
def run : Nat → State → List Bool → List String → Bool → List String × State × Bool
  | 0, s, _, tr, fl => (tr.reverse, s, fl || sendBlocked s)
  | fuel + 1, s, bits, tr, fl =>
    let fl := fl || sendBlocked s
    -- the two unobservable controller steps run to completion immediately
    if s.cpc = .runStoreFalse ∨ s.cpc = .runSpawn then
      match controllerStep s with
      | some s' => run fuel s' bits tr fl
      | none => (tr.reverse, s, fl)
    else
    let c := controllerStep s
    let p := parserStep s
    let plabel := match s.cur with | some t => (parserLabel t.pc).getD "?" | none => "?"
    match c, p with
    | none, none => (tr.reverse, s, fl)
    | some s', none => run fuel s' bits (((controllerLabel s).getD "?") :: tr) fl
    | none, some s' => run fuel s' bits (plabel :: tr) fl
    | some sc, some sp =>
      let (pickP, bits') := match bits with | b :: rest => (b, rest) | [] => (false, [])
      if pickP then run fuel sp bits' (plabel :: tr) fl
      else run fuel sc bits' (((controllerLabel s).getD "?") :: tr) fl

/-- the parser thread on its own, as far as it gets. -/
def parserOnly : Nat → State → State
  | 0, s => s
  | fuel + 1, s => match parserStep s with | some s' => parserOnly fuel s' | none => s

/-- what the harness does once every command has returned: it empties the channel (which lets a
sender blocked on the full channel go on) until nothing more arrives. -/
def drain : Nat → State → List Event → List Event × State
  | 0, s, acc => (acc, s)
  | fuel + 1, s, acc =>
    match s.cur with
    | some t =>
      if t.chan.isEmpty then (acc, s)
      else drain fuel (parserOnly 1000 { s with cur := some { t with chan := [] } }) (acc ++ t.chan)
    | none => (acc, s)

def runLine (line : String) : String :=
  let ws := words line
  match ws with
  | "G" :: rest =>
    let m := rest.filterMap kv
    let get := fun k => (m.find? (·.1 = k)).map (·.2)
    match get "cap", get "ok", get "aborts", get "entries", get "bps", get "cmds", get "bits" with
    | some cap, some ok, some ab, some en, some bp, some cm, some bi =>
      let entries := (listOf en).filterMap fun e => match e.splitOn "@" with | [r, p] => (match r.toNat?, p.toNat? with | some r, some p => some (r, p) | _, _ => none) | _ => none
      let bps := (listOf bp).filterMap (·.toNat?)
      match (listOf cm).mapM parseCmd, cap.toNat? with
      | some cmds, some capN =>
        let bits : List Bool := if bi = "-" then [] else bi.toList.map (fun c => c == '1')
        let aborts := (listOf ab).filterMap fun e => match e.splitOn ":" with
          | [n, o] => (match n.toNat? with | some n => some (n, if o = "o" then Outcome.ok else if o = "p" then .panic else .err) | none => none)
          | _ => none
        let s0 := State.init entries (ok = "1") aborts capN bps cmds
        let (tr, s, unstable) := run 10000 s0 bits [] false
        let endState :=
          if s.todo.isEmpty ∧ s.cpc = .idle then "quiescent"
          else "blocked:" ++ (controllerLabel s).getD "?"
        let (leftover, s) := if endState = "quiescent" then drain 100 s [] else ([], s)
        -- the action the parser thread is blocked in (it has passed the label and waits inside the call)
        let after := match s.cur with | some t => (parserLabel t.pc).getD "" | none => ""
        let left := if endState = "quiescent" then ",".intercalate (leftover.map showEv) else "?"
        if unstable then s!"unstable trace={",".intercalate tr}" else
        s!"trace={",".intercalate tr} after={after} recv={",".intercalate (s.recvLog.map fun | .ev e => showEv e | .closed => "closed" | .norun => "norun")} left={left} rets={",".intercalate s.rets} end={endState}"
      | _, _ => "bad-op"
    | _, _, _, _, _, _, _ => "bad-op"
  | _ => "bad-op"

end PestModel.DbgDriver
