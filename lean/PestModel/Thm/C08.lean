import PestModel.Model.RefTrace
import PestModel.Thm.C01
import PestModel.Lemmas.Track
import PestModel.Lemmas.TrackMain
import PestModel.Lemmas.TracePos
/-!
# C08 — failure reports point at the furthest failure with sound expectations

`RefTrace` instruments the reference semantics with the tree of rule calls; `specReport` is the
property's statement as a function of that tree. The first group of theorems says that `specReport`
has the properties the statement asks for (furthest position; every listed rule really was tried there
and failed, resp. matched under negation). `track_eq_spec` says that the VM model — `ParserState::track`,
`rule`, the look-ahead flags, the `sort`/`dedup` epilogue — reports exactly `specReport`.
-/
namespace PestModel.C08
open PestModel.RefTrace PestModel.G PestModel.Ref PestModel.PS
open PestModel.LineCol (Str)

theorem smoke : specReport [.node 1 0 false false true [.node 2 0 false false true [], .node 3 0 false false true []]]
    = (0, [1], []) := by decide

/-- all calls of a forest of call trees (pre-order). -/
def allCalls : List Call → List Call
  | [] => []
  | .node r p m n rep kids :: cs => .node r p m n rep kids :: (allCalls kids ++ allCalls cs)
termination_by cs => sizeOf cs
decreasing_by all_goals simp_wf <;> omega


/-! ### helper lemmas on `allCalls` -/

theorem allCalls_nil : allCalls [] = [] := by rw [allCalls]

theorem allCalls_cons (r p : Nat) (m n rep : Bool) (kids cs : List Call) :
    allCalls (.node r p m n rep kids :: cs) = .node r p m n rep kids :: (allCalls kids ++ allCalls cs) := by
  rw [allCalls]

/-- start position of a call. -/
def callPos : Call → Nat
  | .node _ pos _ _ _ _ => pos

theorem callPos_eq (c : Call) : (match c with | .node _ pos _ _ _ _ => pos) = callPos c := by
  cases c; rfl

theorem furthest_ge : ∀ (calls : List Call) (c : Call), c ∈ allCalls calls → isAttempt c = true →
    callPos c ≤ furthestList calls := by
  refine PestModel.Track.forest_ind ?_ ?_
  · intro c hc; rw [allCalls_nil] at hc; cases hc
  · intro r p m n rep kids cs ihk ihc c hc ha
    rw [allCalls_cons] at hc
    rw [PestModel.Track.furthestList_cons, PestModel.Track.furthest_node]
    simp only [List.mem_cons, List.mem_append] at hc
    rcases hc with rfl | hc | hc
    · rw [if_pos ha]; simp only [callPos]; omega
    · have := ihk c hc ha; omega
    · have := ihc c hc ha; omega

theorem furthest_attained : ∀ (calls : List Call), furthestList calls = 0 ∨
    ∃ c ∈ allCalls calls, isAttempt c = true ∧ callPos c = furthestList calls := by
  refine PestModel.Track.forest_ind ?_ ?_
  · left; exact PestModel.Track.furthestList_nil
  · intro r p m n rep kids cs ihk ihc
    rw [PestModel.Track.furthestList_cons, PestModel.Track.furthest_node, allCalls_cons]
    by_cases h0 : max (max (if isAttempt (.node r p m n rep kids) = true then p else 0) (furthestList kids))
        (furthestList cs) = 0
    · left; exact h0
    · right
      by_cases h1 : furthestList cs = max (max (if isAttempt (.node r p m n rep kids) = true then p else 0)
          (furthestList kids)) (furthestList cs)
      · rcases ihc with h | ⟨c, hc, ha, hp⟩
        · omega
        · exact ⟨c, by simp [hc], ha, by rw [hp]; exact h1⟩
      · by_cases h2 : furthestList kids = max (max (if isAttempt (.node r p m n rep kids) = true then p else 0)
            (furthestList kids)) (furthestList cs)
        · rcases ihk with h | ⟨c, hc, ha, hp⟩
          · omega
          · exact ⟨c, by simp [hc], ha, by rw [hp]; exact h2⟩
        · by_cases ha : isAttempt (.node r p m n rep kids) = true
          · refine ⟨.node r p m n rep kids, by simp, ha, ?_⟩
            rw [if_pos ha] at h1 h2 ⊢
            simp only [callPos]; omega
          · rw [if_neg ha] at h1 h2; omega

theorem surviving_sound (P : Nat) : ∀ (calls : List Call) (r : Nat) (neg : Bool),
    (r, neg) ∈ survivingList P calls → ∃ kids, Call.node r P neg neg true kids ∈ allCalls calls := by
  refine PestModel.Track.forest_ind ?_ ?_
  · intro r neg h; rw [PestModel.Track.survivingList_nil] at h; cases h
  · intro r0 p m n rep kids cs ihk ihc r neg h
    rw [PestModel.Track.survivingList_cons, PestModel.Track.surviving_node] at h
    rw [allCalls_cons]
    have inK : (r, neg) ∈ survivingList P kids → ∃ k, Call.node r P neg neg true k ∈
        Call.node r0 p m n rep kids :: (allCalls kids ++ allCalls cs) := fun hk => by
      obtain ⟨k, hk⟩ := ihk r neg hk
      exact ⟨k, by simp [hk]⟩
    rcases List.mem_append.1 h with h | h
    · split at h
      · rename_i hc
        split at h
        · exact inK h
        · simp only [List.mem_singleton, Prod.mk.injEq] at h
          obtain ⟨rfl, rfl⟩ := h
          simp only [Bool.and_eq_true, beq_iff_eq] at hc
          obtain ⟨ha, rfl⟩ := hc
          refine ⟨kids, ?_⟩
          have : m = neg ∧ rep = true := by
            simp only [isAttempt, Bool.and_eq_true, Bool.or_eq_true, Bool.not_eq_true'] at ha
            obtain ⟨h1, h2⟩ := ha
            refine ⟨?_, h1⟩
            rcases h2 with ⟨a, b⟩ | ⟨a, b⟩ <;> simp [a, b]
          obtain ⟨rfl, rfl⟩ := this
          simp
      · exact inK h
    · obtain ⟨k, hk⟩ := ihc r neg h
      exact ⟨k, by simp [hk]⟩

/-- **Furthest**: no reported attempt lies beyond the reported position … -/
theorem spec_position_furthest (calls : List Call) (c : Call) (hc : c ∈ allCalls calls) (ha : isAttempt c = true) :
    (match c with | .node _ pos _ _ _ _ => pos) ≤ (specReport calls).1 := by
  have := furthest_ge calls c hc ha
  cases c
  exact this

/-- … and the reported position is one where an attempt was made (if any attempt was made at all). -/
theorem spec_position_attained (calls : List Call) (h : ∃ c ∈ allCalls calls, isAttempt c = true) :
    ∃ c ∈ allCalls calls, isAttempt c = true ∧ (match c with | .node _ pos _ _ _ _ => pos) = (specReport calls).1 := by
  show ∃ c ∈ allCalls calls, isAttempt c = true ∧ (match c with | .node _ pos _ _ _ _ => pos) = furthestList calls
  rcases furthest_attained calls with h0 | ⟨c, hc, ha, hp⟩
  · obtain ⟨c, hc, ha⟩ := h
    refine ⟨c, hc, ha, ?_⟩
    have := furthest_ge calls c hc ha
    rw [callPos_eq]; omega
  · exact ⟨c, hc, ha, by rw [callPos_eq]; exact hp⟩

/-- **Sound expectations**: every expected rule was tried at the reported position and failed there
outside negation; every unexpected rule matched there under negation. -/
theorem spec_expected_sound (calls : List Call) (r : Nat) (hr : r ∈ (specReport calls).2.1) :
    ∃ kids, Call.node r (specReport calls).1 false false true kids ∈ allCalls calls := by
  simp only [specReport, List.mem_map, List.mem_filter] at hr
  obtain ⟨⟨r', neg⟩, ⟨hm, hn⟩, rfl⟩ := hr
  simp only [Bool.not_eq_true'] at hn
  subst hn
  exact surviving_sound _ calls r' false hm

theorem spec_unexpected_sound (calls : List Call) (r : Nat) (hr : r ∈ (specReport calls).2.2) :
    ∃ kids, Call.node r (specReport calls).1 true true true kids ∈ allCalls calls := by
  simp only [specReport, List.mem_map, List.mem_filter] at hr
  obtain ⟨⟨r', neg⟩, ⟨hm, hn⟩, rfl⟩ := hr
  simp only at hn
  subst hn
  exact surviving_sound _ calls r' true hm

/-- **The VM reports the specified triple** (full statement, under the side conditions of C01's refinement theorem). -/
def TrackEqSpecStmt : Prop :=
  ∀ (extras : Bool) (rs : List ORule) (_hopt : PestModel.C01.Optimized extras rs)
    (_htag : PestModel.VmRef.TagRules extras rs) (_hsize : rs.length ≤ 333333333)
    (uni : String → Option CharSet) (memchr detail : Bool) (fuel : Nat) (name : String) (input : Str) (st : PState),
    PestModel.C01.vmParse rs uni memchr detail fuel name input = .err st →
    ∃ f calls, traceMeaning (ofOptimizedRules rs) extras uni f name input = (.fail, calls) ∧
      st.attemptPos = (specReport calls).1 ∧
      sortDedup st.posAtt = sortDedup (specReport calls).2.1 ∧
      sortDedup st.negAtt = sortDedup (specReport calls).2.2

/-- the exact form: the VM's three bookkeeping fields ARE the specified triple (before `sort`/`dedup`),
for the trace of the instrumented reference at some fuel. -/
theorem track_eq_spec_exact (extras : Bool) (rs : List ORule) (hopt : PestModel.C01.Optimized extras rs)
    (htag : PestModel.VmRef.TagRules extras rs) (hsize : rs.length ≤ 333333333)
    (uni : String → Option CharSet) (memchr detail : Bool) (fuel : Nat) (name : String) (input : Str)
    (st : PState) (h : PestModel.C01.vmParse rs uni memchr detail fuel name input = .err st) :
    ∃ f calls, traceMeaning (ofOptimizedRules rs) extras uni f name input = (.fail, calls) ∧
      (st.attemptPos, st.posAtt, st.negAtt) = specReport calls := by
  have htx : ∀ r ∈ rs, PestModel.VmRef.tagsExtras extras r.expr := fun r hr =>
    PestModel.VmRef.tagsExtras_of_tagOK (htag r hr .nonAtomic (.entry r.name))
  have hgood := PestModel.VmRef.goodRules_of_optimized extras rs hopt htx
  obtain ⟨f, calls, hc, ha⟩ := PestModel.Track.track_top { rules := rs, uni } extras memchr detail input
    hsize hgood htag fuel name st h
  refine ⟨f, calls, hc, ?_⟩
  have := ha.trans (PestModel.Track.stepAtt_init calls)
  exact this

theorem track_eq_spec : TrackEqSpecStmt := by
  intro extras rs hopt htag hsize uni memchr detail fuel name input st h
  obtain ⟨f, calls, hc, ha⟩ := track_eq_spec_exact extras rs hopt htag hsize uni memchr detail fuel name
    input st h
  refine ⟨f, calls, hc, ?_⟩
  have h1 : st.attemptPos = (specReport calls).1 := congrArg Prod.fst ha
  have h2 : st.posAtt = (specReport calls).2.1 := congrArg (fun x => x.2.1) ha
  have h3 : st.negAtt = (specReport calls).2.2 := congrArg (fun x => x.2.2) ha
  exact ⟨h1, by rw [h2], by rw [h3]⟩

/-- **The specified report points inside the text**: for every rule set, start rule and input the position of `specReport` is a
UTF-8 boundary of the input (all rule calls of the reference semantics are made at boundaries, `RefTrace.ih_all`). -/
theorem spec_position_inside (rules : List Rule) (extras : Bool) (uni : String → Option CharSet) (fuel : Nat)
    (rule : String) (input : Str) :
    PestModel.LineCol.isBoundary input (specReport (traceMeaning rules extras uni fuel rule input).2).1 = true :=
  specReport_pos_boundary rules extras uni fuel rule input

/-- **… and so does the VM's**: the error position of a failed parse is a UTF-8 boundary inside the input (so the error can be
located and rendered, C10 `render_total_pos`). -/
theorem error_position_inside (extras : Bool) (rs : List ORule) (hopt : PestModel.C01.Optimized extras rs)
    (htag : PestModel.VmRef.TagRules extras rs) (hsize : rs.length ≤ 333333333)
    (uni : String → Option CharSet) (memchr detail : Bool) (fuel : Nat) (name : String) (input : Str)
    (st : PState) (h : PestModel.C01.vmParse rs uni memchr detail fuel name input = .err st) :
    PestModel.LineCol.isBoundary input st.attemptPos = true := by
  obtain ⟨f, calls, hc, hp, -, -⟩ := track_eq_spec extras rs hopt htag hsize uni memchr detail fuel name input st h
  have := spec_position_inside (ofOptimizedRules rs) extras uni f name input
  rw [hc] at this
  rw [hp]
  exact this

end PestModel.C08
