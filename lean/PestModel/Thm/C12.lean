import PestModel.Model.PStateSpec
import PestModel.Lemmas.PStateLimit
/-!
# C12 — a call limit never changes a result silently

Property theorems only; helper lemmas in `PestModel/Lemmas/PStateLimit*.lean`.
`finish` is the epilogue of `pest::state` (after the fix: the limit is reported on the `Ok` path too).
-/
namespace PestModel.C12
open PestModel.PS

/-- The call counter only grows, the limit never changes, and a reached limit stays reached. -/
theorem calls_monotone (cfg : Cfg) (fuel : Nat) (p : Prog) (s s' : PState)
    (h : (run cfg fuel p s).state? = some s') :
    (s.calls = none → s'.calls = none) ∧
    (∀ c n, s.calls = some (c, n) → ∃ c', s'.calls = some (c', n) ∧ c ≤ c') :=
  run_callsMono cfg fuel p s s' h

/-- (consequence of `calls_monotone`) a reached limit stays reached. -/
theorem reached_stays (cfg : Cfg) (fuel : Nat) (p : Prog) (s s' : PState)
    (h : (run cfg fuel p s).state? = some s') (hr : reachedCallLimit s = true) :
    reachedCallLimit s' = true :=
  (run_callsMono cfg fuel p s s' h).reached hr

/-- If the limit is not reached at the end, no call was refused, and the run is — state for state,
apart from the counter — the run without a limit. -/
theorem no_refusal_simulates (cfg : Cfg) (fuel : Nat) (p : Prog) (s s' : PState)
    (h : (run cfg fuel p s).state? = some s') (hnr : reachedCallLimit s' = false) :
    (run cfg fuel p s).mapState PState.eraseCalls = run cfg fuel p s.eraseCalls := by
  have := run_relim cfg none fuel p s s' h hnr (fun m' hm => by simp at hm)
  rw [relim_none_eq] at this
  exact this.symm

/-
RESTATED.  The original statement

    theorem limit_transparent (cfg : Cfg) (fuel : Nat) (p : Prog) (s : PState) :
        (∃ pos, finish (run cfg fuel p s) = some (.callLimit pos)) ∨
        finish (run cfg fuel p s) = finish (run cfg fuel p s.eraseCalls)

is FALSE for runs of the model that do not complete (`panic` / out of fuel): after a refused call the
limited run takes a different branch, on which it may panic or run out of fuel although the
unlimited run completes.  Counterexamples (`cfg := { memchr := false, env := [] }`,
`s := PState.new [] (some 1) false`, a well-formed initial state with limit 1):

  * out of fuel, closed program, `fuel := 4`:
      `p := .orElse (.sequence (.sequence .ok)) (.andThen .ok (.andThen .ok (.andThen .ok .ok)))`
      `finish (run cfg 4 p s) = none`  but  `finish (run cfg 4 p s.eraseCalls) = some (.success [])`
      (with `fuel := 5` the limited run reports `some (.callLimit 0)`);
  * panic, `fuel := 10`: `p := .orElse (.sequence (.sequence .ok)) (.call 0)`
      `finish (run cfg 10 p s) = none`  but  `finish (run cfg 10 p s.eraseCalls) = some (.success [])`.

The honest statement is about completed limited runs (every real parse: Rust has no fuel, and a
panic is not a result).
-/
/-- **With any call limit, a parse that completes reports either the call-limit error or exactly
what it reports without a limit.** -/
theorem limit_transparent (cfg : Cfg) (fuel : Nat) (p : Prog) (s s' : PState)
    (hc : (run cfg fuel p s).state? = some s') :
    (∃ pos, finish (run cfg fuel p s) = some (.callLimit pos)) ∨
    finish (run cfg fuel p s) = finish (run cfg fuel p s.eraseCalls) := by
  cases hr : reachedCallLimit s' with
  | true => exact Or.inl ⟨_, finish_reached hc hr⟩
  | false =>
    right
    rw [← no_refusal_simulates cfg fuel p s s' hc hr, ← relim_none_eq]
    exact (finish_relim hc hr (fun m' hm => by simp at hm)).symm

/-- the same, without mentioning the final state: a limited run reports nothing at all (model
`panic`/out of fuel), the call-limit error, or exactly the report of the unlimited run. -/
theorem limit_transparent' (cfg : Cfg) (fuel : Nat) (p : Prog) (s : PState) :
    finish (run cfg fuel p s) = none ∨
    (∃ pos, finish (run cfg fuel p s) = some (.callLimit pos)) ∨
    finish (run cfg fuel p s) = finish (run cfg fuel p s.eraseCalls) := by
  cases hs : (run cfg fuel p s).state? with
  | some s' => exact Or.inr (limit_transparent cfg fuel p s s' hs)
  | none =>
    left
    cases ho : run cfg fuel p s <;> rw [ho] at hs <;> simp [Out.state?] at hs <;> rfl

/-- **A parse that completes under a limit completes identically under every larger limit.** -/
theorem limit_monotone (cfg : Cfg) (fuel : Nat) (p : Prog) (s : PState) (c n m : Nat)
    (hs : s.calls = some (c, n)) (hnm : n ≤ m) (rep : Report)
    (h : finish (run cfg fuel p s) = some rep) (hnl : ∀ pos, rep ≠ .callLimit pos) :
    finish (run cfg fuel p { s with calls := some (c, m) }) = some rep := by
  obtain ⟨s', hc, hnr⟩ := finish_not_limit h hnl
  have hok : LimOK (some m) s := by
    intro m' hm c' n' h0
    rw [hs] at h0; simp at hm h0; omega
  have e : relim (some m) s = { s with calls := some (c, m) } := by
    simp [tw, relimC, hs]
  have := run_relim cfg (some m) fuel p s s' hc hnr hok
  rw [e] at this
  rw [this, finish_relim hc hnr (hok.mono (run_callsMono cfg fuel p s s' hc))]
  exact h

end PestModel.C12
