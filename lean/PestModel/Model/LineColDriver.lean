import PestModel.Model.LineCol
import PestModel.Model.Proto
/-! Driver mode `linecol`: `CP <hex> <off> <k>` and `CS <hex> <a> <b>`. -/
namespace PestModel.LineColDriver
open PestModel.LineCol PestModel.Proto

def hexOf (s : Str) : String :=
  let h := stringToHex (String.ofList s)
  if h.isEmpty then "-" else h

def inputOf (h : String) : Option Str :=
  if h = "-" then some [] else (hexToString? h).map (·.toList)

def showLc : Nat × Nat → String
  | (l, c) => s!"{l},{c}"

def showLoc : LCLoc → String
  | .pos lc => "P" ++ showLc lc
  | .span a b => "S" ++ showLc a ++ ";" ++ showLc b

def showErr (e : Option Err) : String :=
  match e with
  | none => "panic"
  | some e =>
    match e.format with
    | none => "panic"
    | some d => s!"elc={showLoc e.lineCol} disp={hexOf d}"

def runCP (s : Str) (off k : Nat) : String :=
  if !isBoundary s off then "nb" else
  let lc := match lineCol s off with | some lc => showLc lc | none => "panic"
  let pair :=
    match slice? s 0 k with
    | none => "panic"
    | some text =>
      match lineIndexLineCol (lineOffsets text) s off with
      | some lc => showLc lc
      | none => "panic"
  let lo := match lineOf s off with | some l => hexOf l | none => "panic"
  s!"lc={lc} pair={pair} lineof={lo} {showErr (newFromPos s off "m".toList)}"

def runCS (s : Str) (a b : Nat) : String :=
  if !spanNew s a b then "none" else
  let ls := ",".intercalate ((linesSpan s a b).map fun (x, y) => s!"{x}-{y}")
  s!"lines={ls} {showErr (newFromSpan s a b "m".toList)}"

def runLine (line : String) : String :=
  match words line with
  | ["CP", h, off, k] =>
    match inputOf h, off.toNat?, k.toNat? with
    | some s, some off, some k => runCP s off k
    | _, _, _ => "bad-op"
  | ["CS", h, a, b] =>
    match inputOf h, a.toNat?, b.toNat? with
    | some s, some a, some b => runCS s a b
    | _, _, _ => "bad-op"
  | ["CG", h, a, b, x, y] =>
    match inputOf h, a.toNat?, b.toNat?, x.toNat?, y.toNat? with
    | some s, some a, some b, some x, some y =>
      if spanNew s a b then
        match spanGet s a b x y with
        | some (p, q) => s!"some {p}-{q}"
        | none => "none"
      else "nospan"
    | _, _, _, _, _ => "bad-op"
  | _ => "bad-op"

end PestModel.LineColDriver
