"""Generic flow shared by properties whose tie is a single-driver correspondence."""
import glob, json, os
from runner import *


def run_corpus_and_gen(ctx, drv_bin, mode, runs):
    """runs: list of (name, drv_args). Corpus first. Returns list of Corr."""
    out = []
    corpus = sorted(glob.glob(os.path.join(VERIF, "corpus", ctx.prop, "*.case")))
    if corpus:
        allf = os.path.join(ctx.rundir, "corpus_all.txt")
        with open(allf, "w") as f:
            for p in corpus:
                for l in open(p):
                    l = l.rstrip("\n")
                    if l.strip() and not l.startswith("#"):
                        f.write(l + "\n")
        out.append(correspond("corpus", drv_bin, ["run", allf], mode, os.path.join(ctx.rundir, "corpus")))
    for name, args in runs:
        out.append(correspond(name, drv_bin, args, mode, os.path.join(ctx.rundir, name)))
    return out


def replay_generic(ctx, path, drv_name, mode, featureset="default"):
    """Replay a case line stored in a replay file on the current tree."""
    r = json.load(open(path))
    ok, out, bindir, _ = cargo_build(featureset, [drv_name])
    lake_build(["pestmodel"])
    if not ok:
        log(out[-2000:]); return 2
    case = r.get("case")
    if not case:
        log("replay file has no `case` (proof-obligation failure): " + json.dumps(r.get("obligation", r))[:2000])
        return 1
    res = eval_lines(os.path.join(bindir, drv_name), mode, [case], os.path.join(ctx.rundir, "replay"))
    if res is None:
        log("replay: driver failed"); return 2
    imp, mod, orc = res[0]
    log(f"case   : {case}\nimpl   : {imp}\nmodel  : {mod}\noracle : {orc}")
    bad = (orc != "ok") or (imp != mod)
    log("replay: " + ("FAILS (property violated or correspondence broken on this case)" if bad else "passes"))
    return 1 if bad else 0


def simple_property(ctx, module, drv_name, mode, oracle_kind, corr_kind, rule, nontrivial_key, scope=None,
                    assumptions=(), featureset="default", leancheck=(), extra_cov=None, classify=None,
                    exhaustive=False, shrink_prefix=None, search=None):
    """Standard flow: proof leg, harness build, corpus + generated correspondence, classification, evidence.
    classify(ctx, kind, case_tuple) may return a known-finding entry to downgrade a failure."""
    frag, problems = proof_leg(ctx, module)
    ok, out, bindir, _ = cargo_build(featureset, [drv_name])
    if not ok:
        ctx.violation({"obligation": "harness does not build against /repo", "log": out[-3000:]}, no_input=True)
        ctx.evidence(level_of(ctx.prop), dict(frag, explanation="harness build failed"), TRUSTED_COMMON)
        return None
    drv = os.path.join(bindir, drv_name)
    cs = run_corpus_and_gen(ctx, drv, mode, [("gen", ["gen", ctx.tier, str(ctx.seed)])])
    found_input = False
    for c in cs:
        if c.error:
            ctx.violation({"correspondence": c.name, "error": c.error}, no_input=True)
            continue
        fails = list(c.oracle_fail)
        if classify:
            rest = []
            for t in fails:
                k = classify(ctx, "oracle", t)
                if k:
                    ctx.known_finding(k["id"], k.get("what", k["id"]))
                else:
                    rest.append(t)
            fails = rest
        mism = list(c.mismatch)
        if classify:
            rest = []
            for t in mism:
                k = classify(ctx, "mismatch", t)
                if k:
                    ctx.known_finding(k["id"], k.get("what", k["id"]))
                else:
                    rest.append(t)
            mism = rest
        if fails:
            i, op, imp, verdict = min(fails, key=lambda t: (len(t[1]), t[1]))
            small = op
            if shrink_prefix is not None:
                small = shrink_tokens(drv, mode, op, shrink_prefix, lambda i_, m_, o_: o_ != "ok", os.path.join(ctx.rundir, "shrink"))
            ctx.violation({"kind": oracle_kind, "case": small, "impl": imp, "oracle": verdict, "original_case": op,
                           "failing_cases_in_run": len(fails), "classes": sorted({t[3][:70] for t in fails})[:10]})
            found_input = True
        elif mism and search and (hit := search(ctx, drv, mism)):
            # the correspondence broke and the search found a concrete input on which the property itself fails
            ctx.violation(hit)
            found_input = True
        elif mism:
            i, op, imp, mod = min(mism, key=lambda t: (len(t[1]), t[1]))
            ctx.violation({"kind": corr_kind + " no longer checks; the property's oracle is satisfied on all explored inputs",
                           "case": op, "impl": imp, "model": mod, "mismatches_in_run": len(mism)}, no_input=True)
    if problems and not found_input:
        ctx.violation({"obligation": module, "problems": problems}, no_input=True)
    gen = next((c for c in cs if c.name == "gen"), None)
    st = gen.stats if gen else {}
    cov = dict(frag)
    cov.update({
        "trusted_base": TRUSTED_COMMON,
        "evaluations": max(sum(c.n for c in cs), st.get("evaluations", 0)),
        "protocol_lines": sum(c.n for c in cs),
        "distinct_nontrivial": st.get(nontrivial_key, 0),
        "rule": rule,
        "traces_validated_against_impl": sum(c.n for c in cs),
        "samples": st.get("samples", []),
        "distribution": {k: v for k, v in st.items() if k not in ("samples",)},
        "mismatches": sum(len(c.mismatch) for c in cs), "oracle_failures": sum(len(c.oracle_fail) for c in cs),
    })
    if exhaustive:
        cov["exhaustive"] = True
    if scope:
        cov["exhaustive_scope"] = scope
    if extra_cov:
        cov.update(extra_cov)
    if ctx.thorough() and not problems and leancheck:
        okc, outc = leanchecker(list(leancheck))
        cov["leanchecker"] = "ok" if okc else outc
    ctx.evidence(level_of(ctx.prop), cov, list(assumptions))
    return cs
