import PestModel.Lemmas.VmRefMod
/-! C01: what the restorer pass guarantees of the optimizer's output (`GoodRules`). -/
namespace PestModel.VmRef
open PestModel.G

/-! ### `Dirty` implies `Mod` -/

theorem mem_topDown_self (extras : Bool) (e : OExpr) : e ∈ e.topDown extras := by
  cases e <;> simp [OExpr.topDown]

theorem Mod.mono {extras : Bool} {rules : List ORule} {a b : OExpr}
    (hsub : ∀ x ∈ a.topDown extras, x ∈ b.topDown extras) (h : Mod extras rules a) :
    Mod extras rules b := by
  cases h with
  | here hx hm => exact Mod.here (hsub _ hx) hm
  | there hx hl hb => exact Mod.there (hsub _ hx) hl hb

theorem lookupO_mem {rs : List ORule} {n : String} {body : OExpr} (h : lookupO rs n = some body) :
    ∃ r ∈ rs, r.expr = body := by
  unfold lookupO at h
  simp only [Option.map_eq_some_iff] at h
  obtain ⟨r, hr, rfl⟩ := h
  exact ⟨r, List.mem_of_find?_eq_some hr, rfl⟩

theorem dirty_mod (extras : Bool) (rs : List ORule) (hrs : ∀ r ∈ rs, tagsExtras extras r.expr)
    {x : OExpr} (h : Dirty rs x) : tagsExtras extras x → Mod extras rs x := by
  induction h with
  | pop => exact fun _ => Mod.here (mem_topDown_self extras _) (by simp [isModItem])
  | popAll => exact fun _ => Mod.here (mem_topDown_self extras _) (by simp [isModItem])
  | ident hl _ ih =>
    intro _
    obtain ⟨r, hr, rfl⟩ := lookupO_mem hl
    exact Mod.there (mem_topDown_self extras _) hl (ih (hrs r hr))
  | push _ _ => exact fun _ => Mod.here (mem_topDown_self extras _) (by simp [isModItem])
  | choiceL _ ih =>
    intro hx
    refine (ih ?_).mono (by intro x hx; simp [OExpr.topDown, hx])
    rcases hx with hx | hx
    · exact Or.inl hx
    · simp only [noTag, Bool.and_eq_true] at hx; exact Or.inr hx.1
  | choiceR _ ih =>
    intro hx
    refine (ih ?_).mono (by intro x hx; simp [OExpr.topDown, hx])
    rcases hx with hx | hx
    · exact Or.inl hx
    · simp only [noTag, Bool.and_eq_true] at hx; exact Or.inr hx.2
  | nodeTag _ ih =>
    intro hx
    rcases hx with hx | hx
    · subst hx
      exact (ih (Or.inl rfl)).mono (by intro x hx; simp [OExpr.topDown, hx])
    · simp [noTag] at hx

/-! ### items of a transformed expression are covered by the items of the original -/

/-- every `push` / `ident` item of `l` has a counterpart in `l0`. -/
def CovL (l l0 : List OExpr) : Prop :=
  ∀ z ∈ l, (∀ e, z = OExpr.push e → ∃ e', OExpr.push e' ∈ l0) ∧
    (∀ m, z = OExpr.ident m → OExpr.ident m ∈ l0)

theorem CovL.nil (l0 : List OExpr) : CovL [] l0 := by intro z hz; cases hz

theorem CovL.refl (l : List OExpr) : CovL l l :=
  fun _ hz => ⟨fun e h => ⟨e, h ▸ hz⟩, fun _ h => h ▸ hz⟩

theorem CovL.mono {l l0 l0' : List OExpr} (h : CovL l l0) (hs : ∀ x ∈ l0, x ∈ l0') : CovL l l0' :=
  fun z hz => ⟨fun e he => let ⟨e', h'⟩ := (h z hz).1 e he; ⟨e', hs _ h'⟩,
    fun m hm => hs _ ((h z hz).2 m hm)⟩

theorem CovL.append {l1 l2 l0 : List OExpr} (h1 : CovL l1 l0) (h2 : CovL l2 l0) :
    CovL (l1 ++ l2) l0 := by
  intro z hz
  rcases List.mem_append.1 hz with h | h
  · exact h1 z h
  · exact h2 z h

theorem CovL.cons_inert {z : OExpr} {l l0 : List OExpr} (hp : ∀ e, z ≠ OExpr.push e)
    (hi : ∀ m, z ≠ OExpr.ident m) (h : CovL l l0) : CovL (z :: l) l0 := by
  intro y hy
  rcases List.mem_cons.1 hy with e | hy
  · subst e; exact ⟨fun e he => (hp e he).elim, fun m hm => (hi m hm).elim⟩
  · exact h y hy

theorem CovL.cons_push {e e0 : OExpr} {l l0 : List OExpr} (h0 : OExpr.push e0 ∈ l0)
    (h : CovL l l0) : CovL (OExpr.push e :: l) l0 := by
  intro y hy
  rcases List.mem_cons.1 hy with e | hy
  · subst e; exact ⟨fun _ _ => ⟨e0, h0⟩, fun m hm => by cases hm⟩
  · exact h y hy

/-- the restorer's expression transformer. -/
abbrev T (extras : Bool) (opt : List ORule) : OExpr → OExpr :=
  omapBottomUp extras (wrapBranching extras opt)

theorem cov_T (extras : Bool) (opt : List ORule) (e : OExpr) :
    CovL ((T extras opt e).topDown extras) (e.topDown extras) := by
  induction e with
  | seq a b iha ihb =>
    simp only [T, omapBottomUp, wrapBranching, OExpr.topDown]
    refine CovL.cons_inert (by intro _ h; cases h) (by intro _ h; cases h) ?_
    exact CovL.append (iha.mono (by intro x hx; simp [hx])) (ihb.mono (by intro x hx; simp [hx]))
  | choice a b iha ihb =>
    simp only [T, omapBottomUp, wrapBranching, OExpr.topDown]
    refine CovL.cons_inert (by intro _ h; cases h) (by intro _ h; cases h) ?_
    refine CovL.append ?_ ?_
    · split
      · exact CovL.cons_inert (by intro _ h; cases h) (by intro _ h; cases h) (CovL.nil _)
      · exact iha.mono (by intro x hx; simp [hx])
    · split
      · exact CovL.cons_inert (by intro _ h; cases h) (by intro _ h; cases h) (CovL.nil _)
      · exact ihb.mono (by intro x hx; simp [hx])
  | posPred e ih | negPred e ih =>
    simp only [T, omapBottomUp, wrapBranching, OExpr.topDown]
    refine CovL.cons_inert (by intro _ h; cases h) (by intro _ h; cases h) ?_
    exact ih.mono (by intro x hx; simp [hx])
  | rep e ih | opt e ih =>
    simp only [T, omapBottomUp, wrapBranching]
    split
    · simp only [OExpr.topDown]
      refine CovL.cons_inert (by intro _ h; cases h) (by intro _ h; cases h) ?_
      exact CovL.cons_inert (by intro _ h; cases h) (by intro _ h; cases h) (CovL.nil _)
    · simp only [OExpr.topDown]
      refine CovL.cons_inert (by intro _ h; cases h) (by intro _ h; cases h) ?_
      exact ih.mono (by intro x hx; simp [hx])
  | push e ih =>
    simp only [T, omapBottomUp, wrapBranching, OExpr.topDown]
    refine CovL.cons_push (e0 := e) (by simp) ?_
    exact ih.mono (by intro x hx; simp [hx])
  | repOnce e ih =>
    cases extras
    · simp only [T, omapBottomUp, wrapBranching, OExpr.topDown]
      exact CovL.refl _
    · simp only [T, omapBottomUp, wrapBranching, OExpr.topDown, if_true]
      refine CovL.cons_inert (by intro _ h; cases h) (by intro _ h; cases h) ?_
      exact ih.mono (by intro x hx; simp [hx])
  | nodeTag e t ih =>
    cases extras
    · simp only [T, omapBottomUp, wrapBranching, OExpr.topDown]
      exact CovL.refl _
    · simp only [T, omapBottomUp, wrapBranching, OExpr.topDown, if_true]
      refine CovL.cons_inert (by intro _ h; cases h) (by intro _ h; cases h) ?_
      exact ih.mono (by intro x hx; simp [hx])
  | _ =>
    simp only [T, omapBottomUp, wrapBranching]
    exact CovL.refl _

/-! ### rule lookup in the restorer's output -/

/-- the restorer's transformer of the body of the rule named `n` (a `WHITESPACE`/`COMMENT` body that
modifies the stack is wrapped as a whole). -/
def TR (extras : Bool) (opt : List ORule) (n : String) (e : OExpr) : OExpr :=
  if (n = "WHITESPACE" ∨ n = "COMMENT") ∧ modifies extras opt (T extras opt e) = true
  then .restoreOnErr (T extras opt e) else T extras opt e

theorem restoreOnErr_expr (extras : Bool) (opt : List ORule) (r : ORule) :
    (restoreOnErr extras opt r).expr = TR extras opt r.name r.expr := rfl

theorem cov_TR (extras : Bool) (opt : List ORule) (n : String) (e : OExpr) :
    CovL ((TR extras opt n e).topDown extras) (e.topDown extras) := by
  unfold TR
  split
  · simp only [OExpr.topDown]
    exact CovL.cons_inert (by intro _ h; cases h) (by intro _ h; cases h) (CovL.nil _)
  · exact cov_T extras opt e

theorem lookupO_map_restore (extras : Bool) (opt' : List ORule) (opt : List ORule) (n : String) :
    lookupO (opt.map (restoreOnErr extras opt')) n = (lookupO opt n).map (TR extras opt' n) := by
  induction opt with
  | nil => rfl
  | cons r rs ih =>
    unfold lookupO at ih ⊢
    by_cases h : r.name = n
    · have h' : (restoreOnErr extras opt' r).name = n := h
      simp only [List.map_cons, List.find?_cons, h', h, decide_true, Option.map_some, restoreOnErr_expr]
    · have h' : ¬ (restoreOnErr extras opt' r).name = n := h
      simpa only [List.map_cons, List.find?_cons, h', h, decide_false] using ih

/-- reachability in the restorer's output implies reachability in its input. -/
theorem mod_rs_opt (extras : Bool) (opt : List ORule) {y : OExpr}
    (h : Mod extras (opt.map (restoreOnErr extras opt)) y) :
    ∀ y0, CovL (y.topDown extras) (y0.topDown extras) → Mod extras opt y0 := by
  induction h with
  | @here e x hx hm =>
    intro y0 hc
    cases x with
    | push e1 =>
      obtain ⟨e', he'⟩ := (hc _ hx).1 e1 rfl
      exact Mod.here he' (by simp [isModItem])
    | ident m => exact Mod.here ((hc _ hx).2 m rfl) hm
    | _ => simp [isModItem] at hm
  | @there e n body hx hl _ ih =>
    intro y0 hc
    rw [lookupO_map_restore] at hl
    cases hl0 : lookupO opt n with
    | none => rw [hl0] at hl; cases hl
    | some body0 =>
      rw [hl0] at hl
      cases hl
      exact Mod.there ((hc _ hx).2 n rfl) hl0 (ih body0 (cov_TR extras opt n body0))

theorem not_dirty_of_modifies (extras : Bool) (opt : List ORule)
    (hrs : ∀ r ∈ opt.map (restoreOnErr extras opt), tagsExtras extras r.expr) (y : OExpr)
    (hy : tagsExtras extras y)
    (h : modifies extras opt y = false) : ¬ Dirty (opt.map (restoreOnErr extras opt)) y := by
  intro hd
  exact modifies_sound extras opt y h
    (mod_rs_opt extras opt (dirty_mod extras _ hrs hd hy) y (CovL.refl _))

/-! ### well-formedness of `toOptimized`'s output -/

/-- no `restoreOnErr`; `repOnce` only with `grammar-extras`. -/
def wf (extras : Bool) : OExpr → Bool
  | .posPred e | .negPred e | .opt e | .rep e | .push e | .nodeTag e _ => wf extras e
  | .seq a b | .choice a b => wf extras a && wf extras b
  | .repOnce e => extras && wf extras e
  | .restoreOnErr _ => false
  | _ => true

theorem toOptimized_wf (extras : Bool) (e : Expr) :
    ∀ o, toOptimized extras e = some o → wf extras o = true := by
  induction e with
  | posPred e ih | negPred e ih | opt e ih | rep e ih | push e ih =>
    intro o h
    simp only [toOptimized, Option.map_eq_some_iff] at h
    obtain ⟨a, ha, rfl⟩ := h
    simpa [wf] using ih a ha
  | nodeTag e t ih =>
    intro o h
    simp only [toOptimized, Option.map_eq_some_iff] at h
    obtain ⟨a, ha, rfl⟩ := h
    simpa [wf] using ih a ha
  | seq a b iha ihb | choice a b iha ihb =>
    intro o h
    simp only [toOptimized, Option.bind_eq_some_iff, Option.map_eq_some_iff] at h
    obtain ⟨a', ha, b', hb, rfl⟩ := h
    simp [wf, iha a' ha, ihb b' hb]
  | repOnce e ih =>
    intro o h
    cases extras
    · simp [toOptimized] at h
    · simp only [toOptimized, if_true, Option.map_eq_some_iff] at h
      obtain ⟨a, ha, rfl⟩ := h
      simpa [wf] using ih a ha
  | repExact _ _ | repMin _ _ | repMax _ _ | repMinMax _ _ _ =>
    intro o h; simp [toOptimized] at h
  | _ =>
    intro o h
    simp only [toOptimized, Option.some.injEq] at h
    subst h; rfl

theorem mapM_option_mem {α β : Type} (f : α → Option β) :
    ∀ (l : List α) (l' : List β), l.mapM f = some l' → ∀ b ∈ l', ∃ a ∈ l, f a = some b := by
  intro l
  induction l with
  | nil => intro l' h b hb; simp at h; subst h; cases hb
  | cons a as ih =>
    intro l' h b hb
    rw [List.mapM_cons] at h
    cases hfa : f a with
    | none => simp [hfa] at h
    | some b0 =>
      cases hr : as.mapM f with
      | none => simp [hfa, hr] at h
      | some bs =>
        simp [hfa, hr] at h
        subst h
        rcases List.mem_cons.1 hb with e | hb
        · subst e; exact ⟨a, by simp, hfa⟩
        · obtain ⟨a', ha', h'⟩ := ih bs hr b hb
          exact ⟨a', by simp [ha'], h'⟩

/-! ### `GoodE` of the transformed expressions -/

theorem noTag_wrap (extras : Bool) (opt : List ORule) (x : OExpr) :
    noTag (wrapBranching extras opt x) = noTag x := by
  cases x <;> simp only [wrapBranching] <;> (repeat' split) <;> simp [noTag]

theorem goodE_T (extras : Bool) (opt : List ORule)
    (hrs : ∀ r ∈ opt.map (restoreOnErr extras opt), tagsExtras extras r.expr)
    (e0 : OExpr) (hwf : wf extras e0 = true)
    (ht : tagsExtras extras (T extras opt e0)) :
    GoodE extras (opt.map (restoreOnErr extras opt)) (T extras opt e0) := by
  induction e0 with
  | seq a b iha ihb =>
    simp only [wf, Bool.and_eq_true] at hwf
    have ht' : tagsExtras extras (T extras opt a) ∧ tagsExtras extras (T extras opt b) := by
      rcases ht with ht | ht
      · exact ⟨Or.inl ht, Or.inl ht⟩
      · simp only [T, omapBottomUp, wrapBranching, noTag, Bool.and_eq_true] at ht
        exact ⟨Or.inr ht.1, Or.inr ht.2⟩
    simp only [T, omapBottomUp, wrapBranching]
    exact ⟨iha hwf.1 ht'.1, ihb hwf.2 ht'.2⟩
  | choice a b iha ihb =>
    simp only [wf, Bool.and_eq_true] at hwf
    have ht' : tagsExtras extras (T extras opt a) ∧ tagsExtras extras (T extras opt b) := by
      rcases ht with ht | ht
      · exact ⟨Or.inl ht, Or.inl ht⟩
      · have := ht
        simp only [T, omapBottomUp] at this
        rw [noTag_wrap] at this
        simp only [noTag, Bool.and_eq_true] at this
        exact ⟨Or.inr this.1, Or.inr this.2⟩
    have ga := iha hwf.1 ht'.1
    have gb := ihb hwf.2 ht'.2
    simp only [T, omapBottomUp, wrapBranching, GoodE]
    refine ⟨?_, ?_, ?_⟩
    · split
      · intro hd; cases hd
      · rename_i hm
        exact not_dirty_of_modifies extras opt hrs _ ht'.1 (by simpa using hm)
    · split
      · exact ga
      · exact ga
    · split
      · exact gb
      · exact gb
  | posPred e ih | negPred e ih | push e ih =>
    simp only [wf] at hwf
    have ht' : tagsExtras extras (T extras opt e) := by
      rcases ht with ht | ht
      · exact Or.inl ht
      · simp only [T, omapBottomUp, wrapBranching, noTag] at ht
        exact Or.inr ht
    simp only [T, omapBottomUp, wrapBranching]
    exact ih hwf ht'
  | rep e ih | opt e ih =>
    simp only [wf] at hwf
    have ht' : tagsExtras extras (T extras opt e) := by
      rcases ht with ht | ht
      · exact Or.inl ht
      · have := ht
        simp only [T, omapBottomUp] at this
        rw [noTag_wrap] at this
        exact Or.inr (by simpa [noTag] using this)
    have g := ih hwf ht'
    simp only [T, omapBottomUp, wrapBranching]
    split
    · exact ⟨(by intro hd; cases hd), g⟩
    · rename_i hm
      exact ⟨not_dirty_of_modifies extras opt hrs _ ht' (by simpa using hm), g⟩
  | repOnce e ih =>
    simp only [wf, Bool.and_eq_true] at hwf
    obtain ⟨hex, hwf⟩ := hwf
    subst hex
    simp only [T, omapBottomUp, wrapBranching, if_true]
    exact ⟨rfl, ih hwf (Or.inl rfl)⟩
  | nodeTag e t ih =>
    simp only [wf] at hwf
    cases extras with
    | false =>
      rcases ht with ht | ht
      · cases ht
      · simp [T, omapBottomUp, wrapBranching, noTag] at ht
    | true =>
      simp only [T, omapBottomUp, wrapBranching, if_true]
      exact ih hwf (Or.inl rfl)
  | restoreOnErr e ih => simp [wf] at hwf
  | _ => simp [T, omapBottomUp, wrapBranching, GoodE]

theorem tagsExtras_TR {extras : Bool} {opt : List ORule} {n : String} {e : OExpr}
    (h : tagsExtras extras (TR extras opt n e)) : tagsExtras extras (T extras opt e) := by
  unfold TR at h
  split at h
  · rcases h with h | h
    · exact Or.inl h
    · exact Or.inr (by simpa [noTag] using h)
  · exact h

theorem goodE_TR (extras : Bool) (opt : List ORule)
    (hrs : ∀ r ∈ opt.map (restoreOnErr extras opt), tagsExtras extras r.expr)
    (n : String) (e0 : OExpr) (hwf : wf extras e0 = true)
    (ht : tagsExtras extras (TR extras opt n e0)) :
    GoodE extras (opt.map (restoreOnErr extras opt)) (TR extras opt n e0) := by
  have g := goodE_T extras opt hrs e0 hwf (tagsExtras_TR ht)
  unfold TR
  split
  · exact g
  · exact g

/-- after the restorer the body of `WHITESPACE` / `COMMENT` cannot fail dirty: it is either wrapped in
`restore_on_err` as a whole, or the restorer's analysis says it does not touch the stack. -/
theorem not_dirty_wscm (extras : Bool) (opt : List ORule)
    (hrs : ∀ r ∈ opt.map (restoreOnErr extras opt), tagsExtras extras r.expr)
    (n : String) (hn : n = "WHITESPACE" ∨ n = "COMMENT") :
    ¬ Dirty (opt.map (restoreOnErr extras opt)) (.ident n) := by
  intro hd
  generalize hx : OExpr.ident n = x at hd
  cases hd with
  | pop => cases hx; rcases hn with h | h <;> simp at h
  | popAll => cases hx; rcases hn with h | h <;> simp at h
  | @ident n' body hl hb =>
    cases hx
    obtain ⟨r, hr, hre⟩ := lookupO_mem hl
    have htb : tagsExtras extras body := hre ▸ hrs r hr
    rw [lookupO_map_restore] at hl
    cases hl0 : lookupO opt n with
    | none => rw [hl0] at hl; cases hl
    | some body0 =>
      rw [hl0] at hl
      simp only [Option.map_some, Option.some.injEq] at hl
      subst hl
      unfold TR at hb htb
      split at hb
      · cases hb
      · rename_i hc
        have hm : modifies extras opt (T extras opt body0) = false := by
          cases hmm : modifies extras opt (T extras opt body0) with
          | false => rfl
          | true => exact absurd ⟨hn, hmm⟩ hc
        rw [if_neg hc] at htb
        exact not_dirty_of_modifies extras opt hrs _ htb hm hb
  | push _ => cases hx
  | choiceL _ => cases hx
  | choiceR _ => cases hx
  | nodeTag _ => cases hx

/-- The restorer establishes what the simulation needs of the optimized rules. -/
theorem goodRules_of_optimized (extras : Bool) (rs : List ORule)
    (hopt : ∃ rules withList, optimizeWith extras withList rules = some rs)
    (htag : ∀ r ∈ rs, tagsExtras extras r.expr) : GoodRules extras rs := by
  obtain ⟨rules, withList, h⟩ := hopt
  unfold optimizeWith at h
  split at h
  · cases h
  · rename_i opt hmap
    cases h
    refine ⟨?_, ?_, ?_⟩
    · intro r hr
      obtain ⟨r0, hr0, rfl⟩ := List.mem_map.1 hr
      have ht := htag _ hr
      obtain ⟨a, _, ha⟩ := mapM_option_mem _ _ _ hmap r0 hr0
      simp only [Option.bind_eq_some_iff, Option.map_eq_some_iff] at ha
      obtain ⟨r1, _, e1, he1, rfl⟩ := ha
      rw [restoreOnErr_expr] at ht ⊢
      exact goodE_TR extras opt htag _ e1 (toOptimized_wf extras _ e1 he1) ht
    · exact not_dirty_wscm extras opt htag _ (Or.inl rfl)
    · exact not_dirty_wscm extras opt htag _ (Or.inr rfl)

end PestModel.VmRef
