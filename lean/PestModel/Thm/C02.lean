import PestModel.Model.Lower
import PestModel.Lemmas.GenVm
/-!
# C02 — the generated parser and the interpreting VM agree

`Lower.genRule`/`genExpr` is `pest_generator::generator::{generate_rule, generate_expr,
generate_expr_atomic}` (tied to the real generator by tree equality of the emitted code, G lines);
`Lower.vmRule`/`vmExpr` is `pest_vm::Vm::{parse_rule, parse_expr}` (tied by the V lines). Both are call
trees over the same `ParserState` model. The theorem: for every rule set, start rule and input the two
produce the same report — the same token queue on success, the same error position and the same
expected / unexpected rule sets on failure, a panic exactly when the other panics.

## Result

The statement as first written (`GenEqVmStmt`, every list of optimized rules) is FALSE of the model, in two
ways (three concrete parses, all confirmed by evaluation of both back-ends):

* **node tags on `?` / `*`** (`gen_eq_vm_refuted`, `gen_eq_vm_refuted_tag_rep`): `generate_expr` special-cases
  `#t = e?` and `#t = e*` (`state.optional(|s| e.and_then(tag))`, tag inside the repetition) while the VM
  evaluates `NodeTag` generically (`parse_expr(e).and_then(tag)`). With `a = { "a" }  r = { a ~ #t = "b"? }` on
  `"a"` the VM tags the pair of `a` (the `?` matched nothing, `tag_node` tags the last token of the queue),
  the generated parser tags nothing. With `r = { #t = a* }` on `"aaa"` the VM tags only the last `a`, the
  generated parser the second and the third. The front-end produces such rule sets (with `grammar-extras`;
  `cexTagOpt_optimized`).
* **a dirty failure inside an atomic repetition** (`gen_eq_vm_refuted_pop`, `gen_vm_terminate_refuted`):
  `generate_expr_atomic` lowers `e*` to `state.repeat(|s| e)`, the VM to
  `sequence(optional(e ~ repeat(sequence(skip ~ e))))`; the VM's per-iteration `sequence` restores the stack
  when an iteration fails, the generated code does not. With `r = @{ PUSH("a") ~ PUSH("b") ~ POP* ~ PEEK }` on
  `"abbx"` the failing second `POP` leaves the stack empty in the generated parser (`PEEK` then panics) but
  `["a"]` in the VM (ordinary parsing error); with `… ~ POP* ~ PEEK_ALL*` the generated parser loops forever
  and the VM terminates. The real front-end never produces such a rule set: its restorer pass rewrites
  `POP*` to `restore_on_err(POP)*` (`rulesOK_of_optimized`, by C01's `goodRules_of_optimized`).

The strongest true variants proved here: `gen_eq_vm_partial` / `gen_vm_terminate_partial`, for every rule
set satisfying `GenVm.RulesOK`:
* fewer than 333 333 334 rules (so that the model's `undefinedRule = call 1000000000` is out of range);
* no `#t = e?` and no `#t = e*` (`GenVm.TagPlain`);
* in the rules lowered with `generate_expr_atomic` (`@`, `$`, and rules named `WHITESPACE`/`COMMENT`) the
  operand of every `*` is not `VmRef.Dirty` (cannot fail after `POP`/`POP_ALL`) (`GenVm.RepClean`).
No restriction on `detail`, `memchr`, the start rule, unusual types of `WHITESPACE`/`COMMENT`, undefined
identifiers, or the remaining node tags. `gen_eq_vm_optimized` instantiates them for the output of the
optimizer.
-/
namespace PestModel.C02
open PestModel.Lower PestModel.G PestModel.PS
open PestModel.LineCol (Str)

/-- the generator's flattening of right-nested sequences. -/
theorem smoke : seqItems (.seq (.str ['a']) (.seq (.str ['b']) (.str ['c']))) = [.str ['a'], .str ['b'], .str ['c']] := rfl

/-- a whole parse with back-end `b` (no call limit). -/
def parseWith (b : Backend) (rs : List ORule) (uni : String → Option CharSet) (memchr detail : Bool) (fuel : Nat)
    (name : String) (input : Str) : Out :=
  let env : Env := { rules := rs, uni }
  run { memchr, env := lowerAll b env } fuel (entry env name) (PState.new input none detail)

/-- what the caller of `parse` sees: the report, or `none` for a panic. -/
def outcome (o : Out) : Option Report := finish o

/-- **The two back-ends agree** (full statement): whenever both runs are definite (enough fuel), they
yield the same report. -/
def GenEqVmStmt : Prop :=
  ∀ (rs : List ORule) (uni : String → Option CharSet) (memchr detail : Bool) (fv fg : Nat) (name : String) (input : Str),
    parseWith .vm rs uni memchr detail fv name input ≠ .fuel →
    parseWith .gen rs uni memchr detail fg name input ≠ .fuel →
    outcome (parseWith .vm rs uni memchr detail fv name input) = outcome (parseWith .gen rs uni memchr detail fg name input)

/-- … and one terminates iff the other does. -/
def GenVmTerminateStmt : Prop :=
  ∀ (rs : List ORule) (uni : String → Option CharSet) (memchr detail : Bool) (name : String) (input : Str),
    (∃ f, parseWith .vm rs uni memchr detail f name input ≠ .fuel) ↔
    (∃ f, parseWith .gen rs uni memchr detail f name input ≠ .fuel)

/-! ## The partial forms -/

/-- **The two back-ends agree** on every rule set satisfying `GenVm.RulesOK`. -/
theorem gen_eq_vm_partial (rs : List ORule) (hok : GenVm.RulesOK rs) (uni : String → Option CharSet)
    (memchr detail : Bool) (fv fg : Nat) (name : String) (input : Str)
    (hv : parseWith .vm rs uni memchr detail fv name input ≠ .fuel)
    (hg : parseWith .gen rs uni memchr detail fg name input ≠ .fuel) :
    outcome (parseWith .vm rs uni memchr detail fv name input) =
      outcome (parseWith .gen rs uni memchr detail fg name input) :=
  GenVm.agree (env := { rules := rs, uni }) (memchr := memchr) hok name input detail fv fg hv hg

/-- … and one terminates iff the other does. -/
theorem gen_vm_terminate_partial (rs : List ORule) (hok : GenVm.RulesOK rs) (uni : String → Option CharSet)
    (memchr detail : Bool) (name : String) (input : Str) :
    (∃ f, parseWith .vm rs uni memchr detail f name input ≠ .fuel) ↔
    (∃ f, parseWith .gen rs uni memchr detail f name input ≠ .fuel) :=
  GenVm.terminate_iff (env := { rules := rs, uni }) (memchr := memchr) hok name input detail

/-- **Rule sets the front-end produces**: for the output of the optimizer (node tags only with
`grammar-extras`, none of them on `?`/`*`), both statements hold — the restorer pass makes the operand of
every `*` fail clean. -/
theorem gen_eq_vm_optimized (extras : Bool) (rs : List ORule)
    (hopt : ∃ rules withList, optimizeWith extras withList rules = some rs)
    (htagx : ∀ r ∈ rs, VmRef.tagsExtras extras r.expr) (hsize : rs.length ≤ 333333333)
    (htag : ∀ r ∈ rs, GenVm.TagPlain r.expr)
    (uni : String → Option CharSet) (memchr detail : Bool) (name : String) (input : Str) :
    (∀ fv fg, parseWith .vm rs uni memchr detail fv name input ≠ .fuel →
      parseWith .gen rs uni memchr detail fg name input ≠ .fuel →
      outcome (parseWith .vm rs uni memchr detail fv name input) =
        outcome (parseWith .gen rs uni memchr detail fg name input)) ∧
    ((∃ f, parseWith .vm rs uni memchr detail f name input ≠ .fuel) ↔
     (∃ f, parseWith .gen rs uni memchr detail f name input ≠ .fuel)) := by
  have hok := GenVm.rulesOK_of_optimized extras rs hopt htagx hsize htag
  exact ⟨fun fv fg => gen_eq_vm_partial rs hok uni memchr detail fv fg name input,
    gen_vm_terminate_partial rs hok uni memchr detail name input⟩

/-- grammars without node tags at all. -/
theorem tagPlain_of_noTag : ∀ e : OExpr, VmRef.noTag e = true → GenVm.TagPlain e := by
  intro e
  induction e with
  | nodeTag e t _ => intro h; simp [VmRef.noTag] at h
  | seq a b iha ihb | choice a b iha ihb =>
    intro h
    simp only [VmRef.noTag, Bool.and_eq_true] at h
    exact ⟨iha h.1, ihb h.2⟩
  | posPred e ih | negPred e ih | opt e ih | rep e ih | repOnce e ih | push e ih | restoreOnErr e ih =>
    intro h; exact ih (by simpa [VmRef.noTag] using h)
  | _ => intro _; trivial

/-! ## Refutations of the full statements -/

theorem ne_fuel_of_outcome {o : Out} {r : Report} (h : outcome o = some r) : o ≠ .fuel := by
  intro hf; rw [hf] at h; cases h

/-- `a = { "a" }  r = { a ~ #t = "b"? }`. -/
def cexTagOptSrc : List Rule :=
  [⟨"a", .normal, .str ['a']⟩, ⟨"r", .normal, .seq (.ident "a") (.nodeTag (.opt (.str ['b'])) ['t'])⟩]

def cexTagOpt : List ORule :=
  [⟨"a", .normal, .str ['a']⟩, ⟨"r", .normal, .seq (.ident "a") (.nodeTag (.opt (.str ['b'])) ['t'])⟩]

/-- the front-end (with `grammar-extras`) produces this rule set. -/
theorem cexTagOpt_optimized : optimizeWith true true cexTagOptSrc = some cexTagOpt := by decide

theorem cexTagOpt_vm : outcome (parseWith .vm cexTagOpt (fun _ => none) false false 8 "r" ['a']) =
    some (.success [.start 3 0, .start 2 0, .end_ 1 0 (some ['t']) 1, .end_ 0 1 none 1]) := by decide +kernel

theorem cexTagOpt_gen : outcome (parseWith .gen cexTagOpt (fun _ => none) false false 8 "r" ['a']) =
    some (.success [.start 3 0, .start 2 0, .end_ 1 0 none 1, .end_ 0 1 none 1]) := by decide +kernel

/-- **Refutation 1** (`#t = e?`): the VM tags the preceding pair, the generated parser does not. -/
theorem gen_eq_vm_refuted : ¬ GenEqVmStmt := by
  intro h
  have := h cexTagOpt (fun _ => none) false false 8 8 "r" ['a'] (ne_fuel_of_outcome cexTagOpt_vm)
    (ne_fuel_of_outcome cexTagOpt_gen)
  rw [cexTagOpt_vm, cexTagOpt_gen] at this
  exact absurd this (by decide)

/-- `a = { "a" }  r = { #t = a* }`. -/
def cexTagRep : List ORule :=
  [⟨"a", .normal, .str ['a']⟩, ⟨"r", .normal, .nodeTag (.rep (.ident "a")) ['t']⟩]

theorem cexTagRep_vm : outcome (parseWith .vm cexTagRep (fun _ => none) false false 16 "r" ['a', 'a', 'a']) =
    some (.success [.start 7 0, .start 2 0, .end_ 1 0 none 1, .start 4 1, .end_ 3 0 none 2, .start 6 2,
      .end_ 5 0 (some ['t']) 3, .end_ 0 1 none 3]) := by decide +kernel

theorem cexTagRep_gen : outcome (parseWith .gen cexTagRep (fun _ => none) false false 16 "r" ['a', 'a', 'a']) =
    some (.success [.start 7 0, .start 2 0, .end_ 1 0 none 1, .start 4 1, .end_ 3 0 (some ['t']) 2, .start 6 2,
      .end_ 5 0 (some ['t']) 3, .end_ 0 1 none 3]) := by decide +kernel

/-- **Refutation 2** (`#t = e*`): the generated parser tags every iteration but the first, the VM the last. -/
theorem gen_eq_vm_refuted_tag_rep : ¬ GenEqVmStmt := by
  intro h
  have := h cexTagRep (fun _ => none) false false 16 16 "r" ['a', 'a', 'a'] (ne_fuel_of_outcome cexTagRep_vm)
    (ne_fuel_of_outcome cexTagRep_gen)
  rw [cexTagRep_vm, cexTagRep_gen] at this
  exact absurd this (by decide)

/-- `r = @{ PUSH("a") ~ PUSH("b") ~ POP* ~ PEEK }` (not an output of the optimizer: the restorer would wrap
`POP`). -/
def cexPop : List ORule :=
  [⟨"r", .atomic, .seq (.push (.str ['a'])) (.seq (.push (.str ['b'])) (.seq (.rep (.ident "POP")) (.ident "PEEK")))⟩]

theorem cexPop_vm : outcome (parseWith .vm cexPop (fun _ => none) false false 18 "r" ['a', 'b', 'b', 'x']) =
    some (.parsingError 0 [0] []) := by decide +kernel

def isFuel : Out → Bool
  | .fuel => true
  | _ => false

theorem ne_fuel_of_isFuel {o : Out} (h : isFuel o = false) : o ≠ .fuel := by
  intro hf; rw [hf] at h; cases h

theorem cexPop_gen_ne : parseWith .gen cexPop (fun _ => none) false false 18 "r" ['a', 'b', 'b', 'x'] ≠ .fuel :=
  ne_fuel_of_isFuel (by decide +kernel)

theorem cexPop_gen : outcome (parseWith .gen cexPop (fun _ => none) false false 18 "r" ['a', 'b', 'b', 'x']) =
    none := by decide +kernel

/-- **Refutation 3** (dirty failure in an atomic `*`): the VM reports a parsing error, the generated parser
panics (`peek was called on empty stack`). -/
theorem gen_eq_vm_refuted_pop : ¬ GenEqVmStmt := by
  intro h
  have := h cexPop (fun _ => none) false false 18 18 "r" ['a', 'b', 'b', 'x'] (ne_fuel_of_outcome cexPop_vm)
    cexPop_gen_ne
  rw [cexPop_vm, cexPop_gen] at this
  cases this

/-- `r = @{ PUSH("a") ~ PUSH("b") ~ POP* ~ PEEK_ALL* }` (again not an output of the optimizer). -/
def cexLoop : List ORule :=
  [⟨"r", .atomic, .seq (.push (.str ['a'])) (.seq (.push (.str ['b']))
    (.seq (.rep (.ident "POP")) (.rep (.ident "PEEK_ALL"))))⟩]

theorem cexLoop_vm : outcome (parseWith .vm cexLoop (fun _ => none) false false 18 "r" ['a', 'b', 'b', 'x']) =
    some (.success [.start 1 0, .end_ 0 0 none 3]) := by decide +kernel

def loopEnv : Env := { rules := cexLoop, uni := fun _ => none }
def loopCfg : Cfg := { memchr := false, env := lowerAll .gen loopEnv }
def loopS0 : PState := PState.new ['a', 'b', 'b', 'x'] none false
def loopHead : Prog :=
  .andThen (.andThen (.stackPush (.matchString ['a'])) (.stackPush (.matchString ['b']))) (.repeat_ .stackPop)
def loopS1 : PState := checkpoint (atomPre .atomic (rulePre loopS0))
/-- after `PUSH("a") ~ PUSH("b") ~ POP*` in the generated parser: the failed second `POP` was not undone,
the stack is empty. -/
def loopS2 : PState := VmRef.okSt (run loopCfg 10 loopHead loopS1)

theorem loopS2_stack : loopS2.stack.cache = [] := by decide +kernel

/-- on the empty stack `PEEK_ALL` succeeds without consuming: `PEEK_ALL*` never ends. -/
theorem cexLoop_gen_diverges : VmRef.Div loopCfg (entry loopEnv "r") loopS0 := by
  refine VmRef.div_call
    (p := .rule 0 (.atomic .atomic (.sequence (.andThen loopHead (.repeat_ .stackMatchPeek))))) rfl ?_
  refine GenVm.div_rule rfl ?_
  refine GenVm.div_atomic rfl ?_
  refine VmRef.div_sequence rfl ?_
  refine VmRef.div_andThen_right (s1 := loopS2) ⟨10, rfl⟩ ?_
  exact VmRef.div_repeat rfl (VmRef.div_repLoop ⟨5, rfl⟩)

/-- **Refutation of the termination statement**: the VM terminates, the generated parser does not. -/
theorem gen_vm_terminate_refuted : ¬ GenVmTerminateStmt := by
  intro h
  obtain ⟨f, hf⟩ := (h cexLoop (fun _ => none) false false "r" ['a', 'b', 'b', 'x']).1
    ⟨18, ne_fuel_of_outcome cexLoop_vm⟩
  exact hf (cexLoop_gen_diverges f)

end PestModel.C02
