import PestModel.Model.LineCol
import PestModel.Gen.Consts
/-
L6/L7 (syntax and optimizer) — `pest_meta::ast::{Expr, Rule, RuleType}`,
`pest_meta::optimizer::{OptimizedExpr, OptimizedRule, optimize}` and the seven passes
(`rotator, skipper, unroller, concatenator, factorizer, lister, restorer`).

`extras` is the cargo feature `grammar-extras`. `Range(String, String)` is modelled as two
characters (the grammar only admits single-character bounds).
-/
namespace PestModel.G
open PestModel.LineCol (Str)

inductive RuleType where
  | normal | silent | atomic | compound | nonAtomic
  deriving Repr, DecidableEq

inductive Expr where
  | str (s : Str)
  | insens (s : Str)
  | range (a b : Char)
  | ident (n : String)
  | peekSlice (a : Int) (b : Option Int)
  | posPred (e : Expr)
  | negPred (e : Expr)
  | seq (a b : Expr)
  | choice (a b : Expr)
  | opt (e : Expr)
  | rep (e : Expr)
  | repOnce (e : Expr)
  | repExact (e : Expr) (n : Nat)
  | repMin (e : Expr) (n : Nat)
  | repMax (e : Expr) (n : Nat)
  | repMinMax (e : Expr) (m n : Nat)
  | skip (ss : List Str)
  | push (e : Expr)
  | pushLiteral (s : Str)
  | nodeTag (e : Expr) (tag : Str)
  deriving Repr, DecidableEq, Inhabited

structure Rule where
  name : String
  ty : RuleType
  expr : Expr
  deriving Repr, DecidableEq

inductive OExpr where
  | str (s : Str)
  | insens (s : Str)
  | range (a b : Char)
  | ident (n : String)
  | peekSlice (a : Int) (b : Option Int)
  | posPred (e : OExpr)
  | negPred (e : OExpr)
  | seq (a b : OExpr)
  | choice (a b : OExpr)
  | opt (e : OExpr)
  | rep (e : OExpr)
  | repOnce (e : OExpr)
  | skip (ss : List Str)
  | push (e : OExpr)
  | pushLiteral (s : Str)
  | nodeTag (e : OExpr) (tag : Str)
  | restoreOnErr (e : OExpr)
  deriving Repr, DecidableEq, Inhabited

structure ORule where
  name : String
  ty : RuleType
  expr : OExpr
  deriving Repr, DecidableEq

def Expr.size : Expr → Nat
  | .posPred e | .negPred e | .opt e | .rep e | .repOnce e | .repExact e _ | .repMin e _ | .repMax e _
  | .repMinMax e _ _ | .push e | .nodeTag e _ => e.size + 1
  | .seq a b | .choice a b => a.size + b.size + 1
  | _ => 1

/-! ### Traversals (`Expr::map_top_down`, `Expr::map_bottom_up`) -/

/-- `map_top_down`: apply `f`, then descend into the children of the result. Fuel bounds the
depth (the passes' `f` never grow an expression; `e.size + 1` suffices). -/
def mapTopDown (f : Expr → Expr) : Nat → Expr → Expr
  | 0, e => e
  | fuel + 1, e =>
    match f e with
    | .posPred e => .posPred (mapTopDown f fuel e)
    | .negPred e => .negPred (mapTopDown f fuel e)
    | .seq a b => .seq (mapTopDown f fuel a) (mapTopDown f fuel b)
    | .choice a b => .choice (mapTopDown f fuel a) (mapTopDown f fuel b)
    | .rep e => .rep (mapTopDown f fuel e)
    | .repOnce e => .repOnce (mapTopDown f fuel e)
    | .repExact e n => .repExact (mapTopDown f fuel e) n
    | .repMin e n => .repMin (mapTopDown f fuel e) n
    | .repMax e n => .repMax (mapTopDown f fuel e) n
    | .repMinMax e m n => .repMinMax (mapTopDown f fuel e) m n
    | .opt e => .opt (mapTopDown f fuel e)
    | .push e => .push (mapTopDown f fuel e)
    | .nodeTag e t => .nodeTag (mapTopDown f fuel e) t
    | e => e

def mapBottomUp (f : Expr → Expr) : Expr → Expr
  | .posPred e => f (.posPred (mapBottomUp f e))
  | .negPred e => f (.negPred (mapBottomUp f e))
  | .seq a b => f (.seq (mapBottomUp f a) (mapBottomUp f b))
  | .choice a b => f (.choice (mapBottomUp f a) (mapBottomUp f b))
  | .rep e => f (.rep (mapBottomUp f e))
  | .repOnce e => f (.repOnce (mapBottomUp f e))
  | .repExact e n => f (.repExact (mapBottomUp f e) n)
  | .repMin e n => f (.repMin (mapBottomUp f e) n)
  | .repMax e n => f (.repMax (mapBottomUp f e) n)
  | .repMinMax e m n => f (.repMinMax (mapBottomUp f e) m n)
  | .opt e => f (.opt (mapBottomUp f e))
  | .push e => f (.push (mapBottomUp f e))
  | .nodeTag e t => f (.nodeTag (mapBottomUp f e) t)
  | e => f e

/-! ### rotator -/

/-- `rotate_internal`: right-rotate the left spine of a `Seq` / `Choice`. Fuel = size. -/
def rotateInternal : Nat → Expr → Expr
  | 0, e => e
  | fuel + 1, .seq (.seq ll lr) rhs => rotateInternal fuel (.seq ll (.seq lr rhs))
  | fuel + 1, .choice (.choice ll lr) rhs => rotateInternal fuel (.choice ll (.choice lr rhs))
  | _ + 1, e => e

def rotateExpr (e : Expr) : Expr := mapTopDown (fun x => rotateInternal (x.size + 1) x) (e.size + 1) e

def rotate (r : Rule) : Rule := { r with expr := rotateExpr r.expr }

/-! ### skipper -/

def lookupExpr (rules : List Rule) (n : String) : Option Expr :=
  (rules.find? (fun r => r.name = n)).map (·.expr)

/-- `populate_choices`; fuel bounds the inlining depth. -/
def populateChoices (rules : List Rule) : Nat → Expr → List Str → Option Expr
  | 0, _, _ => none
  | fuel + 1, e, choices =>
    match e with
    | .choice (.str s) rhs => populateChoices rules fuel rhs (choices ++ [s])
    | .choice (.ident name) rhs =>
      match (lookupExpr rules name).bind (fun x => populateChoices rules fuel x []) with
      | some (.skip inl) => populateChoices rules fuel rhs (choices ++ inl)
      | _ => none
    | .choice _ _ => none
    | .str s => some (.skip (choices ++ [s]))
    | .ident name => (lookupExpr rules name).bind (fun x => populateChoices rules fuel x choices)
    | _ => none

/-- total size of a rule set (bounds `populate_choices`' recursion on validated grammars). -/
def rulesSize (rules : List Rule) : Nat := rules.foldl (fun n r => n + r.expr.size + 1) 1

/-- `MAX_SKIP_STRINGS` (regenerated from skipper.rs): `populate_choices` gives up as soon as its list is longer than the
bound. Its list only grows and every inlined list ends up inside the final one, so giving up on the way is the same as
refusing a final list that is too long — which is how it is written here. -/
def skipTooLong : Expr → Bool
  | .skip l => match PestModel.Gen.Consts.maxSkipStrings with | some c => decide (c < l.length) | none => false
  | _ => false

def skipF (rules : List Rule) (e : Expr) : Expr :=
  match e with
  | .rep (.seq (.negPred inner) (.ident "ANY")) =>
    match populateChoices rules (rulesSize rules + inner.size + 1) inner [] with
    | some x => if skipTooLong x then e else x
    | none => e
  | _ => e

/-- `populate_choices` as written since f10b39f: it gives up as soon as its list is longer than the bound (checked on entry
and after the final push). -/
def populateChoicesCapped (cap : Nat) (rules : List Rule) : Nat → Expr → List Str → Option Expr
  | 0, _, _ => none
  | fuel + 1, e, choices =>
    if cap < choices.length then none else
    match e with
    | .choice (.str s) rhs => populateChoicesCapped cap rules fuel rhs (choices ++ [s])
    | .choice (.ident name) rhs =>
      match (lookupExpr rules name).bind (fun x => populateChoicesCapped cap rules fuel x []) with
      | some (.skip inl) => populateChoicesCapped cap rules fuel rhs (choices ++ inl)
      | _ => none
    | .choice _ _ => none
    | .str s => if cap < (choices ++ [s]).length then none else some (.skip (choices ++ [s]))
    | .ident name => (lookupExpr rules name).bind (fun x => populateChoicesCapped cap rules fuel x choices)
    | _ => none

/-- the bound applied to a finished list. -/
def capResult (cap : Nat) : Option Expr → Option Expr
  | some (.skip l) => if cap < l.length then none else some (.skip l)
  | some _ => none
  | none => none

/-- the local rewrite of the `skip` pass, transcribed with `populate_choices` as it is written (early exit). -/
def skipFAsWritten (rules : List Rule) (e : Expr) : Expr :=
  match e with
  | .rep (.seq (.negPred inner) (.ident "ANY")) =>
    match (match PestModel.Gen.Consts.maxSkipStrings with
      | some c => populateChoicesCapped c rules (rulesSize rules + inner.size + 1) inner []
      | none => populateChoices rules (rulesSize rules + inner.size + 1) inner []) with
    | some x => x
    | none => e
  | _ => e

def skip (rules : List Rule) (r : Rule) : Rule :=
  if r.ty = .atomic then { r with expr := mapTopDown (skipF rules) (r.expr.size + 1) r.expr } else r

/-! ### unroller -/

/-- right-nested `Seq` of a non-empty list (`fold` from the right); `none` for the empty list
(`.unwrap()` panics). -/
def seqOfList : List Expr → Option Expr
  | [] => none
  | [e] => some e
  | e :: es => (seqOfList es).map (.seq e)

/-- `none` = the Rust closure panics (`unwrap` on an empty fold). -/
def unrollF (extras : Bool) : Expr → Option Expr
  | .repOnce e => if extras then some (.repOnce e) else some (.seq e (.rep e))
  | .repExact e n => seqOfList (List.replicate n e)
  | .repMin e n => seqOfList (List.replicate n e ++ [.rep e])
  | .repMax e n => seqOfList (List.replicate n (.opt e))
  | .repMinMax e m n => seqOfList ((List.range n).map fun i => if i + 1 ≤ m then e else .opt e)
  | e => some e

/-- `unroll` (bottom-up); `none` if any node panics. -/
def unrollExpr (extras : Bool) : Expr → Option Expr
  | .posPred e => (unrollExpr extras e).bind fun e => unrollF extras (.posPred e)
  | .negPred e => (unrollExpr extras e).bind fun e => unrollF extras (.negPred e)
  | .seq a b => (unrollExpr extras a).bind fun a => (unrollExpr extras b).bind fun b => unrollF extras (.seq a b)
  | .choice a b => (unrollExpr extras a).bind fun a => (unrollExpr extras b).bind fun b => unrollF extras (.choice a b)
  | .rep e => (unrollExpr extras e).bind fun e => unrollF extras (.rep e)
  | .repOnce e => (unrollExpr extras e).bind fun e => unrollF extras (.repOnce e)
  | .repExact e n => (unrollExpr extras e).bind fun e => unrollF extras (.repExact e n)
  | .repMin e n => (unrollExpr extras e).bind fun e => unrollF extras (.repMin e n)
  | .repMax e n => (unrollExpr extras e).bind fun e => unrollF extras (.repMax e n)
  | .repMinMax e m n => (unrollExpr extras e).bind fun e => unrollF extras (.repMinMax e m n)
  | .opt e => (unrollExpr extras e).bind fun e => unrollF extras (.opt e)
  | .push e => (unrollExpr extras e).bind fun e => unrollF extras (.push e)
  | .nodeTag e t => (unrollExpr extras e).bind fun e => unrollF extras (.nodeTag e t)
  | e => unrollF extras e

def unroll (extras : Bool) (r : Rule) : Option Rule :=
  (unrollExpr extras r.expr).map fun e => { r with expr := e }

/-! ### concatenator -/

def concatF : Expr → Expr
  | .seq (.str a) (.str b) => .str (a ++ b)
  | .seq (.insens a) (.insens b) => .insens (a ++ b)
  | e => e

def concatenate (r : Rule) : Rule :=
  if r.ty = .atomic then { r with expr := mapBottomUp concatF r.expr } else r

/-! ### factorizer -/

def factorF (ty : RuleType) : Expr → Expr
  | .choice (.seq l1 r1) (.seq l2 r2) =>
    if l1 = l2 then .seq l1 (.choice r1 r2) else .choice (.seq l1 r1) (.seq l2 r2)
  | .choice (.seq l1 l2) r =>
    if ty = .atomic ∨ ty = .compound then
      (if l1 = r then .seq l1 (.opt l2) else .choice (.seq l1 l2) r)
    else .choice (.seq l1 l2) r
  | .choice l (.seq r1 r2) => if l = r1 then l else .choice l (.seq r1 r2)
  | e => e

def factor (r : Rule) : Rule := { r with expr := mapTopDown (factorF r.ty) (r.expr.size + 1) r.expr }

/-! ### lister -/

def listF : Expr → Expr
  | .seq (.rep (.seq l1 l2)) r => if l1 = r then .seq l1 (.rep (.seq l2 r)) else .seq (.rep (.seq l1 l2)) r
  | e => e

def list (r : Rule) : Rule := { r with expr := mapBottomUp listF r.expr }

/-! ### `rule_to_optimized_rule` -/

/-- `none` = `unreachable!("No valid transformation to OptimizedRule")`. -/
def toOptimized (extras : Bool) : Expr → Option OExpr
  | .str s => some (.str s)
  | .insens s => some (.insens s)
  | .range a b => some (.range a b)
  | .ident n => some (.ident n)
  | .peekSlice a b => some (.peekSlice a b)
  | .posPred e => (toOptimized extras e).map .posPred
  | .negPred e => (toOptimized extras e).map .negPred
  | .seq a b => (toOptimized extras a).bind fun a => (toOptimized extras b).map fun b => .seq a b
  | .choice a b => (toOptimized extras a).bind fun a => (toOptimized extras b).map fun b => .choice a b
  | .opt e => (toOptimized extras e).map .opt
  | .rep e => (toOptimized extras e).map .rep
  | .skip ss => some (.skip ss)
  | .push e => (toOptimized extras e).map .push
  | .pushLiteral s => some (.pushLiteral s)
  | .nodeTag e t => (toOptimized extras e).map fun e => .nodeTag e t
  | .repOnce e => if extras then (toOptimized extras e).map .repOnce else none
  | .repExact _ _ | .repMin _ _ | .repMax _ _ | .repMinMax _ _ _ => none

/-! ### restorer -/

/-- `OptimizedExpr::iter_top_down()` as a list (pre-order; which variants are descended into
depends on the feature, as in the code). -/
def OExpr.topDown (extras : Bool) : OExpr → List OExpr
  | .seq a b => .seq a b :: (a.topDown extras ++ b.topDown extras)
  | .choice a b => .choice a b :: (a.topDown extras ++ b.topDown extras)
  | .posPred e => .posPred e :: e.topDown extras
  | .negPred e => .negPred e :: e.topDown extras
  | .rep e => .rep e :: e.topDown extras
  | .opt e => .opt e :: e.topDown extras
  | .push e => .push e :: e.topDown extras
  | .repOnce e => .repOnce e :: (if extras then e.topDown extras else [])
  | .nodeTag e t => .nodeTag e t :: (if extras then e.topDown extras else [])
  | e => [e]

def lookupO (rules : List ORule) (n : String) : Option OExpr :=
  (rules.find? (fun r => r.name = n)).map (·.expr)

abbrev Cache := List (String × Option Bool)

def Cache.get (c : Cache) (n : String) : Option (Option Bool) := (c.find? (·.1 = n)).map (·.2)
def Cache.set (c : Cache) (n : String) (v : Option Bool) : Cache := (n, v) :: c.filter (·.1 ≠ n)

mutual
  /-- `child_modifies_state` with its memo table threaded through (`any` short-circuits). -/
  def childModifies (extras : Bool) (rules : List ORule) : Nat → OExpr → Cache → Bool × Cache
    | 0, _, c => (false, c)
    | fuel + 1, e, c => anyModifies extras rules fuel (e.topDown extras) c
  def anyModifies (extras : Bool) (rules : List ORule) : Nat → List OExpr → Cache → Bool × Cache
    | _, [], c => (false, c)
    | 0, _, c => (false, c)
    | fuel + 1, x :: xs, c =>
      let (b, c) : Bool × Cache :=
        match x with
        | .push _ => (true, c)
        | .ident name =>
          if name = "DROP" ∨ name = "POP" ∨ name = "POP_ALL" then (true, c) else
          match c.get name with
          | some (some cached) => (cached, c)
          | some none => (false, c.set name (some false))
          | none =>
            let c := c.set name none
            let (r, c) := match lookupO rules name with
              | some body => childModifies extras rules fuel body c
              | none => (false, c)
            (r, c.set name (some r))
        | _ => (false, c)
      if b then (true, c) else anyModifies extras rules fuel xs c
end

def orulesSize (rules : List ORule) : Nat :=
  rules.foldl (fun n r => n + (r.expr.topDown true).length + 1) 1

def modifies (extras : Bool) (rules : List ORule) (e : OExpr) : Bool :=
  (childModifies extras rules (2 * (orulesSize rules + (e.topDown true).length) + 2) e []).1

def wrapBranching (extras : Bool) (rules : List ORule) : OExpr → OExpr
  | .opt e => if modifies extras rules e then .opt (.restoreOnErr e) else .opt e
  | .choice a b =>
    .choice (if modifies extras rules a then .restoreOnErr a else a)
            (if modifies extras rules b then .restoreOnErr b else b)
  | .rep e => if modifies extras rules e then .rep (.restoreOnErr e) else .rep e
  | e => e

/-- `OptimizedExpr::map_bottom_up` (after the fix: `RepOnce`/`NodeTag` are descended into with
`grammar-extras`; `RestoreOnErr` never is). -/
def omapBottomUp (extras : Bool) (f : OExpr → OExpr) : OExpr → OExpr
  | .posPred e => f (.posPred (omapBottomUp extras f e))
  | .negPred e => f (.negPred (omapBottomUp extras f e))
  | .seq a b => f (.seq (omapBottomUp extras f a) (omapBottomUp extras f b))
  | .choice a b => f (.choice (omapBottomUp extras f a) (omapBottomUp extras f b))
  | .rep e => f (.rep (omapBottomUp extras f e))
  | .opt e => f (.opt (omapBottomUp extras f e))
  | .push e => f (.push (omapBottomUp extras f e))
  | .repOnce e => if extras then f (.repOnce (omapBottomUp extras f e)) else f (.repOnce e)
  | .nodeTag e t => if extras then f (.nodeTag (omapBottomUp extras f e) t) else f (.nodeTag e t)
  | e => f e

/-- `restorer::restore_on_err` (after the fix: a `WHITESPACE`/`COMMENT` body that modifies the stack is
wrapped as a whole — the implicit skips that attempt it are not in the AST). -/
def restoreOnErr (extras : Bool) (rules : List ORule) (r : ORule) : ORule :=
  let e := omapBottomUp extras (wrapBranching extras rules) r.expr
  { r with expr := if (r.name = "WHITESPACE" ∨ r.name = "COMMENT") ∧ modifies extras rules e = true then .restoreOnErr e else e }

/-! ### `optimize` -/

/-- The six AST passes up to (not including) the conversion; `skipList` switches the `list` pass
off (used to classify findings). `none` = a pass panics. -/
def astPasses (extras : Bool) (withList : Bool) (rules : List Rule) (r : Rule) : Option Rule :=
  (unroll extras (skip rules (rotate r))).map fun r =>
    let r := factor (concatenate r)
    if withList then list r else r

def optimizeWith (extras withList : Bool) (rules : List Rule) : Option (List ORule) :=
  match rules.mapM (fun r => (astPasses extras withList rules r).bind fun r =>
      (toOptimized extras r.expr).map fun e => (⟨r.name, r.ty, e⟩ : ORule)) with
  | none => none
  | some opt => some (opt.map (restoreOnErr extras opt))

def optimize (extras : Bool) (rules : List Rule) : Option (List ORule) := optimizeWith extras true rules

end PestModel.G
