import PestModel.Model.Reader
import PestModel.Model.Proto
/-! Driver mode `read`: `Q <hex body>` → what the reader makes of `a = { "<body>" }`;
`Y …` → "same" (the round trip is judged by the oracle on the implementation). -/
namespace PestModel.ReaderDriver
open PestModel.Reader PestModel.Proto PestModel.Ref PestModel.Views

def metaNames : List String := PestModel.Gen.Meta.rules.map (·.name)
def nameOf (r : Nat) : String := metaNames[r]?.getD (if r = metaNames.length then "EOI" else "?")

def sliceBytes (input : List Char) (a b : Nat) : Option (List Char) := PestModel.LineCol.slice? input a b

def runQ (body : List Char) : String :=
  let text := "a = { \"".toList ++ body ++ "\" }".toList
  match Ref.meaning PestModel.Gen.Meta.rules false (fun _ => none) 1000000 "grammar_rules" text with
  | .ok _ forest =>
    match forest with
    | [.node gr _ _ _ [_, _, _, .node ex _ _ _ [.node tm _ _ _ [.node st a b _ _]], _], .node eoi _ _ _ []] =>
      if nameOf gr = "grammar_rule" ∧ nameOf ex = "expression" ∧ nameOf tm = "term" ∧ nameOf st = "string" ∧ nameOf eoi = "EOI" then
        match sliceBytes text a b with
        | some lit =>
          match unescape lit with
          | some u => "str " ++ toHexOrDash (String.ofList ((u.drop 1).dropLast))
          | none => "reject"
        | none => "other"
      else "other"
    | _ => "other"
  | .fail => "reject"
  | _ => "stuck"

def runLine (line : String) : String :=
  match words line with
  | "Y" :: _ => "same"
  | ["Q", h] => match hexOrDash h with | some b => runQ b.toList | none => "bad-op"
  | _ => "bad-op"

end PestModel.ReaderDriver
