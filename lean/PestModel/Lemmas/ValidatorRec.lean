import PestModel.Lemmas.ValidatorNp
/-! C06 helper lemmas, part 4: `leftRecursion … = []` makes the graph of visited rule references
well founded. -/
namespace PestModel.V
open PestModel.G
open PestModel.LineCol (Str)

/-- edge of the left-recursion graph: `b` is looked at in the body of rule `a`. -/
def E (extras : Bool) (rules : List Rule) (a b : String) : Prop :=
  ∃ body, lookup rules a = some body ∧ b ∈ lm extras rules a body

/-- `check_expr` answers `true` with any adequate fuel. -/
def CT (extras : Bool) (rules : List Rule) (e : Expr) (T : List String) : Prop :=
  ∀ F, e.size + rem rules T ≤ F → checkExpr extras rules F e T = true

section
variable {extras : Bool} {rules : List Rule}

theorem ct_ident_head {T : List String} {n : String} (h : T.head? = some n) : CT extras rules (.ident n) T := by
  intro F hF
  obtain ⟨G, rfl⟩ : ∃ G, F = G + 1 := ⟨F - 1, by simp [Expr.size] at hF; omega⟩
  simp [checkExpr, h]

theorem ct_ident_step {T : List String} {n : String} {body : Expr} (hn : n ∉ T) (hl : lookup rules n = some body)
    (h : CT extras rules body (T ++ [n])) : CT extras rules (.ident n) T := by
  intro F hF
  obtain ⟨G, rfl⟩ : ∃ G, F = G + 1 := ⟨F - 1, by simp [Expr.size] at hF; omega⟩
  have hh : T.head? ≠ some n := fun hh => hn (List.mem_of_mem_head? hh)
  have := rem_step hl hn
  simp only [Expr.size] at hF
  simp only [checkExpr, hh, if_false, List.contains_eq_mem, hn, decide_false, Bool.not_false, if_true, hl]
  exact h G (by omega)

theorem ct_sub {T : List String} {cur n : String} (hT : T.getLast? = some cur) (hc : CT extras rules (.ident n) T) :
    ∀ e : Expr, n ∈ lm extras rules cur e → CT extras rules e T := by
  intro e
  induction e with
  | ident m => intro hn; simp only [lm, List.mem_singleton] at hn; subst hn; exact hc
  | seq a b iha ihb =>
    intro hn F hF
    obtain ⟨G, rfl⟩ : ∃ G, F = G + 1 := ⟨F - 1, by simp [Expr.size] at hF; omega⟩
    simp only [Expr.size] at hF
    simp only [lm] at hn
    simp only [checkExpr, hT, Option.toList_some]
    have hcr : (isNonFailing rules (fuelFor rules a) a [cur] || isNonProgressing rules (fuelFor rules a) a [cur]) =
        cross rules cur a := rfl
    rw [hcr]
    cases hx : cross rules cur a with
    | true =>
      simp only [hx, if_true, List.mem_append] at hn ⊢
      rcases hn with hn | hn
      · simp [iha hn G (by omega)]
      · simp [ihb hn G (by omega)]
    | false =>
      simp only [hx, Bool.false_eq_true, if_false] at hn ⊢
      exact iha hn G (by omega)
  | choice a b iha ihb =>
    intro hn F hF
    obtain ⟨G, rfl⟩ : ∃ G, F = G + 1 := ⟨F - 1, by simp [Expr.size] at hF; omega⟩
    simp only [Expr.size] at hF
    simp only [lm, List.mem_append] at hn
    simp only [checkExpr]
    rcases hn with hn | hn
    · simp [iha hn G (by omega)]
    · simp [ihb hn G (by omega)]
  | rep a ih | repOnce a ih | opt a ih | posPred a ih | negPred a ih | push a ih
  | repExact a k ih | repMin a k ih | repMax a k ih | repMinMax a lo hi ih =>
    intro hn F hF
    obtain ⟨G, rfl⟩ : ∃ G, F = G + 1 := ⟨F - 1, by simp [Expr.size] at hF; omega⟩
    simp only [Expr.size] at hF
    simp only [lm] at hn
    simp only [checkExpr]
    exact ih hn G (by omega)
  | nodeTag a t ih =>
    intro hn F hF
    obtain ⟨G, rfl⟩ : ∃ G, F = G + 1 := ⟨F - 1, by simp [Expr.size] at hF; omega⟩
    simp only [Expr.size] at hF
    simp only [lm] at hn
    simp only [checkExpr]
    cases extras
    · simp at hn
    · simp only [if_true] at hn ⊢
      exact ih hn G (by omega)
  | _ => intro hn; simp [lm] at hn

/-- `a → p₁ → … → pₖ = b` in the graph. -/
def Path (extras : Bool) (rules : List Rule) : String → List String → String → Prop
  | a, [], b => a = b
  | a, p :: ps, b => E extras rules a p ∧ Path extras rules p ps b

theorem path_snoc {a b n : String} {ps : List String} (h : Path extras rules a ps b) (he : E extras rules b n) :
    Path extras rules a (ps ++ [n]) n := by
  induction ps generalizing a with
  | nil => simp only [Path] at h; subst h; exact ⟨he, rfl⟩
  | cons p ps ih => exact ⟨h.1, ih h.2⟩

theorem path_hasBody {a b h : String} {ps : List String} (hp : Path extras rules a ps b) (he : E extras rules b h) :
    ∃ body, lookup rules a = some body := by
  cases ps with
  | nil => simp only [Path] at hp; subst hp; obtain ⟨body, hb, _⟩ := he; exact ⟨body, hb⟩
  | cons p ps => obtain ⟨body, hb, _⟩ := hp.1; exact ⟨body, hb⟩

/-- the check follows a simple path back to the rule under test. -/
theorem follow {cur h : String} (he : E extras rules cur h) :
    ∀ (ps : List String) (a : String) (T : List String) (body : Expr), Path extras rules a ps cur →
      T.getLast? = some a → T.head? = some h → (∀ p ∈ ps, p ∉ T) → ps.Nodup → lookup rules a = some body →
      CT extras rules body T := by
  intro ps
  induction ps with
  | nil =>
    intro a T body hp hl hh _ _ hb
    simp only [Path] at hp
    subst hp
    obtain ⟨body', hb', hm⟩ := he
    rw [hb] at hb'
    cases hb'
    exact ct_sub hl (ct_ident_head hh) body hm
  | cons p ps ih =>
    intro a T body hp hl hh hnot hnd hb
    obtain ⟨⟨body', hb', hm⟩, hp2⟩ := hp
    rw [hb] at hb'
    cases hb'
    obtain ⟨bp, hbp⟩ := path_hasBody hp2 he
    have hpT : p ∉ T := hnot p (by simp)
    have hne : T ≠ [] := by intro h0; rw [h0] at hh; simp at hh
    have h1 : CT extras rules bp (T ++ [p]) := by
      refine ih p (T ++ [p]) bp hp2 (by simp) ?_ ?_ (List.nodup_cons.1 hnd).2 hbp
      · rw [List.head?_append]; rw [hh]; rfl
      · intro q hq
        simp only [List.mem_append, List.mem_singleton, not_or]
        refine ⟨hnot q (List.mem_cons_of_mem _ hq), ?_⟩
        intro hqp
        subst hqp
        exact (List.nodup_cons.1 hnd).1 hq
    exact ct_sub hl (ct_ident_step hpT hbp h1) body hm

/-- accepted grammars have no simple cycle. -/
theorem no_simple_cycle (hv : leftRecursion extras rules = []) {h cur : String} {ps : List String}
    (hp : Path extras rules h ps cur) (he : E extras rules cur h) (hnd : (h :: ps).Nodup) : False := by
  obtain ⟨body, hb⟩ := path_hasBody hp he
  have hct := follow he ps h [h] body hp rfl rfl
    (by intro p hp' hc; simp only [List.mem_singleton] at hc; subst hc; exact (List.nodup_cons.1 hnd).1 hp')
    (List.nodup_cons.1 hnd).2 hb
  obtain ⟨r, hr, hrn, hrb⟩ := lookup_some_mem hb
  subst hrb
  subst hrn
  unfold leftRecursion at hv
  rw [List.filterMap_eq_nil_iff] at hv
  have h1 := hv r hr
  have h2 := hct (rulesSize rules + r.expr.size + 2) (by
    have := rem_lt_rulesSize rules [r.name]
    omega)
  rw [h2] at h1
  simp at h1

/-! ### well-foundedness -/

/-- number of names not yet on the chain. -/
def cnt : List String → List String → Nat
  | [], _ => 0
  | x :: xs, V => (if x ∈ V then 0 else 1) + cnt xs V

theorem cnt_le (L V : List String) (a : String) : cnt L (a :: V) ≤ cnt L V := by
  induction L with
  | nil => simp [cnt]
  | cons x xs ih =>
    simp only [cnt, List.mem_cons]
    by_cases h1 : x ∈ V
    · simp [h1, ih]
    · by_cases h2 : x = a
      · simp [h2]; omega
      · simp [h1, h2, ih]

theorem cnt_lt (L V : List String) (a : String) (haL : a ∈ L) (haV : a ∉ V) : cnt L (a :: V) < cnt L V := by
  induction L with
  | nil => simp at haL
  | cons x xs ih =>
    simp only [cnt, List.mem_cons]
    by_cases hxa : x = a
    · subst hxa
      have := cnt_le xs V x
      simp [haV]; omega
    · have haxs : a ∈ xs := by
        rcases List.mem_cons.1 haL with h | h
        · exact absurd h.symm hxa
        · exact h
      have := ih haxs
      by_cases h1 : x ∈ V
      · simp [h1, this]
      · simp [h1, hxa, this]

/-- the chain invariant of the search for a cycle. -/
def ChainInv (extras : Bool) (rules : List Rule) (V : List String) (cur : String) : Prop :=
  cur ∉ V ∧ ∀ h ∈ V, ∃ ps, Path extras rules h ps cur ∧ (h :: ps).Nodup ∧ ∀ p ∈ ps, p ∈ V ∨ p = cur

theorem acc_aux (hv : leftRecursion extras rules = []) :
    ∀ (k : Nat) (V : List String) (cur : String), ChainInv extras rules V cur →
      cnt (rules.map (·.name)) V ≤ k → (lookup rules cur).isSome = true →
      Acc (fun b a => E extras rules a b) cur := by
  intro k
  induction k with
  | zero =>
    intro V cur hinv hk hsome
    obtain ⟨body, hb⟩ := Option.isSome_iff_exists.1 hsome
    obtain ⟨r, hr, hrn, _⟩ := lookup_some_mem hb
    have hcur : cur ∈ rules.map (·.name) := List.mem_map.2 ⟨r, hr, hrn⟩
    have := cnt_lt (rules.map (·.name)) V cur hcur hinv.1
    omega
  | succ k ih =>
    intro V cur hinv hk hsome
    obtain ⟨body, hb⟩ := Option.isSome_iff_exists.1 hsome
    obtain ⟨r, hr, hrn, _⟩ := lookup_some_mem hb
    refine Acc.intro cur (fun n hE => ?_)
    cases hln : lookup rules n with
    | none =>
      refine Acc.intro n (fun m hm => ?_)
      obtain ⟨b', hb', _⟩ := hm
      rw [hln] at hb'; cases hb'
    | some bn =>
      by_cases hnc : n = cur
      · subst hnc
        exact (no_simple_cycle hv (h := n) (ps := []) (cur := n) rfl hE (by simp)).elim
      by_cases hnV : n ∈ V
      · obtain ⟨ps, hp, hnd, _⟩ := hinv.2 n hnV
        exact (no_simple_cycle hv hp hE hnd).elim
      refine ih (cur :: V) n ⟨?_, ?_⟩ ?_ (by simp [hln])
      · simp [hnc, hnV]
      · intro h hh
        rcases List.mem_cons.1 hh with rfl | hh
        · refine ⟨[n], ⟨hE, rfl⟩, ?_, ?_⟩
          · simp; exact fun hx => hnc hx.symm
          · intro p hp; simp at hp; exact Or.inr hp
        · obtain ⟨ps, hp, hnd, hmem⟩ := hinv.2 h hh
          refine ⟨ps ++ [n], path_snoc hp hE, ?_, ?_⟩
          · have hn_not : n ∉ h :: ps := by
              intro hx
              rcases List.mem_cons.1 hx with rfl | hx
              · exact hnV hh
              · rcases hmem n hx with h1 | h1
                · exact hnV h1
                · exact hnc h1
            rw [← List.cons_append]
            rw [List.nodup_append]
            refine ⟨hnd, by simp, ?_⟩
            intro a ha b hb
            simp only [List.mem_singleton] at hb
            subst hb
            intro hab; subst hab; exact hn_not ha
          · intro p hp
            simp only [List.mem_append, List.mem_singleton] at hp
            rcases hp with hp | hp
            · rcases hmem p hp with h1 | h1
              · exact Or.inl (List.mem_cons_of_mem _ h1)
              · exact Or.inl (by rw [h1]; exact List.mem_cons_self)
            · exact Or.inr hp
      · have hcur : cur ∈ rules.map (·.name) := List.mem_map.2 ⟨r, hr, hrn⟩
        have := cnt_lt (rules.map (·.name)) V cur hcur hinv.1
        omega

/-- **the left-recursion graph of an accepted grammar is well founded.** -/
theorem acc_all (hv : leftRecursion extras rules = []) (r : String) : Acc (fun b a => E extras rules a b) r := by
  cases hl : lookup rules r with
  | none =>
    refine Acc.intro r (fun m hm => ?_)
    obtain ⟨b', hb', _⟩ := hm
    rw [hl] at hb'; cases hb'
  | some body =>
    exact acc_aux hv _ [] r ⟨by simp, by simp⟩ (Nat.le_refl _) (by simp [hl])

/-- reachability along visited positions is a chain of edges. -/
theorem creach_transGen {cur : String} {e : Expr} {id : String}
    (hcl : ∀ n ∈ lm extras rules cur e, E extras rules cur n) (h : CReach extras rules cur e id) :
    Relation.TransGen (fun b a => E extras rules a b) id cur := by
  induction h with
  | direct hm => exact .single (hcl _ hm)
  | step hm hl _ ih =>
    exact .tail (ih (fun n hn => ⟨_, hl, hn⟩)) (hcl _ hm)

theorem acc_irrefl {α : Type} {r : α → α → Prop} {a : α} (h : Acc r a) : ¬ r a a := by
  induction h with
  | intro x _ ih => intro hx; exact ih x hx hx

/-- no rule reaches itself. -/
theorem no_cycle (hv : leftRecursion extras rules = []) {cur : String} {e : Expr}
    (hcl : ∀ n ∈ lm extras rules cur e, E extras rules cur n) : ¬ CReach extras rules cur e cur := by
  intro h
  exact acc_irrefl (acc_all hv cur).transGen (creach_transGen hcl h)

end
end PestModel.V
