import PestModel.Lemmas.VmRefComb
import PestModel.Thm.C03Prim
/-! C01, part 3: the matching primitives and stack primitives against the reference's leaves. -/
namespace PestModel.VmRef
open PestModel.G PestModel.PS PestModel.Lower PestModel.Ref PestModel.Views
open PestModel.LineCol (Str isBoundary bLen cLen splitAt? slice?)
open PestModel.Stack (StkInv)

/-- outcome `o` (of a run from `st`) matches the reference result `R`. -/
def OutSpec (o : Out) (st : PState) (R : Res) (E : PState → PState → Prop) : Prop :=
  match o with
  | .ok st' => ∃ σ' f, R = .ok σ' f ∧ st'.pos = σ'.pos ∧ st'.stack.cache = σ'.stack ∧
      st'.queue = pushNodes st.queue f
  | .err st' => R = .fail ∧ E st st'
  | .panic => R = .stuck
  | .fuel => True

variable {cfg : Cfg} {c : Ctx}

theorem spec_of_outSpec {n p m la D E}
    (h : ∀ k, n = k + 1 → ∀ st σ, Sim c.input m la st σ → OutSpec (run cfg (k + 1) p st) st (D σ) E) :
    Spec cfg c.input n p m la D E := by
  cases n with
  | zero => exact Spec.zero _ _ _ _ _
  | succ k => exact fun st σ hs => h k rfl st σ hs

theorem handleToken_off {s : PState} (h : s.pa.enabled = false) (start : Nat) (tok : PTok) (b : Bool) :
    handleToken s start tok b = s := by
  unfold handleToken; simp [h]

theorem terminal_eq {st : PState} (hen : st.pa.enabled = false) (b : Bool) (pos' : Nat) (tok : Option PTok) :
    terminal st (some (b, pos')) tok =
      if b then .ok { st with pos := pos' } else .err { st with pos := pos' } := by
  unfold terminal
  cases tok with
  | none => rfl
  | some t =>
    dsimp only
    rw [handleToken_off (s := { st with pos := pos' }) hen]

/-- a terminal that moves to `pos'` on success and stays on failure. -/
theorem outSpec_terminal {m la} {st : PState} {σ : St} (hs : Sim c.input m la st σ) (tok : Option PTok)
    (b : Bool) (adv : Nat) :
    OutSpec (terminal st (some (if b then (true, st.pos + adv) else (false, st.pos))) tok) st
      (if b then .ok { σ with pos := σ.pos + adv } [] else .fail) (Rest True) := by
  cases b with
  | true =>
    rw [if_pos rfl, terminal_eq hs.en, if_pos rfl, if_pos rfl]
    exact ⟨_, [], rfl, by show st.pos + adv = σ.pos + adv; rw [hs.pos], hs.stk, by rw [pushNodes_nil]⟩
  | false =>
    simp only [Bool.false_eq_true, if_false]
    rw [terminal_eq hs.en]
    exact ⟨rfl, rfl, rfl, fun _ => rfl⟩

theorem Sim.restAt {m la} {st : PState} {σ : St} (hs : Sim c.input m la st σ) :
    ∃ rest, restAt c.input st.pos = some rest ∧ restAt c.input σ.pos = some rest := by
  obtain ⟨rest, h⟩ := restAt_isSome hs.bnd
  exact ⟨rest, h, by rw [← hs.pos]; exact h⟩

/-! ### matching primitives -/

theorem outSpec_matchString {m la} {st : PState} {σ : St} (hs : Sim c.input m la st σ) (str : Str)
    (tok : Option PTok) :
    OutSpec (terminal st (posMatchString st.input st.pos str) tok) st (lit c σ str) (Rest True) := by
  obtain ⟨rest, h1, h2⟩ := hs.restAt
  rw [hs.inp, posMatchString_eq str h1, lit_eq h2]
  have := outSpec_terminal hs tok (str.isPrefixOf rest) (bLen str)
  cases hb : str.isPrefixOf rest <;> rw [hb] at this <;> simpa using this

theorem spec_matchString {n m la} (str : Str) :
    Spec cfg c.input n (.matchString str) m la (fun σ => lit c σ str) (Rest True) :=
  spec_of_outSpec fun k _ st σ hs => by
    rw [run]; exact outSpec_matchString hs str _

theorem spec_matchInsensitive {n m la} (str : Str) :
    Spec cfg c.input n (.matchInsensitive str) m la (fun σ => insensM c σ str) (Rest True) :=
  spec_of_outSpec fun k _ st σ hs => by
    rw [run]
    obtain ⟨rest, h1, h2⟩ := hs.restAt
    unfold posMatchInsensitive insensM
    rw [hs.inp, h1, h2]
    dsimp only
    cases hsp : splitAt? rest (bLen str) with
    | none =>
      dsimp only
      have := outSpec_terminal hs (some (.insens str)) false 0
      simpa using this
    | some pq =>
      obtain ⟨pre, post⟩ := pq
      dsimp only
      have := outSpec_terminal hs (some (.insens str)) (eqIgnoreAsciiCase pre str) (bLen str)
      cases hb : eqIgnoreAsciiCase pre str <;> rw [hb] at this <;> simpa using this

theorem outSpec_oneChar {m la} {st : PState} {σ : St} (hs : Sim c.input m la st σ) (tok : Option PTok)
    (p : Char → Bool) (r : Option (Bool × Nat))
    (hr : ∀ rest, restAt c.input st.pos = some rest →
      r = some (match rest with
        | [] => (false, st.pos)
        | ch :: _ => if p ch then (true, st.pos + cLen ch) else (false, st.pos))) :
    OutSpec (terminal st r tok) st (oneChar c σ p) (Rest True) := by
  obtain ⟨rest, h1, h2⟩ := hs.restAt
  rw [hr rest h1]
  unfold oneChar
  rw [h2]
  cases rest with
  | nil =>
    have := outSpec_terminal hs tok false 0
    simpa using this
  | cons ch cs =>
    dsimp only
    have := outSpec_terminal hs tok (p ch) (cLen ch)
    cases hb : p ch <;> rw [hb] at this <;> simpa using this

theorem spec_matchRange {n m la} (a b : Char) :
    Spec cfg c.input n (.matchRange a b) m la (fun σ => oneChar c σ (fun ch => a ≤ ch ∧ ch ≤ b))
      (Rest True) :=
  spec_of_outSpec fun k _ st σ hs => by
    rw [run]
    refine outSpec_oneChar hs _ _ _ fun rest hrest => ?_
    rw [hs.inp, C03.matchRange_spec _ _ _ _ _ hrest]
    cases rest with
    | nil => rfl
    | cons ch cs => simp only [Bool.decide_and, Bool.and_eq_true, decide_eq_true_eq]

theorem spec_matchCharBy {n m la} (cs : CharSet) :
    Spec cfg c.input n (.matchCharBy cs) m la (fun σ => oneChar c σ cs.mem) (Rest True) :=
  spec_of_outSpec fun k _ st σ hs => by
    rw [run]
    refine outSpec_oneChar hs _ _ _ fun rest hrest => ?_
    rw [hs.inp, C03.matchCharBy_spec _ _ _ _ hrest]
    cases rest <;> rfl

theorem spec_skip1 {n m la} :
    Spec cfg c.input n (.skip 1) m la (fun σ => oneChar c σ (fun _ => true)) (Rest True) :=
  spec_of_outSpec fun k _ st σ hs => by
    rw [run]
    refine outSpec_oneChar hs _ _ _ fun rest hrest => ?_
    rw [hs.inp, (C03.skip_spec _ _ _ 1 hrest).1]
    cases rest with
    | nil => simp
    | cons ch cs => simp [bLen]

theorem skipUntilBasicGo_eq_search (strs : List Str) (rest : Str) (off : Nat) :
    (skipUntilBasicGo strs rest off).1 = search strs rest off := by
  induction rest generalizing off with
  | nil => rfl
  | cons ch cs ih =>
    unfold skipUntilBasicGo search
    split
    · rfl
    · exact ih _

theorem spec_skipUntil {n m la E} (strs : List Str) :
    Spec cfg c.input n (.skipUntil strs) m la
      (fun σ => match restAt c.input σ.pos with
        | some rest => .ok { σ with pos := search strs rest σ.pos } []
        | none => .fail) E :=
  spec_of_outSpec fun k _ st σ hs => by
    rw [run]
    obtain ⟨rest, h1, h2⟩ := hs.restAt
    have e : posSkipUntil cfg.memchr st.input st.pos strs = some (search strs rest st.pos) := by
      have : posSkipUntil cfg.memchr st.input st.pos strs = posSkipUntil false st.input st.pos strs := by
        cases cfg.memchr
        · rfl
        · exact C03.skipUntil_memchr_eq_basic _ _ _
      rw [this, hs.inp]
      unfold posSkipUntil
      rw [h1]
      simp [skipUntilBasicGo_eq_search]
    rw [e, h2]
    exact ⟨_, [], rfl, by show search strs rest st.pos = search strs rest σ.pos; rw [hs.pos], hs.stk,
      by rw [pushNodes_nil]⟩

theorem spec_startOfInput {n m la} :
    Spec cfg c.input n .startOfInput m la (fun σ => if σ.pos = 0 then .ok σ [] else .fail) (Rest True) :=
  spec_of_outSpec fun k _ st σ hs => by
    rw [run, hs.pos]
    split
    · exact ⟨σ, [], rfl, hs.pos, hs.stk, by rw [pushNodes_nil]⟩
    · exact ⟨rfl, rfl, rfl, fun _ => rfl⟩

theorem spec_endOfInput {n m la} :
    Spec cfg c.input n .endOfInput m la (fun σ => if σ.pos = bLen c.input then .ok σ [] else .fail)
      (Rest True) :=
  spec_of_outSpec fun k _ st σ hs => by
    rw [run, hs.pos, hs.inp]
    split
    · exact ⟨σ, [], rfl, hs.pos, hs.stk, by rw [pushNodes_nil]⟩
    · exact ⟨rfl, rfl, rfl, fun _ => rfl⟩

theorem spec_stackPushLiteral {n m la E} (str : Str) :
    Spec cfg c.input n (.stackPushLiteral str) m la
      (fun σ => .ok { σ with stack := str :: σ.stack } []) E :=
  spec_of_outSpec fun k _ st σ hs => by
    rw [run]
    exact ⟨_, [], rfl, hs.pos, by show str :: st.stack.cache = str :: σ.stack; rw [hs.stk],
      by rw [pushNodes_nil]⟩

end PestModel.VmRef
