import PestModel.Model.StackDriver
import PestModel.Model.LineColDriver
import PestModel.Model.PrattDriver
import PestModel.Model.PStateDriver
import PestModel.Model.ViewsDriver
import PestModel.Model.GrammarDriver
import PestModel.Model.UnicodeDriver
import PestModel.Model.ReaderDriver
import PestModel.Model.DebuggerDriver

open PestModel

partial def loop (h : IO.FS.Stream) (out : IO.FS.Stream) (f : String → String) : IO Unit := do
  let line ← h.getLine
  if line.isEmpty then return ()
  out.putStrLn (f line)
  loop h out f

def main (args : List String) : IO UInt32 := do
  let stdin ← IO.getStdin
  let stdout ← IO.getStdout
  match args with
  | ["stack"] => loop stdin stdout StackDriver.runLine; return 0
  | ["linecol"] => loop stdin stdout LineColDriver.runLine; return 0
  | ["pratt"] => loop stdin stdout PrattDriver.runLine; return 0
  | ["prog"] => loop stdin stdout PStateDriver.runLine; return 0
  | ["views"] => loop stdin stdout ViewsDriver.runLine; return 0
  | ["grammar"] => loop stdin stdout GrammarDriver.runLine; return 0
  | ["unicode"] => loop stdin stdout UnicodeDriver.runLine; return 0
  | ["read"] => loop stdin stdout ReaderDriver.runLine; return 0
  | ["dbg"] => loop stdin stdout DbgDriver.runLine; return 0
  | _ => IO.eprintln "usage: pestmodel <mode>"; return 2
