import PestModel.Model.Ref
import PestModel.Lemmas.PStatePrim
namespace PestModel.Ref
open PestModel.G
open PestModel.LineCol
open PestModel.Views (Tree)
open PestModel.PS (Atomicity CharSet restAt asciiLower eqIgnoreAsciiCase normalizeIndex restAt_iff restAt_advance)

/-! String-level facts about the reference semantics: literals, case-insensitive literals,
single characters, stack matching and `skip`. -/

/-- the position is a character boundary of the input. -/
def Valid (c : Ctx) (s : St) : Prop := (restAt c.input s.pos).isSome = true

/-- the case-insensitive literal match (the body of `denote` on `.insens`). -/
def insensM (c : Ctx) (s : St) (str : Str) : Res :=
  match restAt c.input s.pos with
  | some rest =>
    match splitAt? rest (bLen str) with
    | some (pre, _) => if eqIgnoreAsciiCase pre str then .ok { s with pos := s.pos + bLen str } [] else .fail
    | none => .fail
  | none => .fail

/-! ### byte lengths and ASCII case folding -/

theorem cLen_lower_aux : ∀ n, n < 91 → (Char.ofNat (n + 32)).utf8Size = 1 := by decide

theorem cLen_asciiLower (x : Char) : cLen (asciiLower x) = cLen x := by
  unfold asciiLower
  split
  · rename_i h
    obtain ⟨_, h2⟩ := h
    have h2' : x.toNat ≤ 90 := by
      have := UInt32.le_iff_toNat_le.1 (Char.le_def.1 h2)
      simpa using this
    have hx : cLen x = 1 := by
      unfold cLen
      rw [Char.utf8Size_eq_one_iff, UInt32.le_iff_toNat_le]
      simp; omega
    rw [hx]
    exact cLen_lower_aux _ (by omega)
  · rfl

theorem cLen_eq_of_asciiLower_eq {x y : Char} (h : asciiLower x = asciiLower y) : cLen x = cLen y := by
  rw [← cLen_asciiLower x, ← cLen_asciiLower y, h]

theorem bLen_eq_of_map_asciiLower_eq {x y : Str} (h : x.map asciiLower = y.map asciiLower) :
    bLen x = bLen y := by
  induction x generalizing y with
  | nil => cases y with
    | nil => rfl
    | cons d ds => simp at h
  | cons c cs ih =>
    cases y with
    | nil => simp at h
    | cons d ds =>
      simp only [List.map_cons, List.cons.injEq] at h
      simp [cLen_eq_of_asciiLower_eq h.1, ih h.2]

/-- decidable description of "`str` matches case-insensitively at the head of `rest`". -/
def InsMatch (rest str : Str) : Prop := (rest.take str.length).map asciiLower = str.map asciiLower

instance (rest str : Str) : Decidable (InsMatch rest str) := by unfold InsMatch; infer_instance

theorem InsMatch.length_le {rest str : Str} (h : InsMatch rest str) : str.length ≤ rest.length := by
  have := congrArg List.length h
  simp at this
  omega

theorem InsMatch.bLen_take {rest str : Str} (h : InsMatch rest str) :
    bLen (rest.take str.length) = bLen str := bLen_eq_of_map_asciiLower_eq h

theorem insMatch_append (rest a b : Str) :
    InsMatch rest (a ++ b) ↔ InsMatch rest a ∧ InsMatch (rest.drop a.length) b := by
  unfold InsMatch
  rw [List.length_append, List.take_add, List.map_append, List.map_append]
  constructor
  · intro h
    have hl := congrArg List.length h
    simp at hl
    exact List.append_inj h (by simp; omega)
  · rintro ⟨h1, h2⟩
    rw [h1, h2]

/-- the result of the split-and-compare in `insensM`, in terms of `InsMatch`. -/
theorem insens_split_iff (rest str : Str) :
    (∃ pre post, splitAt? rest (bLen str) = some (pre, post) ∧ eqIgnoreAsciiCase pre str = true) ↔
      InsMatch rest str := by
  constructor
  · rintro ⟨pre, post, hs, he⟩
    obtain ⟨rfl, _⟩ := splitAt_some hs
    have he' : pre.map asciiLower = str.map asciiLower := by simpa [eqIgnoreAsciiCase] using he
    have hl : pre.length = str.length := by simpa using congrArg List.length he'
    unfold InsMatch
    rw [← hl]
    simpa using he'
  · intro h
    refine ⟨rest.take str.length, rest.drop str.length, ?_, ?_⟩
    · rw [← h.bLen_take]
      conv => lhs; arg 1; rw [← List.take_append_drop str.length rest]
      exact splitAt_append _ _
    · have h' : (rest.take str.length).map asciiLower = str.map asciiLower := h
      simp only [eqIgnoreAsciiCase, h', beq_self_eq_true]

theorem insensM_eq {c : Ctx} {s : St} {rest : Str} (h : restAt c.input s.pos = some rest) (str : Str) :
    insensM c s str =
      if InsMatch rest str then .ok { s with pos := s.pos + bLen str } [] else .fail := by
  unfold insensM
  rw [h]
  simp only
  by_cases hm : InsMatch rest str
  · obtain ⟨pre, post, hs, he⟩ := (insens_split_iff rest str).2 hm
    rw [hs, if_pos hm]
    simp [he]
  · rw [if_neg hm]
    split
    · rename_i pre post hs
      split
      · rename_i he
        exact absurd ((insens_split_iff rest str).1 ⟨pre, post, hs, he⟩) hm
      · rfl
    · rfl

theorem insensM_none {c : Ctx} {s : St} (h : restAt c.input s.pos = none) (str : Str) :
    insensM c s str = .fail := by
  unfold insensM
  rw [h]

theorem lit_eq {c : Ctx} {s : St} {rest : Str} (h : restAt c.input s.pos = some rest) (str : Str) :
    lit c s str =
      if str.isPrefixOf rest then .ok { s with pos := s.pos + bLen str } [] else .fail := by
  unfold lit
  rw [h]

theorem lit_none {c : Ctx} {s : St} (h : restAt c.input s.pos = none) (str : Str) :
    lit c s str = .fail := by
  unfold lit
  rw [h]

/-! ### forests -/

theorem lit_forest {c : Ctx} {s s1 : St} {str : Str} {f : List Tree} (h : lit c s str = .ok s1 f) : f = [] := by
  unfold lit at h
  split at h
  · split at h
    · simp only [Res.ok.injEq] at h; exact h.2.symm
    · simp at h
  · simp at h

theorem insensM_forest {c : Ctx} {s s1 : St} {str : Str} {f : List Tree} (h : insensM c s str = .ok s1 f) : f = [] := by
  unfold insensM at h
  split at h
  · split at h
    · split at h
      · simp only [Res.ok.injEq] at h; exact h.2.symm
      · simp at h
    · simp at h
  · simp at h

/-! ### validity of the resulting position -/

theorem lit_valid {c : Ctx} {s s1 : St} {str : Str} {f : List Tree} (h : lit c s str = .ok s1 f) : Valid c s1 := by
  unfold lit at h
  split at h
  · rename_i rest hr
    split at h
    · rename_i hp
      simp only [Res.ok.injEq] at h
      obtain ⟨t, rfl⟩ := List.isPrefixOf_iff_prefix.1 hp
      unfold Valid
      rw [← h.1]
      simp [restAt_advance hr rfl]
    · simp at h
  · simp at h

theorem insensM_valid {c : Ctx} {s s1 : St} {str : Str} {f : List Tree} (h : insensM c s str = .ok s1 f) : Valid c s1 := by
  cases hr : restAt c.input s.pos with
  | none => rw [insensM_none hr] at h; simp at h
  | some rest =>
    rw [insensM_eq hr] at h
    split at h
    · rename_i hm
      simp only [Res.ok.injEq] at h
      unfold Valid
      rw [← h.1]
      have := restAt_advance hr (List.take_append_drop str.length rest).symm
      rw [hm.bLen_take] at this
      simp [this]
    · simp at h

theorem oneChar_valid {c : Ctx} {s s1 : St} {p : Char → Bool} {f : List Tree} (h : oneChar c s p = .ok s1 f) : Valid c s1 := by
  unfold oneChar at h
  split at h
  · rename_i ch t hr
    split at h
    · simp only [Res.ok.injEq] at h
      unfold Valid
      rw [← h.1]
      have := restAt_advance (pre := [ch]) (post := t) hr rfl
      simp at this
      simp [this]
    · simp at h
  · simp at h

theorem matchStrs_valid {input : Str} {xs : List Str} {pos p : Nat}
    (hv : (restAt input pos).isSome = true) (h : matchStrs input xs pos = some p) : (restAt input p).isSome = true := by
  induction xs generalizing pos with
  | nil =>
    simp only [matchStrs, Option.some.injEq] at h
    rw [← h]; exact hv
  | cons x xs ih =>
    simp only [matchStrs] at h
    split at h
    · rename_i rest hr
      split at h
      · rename_i hp
        obtain ⟨t, rfl⟩ := List.isPrefixOf_iff_prefix.1 hp
        exact ih (by simp [restAt_advance hr rfl]) h
      · simp at h
    · simp at h

/-- more precise description of `search`: the result is `pos + bLen skipped` where `rest = skipped ++ rest'`,
no string matches at any character boundary strictly inside `skipped`, and either `rest' = []` or some string matches at `rest'`. -/
theorem search_spec (strs : List Str) (rest : Str) (off : Nat) :
    ∃ skipped rest', rest = skipped ++ rest' ∧ search strs rest off = off + bLen skipped ∧
      (rest' ≠ [] → strs.any (·.isPrefixOf rest') = true) ∧
      (∀ k, k < skipped.length → strs.any (·.isPrefixOf (rest.drop k)) = false) := by
  induction rest generalizing off with
  | nil => exact ⟨[], [], rfl, by simp [search], by simp, by simp⟩
  | cons c cs ih =>
    unfold search
    by_cases hc : strs.any (·.isPrefixOf (c :: cs)) = true
    · rw [if_pos hc]
      exact ⟨[], c :: cs, rfl, by simp, fun _ => hc, by simp⟩
    · rw [if_neg hc]
      obtain ⟨sk, r', hr, h1, h2, h3⟩ := ih (off + cLen c)
      refine ⟨c :: sk, r', by simp [hr], by rw [h1]; simp; omega, h2, ?_⟩
      intro k hk
      cases k with
      | zero => simpa using hc
      | succ k => simpa using h3 k (by simpa using hk)

theorem search_valid {input rest : Str} {pos : Nat} (strs : List Str) (h : restAt input pos = some rest) :
    (restAt input (search strs rest pos)).isSome = true := by
  obtain ⟨sk, r', hr, h1, _, _⟩ := search_spec strs rest pos
  rw [h1, restAt_advance h hr]
  rfl

/-! ### concatenation -/

/-- `"a" ~ "b"` (no implicit whitespace) is `"ab"`. -/
theorem lit_append (c : Ctx) (s : St) (a b : Str) :
    lit c s (a ++ b) = match lit c s a with
      | .ok s1 _ => lit c s1 b
      | r => r := by
  cases hr : restAt c.input s.pos with
  | none => rw [lit_none hr, lit_none hr]
  | some rest =>
    rw [lit_eq hr (a ++ b), lit_eq hr a]
    by_cases ha : a.isPrefixOf rest = true
    · obtain ⟨t, rfl⟩ := List.isPrefixOf_iff_prefix.1 ha
      rw [if_pos ha]
      simp only
      have hr1 : restAt c.input ({ s with pos := s.pos + bLen a } : St).pos = some t :=
        restAt_advance hr rfl
      rw [lit_eq hr1 b]
      have hiff : (a ++ b).isPrefixOf (a ++ t) = b.isPrefixOf t := by
        rw [Bool.eq_iff_iff]
        simp [List.isPrefixOf_iff_prefix, List.prefix_append_right_inj]
      rw [hiff]
      simp [Nat.add_assoc]
    · have hab : ¬ (a ++ b).isPrefixOf rest = true := by
        intro hc
        apply ha
        rw [List.isPrefixOf_iff_prefix] at hc ⊢
        exact List.IsPrefix.trans (by simp) hc
      rw [if_neg ha, if_neg hab]

theorem insensM_append (c : Ctx) (s : St) (a b : Str) :
    insensM c s (a ++ b) = match insensM c s a with
      | .ok s1 _ => insensM c s1 b
      | r => r := by
  cases hr : restAt c.input s.pos with
  | none => rw [insensM_none hr, insensM_none hr]
  | some rest =>
    rw [insensM_eq hr (a ++ b), insensM_eq hr a]
    by_cases ha : InsMatch rest a
    · rw [if_pos ha]
      simp only
      have hr1 : restAt c.input ({ s with pos := s.pos + bLen a } : St).pos = some (rest.drop a.length) := by
        have := restAt_advance hr (List.take_append_drop a.length rest).symm
        rw [ha.bLen_take] at this
        exact this
      rw [insensM_eq hr1 b]
      by_cases hb : InsMatch (rest.drop a.length) b
      · rw [if_pos hb, if_pos ((insMatch_append rest a b).2 ⟨ha, hb⟩)]
        simp [Nat.add_assoc]
      · rw [if_neg hb, if_neg (fun h => hb ((insMatch_append rest a b).1 h).2)]
    · rw [if_neg ha, if_neg (fun h => ha ((insMatch_append rest a b).1 h).1)]

end PestModel.Ref
