import PestModel.Lemmas.TrackState
/-! Lemmas for C08, part 4: the traced specification `TSpec` (an extension of C01's `Spec`: the
instrumented reference produces calls `cs`, and the state's attempt bookkeeping has moved by
`stepAtt · cs`) and one lemma per `ParserState` combinator. -/
namespace PestModel.Track
open PestModel.G PestModel.PS PestModel.Lower PestModel.Ref PestModel.RefTrace PestModel.VmRef
open PestModel.LineCol (Str isBoundary bLen cLen splitAt? slice?)
open PestModel.Stack (StkInv)

def toLA : Lookahead → LA
  | .none => .none
  | .positive => .pos
  | .negative => .neg

def _root_.PestModel.RefTrace.LA.b : LA → Bool
  | .none => false
  | _ => true

/-- a traced reference function: from `σ` the result is `r` and the calls made are `cs`. -/
abbrev DT := St → R → List Call → Prop

def TSpec (cfg : Cfg) (input : Str) (n : Nat) (p : Prog) (m : Atomicity) (la : LA) (D : DT) : Prop :=
  ∀ st σ, Sim input m la.b st σ → toLA st.lookahead = la →
    match run cfg n p st with
    | .ok st' => ∃ σ' cs, D σ (.ok σ') cs ∧ st'.pos = σ'.pos ∧ st'.stack.cache = σ'.stack ∧
        att st' = stepAtt (att st) cs
    | .err st' => ∃ cs, D σ .fail cs ∧ att st' = stepAtt (att st) cs
    | _ => True

variable {cfg : Cfg} {input : Str}

theorem TSpec.zero (p : Prog) (m : Atomicity) (la : LA) (D : DT) : TSpec cfg input 0 p m la D := by
  intro st σ _ _
  rw [run_zero]; trivial

theorem TSpec.ok {n p m la D} (h : TSpec cfg input n p m la D) {st σ st'} (hs : Sim input m la.b st σ)
    (hl : toLA st.lookahead = la) (hr : run cfg n p st = .ok st') :
    ∃ σ' cs, D σ (.ok σ') cs ∧ st'.pos = σ'.pos ∧ st'.stack.cache = σ'.stack ∧
      att st' = stepAtt (att st) cs := by
  have := h st σ hs hl
  rw [hr] at this
  exact this

theorem TSpec.err {n p m la D} (h : TSpec cfg input n p m la D) {st σ st'} (hs : Sim input m la.b st σ)
    (hl : toLA st.lookahead = la) (hr : run cfg n p st = .err st') :
    ∃ cs, D σ .fail cs ∧ att st' = stepAtt (att st) cs := by
  have := h st σ hs hl
  rw [hr] at this
  exact this

theorem TSpec.mono {n p m la} {D D' : DT} (h : TSpec cfg input n p m la D)
    (hD : ∀ σ r cs, D σ r cs → D' σ r cs) : TSpec cfg input n p m la D' := by
  intro st σ hs hl
  have := h st σ hs hl
  cases hr : run cfg n p st <;> rw [hr] at this <;> simp only [] at this ⊢
  · obtain ⟨σ', cs, h1, h2⟩ := this
    exact ⟨σ', cs, hD _ _ _ h1, h2⟩
  · obtain ⟨cs, h1, h2⟩ := this
    exact ⟨cs, hD _ _ _ h1, h2⟩

theorem la_next_ok {n p} {st st' : PState} (hr : run cfg n p st = .ok st') :
    st'.lookahead = st.lookahead := (run_ok_rel hr).la
theorem la_next_err {n p} {st st' : PState} (hr : run cfg n p st = .err st') :
    st'.lookahead = st.lookahead := (run_err_rel hr).la

/-! ### reference-side combinators -/

def seqT (D1 D2 : DT) : DT := fun σ r cs =>
  (r = .fail ∧ D1 σ .fail cs) ∨ (∃ σ1 c1 c2, D1 σ (.ok σ1) c1 ∧ D2 σ1 r c2 ∧ cs = c1 ++ c2)

def altT (D1 D2 : DT) : DT := fun σ r cs =>
  (∃ σ1, r = .ok σ1 ∧ D1 σ r cs) ∨ (∃ c1 c2, D1 σ .fail c1 ∧ D2 σ r c2 ∧ cs = c1 ++ c2)

def optT (D : DT) : DT := fun σ r cs =>
  (∃ σ1, r = .ok σ1 ∧ D σ r cs) ∨ (r = .ok σ ∧ D σ .fail cs)

def laT (positive : Bool) (D : DT) : DT := fun σ r cs =>
  (∃ σ1, D σ (.ok σ1) cs ∧ r = if positive then .ok σ else .fail) ∨
  (D σ .fail cs ∧ r = if positive then .fail else .ok σ)

def ruleT (id : Nat) (m : Atomicity) (la : LA) (D : DT) : DT := fun σ r cs =>
  ∃ kids, D σ r kids ∧
    cs = [.node id σ.pos r.isOk (decide (la = .neg)) (decide (m ≠ .atomic)) kids]

def pushT (input : Str) (D : DT) : DT := fun σ r cs =>
  (r = .fail ∧ D σ .fail cs) ∨
  (∃ σ1 str, D σ (.ok σ1) cs ∧ slice? input σ.pos σ1.pos = some str ∧
    r = .ok { σ1 with stack := str :: σ1.stack })

/-- the loop `L` (with accumulator) over the unit `U`. -/
structure IsLoopT (U : DT) (L : St → List Call → R → List Call → Prop) : Prop where
  step : ∀ s s1 c1 acc r cs, U s (.ok s1) c1 → L s1 (acc ++ c1) r cs → L s acc r cs
  stop : ∀ s c1 acc, U s .fail c1 → L s acc (.ok s) (acc ++ c1)

def loopT (L : St → List Call → R → List Call → Prop) : DT := fun σ r cs => ∀ acc, L σ acc r (acc ++ cs)

/-! ### `call`, `andThen`, `orElse` -/

theorem tspec_call {n i p m la D} (hi : cfg.env[i]? = some p) (h : TSpec cfg input (n - 1) p m la D) :
    TSpec cfg input n (.call i) m la D := by
  cases n with
  | zero => exact TSpec.zero _ _ _ _
  | succ k =>
    simp only [Nat.add_sub_cancel] at h
    intro st σ hs hl
    rw [run_call, hi]
    exact h st σ hs hl

theorem tspec_andThen {n p q m la D1 D2} (h1 : TSpec cfg input (n - 1) p m la D1)
    (h2 : TSpec cfg input (n - 1) q m la D2) :
    TSpec cfg input n (.andThen p q) m la (seqT D1 D2) := by
  cases n with
  | zero => exact TSpec.zero _ _ _ _
  | succ k =>
    simp only [Nat.add_sub_cancel] at h1 h2
    intro st σ hs hl
    rw [run_andThen]
    cases hr : run cfg k p st with
    | ok st1 =>
      obtain ⟨σ1, c1, hd1, hp1, hk1, ha1⟩ := h1.ok hs hl hr
      have hs1 := hs.next_ok hr hp1 hk1
      have hl1 : toLA st1.lookahead = la := by rw [la_next_ok hr]; exact hl
      dsimp only
      cases hr2 : run cfg k q st1 with
      | ok st2 =>
        obtain ⟨σ2, c2, hd2, hp2, hk2, ha2⟩ := h2.ok hs1 hl1 hr2
        exact ⟨σ2, c1 ++ c2, Or.inr ⟨σ1, c1, c2, hd1, hd2, rfl⟩, hp2, hk2,
          by rw [ha2, ha1, stepAtt_append]⟩
      | err st2 =>
        obtain ⟨c2, hd2, ha2⟩ := h2.err hs1 hl1 hr2
        exact ⟨c1 ++ c2, Or.inr ⟨σ1, c1, c2, hd1, hd2, rfl⟩, by rw [ha2, ha1, stepAtt_append]⟩
      | panic => trivial
      | fuel => trivial
    | err st1 =>
      obtain ⟨c1, hd1, ha1⟩ := h1.err hs hl hr
      exact ⟨c1, Or.inl ⟨rfl, hd1⟩, ha1⟩
    | panic => trivial
    | fuel => trivial

theorem tspec_orElse {n p q m la D1 D2} {D : St → Res}
    (hs1 : Spec cfg input (n - 1) p m la.b D (Rest True))
    (h1 : TSpec cfg input (n - 1) p m la D1) (h2 : TSpec cfg input (n - 1) q m la D2) :
    TSpec cfg input n (.orElse p q) m la (altT D1 D2) := by
  cases n with
  | zero => exact TSpec.zero _ _ _ _
  | succ k =>
    simp only [Nat.add_sub_cancel] at h1 h2 hs1
    intro st σ hs hl
    rw [run_orElse]
    cases hr : run cfg k p st with
    | ok st1 =>
      obtain ⟨σ1, c1, hd1, hp1, hk1, ha1⟩ := h1.ok hs hl hr
      exact ⟨σ1, c1, Or.inl ⟨σ1, rfl, hd1⟩, hp1, hk1, ha1⟩
    | err st1 =>
      obtain ⟨c1, hd1, ha1⟩ := h1.err hs hl hr
      obtain ⟨-, hR⟩ := hs1.err hs hr
      have hsn := hs.next_err hr hR
      have hl1 : toLA st1.lookahead = la := by rw [la_next_err hr]; exact hl
      dsimp only
      cases hr2 : run cfg k q st1 with
      | ok st2 =>
        obtain ⟨σ2, c2, hd2, hp2, hk2, ha2⟩ := h2.ok hsn hl1 hr2
        exact ⟨σ2, c1 ++ c2, Or.inr ⟨c1, c2, hd1, hd2, rfl⟩, hp2, hk2, by rw [ha2, ha1, stepAtt_append]⟩
      | err st2 =>
        obtain ⟨c2, hd2, ha2⟩ := h2.err hsn hl1 hr2
        exact ⟨c1 ++ c2, Or.inr ⟨c1, c2, hd1, hd2, rfl⟩, by rw [ha2, ha1, stepAtt_append]⟩
      | panic => trivial
      | fuel => trivial
    | panic => trivial
    | fuel => trivial

/-! ### `sequence`, `restoreOnErr`, `optional` -/

theorem checkpoint_att (st : PState) : att (checkpoint st) = att st := rfl

theorem tspec_sequence {n p m la D} (h : TSpec cfg input (n - 1) p m la D) :
    TSpec cfg input n (.sequence p) m la D := by
  cases n with
  | zero => exact TSpec.zero _ _ _ _
  | succ k =>
    simp only [Nat.add_sub_cancel] at h
    intro st σ hs hl
    rw [run_sequence, hs.incCall]; dsimp only
    cases hr : run cfg k p (checkpoint st) with
    | ok ns =>
      dsimp only
      obtain ⟨σ1, c1, hd, hp, hk, ha⟩ := h.ok hs.checkpoint hl hr
      cases hc : checkpointOk ns with
      | none => trivial
      | some ns' =>
        dsimp only
        have rb := run_ok_rel hr
        obtain ⟨st2, hcs, rfl⟩ := checkpointOk_some hc
        obtain ⟨-, -, hcache⟩ := bracket_ok hs.inv rb.stk hcs
        exact ⟨σ1, c1, hd, hp, hcache.trans hk, ha⟩
    | err ns =>
      dsimp only
      obtain ⟨c1, hd, ha⟩ := h.err hs.checkpoint hl hr
      cases hc : restoreStack (seqErrState st ns) with
      | none => trivial
      | some ns' =>
        dsimp only
        obtain ⟨st2, hre, rfl⟩ := restoreStack_some hc
        exact ⟨c1, hd, ha⟩
    | panic => trivial
    | fuel => trivial

theorem tspec_restoreOnErr {n p m la D} (h : TSpec cfg input (n - 1) p m la D) :
    TSpec cfg input n (.restoreOnErr p) m la D := by
  cases n with
  | zero => exact TSpec.zero _ _ _ _
  | succ k =>
    simp only [Nat.add_sub_cancel] at h
    intro st σ hs hl
    rw [run_restoreOnErr]
    cases hr : run cfg k p (checkpoint st) with
    | ok ns =>
      dsimp only
      obtain ⟨σ1, c1, hd, hp, hk, ha⟩ := h.ok hs.checkpoint hl hr
      cases hc : checkpointOk ns with
      | none => trivial
      | some ns' =>
        dsimp only
        have rb := run_ok_rel hr
        obtain ⟨st2, hcs, rfl⟩ := checkpointOk_some hc
        obtain ⟨-, -, hcache⟩ := bracket_ok hs.inv rb.stk hcs
        exact ⟨σ1, c1, hd, hp, hcache.trans hk, ha⟩
    | err ns =>
      dsimp only
      obtain ⟨c1, hd, ha⟩ := h.err hs.checkpoint hl hr
      cases hc : restoreStack ns with
      | none => trivial
      | some ns' =>
        dsimp only
        obtain ⟨st2, hre, rfl⟩ := restoreStack_some hc
        exact ⟨c1, hd, ha⟩
    | panic => trivial
    | fuel => trivial

theorem tspec_optional {n p m la D1} {D : St → Res}
    (hs1 : Spec cfg input (n - 1) p m la.b D (Rest True)) (h : TSpec cfg input (n - 1) p m la D1) :
    TSpec cfg input n (.optional p) m la (optT D1) := by
  cases n with
  | zero => exact TSpec.zero _ _ _ _
  | succ k =>
    simp only [Nat.add_sub_cancel] at h hs1
    intro st σ hs hl
    rw [run_optional, hs.incCall]; dsimp only
    cases hr : run cfg k p st with
    | ok s' =>
      dsimp only
      obtain ⟨σ1, c1, hd, hp, hk, ha⟩ := h.ok hs hl hr
      exact ⟨σ1, c1, Or.inl ⟨σ1, rfl, hd⟩, hp, hk, ha⟩
    | err s' =>
      dsimp only
      obtain ⟨c1, hd, ha⟩ := h.err hs hl hr
      obtain ⟨-, hR⟩ := hs1.err hs hr
      exact ⟨σ, c1, Or.inr ⟨rfl, hd⟩, hR.1.trans hs.pos, (hR.2.2 trivial).trans hs.stk, ha⟩
    | panic => trivial
    | fuel => trivial

/-! ### `repeat` -/

theorem repLoop_ne_err (p : Prog) : ∀ (k : Nat) (st st' : PState), run cfg k (.repLoop p) st ≠ .err st'
  | 0, st, st' => by rw [run_zero]; exact fun h => nomatch h
  | k + 1, st, st' => by
    rw [run_repLoop]
    cases hr : run cfg k p st with
    | ok s' => exact repLoop_ne_err p k s' st'
    | err s' => exact fun h => nomatch h
    | panic => exact fun h => nomatch h
    | fuel => exact fun h => nomatch h

theorem tspec_repLoop {p m la U L} {D : St → Res} (hL : IsLoopT U L) : ∀ k,
    (∀ j, j < k → Spec cfg input j p m la.b D (Rest True)) →
    (∀ j, j < k → TSpec cfg input j p m la U) →
    TSpec cfg input k (.repLoop p) m la (loopT L)
  | 0, _, _ => TSpec.zero _ _ _ _
  | k + 1, hsp, hp => by
    have ih := tspec_repLoop hL k (fun j hj => hsp j (by omega)) (fun j hj => hp j (by omega))
    have h := hp k (by omega)
    have hsk := hsp k (by omega)
    intro st σ hs hl
    rw [run_repLoop]
    cases hr : run cfg k p st with
    | ok s' =>
      dsimp only
      obtain ⟨σ1, c1, hd, hp1, hk1, ha1⟩ := h.ok hs hl hr
      have hs1 := hs.next_ok hr hp1 hk1
      have hl1 : toLA s'.lookahead = la := by rw [la_next_ok hr]; exact hl
      cases hr2 : run cfg k (.repLoop p) s' with
      | ok s2 =>
        obtain ⟨σ2, c2, hd2, hp2, hk2, ha2⟩ := ih.ok hs1 hl1 hr2
        refine ⟨σ2, c1 ++ c2, fun acc => ?_, hp2, hk2, by rw [ha2, ha1, stepAtt_append]⟩
        have := hd2 (acc ++ c1)
        rw [List.append_assoc] at this
        exact hL.step _ _ _ _ _ _ hd this
      | err s2 => exact absurd hr2 (repLoop_ne_err p k s' s2)
      | panic => trivial
      | fuel => trivial
    | err s' =>
      dsimp only
      obtain ⟨c1, hd, ha⟩ := h.err hs hl hr
      obtain ⟨-, hR⟩ := hsk.err hs hr
      exact ⟨σ, c1, fun acc => hL.stop _ _ _ hd, hR.1.trans hs.pos, (hR.2.2 trivial).trans hs.stk, ha⟩
    | panic => trivial
    | fuel => trivial

theorem tspec_repeat {n p m la U L} {D : St → Res} (hL : IsLoopT U L)
    (hsp : ∀ j, j + 1 < n → Spec cfg input j p m la.b D (Rest True))
    (hp : ∀ j, j + 1 < n → TSpec cfg input j p m la U) :
    TSpec cfg input n (.repeat_ p) m la (loopT L) := by
  cases n with
  | zero => exact TSpec.zero _ _ _ _
  | succ k =>
    intro st σ hs hl
    rw [run_repeat, hs.incCall]; dsimp only
    exact tspec_repLoop hL k (fun j hj => hsp j (by omega)) (fun j hj => hp j (by omega)) st σ hs hl

theorem repeat_ne_err {n : Nat} {p : Prog} {st st' : PState} (hc : st.calls = none) :
    run cfg n (.repeat_ p) st ≠ .err st' := by
  cases n with
  | zero => rw [run_zero]; exact fun h => nomatch h
  | succ k =>
    have : incCall st = some st := by unfold PS.incCall; rw [hc]
    rw [run_repeat, this]
    exact repLoop_ne_err p k st st'

/-! ### `lookahead`, `atomic` -/

theorem toLA_laMode (positive : Bool) (l : Lookahead) :
    toLA (laMode positive l) = if positive then (toLA l).enterPos else (toLA l).enterNeg := by
  cases positive <;> cases l <;> rfl

theorem la_inner_b (positive : Bool) (la : LA) :
    (if positive then la.enterPos else la.enterNeg).b = true := by
  cases positive <;> cases la <;> rfl

theorem tspec_lookahead {n p m la D} (positive : Bool)
    (h : TSpec cfg input (n - 1) p m (if positive then la.enterPos else la.enterNeg) D) :
    TSpec cfg input n (.lookahead positive p) m la (laT positive D) := by
  cases n with
  | zero => exact TSpec.zero _ _ _ _
  | succ k =>
    simp only [Nat.add_sub_cancel] at h
    intro st σ hs hl
    rw [run_lookahead, hs.incCall]; dsimp only
    have hs' : Sim input m (if positive then la.enterPos else la.enterNeg).b
        (checkpoint { st with lookahead := laMode positive st.lookahead }) σ := by
      rw [la_inner_b]
      exact { hs with inv := (snapshot_spec st.stack hs.inv).1
                      la := by simp [PS.checkpoint, laMode_ne_none] }
    have hl' : toLA (checkpoint { st with lookahead := laMode positive st.lookahead }).lookahead =
        if positive then la.enterPos else la.enterNeg := by
      show toLA (laMode positive st.lookahead) = _
      rw [toLA_laMode, hl]
    have key : ∀ ns ns', Rel (checkpoint { st with lookahead := laMode positive st.lookahead }) ns →
        laPost st ns = some ns' → ns'.pos = σ.pos ∧ ns'.stack.cache = σ.stack ∧ att ns' = att ns := by
      intro ns ns' rb hc
      obtain ⟨-, h1, -, h3⟩ := laPost_rel rb hc
      obtain ⟨st2, -, rfl⟩ := restoreStack_some hc
      exact ⟨h1.trans hs.pos, (h3 hs.inv).trans hs.stk, rfl⟩
    cases hr : run cfg k p (checkpoint { st with lookahead := laMode positive st.lookahead }) with
    | ok ns =>
      dsimp only
      obtain ⟨σ1, c1, hd, -, -, ha⟩ := h.ok hs' hl' hr
      cases hc : laPost st ns with
      | none => trivial
      | some ns' =>
        obtain ⟨k1, k2, k3⟩ := key ns ns' (run_ok_rel hr) hc
        dsimp only
        cases positive with
        | true =>
          simp only [if_true]
          exact ⟨σ, c1, Or.inl ⟨σ1, hd, rfl⟩, k1, k2, k3.trans ha⟩
        | false =>
          simp only [Bool.false_eq_true, if_false]
          exact ⟨c1, Or.inl ⟨σ1, hd, rfl⟩, k3.trans ha⟩
    | err ns =>
      dsimp only
      obtain ⟨c1, hd, ha⟩ := h.err hs' hl' hr
      cases hc : laPost st ns with
      | none => trivial
      | some ns' =>
        obtain ⟨k1, k2, k3⟩ := key ns ns' (run_err_rel hr) hc
        dsimp only
        cases positive with
        | true =>
          simp only [if_true]
          exact ⟨c1, Or.inr ⟨hd, rfl⟩, k3.trans ha⟩
        | false =>
          simp only [Bool.false_eq_true, if_false]
          exact ⟨σ, c1, Or.inr ⟨hd, rfl⟩, k1, k2, k3.trans ha⟩
    | panic => trivial
    | fuel => trivial

theorem atomPre_att (a : Atomicity) (st : PState) :
    att (atomPre a st) = att st ∧ (atomPre a st).lookahead = st.lookahead := by
  unfold atomPre; split <;> exact ⟨rfl, rfl⟩

theorem atomPost_att (a : Atomicity) (st ns : PState) : att (atomPost a st ns) = att ns := by
  unfold atomPost; split <;> rfl

theorem tspec_atomic {n p m la D} (a : Atomicity) (h : TSpec cfg input (n - 1) p a la D) :
    TSpec cfg input n (.atomic a p) m la D := by
  cases n with
  | zero => exact TSpec.zero _ _ _ _
  | succ k =>
    simp only [Nat.add_sub_cancel] at h
    intro st σ hs hl
    rw [run_atomic, hs.incCall]; dsimp only
    have hs' := atomPre_sim (a := a) hs
    obtain ⟨e1, e2⟩ := atomPre_att a st
    have hl' : toLA (atomPre a st).lookahead = la := by rw [e2]; exact hl
    cases hr : run cfg k p (atomPre a st) with
    | ok ns =>
      dsimp only
      obtain ⟨σ1, c1, hd, hp, hk, ha⟩ := h.ok hs' hl' hr
      obtain ⟨g1, g2, g3⟩ := atomPost_fields a st ns
      exact ⟨σ1, c1, hd, g1.trans hp, by rw [g3]; exact hk, by rw [atomPost_att, ha, e1]⟩
    | err ns =>
      dsimp only
      obtain ⟨c1, hd, ha⟩ := h.err hs' hl' hr
      exact ⟨c1, hd, by rw [atomPost_att, ha, e1]⟩
    | panic => trivial
    | fuel => trivial

/-! ### `rule` -/

theorem toLA_neg (l : Lookahead) : decide (l = .negative) = decide (toLA l = .neg) := by
  cases l <;> rfl

theorem tspec_rule {n p m la D} (r : Nat) (h : TSpec cfg input (n - 1) p m la D) :
    TSpec cfg input n (.rule r p) m la (ruleT r m la D) := by
  cases n with
  | zero => exact TSpec.zero _ _ _ _
  | succ k =>
    simp only [Nat.add_sub_cancel] at h
    intro st σ hs hl
    rw [run_rule, hs.incCall]; dsimp only
    have hs' := rulePre_sim hs
    obtain ⟨e1, e2, -, -, e5, -, -⟩ := rulePre_fields st
    have hl' : toLA (rulePre st).lookahead = la := by rw [e5]; exact hl
    cases hr : run cfg k p (rulePre st) with
    | ok ns =>
      dsimp only
      obtain ⟨σ1, kids, hd, hp, hk, ha⟩ := h.ok hs' hl' hr
      rw [rulePre_att] at ha
      have rb := run_ok_rel hr
      have hen : ns.pa.enabled = false := rb.en.trans hs'.en
      have hnl : ns.lookahead = st.lookahead := rb.la.trans e5
      have hna : ns.atomicity = m := rb.atom.trans hs'.atom
      cases hok : ruleOkPost st r ns with
      | ok s' =>
        dsimp only
        obtain ⟨a1, a2, a3⟩ := ruleOkPost_att hen hok
        refine ⟨σ1, _, ⟨kids, hd, rfl⟩, a2.trans hp, by rw [a3]; exact hk, ?_⟩
        rw [a1, ← hs.pos]
        have hneg : decide (la = .neg) = decide (ns.lookahead = .negative) := by
          rw [toLA_neg, hnl, hl]
        rw [hneg]
        unfold ruleTrackIf
        by_cases hN : ns.lookahead = .negative
        · rw [if_pos hN]
          by_cases hat : m = .atomic
          · rw [ruleTrack_atomic (by rw [hna]; exact hat), ha]
            exact (stepAtt_node_skip _ _ _ _ _ _ _ (by simp [isAttempt, hat])).symm
          · have : decide (m ≠ .atomic) = true := by simp [hat]
            rw [this]
            exact ruleTrack_attempt ha (by rw [hna]; exact hat) (by simp [isAttempt, hN, R.isOk])
        · rw [if_neg hN, ha]
          exact (stepAtt_node_skip _ _ _ _ _ _ _ (by simp [isAttempt, hN, R.isOk])).symm
      | err s' => exact absurd hok (by
          obtain ⟨s'', h2⟩ := ruleOkPost_ok (r := r) rb hen
          rw [h2]; exact fun h => nomatch h)
      | panic => trivial
      | fuel => trivial
    | err ns =>
      dsimp only
      obtain ⟨kids, hd, ha⟩ := h.err hs' hl' hr
      rw [rulePre_att] at ha
      have rb := run_err_rel hr
      have hen : ns.pa.enabled = false := rb.en.trans hs'.en
      have hnl : ns.lookahead = st.lookahead := rb.la.trans e5
      have hna : ns.atomicity = m := rb.atom.trans hs'.atom
      obtain ⟨s', herr⟩ := ruleErrPost_err (s1 := st) (r := r) hen
      rw [herr]; dsimp only
      refine ⟨_, ⟨kids, hd, rfl⟩, ?_⟩
      rw [ruleErrPost_att hen herr, ← hs.pos]
      have hneg : decide (la = .neg) = decide (ns.lookahead = .negative) := by
        rw [toLA_neg, hnl, hl]
      rw [hneg]
      by_cases hN : ns.lookahead = .negative
      · rw [if_neg (by simpa using hN), ha]
        exact (stepAtt_node_skip _ _ _ _ _ _ _ (by simp [isAttempt, hN, R.isOk])).symm
      · rw [if_pos hN]
        by_cases hat : m = .atomic
        · rw [ruleTrack_atomic (by rw [hna]; exact hat), ha]
          exact (stepAtt_node_skip _ _ _ _ _ _ _ (by simp [isAttempt, hat])).symm
        · have : decide (m ≠ .atomic) = true := by simp [hat]
          rw [this]
          exact ruleTrack_attempt ha (by rw [hna]; exact hat) (by simp [isAttempt, hN, R.isOk])
    | panic => trivial
    | fuel => trivial

/-! ### `stackPush`, `ok`, `tag_node`, leaves -/

theorem tspec_stackPush {n p m la D} (h : TSpec cfg input (n - 1) p m la D) :
    TSpec cfg input n (.stackPush p) m la (pushT input D) := by
  cases n with
  | zero => exact TSpec.zero _ _ _ _
  | succ k =>
    simp only [Nat.add_sub_cancel] at h
    intro st σ hs hl
    rw [run_stackPush, hs.incCall]; dsimp only
    cases hr : run cfg k p st with
    | ok ns =>
      dsimp only
      obtain ⟨σ1, c1, hd, hp, hk, ha⟩ := h.ok hs hl hr
      have rb := run_ok_rel hr
      unfold pushSpan
      have hsl' : slice? ns.input st.pos ns.pos = slice? input σ.pos σ1.pos := by
        rw [rb.input, hs.inp, hs.pos, hp]
      rw [hsl']
      cases hsl : slice? input σ.pos σ1.pos with
      | none => trivial
      | some str =>
        exact ⟨{ σ1 with stack := str :: σ1.stack }, c1, Or.inr ⟨σ1, str, hd, hsl, rfl⟩, hp,
          by show str :: ns.stack.cache = _; rw [hk], ha⟩
    | err ns =>
      dsimp only
      obtain ⟨c1, hd, ha⟩ := h.err hs hl hr
      exact ⟨c1, Or.inl ⟨rfl, hd⟩, ha⟩
    | panic => trivial
    | fuel => trivial

theorem tspec_ok {n m la} : TSpec cfg input n .ok m la (fun σ r cs => r = .ok σ ∧ cs = []) := by
  cases n with
  | zero => exact TSpec.zero _ _ _ _
  | succ k =>
    intro st σ hs _
    rw [run]
    exact ⟨σ, [], ⟨rfl, rfl⟩, hs.pos, hs.stk, (stepAtt_nil _).symm⟩

theorem tspec_tag {n p m la D} (t : Str) (h : TSpec cfg input (n - 1) p m la D) :
    TSpec cfg input n (.andThen p (.tagNode t)) m la D := by
  cases n with
  | zero => exact TSpec.zero _ _ _ _
  | succ k =>
    simp only [Nat.add_sub_cancel] at h
    intro st σ hs hl
    rw [run_andThen]
    cases hr : run cfg k p st with
    | ok st1 =>
      obtain ⟨σ1, c1, hd1, hp1, hk1, ha1⟩ := h.ok hs hl hr
      dsimp only
      cases k with
      | zero => rw [run_zero]; trivial
      | succ j =>
        rw [run]
        by_cases hla : st1.lookahead ≠ .none
        · rw [if_pos hla]; exact ⟨σ1, c1, hd1, hp1, hk1, ha1⟩
        · rw [if_neg hla]
          cases hq : st1.queue.getLast? with
          | none => exact ⟨σ1, c1, hd1, hp1, hk1, ha1⟩
          | some tok =>
            cases tok with
            | start a b => exact ⟨σ1, c1, hd1, hp1, hk1, ha1⟩
            | end_ a b c d => exact ⟨σ1, c1, hd1, hp1, hk1, ha1⟩
    | err st1 => exact h.err hs hl hr
    | panic => trivial
    | fuel => trivial

/-- forget the forest. -/
def eraseR : Res → R
  | .ok s _ => .ok s
  | .fail => .fail
  | .stuck => .stuck
  | .fuel => .fuel

/-- a program that makes no rule call: its traced specification follows from C01's. -/
theorem tspec_leaf {n p m la E} {D : St → Res} (hS : Spec cfg input n p m la.b D E) (hF : Frame cfg p) :
    TSpec cfg input n p m la (fun σ r cs => r = eraseR (D σ) ∧ cs = []) := by
  intro st σ hs _
  have := hS st σ hs
  cases hr : run cfg n p st with
  | ok st' =>
    rw [hr] at this
    obtain ⟨σ', f, hd, hp, hk, -⟩ := this
    exact ⟨σ', [], ⟨by rw [hd]; rfl, rfl⟩, hp, hk,
      by rw [hF n st st' (by rw [hr]; rfl), stepAtt_nil]⟩
  | err st' =>
    rw [hr] at this
    exact ⟨[], ⟨by rw [this.1]; rfl, rfl⟩, by rw [hF n st st' (by rw [hr]; rfl), stepAtt_nil]⟩
  | panic => trivial
  | fuel => trivial

end PestModel.Track
