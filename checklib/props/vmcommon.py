"""Shared flow for the properties decided through drv_vm (C08, C12, C15)."""
from props.common import *

DRV, MODE = "drv_vm", "grammar"


def split_case(op, j):
    head, _, tail = op.rpartition(")")
    parts = tail.split()
    return f"{head}) {parts[0]} {parts[1 + j]}"


def run_vm_property(ctx, modules, profile, oracle_kind, corr_kind, rule, assumptions, featuresets=("default", "extras"), extra_runs=None, search=None):
    frag, problems = proof_leg(ctx, modules)
    allcs, stats, found_input = [], {}, False
    for fs in featuresets:
        ok, out, bindir, _ = cargo_build(fs, [DRV])
        if not ok:
            ctx.violation({"obligation": f"harness does not build against /repo (features {fs})", "log": out[-3000:]}, no_input=True)
            continue
        drv = os.path.join(bindir, DRV)
        name = f"gen-{fs}"
        cs = []
        if fs == "default":
            corpus = sorted(glob.glob(os.path.join(VERIF, "corpus", ctx.prop, "*.case")))
            if corpus:
                allf = os.path.join(ctx.rundir, "corpus_all.txt")
                with open(allf, "w") as f:
                    for p in corpus:
                        for l in open(p):
                            if l.strip() and not l.startswith("#"):
                                f.write(l.rstrip("\n") + "\n")
                cs.append(correspond("corpus", drv, ["run", allf], MODE, os.path.join(ctx.rundir, "corpus")))
        # the profile is the 5th CLI argument of drv_vm (after the out dir): use a wrapper arg order gen tier seed OUT profile
        c = Corr(name)
        outdir = os.path.join(ctx.rundir, name)
        shutil.rmtree(outdir, ignore_errors=True); os.makedirs(outdir, exist_ok=True)
        rc, o = sh([drv, "gen", ctx.tier, str(ctx.seed), outdir, profile], timeout=3000)
        if rc != 0:
            c.error = f"driver exited {rc}: {o[-1500:]}"
        else:
            c = correspond_existing(name, outdir, MODE)
        cs.append(c)
        for c in cs:
            allcs.append(c)
            if c.error:
                ctx.violation({"correspondence": c.name, "error": c.error}, no_input=True)
                continue
            stats[c.name] = c.stats
            if c.oracle_fail:
                i, op, imp, verdict = min(c.oracle_fail, key=lambda t: (len(t[1]), t[1]))
                ctx.violation({"kind": oracle_kind, "features": fs, "case": op if len(op) < 4000 else op[:4000], "oracle": verdict,
                               "failing_lines_in_run": len(c.oracle_fail)})
                found_input = True
            elif c.mismatch:
                bad = []
                for (i, op, imp, mod) in c.mismatch:
                    a, b = imp.split(" | "), mod.split(" | ")
                    if len(a) != len(b):
                        bad.append((op[:3000], imp[:300], mod[:300])); continue
                    for j, (x, y) in enumerate(zip(a, b)):
                        if x != y:
                            bad.append((split_case(op, j), x, y))
                hit = search(ctx, fs, drv, bad) if search else None
                if hit:
                    # the correspondence broke and the search found an input on which the property itself fails
                    hit["features"] = fs
                    ctx.violation(hit)
                    found_input = True
                    continue
                case, imp, mod = min(bad, key=lambda t: (len(t[0]), t[0]))
                ctx.violation({"kind": corr_kind + " no longer checks; the property's oracle is satisfied on all explored cases",
                               "features": fs, "case": case, "impl": imp, "model": mod, "mismatching_inputs_in_run": len(bad)}, no_input=True)
    if problems and not found_input:
        ctx.violation({"obligation": modules, "problems": problems}, no_input=True)
    cov = dict(frag)
    g = stats.get("gen-default", {})
    cov.update({
        "trusted_base": TRUSTED_COMMON,
        "evaluations": sum(s.get("evaluations", 0) for s in stats.values()),
        "distinct_nontrivial": sum(s.get("distinct_nontrivial", 0) for s in stats.values()),
        "rule": rule,
        "traces_validated_against_impl": sum(s.get("evaluations", 0) for s in stats.values()),
        "samples": [x[:300] for x in g.get("samples", [])][:3],
        "distribution": {k: {kk: vv for kk, vv in v.items() if kk != "samples"} for k, v in stats.items()},
        "mismatching_lines": sum(len(c.mismatch) for c in allcs), "oracle_failures": sum(len(c.oracle_fail) for c in allcs),
    })
    ctx.evidence(level_of(ctx.prop), cov, list(assumptions))


def correspond_existing(name, outdir, mode):
    """Like runner.correspond but the driver has already written ops/impl/oracle into outdir."""
    c = Corr(name)
    ops = read_lines(os.path.join(outdir, "ops.txt")); imp = read_lines(os.path.join(outdir, "impl.txt")); orc = read_lines(os.path.join(outdir, "oracle.txt"))
    try:
        c.stats = json.load(open(os.path.join(outdir, "stats.json")))
    except Exception:
        c.stats = {}
    ok, err = run_model(mode, os.path.join(outdir, "ops.txt"), os.path.join(outdir, "model.txt"))
    if not ok:
        c.error = f"pestmodel {mode} failed: {err[-1500:]}"; return c
    mod = read_lines(os.path.join(outdir, "model.txt"))
    c.n = len(ops)
    if not (len(ops) == len(imp) == len(orc) == len(mod)):
        c.error = f"{name}: line counts differ"; return c
    for i in range(len(ops)):
        if imp[i] != mod[i]:
            c.mismatch.append((i, ops[i], imp[i], mod[i]))
        if orc[i] != "ok":
            c.oracle_fail.append((i, ops[i], imp[i], orc[i]))
    return c


def replay_vm(ctx, path):
    r = json.load(open(path))
    return replay_generic(ctx, path, DRV, MODE, featureset=("extras" if r.get("features") == "extras" else "default"))


GEN_TAG_ID = "C02-tags-on-optional-or-repetition"


def generated_leg(ctx, want):
    """The generated parser (emitted code executed call by call on the real ParserState, drv_gen) against Vm::parse on the
    shared grammar stream. `want(gen_result, vm_result)` selects the disagreements that concern the calling property.
    Returns (violations_reported, stats). Only the oracle column is used here (gen vs VM on the implementation); the
    tree-equality correspondence of the same driver belongs to C02."""
    import re
    reported, stats = 0, {}
    for fs in ("default", "extras"):
        ok, out, bindir, _ = cargo_build(fs, ["drv_gen"])
        if not ok:
            ctx.violation({"obligation": f"harness does not build against /repo (features {fs})", "log": out[-3000:]}, no_input=True)
            continue
        outdir = os.path.join(ctx.rundir, "genleg-" + fs)
        c = correspond("genleg-" + fs, os.path.join(bindir, "drv_gen"), ["gen", ctx.tier, str(ctx.seed)], MODE, outdir)
        if c.error:
            ctx.violation({"correspondence": c.name, "error": c.error}, no_input=True)
            continue
        sel = []
        for (i, op, imp, verdict) in c.oracle_fail:
            if "(tag (opt" in op or "(tag (rep" in op:
                continue                       # the recorded finding about tags on optional / repeated expressions (C02)
            m = re.search(r"generated parser `(.*?)` but VM `(.*?)`", verdict)
            if m and want(m.group(1), m.group(2)):
                sel.append((op, verdict))
        stats[fs] = {"lines": c.n, "gen_vs_vm_disagreements_selected": len(sel)}
        if sel:
            op, verdict = min(sel, key=lambda t: (len(t[0]), t[0]))
            ctx.violation({"kind": "the parser emitted by pest_generator (its code executed call by call on the real ParserState) and Vm::parse disagree; the VM's result is the one the model proves correct",
                           "leg": "generated", "features": fs, "case": op[:6000], "oracle": verdict, "failing_lines_in_run": len(sel)})
            reported += 1
    return reported, stats
