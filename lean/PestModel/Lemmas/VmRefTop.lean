import PestModel.Lemmas.VmRefMain
import PestModel.Lemmas.VmRefRestorer
import PestModel.Lemmas.PStateDetail
import PestModel.Lemmas.VmRefTermStep
/-! C01, part 9: the whole parse (`Vm::parse`) against `Ref.meaning`. -/
namespace PestModel.VmRef
open PestModel.G PestModel.PS PestModel.Lower PestModel.Ref PestModel.Views
open PestModel.LineCol (Str isBoundary bLen cLen splitAt? slice?)

theorem sim_init (input : Str) : Sim input .nonAtomic false (PState.new input none false) ⟨0, []⟩ where
  inp := rfl
  pos := rfl
  stk := rfl
  inv := (new_wf' input none false).2
  bnd := (new_wf' input none false).1
  atom := rfl
  la := by simp [PState.new]
  calls := rfl
  en := rfl

/-- the result of the whole parse, error detail off. -/
theorem refines_top (env : Env) (extras memchr : Bool) (input : Str)
    (hsize : env.rules.length ≤ 333333333) (hgood : GoodRules extras env.rules)
    (htr : TagRules extras env.rules) (fuel : Nat) (name : String) :
    match run (mkCfg env memchr) fuel (entry env name) (PState.new input none false) with
    | .ok st => ∃ forest, build forest = st.queue ∧
        valCa (mkCtx env extras input) .nonAtomic false name ⟨0, []⟩ = .ok ⟨st.pos, st.stack.cache⟩ forest
    | .err _ => valCa (mkCtx env extras input) .nonAtomic false name ⟨0, []⟩ = .fail
    | .panic => valCa (mkCtx env extras input) .nonAtomic false name ⟨0, []⟩ = .stuck
    | .fuel => True := by
  have h := spec_callRule (memchr := memchr) (input := input) hsize hgood htr (n := fuel)
    (fun k _ => PE_all hsize hgood htr k) name .nonAtomic false (Reach.entry name) _ _ (sim_init input)
  unfold entry
  cases hr : run (mkCfg env memchr) fuel (callRule env name .nonAtomic) (PState.new input none false) with
  | ok st =>
    rw [hr] at h
    obtain ⟨σ', f, hd, hp, hk, hq⟩ := h
    refine ⟨f, ?_, ?_⟩
    · rw [hq]; rfl
    · rw [hd, hp, hk]
  | err st => rw [hr] at h; exact h.1
  | panic => rw [hr] at h; exact h
  | fuel => trivial

theorem new_eraseDetail (input : Str) (detail : Bool) :
    (PState.new input none detail).eraseDetail = PState.new input none false := rfl

/-- … and with error detail on or off. -/
theorem refines_top' (env : Env) (extras memchr detail : Bool) (input : Str)
    (hsize : env.rules.length ≤ 333333333) (hgood : GoodRules extras env.rules)
    (htr : TagRules extras env.rules) (fuel : Nat) (name : String) :
    match run (mkCfg env memchr) fuel (entry env name) (PState.new input none detail) with
    | .ok st => ∃ forest, build forest = st.queue ∧
        valCa (mkCtx env extras input) .nonAtomic false name ⟨0, []⟩ = .ok ⟨st.pos, st.stack.cache⟩ forest
    | .err _ => valCa (mkCtx env extras input) .nonAtomic false name ⟨0, []⟩ = .fail
    | .panic => valCa (mkCtx env extras input) .nonAtomic false name ⟨0, []⟩ = .stuck
    | .fuel => True := by
  have h := refines_top env extras memchr input hsize hgood htr fuel name
  have e := run_eraseDetail (mkCfg env memchr) fuel (entry env name) (PState.new input none detail)
  rw [new_eraseDetail] at e
  rw [← e] at h
  cases hr : run (mkCfg env memchr) fuel (entry env name) (PState.new input none detail) with
  | ok st => rw [hr] at h; exact h
  | err st => rw [hr] at h; exact h
  | panic => rw [hr] at h; exact h
  | fuel => trivial

/-- the VM reaches a definite outcome whenever the reference does. -/
theorem terminates_top (env : Env) (extras memchr detail : Bool) (input : Str)
    (hsize : env.rules.length ≤ 333333333) (hgood : GoodRules extras env.rules)
    (htr : TagRules extras env.rules) (name : String) (r : Res)
    (h : Means (ofOptimizedRules env.rules) extras env.uni name input r) :
    ∃ fuel, run (mkCfg env memchr) fuel (entry env name) (PState.new input none detail) ≠ .fuel := by
  obtain ⟨hr, n, hn⟩ := h
  have hc : call (mkCtx env extras input) n .nonAtomic false name ⟨0, []⟩ ≠ .fuel := by
    have : call (mkCtx env extras input) n .nonAtomic false name ⟨0, []⟩ = r := hn
    rw [this]; exact hr
  obtain ⟨F, hF⟩ := (TN_all (memchr := memchr) hsize hgood htr n).ca name .nonAtomic false (Reach.entry name) _ _
    (sim_init input) hc
  refine ⟨F, fun hfuel => hF ?_⟩
  have e := run_eraseDetail (mkCfg env memchr) F (entry env name) (PState.new input none detail)
  rw [new_eraseDetail, hfuel] at e
  exact e.symm

end PestModel.VmRef
