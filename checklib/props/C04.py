"""C04 — the token stream is a well-formed tree and every Pairs view agrees with it."""
from props.common import *

MODULES = ["PestModel.Thm.C04", "PestModel.Thm.C04Queue"]
DRV, MODE = "drv_views", "views"


def run(ctx):
    simple_property(
        ctx, MODULES, DRV, MODE,
        oracle_kind="a view of the token tree disagrees with the tree (list-based reading of the same forest)",
        corr_kind="correspondence `views` (Pairs/Pair/FlatPairs/Tokens/PairsBuilder/renderers vs PestModel.Views)",
        rule="seeded random well-formed forests (<= 14 nodes, depth <= 4, empty spans, tags, multi-byte and quote/backslash/newline characters, 4% empty forests) built with PairsBuilder, each driven by a random script of view operations (next, next_back, len+size_hint, peek, as_str, concat, is_empty, into_inner from front/back, go up, Pairs::single, pair detail incl. line_col/tag/alternate Display, Pair::tokens, flatten, tokens, Display, alternate Display, Debug, to_json) of length <= 12 quick / 40 thorough, in any interleaving; non-trivial = distinct cases with >= 3 nodes and >= 4 operations",
        nontrivial_key="distinct_nontrivial",
        featureset="pretty",
        assumptions=[
            "theorems are about PestModel.Views (hand-written model of the index-window iterators and PairsBuilder::push_node); tie = correspondence on every observation of every script",
            "Rust's {:?} for str and serde_json's pretty printer are modelled for the characters the harness generates (quote, backslash, LF, CR, TAB escaped; others verbatim); JSON is additionally parsed back with serde_json and compared with the tree",
            "token streams of real parses are covered by the C03 driver (hook H1) whose final queues are checked for well-formedness there",
        ],
        leancheck=MODULES + ["PestModel.Model.Views"],
    )


def replay(ctx, path):
    return replay_generic(ctx, path, DRV, MODE, featureset="pretty")
