import PestModel.Lemmas.RefVal
/-! C05 helper lemmas: the counterexample to the first statement of `rules_congruence`
(a left-recursive replacement body that is equivalent under the OLD rules). -/
namespace PestModel.Ref
open PestModel.G
open PestModel.PS (Atomicity CharSet)

def cexRules : List Rule := [⟨"A", .silent, .str ['x']⟩]
def cexRules' : List Rule := [⟨"A", .silent, .choice (.ident "A") (.str ['x'])⟩]

theorem cex_rule' (input : PestModel.LineCol.Str) :
    Ctx.rule? { rules := cexRules', input := input, extras := false, uni := fun _ => none } "A" =
      some (0, ⟨"A", .silent, .choice (.ident "A") (.str ['x'])⟩) := rfl

theorem cex_loop (input : PestModel.LineCol.Str) : ∀ n m la s,
    call { rules := cexRules', input := input, extras := false, uni := fun _ => none } n m la "A" s = .fuel
  | 0, _, _, _ => by rw [call]
  | 1, _, _, _ => by rw [call, cex_rule']; simp [denote]
  | 2, _, _, _ => by rw [call, cex_rule']; simp [denote]
  | n + 3, m, la, s => by rw [call, cex_rule']; simp [denote, cex_loop input n]

end PestModel.Ref
