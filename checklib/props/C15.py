"""C15 — detailed error tracking is observationally transparent."""
from props.vmcommon import *

MODULES = ["PestModel.Thm.C15"]


def run(ctx):
    run_vm_property(
        ctx, MODULES, "C15",
        oracle_kind="turning error detail on changed the outcome of a parse, made it panic, or produced attempt information that is off a boundary / cannot be rendered",
        corr_kind="correspondence `V` (Vm::parse with set_error_detail(true): result plus ParseAttempts call stacks, expected/unexpected tokens, max_position vs the model's PAttempts)",
        rule="seeded random guarded grammars x 2 start rules x ALL inputs up to 3 (quick) / 5 (thorough) characters plus longer random ones, each parsed with error detail on and (oracle) off; on errors the recorded ParseAttempts (raw call_stacks, sorted expected/unexpected tokens, max_position) are compared with the model and parse_attempts_error is rendered; non-trivial = errors with content or successes with pairs",
        assumptions=["error detail is global state (set_error_detail); the harness is single-threaded",
                     "Debug formatting of ParsingToken is modelled for the generated alphabet"],
    )


def replay(ctx, path):
    return replay_vm(ctx, path)
