//! C01: the real pipeline (`optimize` + `Vm::parse`) vs the reference denotation (`pestmodel grammar`, D lines).
//! One line per (grammar, start rule) with many inputs.
use pest::iterators::Pairs;
use pest_meta::ast::Rule;
use pest_meta::optimizer::OptimizedRule;
use std::collections::BTreeMap;
use verif_harness::gram::*;
use verif_harness::prog::SExp;
use verif_harness::*;

fn forest(p: Pairs<'_, &str>) -> String {
    let mut s = String::new();
    for pair in p {
        let sp = pair.as_span();
        s.push_str(&format!(" ({} {} {} {}", pair.as_rule(), sp.start(), sp.end(), pair.as_node_tag().map(hexs).unwrap_or("_".into())));
        s.push_str(&forest(pair.into_inner()));
        s.push(')');
    }
    s
}
/// C08: only the failure report (position, expected, unexpected) or ok/stuck
fn run_vm_report(rules: &[OptimizedRule], rule: &str, input: &str) -> String {
    use pest::error::{ErrorVariant, InputLocation};
    let vm = pest_vm::Vm::new(rules.to_vec());
    match catch(|| match vm.parse(rule, input) {
        Ok(_) => "ok".to_string(),
        Err(e) => { let pos = match e.location { InputLocation::Pos(p) => p, InputLocation::Span((a, _)) => a };
            match &e.variant { ErrorVariant::ParsingError { positives, negatives } => format!("err {} [{}] [{}]", pos, positives.join(","), negatives.join(",")), _ => "custom".into() } }
    }) { Ok(s) => s, Err(m) => if m.contains("called on empty stack") { "stuck".into() } else { "panic".into() } }
}
fn run_vm(rules: &[OptimizedRule], rule: &str, input: &str) -> String {
    let vm = pest_vm::Vm::new(rules.to_vec());
    match catch(|| match vm.parse(rule, input) { Ok(p) => format!("ok{}", forest(p)), Err(_) => "fail".to_string() }) {
        Ok(s) => s,
        Err(m) => if m.contains("called on empty stack") { "stuck".into() } else { format!("panic") },
    }
}
const EXTRAS: bool = cfg!(feature = "extras");

fn eval_line(l: &str, stats: &mut BTreeMap<String, u64>) -> (String, String) {
    let bad = || ("bad-op".to_string(), "ok".to_string());
    let mut it = l.splitn(3, ' ');
    let kind = it.next().unwrap_or("");
    if kind != "D" && kind != "S" { return bad(); }
    let _ex = it.next();
    let top = match it.next().and_then(parse_sexps) { Some(t) if t.len() >= 3 => t, _ => return bad() };
    let rules: Vec<Rule> = match rules_of(&top[0]) { Some(r) => r, None => return bad() };
    let rule = match &top[1] { SExp::Atom(a) => a.clone(), _ => return bad() };
    let inputs: Vec<String> = match top[2..].iter().map(|e| if let SExp::Atom(a) = e { unhexs(a) } else { None }).collect::<Option<Vec<_>>>() { Some(v) => v, None => return bad() };
    let opt = match catch(|| pest_meta::optimizer::optimize(rules.clone())) { Ok(o) => o, Err(_) => return ("panic-optimize".into(), "ok".into()) };
    let nolist = catch(|| pest_meta::optimizer::verif::optimize_without_list(rules.clone())).ok();
    let mut outs = vec![]; let mut lister = vec![];
    for (i, inp) in inputs.iter().enumerate() {
        let r = if kind == "S" { run_vm_report(&opt, &rule, inp) } else { run_vm(&opt, &rule, inp) };
        *stats.entry(r.split(' ').next().unwrap().split('(').next().unwrap().to_string()).or_default() += 1;
        if r.len() > 8 { *stats.entry("ok_with_pairs".into()).or_default() += 1; }
        if let Some(nl) = &nolist { let r2 = if kind == "S" { run_vm_report(nl, &rule, inp) } else { run_vm(nl, &rule, inp) }; if r2 != r { lister.push(format!("{}={}", i, hexs(&r2))); } }
        outs.push(r);
    }
    (outs.join(" | "), if lister.is_empty() { "ok".into() } else { format!("LISTER {}", lister.join(" ")) })
}

const TAG_SHAPES: bool = true;
fn main() {
    quiet_panics();
    let mut out = Out::new();
    let mut stats: BTreeMap<String, u64> = BTreeMap::new();
    match cli() {
        Cmd::Run { ops, out: dir } => { for l in &ops { let (i, v) = eval_line(l, &mut stats); out.push(l.clone(), i, v); } out.write(&dir, "{}"); }
        Cmd::Gen { thorough, seed, out: dir } => {
            // profile C05: only the grammars built around the idioms (what the optimizer passes produce at run time: searches,
            // restore-on-error wrappers, concatenated strings, factored and listed repetitions)
            let c05 = std::env::var("DRV_SEM_PROFILE").as_deref() == Ok("C05");
            let ngram = if c05 { if thorough { 240 } else { 60 } } else if thorough { 1500 } else { 160 };
            let len = if thorough { 5 } else { 3 };
            let mut rng = Rng::new(seed ^ if EXTRAS { 0xE } else { 0 });
            let mut ninputs = 0u64; let mut distinct = std::collections::HashSet::new();
            let mut feat: BTreeMap<&str, u64> = BTreeMap::new();
            for gi in 0..ngram {
                let cfg = GenCfg { extras: EXTRAS, guarded: true, stack_ops: gi % 3 != 0, tags: EXTRAS && gi % 4 == 1, max_rules: 5, max_depth: if thorough { 5 } else { 4 }, builtin_names: true, tag_shapes: TAG_SHAPES };
                let rules = if gi < 60 || c05 { gen_grammar_idiom(&mut rng, &cfg, gi) } else { gen_grammar(&mut rng, &cfg) };
                let srules = show_rules(&rules);
                for (k, pat) in [("whitespace", "WHITESPACE"), ("comment", "COMMENT"), ("push", "(push "), ("pop", "(id POP"), ("peek_slice", "(peek "), ("neg", "(neg "), ("pos", "(pos "), ("rep", "(rep "), ("atomic_rule", " a ("), ("compound_rule", " c ("), ("nonatomic_rule", " x ("), ("silent_rule", " s ("), ("skip_idiom", "(rep (seq (neg "), ("bounded_rep", "(repm"), ("tag", "(tag "), ("user_builtin_name", "(rule ASCII"), ("insens", "(ins ")] { if srules.contains(pat) { *feat.entry(k).or_default() += 1; } }
                let alpha = alphabet(&rules);
                let mut inputs = all_inputs(&alpha[..alpha.len().min(6)], len);
                // the idiom grammars also get every string one symbol longer over the first three symbols (their shapes need
                // a push, a second push and two reads)
                if gi < 60 || c05 { for x in all_inputs(&alpha[..alpha.len().min(3)], len + 1) { if x.chars().count() == len + 1 { inputs.push(x); } } }
                // plus a few longer random strings
                for _ in 0..20 { let n = rng.range(len + 1, len + 6); let mut s = String::new(); for _ in 0..n { s.push_str(*rng.pick(&alpha[..])); } inputs.push(s); }
                let starts: Vec<&Rule> = rules.iter().filter(|r| r.name != "WHITESPACE" && r.name != "COMMENT").take(3).collect();
                for r in starts {
                    let l = format!("{} {} {} {} {}", if std::env::args().nth(5).as_deref() == Some("C08") { "S" } else { "D" }, EXTRAS as u8, srules, r.name, inputs.iter().map(|s| hexs(s)).collect::<Vec<_>>().join(" "));
                    let (i, v) = eval_line(&l, &mut stats);
                    ninputs += inputs.len() as u64;
                    for (k, res) in i.split(" | ").enumerate() { if res.len() > 8 || (res == "fail" && inputs.get(k).map_or(false, |x| !x.is_empty())) { distinct.insert((gi, r.name.clone(), k)); } }
                    out.push(l, i, v);
                }
            }
            let samples: Vec<String> = out.ops.iter().step_by((out.ops.len() / 4).max(1)).take(4).map(|s| if s.len() > 400 { format!("{}…", &s[..400]) } else { s.clone() }).collect();
            let stats_s = format!("{{\"evaluations\":{},\"grammars\":{},\"lines\":{},\"distinct_nontrivial\":{},\"extras\":{},\"max_exhaustive_input_len\":{},\"results\":{:?},\"grammar_features\":{:?},\"samples\":{:?}}}", ninputs, ngram, out.ops.len(), distinct.len(), EXTRAS, len, stats, feat, samples);
            out.write(&dir, &stats_s);
        }
    }
}
