import PestModel.Model.Unicode
import PestModel.Model.Validator
import PestModel.Model.Proto
/-! Driver mode `unicode`: `U <group> <CONST>` → the table as ranges over scalar values;
`N <NAME>` → what `by_name(NAME)` resolves to (`group CONST` or `none`); `K <NAME>` → whether the validator lets a grammar use the name. -/
namespace PestModel.UnicodeDriver
open PestModel.Unicode PestModel.Gen.Unicode PestModel.Proto

/-- clip a sorted range list to the scalar values (drop 0xD800–0xDFFF). -/
def clip (rs : Ranges) : Ranges :=
  rs.flatMap fun (lo, hi) =>
    (if lo ≤ 0xD7FF then [(lo, min hi 0xD7FF)] else []) ++ (if hi ≥ 0xE000 then [(max lo 0xE000, hi)] else [])

def showRanges (rs : Ranges) : String :=
  if rs.isEmpty then "-" else ",".intercalate (rs.map fun (a, b) => s!"{a}-{b}")

def runLine (line : String) : String :=
  match words line with
  | ["U", g, n] => match table g n with | some rs => showRanges (clip rs) | none => "none"
  | ["N", n] => match byName n with | some (g, c) => s!"{g} {c}" | none => "none"
  -- the generator's built-in rule for an advertised property reads the table of the same name
  | ["B", n] => if advertised.contains n ∧ genUnicodeLoop then "{state.match_char_by(::pest::unicode::" ++ n ++ ")}" else "not-emitted"
  -- the validator's verdict on `x = { NAME }`: a name is usable when it is in `BUILTINS`
  | ["K", n] => if PestModel.V.isBuiltin n then "accepted" else "rejected"
  | ["A"] => " ".intercalate advertised
  | _ => "bad-op"

end PestModel.UnicodeDriver
