import PestModel.Lemmas.RefSkip
/-! C05 helper lemmas, part 10: `step` is monotone on valid states; changing the rule bodies to
equivalent ones. -/
namespace PestModel.Ref
open PestModel.G
open PestModel.LineCol (Str bLen cLen splitAt?)
open PestModel.Views (Tree)
open PestModel.PS (Atomicity CharSet restAt asciiLower eqIgnoreAsciiCase normalizeIndex)

/-- `X ⊑ Y` from all valid states of `c`. -/
structure Fam.leOn (c : Ctx) (X Y : Fam) : Prop where
  d : ∀ m la e s, Valid c s → (X.d m la e s).le (Y.d m la e s)
  l : ∀ m la e s acc, Valid c s → (X.l m la e s acc).le (Y.l m la e s acc)
  k : ∀ m la s, Valid c s → (X.k m la s).le (Y.k m la s)
  st : ∀ la n s acc, Valid c s → (X.st la n s acc).le (Y.st la n s acc)
  cl : ∀ la s acc, Valid c s → (X.cl la s acc).le (Y.cl la s acc)
  ca : ∀ m la n s, Valid c s → (X.ca m la n s).le (Y.ca m la n s)

local macro "mm " t:term : tactic =>
  `(tactic| (obtain hh | hh := $t; (· simp only [hh]; exact Or.inl rfl); simp only [hh]))
local macro "cs " t:term : tactic =>
  `(tactic| (cases $t:term <;> simp only [] <;> try exact Res.le_refl _))
set_option hygiene false in
local macro "csh " t:term : tactic =>
  `(tactic| (cases hy : $t <;> simp only [] <;> try exact Res.le_refl _))

theorem denoteF_monoOn (c : Ctx) {X Y : Fam} (h : X.leOn c Y) (hY : Pres c Y) m la e s (hs : Valid c s) :
    (denoteF c X m la e s).le (denoteF c Y m la e s) := by
  cases e <;> simp only [denoteF] <;> try exact Res.le_refl _
  case ident n => exact h.ca m la n s hs
  case posPred e =>
    mm h.d m true e s hs
    cs Y.d m true e s
  case negPred e =>
    mm h.d m true e s hs
    cs Y.d m true e s
  case seq a b =>
    mm h.d m la a s hs
    csh Y.d m la a s
    rename_i s1 f1
    have v1 := hY.d _ _ _ _ _ _ hs hy
    clear hy
    mm h.k m la s1 v1
    csh Y.k m la s1
    rename_i s2 f2
    have v2 := hY.k _ _ _ _ _ v1 hy
    mm h.d m la b s2 v2
    cs Y.d m la b s2
  case choice a b =>
    mm h.d m la a s hs
    cs Y.d m la a s
    exact h.d m la b s hs
  case opt e =>
    mm h.d m la e s hs
    cs Y.d m la e s
  case rep e =>
    mm h.d m la e s hs
    csh Y.d m la e s
    exact h.l _ _ _ _ _ (hY.d _ _ _ _ _ _ hs hy)
  case repOnce e =>
    split
    · mm h.d m la e s hs
      csh Y.d m la e s
      exact h.l _ _ _ _ _ (hY.d _ _ _ _ _ _ hs hy)
    · exact h.d _ _ _ _ hs
  case push e =>
    mm h.d m la e s hs
    cs Y.d m la e s
  case nodeTag e t =>
    mm h.d m la e s hs
    cs Y.d m la e s
  all_goals (split <;> first | exact h.d _ _ _ _ hs | exact Res.le_refl _)

theorem repLoopF_monoOn (c : Ctx) {X Y : Fam} (h : X.leOn c Y) (hY : Pres c Y) m la e s acc (hs : Valid c s) :
    (repLoopF X m la e s acc).le (repLoopF Y m la e s acc) := by
  simp only [repLoopF]
  mm h.k m la s hs
  csh Y.k m la s
  rename_i s1 f1
  have v1 := hY.k _ _ _ _ _ hs hy
  clear hy
  mm h.d m la e s1 v1
  csh Y.d m la e s1
  exact h.l _ _ _ _ _ (hY.d _ _ _ _ _ _ v1 hy)

theorem skipWsF_monoOn (c : Ctx) {X Y : Fam} (h : X.leOn c Y) (hY : Pres c Y) m la s (hs : Valid c s) :
    (skipWsF c X m la s).le (skipWsF c Y m la s) := by
  simp only [skipWsF]
  split
  · exact Res.le_refl _
  · split
    · exact Res.le_refl _
    · exact h.st _ _ _ _ hs
    · exact h.st _ _ _ _ hs
    · mm h.st la "WHITESPACE" s [] hs
      csh Y.st la "WHITESPACE" s []
      exact h.cl _ _ _ (hY.st _ _ _ _ _ _ hs hy)

theorem starF_monoOn (c : Ctx) {X Y : Fam} (h : X.leOn c Y) (hY : Pres c Y) la n s acc (hs : Valid c s) :
    (starF X la n s acc).le (starF Y la n s acc) := by
  simp only [starF]
  mm h.ca .nonAtomic la n s hs
  csh Y.ca .nonAtomic la n s
  exact h.st _ _ _ _ (hY.ca _ _ _ _ _ _ hs hy)

theorem commentLoopF_monoOn (c : Ctx) {X Y : Fam} (h : X.leOn c Y) (hY : Pres c Y) la s acc (hs : Valid c s) :
    (commentLoopF X la s acc).le (commentLoopF Y la s acc) := by
  simp only [commentLoopF]
  mm h.ca .nonAtomic la "COMMENT" s hs
  csh Y.ca .nonAtomic la "COMMENT" s
  rename_i s1 f1
  have v1 := hY.ca _ _ _ _ _ _ hs hy
  clear hy
  mm h.st la "WHITESPACE" s1 [] v1
  csh Y.st la "WHITESPACE" s1 []
  exact h.cl _ _ _ (hY.st _ _ _ _ _ _ v1 hy)

theorem callF_monoOn (c : Ctx) {X Y : Fam} (h : X.leOn c Y) m la n s (hs : Valid c s) :
    (callF c X m la n s).le (callF c Y m la n s) := by
  simp only [callF]
  split
  · rename_i id r _
    mm h.d (bodyMode r.name r.ty m) la r.expr s hs
    cs Y.d (bodyMode r.name r.ty m) la r.expr s
  · exact Res.le_refl _

theorem step_monoOn (c : Ctx) {X Y : Fam} (h : X.leOn c Y) (hY : Pres c Y) : (step c X).leOn c (step c Y) :=
  ⟨denoteF_monoOn c h hY, repLoopF_monoOn c h hY, skipWsF_monoOn c h hY, starF_monoOn c h hY,
    commentLoopF_monoOn c h hY, callF_monoOn c h⟩

theorem V_pres (c : Ctx) : Pres c (V c) := by
  have hc := lev_conv c
  constructor
  · intro m la e s s' f hs h
    obtain ⟨N, hN⟩ := hc.d m la e s
    exact (lev_pres c N).d m la e s s' f hs ((hN N (Nat.le_refl _)).trans h)
  · intro m la e s acc s' f hs h
    obtain ⟨N, hN⟩ := hc.l m la e s acc
    exact (lev_pres c N).l m la e s acc s' f hs ((hN N (Nat.le_refl _)).trans h)
  · intro m la s s' f hs h
    obtain ⟨N, hN⟩ := hc.k m la s
    exact (lev_pres c N).k m la s s' f hs ((hN N (Nat.le_refl _)).trans h)
  · intro la nm s acc s' f hs h
    obtain ⟨N, hN⟩ := hc.st la nm s acc
    exact (lev_pres c N).st la nm s acc s' f hs ((hN N (Nat.le_refl _)).trans h)
  · intro la s acc s' f hs h
    obtain ⟨N, hN⟩ := hc.cl la s acc
    exact (lev_pres c N).cl la s acc s' f hs ((hN N (Nat.le_refl _)).trans h)
  · intro m la nm s s' f hs h
    obtain ⟨N, hN⟩ := hc.ca m la nm s
    exact (lev_pres c N).ca m la nm s s' f hs ((hN N (Nat.le_refl _)).trans h)

end PestModel.Ref

namespace PestModel.Ref
open PestModel.G
open PestModel.LineCol (Str bLen cLen splitAt?)
open PestModel.Views (Tree)
open PestModel.PS (Atomicity CharSet restAt asciiLower eqIgnoreAsciiCase normalizeIndex)

/-- position-wise related lists. -/
inductive F2 {α β : Type} (R : α → β → Prop) : List α → List β → Prop
  | nil : F2 R [] []
  | cons {x y xs ys} : R x y → F2 R xs ys → F2 R (x :: xs) (y :: ys)

theorem F2.length_eq {α β : Type} {R : α → β → Prop} {l : List α} {l' : List β} (h : F2 R l l') :
    l.length = l'.length := by
  induction h with
  | nil => rfl
  | cons _ _ ih => simp [ih]

theorem F2.of_index {α β : Type} {R : α → β → Prop} : ∀ (l : List α) (l' : List β), l.length = l'.length →
    (∀ i (h : i < l.length) (h' : i < l'.length), R l[i] l'[i]) → F2 R l l'
  | [], [], _, _ => .nil
  | [], _ :: _, h, _ => by simp at h
  | _ :: _, [], h, _ => by simp at h
  | x :: xs, y :: ys, h, hr =>
    .cons (hr 0 (by simp) (by simp))
      (F2.of_index xs ys (by simpa using h) (fun i h1 h2 => by
        have := hr (i + 1) (by simp; omega) (by simp; omega)
        simpa using this))

theorem F2.get {α β : Type} {R : α → β → Prop} {l : List α} {l' : List β} (h : F2 R l l') :
    ∀ i (h1 : i < l.length) (h2 : i < l'.length), R l[i] l'[i] := by
  induction h with
  | nil => intro i h1; simp at h1
  | cons hx _ ih =>
    intro i h1 h2
    cases i with
    | zero => simpa using hx
    | succ i => simpa using ih i (by simpa using h1) (by simpa using h2)

theorem F2.mono {α β : Type} {R R' : α → β → Prop} {l : List α} {l' : List β} (h : F2 R l l')
    (hr : ∀ x y, R x y → R' x y) : F2 R' l l' := by
  induction h with
  | nil => exact .nil
  | cons hx _ ih => exact .cons (hr _ _ hx) ih

theorem F2.flip {α β : Type} {R : α → β → Prop} {l : List α} {l' : List β} (h : F2 R l l') :
    F2 (fun y x => R x y) l' l := by
  induction h with
  | nil => exact .nil
  | cons hx _ ih => exact .cons hx ih

/-- same name and type; bodies equivalent (on valid states) in the mode the body runs in. -/
def RuleRel (c : Ctx) (r r' : Rule) : Prop :=
  r.name = r'.name ∧ r.ty = r'.ty ∧ ∀ m, EqOn (Valid c) c (bodyMode r.name r.ty m) r.expr r'.expr

theorem rule?_go_rel {R : Rule → Rule → Prop} (hn : ∀ r r', R r r' → r.name = r'.name) {rules rules' : List Rule}
    (h : F2 R rules rules') (name : String) (k : Nat) :
    (Ctx.rule?.go name rules k = none ∧ Ctx.rule?.go name rules' k = none) ∨
      ∃ id r r', Ctx.rule?.go name rules k = some (id, r) ∧ Ctx.rule?.go name rules' k = some (id, r') ∧ R r r' := by
  induction h generalizing k with
  | nil => left; simp [Ctx.rule?.go]
  | @cons x y xs ys hx _ ih =>
    rw [Ctx.rule?.go, Ctx.rule?.go, ← hn _ _ hx]
    by_cases hxn : x.name = name
    · right
      exact ⟨k, x, y, by simp [hxn], by simp [hxn], hx⟩
    · simp only [hxn, if_false]
      exact ih (k + 1)

theorem Valid.of_input {c c' : Ctx} (h : c'.input = c.input) {s : St} (hs : Valid c s) : Valid c' s := by
  unfold Valid at *; rw [h]; exact hs

theorem builtin_congr {c c' : Ctx} (hi : c'.input = c.input) (hu : c'.uni = c.uni)
    (hl : c'.rules.length = c.rules.length) m la nm s : builtin c' m la nm s = builtin c m la nm s := by
  unfold builtin lit oneChar
  simp only [hi, hu, hl]

theorem valid_zero (c : Ctx) (st : List Str) : Valid c ⟨0, st⟩ := by
  unfold Valid restAt
  cases c.input <;> simp [splitAt?]

/-- evaluation under `rules'` (bodies replaced by equivalent ones) approximates evaluation under
the original rules. -/
theorem sim_rules (c : Ctx) (rules' : List Rule) (hR : F2 (RuleRel c) c.rules rules') :
    ∀ n, (lev { c with rules := rules' } n).leOn c (V c) := by
  intro n
  induction n with
  | zero =>
    constructor <;> intros
    · rw [lev_zero_d]; exact Res.fuel_le _
    · rw [lev_zero_l]; exact Res.fuel_le _
    · rw [lev_zero_k]; exact Res.fuel_le _
    · rw [lev_zero_st]; exact Res.fuel_le _
    · rw [lev_zero_cl]; exact Res.fuel_le _
    · rw [lev_zero_ca]; exact Res.fuel_le _
  | succ n ih =>
    have hV := V_pres c
    have ih' : (lev { c with rules := rules' } n).leOn { c with rules := rules' } (V c) :=
      ⟨fun m la e s hs => ih.d m la e s (Valid.of_input rfl hs), fun m la e s acc hs => ih.l m la e s acc (Valid.of_input rfl hs),
       fun m la s hs => ih.k m la s (Valid.of_input rfl hs), fun la nm s acc hs => ih.st la nm s acc (Valid.of_input rfl hs),
       fun la s acc hs => ih.cl la s acc (Valid.of_input rfl hs), fun m la nm s hs => ih.ca m la nm s (Valid.of_input rfl hs)⟩
    have hV' : Pres { c with rules := rules' } (V c) :=
      ⟨fun m la e s s' f hs h => Valid.of_input rfl (hV.d m la e s s' f (Valid.of_input rfl hs) h),
       fun m la e s acc s' f hs h => Valid.of_input rfl (hV.l m la e s acc s' f (Valid.of_input rfl hs) h),
       fun m la s s' f hs h => Valid.of_input rfl (hV.k m la s s' f (Valid.of_input rfl hs) h),
       fun la nm s acc s' f hs h => Valid.of_input rfl (hV.st la nm s acc s' f (Valid.of_input rfl hs) h),
       fun la s acc s' f hs h => Valid.of_input rfl (hV.cl la s acc s' f (Valid.of_input rfl hs) h),
       fun m la nm s s' f hs h => Valid.of_input rfl (hV.ca m la nm s s' f (Valid.of_input rfl hs) h)⟩
    have hm := step_monoOn { c with rules := rules' } ih' hV'
    rw [lev_succ]
    have hgo := fun name => rule?_go_rel (R := RuleRel c) (fun r r' h => h.1) hR name 0
    have hhas : ∀ name, Ctx.has { c with rules := rules' } name = c.has name := by
      intro name
      unfold Ctx.has Ctx.rule?
      rcases hgo name with ⟨h1, h2⟩ | ⟨id, r, r', h1, h2, _⟩
      · rw [h1, h2]
      · rw [h1, h2]; rfl
    constructor
    · intro m la e s hs
      refine Res.le_trans (hm.d m la e s (Valid.of_input rfl hs)) ?_
      have : (step { c with rules := rules' } (V c)).d m la e s = (V c).d m la e s := by
        conv => rhs; rw [V_fix]
        simp only [step]
        cases e <;> rfl
      rw [this]; exact Res.le_refl _
    · intro m la e s acc hs
      refine Res.le_trans (hm.l m la e s acc (Valid.of_input rfl hs)) ?_
      have : (step { c with rules := rules' } (V c)).l m la e s acc = (V c).l m la e s acc := by
        conv => rhs; rw [V_fix]
        rfl
      rw [this]; exact Res.le_refl _
    · intro m la s hs
      refine Res.le_trans (hm.k m la s (Valid.of_input rfl hs)) ?_
      have : (step { c with rules := rules' } (V c)).k m la s = (V c).k m la s := by
        conv => rhs; rw [V_fix]
        simp only [step, skipWsF, hhas]
      rw [this]; exact Res.le_refl _
    · intro la nm s acc hs
      refine Res.le_trans (hm.st la nm s acc (Valid.of_input rfl hs)) ?_
      have : (step { c with rules := rules' } (V c)).st la nm s acc = (V c).st la nm s acc := by
        conv => rhs; rw [V_fix]
        rfl
      rw [this]; exact Res.le_refl _
    · intro la s acc hs
      refine Res.le_trans (hm.cl la s acc (Valid.of_input rfl hs)) ?_
      have : (step { c with rules := rules' } (V c)).cl la s acc = (V c).cl la s acc := by
        conv => rhs; rw [V_fix]
        rfl
      rw [this]; exact Res.le_refl _
    · intro m la nm s hs
      refine Res.le_trans (hm.ca m la nm s (Valid.of_input rfl hs)) ?_
      have : (step { c with rules := rules' } (V c)).ca m la nm s = (V c).ca m la nm s := by
        conv => rhs; rw [V_fix]
        simp only [step, callF]
        unfold Ctx.rule?
        rcases hgo nm with ⟨h1, h2⟩ | ⟨id, r, r', h1, h2, hn, ht, hb⟩
        · rw [h1, h2]
          exact builtin_congr (c' := { c with rules := rules' }) (c := c) rfl rfl hR.length_eq.symm m la nm s
        · rw [h1, h2]
          simp only []
          have := hb m la s hs
          unfold val at this
          rw [← hn, ← ht, ← this]
      rw [this]; exact Res.le_refl _

theorem sim_valCa (c : Ctx) (rules' : List Rule) (hR : F2 (RuleRel c) c.rules rules') m la nm s (hs : Valid c s) :
    (valCa { c with rules := rules' } m la nm s).le (valCa c m la nm s) := by
  obtain ⟨N, hN⟩ := (lev_conv { c with rules := rules' }).ca m la nm s
  have := (sim_rules c rules' hR N).ca m la nm s hs
  have hN' := hN N (Nat.le_refl _)
  simp only at hN'
  rw [hN'] at this
  exact this

/-- one direction: a definite result under the new rules is the result under the old rules. -/
theorem means_of_means' (rules rules' : List Rule) (extras : Bool) (uni : String → Option CharSet)
    (input : Str) (hR : F2 (RuleRel { rules := rules, input := input, extras := extras, uni := uni }) rules rules')
    (rule : String) (r : Res) (h : Means rules' extras uni rule input r) : Means rules extras uni rule input r := by
  rw [means_iff] at h ⊢
  refine ⟨h.1, ?_⟩
  rcases sim_valCa { rules := rules, input := input, extras := extras, uni := uni } rules' hR .nonAtomic false rule
    ⟨0, []⟩ (valid_zero _ _) with h1 | h1
  · exact absurd (h.2.symm.trans h1) h.1
  · exact h1.symm.trans h.2

end PestModel.Ref
