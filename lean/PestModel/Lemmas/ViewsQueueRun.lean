import PestModel.Lemmas.ViewsQueue
/-!
The queue invariant carried through `run`: whatever a completed call appended to the queue is the
encoding of a forest nested between the position before and the position after the call.
-/
namespace PestModel.Views
open PestModel.PS PestModel.LineCol

/-- The tokens `s'` has beyond those of `s` encode a forest nested within `[s.pos, s'.pos]`. -/
def Ext (s s' : PState) : Prop :=
  Wf s.input s'.queue s.queue.length s.pos s'.queue.length s'.pos

theorem Ext.of_len {s s' : PState} (r : Rel s s') (h : s'.queue.length = s.queue.length) : Ext s s' := by
  unfold Ext; rw [h]; exact .nil r.pos

theorem Ext.of_eq {s s' t t' : PState} (h : Ext s s') (h1 : t.input = s.input)
    (h2 : t.queue.length = s.queue.length) (h3 : t.pos = s.pos) (h4 : t'.queue = s'.queue)
    (h5 : t'.pos = s'.pos) : Ext t t' := by
  unfold Ext at h ⊢; rw [h1, h2, h3, h4, h5]; exact h

theorem Ext.right {s s' t' : PState} (h : Ext s s') (h4 : t'.queue = s'.queue) (h5 : t'.pos = s'.pos) :
    Ext s t' := h.of_eq rfl rfl rfl h4 h5

theorem Ext.trans {a b c : PState} (h1 : Ext a b) (h2 : Ext b c) (r1 : Rel a b) (r2 : Rel b c) :
    Ext a c := by
  unfold Ext at h1 h2 ⊢
  rw [r1.input] at h2
  refine Wf.append (h1.congr fun i _ hi => r2.q.getElem?_erase i hi) h2

theorem _root_.PestModel.PS.Rel.bnd' {s s' : PState} (r : Rel s s') (h : isBoundary s.input s.pos = true) :
    isBoundary s'.input s'.pos = true := by
  rw [r.input]; exact r.bnd h

theorem terminal_queue {s s' : PState} {r : Option (Bool × Nat)} {tok : Option PTok}
    (h : (terminal s r tok).state? = some s') : s'.queue = s.queue := by
  unfold terminal at h
  split at h
  · simp at h
  · rename_i succ pos'
    cases tok with
    | none =>
      simp only [] at h
      split at h <;> (simp at h; subst h; rfl)
    | some t =>
      obtain ⟨pa', he, -⟩ := handleToken_eq { s with pos := pos' } s.pos t succ
      simp only [] at h
      rw [he] at h
      split at h <;> (simp at h; subst h; rfl)

abbrev IHX (cfg : Cfg) (fuel : Nat) : Prop :=
  ∀ p s s', (run cfg fuel p s).state? = some s' → isBoundary s.input s.pos = true → Ext s s'

theorem IHX.of_run {cfg fuel} (ih : IHX cfg fuel) {p s s'} {o : Out} (h : PS.run cfg fuel p s = o)
    (ho : o.state? = some s') (hb : isBoundary s.input s.pos = true) : Ext s s' :=
  ih p s s' (by rw [h]; exact ho) hb

section cases
variable (cfg : Cfg) (fuel : Nat)

/-- leaves: the queue is untouched -/
macro "leaf_queue" h:ident : tactic => `(tactic| (
  rw [PS.run] at $h:ident
  repeat' split at $h:ident
  all_goals first
    | (simp at $h:ident; done)
    | (simp at $h:ident; subst $h:ident; rfl)
    | exact terminal_queue $h
    | (simp only [] at $h:ident
       repeat' split at $h:ident
       all_goals first
         | (simp at $h:ident; done)
         | (simp at $h:ident; subst $h:ident; rfl)
         | exact (terminal_queue $h :))))

theorem q_matchString (str : Str) (s s' : PState)
    (h : (run cfg (fuel+1) (.matchString str) s).state? = some s') : s'.queue = s.queue := by
  leaf_queue h
theorem q_matchInsensitive (str : Str) (s s' : PState)
    (h : (run cfg (fuel+1) (.matchInsensitive str) s).state? = some s') : s'.queue = s.queue := by
  leaf_queue h
theorem q_matchRange (a b : Char) (s s' : PState)
    (h : (run cfg (fuel+1) (.matchRange a b) s).state? = some s') : s'.queue = s.queue := by
  leaf_queue h
theorem q_matchCharBy (cs : CharSet) (s s' : PState)
    (h : (run cfg (fuel+1) (.matchCharBy cs) s).state? = some s') : s'.queue = s.queue := by
  leaf_queue h
theorem q_skip (n : Nat) (s s' : PState)
    (h : (run cfg (fuel+1) (.skip n) s).state? = some s') : s'.queue = s.queue := by
  leaf_queue h
theorem q_skipUntil (strs : List Str) (s s' : PState)
    (h : (run cfg (fuel+1) (.skipUntil strs) s).state? = some s') : s'.queue = s.queue := by
  leaf_queue h
theorem q_startOfInput (s s' : PState)
    (h : (run cfg (fuel+1) .startOfInput s).state? = some s') : s'.queue = s.queue := by
  leaf_queue h
theorem q_endOfInput (s s' : PState)
    (h : (run cfg (fuel+1) .endOfInput s).state? = some s') : s'.queue = s.queue := by
  leaf_queue h
theorem q_stackPeek (s s' : PState)
    (h : (run cfg (fuel+1) .stackPeek s).state? = some s') : s'.queue = s.queue := by
  leaf_queue h
theorem q_stackPop (s s' : PState)
    (h : (run cfg (fuel+1) .stackPop s).state? = some s') : s'.queue = s.queue := by
  leaf_queue h
theorem q_stackMatchPeek (s s' : PState)
    (h : (run cfg (fuel+1) .stackMatchPeek s).state? = some s') : s'.queue = s.queue := by
  leaf_queue h
theorem q_stackMatchPeekSlice (start : Int) (stop : Option Int) (dir : MatchDir) (s s' : PState)
    (h : (run cfg (fuel+1) (.stackMatchPeekSlice start stop dir) s).state? = some s') :
    s'.queue = s.queue := by
  leaf_queue h
theorem q_stackMatchPop (s s' : PState)
    (h : (run cfg (fuel+1) .stackMatchPop s).state? = some s') : s'.queue = s.queue := by
  leaf_queue h
theorem q_stackDrop (s s' : PState)
    (h : (run cfg (fuel+1) .stackDrop s).state? = some s') : s'.queue = s.queue := by
  leaf_queue h
theorem q_stackPushLiteral (str : Str) (s s' : PState)
    (h : (run cfg (fuel+1) (.stackPushLiteral str) s).state? = some s') : s'.queue = s.queue := by
  leaf_queue h
theorem q_ok (s s' : PState) (h : (run cfg (fuel+1) .ok s).state? = some s') : s'.queue = s.queue := by
  leaf_queue h
theorem q_fail (s s' : PState) (h : (run cfg (fuel+1) .fail s).state? = some s') :
    s'.queue = s.queue := by
  leaf_queue h

theorem len_tagNode (tag : Str) (s s' : PState)
    (h : (run cfg (fuel+1) (.tagNode tag) s).state? = some s') :
    s'.queue.length = s.queue.length := by
  rw [PS.run] at h
  split at h
  · simp at h; subst h; rfl
  · split at h
    · rename_i si r t p hl
      simp at h; subst h
      have hne : s.queue ≠ [] := by intro h0; rw [h0] at hl; simp at hl
      have := List.length_pos_iff.mpr hne
      simp; omega
    · simp at h; subst h; rfl

theorem Wf.cast {input : Str} {q : List QTok} {a lo b hi a' b' : Nat} (h : Wf input q a lo b hi)
    (ha : a = a') (hb : b = b') : Wf input q a' lo b' hi := by
  subst ha; subst hb; exact h

theorem atomPre_eqs (a : Atomicity) (s1 : PState) :
    (atomPre a s1).input = s1.input ∧ (atomPre a s1).queue = s1.queue ∧ (atomPre a s1).pos = s1.pos := by
  unfold atomPre; split <;> exact ⟨rfl, rfl, rfl⟩

theorem atomPost_eqs (a : Atomicity) (s1 ns : PState) :
    (atomPost a s1 ns).queue = ns.queue ∧ (atomPost a s1 ns).pos = ns.pos := by
  unfold atomPost; split <;> exact ⟨rfl, rfl⟩

variable (ih : IHX cfg fuel)
include ih

theorem ext_call (i : Nat) (s s' : PState)
    (h : (PS.run cfg (fuel+1) (.call i) s).state? = some s')
    (hb : isBoundary s.input s.pos = true) : Ext s s' := by
  rw [run_call] at h
  split at h
  · exact ih _ _ _ h hb
  · simp at h

theorem ext_andThen (p q : Prog) (s s' : PState)
    (h : (PS.run cfg (fuel+1) (.andThen p q) s).state? = some s')
    (hb : isBoundary s.input s.pos = true) : Ext s s' := by
  rw [run_andThen] at h
  split at h
  · rename_i s1 h1
    have r1 := run_ok_rel h1
    have r2 := run_rel _ _ _ _ _ h
    exact Ext.trans (ih.of_run h1 rfl hb) (ih _ _ _ h (r1.bnd' hb)) r1 r2
  · rename_i o hno
    cases ho : PS.run cfg fuel p s with
    | ok s1 => exact absurd ho (hno s1)
    | err s1 => rw [ho] at h; simp at h; subst h; exact ih.of_run ho rfl hb
    | panic => rw [ho] at h; simp at h
    | fuel => rw [ho] at h; simp at h

theorem ext_orElse (p q : Prog) (s s' : PState)
    (h : (PS.run cfg (fuel+1) (.orElse p q) s).state? = some s')
    (hb : isBoundary s.input s.pos = true) : Ext s s' := by
  rw [run_orElse] at h
  split at h
  · rename_i s1 h1
    have r1 := run_err_rel h1
    have r2 := run_rel _ _ _ _ _ h
    exact Ext.trans (ih.of_run h1 rfl hb) (ih _ _ _ h (r1.bnd' hb)) r1 r2
  · rename_i o hno
    cases ho : PS.run cfg fuel p s with
    | ok s1 => rw [ho] at h; simp at h; subst h; exact ih.of_run ho rfl hb
    | err s1 => exact absurd ho (hno s1)
    | panic => rw [ho] at h; simp at h
    | fuel => rw [ho] at h; simp at h

theorem ext_repLoop (p : Prog) (s s' : PState)
    (h : (PS.run cfg (fuel+1) (.repLoop p) s).state? = some s')
    (hb : isBoundary s.input s.pos = true) : Ext s s' := by
  rw [run_repLoop] at h
  split at h
  · rename_i s1 h1
    have r1 := run_ok_rel h1
    have r2 := run_rel _ _ _ _ _ h
    exact Ext.trans (ih.of_run h1 rfl hb) (ih _ _ _ h (r1.bnd' hb)) r1 r2
  · rename_i s1 h1; simp at h; subst h; exact ih.of_run h1 rfl hb
  · rename_i o h1 h2
    cases ho : PS.run cfg fuel p s with
    | ok ns => exact absurd ho (h1 ns)
    | err ns => exact absurd ho (h2 ns)
    | panic => rw [ho] at h; simp at h
    | fuel => rw [ho] at h; simp at h

theorem ext_optional (p : Prog) (s s' : PState)
    (h : (PS.run cfg (fuel+1) (.optional p) s).state? = some s')
    (hb : isBoundary s.input s.pos = true) : Ext s s' := by
  have rel := run_rel _ _ _ _ _ h
  rw [run_optional] at h
  split at h
  · simp at h; subst h; exact Ext.of_len rel rfl
  · rename_i s1 hic
    obtain ⟨c, rfl⟩ := incCall_some hic
    split at h
    · rename_i ns h1; simp at h; subst h
      exact (ih.of_run h1 rfl hb).of_eq rfl rfl rfl rfl rfl
    · rename_i ns h1; simp at h; subst h
      exact (ih.of_run h1 rfl hb).of_eq rfl rfl rfl rfl rfl
    · rename_i o h1 h2
      cases ho : PS.run cfg fuel p { s with calls := c } with
      | ok ns => exact absurd ho (h1 ns)
      | err ns => exact absurd ho (h2 ns)
      | panic => rw [ho] at h; simp at h
      | fuel => rw [ho] at h; simp at h

theorem ext_repeat (p : Prog) (s s' : PState)
    (h : (PS.run cfg (fuel+1) (.repeat_ p) s).state? = some s')
    (hb : isBoundary s.input s.pos = true) : Ext s s' := by
  have rel := run_rel _ _ _ _ _ h
  rw [run_repeat] at h
  split at h
  · simp at h; subst h; exact Ext.of_len rel rfl
  · rename_i s1 hic
    obtain ⟨c, rfl⟩ := incCall_some hic
    exact (ih _ _ _ h hb).of_eq rfl rfl rfl rfl rfl

theorem ext_sequence (p : Prog) (s s' : PState)
    (h : (PS.run cfg (fuel+1) (.sequence p) s).state? = some s')
    (hb : isBoundary s.input s.pos = true) : Ext s s' := by
  have rel := run_rel _ _ _ _ _ h
  rw [run_sequence] at h
  split at h
  · simp at h; subst h; exact Ext.of_len rel rfl
  · rename_i s1 hic
    obtain ⟨c, rfl⟩ := incCall_some hic
    split at h
    · rename_i ns hbody
      split at h
      · rename_i ns' hck
        simp at h; subst h
        obtain ⟨st, hcl, rfl⟩ := checkpointOk_some hck
        exact (ih.of_run hbody rfl hb).of_eq rfl rfl rfl rfl rfl
      · simp at h
    · rename_i ns hbody
      have rb := run_err_rel hbody
      split at h
      · rename_i ns' hrs
        simp at h; subst h
        obtain ⟨st, hre, rfl⟩ := restoreStack_some hrs
        have hq := setLastTag_restore rb.q
        exact Ext.of_len rel (congrArg List.length hq)
      · simp at h
    · rename_i o h1 h2
      cases ho : PS.run cfg fuel p (checkpoint { s with calls := c }) with
      | ok ns => exact absurd ho (h1 ns)
      | err ns => exact absurd ho (h2 ns)
      | panic => rw [ho] at h; simp at h
      | fuel => rw [ho] at h; simp at h

theorem ext_restoreOnErr (p : Prog) (s s' : PState)
    (h : (PS.run cfg (fuel+1) (.restoreOnErr p) s).state? = some s')
    (hb : isBoundary s.input s.pos = true) : Ext s s' := by
  rw [run_restoreOnErr] at h
  split at h
  · rename_i ns hbody
    split at h
    · rename_i ns' hck
      simp at h; subst h
      obtain ⟨st, hcl, rfl⟩ := checkpointOk_some hck
      exact (ih.of_run hbody rfl hb).of_eq rfl rfl rfl rfl rfl
    · simp at h
  · rename_i ns hbody
    split at h
    · rename_i ns' hrs
      simp at h; subst h
      obtain ⟨st, hre, rfl⟩ := restoreStack_some hrs
      exact (ih.of_run hbody rfl hb).of_eq rfl rfl rfl rfl rfl
    · simp at h
  · rename_i o h1 h2
    cases ho : PS.run cfg fuel p (checkpoint s) with
    | ok ns => exact absurd ho (h1 ns)
    | err ns => exact absurd ho (h2 ns)
    | panic => rw [ho] at h; simp at h
    | fuel => rw [ho] at h; simp at h

omit ih in
theorem ext_lookahead (positive : Bool) (p : Prog) (s s' : PState)
    (h : (PS.run cfg (fuel+1) (.lookahead positive p) s).state? = some s') : Ext s s' := by
  have rel := run_rel _ _ _ _ _ h
  rw [run_lookahead] at h
  split at h
  · simp at h; subst h; exact Ext.of_len rel rfl
  · rename_i s1 hic
    obtain ⟨c, rfl⟩ := incCall_some hic
    split at h
    · rename_i ns hbody
      have rb := run_ok_rel hbody
      split at h
      · rename_i ns' hla
        have := (laPost_rel rb hla).2.2.1
        split at h <;> (simp at h; subst h; exact Ext.of_len rel (congrArg List.length this))
      · simp at h
    · rename_i ns hbody
      have rb := run_err_rel hbody
      split at h
      · rename_i ns' hla
        have := (laPost_rel rb hla).2.2.1
        split at h <;> (simp at h; subst h; exact Ext.of_len rel (congrArg List.length this))
      · simp at h
    · rename_i o h1 h2
      cases ho : PS.run cfg fuel p
          (checkpoint { ({ s with calls := c } : PState) with
            lookahead := laMode positive s.lookahead }) with
      | ok ns => exact absurd ho (h1 ns)
      | err ns => exact absurd ho (h2 ns)
      | panic => rw [ho] at h; simp at h
      | fuel => rw [ho] at h; simp at h

theorem ext_atomic (a : Atomicity) (p : Prog) (s s' : PState)
    (h : (PS.run cfg (fuel+1) (.atomic a p) s).state? = some s')
    (hb : isBoundary s.input s.pos = true) : Ext s s' := by
  have rel := run_rel _ _ _ _ _ h
  rw [run_atomic] at h
  split at h
  · simp at h; subst h; exact Ext.of_len rel rfl
  · rename_i s1 hic
    obtain ⟨c, rfl⟩ := incCall_some hic
    obtain ⟨e1, e2, e3⟩ := atomPre_eqs a { s with calls := c }
    have hb' : isBoundary (atomPre a { s with calls := c }).input (atomPre a { s with calls := c }).pos
        = true := by rw [e1, e3]; exact hb
    split at h
    · rename_i ns hbody; simp at h; subst h
      obtain ⟨f1, f2⟩ := atomPost_eqs a { s with calls := c } ns
      exact (ih.of_run hbody rfl hb').of_eq e1.symm (congrArg List.length e2.symm) e3.symm
        f1 f2
    · rename_i ns hbody; simp at h; subst h
      obtain ⟨f1, f2⟩ := atomPost_eqs a { s with calls := c } ns
      exact (ih.of_run hbody rfl hb').of_eq e1.symm (congrArg List.length e2.symm) e3.symm
        f1 f2
    · rename_i o h1 h2
      cases ho : PS.run cfg fuel p (atomPre a { s with calls := c }) with
      | ok ns => exact absurd ho (h1 ns)
      | err ns => exact absurd ho (h2 ns)
      | panic => rw [ho] at h; simp at h
      | fuel => rw [ho] at h; simp at h

theorem ext_stackPush (p : Prog) (s s' : PState)
    (h : (PS.run cfg (fuel+1) (.stackPush p) s).state? = some s')
    (hb : isBoundary s.input s.pos = true) : Ext s s' := by
  have rel := run_rel _ _ _ _ _ h
  rw [run_stackPush] at h
  split at h
  · simp at h; subst h; exact Ext.of_len rel rfl
  · rename_i s1 hic
    obtain ⟨c, rfl⟩ := incCall_some hic
    split at h
    · rename_i ns hbody
      unfold pushSpan at h
      split at h
      · simp at h; subst h
        exact (ih.of_run hbody rfl hb).of_eq rfl rfl rfl rfl rfl
      · simp at h
    · rename_i o h1
      cases ho : PS.run cfg fuel p { s with calls := c } with
      | ok ns => exact absurd ho (h1 ns)
      | err ns =>
        rw [ho] at h; simp at h; subst h
        exact (ih.of_run ho rfl hb).of_eq rfl rfl rfl rfl rfl
      | panic => rw [ho] at h; simp at h
      | fuel => rw [ho] at h; simp at h

theorem ext_rule (r : Nat) (p : Prog) (s s' : PState)
    (h : (PS.run cfg (fuel+1) (.rule r p) s).state? = some s')
    (hb : isBoundary s.input s.pos = true) : Ext s s' := by
  have rel := run_rel _ _ _ _ _ h
  rw [run_rule] at h
  split at h
  · simp at h; subst h; exact Ext.of_len rel rfl
  · rename_i s1 hic
    obtain ⟨c, rfl⟩ := incCall_some hic
    split at h
    · rename_i ns hbody
      have rb := run_ok_rel hbody
      obtain ⟨-, a, b, c', pa', q', rfl, -, h1, h2⟩ := ruleOkPost_spec rb h
      have ihb := ih _ _ _ (show (PS.run cfg fuel p (rulePre { s with calls := c })).state? = some ns by
        rw [hbody]; rfl)
      by_cases hc : ruleCond { s with calls := c }
      · obtain ⟨inner, hq, rfl⟩ := h1 hc
        rw [rulePre_of_cond hc] at ihb rb
        have ihb := ihb hb
        unfold Ext at ihb ⊢
        rw [hq] at ihb
        have w := Wf.wrap (r := r) (ihb.cast (by simp) (by simp; omega)) hb (rb.bnd hb)
        exact w.cast rfl (by simp; omega)
      · have := h2 hc; subst this
        rw [rulePre_of_not hc] at ihb
        exact (ihb hb).of_eq rfl rfl rfl rfl rfl
    · rename_i ns hbody
      have rb := run_err_rel hbody
      obtain ⟨-, a, b, c', pa', q', rfl, -, h1, h2⟩ := ruleErrPost_spec rb h
      have ihb := ih _ _ _ (show (PS.run cfg fuel p (rulePre { s with calls := c })).state? = some ns by
        rw [hbody]; rfl)
      by_cases hc : ruleCond { s with calls := c }
      · have := h1 hc; subst this
        exact Ext.of_len rel rfl
      · have := h2 hc; subst this
        rw [rulePre_of_not hc] at ihb
        exact (ihb hb).of_eq rfl rfl rfl rfl rfl
    · rename_i o h1 h2
      cases ho : PS.run cfg fuel p (rulePre { s with calls := c }) with
      | ok ns => exact absurd ho (h1 ns)
      | err ns => exact absurd ho (h2 ns)
      | panic => rw [ho] at h; simp at h
      | fuel => rw [ho] at h; simp at h

end cases

/-- **Queue invariant.** -/
theorem run_ext (cfg : Cfg) : ∀ (fuel : Nat) (p : Prog) (s s' : PState),
    (PS.run cfg fuel p s).state? = some s' → isBoundary s.input s.pos = true → Ext s s'
  | 0, p, s, s', h, _ => by rw [run_zero] at h; simp at h
  | fuel + 1, p, s, s', h, hb => by
    have ih : IHX cfg fuel := run_ext cfg fuel
    have rel := run_rel _ _ _ _ _ h
    cases p with
    | sequence p => exact ext_sequence cfg fuel ih p s s' h hb
    | optional p => exact ext_optional cfg fuel ih p s s' h hb
    | repeat_ p => exact ext_repeat cfg fuel ih p s s' h hb
    | repLoop p => exact ext_repLoop cfg fuel ih p s s' h hb
    | lookahead b p => exact ext_lookahead cfg fuel b p s s' h
    | atomic a p => exact ext_atomic cfg fuel ih a p s s' h hb
    | rule r p => exact ext_rule cfg fuel ih r p s s' h hb
    | stackPush p => exact ext_stackPush cfg fuel ih p s s' h hb
    | restoreOnErr p => exact ext_restoreOnErr cfg fuel ih p s s' h hb
    | andThen p q => exact ext_andThen cfg fuel ih p q s s' h hb
    | orElse p q => exact ext_orElse cfg fuel ih p q s s' h hb
    | matchString str => exact Ext.of_len rel (congrArg _ (q_matchString cfg fuel str s s' h))
    | matchInsensitive str => exact Ext.of_len rel (congrArg _ (q_matchInsensitive cfg fuel str s s' h))
    | matchRange a b => exact Ext.of_len rel (congrArg _ (q_matchRange cfg fuel a b s s' h))
    | matchCharBy cs => exact Ext.of_len rel (congrArg _ (q_matchCharBy cfg fuel cs s s' h))
    | skip n => exact Ext.of_len rel (congrArg _ (q_skip cfg fuel n s s' h))
    | skipUntil strs => exact Ext.of_len rel (congrArg _ (q_skipUntil cfg fuel strs s s' h))
    | startOfInput => exact Ext.of_len rel (congrArg _ (q_startOfInput cfg fuel s s' h))
    | endOfInput => exact Ext.of_len rel (congrArg _ (q_endOfInput cfg fuel s s' h))
    | stackPeek => exact Ext.of_len rel (congrArg _ (q_stackPeek cfg fuel s s' h))
    | stackPop => exact Ext.of_len rel (congrArg _ (q_stackPop cfg fuel s s' h))
    | stackMatchPeek => exact Ext.of_len rel (congrArg _ (q_stackMatchPeek cfg fuel s s' h))
    | stackMatchPop => exact Ext.of_len rel (congrArg _ (q_stackMatchPop cfg fuel s s' h))
    | stackDrop => exact Ext.of_len rel (congrArg _ (q_stackDrop cfg fuel s s' h))
    | stackMatchPeekSlice a b d =>
      exact Ext.of_len rel (congrArg _ (q_stackMatchPeekSlice cfg fuel a b d s s' h))
    | stackPushLiteral str => exact Ext.of_len rel (congrArg _ (q_stackPushLiteral cfg fuel str s s' h))
    | tagNode t => exact Ext.of_len rel (len_tagNode cfg fuel t s s' h)
    | call i => exact ext_call cfg fuel ih i s s' h hb
    | ok => exact Ext.of_len rel (congrArg _ (q_ok cfg fuel s s' h))
    | fail => exact Ext.of_len rel (congrArg _ (q_fail cfg fuel s s' h))

end PestModel.Views
