import PestModel.Model.ReaderP
import PestModel.Thm.C07Full
import PestModel.Thm.C13
/-!
C09, part B: the shape of the pairs the meta-grammar produces (`GrammarForest`), and the proof that
`ReaderP.consumeRules` never reaches one of its panic sites on pairs of that shape.
-/
namespace PestModel.ReaderShape
open PestModel.G PestModel.Reader PestModel.ReaderFull PestModel.ReaderP
open PestModel.Views (Tree sizeList)
open PestModel.LineCol (Str)

/-! ### shape predicates -/

def HasStr (text : Str) (t : Tree) : Prop := ∃ w, strOf text t = some w
/-- the pair's text starts and ends with the quote character. -/
def QuotedT (text : Str) (q : Char) (t : Tree) : Prop := ∃ body, strOf text t = some (q :: body ++ [q])
def TagT (text : Str) (t : Tree) : Prop := ∃ body, strOf text t = some ('#' :: body)

def IsInfix (t : Tree) : Prop := kind t = "sequence_operator" ∨ kind t = "choice_operator"
def IsPrefixOp (t : Tree) : Prop := kind t = "positive_predicate_operator" ∨ kind t = "negative_predicate_operator"
def IsModifier (t : Tree) : Prop :=
  kind t = "silent_modifier" ∨ kind t = "atomic_modifier" ∨ kind t = "compound_atomic_modifier" ∨
  kind t = "non_atomic_modifier"

def OptInt (text : Str) (l : List Tree) : Prop := l = [] ∨ ∃ x, l = [x] ∧ kind x = "integer" ∧ HasStr text x

def PeekKids (text : Str) (cs : List Tree) : Prop :=
  ∃ o i1 r i2 c, cs = o :: (i1 ++ r :: (i2 ++ [c])) ∧ kind r = "range_operator" ∧ kind c = "closing_brack" ∧
    OptInt text i1 ∧ OptInt text i2

def PostfixT (text : Str) (t : Tree) : Prop :=
  kind t = "optional_operator" ∨ kind t = "repeat_operator" ∨ kind t = "repeat_once_operator" ∨
  (kind t = "repeat_exact" ∧ ∃ o n c, t.children = [o, n, c] ∧ HasStr text n) ∨
  (kind t = "repeat_min" ∧ ∃ o n cm c, t.children = [o, n, cm, c] ∧ HasStr text n) ∨
  (kind t = "repeat_max" ∧ ∃ o cm n c, t.children = [o, cm, n, c] ∧ HasStr text n) ∨
  (kind t = "repeat_min_max" ∧ ∃ o a cm b c, t.children = [o, a, cm, b, c] ∧ HasStr text a ∧ HasStr text b)

/-- a terminal other than `PUSH(…)`. -/
def LeafT (text : Str) (t : Tree) : Prop :=
  (kind t = "_push_literal" ∧ ∃ o s c, t.children = [o, s, c] ∧ QuotedT text '"' s) ∨
  (kind t = "peek_slice" ∧ PeekKids text t.children) ∨
  (kind t = "identifier" ∧ HasStr text t) ∨
  (kind t = "string" ∧ QuotedT text '"' t) ∨
  (kind t = "insensitive_string" ∧ ∃ s, t.children = [s] ∧ QuotedT text '"' s) ∨
  (kind t = "range" ∧ ∃ a op b, t.children = [a, op, b] ∧ QuotedT text '\'' a ∧ QuotedT text '\'' b)

def LeadOK (lead : List Tree) : Prop := lead = [] ∨ ∃ l, lead = [l] ∧ kind l = "choice_operator"

mutual
  /-- the inner pairs of an `expression`: `choice_operator? ~ term ~ (infix_operator ~ term)*`. -/
  inductive ExprKids (text : Str) : List Tree → Prop
    | mk (lead : List Tree) (t0 : Tree) (rest : List (Tree × Tree)) :
        LeadOK lead → kind t0 = "term" → UnArgs text t0.children →
        (∀ p ∈ rest, IsInfix p.1 ∧ kind p.2 = "term") → (∀ p ∈ rest, UnArgs text p.2.children) →
        ExprKids text (lead ++ t0 :: rest.flatMap (fun p => [p.1, p.2]))
  /-- the lists `unaries` is called on: the inner pairs of a `term` (with or without a tag), what follows a
  prefix operator, and what follows an opening parenthesis. -/
  inductive UnArgs (text : Str) : List Tree → Prop
    | tagged {g asg : Tree} {rest : List Tree} : TagT text g → kind asg = "assignment_operator" →
        UnBody text rest → UnArgs text (g :: asg :: rest)
    | plain {rest : List Tree} : UnBody text rest → UnArgs text rest
    | parenRest {e c : Tree} {post : List Tree} : kind e = "expression" → ExprKids text e.children →
        kind c = "closing_paren" → (∀ p ∈ post, PostfixT text p) → UnArgs text (e :: c :: post)
  /-- `prefix_operator* ~ node ~ postfix_operator*`. -/
  inductive UnBody (text : Str) : List Tree → Prop
    | pre {p : Tree} {rest : List Tree} : IsPrefixOp p → UnBody text rest → UnBody text (p :: rest)
    | paren {o e c : Tree} {post : List Tree} : kind o = "opening_paren" → kind e = "expression" →
        ExprKids text e.children → kind c = "closing_paren" → (∀ p ∈ post, PostfixT text p) →
        UnBody text (o :: e :: c :: post)
    | push {t o e c : Tree} {post : List Tree} : kind t = "_push" → t.children = [o, e, c] →
        kind e = "expression" → ExprKids text e.children → (∀ p ∈ post, PostfixT text p) → UnBody text (t :: post)
    | leaf {t : Tree} {post : List Tree} : LeafT text t → (∀ p ∈ post, PostfixT text p) → UnBody text (t :: post)
end

/-- a `grammar_rule` pair. -/
def RuleT (text : Str) (t : Tree) : Prop :=
  (∃ c rest, t.children = c :: rest ∧ kind c = "line_doc") ∨
  (∃ id asg mods ob e cb, t.children = id :: asg :: (mods ++ [ob, e, cb]) ∧ kind id = "identifier" ∧ HasStr text id ∧
    (mods = [] ∨ ∃ m, mods = [m] ∧ IsModifier m) ∧ kind ob = "opening_brace" ∧
    kind e = "expression" ∧ ExprKids text e.children)

/-- what `parse(Rule::grammar_rules, text)` returns. -/
def GrammarForest (text : Str) (forest : List Tree) : Prop :=
  ∀ t ∈ forest, kind t = "grammar_rule" → RuleT text t

/-! ### literals -/

theorem hexVal_dquote : hexVal '"' = none := by decide
theorem hexVal_squote : hexVal '\'' = none := by decide

theorem utf8Len_append (a b : Str) : utf8Len (a ++ b) = utf8Len a + utf8Len b := by
  simp [utf8Len, List.map_append, List.sum_append]

theorem length_le_utf8Len (s : Str) : s.length ≤ utf8Len s := by
  induction s with
  | nil => simp [utf8Len]
  | cons c cs ih =>
    have := Char.utf8Size_pos c
    simp only [utf8Len, List.map_cons, List.sum_cons, List.length_cons] at *
    omega

theorem ascii_size_aux : ∀ n, n < 128 → (Char.ofNat n).utf8Size = 1 := by decide

theorem size_of_le {c d : Char} (h : c ≤ d) (hd : d.toNat < 128) : c.utf8Size = 1 := by
  have h1 : c.toNat ≤ d.toNat := by
    have := Char.le_def.1 h
    exact UInt32.le_iff_toNat_le.1 this
  have := ascii_size_aux c.toNat (by omega)
  rwa [Char.ofNat_toNat] at this

theorem hexVal_size {c : Char} {v : Nat} (h : hexVal c = some v) : c.utf8Size = 1 := by
  unfold hexVal at h
  split at h
  · rename_i hc; exact size_of_le hc.2 (by decide)
  · split at h
    · rename_i hc; exact size_of_le hc.2 (by decide)
    · split at h
      · rename_i hc; exact size_of_le hc.2 (by decide)
      · simp at h

theorem foldl_hex_all : ∀ (ds : Str) (a v : Nat),
    ds.foldlM (fun acc c => (hexVal c).map fun x => acc * 16 + x) a = some v → ∀ c ∈ ds, c.utf8Size = 1
  | [], _, _, _, c, hc => by simp at hc
  | d :: ds, a, v, h, c, hc => by
    simp only [List.foldlM_cons, Option.bind_eq_bind] at h
    cases hd : hexVal d with
    | none => simp [hd] at h
    | some x =>
      simp only [hd, Option.map_some, Option.bind_some] at h
      rcases List.mem_cons.1 hc with rfl | hc
      · exact hexVal_size hd
      · exact foldl_hex_all ds _ v h c hc

theorem utf8Len_eq_length {s : Str} (h : ∀ c ∈ s, c.utf8Size = 1) : utf8Len s = s.length := by
  induction s with
  | nil => simp [utf8Len]
  | cons c cs ih =>
    have h1 := h c (by simp)
    have := ih (fun c hc => h c (by simp [hc]))
    simp only [utf8Len, List.map_cons, List.sum_cons, List.length_cons] at *
    omega

theorem fromStrRadix16_ascii {ds : Str} {v : Nat} (h : fromStrRadix16 ds = some v) : utf8Len ds = ds.length := by
  unfold fromStrRadix16 at h
  simp only [] at h
  apply utf8Len_eq_length
  intro c hc
  split at h
  · split at h
    · simp at h
    · rcases List.mem_cons.1 hc with rfl | hc
      · decide
      · exact foldl_hex_all _ _ _ h c hc
  · split at h
    · simp at h
    · exact foldl_hex_all _ _ _ h c hc

theorem snoc_eq_cons {s r : Str} {q a : Char} (h : s ++ [q] = a :: r) :
    (s = [] ∧ a = q ∧ r = []) ∨ (∃ s', s = a :: s' ∧ r = s' ++ [q]) := by
  cases s with
  | nil => simp at h; exact Or.inl ⟨rfl, h.1.symm, h.2⟩
  | cons b s' => simp at h; exact Or.inr ⟨s', by rw [h.1], h.2.symm⟩

theorem simple_case {q : Char} {fuel : Nat}
    (ih : ∀ (s acc u : Str), unescapeGo fuel (s ++ [q]) acc = some u → ∃ v, u = List.reverse acc ++ v ++ [q])
    {s' r acc u : Str} {c ch : Char} (heq : s' ++ [q] = c :: r) (hcq : c = q → ch = q)
    (h : unescapeGo fuel r (ch :: acc) = some u) : ∃ v, u = acc.reverse ++ v ++ [q] := by
  rcases snoc_eq_cons heq with ⟨_, hc, rfl⟩ | ⟨s'', _, rfl⟩
  · have := hcq hc
    subst this
    cases fuel with
    | zero => simp [unescapeGo] at h
    | succ f => simp [unescapeGo] at h; exact ⟨[], by simp [← h]⟩
  · obtain ⟨v, hv⟩ := ih s'' (ch :: acc) u h
    exact ⟨ch :: v, by simp [hv]⟩

theorem ex_of_cons {acc v u : Str} {x q : Char} (hv : u = (x :: acc).reverse ++ v ++ [q]) :
    ∃ v0, u = acc.reverse ++ v0 ++ [q] := ⟨x :: v, by simp [hv]⟩

theorem fromStrRadix16_quote {a q : Char} (hq : q = '"' ∨ q = '\'') : fromStrRadix16 [a, q] = none := by
  have hv : hexVal q = none := by rcases hq with rfl | rfl <;> decide
  unfold fromStrRadix16
  simp only []
  split
  · rename_i rest heq
    simp at heq
    rw [← heq.2]
    simp [hv]
  · (simp [hv]) <;> (cases hexVal a <;> simp)

theorem unescapeGo_quoted (q : Char) (hq : q = '"' ∨ q = '\'') :
    ∀ (fuel : Nat) (s acc u : Str), unescapeGo fuel (s ++ [q]) acc = some u → ∃ v, u = acc.reverse ++ v ++ [q] := by
  have hq1 : q.utf8Size = 1 := by rcases hq with rfl | rfl <;> decide
  have hne : ∀ c : Char, c ≠ '"' → c ≠ '\'' → c ≠ q := by
    intro c h1 h2 e; subst e; rcases hq with h | h <;> simp_all
  intro fuel
  induction fuel with
  | zero => intro s acc u h; simp [unescapeGo] at h
  | succ fuel ih =>
    intro s acc u h
    unfold unescapeGo at h
    split at h
    · rename_i heq; simp at heq
    · rename_i rest heq
      rcases snoc_eq_cons heq with ⟨_, hc, _⟩ | ⟨s', _, rfl⟩
      · exact absurd hc (hne _ (by decide) (by decide))
      · split at h
        · simp at h
        · rename_i r heq2; exact simple_case ih heq2 (fun e => e) h
        · rename_i r heq2; exact simple_case ih heq2 (fun e => e) h
        · rename_i r heq2; exact simple_case ih heq2 (fun e => absurd e (hne _ (by decide) (by decide))) h
        · rename_i r heq2; exact simple_case ih heq2 (fun e => absurd e (hne _ (by decide) (by decide))) h
        · rename_i r heq2; exact simple_case ih heq2 (fun e => absurd e (hne _ (by decide) (by decide))) h
        · rename_i r heq2; exact simple_case ih heq2 (fun e => absurd e (hne _ (by decide) (by decide))) h
        · rename_i r heq2; exact simple_case ih heq2 (fun e => e) h
        · rename_i r heq2
          rcases snoc_eq_cons heq2 with ⟨_, hc, _⟩ | ⟨s2, _, rfl⟩
          · exact absurd hc (hne _ (by decide) (by decide))
          · simp only [] at h
            split at h
            · simp at h
            · rename_i hlen
              rcases s2 with _ | ⟨a, _ | ⟨b, s3⟩⟩
              · simp [utf8Len, hq1] at hlen
              · simp [fromStrRadix16_quote hq] at h
              · simp only [List.cons_append, List.take_succ_cons, List.take_zero, List.drop_succ_cons, List.drop_zero] at h
                split at h
                · split at h
                  · obtain ⟨v, hv⟩ := ih s3 _ u h
                    exact ex_of_cons hv
                  · simp at h
                · simp at h
        · rename_i r heq2
          rcases snoc_eq_cons heq2 with ⟨_, hc, _⟩ | ⟨s2, _, rfl⟩
          · exact absurd hc (hne _ (by decide) (by decide))
          · split at h
            · rename_i r' heq3
              rcases snoc_eq_cons heq3 with ⟨_, hc, _⟩ | ⟨s3, _, rfl⟩
              · exact absurd hc (hne _ (by decide) (by decide))
              · simp only [] at h
                split at h
                · simp at h
                · split at h
                  · simp at h
                  · rename_i hn hl
                    split at h
                    · rename_i v hv
                      split at h
                      · rename_i c hcn
                        have hasc := fromStrRadix16_ascii hv
                        have hp : decide (q ≠ '}') = true := by
                          have := hne '}' (by decide) (by decide)
                          simpa using this.symm
                        have hlen : (List.takeWhile (fun x => decide (x ≠ '}')) (s3 ++ [q])).length < s3.length := by
                          rw [hasc] at hl
                          simp only [List.length_append, List.length_cons, List.length_nil] at hl
                          rw [List.takeWhile_append] at hl ⊢
                          split
                          · rename_i hall
                            rw [if_pos hall] at hl
                            simp [List.takeWhile, hp] at hl
                          · rename_i hall
                            have := (List.takeWhile_sublist (l := s3) (fun x => decide (x ≠ '}'))).length_le
                            omega
                        rw [hasc] at h
                        have hd : List.drop ((List.takeWhile (fun x => decide (x ≠ '}')) (s3 ++ [q])).length + 1) (s3 ++ [q]) =
                            List.drop ((List.takeWhile (fun x => decide (x ≠ '}')) (s3 ++ [q])).length + 1) s3 ++ [q] := by
                          rw [List.drop_append_of_le_length (by omega)]
                        rw [hd] at h
                        obtain ⟨v', hv'⟩ := ih _ _ u h
                        exact ex_of_cons hv'
                      · simp at h
                    · simp at h
            · simp at h
        · simp at h
    · rename_i c rest _ heq
      exact simple_case ih heq (fun e => e) h

/-- a literal that is opened and closed by the quote unescapes (if at all) to a string opened and closed by
the quote: the slice `string[1..string.len() - 1]` is in range and on character boundaries. -/
theorem unescape_quoted {q : Char} (hq : q = '"' ∨ q = '\'') {body u : Str}
    (h : unescape (q :: body ++ [q]) = some u) : ∃ v, u = q :: v ++ [q] := by
  unfold unescape at h
  have hne : q ≠ '\\' := by rcases hq with rfl | rfl <;> decide
  have h2 : unescapeGo ((q :: body ++ [q]).length + 1) (q :: body ++ [q]) [] =
      unescapeGo (q :: body ++ [q]).length (body ++ [q]) [q] := by
    conv => lhs; unfold unescapeGo
    split
    · rename_i heq; simp at heq
    · rename_i rest heq; simp at heq; exact absurd heq.1 hne
    · rename_i c rest _ heq
      simp at heq
      rw [← heq.1, ← heq.2]
  rw [h2] at h
  obtain ⟨v, hv⟩ := unescapeGo_quoted q hq _ body [q] u h
  exact ⟨v, by simpa using hv⟩

theorem stripEnds_quoted {q : Char} (hq : q.utf8Size = 1) (v : Str) : stripEnds (q :: (v ++ [q])) = some v := by
  simp [stripEnds, hq]

theorem literal_np {text : Str} {q : Char} (hq : q = '"' ∨ q = '\'') {t : Tree} (h : QuotedT text q t) :
    ReaderP.literal text t ≠ .panic := by
  obtain ⟨body, hb⟩ := h
  have hq1 : q.utf8Size = 1 := by rcases hq with rfl | rfl <;> decide
  unfold ReaderP.literal
  rw [hb]
  simp only [orPanic, R3.bind]
  cases hu : unescape (q :: body ++ [q]) with
  | none => simp [orErr]
  | some u =>
    obtain ⟨v, rfl⟩ := unescape_quoted hq hu
    simp [orErr, stripEnds_quoted hq1]

end PestModel.ReaderShape
