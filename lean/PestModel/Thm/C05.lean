import PestModel.Model.Ref
/-! # C05 — placeholder until the theorems land. -/
namespace PestModel.C05
open PestModel.G

/-- The lister rewrite on the property's own example. -/
theorem lister_example :
    listF (.seq (.rep (.seq (.str ['a']) (.str ['b']))) (.str ['a'])) =
      .seq (.str ['a']) (.rep (.seq (.str ['b']) (.str ['a']))) := by decide

end PestModel.C05
