import PestModel.Model.Pratt
import PestModel.Model.Proto
/-! Driver mode `pratt`: `T <kind> <levels> <toks>`; kind ∈ {pratt, const, climber, sy};
levels `1l,2r;3p;4o` (`;` separates levels; affix p=prefix o=postfix l/r=infix), toks `5,1,6`. -/
namespace PestModel.PrattDriver
open PestModel.Pratt PestModel.Proto

def parseAffix : Char → Option Affix
  | 'p' => some .prefix
  | 'o' => some .postfix
  | 'l' => some (.infix .left)
  | 'r' => some (.infix .right)
  | _ => none

def parseOp (w : String) : Option (Nat × Affix) :=
  match w.toList.reverse with
  | c :: ds => do
    let a ← parseAffix c
    let r ← (String.ofList ds.reverse).toNat?
    pure (r, a)
  | [] => none

def parseLevels (w : String) : Option (List (List (Nat × Affix))) :=
  if w = "-" then some [] else
  (w.splitOn ";").mapM fun lvl => (lvl.splitOn ",").mapM parseOp

def parseToks (w : String) : Option (List Nat) :=
  if w = "-" then some [] else (w.splitOn ",").mapM (·.toNat?)

partial def showTree : Tree → String
  | .prim r => toString r
  | .pre r t => s!"(pre {r} {showTree t})"
  | .post t r => s!"(post {showTree t} {r})"
  | .inf l r rt => s!"(inf {showTree l} {r} {showTree rt})"

def showRes : Res (Tree × List Nat) → String
  | .ok (t, _) => showTree t   -- unconsumed tokens are not observable through `parse`/`climb`
  | .panic => "panic"
  | .fuel => "fuel"

def assocOf : Affix → Option Assoc
  | .infix a => some a
  | _ => none

def runLine (line : String) : String :=
  match words line with
  | ["T", kind, lv, tk] =>
    match parseLevels lv, parseToks tk with
    | some levels, some toks =>
      match kind with
      | "pratt" => showRes (parse (prattTable levels) toks)
      | "const" => showRes (parse (constTable (flattenLevels levels)) toks)
      | "sy" =>
        match shuntingYard (prattTable levels) toks with
        | some t => showTree t
        | none => "ill-formed"
      | "climber" =>
        match levels.mapM (fun lvl => lvl.mapM fun (r, a) => (assocOf a).map fun x => (r, x)) with
        | some cl => showRes (climb (climberTable cl) toks)
        | none => "bad-op"
      | _ => "bad-op"
    | _, _ => "bad-op"
  | _ => "bad-op"

end PestModel.PrattDriver
