import PestModel.Model.RefTrace
/-! # C08 — placeholder until the theorems land. -/
namespace PestModel.C08
open PestModel.RefTrace

theorem smoke : specReport [.node 1 0 false false true [.node 2 0 false false true [], .node 3 0 false false true []]]
    = (0, [1], []) := by decide

end PestModel.C08
