import PestModel.Lemmas.VmRefTermMain
/-! C01 (termination), part 4: the induction step `TN n → TN (n + 1)`. -/
namespace PestModel.VmRef
open PestModel.G PestModel.PS PestModel.Lower PestModel.Ref PestModel.Views
open PestModel.LineCol (Str isBoundary bLen cLen splitAt? slice?)

section
variable {env : Env} {extras memchr : Bool} {input : Str}

theorem ruleD_ne_fuel {id : Nat} {emit : Bool} {D : St → Res} {σ : St} (h : ruleD id emit D σ ≠ .fuel) :
    D σ ≠ .fuel := by
  intro h'; apply h; simp [ruleD, h']

theorem tS_vmRule {n : Nat} (ih : TN env extras memchr input n) (i : Nat) (r : ORule)
    (hg : GoodE extras env.rules r.expr) (m : Atomicity) (la : Bool)
    (hc : CtxOK env extras (bodyMode r.name r.ty m) r.expr) :
    TermS (mkCfg env memchr) input (vmRule env i r m) m la
      (ruleD i (emitsFor r.ty m la)
        (denote (mkCtx env extras input) n (bodyMode r.name r.ty m) la (ofOptimized r.expr))) := by
  unfold vmRule
  by_cases hws : isWsCm r.name = true
  · rw [if_pos hws, bodyMode_ws hws]
    rw [bodyMode_ws hws] at hc
    revert hc
    cases hty : r.ty <;> dsimp only <;> intro hc
    · exact tS_rule i _ (tS_atomic .atomic (ih.e r.expr .atomic la hg hc))
    · exact tS_congr (tS_atomic .atomic (ih.e r.expr .atomic la hg hc)) fun σ h => ruleD_ne_fuel h
    · exact tS_rule i _ (tS_atomic .atomic (ih.e r.expr .atomic la hg hc))
    · exact tS_atomic .compound (tS_rule i _ (ih.e r.expr .compound la hg hc))
    · exact tS_atomic .nonAtomic (tS_rule i _ (tS_atomic .atomic (ih.e r.expr .atomic la hg hc)))
  · rw [if_neg hws, bodyMode_nws hws]
    rw [bodyMode_nws hws] at hc
    revert hc
    cases hty : r.ty <;> dsimp only <;> intro hc
    · exact tS_rule i _ (ih.e r.expr m la hg hc)
    · exact tS_congr (ih.e r.expr m la hg hc) fun σ h => ruleD_ne_fuel h
    · exact tS_rule i _ (tS_atomic .atomic (ih.e r.expr .atomic la hg hc))
    · exact tS_atomic .compound (tS_rule i _ (ih.e r.expr .compound la hg hc))
    · exact tS_atomic .nonAtomic (tS_rule i _ (ih.e r.expr .nonAtomic la hg hc))

variable (hsize : env.rules.length ≤ 333333333) (hgood : GoodRules extras env.rules)
  (htr : TagRules extras env.rules)
include hsize hgood htr

theorem specE (e : OExpr) (m : Atomicity) (la : Bool) (hg : GoodE extras env.rules e)
    (hc : CtxOK env extras m e) (k : Nat) :
    Spec (mkCfg env memchr) input k (vmExpr env m e) m la
      (val (mkCtx env extras input) m la (ofOptimized e)) (Rest (¬ Dirty env.rules e)) :=
  PE_all hsize hgood htr k e m la hg hc

theorem specCall (name : String) (m : Atomicity) (la : Bool) (hreach : Reach env.rules name m) (k : Nat) :
    Spec (mkCfg env memchr) input k (callRule env name m) m la
      (valCa (mkCtx env extras input) m la name) (Rest (¬ Dirty env.rules (.ident name))) :=
  spec_callRule hsize hgood htr (fun j _ => PE_all hsize hgood htr j) name m la hreach

theorem specSkip (m : Atomicity) (la : Bool) (k : Nat) :
    Spec (mkCfg env memchr) input k (skipProg env m) m la (valK (mkCtx env extras input) m la) Any :=
  spec_skipProg hsize hgood htr (fun j _ => PE_all hsize hgood htr j) m la

theorem TN_ca {n : Nat} (ih : TN env extras memchr input n) (name : String) (m : Atomicity) (la : Bool)
    (hreach : Reach env.rules name m) :
    TermS (mkCfg env memchr) input (callRule env name m) m la
      (call (mkCtx env extras input) (n + 1) m la name) := by
  unfold callRule
  cases hidx : env.index name with
  | none =>
    dsimp only
    exact fun st σ hs _ => term_builtin hsize name st hs.incCall
  | some i =>
    dsimp only
    obtain ⟨r, hget, hname, hlook, hrule, hfind⟩ := index_some (extras := extras) (input := input) hidx
    have hmem : r ∈ env.rules := List.mem_of_getElem? hget
    have hg : GoodE extras env.rules r.expr := hgood.expr r hmem
    have hc : CtxOK env extras (bodyMode r.name r.ty m) r.expr :=
      ⟨fun n' hn' => Reach.step hreach hfind hn', htr r hmem m (by rw [hname]; exact hreach)⟩
    refine tS_congr (tS_call (env_get m hget) (tS_vmRule ih i r hg m la hc)) fun σ h => ?_
    rw [call, hrule] at h
    exact h

theorem TN_st {n : Nat} (ih : TN env extras memchr input n) (name : String) (la : Bool)
    (hd : ¬ Dirty env.rules (.ident name)) :
    TermS (mkCfg env memchr) input (.repLoop (callRule env name .nonAtomic)) .nonAtomic la
      (fun σ => star (mkCtx env extras input) (n + 1) la name σ []) := by
  refine tS_congr (tS_repLoop (Ln := star (mkCtx env extras input) n la name)
    (ih.ca name .nonAtomic la (Reach.entry _)) (specCall hsize hgood htr name .nonAtomic la (Reach.entry _)) (agreeCa _ n _ la name)
    (ih.st name la hd) fun s acc h => ?_) fun σ h => ?_
  · rw [star_acc] at h; exact prepend_ne_fuel h
  · rw [star] at h; exact h

theorem TN_cl {n : Nat} (ih : TN env extras memchr input n) (la : Bool) :
    TermS (mkCfg env memchr) input
      (.repLoop (.sequence (.andThen (callRule env "COMMENT" .nonAtomic)
        (.repeat_ (callRule env "WHITESPACE" .nonAtomic))))) .nonAtomic la
      (fun σ => commentLoop (mkCtx env extras input) (n + 1) la σ []) := by
  have hws : ∀ k, Spec (mkCfg env memchr) input k (.repeat_ (callRule env "WHITESPACE" .nonAtomic))
      .nonAtomic la (fun σ => valSt (mkCtx env extras input) la "WHITESPACE" σ []) Any := fun k =>
    spec_repeat (isLoop_valSt _ la "WHITESPACE") fun j _ =>
      (specCall hsize hgood htr "WHITESPACE" .nonAtomic la (Reach.entry _) j).weaken fun _ _ h => h.mono fun _ => hgood.ws
  refine tS_congr (tS_repLoop (Ln := commentLoop (mkCtx env extras input) n la)
    (Un := seqD (call (mkCtx env extras input) n .nonAtomic la "COMMENT")
      (fun σ => star (mkCtx env extras input) n la "WHITESPACE" σ []))
    (tS_sequence (tS_andThen (ih.ca "COMMENT" .nonAtomic la (Reach.entry _)) (specCall hsize hgood htr "COMMENT" .nonAtomic la (Reach.entry _))
      (agreeCa _ n _ la "COMMENT") (tS_repeat (ih.st "WHITESPACE" la hgood.ws))))
    (fun k => spec_sequence (spec_andThen (specCall hsize hgood htr "COMMENT" .nonAtomic la (Reach.entry _) _) (hws _)))
    (agree_seqD (agreeCa _ n _ la "COMMENT") (agreeSt _ n la "WHITESPACE"))
    (ih.cl la) fun s acc h => ?_) fun σ h => ?_
  · rw [commentLoop_acc] at h; exact prepend_ne_fuel h
  · rw [commentLoop] at h
    unfold seqD
    dsimp only
    cases h1 : call (mkCtx env extras input) n .nonAtomic la "COMMENT" σ with
    | ok s1 f1 =>
      rw [h1] at h
      dsimp only at h ⊢
      cases h2 : star (mkCtx env extras input) n la "WHITESPACE" s1 [] with
      | ok s2 f2 => rw [h2] at h; simpa using h
      | fail =>
        exact absurd h2 (star_ne_fail _ _ _ _ _ _)
      | stuck => simp
      | fuel => rw [h2] at h; exact absurd rfl h
    | fail => simp
    | stuck => simp
    | fuel => rw [h1] at h; exact absurd rfl h

theorem TN_k {n : Nat} (ih : TN env extras memchr input n) (m : Atomicity) (la : Bool) :
    TermS (mkCfg env memchr) input (skipProg env m) m la
      (skipWs (mkCtx env extras input) (n + 1) m la) := by
  unfold skipProg
  by_cases hm : m ≠ .nonAtomic
  · rw [if_pos hm]
    exact tS_leaf leaf_ok
  · rw [if_neg hm]
    have hm' : m = .nonAtomic := by simpa using hm
    subst hm'
    have hK : ∀ σ, skipWs (mkCtx env extras input) (n + 1) .nonAtomic la σ =
        match env.has "WHITESPACE", env.has "COMMENT" with
        | false, false => .ok σ []
        | true, false => star (mkCtx env extras input) n la "WHITESPACE" σ []
        | false, true => star (mkCtx env extras input) n la "COMMENT" σ []
        | true, true =>
          match star (mkCtx env extras input) n la "WHITESPACE" σ [] with
          | .ok s1 f1 => commentLoop (mkCtx env extras input) n la s1 f1
          | r => r := by
      intro σ
      rw [skipWs, if_neg (by simp), has_eq, has_eq]
      rfl
    have hws : ∀ k, Spec (mkCfg env memchr) input k (.repeat_ (callRule env "WHITESPACE" .nonAtomic))
        .nonAtomic la (fun σ => valSt (mkCtx env extras input) la "WHITESPACE" σ []) Any := fun k =>
      spec_repeat (isLoop_valSt _ la "WHITESPACE") fun j _ =>
        (specCall hsize hgood htr "WHITESPACE" .nonAtomic la (Reach.entry _) j).weaken fun _ _ h => h.mono fun _ => hgood.ws
    cases h1 : env.has "WHITESPACE" <;> cases h2 : env.has "COMMENT" <;> dsimp only
    · exact tS_leaf leaf_ok
    · refine tS_congr (tS_repeat (ih.st "COMMENT" la hgood.cm)) fun σ h => ?_
      rw [hK, h1, h2] at h; exact h
    · refine tS_congr (tS_repeat (ih.st "WHITESPACE" la hgood.ws)) fun σ h => ?_
      rw [hK, h1, h2] at h; exact h
    · refine tS_congr (tS_sequence (tS_andThen (tS_repeat (ih.st "WHITESPACE" la hgood.ws)) hws
        (agreeSt _ n la "WHITESPACE") (tS_repeat (ih.cl la)))) fun σ h => ?_
      rw [hK, h1, h2] at h
      unfold seqD
      dsimp only at h ⊢
      cases h3 : star (mkCtx env extras input) n la "WHITESPACE" σ [] with
      | ok s1 f1 =>
        rw [h3] at h
        dsimp only at h ⊢
        rw [commentLoop_acc] at h
        have := prepend_ne_fuel h
        cases h4 : commentLoop (mkCtx env extras input) n la s1 [] with
        | fuel => exact absurd h4 this
        | _ => simp
      | fail => simp
      | stuck => simp
      | fuel => rw [h3] at h; exact absurd rfl h

theorem TN_l {n : Nat} (ih : TN env extras memchr input n) (e : OExpr) (m : Atomicity) (la : Bool)
    (hg : GoodE extras env.rules e) (hc : CtxOK env extras m e) :
    TermS (mkCfg env memchr) input
      (.repLoop (.sequence (.andThen (skipProg env m) (vmExpr env m e)))) m la
      (fun σ => repLoop (mkCtx env extras input) (n + 1) m la (ofOptimized e) σ []) := by
  refine tS_congr (tS_repLoop (Ln := repLoop (mkCtx env extras input) n m la (ofOptimized e))
    (Un := seqD (skipWs (mkCtx env extras input) n m la)
      (denote (mkCtx env extras input) n m la (ofOptimized e)))
    (tS_sequence (tS_andThen (ih.k m la) (specSkip hsize hgood htr m la) (agreeK _ n m la) (ih.e e m la hg hc)))
    (fun k => spec_sequence (spec_andThen (specSkip hsize hgood htr m la _) (specE hsize hgood htr e m la hg hc _)))
    (agree_seqD (agreeK _ n m la) (agreeE _ n m la _))
    (ih.l e m la hg hc) fun s acc h => ?_) fun σ h => ?_
  · rw [repLoop_acc] at h; exact prepend_ne_fuel h
  · rw [repLoop] at h
    unfold seqD
    cases h1 : skipWs (mkCtx env extras input) n m la σ with
    | ok s1 f1 =>
      rw [h1] at h
      dsimp only at h ⊢
      cases h2 : denote (mkCtx env extras input) n m la (ofOptimized e) s1 with
      | ok s2 f2 => rw [h2] at h; simpa using h
      | fail => simp
      | stuck => simp
      | fuel => rw [h2] at h; exact absurd rfl h
    | fail => simp
    | stuck => simp
    | fuel => rw [h1] at h; exact absurd rfl h

theorem TN_e {n : Nat} (ih : TN env extras memchr input n) (e : OExpr) :
    ∀ (m : Atomicity) (la : Bool), GoodE extras env.rules e → CtxOK env extras m e →
    TermS (mkCfg env memchr) input (vmExpr env m e) m la
      (denote (mkCtx env extras input) (n + 1) m la (ofOptimized e)) := by
  induction e with
  | str s => exact fun m la _ _ => tS_leaf (leaf_matchString s)
  | insens s => exact fun m la _ _ => tS_leaf (leaf_matchInsensitive s)
  | range a b => exact fun m la _ _ => tS_leaf (leaf_matchRange a b)
  | ident name =>
    intro m la _ hc
    refine tS_congr (ih.ca name m la (hc.1 name (by simp [identsOf]))) fun σ h => ?_
    rw [ofOptimized, denote] at h; exact h
  | peekSlice a b => exact fun m la _ _ => tS_leaf (leaf_peekSlice a b _)
  | posPred e _ =>
    intro m la hg hc
    refine tS_congr (tS_lookahead true (ih.e e m true hg hc)) fun σ h => ?_
    rw [ofOptimized, denote] at h; exact h
  | negPred e _ =>
    intro m la hg hc
    refine tS_congr (tS_lookahead false (ih.e e m true hg hc)) fun σ h => ?_
    rw [ofOptimized, denote] at h; exact h
  | seq a b _ _ =>
    intro m la hg hc
    obtain ⟨hga, hgb⟩ := hg
    refine tS_congr (tS_sequence (tS_andThen (tS_andThen (ih.e a m la hga hc.left)
      (specE hsize hgood htr a m la hga hc.left)
      (agreeE _ n m la _) (ih.k m la))
      (fun k => spec_andThen (specE hsize hgood htr a m la hga hc.left _) (specSkip hsize hgood htr m la _))
      (agree_seqD (agreeE _ n m la _) (agreeK _ n m la)) (ih.e b m la hgb hc.right))) fun σ h => ?_
    rw [ofOptimized, denote] at h
    rw [seqD3_eq]; exact h
  | choice a b _ _ =>
    intro m la hg hc
    obtain ⟨hda, hga, hgb⟩ := hg
    refine tS_congr (tS_orElse (ih.e a m la hga hc.cleft)
      (fun k => (specE hsize hgood htr a m la hga hc.cleft k).weaken fun _ _ h => h.mono fun _ => hda)
      (agreeE _ n m la _) (ih.e b m la hgb hc.cright)) fun σ h => ?_
    rw [ofOptimized, denote] at h; exact h
  | opt e _ =>
    intro m la hg hc
    refine tS_congr (tS_optional (ih.e e m la hg.2 hc)) fun σ h => ?_
    rw [ofOptimized, denote] at h; exact h
  | rep e _ =>
    intro m la hg hc
    obtain ⟨hd, hge⟩ := hg
    refine tS_congr (tS_sequence (tS_optional (tS_andThen (ih.e e m la hge hc)
      (specE hsize hgood htr e m la hge hc)
      (agreeE _ n m la _) (tS_repeat (ih.l e m la hge hc))))) fun σ h => ?_
    rw [ofOptimized, denote] at h
    unfold optD seqD
    cases h1 : denote (mkCtx env extras input) n m la (ofOptimized e) σ with
    | ok s1 f1 =>
      rw [h1] at h
      dsimp only at h ⊢
      rw [repLoop_acc] at h
      have := prepend_ne_fuel h
      cases h2 : repLoop (mkCtx env extras input) n m la (ofOptimized e) s1 [] with
      | fuel => exact absurd h2 this
      | _ => simp
    | fail => simp
    | stuck => simp
    | fuel => rw [h1] at h; exact absurd rfl h
  | repOnce e _ =>
    intro m la hg hc
    obtain ⟨hx, hge⟩ := hg
    refine tS_congr (tS_sequence (tS_andThen (ih.e e m la hge hc) (specE hsize hgood htr e m la hge hc)
      (agreeE _ n m la _) (tS_repeat (ih.l e m la hge hc)))) fun σ h => ?_
    rw [ofOptimized, denote, if_pos (by exact hx)] at h
    unfold seqD
    cases h1 : denote (mkCtx env extras input) n m la (ofOptimized e) σ with
    | ok s1 f1 =>
      rw [h1] at h
      dsimp only at h ⊢
      rw [repLoop_acc] at h
      have := prepend_ne_fuel h
      cases h2 : repLoop (mkCtx env extras input) n m la (ofOptimized e) s1 [] with
      | fuel => exact absurd h2 this
      | _ => simp
    | fail => simp
    | stuck => simp
    | fuel => rw [h1] at h; exact absurd rfl h
  | skip ss => exact fun m la _ _ => tS_leaf (leaf_skipUntil ss)
  | push e _ =>
    intro m la hg hc
    refine tS_congr (tS_stackPush (ih.e e m la hg hc)) fun σ h => ?_
    rw [ofOptimized, denote] at h; exact h
  | pushLiteral s => exact fun m la _ _ => tS_leaf (leaf_pushLiteral s)
  | nodeTag e t _ =>
    intro m la hg hc
    refine tS_congr (tS_andThen (D2n := fun σ => .ok σ []) (ih.e e m la hg hc.tag)
      (specE hsize hgood htr e m la hg hc.tag) (agreeE _ n m la _) (tS_leaf (leaf_tagNode t))) fun σ h => ?_
    rw [ofOptimized, denote] at h
    unfold seqD
    cases h1 : denote (mkCtx env extras input) n m la (ofOptimized e) σ with
    | fuel => rw [h1] at h; exact absurd rfl h
    | _ => simp
  | restoreOnErr e ihe =>
    intro m la hg hc
    exact tS_restoreOnErr (ihe m la hg hc)

theorem TN_succ {n : Nat} (ih : TN env extras memchr input n) : TN env extras memchr input (n + 1) where
  e := fun e => TN_e hsize hgood htr ih e
  ca := TN_ca hsize hgood htr ih
  k := TN_k hsize hgood htr ih
  l := TN_l hsize hgood htr ih
  st := TN_st hsize hgood htr ih
  cl := TN_cl hsize hgood htr ih

theorem TN_all (n : Nat) : TN env extras memchr input n := by
  induction n with
  | zero => exact TN_zero
  | succ n ih => exact TN_succ hsize hgood htr ih

end
end PestModel.VmRef
