import PestModel.Thm.C01
import PestModel.Thm.C02
import PestModel.Thm.C05
import PestModel.Thm.C06
import PestModel.Thm.C08
import PestModel.Lemmas.EndToEnd
import PestModel.Lemmas.RefClosed
/-!
# End to end — the composition of C06, C05, C01, C02 and C08

What pest does with a grammar the validator accepts — optimize it, then interpret it in the VM or
generate a parser for it — terminates on every input and yields exactly what the documented semantics
assign to the grammar *as written*: the same pairs with the same spans and nesting on success, a
failure on failure with the specified failure report, from every rule.

The hypotheses are what each component theorem needs: the grammar is accepted (`validateAst = []`),
well named, uses neither the stack nor node tags, and the `list` pass (which is not meaning preserving,
a recorded finding) does not change it.
-/
namespace PestModel.E2E
open PestModel.G PestModel.PS PestModel.Lower PestModel.Ref PestModel.V
open PestModel.LineCol (Str)

/-- no node tag anywhere in a source expression. -/
def NoTagE : Expr → Bool
  | .nodeTag _ _ => false
  | .posPred e | .negPred e | .opt e | .rep e | .repOnce e | .push e => NoTagE e
  | .repExact e _ | .repMin e _ | .repMax e _ | .repMinMax e _ _ => NoTagE e
  | .seq a b | .choice a b => NoTagE a && NoTagE b
  | _ => true

structure Accepted (extras : Bool) (rules : List Rule) (rs : List ORule) : Prop where
  nodup : (rules.map (·.name)).Nodup
  notAny : ∀ r ∈ rules, r.name ≠ "ANY"
  stackFree : ∀ r ∈ rules, PestModel.C06.StackFree r.expr = true
  noTag : ∀ r ∈ rules, NoTagE r.expr = true
  valid : validateAst extras rules = []
  /-- the optimizer's output, which the `list` pass leaves unchanged -/
  optimized : optimize extras rules = some rs
  listIdle : optimizeWith extras false rules = some rs
  small : rs.length ≤ 333333333

/-! ### glue -/

/-- `NoTagE` is the validator lemmas' `NoTag`. -/
theorem noTagE_eq_noTag : ∀ e : Expr, NoTagE e = PestModel.V.NoTag e := by
  intro e
  induction e <;> simp_all [NoTagE, PestModel.V.NoTag]

namespace Accepted
variable {extras : Bool} {rules : List Rule} {rs : List ORule}

theorem noTagV (h : Accepted extras rules rs) : ∀ r ∈ rules, PestModel.V.NoTag r.expr = true :=
  fun r hr => by rw [← noTagE_eq_noTag]; exact h.noTag r hr

/-- the optimizer's output is an optimizer output … -/
theorem isOptimized (h : Accepted extras rules rs) : PestModel.C01.Optimized extras rs :=
  ⟨rules, false, h.listIdle⟩

/-- … without node tags (the passes introduce none) … -/
theorem noTagO (h : Accepted extras rules rs) : ∀ r ∈ rs, PestModel.VmRef.noTag r.expr = true :=
  noTag_optimizeWith extras false rules rs h.noTagV h.listIdle

/-- … so it satisfies the side condition of C01 and C08 … -/
theorem tagRules (h : Accepted extras rules rs) : PestModel.VmRef.TagRules extras rs :=
  PestModel.VmRef.tagRules_of_noTag extras rs h.noTagO

/-- … and those of C02. -/
theorem tagsExtras (h : Accepted extras rules rs) : ∀ r ∈ rs, PestModel.VmRef.tagsExtras extras r.expr :=
  fun r hr => Or.inr (h.noTagO r hr)

theorem tagPlain (h : Accepted extras rules rs) : ∀ r ∈ rs, PestModel.GenVm.TagPlain r.expr :=
  fun r hr => PestModel.C02.tagPlain_of_noTag _ (h.noTagO r hr)

/-- C06: the documented semantics assign a definite result to the grammar as written. -/
theorem terminates (h : Accepted extras rules rs) (uni : String → Option CharSet) (name : String) (input : Str) :
    ∃ r, Means rules extras uni name input r := by
  obtain ⟨fuel, hf⟩ := PestModel.C06.validator_sound_meaning extras rules h.stackFree h.valid
    (fun _ => h.noTagV) uni name input
  exact ⟨_, hf, fuel, rfl⟩

/-- C05: the grammar as written and the optimizer's output mean the same. -/
theorem means_iff_optimized (h : Accepted extras rules rs) (uni : String → Option CharSet) (name : String)
    (input : Str) (r : Res) :
    Means rules extras uni name input r ↔ Means (ofOptimizedRules rs) extras uni name input r :=
  PestModel.C05.pipeline_preserves_without_list rules extras rs uni h.notAny h.nodup h.listIdle name input r

end Accepted

/-- the VM run of C02 is the VM run of C01. -/
theorem parseWith_vm_eq (rs : List ORule) (uni : String → Option CharSet) (memchr detail : Bool) (fuel : Nat)
    (name : String) (input : Str) :
    PestModel.C02.parseWith .vm rs uni memchr detail fuel name input =
      PestModel.C01.vmParse rs uni memchr detail fuel name input := rfl

/-- **End to end, success and failure.** For an accepted grammar, every start rule and every input:
the documented semantics assign a definite result `r` to the grammar as written, and the VM (model)
run on the optimizer's output reaches a definite outcome that is this `r` — same end position, token
queue = the encoding of `r`'s forest of pairs; failure ↔ failure. -/
theorem accepted_grammar_parses_as_documented (extras : Bool) (rules : List Rule) (rs : List ORule)
    (h : Accepted extras rules rs) (uni : String → Option CharSet) (memchr detail : Bool)
    (name : String) (input : Str) :
    ∃ (r : Res) (fuel : Nat), Means rules extras uni name input r ∧
      match PestModel.C01.vmParse rs uni memchr detail fuel name input with
      | .ok st => ∃ forest, PestModel.Views.build forest = st.queue ∧ r = .ok ⟨st.pos, st.stack.cache⟩ forest
      | .err _ => r = .fail
      | .panic => r = .stuck
      | .fuel => False := by
  obtain ⟨r, hr⟩ := h.terminates uni name input
  obtain ⟨fuel, hf⟩ := PestModel.C01.vm_agrees_partial extras rs h.isOptimized h.tagRules h.small uni memchr
    detail name input r ((h.means_iff_optimized uni name input r).1 hr)
  exact ⟨r, fuel, hr, hf⟩

/-- **… and the generated parser does the same**: it terminates too and reports what the VM reports
(pairs; error position and expected / unexpected rules). -/
theorem accepted_grammar_generated_parser_agrees (extras : Bool) (rules : List Rule) (rs : List ORule)
    (h : Accepted extras rules rs) (uni : String → Option CharSet) (memchr detail : Bool)
    (name : String) (input : Str) :
    ∃ fv fg, PestModel.C02.parseWith .vm rs uni memchr detail fv name input ≠ .fuel ∧
      PestModel.C02.parseWith .gen rs uni memchr detail fg name input ≠ .fuel ∧
      PestModel.C02.outcome (PestModel.C02.parseWith .vm rs uni memchr detail fv name input) =
        PestModel.C02.outcome (PestModel.C02.parseWith .gen rs uni memchr detail fg name input) := by
  obtain ⟨r, fv, -, hv⟩ := accepted_grammar_parses_as_documented extras rules rs h uni memchr detail name input
  have hv' : PestModel.C02.parseWith .vm rs uni memchr detail fv name input ≠ .fuel := by
    rw [parseWith_vm_eq]
    intro hf
    rw [hf] at hv
    exact hv
  obtain ⟨hagree, hterm⟩ := PestModel.C02.gen_eq_vm_optimized extras rs h.isOptimized h.tagsExtras h.small
    h.tagPlain uni memchr detail name input
  obtain ⟨fg, hg⟩ := hterm.1 ⟨fv, hv'⟩
  exact ⟨fv, fg, hv', hg, hagree fv fg hv' hg⟩

/-- **… and a failure is reported as specified**: position and expected / unexpected rules are
`specReport` of the call tree of the reference semantics (of the optimized rule set). -/
theorem accepted_grammar_failure_report (extras : Bool) (rules : List Rule) (rs : List ORule)
    (h : Accepted extras rules rs) (uni : String → Option CharSet) (memchr detail : Bool)
    (name : String) (input : Str) (fuel : Nat) (st : PState)
    (he : PestModel.C01.vmParse rs uni memchr detail fuel name input = .err st) :
    Means rules extras uni name input .fail ∧
    ∃ f calls, PestModel.RefTrace.traceMeaning (ofOptimizedRules rs) extras uni f name input = (.fail, calls) ∧
      st.attemptPos = (PestModel.RefTrace.specReport calls).1 ∧
      sortDedup st.posAtt = sortDedup (PestModel.RefTrace.specReport calls).2.1 ∧
      sortDedup st.negAtt = sortDedup (PestModel.RefTrace.specReport calls).2.2 := by
  refine ⟨?_, PestModel.C08.track_eq_spec extras rs h.isOptimized h.tagRules h.small uni memchr detail fuel name
    input st he⟩
  have hp := PestModel.C01.vm_refines_denote_partial extras rs h.isOptimized h.tagRules h.small uni memchr detail
    fuel name input
  rw [he] at hp
  exact (h.means_iff_optimized uni name input .fail).2 hp

/-- what the optimizer makes of C06's recursive list grammar (`+` unrolled; `list` pass idle). -/
def exOptimized : List ORule :=
  [⟨"WHITESPACE", .silent, .str [' ']⟩,
   ⟨"list", .normal, .seq (.str ['[']) (.seq (.opt (.seq (.ident "item") (.rep (.seq (.str [',']) (.ident "item"))))) (.str [']']))⟩,
   ⟨"item", .normal, .choice (.seq (.ident "ASCII_DIGIT") (.rep (.ident "ASCII_DIGIT")))
      (.seq (.str ['(']) (.seq (.ident "list") (.str [')'])))⟩]

/-- non-vacuity: the recursive list grammar of C06 is `Accepted`. -/
theorem exRules_accepted : Accepted false PestModel.C06.exRules exOptimized where
  nodup := by decide
  notAny := by decide
  stackFree := by decide
  noTag := by decide
  valid := by decide
  optimized := by decide
  listIdle := by decide
  small := by decide

/-- non-vacuity: the recursive list grammar of C06 is `Accepted`. -/
example : ∃ rs, Accepted false PestModel.C06.exRules rs := ⟨exOptimized, exRules_accepted⟩

/-- an accepted grammar whose rule bodies have no "no meaning" case never makes the VM panic. -/
theorem accepted_ns_grammar_never_panics (extras : Bool) (rules : List Rule) (rs : List ORule)
    (h : Accepted extras rules rs) (uni : String → Option CharSet) (memchr detail : Bool) (name : String) (input : Str)
    (hns : RulesNS { rules, input, extras, uni }) (hn : nameOK { rules, input, extras, uni } name = true) :
    ∃ fuel, match PestModel.C01.vmParse rs uni memchr detail fuel name input with
      | .ok _ => True
      | .err _ => True
      | .panic => False
      | .fuel => False := by
  obtain ⟨r, fuel, hm, hv⟩ := accepted_grammar_parses_as_documented extras rules rs h uni memchr detail name input
  refine ⟨fuel, ?_⟩
  obtain ⟨_, f0, hf0⟩ := hm
  have hstuck : meaning rules extras uni f0 name input ≠ .stuck := call_never_stuck _ hns f0 .nonAtomic false name _ hn
  cases ho : PestModel.C01.vmParse rs uni memchr detail fuel name input with
  | ok st => trivial
  | err st => trivial
  | panic => rw [ho] at hv; rw [hf0] at hstuck; exact hstuck hv
  | fuel => rw [ho] at hv; exact hv

/-- **An accepted, closed grammar never makes the VM panic**: for every defined start rule and every input the VM model, run on the
optimizer's output, ends with pairs or with an error — never with a panic (`undefined rule`, `pop`/`peek was called on empty stack`,
an index or slice out of range) and never without an answer. -/
theorem accepted_closed_grammar_never_panics (extras : Bool) (rules : List Rule) (rs : List ORule)
    (h : Accepted extras rules rs) (hc : closedRules rules = true) (uni : String → Option CharSet) (memchr detail : Bool)
    (name : String) (hn : (rules.map (·.name)).contains name = true) (input : Str) :
    ∃ fuel, match PestModel.C01.vmParse rs uni memchr detail fuel name input with
      | .ok _ => True
      | .err _ => True
      | .panic => False
      | .fuel => False := by
  obtain ⟨r, fuel, hm, hv⟩ := accepted_grammar_parses_as_documented extras rules rs h uni memchr detail name input
  refine ⟨fuel, ?_⟩
  obtain ⟨_, f0, hf0⟩ := hm
  have hns := meaning_never_stuck rules extras uni f0 name input hc hn
  cases ho : PestModel.C01.vmParse rs uni memchr detail fuel name input with
  | ok st => trivial
  | err st => trivial
  | panic => rw [ho] at hv; rw [hf0] at hns; exact hns hv
  | fuel => rw [ho] at hv; exact hv

end PestModel.E2E
