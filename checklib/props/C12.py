"""C12 — a call limit never changes a result silently."""
from props.vmcommon import *

MODULES = ["PestModel.Thm.C12"]


def run(ctx):
    run_vm_property(
        ctx, MODULES, "C12",
        oracle_kind="under some call limit Vm::parse returned a result that is neither the unlimited result nor the call-limit error",
        corr_kind="correspondence `V` (Vm::parse under a call limit vs the lowered VM model with its call counter)",
        rule="seeded random guarded grammars x 2 start rules x 16 inputs x EVERY call limit from 1 to 24 (quick) / 60 (thorough): each result is compared with the same parse without limit (oracle, needs no model) and with the Lean model's call counting; non-trivial = results that are errors with content, limit errors or successes with pairs",
        assumptions=["the call counter is global state (set_call_limit); the harness is single-threaded",
                     "theorems are about PestModel.PS.run's call counter; the tie is the V-line correspondence"],
    )


def replay(ctx, path):
    return replay_vm(ctx, path)
