import PestModel.Model.PState
import PestModel.Model.StackSpec
/-! Specification-side definitions for the parser-state properties (C03, C04, C12, C15). -/
namespace PestModel.PS
open PestModel.LineCol (Str bLen cLen splitAt? slice? isBoundary)
open PestModel.Stack (Stk StkInv)

/-- Well-formed parser state: the position is a UTF-8 boundary of the input and the stack satisfies
the invariant of `pest::Stack` (C11). Holds of `PState.new`. -/
def PState.WF (s : PState) : Prop := isBoundary s.input s.pos = true ∧ StkInv s.stack

/-- Observable equality of stacks: same contents and the same saved snapshots (via C11's `abs`). -/
def stackEq (a b : Stk Str) : Prop := Stack.abs a = Stack.abs b

def QTok.eraseTag : QTok → QTok
  | .end_ si r _ p => .end_ si r none p
  | t => t

/-- `run` finished with a state (`ok` or `err`). -/
def Out.state? : Out → Option PState
  | .ok s => some s
  | .err s => some s
  | _ => none

/-- The program (and the environment) never calls `stack_peek` / `stack_pop`, the two operations
documented to panic on an empty stack. -/
def Prog.noPeekPop : Prog → Bool
  | .stackPeek => false
  | .stackPop => false
  | .sequence p | .optional p | .repeat_ p | .repLoop p | .lookahead _ p | .atomic _ p | .rule _ p
  | .stackPush p | .restoreOnErr p => p.noPeekPop
  | .andThen p q | .orElse p q => p.noPeekPop && q.noPeekPop
  | _ => true

/-- every `call i` refers to an existing environment entry. -/
def Prog.callsBelow (n : Nat) : Prog → Bool
  | .call i => i < n
  | .sequence p | .optional p | .repeat_ p | .repLoop p | .lookahead _ p | .atomic _ p | .rule _ p
  | .stackPush p | .restoreOnErr p => p.callsBelow n
  | .andThen p q | .orElse p q => p.callsBelow n && q.callsBelow n
  | _ => true

def Cfg.closed (cfg : Cfg) (p : Prog) : Prop :=
  p.callsBelow cfg.env.length = true ∧ ∀ q ∈ cfg.env, q.callsBelow cfg.env.length = true

def Cfg.noPeekPop (cfg : Cfg) (p : Prog) : Prop :=
  p.noPeekPop = true ∧ ∀ q ∈ cfg.env, q.noPeekPop = true

end PestModel.PS

namespace PestModel.PS

/-- forget the detailed-attempts component (what a run with error detail off carries). -/
def PState.eraseDetail (s : PState) : PState :=
  { s with pa := { enabled := false, callStacks := [], expected := [], unexpected := [], maxPos := 0 } }

/-- forget the call counter (what a run without call limit carries). -/
def PState.eraseCalls (s : PState) : PState := { s with calls := none }

def Out.mapState (f : PState → PState) : Out → Out
  | .ok s => .ok (f s)
  | .err s => .err (f s)
  | .panic => .panic
  | .fuel => .fuel

/-- the report with the limit case projected away: what the caller of `pest::state` sees apart
from the call-limit error. -/
def plainReport : Out → Option Report
  | .ok s => some (.success s.queue)
  | .err s => some (.parsingError s.attemptPos (sortDedup s.posAtt) (sortDedup s.negAtt))
  | _ => none

end PestModel.PS
