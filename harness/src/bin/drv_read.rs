//! C07: the grammar reader reconstructs exactly the grammar that was written.
//!   Y <seed> <rules>   the abstract rule set printed in pest syntax with a random legal spelling (spacing,
//!                      comments, doc comments, escape forms, only the parentheses precedence requires,
//!                      optional leading `|`) and read back with pest_meta; oracle: identical rules.
//!   Q <hex>            the body of a string literal as written → its unescaped contents (vs `pestmodel read`).
use pest_meta::ast::{Expr, Rule, RuleType};
use std::collections::BTreeMap;
use verif_harness::gram::*;
use verif_harness::*;

const EXTRAS: bool = cfg!(feature = "extras");
/// whole-reader correspondence lines (the Lean reader model answers them)
const R_LINES: bool = true;

fn esc_char(rng: &mut Rng, c: char, quote: char) -> String {
    let plain = c != quote && c != '\\' && !(c as u32 <= 0x1f);
    // control characters (a raw line break, CR, TAB, NUL inside the quotes) are legal spellings too: one time in four
    let raw_ctl = c != quote && c != '\\' && (c as u32 <= 0x1f);
    match rng.below(if plain { 6 } else if raw_ctl { 4 } else { 3 }) {
        0 => format!("\\u{{{:02x}}}", c as u32),
        1 if (c as u32) < 0x80 => format!("\\x{:02X}", c as u32),
        2 | 1 => match c { '\n' => "\\n".into(), '\r' => "\\r".into(), '\t' => "\\t".into(), '\0' => "\\0".into(), '\\' => "\\\\".into(), '"' => "\\\"".into(), '\'' => "\\'".into(), c => format!("\\u{{{:04X}}}", c as u32) },
        _ => c.to_string(),
    }
}
fn lit(rng: &mut Rng, s: &str) -> String { format!("\"{}\"", s.chars().map(|c| esc_char(rng, c, '"')).collect::<String>()) }
fn chr(rng: &mut Rng, s: &str) -> String { format!("'{}'", esc_char(rng, s.chars().next().unwrap_or('a'), '\'')) }
fn sp(rng: &mut Rng) -> String {
    match rng.below(12) { 0..=5 => " ".into(), 6 => "".into(), 7 => "  ".into(), 8 => "\n  ".into(), 9 => " /* c */ ".into(), 10 => " // line\n ".into(), _ => "\t".into() }
}
fn sp1(rng: &mut Rng) -> String { let s = sp(rng); if s.is_empty() { " ".into() } else { s } }
/// precedence levels: 1 choice, 2 sequence, 3 prefix, 4 postfix, 5 atom
fn level(e: &Expr) -> u8 {
    use Expr::*;
    match e { Choice(..) => 1, Seq(..) => 2, PosPred(_) | NegPred(_) => 3, Opt(_) | Rep(_) | RepOnce(_) | RepExact(..) | RepMin(..) | RepMax(..) | RepMinMax(..) => 4,
        #[cfg(feature = "extras")]
        NodeTag(..) => 3,
        _ => 5 }
}
fn pr(rng: &mut Rng, e: &Expr, min: u8) -> String {
    use Expr::*;
    let body = match e {
        Str(s) => lit(rng, s), Insens(s) => format!("^{}{}", sp(rng), lit(rng, s)), Range(a, b) => format!("{}{}..{}{}", chr(rng, a), sp(rng), sp(rng), chr(rng, b)),
        Ident(n) => n.clone(),
        PeekSlice(a, b) => format!("PEEK{}[{}{}..{}{}]", sp(rng), if *a == 0 && rng.chance(1, 2) { String::new() } else { a.to_string() }, sp(rng), sp(rng), b.map(|x| x.to_string()).unwrap_or_default()),
        Choice(a, b) => format!("{}{}|{}{}", pr(rng, a, 1), sp(rng), sp(rng), pr(rng, b, 2)),
        Seq(a, b) => format!("{}{}~{}{}", pr(rng, a, 2), sp(rng), sp(rng), pr(rng, b, 3)),
        PosPred(x) => format!("&{}{}", sp(rng), pr(rng, x, 3)), NegPred(x) => format!("!{}{}", sp(rng), pr(rng, x, 3)),
        Opt(x) => format!("{}{}?", pr(rng, x, 4), sp(rng)), Rep(x) => format!("{}{}*", pr(rng, x, 4), sp(rng)), RepOnce(x) => format!("{}{}+", pr(rng, x, 4), sp(rng)),
        RepExact(x, n) => format!("{}{}{{{}{}{}}}", pr(rng, x, 4), sp(rng), sp(rng), num(rng, *n), sp(rng)),
        RepMin(x, n) => format!("{}{}{{{}{},{}}}", pr(rng, x, 4), sp(rng), num(rng, *n), sp(rng), sp(rng)),
        RepMax(x, n) => format!("{}{}{{{},{}{}}}", pr(rng, x, 4), sp(rng), sp(rng), sp(rng), num(rng, *n)),
        RepMinMax(x, m, n) => format!("{}{}{{{}{},{}{}}}", pr(rng, x, 4), sp(rng), num(rng, *m), sp(rng), sp(rng), num(rng, *n)),
        Skip(_) => "ANY".into(),
        Push(x) => format!("PUSH{}({}{}{}{})", sp(rng), sp(rng), if rng.chance(1, 5) { format!("|{}", sp(rng)) } else { String::new() }, pr(rng, x, 1), sp(rng)),
        #[cfg(feature = "extras")]
        PushLiteral(s) => format!("PUSH_LITERAL{}({}{}{})", sp(rng), sp(rng), lit(rng, s), sp(rng)),
        #[cfg(feature = "extras")]
        NodeTag(x, t) => format!("#{}{}={}{}", t, sp(rng), sp(rng), pr(rng, x, 3)),
    };
    // the prefix level nests to the right (`!&a`), postfix to the left (`a*?`): both print without parentheses
    let need = level(e) < min || (level(e) == 3 && min == 4);
    #[cfg(feature = "extras")]
    let need = need || (matches!(e, NodeTag(..)) && min >= 3);
    // a leading `|` is legal at the start of every expression, parenthesised ones included
    if need { format!("({}{}{}{})", sp(rng), if rng.chance(1, 5) { format!("|{}", sp(rng)) } else { String::new() }, body, sp(rng)) } else if rng.chance(1, 12) && level(e) == 5 { format!("({})", body) } else { body }
}
fn num(rng: &mut Rng, n: u32) -> String { if rng.chance(1, 5) { format!("{}{}", "0".repeat(rng.range(1, 3)), n) } else { n.to_string() } }
fn print_rules(rng: &mut Rng, rules: &[Rule]) -> String {
    let mut s = String::new();
    if rng.chance(1, 4) { s.push_str("//! grammar doc\n"); }
    for r in rules {
        if rng.chance(1, 5) { s.push_str("/// rule doc\n"); }
        if rng.chance(1, 6) { s.push_str("// a comment\n"); }
        let m = match r.ty { RuleType::Normal => "", RuleType::Silent => "_", RuleType::Atomic => "@", RuleType::CompoundAtomic => "$", RuleType::NonAtomic => "!" };
        let lead = if rng.chance(1, 6) { format!("|{}", sp(rng)) } else { String::new() };
        s.push_str(&format!("{}{}={}{}{}{{{}{}{}{}}}{}", r.name, sp(rng), sp(rng), m, sp(rng), sp(rng), lead, pr(rng, &r.expr, 1), sp(rng), sp1(rng)));
        s.push('\n');
    }
    s
}
/// random abstract expression (guarded enough to pass validation most of the time)
fn eval_y(seed: u64, rules: &[Rule]) -> (String, String, String) {
    let mut rng = Rng::new(seed);
    let text = print_rules(&mut rng, rules);
    let got = catch(|| pest_meta::parser::parse(pest_meta::parser::Rule::grammar_rules, &text).map_err(|e| format!("{}", e)).and_then(|p| pest_meta::parser::consume_rules(p).map_err(|es| es.iter().map(|e| format!("{}", e)).collect::<Vec<_>>().join("; "))));
    match got {
        Ok(Ok(back)) => if back == rules { ("same".into(), "ok".into(), text) } else { ("different".into(), format!("FAIL read back `{}` from text {}", show_rules(&back).chars().take(400).collect::<String>(), hexs(&text)), text) },
        Ok(Err(e)) => { let rejected_by_validator = e.contains("left-recursive") || e.contains("cannot fail") || e.contains("non-progressing") || e.contains("infinitely") || e.contains("is undefined") || e.contains("will not appear");
            if rejected_by_validator { ("rejected".into(), "ok".into(), text) } else { ("unreadable".into(), format!("FAIL the printed grammar does not read: {} ; text {}", e.replace('\n', " ").chars().take(300).collect::<String>(), hexs(&text)), text) } }
        Err(_) => ("panic".into(), format!("FAIL the reader panicked on text {}", hexs(&text)), text),
    }
}

const TAG_SHAPES: bool = false;
fn main() {
    quiet_panics();
    let mut out = Out::new();
    let mut stats: BTreeMap<String, u64> = BTreeMap::new();
    let mut eval_line = |l: &str, stats: &mut BTreeMap<String, u64>| -> (String, String) {
        let mut it = l.splitn(3, ' ');
        match it.next() {
            Some("Y") => { let seed: u64 = match it.next().and_then(|x| x.parse().ok()) { Some(s) => s, None => return ("bad-op".into(), "ok".into()) };
                let rules = match it.next().and_then(parse_sexps).and_then(|t| t.get(0).and_then(rules_of)) { Some(r) => r, None => return ("bad-op".into(), "ok".into()) };
                let (r, v, _) = eval_y(seed, &rules); *stats.entry(format!("Y_{}", r)).or_default() += 1; (if r == "rejected" { "same".into() } else { r }, v) }
            // `R <hex text>`: the whole reader on a grammar text — what pest_meta::parser::parse + consume_rules return
            Some("R") | Some("RX") => { let text = match it.next().and_then(unhexs) { Some(b) => b, None => return ("bad-op".into(), "ok".into()) };
                let r = catch(|| pest_meta::parser::parse(pest_meta::parser::Rule::grammar_rules, &text).ok().and_then(|p| pest_meta::parser::consume_rules(p).ok()));
                *stats.entry("R".into()).or_default() += 1;
                (match r { Ok(Some(rs)) => format!("rules {}", show_rules(&rs)), Ok(None) => "reject".into(), Err(_) => "panic".into() }, "ok".into()) }
            Some("Q") => { let body = match it.next().and_then(unhexs) { Some(b) => b, None => return ("bad-op".into(), "ok".into()) };
                let text = format!("a = {{ \"{}\" }}", body);
                let r = catch(|| pest_meta::parser::parse(pest_meta::parser::Rule::grammar_rules, &text).ok().and_then(|p| pest_meta::parser::consume_rules(p).ok()));
                *stats.entry("Q".into()).or_default() += 1;
                (match r { Ok(Some(rs)) => match rs.get(0).map(|r| &r.expr) { Some(Expr::Str(s)) if rs.len() == 1 => format!("str {}", hexs(s)), _ => "other".into() }, Ok(None) => "reject".into(), Err(_) => "panic".into() }, "ok".into()) }
            _ => ("bad-op".into(), "ok".into()),
        }
    };
    match cli() {
        Cmd::Run { ops, out: dir } => { for l in &ops { let (i, v) = eval_line(l, &mut stats); out.push(l.clone(), i, v); } out.write(&dir, "{}"); }
        Cmd::Gen { thorough, seed, out: dir } => {
            let mut rng = Rng::new(seed ^ 0xC07 ^ if EXTRAS { 0xE } else { 0 });
            let ngram = if thorough { 20000 } else { 2500 };
            for gi in 0..ngram {
                let cfg = GenCfg { extras: EXTRAS, guarded: true, stack_ops: true, tags: EXTRAS && gi % 3 == 0, max_rules: 5, max_depth: 5, builtin_names: false, tag_shapes: TAG_SHAPES };
                let rules: Vec<Rule> = gen_grammar(&mut rng, &cfg).into_iter().map(|mut r| { fn fix(e: &mut Expr) { use Expr::*; match e { RepExact(x, n) => { if *n == 0 { *n = 1; } fix(x) } RepMax(x, n) => { if *n == 0 { *n = 1; } fix(x) } RepMinMax(x, _, n) => { if *n == 0 { *n = 1; } fix(x) } RepMin(x, _) | PosPred(x) | NegPred(x) | Opt(x) | Rep(x) | RepOnce(x) | Push(x) => fix(x), Seq(a, b) | Choice(a, b) => { fix(a); fix(b) } Skip(_) => *e = Ident("ANY".into()),
                        #[cfg(feature = "extras")]
                        NodeTag(x, _) => fix(x),
                        _ => {} } } fix(&mut r.expr); r }).collect();
                // some literals mix ASCII, non-ASCII and characters that must be escaped
                let rules: Vec<Rule> = rules.into_iter().map(|mut r| { fn rich(e: &mut Expr, rng: &mut Rng) { use Expr::*; match e { Str(s) | Insens(s) => { if rng.chance(1, 5) { *s = rng.pick(&["aé", "é→\n", "\"q\\", "a\tb", "嗨a", "x\u{0}", "→'", "a\r\nb", "\r\n", "\r\r\n\n"]).to_string(); } }
                        RepExact(x, _) | RepMax(x, _) | RepMinMax(x, _, _) | RepMin(x, _) | PosPred(x) | NegPred(x) | Opt(x) | Rep(x) | RepOnce(x) | Push(x) => rich(x, rng), Seq(a, b) | Choice(a, b) => { rich(a, rng); rich(b, rng) }
                        #[cfg(feature = "extras")]
                        NodeTag(x, _) => rich(x, rng),
                        _ => {} } } rich(&mut r.expr, &mut rng); r }).collect();
                for k in 0..(if thorough { 5 } else { 3 }) { let sd = rng.next() % 1000000 + k; let l = format!("Y {} {}", sd, show_rules(&rules)); let (i, v) = eval_line(&l, &mut stats); out.push(l, i, v);
                    // the same text through the whole-reader correspondence (first spelling of each grammar)
                    // … and one damaged copy of it (mostly rejected: the reader model must reject exactly what the reader rejects)
                    if k == 1 && R_LINES && gi % 2 == 0 { let (_, _, text) = eval_y(sd, &rules); let mut c: Vec<char> = text.chars().collect();
                        for _ in 0..rng.range(1, 3) { let i = rng.below(c.len().max(1) as u64) as usize; match rng.below(4) {
                            0 if !c.is_empty() => { c.remove(i.min(c.len() - 1)); }
                            1 => c.insert(i.min(c.len()), *rng.pick(&['{', '}', '(', ')', '"', '\'', '~', '|', '*', '+', '?', '!', '&', '^', '#', '=', '.', '[', ']', ',', '\\', '/', ' ', '0', 'a', 'é'])),
                            2 if !c.is_empty() => { let j = i.min(c.len() - 1); c[j] = *rng.pick(&['{', '}', '(', ')', '"', '|', '~', '\\', 'x', 'u', '0', '-']); }
                            _ => { if c.len() > 2 { let j = i.min(c.len() - 2); c.swap(j, j + 1); } } } }
                        let text: String = c.into_iter().collect();
                        // counts stay bounded (the model unrolls nothing, but the real validator inlines)
                        let l = format!("{} {}", if EXTRAS { "RX" } else { "R" }, hexs(&text)); let (i, v) = eval_line(&l, &mut stats); out.push(l, i, v); }
                    if k == 0 && R_LINES { let (_, _, text) = eval_y(sd, &rules); let l = format!("{} {}", if EXTRAS { "RX" } else { "R" }, hexs(&text)); let (i, v) = eval_line(&l, &mut stats); out.push(l, i, v); } }
            }
            // literal bodies: every escape form, valid and invalid
            let pieces = ["a", "é", "\\n", "\\r", "\\t", "\\\\", "\\0", "\\\"", "\\'", "\\x41", "\\x7f", "\\x80", "\\xFF", "\\xG1", "\\x4", "\\u{41}", "\\u{e9}", "\\u{1F600}", "\\u{10FFFF}", "\\u{110000}", "\\u{D800}", "\\u{0}", "\\u{00}", "\\u{0000041}", "\\u{}", "\\u{4G}", "\\u41", "\\q", "\\", "'", " "];
            // pieces whose meaning does not depend on what follows them: bodies made only of these have a known reading (oracle)
            let meaning = |p: &str| -> Option<String> { Some(match p { "a" => "a".into(), "é" => "é".into(), "→" => "→".into(), "\\n" => "\n".into(), "\\r" => "\r".into(), "\\t" => "\t".into(), "\\\\" => "\\".into(), "\\0" => "\0".into(), "\\\"" => "\"".into(), "\\'" => "'".into(),
                "\\x41" => "A".into(), "\\x7f" => "\u{7f}".into(), "\\x80" => "\u{80}".into(), "\\xFF" => "\u{ff}".into(), "\\u{41}" => "A".into(), "\\u{e9}" => "é".into(), "\\u{1F600}" => "\u{1F600}".into(), "\\u{10FFFF}" => "\u{10FFFF}".into(), "\\u{00}" => "\0".into(), "'" => "'".into(), " " => " ".into(), _ => return None }) };
            let pieces2 = ["a", "é", "→", "\\n", "\\t", "\\\\", "\\\"", "\\x41", "\\xFF", "\\u{e9}", "\\u{1F600}", " "];
            for k in 0..(if thorough { 40000 } else { 6000 }) {
                let n = rng.range(0, 4); let mut b = String::new(); let mut want = Some(String::new());
                for _ in 0..n { let p = if k % 3 == 0 { *rng.pick(&pieces2[..]) } else { *rng.pick(&pieces[..]) }; b.push_str(p); want = match (want, meaning(p)) { (Some(w), Some(m)) => Some(w + &m), _ => None }; }
                let l = format!("Q {}", hexs(&b)); let (i, v) = eval_line(&l, &mut stats);
                let v = match want { Some(w) if i != format!("str {}", hexs(&w)) => format!("FAIL the literal body {} must read as {} but reads as {}", hexs(&b), hexs(&w), i), _ => v };
                out.push(l, i, v); }
            let samples: Vec<String> = out.ops.iter().step_by((out.ops.len() / 5).max(1)).take(5).map(|s| s.chars().take(220).collect::<String>()).collect();
            let stats_s = format!("{{\"evaluations\":{},\"distinct_nontrivial\":{},\"grammars\":{},\"extras\":{},\"observed\":{:?},\"samples\":{:?}}}", out.ops.len(), stats.get("Y_same").cloned().unwrap_or(0), ngram, EXTRAS, stats, samples);
            out.write(&dir, &stats_s);
        }
    }
}
