import PestModel.Lemmas.ValidatorRec
/-! C06 helper lemmas, part 5: the termination argument. Induction on the remaining input, then on
the (well-founded) left-recursion graph, then on the expression. -/
namespace PestModel.V
open PestModel.G PestModel.Ref
open PestModel.LineCol (Str bLen cLen)
open PestModel.Views (Tree)
open PestModel.PS (Atomicity CharSet)

/-- every unbounded repetition body consumes. -/
def Good (rules : List Rule) : Expr → Prop
  | .rep e | .repOnce e | .repMin e _ => Prog rules e ∧ Good rules e
  | .posPred e | .negPred e | .opt e | .push e | .nodeTag e _ | .repExact e _ | .repMax e _
  | .repMinMax e _ _ => Good rules e
  | .seq a b | .choice a b => Good rules a ∧ Good rules b
  | _ => True

/-- the static facts the argument needs about an expression. -/
structure Base (extras : Bool) (rules : List Rule) (e : Expr) : Prop where
  sf : SF e = true
  tag : TagOK extras e = true
  good : Good rules e

section base
variable {extras : Bool} {rules : List Rule}

theorem tagOK_bin {a b : Expr} (h : (extras || (NoTag a && NoTag b)) = true) :
    TagOK extras a = true ∧ TagOK extras b = true := by
  unfold TagOK
  cases extras <;> simp_all

theorem Base.seq {a b : Expr} (h : Base extras rules (.seq a b)) : Base extras rules a ∧ Base extras rules b := by
  obtain ⟨h1, h2, h3⟩ := h
  simp only [SF, Bool.and_eq_true] at h1
  have := tagOK_bin (extras := extras) (a := a) (b := b) h2
  exact ⟨⟨h1.1, this.1, h3.1⟩, ⟨h1.2, this.2, h3.2⟩⟩

theorem Base.choice {a b : Expr} (h : Base extras rules (.choice a b)) :
    Base extras rules a ∧ Base extras rules b := by
  obtain ⟨h1, h2, h3⟩ := h
  simp only [SF, Bool.and_eq_true] at h1
  have := tagOK_bin (extras := extras) (a := a) (b := b) h2
  exact ⟨⟨h1.1, this.1, h3.1⟩, ⟨h1.2, this.2, h3.2⟩⟩

theorem Base.posPred {e : Expr} (h : Base extras rules (.posPred e)) : Base extras rules e := ⟨h.1, h.2, h.3⟩
theorem Base.negPred {e : Expr} (h : Base extras rules (.negPred e)) : Base extras rules e := ⟨h.1, h.2, h.3⟩
theorem Base.opt {e : Expr} (h : Base extras rules (.opt e)) : Base extras rules e := ⟨h.1, h.2, h.3⟩
theorem Base.rep {e : Expr} (h : Base extras rules (.rep e)) : Base extras rules e ∧ Prog rules e :=
  ⟨⟨h.1, h.2, h.3.2⟩, h.3.1⟩
theorem Base.repOnce {e : Expr} (h : Base extras rules (.repOnce e)) : Base extras rules e ∧ Prog rules e :=
  ⟨⟨h.1, h.2, h.3.2⟩, h.3.1⟩
theorem Base.repMin {e : Expr} {n : Nat} (h : Base extras rules (.repMin e n)) :
    Base extras rules e ∧ Prog rules e :=
  ⟨⟨h.1, h.2, h.3.2⟩, h.3.1⟩
theorem Base.repExact {e : Expr} {n : Nat} (h : Base extras rules (.repExact e n)) : Base extras rules e :=
  ⟨h.1, h.2, h.3⟩
theorem Base.repMax {e : Expr} {n : Nat} (h : Base extras rules (.repMax e n)) : Base extras rules e :=
  ⟨h.1, h.2, h.3⟩
theorem Base.repMinMax {e : Expr} {n k : Nat} (h : Base extras rules (.repMinMax e n k)) : Base extras rules e :=
  ⟨h.1, h.2, h.3⟩
theorem Base.nodeTag {e : Expr} {t : Str} (h : Base extras rules (.nodeTag e t)) :
    Base extras rules e ∧ extras = true := by
  obtain ⟨h1, h2, h3⟩ := h
  have hex : extras = true := by simpa [TagOK, NoTag] using h2
  exact ⟨⟨h1, by simp [TagOK, hex], h3⟩, hex⟩

end base

/-! ### definite results of the primitives -/

theorem oneChar_ne_fuel (c : Ctx) (s : St) (p : Char → Bool) : oneChar c s p ≠ .fuel := by
  unfold oneChar
  split
  · split <;> simp
  · simp

theorem lit_ne_fuel (c : Ctx) (s : St) (str : Str) : lit c s str ≠ .fuel := by
  unfold lit
  split
  · split <;> simp
  · simp

theorem insensM_ne_fuel (c : Ctx) (s : St) (str : Str) : insensM c s str ≠ .fuel := by
  unfold insensM
  split
  · split
    · split <;> simp
    · simp
  · simp

set_option maxHeartbeats 400000 in
theorem builtin_ne_fuel (c : Ctx) (m : Atomicity) (la : Bool) (nm : String) (s : St) : builtin c m la nm s ≠ .fuel := by
  unfold builtin
  simp only []
  split
  all_goals try (exact oneChar_ne_fuel _ _ _)
  · split <;> simp
  · split <;> simp
  · split
    · simp
    · exact lit_ne_fuel _ _ _
  · split
    · simp
    · rename_i top rest _
      have := lit_ne_fuel c s top
      cases hx : lit c s top <;> simp_all
  · split <;> simp
  · split <;> simp
  · split <;> simp
  · have h1 := lit_ne_fuel c s ['\n']
    have h2 := lit_ne_fuel c s ['\r', '\n']
    have h3 := lit_ne_fuel c s ['\r']
    cases hx : lit c s ['\n'] <;> simp_all
    cases hy : lit c s ['\r', '\n'] <;> simp_all
  · split
    · exact oneChar_ne_fuel _ _ _
    · simp

/-! ### unfolding the loops of the limit semantics -/

theorem valSt_unfold (c : Ctx) (la : Bool) (nm : String) (s : St) (acc : List Tree) :
    valSt c la nm s acc =
      match valCa c .nonAtomic la nm s with
      | .ok s1 f1 => valSt c la nm s1 (acc ++ f1)
      | .fail => .ok s acc
      | r => r := by rw [valSt_eq]; rfl

theorem valCl_unfold (c : Ctx) (la : Bool) (s : St) (acc : List Tree) :
    valCl c la s acc =
      match valCa c .nonAtomic la "COMMENT" s with
      | .ok s1 f1 =>
        match valSt c la "WHITESPACE" s1 [] with
        | .ok s2 f2 => valCl c la s2 (acc ++ f1 ++ f2)
        | r => r
      | .fail => .ok s acc
      | r => r := by rw [valCl_eq]; rfl

theorem valK_unfold (c : Ctx) (m : Atomicity) (la : Bool) (s : St) :
    valK c m la s =
      if m ≠ .nonAtomic then .ok s [] else
      match c.has "WHITESPACE", c.has "COMMENT" with
      | false, false => .ok s []
      | true, false => valSt c la "WHITESPACE" s []
      | false, true => valSt c la "COMMENT" s []
      | true, true =>
        match valSt c la "WHITESPACE" s [] with
        | .ok s1 f1 => valCl c la s1 f1
        | r => r := by rw [valK_eq]; rfl

/-! ### loops terminate when their body consumes -/

section loops
variable {c : Ctx}

/-- `e*` after a first `e` (which consumed: everything happens below level `N`). -/
theorem valL_term {m : Atomicity} {la : Bool} {e : Expr} (N : Nat) (hp : Prog c.rules e)
    (he : ∀ s, mu c s ≤ N → val c m la e s ≠ .fuel) (hK : ∀ s, mu c s < N → valK c m la s ≠ .fuel) :
    ∀ (k : Nat) (s : St) (acc : List Tree), mu c s ≤ k → k < N → valL c m la e s acc ≠ .fuel := by
  intro k
  induction k with
  | zero =>
    intro s acc hs hk
    rw [valL_unfold]
    cases h1 : valK c m la s <;> simp only [] <;> try simp
    · rename_i s1 f1
      have hm1 := (valK_fwd h1).mu_le
      cases h2 : val c m la e s1 <;> simp only [] <;> try simp
      · rename_i s2 f2
        have := (val_fwd h2).mu_lt (prog_progress hp _ _ _ _ _ h2)
        omega
      · exact absurd h2 (he s1 (by omega))
    · exact absurd h1 (hK s (by omega))
  | succ k ih =>
    intro s acc hs hk
    rw [valL_unfold]
    cases h1 : valK c m la s <;> simp only [] <;> try simp
    · rename_i s1 f1
      have hm1 := (valK_fwd h1).mu_le
      cases h2 : val c m la e s1 <;> simp only [] <;> try simp
      · rename_i s2 f2
        have := (val_fwd h2).mu_lt (prog_progress hp _ _ _ _ _ h2)
        exact ih s2 _ (by omega) (by omega)
      · exact absurd h2 (he s1 (by omega))
    · exact absurd h1 (hK s (by omega))

theorem rep_term {m : Atomicity} {la : Bool} {e : Expr} (N : Nat) (hp : Prog c.rules e)
    (he : ∀ s, mu c s ≤ N → val c m la e s ≠ .fuel) (hK : ∀ s, mu c s < N → valK c m la s ≠ .fuel) :
    ∀ s, mu c s ≤ N → val c m la (.rep e) s ≠ .fuel := by
  intro s hs
  rw [val_rep]
  cases h1 : val c m la e s <;> simp only [] <;> try simp
  · rename_i s1 f1
    have := (val_fwd h1).mu_lt (prog_progress hp _ _ _ _ _ h1)
    exact valL_term N hp he hK (mu c s1) s1 f1 (Nat.le_refl _) (by omega)
  · exact absurd h1 (he s hs)

theorem opt_term {m : Atomicity} {la : Bool} {e : Expr} (N : Nat)
    (he : ∀ s, mu c s ≤ N → val c m la e s ≠ .fuel) : ∀ s, mu c s ≤ N → val c m la (.opt e) s ≠ .fuel := by
  intro s hs
  rw [val_opt]
  cases h1 : val c m la e s <;> simp only [] <;> try simp
  exact absurd h1 (he s hs)

/-- sequences of terminating expressions terminate (the skips between them too, if there are any). -/
theorem seqlist_term {m : Atomicity} {la : Bool} (N : Nat) :
    ∀ (l : List Expr) (u : Expr), (2 ≤ l.length → ∀ s, mu c s ≤ N → valK c m la s ≠ .fuel) →
      (∀ x ∈ l, ∀ s, mu c s ≤ N → val c m la x s ≠ .fuel) → seqOfList l = some u →
      ∀ s, mu c s ≤ N → val c m la u s ≠ .fuel := by
  intro l
  induction l with
  | nil => intro u _ _ hu; simp [seqOfList] at hu
  | cons x xs ih =>
    intro u hK hl hu
    cases xs with
    | nil =>
      simp only [seqOfList, Option.some.injEq] at hu
      subst hu
      exact hl x (by simp)
    | cons y ys =>
      simp only [seqOfList] at hu
      cases hr : seqOfList (y :: ys) with
      | none => rw [hr] at hu; simp at hu
      | some u' =>
        rw [hr] at hu
        simp only [Option.map_some, Option.some.injEq] at hu
        subst hu
        have hK' := hK (by simp)
        have hu' := ih u' (fun _ => hK') (fun z hz => hl z (List.mem_cons_of_mem _ hz)) hr
        intro s hs
        rw [val_seq]
        cases h1 : val c m la x s <;> simp only [] <;> try simp
        · rename_i s1 f1
          have m1 := (val_fwd h1).mu_le
          cases h2 : valK c m la s1 <;> simp only [] <;> try simp
          · rename_i s2 f2
            have m2 := (valK_fwd h2).mu_le
            cases h3 : val c m la u' s2 <;> simp only [] <;> try simp
            exact absurd h3 (hu' s2 (by omega))
          · exact absurd h2 (hK' s1 (by omega))
        · exact absurd h1 (hl x (by simp) s hs)

/-- a sequence whose first element consumes: the rest happens below level `N`. -/
theorem seqlist_term2 {m : Atomicity} {la : Bool} (N : Nat) (hKlow : ∀ s, mu c s < N → valK c m la s ≠ .fuel)
    (x : Expr) (xs : List Expr) (u : Expr) (hx : ∀ s, mu c s ≤ N → val c m la x s ≠ .fuel)
    (hp : ∀ s s' f, val c m la x s = .ok s' f → s.pos < s'.pos)
    (hrest : ∀ y ∈ xs, ∀ s, mu c s < N → val c m la y s ≠ .fuel) (hu : seqOfList (x :: xs) = some u) :
    ∀ s, mu c s ≤ N → val c m la u s ≠ .fuel := by
  cases xs with
  | nil =>
    simp only [seqOfList, Option.some.injEq] at hu
    subst hu
    exact hx
  | cons y ys =>
    simp only [seqOfList] at hu
    cases hr : seqOfList (y :: ys) with
    | none => rw [hr] at hu; simp at hu
    | some u' =>
      rw [hr] at hu
      simp only [Option.map_some, Option.some.injEq] at hu
      subst hu
      intro s hs
      rw [val_seq]
      cases h1 : val c m la x s <;> simp only [] <;> try simp
      · rename_i s1 f1
        have m1 := (val_fwd h1).mu_lt (hp _ _ _ h1)
        cases h2 : valK c m la s1 <;> simp only [] <;> try simp
        · rename_i s2 f2
          have m2 := (valK_fwd h2).mu_le
          cases h3 : val c m la u' s2 <;> simp only [] <;> try simp
          cases N with
          | zero => omega
          | succ B =>
            exact absurd h3 (seqlist_term B (y :: ys) u' (fun _ s hs => hKlow s (by omega))
              (fun z hz s hs => hrest z hz s (by omega)) hr s2 (by omega))
        · exact absurd h2 (hKlow s1 (by omega))
      · exact absurd h1 (hx s hs)

/-- `name*` for a rule whose calls terminate and consume. -/
theorem valSt_term {la : Bool} {nm : String} (N : Nat)
    (hca : ∀ s, mu c s ≤ N → valCa c .nonAtomic la nm s ≠ .fuel)
    (hpr : ∀ s s' f, valCa c .nonAtomic la nm s = .ok s' f → s.pos < s'.pos) :
    ∀ (k : Nat) (s : St) (acc : List Tree), mu c s ≤ k → k ≤ N → valSt c la nm s acc ≠ .fuel := by
  intro k
  induction k with
  | zero =>
    intro s acc hs hk
    rw [valSt_unfold]
    cases h1 : valCa c .nonAtomic la nm s <;> simp only [] <;> try simp
    · have := (valCa_fwd h1).mu_lt (hpr _ _ _ h1); omega
    · exact absurd h1 (hca s (by omega))
  | succ k ih =>
    intro s acc hs hk
    rw [valSt_unfold]
    cases h1 : valCa c .nonAtomic la nm s <;> simp only [] <;> try simp
    · have := (valCa_fwd h1).mu_lt (hpr _ _ _ h1)
      exact ih _ _ (by omega) (by omega)
    · exact absurd h1 (hca s (by omega))

theorem valCl_term {la : Bool} (N : Nat) (hca : ∀ s, mu c s ≤ N → valCa c .nonAtomic la "COMMENT" s ≠ .fuel)
    (hpr : ∀ s s' f, valCa c .nonAtomic la "COMMENT" s = .ok s' f → s.pos < s'.pos)
    (hst : ∀ s, mu c s ≤ N → ∀ acc, valSt c la "WHITESPACE" s acc ≠ .fuel) :
    ∀ (k : Nat) (s : St) (acc : List Tree), mu c s ≤ k → k ≤ N → valCl c la s acc ≠ .fuel := by
  intro k
  induction k with
  | zero =>
    intro s acc hs hk
    rw [valCl_unfold]
    cases h1 : valCa c .nonAtomic la "COMMENT" s <;> simp only [] <;> try simp
    · have := (valCa_fwd h1).mu_lt (hpr _ _ _ h1); omega
    · exact absurd h1 (hca s (by omega))
  | succ k ih =>
    intro s acc hs hk
    rw [valCl_unfold]
    cases h1 : valCa c .nonAtomic la "COMMENT" s <;> simp only [] <;> try simp
    · rename_i s1 f1
      have m1 := (valCa_fwd h1).mu_lt (hpr _ _ _ h1)
      cases h2 : valSt c la "WHITESPACE" s1 [] <;> simp only [] <;> try simp
      · rename_i s2 f2
        have m2 := (valSt_fwd h2).mu_le
        exact ih _ _ (by omega) (by omega)
      · exact absurd h2 (hst _ (by omega) _)
    · exact absurd h1 (hca s (by omega))

/-- the implicit skip at level `N`, from the calls of `WHITESPACE` and `COMMENT` at that level. -/
theorem valK_level (N : Nat)
    (hW : c.has "WHITESPACE" = true → ∀ la s, mu c s ≤ N → valCa c .nonAtomic la "WHITESPACE" s ≠ .fuel)
    (hWp : ∀ la s s' f, valCa c .nonAtomic la "WHITESPACE" s = .ok s' f → s.pos < s'.pos)
    (hC : c.has "COMMENT" = true → ∀ la s, mu c s ≤ N → valCa c .nonAtomic la "COMMENT" s ≠ .fuel)
    (hCp : ∀ la s s' f, valCa c .nonAtomic la "COMMENT" s = .ok s' f → s.pos < s'.pos) :
    ∀ s, mu c s ≤ N → ∀ m la, valK c m la s ≠ .fuel := by
  intro s hs m la
  rw [valK_unfold]
  split
  · simp
  · split
    · simp
    · rename_i h1 _
      exact valSt_term N (hW h1 la) (hWp la) (mu c s) s [] (Nat.le_refl _) hs
    · rename_i _ h2
      exact valSt_term N (hC h2 la) (hCp la) (mu c s) s [] (Nat.le_refl _) hs
    · rename_i h1 h2
      have hstW : ∀ s, mu c s ≤ N → ∀ acc, valSt c la "WHITESPACE" s acc ≠ .fuel :=
        fun s hs acc => valSt_term N (hW h1 la) (hWp la) (mu c s) s acc (Nat.le_refl _) hs
      cases h3 : valSt c la "WHITESPACE" s [] <;> simp only [] <;> try simp
      · rename_i s1 f1
        have := (valSt_fwd h3).mu_le
        exact valCl_term N (hC h2 la) (hCp la) hstW (mu c s1) s1 f1 (Nat.le_refl _) (by omega)
      · exact absurd h3 (hstW s hs [])

end loops

end PestModel.V
