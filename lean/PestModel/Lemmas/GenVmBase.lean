import PestModel.Model.Lower
import PestModel.Lemmas.PStateInv
import PestModel.Lemmas.PStateLimitK
import PestModel.Lemmas.VmRefTerm
/-! C02, part 1: states equal up to the saved snapshots of the stack (`SEq`), outcomes (`ORel`),
big-step evaluation with existential fuel (`Ev`) and its composition / inversion rules. -/
namespace PestModel.GenVm
open PestModel.PS PestModel.Stack
open PestModel.LineCol (Str isBoundary)
open PestModel.VmRef (run_mono)

/-- replace the stack. -/
def ws (st : Stk Str) (s : PState) : PState := { s with stack := st }

theorem ws_self (s : PState) : ws s.stack s = s := rfl
theorem ws_ws (a b : Stk Str) (s : PState) : ws a (ws b s) = ws a s := rfl
theorem ws_stack (a : Stk Str) (s : PState) : (ws a s).stack = a := rfl

/-- well-formed, no call limit. -/
structure Good (s : PState) : Prop where
  wf : s.WF
  calls : s.calls = none

/-- same state up to the stack, whose current contents agree (the saved snapshots may differ). -/
def SEq0 (s1 s2 : PState) : Prop := s2 = ws s2.stack s1 ∧ s1.stack.cache = s2.stack.cache

structure SEq (s1 s2 : PState) : Prop where
  core : SEq0 s1 s2
  g1 : Good s1
  g2 : Good s2

theorem SEq0.refl (s : PState) : SEq0 s s := ⟨rfl, rfl⟩

theorem SEq0.symm {a b : PState} (h : SEq0 a b) : SEq0 b a := by
  obtain ⟨h1, h2⟩ := h
  refine ⟨?_, h2.symm⟩
  rw [h1]; rfl

theorem SEq0.trans {a b c : PState} (h1 : SEq0 a b) (h2 : SEq0 b c) : SEq0 a c := by
  obtain ⟨e1, c1⟩ := h1
  obtain ⟨e2, c2⟩ := h2
  refine ⟨?_, c1.trans c2⟩
  rw [e2, e1]; rfl

theorem SEq.refl {s : PState} (h : Good s) : SEq s s := ⟨SEq0.refl s, h, h⟩
theorem SEq.symm {a b : PState} (h : SEq a b) : SEq b a := ⟨h.core.symm, h.g2, h.g1⟩
theorem SEq.trans {a b c : PState} (h1 : SEq a b) (h2 : SEq b c) : SEq a c :=
  ⟨h1.core.trans h2.core, h1.g1, h2.g2⟩

theorem SEq0.of_ws {s : PState} {st : Stk Str} (h : s.stack.cache = st.cache) : SEq0 s (ws st s) :=
  ⟨rfl, h⟩

theorem SEq0.ws_ws {s : PState} {a b : Stk Str} (h : a.cache = b.cache) : SEq0 (ws a s) (ws b s) :=
  ⟨rfl, h⟩

/-- relation on outcomes. -/
def ORel (R : PState → PState → Prop) : Out → Out → Prop
  | .ok a, .ok b => R a b
  | .err a, .err b => R a b
  | .panic, .panic => True
  | .fuel, .fuel => True
  | _, _ => False

abbrev OEq0F := ORel SEq0
abbrev OEqF := ORel SEq

/-- related definite outcomes. -/
def OEq (o1 o2 : Out) : Prop := ORel SEq o1 o2 ∧ o1 ≠ .fuel

theorem ORel.ne_fuel {R} {o1 o2 : Out} (h : ORel R o1 o2) (h1 : o1 ≠ .fuel) : o2 ≠ .fuel := by
  cases o1 <;> cases o2 <;> simp_all [ORel]

theorem ORel.ne_fuel' {R} {o1 o2 : Out} (h : ORel R o1 o2) (h1 : o2 ≠ .fuel) : o1 ≠ .fuel := by
  cases o1 <;> cases o2 <;> simp_all [ORel]

theorem OEq.ne_fuel {o1 o2 : Out} (h : OEq o1 o2) : o2 ≠ .fuel := h.1.ne_fuel h.2

theorem ORel.symm {R : PState → PState → Prop} (hR : ∀ a b, R a b → R b a) {o1 o2 : Out}
    (h : ORel R o1 o2) : ORel R o2 o1 := by
  cases o1 <;> cases o2 <;> simp_all [ORel]

theorem ORel.trans {R : PState → PState → Prop} (hR : ∀ a b c, R a b → R b c → R a c) {o1 o2 o3 : Out}
    (h1 : ORel R o1 o2) (h2 : ORel R o2 o3) : ORel R o1 o3 := by
  cases o1 <;> cases o2 <;> cases o3 <;> simp_all [ORel]
  all_goals exact hR _ _ _ h1 h2

theorem OEq.symm {o1 o2 : Out} (h : OEq o1 o2) : OEq o2 o1 :=
  ⟨ORel.symm (R := SEq) (fun _ _ a => SEq.symm a) h.1, h.ne_fuel⟩

theorem OEq.trans {o1 o2 o3 : Out} (h1 : OEq o1 o2) (h2 : OEq o2 o3) : OEq o1 o3 :=
  ⟨ORel.trans (R := SEq) (fun _ _ _ a b => SEq.trans a b) h1.1 h2.1, h1.2⟩

theorem OEqF.symm {o1 o2 : Out} (h : OEqF o1 o2) : OEqF o2 o1 := ORel.symm (R := SEq) (fun _ _ a => SEq.symm a) h

theorem OEqF.trans {o1 o2 o3 : Out} (h1 : OEqF o1 o2) (h2 : OEqF o2 o3) : OEqF o1 o3 :=
  ORel.trans (R := SEq) (fun _ _ _ a b => SEq.trans a b) h1 h2

/-- upgrade with well-formedness of the final states. -/
theorem ORel.upgrade {o1 o2 : Out} (h : OEq0F o1 o2) (h1 : ∀ x, o1.state? = some x → Good x)
    (h2 : ∀ x, o2.state? = some x → Good x) : OEqF o1 o2 := by
  cases o1 <;> cases o2 <;> simp_all [ORel, Out.state?]
  all_goals exact ⟨h, h1, h2⟩

theorem good_run {cfg : Cfg} {n : Nat} {p : Prog} {s x : PState} (hg : Good s)
    (h : (run cfg n p s).state? = some x) : Good x :=
  ⟨(run_rel cfg n p s x h).wf hg.wf, (run_callsMono cfg n p s x h).1 hg.calls⟩

theorem Good.incCall {s : PState} (h : Good s) : incCall s = some s := by
  unfold PS.incCall; rw [h.calls]

theorem Good.notLimit {s : PState} (h : Good s) : reachedCallLimit s = false := by
  unfold reachedCallLimit; rw [h.calls]

theorem Good.of_rel {s s' : PState} (h : Good s) (r : Rel s s') (hc : s'.calls = none) : Good s' :=
  ⟨r.wf h.wf, hc⟩

/-! ### big-step evaluation -/

/-- `p` run from `s` reaches the definite outcome `o`. -/
def Ev (cfg : Cfg) (p : Prog) (s : PState) (o : Out) : Prop := ∃ m, run cfg m p s = o ∧ o ≠ .fuel

variable {cfg : Cfg}

theorem Ev.of_run {m : Nat} {p : Prog} {s : PState} (h : run cfg m p s ≠ .fuel) :
    Ev cfg p s (run cfg m p s) := ⟨m, rfl, h⟩

theorem Ev.det {p : Prog} {s : PState} {o o' : Out} (h1 : Ev cfg p s o) (h2 : Ev cfg p s o') : o = o' := by
  obtain ⟨m1, e1, n1⟩ := h1
  obtain ⟨m2, e2, n2⟩ := h2
  have a := run_mono (cfg := cfg) (F := m1) (F' := max m1 m2) (p := p) (s := s) (by rw [e1]; exact n1)
    (Nat.le_max_left _ _)
  have b := run_mono (cfg := cfg) (F := m2) (F' := max m1 m2) (p := p) (s := s) (by rw [e2]; exact n2)
    (Nat.le_max_right _ _)
  rw [← e1, ← e2, ← a, ← b]

theorem Ev.run_eq {p : Prog} {s : PState} {o : Out} (h : Ev cfg p s o) {m : Nat}
    (hm : run cfg m p s ≠ .fuel) : run cfg m p s = o := (Ev.of_run hm).det h

theorem Ev.ne_fuel {p : Prog} {s : PState} {o : Out} (h : Ev cfg p s o) : o ≠ .fuel := by
  obtain ⟨_, _, n⟩ := h; exact n

theorem Ev.good {p : Prog} {s x : PState} {o : Out} (h : Ev cfg p s o) (hg : Good s)
    (hx : o.state? = some x) : Good x := by
  obtain ⟨m, rfl, -⟩ := h
  exact good_run hg hx

theorem Ev.rel_ok {p : Prog} {s x : PState} (h : Ev cfg p s (.ok x)) : Rel s x := by
  obtain ⟨m, e, -⟩ := h
  exact run_ok_rel e

theorem Ev.rel_err {p : Prog} {s x : PState} (h : Ev cfg p s (.err x)) : Rel s x := by
  obtain ⟨m, e, -⟩ := h
  exact run_err_rel e

/-- two runs at a common fuel. -/
theorem ev_two {p q : Prog} {s t : PState} {o o' : Out} (h1 : Ev cfg p s o) (h2 : Ev cfg q t o') :
    ∃ m, run cfg m p s = o ∧ run cfg m q t = o' := by
  obtain ⟨m1, e1, n1⟩ := h1
  obtain ⟨m2, e2, n2⟩ := h2
  refine ⟨max m1 m2, ?_, ?_⟩
  · rw [run_mono (by rw [e1]; exact n1) (Nat.le_max_left _ _), e1]
  · rw [run_mono (by rw [e2]; exact n2) (Nat.le_max_right _ _), e2]

theorem ev_andThen_ok {p q : Prog} {s s' : PState} {o : Out} (h1 : Ev cfg p s (.ok s'))
    (h2 : Ev cfg q s' o) : Ev cfg (.andThen p q) s o := by
  obtain ⟨m, e1, e2⟩ := ev_two h1 h2
  exact ⟨m + 1, by rw [run_andThen, e1]; exact e2, h2.ne_fuel⟩

theorem ev_andThen_stop {p q : Prog} {s : PState} {o : Out} (h1 : Ev cfg p s o)
    (hn : ∀ s', o ≠ .ok s') : Ev cfg (.andThen p q) s o := by
  obtain ⟨m, e1, n1⟩ := h1
  refine ⟨m + 1, ?_, n1⟩
  rw [run_andThen, e1]
  cases o with
  | ok s' => exact absurd rfl (hn s')
  | _ => rfl

theorem ev_orElse_err {p q : Prog} {s s' : PState} {o : Out} (h1 : Ev cfg p s (.err s'))
    (h2 : Ev cfg q s' o) : Ev cfg (.orElse p q) s o := by
  obtain ⟨m, e1, e2⟩ := ev_two h1 h2
  exact ⟨m + 1, by rw [run_orElse, e1]; exact e2, h2.ne_fuel⟩

theorem ev_orElse_stop {p q : Prog} {s : PState} {o : Out} (h1 : Ev cfg p s o)
    (hn : ∀ s', o ≠ .err s') : Ev cfg (.orElse p q) s o := by
  obtain ⟨m, e1, n1⟩ := h1
  refine ⟨m + 1, ?_, n1⟩
  rw [run_orElse, e1]
  cases o with
  | err s' => exact absurd rfl (hn s')
  | _ => rfl

theorem ev_call {i : Nat} {p : Prog} {s : PState} {o : Out} (hi : cfg.env[i]? = some p)
    (h : Ev cfg p s o) : Ev cfg (.call i) s o := by
  obtain ⟨m, e, n⟩ := h
  exact ⟨m + 1, by rw [run_call, hi]; exact e, n⟩

theorem ev_call_none {i : Nat} {s : PState} (hi : cfg.env[i]? = none) : Ev cfg (.call i) s .panic :=
  ⟨1, by rw [run_call, hi], by simp⟩

theorem ev_repLoop_ok {p : Prog} {s s' : PState} {o : Out} (h1 : Ev cfg p s (.ok s'))
    (h2 : Ev cfg (.repLoop p) s' o) : Ev cfg (.repLoop p) s o := by
  obtain ⟨m, e1, e2⟩ := ev_two h1 h2
  exact ⟨m + 1, by rw [run_repLoop, e1]; exact e2, h2.ne_fuel⟩

theorem ev_repLoop_err {p : Prog} {s s' : PState} (h1 : Ev cfg p s (.err s')) :
    Ev cfg (.repLoop p) s (.ok s') := by
  obtain ⟨m, e1, -⟩ := h1
  exact ⟨m + 1, by rw [run_repLoop, e1], by simp⟩

theorem ev_repLoop_panic {p : Prog} {s : PState} (h1 : Ev cfg p s .panic) :
    Ev cfg (.repLoop p) s .panic := by
  obtain ⟨m, e1, -⟩ := h1
  exact ⟨m + 1, by rw [run_repLoop, e1], by simp⟩

/-! ### the continuations `K` -/

/-- `K` passes `panic` / `fuel` through and is definite on definite outcomes. -/
structure KOK (K : PState → Out → Out) : Prop where
  fuel : ∀ s, K s .fuel = .fuel
  panic : ∀ s, K s .panic = .panic
  ne_fuel : ∀ s o, o ≠ .fuel → K s o ≠ .fuel

theorem seqK_ok : KOK seqK := by
  refine ⟨fun _ => rfl, fun _ => rfl, fun s o h => ?_⟩
  cases o with
  | ok ns => unfold seqK; dsimp only; split <;> simp
  | err ns => unfold seqK; dsimp only; split <;> simp
  | panic => simp [seqK]
  | fuel => exact absurd rfl h

theorem roeK_ok : KOK roeK := by
  refine ⟨fun _ => rfl, fun _ => rfl, fun s o h => ?_⟩
  cases o with
  | ok ns => unfold roeK; dsimp only; split <;> simp
  | err ns => unfold roeK; dsimp only; split <;> simp
  | panic => simp [roeK]
  | fuel => exact absurd rfl h

theorem optK_ok : KOK optK := by
  refine ⟨fun _ => rfl, fun _ => rfl, fun s o h => ?_⟩
  cases o <;> simp_all [optK]

theorem idK_ok : KOK idK := ⟨fun _ => rfl, fun _ => rfl, fun _ _ h => h⟩

theorem laK_ok (b : Bool) : KOK (laK b) := by
  refine ⟨fun _ => rfl, fun _ => rfl, fun s o h => ?_⟩
  cases o with
  | ok ns =>
    unfold laK; dsimp only; split
    · split <;> simp
    · simp
  | err ns =>
    unfold laK; dsimp only; split
    · split <;> simp
    · simp
  | panic => simp [laK]
  | fuel => exact absurd rfl h

theorem atomK_ok (a : Atomicity) : KOK (atomK a) := by
  refine ⟨fun _ => rfl, fun _ => rfl, fun s o h => ?_⟩
  cases o <;> simp_all [atomK]

theorem ruleK_ok (r : Nat) : KOK (ruleK r) := by
  refine ⟨fun _ => rfl, fun _ => rfl, fun s o h => ?_⟩
  cases o with
  | ok ns => exact VmRef.ruleOkPost_ne_fuel _ _ _
  | err ns => exact VmRef.ruleErrPost_ne_fuel _ _ _
  | panic => simp [ruleK]
  | fuel => exact absurd rfl h

theorem pushK_ok : KOK pushK := by
  refine ⟨fun _ => rfl, fun _ => rfl, fun s o h => ?_⟩
  cases o with
  | ok ns => unfold pushK pushSpan; dsimp only; split <;> simp
  | err ns => simp [pushK]
  | panic => simp [pushK]
  | fuel => exact absurd rfl h

theorem bracket_good {fuel : Nat} {body : Prog} {pre : PState → PState} {K : PState → Out → Out}
    {s : PState} (hg : Good s) :
    bracket cfg fuel body pre K s = K s (run cfg fuel body (pre s)) := by
  unfold bracket bracket0; rw [hg.incCall]

theorem ev_bracket {X P : Prog} {pre : PState → PState} {K : PState → Out → Out}
    (hrun : ∀ (f : Nat) (s : PState), run cfg (f+1) X s = bracket cfg f P pre K s)
    (hK : KOK K) {s : PState} {o : Out} (hg : Good s) (h : Ev cfg P (pre s) o) :
    Ev cfg X s (K s o) := by
  obtain ⟨m, e, n⟩ := h
  exact ⟨m + 1, by rw [hrun, bracket_good hg, e], hK.ne_fuel _ _ n⟩

theorem ev_bracket_inv {X P : Prog} {pre : PState → PState} {K : PState → Out → Out}
    (hrun : ∀ (f : Nat) (s : PState), run cfg (f+1) X s = bracket cfg f P pre K s)
    (hK : KOK K) {s : PState} {o : Out} (hg : Good s) (h : Ev cfg X s o) :
    ∃ o', Ev cfg P (pre s) o' ∧ o = K s o' := by
  obtain ⟨m, e, n⟩ := h
  cases m with
  | zero => rw [run_zero] at e; exact absurd e.symm n
  | succ m =>
    rw [hrun, bracket_good hg] at e
    refine ⟨run cfg m P (pre s), ⟨m, rfl, ?_⟩, e.symm⟩
    intro hf
    rw [hf, hK.fuel] at e
    exact n e.symm

theorem ev_bracket0 {X P : Prog} {pre : PState → PState} {K : PState → Out → Out}
    (hrun : ∀ (f : Nat) (s : PState), run cfg (f+1) X s = bracket0 cfg f P pre K s)
    (hK : KOK K) {s : PState} {o : Out} (h : Ev cfg P (pre s) o) :
    Ev cfg X s (K s o) := by
  obtain ⟨m, e, n⟩ := h
  exact ⟨m + 1, by rw [hrun]; unfold bracket0; rw [e], hK.ne_fuel _ _ n⟩

theorem ev_bracket0_inv {X P : Prog} {pre : PState → PState} {K : PState → Out → Out}
    (hrun : ∀ (f : Nat) (s : PState), run cfg (f+1) X s = bracket0 cfg f P pre K s)
    (hK : KOK K) {s : PState} {o : Out} (h : Ev cfg X s o) :
    ∃ o', Ev cfg P (pre s) o' ∧ o = K s o' := by
  obtain ⟨m, e, n⟩ := h
  cases m with
  | zero => rw [run_zero] at e; exact absurd e.symm n
  | succ m =>
    rw [hrun] at e; unfold bracket0 at e
    refine ⟨run cfg m P (pre s), ⟨m, rfl, ?_⟩, e.symm⟩
    intro hf
    rw [hf, hK.fuel] at e
    exact n e.symm

end PestModel.GenVm
