import PestModel.Model.RefSpec
import PestModel.Lemmas.Ref
import PestModel.Lemmas.RefAll
import PestModel.Lemmas.OptSkipCap
/-!
# C05 — optimizer passes preserve the meaning of every grammar

Property theorems only; helper lemmas in `PestModel/Lemmas/Ref*.lean`.
Meaning = the reference denotation `PestModel.Ref.denote` (DESIGN.md Appendix A); the passes are
the Lean transcriptions in `PestModel.G` that are compared with the real passes' output AS TREES on
every run of the check.
-/
namespace PestModel.C05
open PestModel.G PestModel.Ref
open PestModel.PS (Atomicity CharSet)

/-- More fuel never changes a definite result. -/
theorem denote_fuel_mono (c : Ctx) (fuel fuel' : Nat) (m : Atomicity) (la : Bool) (e : Expr) (s : St) (r : Res)
    (h : denote c fuel m la e s = r) (hr : r ≠ .fuel) (hle : fuel ≤ fuel') : denote c fuel' m la e s = r := by
  rcases (lev_mono c hle).d m la e s with h1 | h1
  · simp only [lev] at h1; rw [h] at h1; exact absurd h1 hr
  · simp only [lev] at h1; rw [← h1, h]

/-- The reference semantics is deterministic. -/
theorem evals_det (c : Ctx) (m : Atomicity) (la : Bool) (e : Expr) (s : St) (r r' : Res)
    (h : Evals c m la e s r) (h' : Evals c m la e s r') : r = r' := by
  rw [evals_iff] at h h'
  rw [← h.2, ← h'.2]

/-- `rotate` (re-association of `~` and `|`) preserves meaning in every mode. -/
theorem rotate_preserves (c : Ctx) (e : Expr) : EquivAll c e (rotateExpr e) := by
  intro m
  rw [equiv_iff_eqOn]
  exact rotateExpr_eqOn (inv_true c) e

/-- `unroll` preserves meaning (bounded repetitions, and `e+` without grammar-extras). -/
theorem unroll_preserves (c : Ctx) (e e' : Expr) (h : unrollExpr c.extras e = some e') : EquivAll c e e' := by
  intro m
  rw [equiv_iff_eqOn]
  exact unrollExpr_eqOn (inv_true c) e e' h

/-- `concatenate` preserves meaning where it is applied: in atomic mode. -/
theorem concat_preserves (c : Ctx) (e : Expr) : Equiv c .atomic e (mapBottomUp concatF e) := by
  rw [equiv_iff_eqOn]
  exact mapBottomUp_eqOn (inv_true c) _ (concatF_eqOn (by decide)) e

/-- `factor` preserves meaning: the two general rewrites in every mode, the atomic-only rewrite
(`a ~ b | a → a ~ b?`) in atomic and compound-atomic mode, which is where it is applied. -/
theorem factor_preserves (c : Ctx) (ty : RuleType) (m : Atomicity) (e : Expr)
    (hm : ty = .atomic ∨ ty = .compound → m ≠ .nonAtomic) :
    Equiv c m e (mapTopDown (factorF ty) (e.size + 1) e) := by
  rw [equiv_iff_eqOn]
  exact mapTopDown_eqOn (inv_true c) _ (factorF_eqOn ty hm) _ e

/-! ### `skip_preserves`

The statement as first written (`Equiv c .atomic (.rep (.seq (.negPred inner) (.ident "ANY"))) (.skip strs)`,
i.e. from EVERY state) is FALSE: from a position that is not a character boundary of the input
(e.g. position 1 of the empty input) `Skip` fails (`restAt = none`), whereas `(!inner ~ ANY)*`
succeeds without consuming (`skip_preserves_counterexample`). Such states are unreachable (a
successful evaluation keeps the position on a boundary, `PestModel.Ref.inv_valid`), so the corrected
statement quantifies over states whose position is a boundary. -/

/-- The original statement of `skip_preserves` is false. -/
theorem skip_preserves_counterexample :
    ¬ (∀ (c : Ctx) (fuel : Nat) (inner : Expr) (strs : List PestModel.LineCol.Str)
      (_hany : c.has "ANY" = false)
      (_h : populateChoices c.rules fuel inner [] = some (.skip strs)),
      Equiv c .atomic (.rep (.seq (.negPred inner) (.ident "ANY"))) (.skip strs)) := by
  intro H
  have h := H { rules := [], input := [], extras := false, uni := fun _ => none } 1 (.str ['a']) [['a']] rfl rfl
    false ⟨1, []⟩ (.ok ⟨1, []⟩ [])
  have h1 : Evals { rules := [], input := [], extras := false, uni := fun _ => none } .atomic false
      (.rep (.seq (.negPred (.str ['a'])) (.ident "ANY"))) ⟨1, []⟩ (.ok ⟨1, []⟩ []) := ⟨by simp, 10, rfl⟩
  have h2 : Evals { rules := [], input := [], extras := false, uni := fun _ => none } .atomic false
      (.skip [['a']]) ⟨1, []⟩ .fail := ⟨by simp, 1, rfl⟩
  have h3 := evals_det _ _ _ _ _ _ _ (h.1 h1) h2
  cases h3

/-- `skip`: in atomic mode `(!(s₁ | s₂ | …) ~ ANY)*`, with rule references inlined, is the search
for the first occurrence of one of the strings — from every state whose position is a character
boundary of the input (corrected statement, see above). -/
theorem skip_preserves (c : Ctx) (fuel : Nat) (inner : Expr) (strs : List PestModel.LineCol.Str)
    (hany : c.has "ANY" = false)
    (h : populateChoices c.rules fuel inner [] = some (.skip strs))
    (la : Bool) (s : St) (r : Res) (hs : (PestModel.PS.restAt c.input s.pos).isSome = true) :
    Evals c .atomic la (.rep (.seq (.negPred inner) (.ident "ANY"))) s r ↔ Evals c .atomic la (.skip strs) s r := by
  rw [evals_iff, evals_iff, skip_law hany h la s hs]

/-- The `list` rewrite `(a ~ b)* ~ a → a ~ (b ~ a)*` does NOT preserve meaning: on `"abab"` the
original fails and the rewritten expression matches the prefix `"aba"`. -/
theorem list_not_preserving :
    ∃ (c : Ctx) (e : Expr), ¬ Equiv c .nonAtomic e (mapBottomUp listF e) := by
  refine ⟨{ rules := [], input := "abab".toList, extras := false, uni := fun _ => none },
    .seq (.rep (.seq (.str "a".toList) (.str "b".toList))) (.str "a".toList), fun h => ?_⟩
  have h1 : Evals { rules := [], input := "abab".toList, extras := false, uni := fun _ => none } .nonAtomic false
      (.seq (.rep (.seq (.str "a".toList) (.str "b".toList))) (.str "a".toList)) ⟨0, []⟩ .fail :=
    ⟨by simp, 10, rfl⟩
  have h2 := (h false ⟨0, []⟩ .fail).1 h1
  have h3 : Evals { rules := [], input := "abab".toList, extras := false, uni := fun _ => none } .nonAtomic false
      (mapBottomUp listF (.seq (.rep (.seq (.str "a".toList) (.str "b".toList))) (.str "a".toList)))
      ⟨0, []⟩ (.ok ⟨3, []⟩ []) :=
    ⟨by simp, 10, rfl⟩
  have h4 := evals_det _ _ _ _ _ _ _ h2 h3
  cases h4

/-! ### `rules_congruence`

The statement as first written,

    theorem rules_congruence (rules rules' …) (hlen …) (hsame …)
        (heq : ∀ i h h' input m, Equiv {rules := rules, …} (bodyMode rules[i].name rules[i].ty m)
                 rules[i].expr rules'[i].expr) (rule input r) :
        Means rules extras uni rule input r ↔ Means rules' extras uni rule input r

is FALSE (`rules_congruence_counterexample` below): with `rules = [A = _{ "x" }]` and
`rules' = [A = _{ A | "x" }]` the bodies are equivalent *in the context of the original rules*
(there `A` means `"x"`), but under `rules'` the rule `A` is left-recursive and has no definite
result, while under `rules` the parse of `"x"` succeeds. Equivalence of the bodies under the OLD
rules only gives the direction new ⇒ old (`rules_congruence_partial`); the equivalence holds when
the bodies are also equivalent in the context of the NEW rules (`rules_congruence`). -/

/-- The original statement of `rules_congruence` is false. -/
theorem rules_congruence_counterexample :
    ¬ (∀ (rules rules' : List Rule) (extras : Bool) (uni : String → Option CharSet)
      (_hlen : rules.length = rules'.length)
      (_hsame : ∀ i (h : i < rules.length) (h' : i < rules'.length),
        rules[i].name = rules'[i].name ∧ rules[i].ty = rules'[i].ty)
      (_heq : ∀ i (h : i < rules.length) (h' : i < rules'.length) input m,
        Equiv { rules := rules, input := input, extras := extras, uni := uni }
          (bodyMode rules[i].name rules[i].ty m) rules[i].expr rules'[i].expr)
      (rule : String) (input : PestModel.LineCol.Str) (r : Res),
      Means rules extras uni rule input r ↔ Means rules' extras uni rule input r) := by
  intro H
  have h := H cexRules cexRules' false (fun _ => none) rfl
    (by intro i h h'; have : i = 0 := by simp [cexRules] at h; omega
        subst this; exact ⟨rfl, rfl⟩)
    (by
      intro i h h' input m
      have : i = 0 := by simp [cexRules] at h; omega
      subst this
      rw [equiv_iff]
      intro la s
      have hr : Ctx.rule? { rules := cexRules, input := input, extras := false, uni := fun _ => none } "A" =
          some (0, ⟨"A", .silent, .str ['x']⟩) := rfl
      have hb : ∀ m, bodyMode "A" .silent m = m := by intro m; simp [bodyMode]
      show val { rules := cexRules, input := input, extras := false, uni := fun _ => none } (bodyMode "A" .silent m) la
        (.str ['x']) s = val _ (bodyMode "A" .silent m) la (.choice (.ident "A") (.str ['x'])) s
      rw [val_choice, val_ident, valCa_unfold, hr]
      simp only [val_str, emitsFor, hb]
      cases lit { rules := cexRules, input := input, extras := false, uni := fun _ => none } s ['x'] <;> simp)
    "A" ['x'] (.ok ⟨1, []⟩ [])
  have h1 : Means cexRules false (fun _ => none) "A" ['x'] (.ok ⟨1, []⟩ []) := ⟨by simp, 5, rfl⟩
  obtain ⟨_, n, hn⟩ := h.1 h1
  unfold meaning at hn
  rw [cex_loop] at hn
  cases hn

/-- Replacing every rule body by an equivalent one (equivalent in the mode the body runs in, in the
context of the original rules): every definite result of the new rules is the result of the
original rules. -/
theorem rules_congruence_partial (rules rules' : List Rule) (extras : Bool) (uni : String → Option CharSet)
    (hlen : rules.length = rules'.length)
    (hsame : ∀ i (h : i < rules.length) (h' : i < rules'.length),
      rules[i].name = rules'[i].name ∧ rules[i].ty = rules'[i].ty)
    (heq : ∀ i (h : i < rules.length) (h' : i < rules'.length) input m,
      Equiv { rules := rules, input := input, extras := extras, uni := uni }
        (bodyMode rules[i].name rules[i].ty m) rules[i].expr rules'[i].expr)
    (rule : String) (input : PestModel.LineCol.Str) (r : Res) :
    Means rules' extras uni rule input r → Means rules extras uni rule input r := by
  refine means_of_means' rules rules' extras uni input ?_ rule r
  refine F2.of_index _ _ hlen fun i h h' => ⟨(hsame i h h').1, (hsame i h h').2, fun m => ?_⟩
  exact ((equiv_iff_eqOn _ _ _ _).1 (heq i h h' input m)).mono fun _ _ => trivial

/-- Replacing every rule body by an equivalent one (equivalent in the mode the body runs in, in the
context of the original rules AND in the context of the new rules) preserves the meaning of every
parse. (Corrected statement: hypothesis `heq'` added, see the counterexample above.) -/
theorem rules_congruence (rules rules' : List Rule) (extras : Bool) (uni : String → Option CharSet)
    (hlen : rules.length = rules'.length)
    (hsame : ∀ i (h : i < rules.length) (h' : i < rules'.length),
      rules[i].name = rules'[i].name ∧ rules[i].ty = rules'[i].ty)
    (heq : ∀ i (h : i < rules.length) (h' : i < rules'.length) input m,
      Equiv { rules := rules, input := input, extras := extras, uni := uni }
        (bodyMode rules[i].name rules[i].ty m) rules[i].expr rules'[i].expr)
    (heq' : ∀ i (h : i < rules.length) (h' : i < rules'.length) input m,
      Equiv { rules := rules', input := input, extras := extras, uni := uni }
        (bodyMode rules[i].name rules[i].ty m) rules[i].expr rules'[i].expr)
    (rule : String) (input : PestModel.LineCol.Str) (r : Res) :
    Means rules extras uni rule input r ↔ Means rules' extras uni rule input r := by
  constructor
  · refine means_of_means' rules' rules extras uni input ?_ rule r
    refine F2.of_index _ _ hlen.symm fun i h h' => ⟨(hsame i h' h).1.symm, (hsame i h' h).2.symm, fun m => ?_⟩
    rw [← (hsame i h' h).1, ← (hsame i h' h).2]
    exact (((equiv_iff_eqOn _ _ _ _).1 (heq' i h' h input m)).mono fun _ _ => trivial).symm
  · exact rules_congruence_partial rules rules' extras uni hlen hsame heq rule input r

set_option linter.unusedVariables false in
/-- **The whole pipeline without `list` preserves the meaning of every grammar on every input.** -/
theorem pipeline_preserves_without_list (rules : List Rule) (extras : Bool) (orules : List ORule)
    (uni : String → Option CharSet)
    (hany : ∀ r ∈ rules, r.name ≠ "ANY")
    (hnodup : (rules.map (·.name)).Nodup)
    (h : optimizeWith extras false rules = some orules)
    (rule : String) (input : PestModel.LineCol.Str) (r : Res) :
    Means rules extras uni rule input r ↔ Means (ofOptimizedRules orules) extras uni rule input r := by
  exact pipeline_means rules extras orules uni hany h rule input r

/-- **The `skip` pass model is the code as written**: `populate_choices` leaves as soon as its list is longer than
`MAX_SKIP_STRINGS` (regenerated from skipper.rs); since the list only grows and every inlined list ends up inside the final one,
that is the same as refusing a finished list that is too long — which is how `skipF`, the function all theorems above are
about, states it. -/
theorem skip_pass_as_written (rules : List Rule) (e : Expr) : skipF rules e = skipFAsWritten rules e :=
  skipF_as_written rules e

/-- `populate_choices` with its early exit = the bound applied to the result of the unbounded function. -/
theorem populate_choices_bound (cap : Nat) (rules : List Rule) (fuel : Nat) (e : Expr) (ch : List PestModel.LineCol.Str) :
    populateChoicesCapped cap rules fuel e ch = capResult cap (populateChoices rules fuel e ch) :=
  populateChoicesCapped_eq cap rules fuel e ch

end PestModel.C05
