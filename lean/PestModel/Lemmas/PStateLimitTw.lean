import PestModel.Lemmas.PStateLimitK
/-!
`tw fc fp` rewrites the two bookkeeping components (`calls`, `pa`) of a state.  Everything in the
interpreter that reads neither component commutes with it.  Instances: `relim` (change the limit)
and `eraseDetail`.
-/
namespace PestModel.PS
open PestModel.LineCol PestModel.Stack

def tw (fc : Option (Nat × Nat) → Option (Nat × Nat)) (fp : PAttempts → PAttempts) (s : PState) :
    PState :=
  { s with calls := fc s.calls, pa := fp s.pa }

section
variable (fc : Option (Nat × Nat) → Option (Nat × Nat)) (fp : PAttempts → PAttempts)

theorem checkpointOk_tw (s : PState) :
    checkpointOk (tw fc fp s) = (checkpointOk s).map (tw fc fp) := by
  unfold checkpointOk tw
  dsimp only
  cases clearSnapshot s.stack <;> rfl

theorem restoreStack_tw (s : PState) :
    restoreStack (tw fc fp s) = (restoreStack s).map (tw fc fp) := by
  unfold restoreStack tw
  dsimp only
  cases restore s.stack <;> rfl

theorem laPost_tw (s1 ns : PState) :
    laPost (tw fc fp s1) (tw fc fp ns) = (laPost s1 ns).map (tw fc fp) := by
  unfold laPost
  exact restoreStack_tw fc fp { ns with pos := s1.pos, lookahead := s1.lookahead }

theorem atomPre_tw (a : Atomicity) (s1 : PState) :
    atomPre a (tw fc fp s1) = tw fc fp (atomPre a s1) := by
  unfold atomPre tw
  dsimp only
  split <;> rfl

theorem atomPost_tw (a : Atomicity) (s1 ns : PState) :
    atomPost a (tw fc fp s1) (tw fc fp ns) = tw fc fp (atomPost a s1 ns) := by
  unfold atomPost tw
  dsimp only
  split <;> rfl

theorem rulePre_tw (s1 : PState) : rulePre (tw fc fp s1) = tw fc fp (rulePre s1) := by
  unfold rulePre tw
  dsimp only
  split <;> rfl

theorem track_tw (s : PState) (a b c d e : Nat) :
    track (tw fc fp s) a b c d e = tw fc fp (track s a b c d e) := by
  unfold track attemptsAt tw
  dsimp only
  repeat' split
  all_goals rfl

theorem rulePai_tw (s1 : PState) : rulePai (tw fc fp s1) = rulePai s1 := rfl

theorem attemptsAt_tw (s : PState) (p : Nat) : attemptsAt (tw fc fp s) p = attemptsAt s p := rfl

theorem ruleTrack_tw (s1 : PState) (r : Nat) (ns : PState) :
    ruleTrack (tw fc fp s1) r (tw fc fp ns) = tw fc fp (ruleTrack s1 r ns) := by
  unfold ruleTrack
  rw [rulePre_tw, attemptsAt_tw, rulePai_tw]
  exact track_tw fc fp ns _ _ _ _ _

theorem ruleTrackIf_tw (s1 : PState) (r : Nat) (ns : PState) :
    ruleTrackIf (tw fc fp s1) r (tw fc fp ns) = tw fc fp (ruleTrackIf s1 r ns) := by
  unfold ruleTrackIf
  rw [ruleTrack_tw]
  show (if ns.lookahead = .negative then _ else _) = _
  split <;> rfl

theorem ruleEmit_tw (s1 : PState) (r : Nat) (ns : PState) :
    ruleEmit (tw fc fp s1) r (tw fc fp ns) = (ruleEmit s1 r ns).map (tw fc fp) := by
  unfold ruleEmit tw
  dsimp only
  repeat' split
  all_goals simp_all

theorem ruleErrTrunc_tw (s1 ns : PState) :
    ruleErrTrunc (tw fc fp s1) (tw fc fp ns) = tw fc fp (ruleErrTrunc s1 ns) := by
  unfold ruleErrTrunc tw
  dsimp only
  split <;> rfl

theorem pushSpan_tw (s1 ns : PState) :
    pushSpan (tw fc fp s1) (tw fc fp ns) = (pushSpan s1 ns).mapState (tw fc fp) := by
  unfold pushSpan tw
  dsimp only
  split <;> rfl

/-! ### the `K`s (all but `ruleK`, which reads `pa`) -/

theorem seqK_tw (s1 : PState) (o : Out) :
    seqK (tw fc fp s1) (o.mapState (tw fc fp)) = (seqK s1 o).mapState (tw fc fp) := by
  cases o with
  | ok ns =>
    show (match checkpointOk (tw fc fp ns) with | some ns => Out.ok ns | none => .panic) = _
    rw [checkpointOk_tw]; unfold seqK; dsimp only
    cases checkpointOk ns <;> rfl
  | err ns =>
    show (match restoreStack (tw fc fp (seqErrState s1 ns)) with
      | some ns => Out.err ns | none => .panic) = _
    rw [restoreStack_tw]; unfold seqK; dsimp only
    cases restoreStack (seqErrState s1 ns) <;> rfl
  | panic => rfl
  | fuel => rfl

theorem roeK_tw (s1 : PState) (o : Out) :
    roeK (tw fc fp s1) (o.mapState (tw fc fp)) = (roeK s1 o).mapState (tw fc fp) := by
  cases o with
  | ok ns =>
    show (match checkpointOk (tw fc fp ns) with | some ns => Out.ok ns | none => .panic) = _
    rw [checkpointOk_tw]; unfold roeK; dsimp only
    cases checkpointOk ns <;> rfl
  | err ns =>
    show (match restoreStack (tw fc fp ns) with | some ns => Out.err ns | none => .panic) = _
    rw [restoreStack_tw]; unfold roeK; dsimp only
    cases restoreStack ns <;> rfl
  | panic => rfl
  | fuel => rfl

theorem optK_tw (s1 : PState) (o : Out) :
    optK (tw fc fp s1) (o.mapState (tw fc fp)) = (optK s1 o).mapState (tw fc fp) := by
  cases o <;> rfl

theorem idK_tw (s1 : PState) (o : Out) :
    idK (tw fc fp s1) (o.mapState (tw fc fp)) = (idK s1 o).mapState (tw fc fp) := rfl

theorem laK_tw (positive : Bool) (s1 : PState) (o : Out) :
    laK positive (tw fc fp s1) (o.mapState (tw fc fp)) = (laK positive s1 o).mapState (tw fc fp) := by
  cases o with
  | ok ns =>
    show (match laPost (tw fc fp s1) (tw fc fp ns) with
      | some ns => if positive then Out.ok ns else .err ns | none => .panic) = _
    rw [laPost_tw]; unfold laK; dsimp only
    cases laPost s1 ns <;> cases positive <;> rfl
  | err ns =>
    show (match laPost (tw fc fp s1) (tw fc fp ns) with
      | some ns => if positive then Out.err ns else .ok ns | none => .panic) = _
    rw [laPost_tw]; unfold laK; dsimp only
    cases laPost s1 ns <;> cases positive <;> rfl
  | panic => rfl
  | fuel => rfl

theorem atomK_tw (a : Atomicity) (s1 : PState) (o : Out) :
    atomK a (tw fc fp s1) (o.mapState (tw fc fp)) = (atomK a s1 o).mapState (tw fc fp) := by
  cases o with
  | ok ns => show Out.ok (atomPost a (tw fc fp s1) (tw fc fp ns)) = _; rw [atomPost_tw]; rfl
  | err ns => show Out.err (atomPost a (tw fc fp s1) (tw fc fp ns)) = _; rw [atomPost_tw]; rfl
  | panic => rfl
  | fuel => rfl

theorem pushK_tw (s1 : PState) (o : Out) :
    pushK (tw fc fp s1) (o.mapState (tw fc fp)) = (pushK s1 o).mapState (tw fc fp) := by
  cases o with
  | ok ns => exact pushSpan_tw fc fp s1 ns
  | err ns => rfl
  | panic => rfl
  | fuel => rfl

/-! ### leaves that read neither component -/

theorem leaf_tw (cfg : Cfg) (fuel : Nat) (p : Prog) (s : PState)
    (hp : match p with
      | .skipUntil _ | .startOfInput | .endOfInput | .stackMatchPeek | .stackMatchPop | .stackDrop
      | .stackMatchPeekSlice _ _ _ | .stackPushLiteral _ | .tagNode _ | .ok | .fail => True
      | _ => False) :
    run cfg (fuel+1) p (tw fc fp s) = (run cfg (fuel+1) p s).mapState (tw fc fp) := by
  cases p <;> simp only [] at hp <;> rw [run, run] <;> unfold tw <;> (try dsimp only)
  all_goals (repeat' split)
  all_goals first
    | rfl
    | simp_all

end
end PestModel.PS
