/-
L0/L3 — text positions, line/column arithmetic, spans, line iteration and error rendering:
`pest/src/position.rs` (`line_col`, `line_of`, `find_line_start/end`, `skip_back`),
`pest/src/span.rs` (`Span::new`, `LinesSpan`), `pest/src/iterators/line_index.rs`,
`pest/src/error.rs` (`new_from_pos`, `new_from_span`, `spacing`, `underline`, `format`,
`visualize_whitespace`).

An input is a `List Char`; a position is a *byte* offset.  Every Rust panic site of the
modelled code (`usize` underflow, slicing off a boundary, `unreachable!`, vector index) is an
explicit `none`.
-/
namespace PestModel.LineCol

abbrev Str := List Char

def cLen (c : Char) : Nat := c.utf8Size

def bLen : Str → Nat
  | [] => 0
  | c :: cs => cLen c + bLen cs

/-- `s.get(..off)` / `s.get(off..)`: split at a byte offset; `none` unless it is a boundary ≤ len. -/
def splitAt? : Str → Nat → Option (Str × Str)
  | s, 0 => some ([], s)
  | [], _ + 1 => none
  | c :: cs, off + 1 =>
    if cLen c ≤ off + 1 then
      match splitAt? cs (off + 1 - cLen c) with
      | some (a, b) => some (c :: a, b)
      | none => none
    else none

def isBoundary (s : Str) (off : Nat) : Bool := (splitAt? s off).isSome

/-- `&input[a..b]` (panics = `none` unless `a ≤ b` and both are boundaries). -/
def slice? (s : Str) (a b : Nat) : Option Str :=
  if b < a then none else
  match splitAt? s a with
  | none => none
  | some (_, rest) =>
    match splitAt? rest (b - a) with
    | none => none
    | some (mid, _) => some mid

/-! ### `Position::line_col` — the loop as written, with its `pos` counter -/

/-- The `while pos != 0` loop over `slice.chars().peekable()`. -/
def lineColLoop : Nat → Str → Nat × Nat → Option (Nat × Nat)
  | 0, _, lc => some lc
  | _ + 1, [], _ => none                                  -- `None => unreachable!()`
  | pos + 1, c :: rest, (l, col) =>
    if c = '\r' then
      match h : rest with
      | '\n' :: rest' =>
        -- `if pos == 1 { pos -= 1 } else { pos -= 2 }`
        if pos + 1 = 1 then lineColLoop 0 rest' (l + 1, 1)
        else lineColLoop (pos + 1 - 2) rest' (l + 1, 1)
      | _ => lineColLoop pos rest (l, col + 1)
    else if c = '\n' then lineColLoop pos rest (l + 1, 1)
    else
      if pos + 1 < cLen c then none                        -- `pos -= c.len_utf8()` underflow
      else lineColLoop (pos + 1 - cLen c) rest (l, col + 1)
  termination_by _ s _ => s.length
  decreasing_by all_goals (simp_wf; (try subst h); (try simp); (try omega))


/-- `Position::line_col` for a position `off` in `s`. -/
def lineCol (s : Str) (off : Nat) : Option (Nat × Nat) :=
  match splitAt? s off with               -- `&self.input[..pos]` (also covers `pos > len`)
  | none => none
  | some (pre, _) => lineColLoop off pre (1, 1)

/-- Specification: 1 + number of `'\n'` before `off`; 1 + number of chars after the last one. -/
def lineColSpecChars (pre : Str) : Nat × Nat :=
  (1 + pre.count '\n', 1 + (pre.reverse.takeWhile (· ≠ '\n')).length)

def lineColSpec (s : Str) (off : Nat) : Option (Nat × Nat) :=
  (splitAt? s off).map fun (pre, _) => lineColSpecChars pre

/-! ### `LineIndex` -/

/-- `LineIndex::new`: byte offsets of line starts. -/
def lineOffsetsGo : Str → Nat → List Nat
  | [], _ => []
  | c :: cs, off =>
    let off' := off + cLen c
    if c = '\n' then off' :: lineOffsetsGo cs off' else lineOffsetsGo cs off'

def lineOffsets (text : Str) : List Nat := 0 :: lineOffsetsGo text 0

/-- `partition_point(|&it| it <= pos)` on a sorted vector = number of leading elements `≤ pos`
(the binary search is std's; its contract on partitioned slices is this count). -/
def partitionPoint (xs : List Nat) (pos : Nat) : Nat := (xs.takeWhile (· ≤ pos)).length

/-- `LineIndex::line_col(input, pos)`, index built from `text`. -/
def lineIndexLineCol (offsets : List Nat) (input : Str) (pos : Nat) : Option (Nat × Nat) :=
  let pp := partitionPoint offsets pos
  if pp = 0 then none else                                  -- `partition_point(..) - 1`
  let line := pp - 1
  match offsets[line]? with
  | none => none
  | some first =>
    match slice? input first pos with                       -- `&input[first_offset..pos]`
    | none => none
    | some lineStr => some (line + 1, lineStr.length + 1)

/-! ### `line_of`, `find_line_start`, `find_line_end` -/

/-- `(byte index, char)` pairs, as `char_indices()`. -/
def charIndices : Str → Nat → List (Nat × Char)
  | [], _ => []
  | c :: cs, i => (i, c) :: charIndices cs (i + cLen c)

def findLineStart (s : Str) (pos : Nat) : Nat :=
  if s.isEmpty then 0 else
  match ((charIndices s 0).reverse.dropWhile (fun p => p.1 ≥ pos)).find? (fun p => p.2 = '\n') with
  | some (i, _) => i + 1
  | none => 0

def findLineEnd (s : Str) (pos : Nat) : Nat :=
  if s.isEmpty then 0
  else if pos = bLen s - 1 then bLen s       -- bLen s ≥ 1 here, no underflow
  else
    match ((charIndices s 0).dropWhile (fun p => p.1 < pos)).find? (fun p => p.2 = '\n') with
    | some (i, _) => i + 1
    | none => bLen s

def lineOf (s : Str) (pos : Nat) : Option Str :=
  if pos > bLen s then none else slice? s (findLineStart s pos) (findLineEnd s pos)

/-! ### Spans and `LinesSpan` -/

/-- `Span::new` succeeds iff `input.get(start..end)` does. -/
def spanNew (s : Str) (a b : Nat) : Bool := (slice? s a b).isSome

/-- `Span::get(x..y)` of the span `[a, b)` of `s`: the sub-range is taken in the span's OWN text (`self.as_str().get(x..y)`),
the result has offsets `a + x`, `a + y` in `s`. -/
def spanGet (s : Str) (a b x y : Nat) : Option (Nat × Nat) :=
  match slice? s a b with
  | some own => if spanNew own x y then some (a + x, a + y) else none
  | none => none


/-- `LinesSpan::next` iterated (fuel = input length + 1: every step moves `pos` forward). -/
def linesSpanGo (s : Str) (spanEnd : Nat) : Nat → Nat → List (Nat × Nat)
  | 0, _ => []
  | fuel + 1, pos =>
    if pos > spanEnd then [] else
    if !isBoundary s pos then [] else                 -- `Position::new(..)?`
    if pos = bLen s then [] else                      -- `at_end()`
    let ls := findLineStart s pos
    let le := findLineEnd s pos
    if spanNew s ls le then (ls, le) :: linesSpanGo s spanEnd fuel le else []

def linesSpan (s : Str) (a b : Nat) : List (Nat × Nat) := linesSpanGo s b (bLen s + 1) a

/-! ### Error construction and rendering -/

def visualizeWs (l : Str) : Str :=
  l.map fun c => if c = '\r' then '␍' else if c = '\n' then '␊' else c

def stripCrLf (l : Str) : Str := l.filter fun c => c ≠ '\r' ∧ c ≠ '\n'

inductive LCLoc where
  | pos (lc : Nat × Nat)
  | span (s e : Nat × Nat)
  deriving Repr, DecidableEq

structure Err where
  lineCol : LCLoc
  line : Str
  continued : Option Str
  message : Str
  deriving Repr

/-- first char at byte `pos` (`self.input[self.pos..].chars().next()`), `none` = panic. -/
def charAt? (s : Str) (pos : Nat) : Option (Option Char) :=
  (splitAt? s pos).map fun (_, rest) => rest.head?

/-- `Error::new_from_pos` (custom message). -/
def newFromPos (s : Str) (pos : Nat) (msg : Str) : Option Err := do
  let c ← charAt? s pos
  let vis := c = some '\n' || c = some '\r'
  let lo ← lineOf s pos
  let lc ← lineCol s pos
  pure { lineCol := .pos lc, line := if vis then visualizeWs lo else stripCrLf lo,
         continued := none, message := msg }

/-- `skip_back(1)`: previous boundary, or unchanged when at the start. -/
def skipBack1 (s : Str) (pos : Nat) : Option Nat :=
  match splitAt? s pos with
  | none => none
  | some (pre, _) =>
    match pre.getLast? with
    | none => some pos
    | some c => if pos < cLen c then none else some (pos - cLen c)

/-- `Error::new_from_span` (custom message). -/
def newFromSpan (s : Str) (a b : Nat) (msg : Str) : Option Err := do
  let endLc ← lineCol s b
  let endLc ← if endLc.2 = 1 then do
      let ve ← skipBack1 s b
      let lc ← lineCol s ve
      pure (lc.1, lc.2 + 1)
    else pure endLc
  let lines := linesSpan s a b
  let lineStrs ← lines.mapM fun (x, y) => slice? s x y
  let sl := lineStrs.head?.getD []
  let str ← slice? s a b
  let isNl := fun (c : Option Char) => c = some '\n' || c = some '\r'
  -- `chars.next()` then `chars.last()` of the remaining iterator
  let vis := isNl str.head? || isNl str.tail.getLast?
  let startLine := if vis then visualizeWs sl else stripCrLf sl
  let ll := lineStrs.tail.getLast?
  let continued := if vis then ll else ll.map visualizeWs
  let startLc ← lineCol s a
  pure { lineCol := .span startLc endLc, line := startLine, continued := continued, message := msg }

def Err.start (e : Err) : Nat × Nat :=
  match e.lineCol with
  | .pos lc => lc
  | .span s _ => s

def natStr (n : Nat) : Str := (toString n).toList

def Err.spacing (e : Err) : Str :=
  let line := match e.lineCol with
    | .pos (l, _) => l
    | .span (sl, _) (el, _) => max sl el
  List.replicate (natStr line).length ' '

/-- `Error::underline`; `none` where a `usize` subtraction would underflow. -/
def Err.underline (e : Err) : Option Str :=
  let start0 := e.start.2
  let r : Option (Nat × Option Nat) :=
    match e.lineCol with
    | .span _ (_, end0) =>
      if start0 > end0 then
        -- swap; `start -= 1; end += 1`
        if end0 = 0 then none else some (end0 - 1, some (start0 + 1))
      else some (start0, some end0)
    | .pos _ => some (start0, none)
  match r with
  | none => none
  | some (start, endO) =>
    if start = 0 then none else                              -- `start - 1`
    let offset := start - 1
    let shown := (e.line.take offset).map fun c => if c = '\t' then '\t' else ' '
    -- `for _ in padded..offset { underline.push(' ') }`
    let pre := shown ++ List.replicate (offset - shown.length) ' '
    match endO with
    | some en =>
      if en < start then none else                           -- `end - start`
      if en - start > 1 then
        some (pre ++ ['^'] ++ List.replicate (en - start - 2) '-' ++ ['^'])
      else some (pre ++ ['^'])
    | none => some (pre ++ "^---".toList)

def padLeft (w : Nat) (t : Str) : Str := List.replicate (w - t.length) ' ' ++ t

/-- `Error::format` (no path). -/
def Err.format (e : Err) : Option Str := do
  let s := e.spacing
  let w := s.length
  let u ← e.underline
  let (ls, c) := e.start
  match e.lineCol, e.continued with
  | .span _ en, some cont =>
    if en.1 < ls then none else                              -- `end.0 - self.start().0`
    let gap := en.1 - ls > 1
    let head := s ++ "--> ".toList ++ natStr ls ++ [':'] ++ natStr c ++ ['\n'] ++
      s ++ " |\n".toList ++
      padLeft w (natStr ls) ++ " | ".toList ++ e.line ++ ['\n']
    let mid := if gap then s ++ " | ...\n".toList else []
    pure (head ++ mid ++
      padLeft w (natStr en.1) ++ " | ".toList ++ cont ++ ['\n'] ++
      s ++ " | ".toList ++ u ++ ['\n'] ++
      s ++ " |\n".toList ++
      s ++ " = ".toList ++ e.message)
  | _, _ =>
    pure (s ++ "--> ".toList ++ natStr ls ++ [':'] ++ natStr c ++ ['\n'] ++
      s ++ " |\n".toList ++
      natStr ls ++ " | ".toList ++ e.line ++ ['\n'] ++
      s ++ " | ".toList ++ u ++ ['\n'] ++
      s ++ " |\n".toList ++
      s ++ " = ".toList ++ e.message)

end PestModel.LineCol
