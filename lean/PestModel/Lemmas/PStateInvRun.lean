import PestModel.Lemmas.PStateInvRunEq
/-! The main invariant: every completed `run` relates its start and end state by `Rel`. -/
namespace PestModel.PS
open PestModel.LineCol PestModel.Stack

@[simp] theorem state?_ok (s : PState) : (Out.ok s).state? = some s := rfl
@[simp] theorem state?_err (s : PState) : (Out.err s).state? = some s := rfl
@[simp] theorem state?_panic : Out.panic.state? = none := rfl
@[simp] theorem state?_fuel : Out.fuel.state? = none := rfl

abbrev IH (cfg : Cfg) (fuel : Nat) : Prop :=
  ∀ p s s', (run cfg fuel p s).state? = some s' → Rel s s'

theorem IH.ok {cfg fuel} (ih : IH cfg fuel) {p s s'} (h : run cfg fuel p s = .ok s') : Rel s s' :=
  ih p s s' (by rw [h]; rfl)
theorem IH.err {cfg fuel} (ih : IH cfg fuel) {p s s'} (h : run cfg fuel p s = .err s') : Rel s s' :=
  ih p s s' (by rw [h]; rfl)

/-! ### leaves -/

theorem terminal_rel (s s' : PState) (r : Option (Bool × Nat)) (tok : Option PTok)
    (hg : PosGood s.input s.pos r) (h : (terminal s r tok).state? = some s') : Rel s s' := by
  unfold terminal at h
  split at h
  · simp at h
  · rename_i succ pos'
    obtain ⟨hle, hb⟩ := hg succ pos' rfl
    have key : ∃ pa', s' = { s with pos := pos', pa := pa' } ∧ pa'.enabled = s.pa.enabled := by
      cases tok with
      | none =>
        simp only [] at h
        split at h <;> (simp at h; subst h; exact ⟨s.pa, rfl, rfl⟩)
      | some t =>
        obtain ⟨pa', he, hen⟩ := handleToken_eq { s with pos := pos' } s.pos t succ
        simp only [] at h
        rw [he] at h
        split at h <;> (simp at h; subst h; exact ⟨pa', rfl, hen⟩)
    obtain ⟨pa', rfl, hen⟩ := key
    exact ⟨rfl, rfl, rfl, hen, hle, QLe.refl _, fun _ => rfl, fun _ => hb, fun h => ⟨h, rfl⟩⟩

theorem matchAll_good' (input : Str) (xs : List Str) (pos : Nat) (b : Bool) (pos' : Nat)
    (h : matchAll input xs pos = some (b, pos')) :
    pos ≤ pos' ∧ (isBoundary input pos = true → isBoundary input pos' = true) := by
  induction xs generalizing pos with
  | nil =>
    simp [matchAll] at h; obtain ⟨-, rfl⟩ := h
    exact ⟨Nat.le_refl _, id⟩
  | cons x xs ih =>
    unfold matchAll at h
    split at h
    · simp at h
    · rename_i p1 hm
      have h1 := posMatchString_good input pos x _ _ hm
      have h2 := ih p1 h
      exact ⟨by omega, fun _ => h2.2 h1.2⟩
    · simp at h; obtain ⟨-, rfl⟩ := h
      exact ⟨Nat.le_refl _, id⟩

theorem matchPopLoop_spec (input : Str) (n : Nat) (st : Stk Str) (pos : Nat) (st' : Stk Str) (b : Bool)
    (pos' : Nat) (h : matchPopLoop input n st pos = some (st', b, pos')) :
    pos ≤ pos' ∧ (isBoundary input pos = true → isBoundary input pos' = true) ∧
    (StkInv st → StkInv st' ∧ (abs st').saved = (abs st).saved) := by
  induction n generalizing st pos with
  | zero =>
    simp [matchPopLoop] at h; obtain ⟨rfl, -, rfl⟩ := h
    exact ⟨Nat.le_refl _, id, fun h => ⟨h, rfl⟩⟩
  | succ n ih =>
    unfold matchPopLoop at h
    split at h
    · simp at h
    · rename_i st1 hp
      simp at h; obtain ⟨rfl, -, rfl⟩ := h
      exact ⟨Nat.le_refl _, id, fun h => by
        obtain ⟨a, -, -, d⟩ := pop_spec _ _ _ h hp; exact ⟨a, d⟩⟩
    · rename_i st1 x hp
      have hst : StkInv st → StkInv st1 ∧ (abs st1).saved = (abs st).saved := fun h => by
        obtain ⟨a, -, -, d⟩ := pop_spec _ _ _ h hp; exact ⟨a, d⟩
      split at h
      · simp at h
      · rename_i p1 hm
        have h1 := posMatchString_good input pos x _ _ hm
        obtain ⟨i1, i2, i3⟩ := ih st1 p1 h
        exact ⟨by omega, fun _ => i2 h1.2, fun h0 => by
          obtain ⟨a, d⟩ := hst h0
          obtain ⟨a', d'⟩ := i3 a
          exact ⟨a', d'.trans d⟩⟩
      · simp at h; obtain ⟨rfl, -, rfl⟩ := h
        exact ⟨Nat.le_refl _, id, hst⟩

/-- a state differing from `s` only in position (moved forward to a boundary). -/
theorem Rel.of_pos (s : PState) (pos' : Nat) (hle : s.pos ≤ pos')
    (hb : isBoundary s.input s.pos = true → isBoundary s.input pos' = true) :
    Rel s { s with pos := pos' } :=
  ⟨rfl, rfl, rfl, rfl, hle, QLe.refl _, fun _ => rfl, hb, fun h => ⟨h, rfl⟩⟩

theorem Rel.of_stack (s : PState) (st : Stk Str)
    (hst : StkInv s.stack → StkInv st ∧ (abs st).saved = (abs s.stack).saved) :
    Rel s { s with stack := st } :=
  ⟨rfl, rfl, rfl, rfl, Nat.le_refl _, QLe.refl _, fun _ => rfl, id, hst⟩

section cases
variable (cfg : Cfg) (fuel : Nat)

theorem rel_matchString (str : Str) (s s' : PState)
    (h : (run cfg (fuel+1) (.matchString str) s).state? = some s') : Rel s s' := by
  rw [run] at h; exact terminal_rel _ _ _ _ (posMatchString_good _ _ _) h

theorem rel_matchInsensitive (str : Str) (s s' : PState)
    (h : (run cfg (fuel+1) (.matchInsensitive str) s).state? = some s') : Rel s s' := by
  rw [run] at h; exact terminal_rel _ _ _ _ (posMatchInsensitive_good _ _ _) h

theorem rel_matchRange (a b : Char) (s s' : PState)
    (h : (run cfg (fuel+1) (.matchRange a b) s).state? = some s') : Rel s s' := by
  rw [run] at h; exact terminal_rel _ _ _ _ (posMatchRange_good _ _ _ _) h

theorem rel_matchCharBy (cs : CharSet) (s s' : PState)
    (h : (run cfg (fuel+1) (.matchCharBy cs) s).state? = some s') : Rel s s' := by
  rw [run] at h; exact terminal_rel _ _ _ _ (posMatchCharBy_good _ _ _) h

theorem rel_skip (n : Nat) (s s' : PState)
    (h : (run cfg (fuel+1) (.skip n) s).state? = some s') : Rel s s' := by
  rw [run] at h; exact terminal_rel _ _ _ _ (posSkip_good _ _ _) h

theorem rel_skipUntil (strs : List Str) (s s' : PState)
    (h : (run cfg (fuel+1) (.skipUntil strs) s).state? = some s') : Rel s s' := by
  rw [run] at h
  split at h
  · rename_i pos' hp
    simp at h; subst h
    obtain ⟨h1, h2⟩ := posSkipUntil_good _ _ _ _ _ hp
    exact Rel.of_pos s pos' h1 (fun _ => h2)
  · simp at h

theorem rel_startOfInput (s s' : PState)
    (h : (run cfg (fuel+1) .startOfInput s).state? = some s') : Rel s s' := by
  rw [run] at h
  split at h <;> (simp at h; subst h; exact Rel.refl _)

theorem rel_endOfInput (s s' : PState)
    (h : (run cfg (fuel+1) .endOfInput s).state? = some s') : Rel s s' := by
  rw [run] at h
  split at h <;> (simp at h; subst h; exact Rel.refl _)

theorem rel_stackPeek (s s' : PState)
    (h : (run cfg (fuel+1) .stackPeek s).state? = some s') : Rel s s' := by
  rw [run] at h
  split at h
  · simp [Out.state?] at h; subst h; exact Rel.refl _
  split at h
  · simp at h
  · exact terminal_rel _ _ _ _ (posMatchString_good _ _ _) h

theorem rel_stackPop (s s' : PState)
    (h : (run cfg (fuel+1) .stackPop s).state? = some s') : Rel s s' := by
  rw [run] at h
  split at h
  · simp [Out.state?] at h; subst h; exact Rel.refl _
  split at h
  · simp at h
  · simp at h
  · rename_i st str hp
    simp only [] at h
    refine (Rel.of_stack s st fun h0 => ?_).trans (terminal_rel { s with stack := st } _ _ _
      (posMatchString_good _ _ _) h)
    obtain ⟨a, -, -, d⟩ := pop_spec _ _ _ h0 hp
    exact ⟨a, d⟩

theorem rel_stackMatchPeek (s s' : PState)
    (h : (run cfg (fuel+1) .stackMatchPeek s).state? = some s') : Rel s s' := by
  rw [run] at h
  split at h
  · simp at h; subst h; exact Rel.refl _
  · split at h
    · simp at h
    · rename_i pos' hm
      simp at h; subst h
      obtain ⟨h1, h2⟩ := matchAll_good' _ _ _ _ _ hm
      exact Rel.of_pos s pos' h1 h2
    · simp at h; subst h; exact Rel.refl _

theorem rel_stackMatchPeekSlice (start : Int) (stop : Option Int) (dir : MatchDir) (s s' : PState)
    (h : (run cfg (fuel+1) (.stackMatchPeekSlice start stop dir) s).state? = some s') : Rel s s' := by
  rw [run] at h
  split at h
  · simp at h; subst h; exact Rel.refl _
  · split at h
    · simp at h; subst h; exact Rel.refl _
    · simp only [] at h
      split at h
      · simp at h
      · rename_i pos' hm
        simp at h; subst h
        obtain ⟨h1, h2⟩ := matchAll_good' _ _ _ _ _ hm
        exact Rel.of_pos s pos' h1 h2
      · simp at h; subst h; exact Rel.refl _

theorem rel_stackMatchPop (s s' : PState)
    (h : (run cfg (fuel+1) .stackMatchPop s).state? = some s') : Rel s s' := by
  rw [run] at h
  split at h
  · simp at h
  · rename_i st pos' hm
    simp at h; subst h
    obtain ⟨h1, h2, h3⟩ := matchPopLoop_spec _ _ _ _ _ _ _ hm
    exact ⟨rfl, rfl, rfl, rfl, h1, QLe.refl _, fun _ => rfl, h2, h3⟩
  · rename_i st pos' hm
    simp at h; subst h
    obtain ⟨h1, h2, h3⟩ := matchPopLoop_spec _ _ _ _ _ _ _ hm
    exact Rel.of_stack s st h3

theorem rel_stackDrop (s s' : PState)
    (h : (run cfg (fuel+1) .stackDrop s).state? = some s') : Rel s s' := by
  rw [run] at h
  split at h
  · simp at h
  · rename_i st x hp
    simp at h; subst h
    exact Rel.of_stack s st fun h0 => by
      obtain ⟨a, -, -, d⟩ := pop_spec _ _ _ h0 hp; exact ⟨a, d⟩
  · simp at h; subst h; exact Rel.refl _

theorem rel_stackPushLiteral (str : Str) (s s' : PState)
    (h : (run cfg (fuel+1) (.stackPushLiteral str) s).state? = some s') : Rel s s' := by
  rw [run] at h
  simp at h; subst h
  exact Rel.of_stack s _ (push_spec s.stack str)

theorem rel_tagNode (tag : Str) (s s' : PState)
    (h : (run cfg (fuel+1) (.tagNode tag) s).state? = some s') : Rel s s' := by
  rw [run] at h
  split at h
  · simp at h; subst h; exact Rel.refl _
  · rename_i hla
    split at h
    · rename_i si r t p hl
      simp at h; subst h
      exact ⟨rfl, rfl, rfl, rfl, Nat.le_refl _, QLe.tag hl, fun hn => absurd hn hla, id,
        fun h => ⟨h, rfl⟩⟩
    · simp at h; subst h; exact Rel.refl _

theorem rel_ok (s s' : PState) (h : (run cfg (fuel+1) .ok s).state? = some s') : Rel s s' := by
  rw [run] at h; simp at h; subst h; exact Rel.refl _

theorem rel_fail (s s' : PState) (h : (run cfg (fuel+1) .fail s).state? = some s') : Rel s s' := by
  rw [run] at h; simp at h; subst h; exact Rel.refl _

/-! ### combinators -/

variable (ih : IH cfg fuel)
include ih

theorem rel_call (i : Nat) (s s' : PState)
    (h : (run cfg (fuel+1) (.call i) s).state? = some s') : Rel s s' := by
  rw [run_call] at h
  split at h
  · exact ih _ _ _ h
  · simp at h

theorem rel_andThen (p q : Prog) (s s' : PState)
    (h : (run cfg (fuel+1) (.andThen p q) s).state? = some s') : Rel s s' := by
  rw [run_andThen] at h
  split at h
  · rename_i s1 h1
    exact (ih.ok h1).trans (ih _ _ _ h)
  · rename_i o hno
    cases ho : run cfg fuel p s with
    | ok s1 => exact absurd ho (hno s1)
    | err s1 => rw [ho] at h; simp at h; subst h; exact ih.err ho
    | panic => rw [ho] at h; simp at h
    | fuel => rw [ho] at h; simp at h

theorem rel_orElse (p q : Prog) (s s' : PState)
    (h : (run cfg (fuel+1) (.orElse p q) s).state? = some s') : Rel s s' := by
  rw [run_orElse] at h
  split at h
  · rename_i s1 h1
    exact (ih.err h1).trans (ih _ _ _ h)
  · rename_i o hno
    cases ho : run cfg fuel p s with
    | ok s1 => rw [ho] at h; simp at h; subst h; exact ih.ok ho
    | err s1 => exact absurd ho (hno s1)
    | panic => rw [ho] at h; simp at h
    | fuel => rw [ho] at h; simp at h

theorem rel_optional (p : Prog) (s s' : PState)
    (h : (run cfg (fuel+1) (.optional p) s).state? = some s') : Rel s s' := by
  rw [run_optional] at h
  split at h
  · simp at h; subst h; exact Rel.refl _
  · rename_i s1 hic
    refine (incCall_rel hic).trans ?_
    split at h
    · rename_i ns hb; simp at h; subst h; exact ih.ok hb
    · rename_i ns hb; simp at h; subst h; exact ih.err hb
    · rename_i o h1 h2
      cases ho : run cfg fuel p s1 with
      | ok ns => exact absurd ho (h1 ns)
      | err ns => exact absurd ho (h2 ns)
      | panic => rw [ho] at h; simp at h
      | fuel => rw [ho] at h; simp at h

theorem rel_repeat (p : Prog) (s s' : PState)
    (h : (run cfg (fuel+1) (.repeat_ p) s).state? = some s') : Rel s s' := by
  rw [run_repeat] at h
  split at h
  · simp at h; subst h; exact Rel.refl _
  · rename_i s1 hic
    exact (incCall_rel hic).trans (ih _ _ _ h)

theorem rel_repLoop (p : Prog) (s s' : PState)
    (h : (run cfg (fuel+1) (.repLoop p) s).state? = some s') : Rel s s' := by
  rw [run_repLoop] at h
  split at h
  · rename_i s1 hb
    exact (ih.ok hb).trans (ih _ _ _ h)
  · rename_i s1 hb; simp at h; subst h; exact ih.err hb
  · rename_i o h1 h2
    cases ho : run cfg fuel p s with
    | ok ns => exact absurd ho (h1 ns)
    | err ns => exact absurd ho (h2 ns)
    | panic => rw [ho] at h; simp at h
    | fuel => rw [ho] at h; simp at h

theorem rel_sequence (p : Prog) (s s' : PState)
    (h : (run cfg (fuel+1) (.sequence p) s).state? = some s') : Rel s s' := by
  rw [run_sequence] at h
  split at h
  · simp at h; subst h; exact Rel.refl _
  · rename_i s1 hic
    refine (incCall_rel hic).trans ?_
    split at h
    · rename_i ns hb
      have rb := ih.ok hb
      split at h
      · rename_i ns' hck
        simp at h; subst h
        obtain ⟨st, hcl, rfl⟩ := checkpointOk_some hck
        exact ⟨rb.input, rb.la, rb.atom, rb.en, rb.pos, rb.q, rb.qla, rb.bnd, fun h0 => by
          obtain ⟨a, b, -⟩ := bracket_ok h0 rb.stk hcl; exact ⟨a, b⟩⟩
      · simp at h
    · rename_i ns hb
      have rb := ih.err hb
      split at h
      · rename_i ns' hrs
        simp at h; subst h
        obtain ⟨st, hre, rfl⟩ := restoreStack_some hrs
        have hq : setLastTag (ns.queue.take s1.queue.length) (lastTag s1.queue) = s1.queue :=
          setLastTag_restore rb.q
        exact ⟨rb.input, rb.la, rb.atom, rb.en, Nat.le_refl _, QLe.of_eq hq, fun _ => hq, id,
          fun h0 => by obtain ⟨a, b, -⟩ := bracket_restore h0 rb.stk hre; exact ⟨a, b⟩⟩
      · simp at h
    · rename_i o h1 h2
      cases ho : run cfg fuel p (checkpoint s1) with
      | ok ns => exact absurd ho (h1 ns)
      | err ns => exact absurd ho (h2 ns)
      | panic => rw [ho] at h; simp at h
      | fuel => rw [ho] at h; simp at h

theorem rel_restoreOnErr (p : Prog) (s s' : PState)
    (h : (run cfg (fuel+1) (.restoreOnErr p) s).state? = some s') : Rel s s' := by
  rw [run_restoreOnErr] at h
  split at h
  · rename_i ns hb
    have rb := ih.ok hb
    split at h
    · rename_i ns' hck
      simp at h; subst h
      obtain ⟨st, hcl, rfl⟩ := checkpointOk_some hck
      exact ⟨rb.input, rb.la, rb.atom, rb.en, rb.pos, rb.q, rb.qla, rb.bnd, fun h0 => by
        obtain ⟨a, b, -⟩ := bracket_ok h0 rb.stk hcl; exact ⟨a, b⟩⟩
    · simp at h
  · rename_i ns hb
    have rb := ih.err hb
    split at h
    · rename_i ns' hrs
      simp at h; subst h
      obtain ⟨st, hre, rfl⟩ := restoreStack_some hrs
      exact ⟨rb.input, rb.la, rb.atom, rb.en, rb.pos, rb.q, rb.qla, rb.bnd,
        fun h0 => by obtain ⟨a, b, -⟩ := bracket_restore h0 rb.stk hre; exact ⟨a, b⟩⟩
    · simp at h
  · rename_i o h1 h2
    cases ho : run cfg fuel p (checkpoint s) with
    | ok ns => exact absurd ho (h1 ns)
    | err ns => exact absurd ho (h2 ns)
    | panic => rw [ho] at h; simp at h
    | fuel => rw [ho] at h; simp at h

omit ih in
theorem laPost_rel {positive : Bool} {s1 ns ns' : PState}
    (rb : Rel (checkpoint { s1 with lookahead := laMode positive s1.lookahead }) ns)
    (hla : laPost s1 ns = some ns') :
    Rel s1 ns' ∧ ns'.pos = s1.pos ∧ ns'.queue = s1.queue ∧
      (StkInv s1.stack → ns'.stack.cache = s1.stack.cache) := by
  obtain ⟨st, hre, rfl⟩ := restoreStack_some hla
  have hq : ns.queue = s1.queue := rb.qla (laMode_ne_none _ _)
  exact ⟨⟨rb.input, rfl, rb.atom, rb.en, Nat.le_refl _, QLe.of_eq hq, fun _ => hq, id,
    fun h0 => by obtain ⟨a, b, -⟩ := bracket_restore h0 rb.stk hre; exact ⟨a, b⟩⟩, rfl, hq,
    fun h0 => (bracket_restore h0 rb.stk hre).2.2⟩

theorem rel_lookahead (positive : Bool) (p : Prog) (s s' : PState)
    (h : (run cfg (fuel+1) (.lookahead positive p) s).state? = some s') : Rel s s' := by
  rw [run_lookahead] at h
  split at h
  · simp at h; subst h; exact Rel.refl _
  · rename_i s1 hic
    refine (incCall_rel hic).trans ?_
    split at h
    · rename_i ns hb
      have rb := ih.ok hb
      split at h
      · rename_i ns' hla
        have := (laPost_rel rb hla).1
        split at h <;> (simp at h; subst h; exact this)
      · simp at h
    · rename_i ns hb
      have rb := ih.err hb
      split at h
      · rename_i ns' hla
        have := (laPost_rel rb hla).1
        split at h <;> (simp at h; subst h; exact this)
      · simp at h
    · rename_i o h1 h2
      cases ho : run cfg fuel p (checkpoint { s1 with lookahead := laMode positive s1.lookahead }) with
      | ok ns => exact absurd ho (h1 ns)
      | err ns => exact absurd ho (h2 ns)
      | panic => rw [ho] at h; simp at h
      | fuel => rw [ho] at h; simp at h

omit ih in
theorem atomPost_rel {a : Atomicity} {s1 ns : PState} (rb : Rel (atomPre a s1) ns) :
    Rel s1 (atomPost a s1 ns) := by
  unfold atomPre at rb
  unfold atomPost
  by_cases ht : s1.atomicity ≠ a
  · rw [if_pos ht] at rb; rw [if_pos ht]
    exact ⟨rb.input, rb.la, rfl, rb.en, rb.pos, rb.q, rb.qla, rb.bnd, rb.stk⟩
  · rw [if_neg ht] at rb; rw [if_neg ht]; exact rb

theorem rel_atomic (a : Atomicity) (p : Prog) (s s' : PState)
    (h : (run cfg (fuel+1) (.atomic a p) s).state? = some s') : Rel s s' := by
  rw [run_atomic] at h
  split at h
  · simp at h; subst h; exact Rel.refl _
  · rename_i s1 hic
    refine (incCall_rel hic).trans ?_
    split at h
    · rename_i ns hb; simp at h; subst h; exact atomPost_rel (ih.ok hb)
    · rename_i ns hb; simp at h; subst h; exact atomPost_rel (ih.err hb)
    · rename_i o h1 h2
      cases ho : run cfg fuel p (atomPre a s1) with
      | ok ns => exact absurd ho (h1 ns)
      | err ns => exact absurd ho (h2 ns)
      | panic => rw [ho] at h; simp at h
      | fuel => rw [ho] at h; simp at h

omit ih in
theorem pushSpan_rel {s1 ns s' : PState} (h : (pushSpan s1 ns).state? = some s') : Rel ns s' := by
  unfold pushSpan at h
  split at h
  · rename_i str hs
    simp at h; subst h
    exact Rel.of_stack ns _ (push_spec ns.stack str)
  · simp at h

theorem rel_stackPush (p : Prog) (s s' : PState)
    (h : (run cfg (fuel+1) (.stackPush p) s).state? = some s') : Rel s s' := by
  rw [run_stackPush] at h
  split at h
  · simp at h; subst h; exact Rel.refl _
  · rename_i s1 hic
    refine (incCall_rel hic).trans ?_
    split at h
    · rename_i ns hb
      exact (ih.ok hb).trans (pushSpan_rel h)
    · rename_i o h1
      cases ho : run cfg fuel p s1 with
      | ok ns => exact absurd ho (h1 ns)
      | err ns => rw [ho] at h; simp at h; subst h; exact ih.err ho
      | panic => rw [ho] at h; simp at h
      | fuel => rw [ho] at h; simp at h

end cases
end PestModel.PS
