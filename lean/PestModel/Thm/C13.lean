import PestModel.Model.Pratt
/-! # C13 — placeholder until the proofs land. -/
namespace PestModel.C13
open PestModel.Pratt

theorem smoke : shuntingYard (prattTable [[(1, .infix .left)], [(2, .infix .left)]]) [9, 1, 9, 2, 9]
    = some (.inf (.prim 9) 1 (.inf (.prim 9) 2 (.prim 9))) := by decide

end PestModel.C13
