"""C02 — generated parser and interpreting VM agree on every grammar and input."""
from props.vmcommon import *

MODULES = ["PestModel.Thm.C02"]
GEN = "drv_gen"
TAG_ID = "C02-tags-on-optional-or-repetition"


def run(ctx):
    frag, problems = proof_leg(ctx, MODULES)
    allcs, stats, found_input = [], {}, False
    tag_known = next((k for k in load_known() if k.get("id") == TAG_ID and k.get("status") == "known"), None)
    for fs in ("default", "extras"):
        ok, out, bindir, _ = cargo_build(fs, [GEN])
        if not ok:
            ctx.violation({"obligation": f"harness does not build against /repo (features {fs})", "log": out[-3000:]}, no_input=True)
            continue
        drv = os.path.join(bindir, GEN)
        cs = run_corpus_and_gen(ctx, drv, MODE, [("gen-" + fs, ["gen", ctx.tier, str(ctx.seed)])]) if fs == "default" else \
            [correspond("gen-" + fs, drv, ["gen", ctx.tier, str(ctx.seed)], MODE, os.path.join(ctx.rundir, "gen-" + fs))]
        for c in cs:
            allcs.append(c)
            if c.error:
                ctx.violation({"correspondence": c.name, "error": c.error}, no_input=True)
                continue
            stats[c.name] = c.stats
            # tags on an optional / repeated expression: the two back-ends are structured differently (recorded finding)
            if tag_known:
                rest = []
                for t in c.oracle_fail:
                    if "(tag (opt" in t[1] or "(tag (rep" in t[1]:
                        ctx.known_finding(TAG_ID, "with grammar-extras the generated parser and the VM tag different pairs for `#t = e?` / `#t = e*`: r = { #t = a* } on \"aaa\" tags the 2nd and 3rd `a` in the generated parser but only the 3rd in the VM; r = { a ~ #t = \"b\"? } on \"a\" tags `a` in the VM only")
                    else:
                        rest.append(t)
                c.oracle_fail = rest
                c.mismatch = [t for t in c.mismatch if not (("(tag (opt" in t[1] or "(tag (rep" in t[1]) and t[1].startswith("V "))]
            if c.oracle_fail:
                i, op, imp, verdict = min(c.oracle_fail, key=lambda t: (len(t[1]), t[1]))
                ctx.violation({"kind": "the generated parser (its emitted code executed call by call on the real ParserState) and Vm::parse disagree on a grammar and input",
                               "features": fs, "case": op[:6000], "oracle": verdict, "failing_lines_in_run": len(c.oracle_fail)})
                found_input = True
            elif c.mismatch:
                bad = []
                for (i, op, imp, mod) in c.mismatch:
                    sep = " ; " if op.startswith("G ") else " | "
                    a, b = imp.split(sep), mod.split(sep)
                    if len(a) != len(b):
                        bad.append((op[:3000], imp[:400], mod[:400])); continue
                    for j, (x, y) in enumerate(zip(a, b)):
                        if x != y:
                            bad.append((op[:3000] if op.startswith("G ") else split_case(op, j), x[:1500], y[:1500]))
                case, imp, mod = min(bad, key=lambda t: (len(t[0]), t[0]))
                ctx.violation({"kind": "correspondence `G`/`V gen` (code emitted by pest_generator, translated to call trees, vs the Lean transcription of generate_rule/generate_expr/generate_expr_atomic) no longer checks; generated parser and VM still agree on all explored inputs",
                               "features": fs, "case": case, "impl": imp, "model": mod, "mismatches_in_run": len(bad)}, no_input=True)
    if problems and not found_input:
        ctx.violation({"obligation": MODULES, "problems": problems}, no_input=True)
    cov = dict(frag)
    g = stats.get("gen-default", {})
    cov.update({
        "trusted_base": TRUSTED_COMMON + ["the translator harness/src/gencode.rs from the emitted Rust (syn AST) to call trees: it accepts only the generator's sub-language and fails loudly otherwise; the emitted code is executed by interpreting those call trees on the real pest::ParserState, not by rustc"],
        "evaluations": sum(s.get("evaluations", 0) for s in stats.values()),
        "distinct_nontrivial": sum(s.get("distinct_nontrivial", 0) for s in stats.values()),
        "rule": "for seeded random guarded grammars (WHITESPACE/COMMENT of every modifier, user rules named like non-keyword built-ins, stack operations, built-ins; with grammar-extras also e+, PUSH_LITERAL) pest_generator::generator::generate is run on optimize(rules); (a) every emitted rule function, translated to a call tree, must equal the Lean transcription genRuleSym AS A TREE; (b) the emitted functions are executed on the real ParserState for 2 start rules x ALL inputs up to 3/5 characters and compared with the Lean gen-lowering on the model state and (c) with Vm::parse (pairs; error position and expected/unexpected sets); non-trivial = results that are successes with pairs or errors reporting rules",
        "traces_validated_against_impl": sum(s.get("evaluations", 0) for s in stats.values()),
        "samples": [x[:300] for x in g.get("samples", [])][:3],
        "distribution": {k: {kk: vv for kk, vv in v.items() if kk != "samples"} for k, v in stats.items()},
        "mismatching_lines": sum(len(c.mismatch) for c in allcs), "oracle_failures": sum(len(c.oracle_fail) for c in allcs),
    })
    ctx.evidence(level_of(ctx.prop), cov, [
        "rustc is not in the loop for the generated code (no network, compile time): the emitted token stream is parsed with syn and interpreted; a change of generated code outside the recognised sub-language is reported as a violation (no-failing-input-found) rather than ignored",
        "Unicode property built-ins are covered by C16; tags on optional/repeated rule references are generated (grammar-extras build) and their disagreement is the recorded finding",
    ])


def replay(ctx, path):
    r = json.load(open(path))
    return replay_generic(ctx, path, GEN, MODE, featureset=("extras" if r.get("features") == "extras" else "default"))
