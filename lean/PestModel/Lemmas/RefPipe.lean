import PestModel.Lemmas.RefSim
/-! C05 helper lemmas, part 11: the pipeline (without `list`). -/
namespace PestModel.Ref
open PestModel.G
open PestModel.LineCol (Str bLen cLen splitAt?)
open PestModel.Views (Tree)
open PestModel.PS (Atomicity CharSet restAt asciiLower eqIgnoreAsciiCase normalizeIndex)

/-! ### erasure of `RestoreOnErr`, `toOptimized` -/

theorem ofOptimized_wrapBranching (extras : Bool) (rules : List ORule) (x : OExpr) :
    ofOptimized (wrapBranching extras rules x) = ofOptimized x := by
  cases x <;> simp only [wrapBranching] <;> try rfl
  case choice a b => split <;> split <;> rfl
  case opt e => split <;> rfl
  case rep e => split <;> rfl

theorem ofOptimized_omapBottomUp (extras : Bool) (f : OExpr → OExpr) (hf : ∀ x, ofOptimized (f x) = ofOptimized x)
    (o : OExpr) : ofOptimized (omapBottomUp extras f o) = ofOptimized o := by
  induction o <;> simp only [omapBottomUp] <;> try (rw [hf])
  case posPred e ih => simp only [ofOptimized, ih]
  case negPred e ih => simp only [ofOptimized, ih]
  case seq a b iha ihb => simp only [ofOptimized, iha, ihb]
  case choice a b iha ihb => simp only [ofOptimized, iha, ihb]
  case opt e ih => simp only [ofOptimized, ih]
  case rep e ih => simp only [ofOptimized, ih]
  case push e ih => simp only [ofOptimized, ih]
  case repOnce e ih => split <;> rw [hf] <;> simp only [ofOptimized, ih]
  case nodeTag e t ih => split <;> rw [hf] <;> simp only [ofOptimized, ih]

theorem ofOptimized_toOptimized (extras : Bool) (e : Expr) (o : OExpr) (h : toOptimized extras e = some o) :
    ofOptimized o = e := by
  induction e generalizing o <;> simp only [toOptimized, Option.some.injEq, Option.map_eq_some_iff,
    Option.bind_eq_some_iff] at h
  case str s => subst h; rfl
  case insens s => subst h; rfl
  case range a b => subst h; rfl
  case ident n => subst h; rfl
  case peekSlice a b => subst h; rfl
  case skip ss => subst h; rfl
  case pushLiteral s => subst h; rfl
  case posPred e ih => obtain ⟨o1, h1, rfl⟩ := h; simp only [ofOptimized, ih _ h1]
  case negPred e ih => obtain ⟨o1, h1, rfl⟩ := h; simp only [ofOptimized, ih _ h1]
  case seq a b iha ihb => obtain ⟨o1, h1, o2, h2, rfl⟩ := h; simp only [ofOptimized, iha _ h1, ihb _ h2]
  case choice a b iha ihb => obtain ⟨o1, h1, o2, h2, rfl⟩ := h; simp only [ofOptimized, iha _ h1, ihb _ h2]
  case opt e ih => obtain ⟨o1, h1, rfl⟩ := h; simp only [ofOptimized, ih _ h1]
  case rep e ih => obtain ⟨o1, h1, rfl⟩ := h; simp only [ofOptimized, ih _ h1]
  case push e ih => obtain ⟨o1, h1, rfl⟩ := h; simp only [ofOptimized, ih _ h1]
  case nodeTag e t ih => obtain ⟨o1, h1, rfl⟩ := h; simp only [ofOptimized, ih _ h1]
  case repOnce e ih =>
    split at h
    · simp only [Option.map_eq_some_iff] at h
      obtain ⟨o1, h1, rfl⟩ := h; simp only [ofOptimized, ih _ h1]
    · simp at h
  all_goals simp at h

/-! ### the passes are the identity on the expressions that `populate_choices` inlines -/

inductive LitChoice : Expr → Prop
  | str (s : Str) : LitChoice (.str s)
  | ident (n : String) : LitChoice (.ident n)
  | choiceStr (s : Str) {rhs : Expr} : LitChoice rhs → LitChoice (.choice (.str s) rhs)
  | choiceIdent (n : String) {rhs : Expr} : LitChoice rhs → LitChoice (.choice (.ident n) rhs)

theorem litChoice_of_populate (rules : List Rule) : ∀ fuel e ch res, populateChoices rules fuel e ch = some res →
    LitChoice e := by
  intro fuel
  induction fuel with
  | zero => intro e ch res h; simp [populateChoices] at h
  | succ fuel ih =>
    intro e ch res h
    rw [populateChoices.eq_def] at h
    simp only at h
    split at h
    · exact .choiceStr _ (ih _ _ _ h)
    · split at h
      · exact .choiceIdent _ (ih _ _ _ h)
      · simp at h
    · simp at h
    · exact .str _
    · exact .ident _
    · simp at h

theorem mapTopDown_litChoice (f : Expr → Expr) (hf : ∀ x, LitChoice x → f x = x) {e : Expr} (he : LitChoice e) :
    ∀ n, mapTopDown f n e = e := by
  induction he with
  | str s => intro n; cases n <;> simp [mapTopDown, hf _ (.str s)]
  | ident nm => intro n; cases n <;> simp [mapTopDown, hf _ (.ident nm)]
  | choiceStr s hr ih =>
    intro n
    cases n with
    | zero => rfl
    | succ n =>
      rw [mapTopDown, hf _ (.choiceStr s hr)]
      simp only [ih n]
      cases n <;> simp [mapTopDown, hf _ (.str s)]
  | choiceIdent nm hr ih =>
    intro n
    cases n with
    | zero => rfl
    | succ n =>
      rw [mapTopDown, hf _ (.choiceIdent nm hr)]
      simp only [ih n]
      cases n <;> simp [mapTopDown, hf _ (.ident nm)]

theorem rotateInternal_litChoice {x : Expr} (hx : LitChoice x) (n : Nat) : rotateInternal n x = x := by
  cases n with
  | zero => rfl
  | succ n => cases hx <;> simp [rotateInternal]

theorem skipF_litChoice (rules : List Rule) {x : Expr} (hx : LitChoice x) : skipF rules x = x := by
  cases hx <;> simp [skipF]

theorem factorF_litChoice (ty : RuleType) {x : Expr} (hx : LitChoice x) : factorF ty x = x := by
  cases hx with
  | str s => simp [factorF]
  | ident n => simp [factorF]
  | choiceStr s hr => cases hr <;> simp [factorF]
  | choiceIdent n hr => cases hr <;> simp [factorF]

theorem unrollExpr_litChoice (extras : Bool) {x : Expr} (hx : LitChoice x) : unrollExpr extras x = some x := by
  induction hx with
  | str s => simp [unrollExpr, unrollF]
  | ident n => simp [unrollExpr, unrollF]
  | choiceStr s hr ih => simp [unrollExpr, unrollF, ih]
  | choiceIdent n hr ih => simp [unrollExpr, unrollF, ih]

theorem concat_litChoice {x : Expr} (hx : LitChoice x) : mapBottomUp concatF x = x := by
  induction hx with
  | str s => simp [mapBottomUp, concatF]
  | ident n => simp [mapBottomUp, concatF]
  | choiceStr s hr ih => simp [mapBottomUp, concatF, ih]
  | choiceIdent n hr ih => simp [mapBottomUp, concatF, ih]

/-- the AST passes leave a rule whose body is a choice of literals / identifiers unchanged. -/
theorem astPasses_litChoice (extras : Bool) (rules : List Rule) (r : Rule) (hr : LitChoice r.expr) :
    astPasses extras false rules r = some r := by
  have h1 : rotate r = r := by
    unfold rotate rotateExpr
    rw [mapTopDown_litChoice _ (fun x hx => rotateInternal_litChoice hx _) hr]
  have h2 : skip rules r = r := by
    unfold skip
    split
    · rw [mapTopDown_litChoice _ (fun x hx => skipF_litChoice rules hx) hr]
    · rfl
  have h3 : unroll extras r = some r := by
    unfold unroll
    rw [unrollExpr_litChoice extras hr]; rfl
  have h4 : concatenate r = r := by
    unfold concatenate
    split
    · rw [concat_litChoice hr]
    · rfl
  have h5 : factor r = r := by
    unfold factor
    rw [mapTopDown_litChoice _ (fun x hx => factorF_litChoice r.ty hx) hr]
  unfold astPasses
  rw [h1, h2, h3]
  simp only [Option.map_some, h4, h5]
  rfl

/-! ### one rule through the AST passes -/

theorem bodyMode_atomic (n : String) (m : Atomicity) : bodyMode n .atomic m = .atomic := by
  unfold bodyMode; split <;> simp

theorem bodyMode_compound (n : String) (m : Atomicity) : bodyMode n .compound m = .compound := by
  unfold bodyMode; split <;> simp

theorem skip_name (rules : List Rule) (r : Rule) : (skip rules r).name = r.name ∧ (skip rules r).ty = r.ty := by
  unfold skip; split <;> exact ⟨rfl, rfl⟩

theorem concatenate_name (r : Rule) : (concatenate r).name = r.name ∧ (concatenate r).ty = r.ty := by
  unfold concatenate; split <;> exact ⟨rfl, rfl⟩

theorem astPasses_rel (d : Ctx) (rules0 : List Rule) (hA : InlAgree rules0 d) (hany : d.has "ANY" = false)
    (r r5 : Rule) (h : astPasses d.extras false rules0 r = some r5) : RuleRel d r r5 := by
  unfold astPasses at h
  rw [Option.map_eq_some_iff] at h
  obtain ⟨r3, h3, h5⟩ := h
  unfold unroll at h3
  rw [Option.map_eq_some_iff] at h3
  obtain ⟨e3, he3, hr3⟩ := h3
  simp only [Bool.false_eq_true, if_false] at h5
  have hn2 := skip_name rules0 (rotate r)
  have hn4 := concatenate_name r3
  have hP := inv_valid d
  have n3 : r3.name = r.name := by rw [← hr3]; exact hn2.1
  have t3 : r3.ty = r.ty := by rw [← hr3]; exact hn2.2
  have n5 : r5.name = r.name := by rw [← h5]; exact hn4.1.trans n3
  have t5 : r5.ty = r.ty := by rw [← h5]; exact hn4.2.trans t3
  refine ⟨n5.symm, t5.symm, fun m => ?_⟩
  -- rotate
  have q1 : EqOn (Valid d) d (bodyMode r.name r.ty m) r.expr (rotate r).expr := rotateExpr_eqOn hP r.expr
  -- skip
  have q2 : EqOn (Valid d) d (bodyMode r.name r.ty m) (rotate r).expr (skip rules0 (rotate r)).expr := by
    unfold skip
    split
    · rename_i hty
      have hty' : r.ty = .atomic := hty
      rw [hty', bodyMode_atomic]
      exact mapTopDown_eqOn hP _ (skipF_eqOn hA hany) _ _
    · exact EqOn.refl _
  -- unroll
  have q3 : EqOn (Valid d) d (bodyMode r.name r.ty m) (skip rules0 (rotate r)).expr e3 :=
    unrollExpr_eqOn hP _ _ he3
  have e3eq : r3.expr = e3 := by rw [← hr3]
  -- concatenate
  have q4 : EqOn (Valid d) d (bodyMode r.name r.ty m) r3.expr (concatenate r3).expr := by
    unfold concatenate
    split
    · rename_i hty
      rw [t3] at hty
      rw [hty, bodyMode_atomic]
      exact mapBottomUp_eqOn hP _ (concatF_eqOn (by decide)) _
    · exact EqOn.refl _
  -- factor
  have q5 : EqOn (Valid d) d (bodyMode r.name r.ty m) (concatenate r3).expr r5.expr := by
    rw [← h5]
    unfold factor
    refine mapTopDown_eqOn hP _ (factorF_eqOn _ ?_) _ _
    rw [hn4.2, t3]
    rintro (hty | hty)
    · rw [hty, bodyMode_atomic]; decide
    · rw [hty, bodyMode_compound]; decide
  rw [e3eq] at q4
  exact q1.trans (q2.trans (q3.trans (q4.trans q5)))

/-! ### the whole rule set -/

theorem F2.map_right {α β γ : Type} {R : α → β → Prop} {R' : α → γ → Prop} {g : β → γ} {l : List α} {l' : List β}
    (h : F2 R l l') (hr : ∀ a b, R a b → R' a (g b)) : F2 R' l (l'.map g) := by
  induction h with
  | nil => exact .nil
  | cons hx _ ih => exact .cons (hr _ _ hx) ih

theorem F2.of_mapM {α β : Type} (f : α → Option β) : ∀ (l : List α) (l' : List β), l.mapM f = some l' →
    F2 (fun a b => f a = some b) l l'
  | [], l', h => by
    simp only [List.mapM_nil] at h
    cases h; exact .nil
  | x :: xs, l', h => by
    simp only [List.mapM_cons, Option.bind_eq_bind, Option.bind_eq_some_iff] at h
    obtain ⟨y, hy, ys, hys, h⟩ := h
    cases h
    exact .cons hy (F2.of_mapM f xs ys hys)

theorem RuleRel.symm {c : Ctx} {r r' : Rule} (h : RuleRel c r r') : RuleRel c r' r := by
  obtain ⟨h1, h2, h3⟩ := h
  refine ⟨h1.symm, h2.symm, fun m => ?_⟩
  rw [← h1, ← h2]
  exact (h3 m).symm

/-- the result of the pipeline without `list`, read back, is rule-by-rule the result of the AST
passes. -/
theorem optimize_F2 (extras : Bool) (rules : List Rule) (orules : List ORule)
    (h : optimizeWith extras false rules = some orules) :
    F2 (fun r r' => astPasses extras false rules r = some r') rules (ofOptimizedRules orules) := by
  unfold optimizeWith at h
  split at h
  · simp at h
  · rename_i opt hm
    simp only [Option.some.injEq] at h
    subst h
    have h1 := F2.of_mapM _ _ _ hm
    unfold ofOptimizedRules
    refine (h1.map_right (g := restoreOnErr extras opt) (R' := fun r o =>
      astPasses extras false rules r = some ⟨o.name, o.ty, ofOptimized o.expr⟩) ?_).map_right ?_
    · intro r o ho
      simp only [Option.bind_eq_some_iff, Option.map_eq_some_iff] at ho
      obtain ⟨r5, h5, e, he, rfl⟩ := ho
      simp only [restoreOnErr]
      have hwrap : ∀ (c : Prop) [Decidable c] (x : OExpr),
          ofOptimized (if c then OExpr.restoreOnErr x else x) = ofOptimized x := by
        intro c _ x
        split
        · rfl
        · rfl
      rw [hwrap, ofOptimized_omapBottomUp _ _ (ofOptimized_wrapBranching extras opt),
        ofOptimized_toOptimized _ _ _ he]
      exact h5
    · intro r o ho
      exact ho

theorem go_none_of_forall (name : String) : ∀ (rules : List Rule) (k : Nat), (∀ r ∈ rules, r.name ≠ name) →
    Ctx.rule?.go name rules k = none
  | [], _, _ => by simp [Ctx.rule?.go]
  | x :: xs, k, h => by
    rw [Ctx.rule?.go, if_neg (h x (by simp))]
    exact go_none_of_forall name xs (k + 1) (fun r hr => h r (by simp [hr]))

theorem lookup_agree {extras : Bool} {rules0 : List Rule} {name : String} {body : Expr} {l l' : List Rule}
    (h : F2 (fun r r' => astPasses extras false rules0 r = some r' ∧ r.name = r'.name) l l')
    (hl : lookupExpr l name = some body) (hb : LitChoice body) : lookupExpr l' name = some body := by
  induction h with
  | nil => simp [lookupExpr] at hl
  | @cons x y xs ys hx _ ih =>
    unfold lookupExpr at hl ⊢
    rw [List.find?_cons] at hl ⊢
    by_cases hxn : x.name = name
    · have hyn : y.name = name := hx.2 ▸ hxn
      simp only [hxn, hyn, decide_true, Option.map_some, Option.some.injEq] at hl ⊢
      subst hl
      have := astPasses_litChoice extras rules0 x hb
      rw [hx.1] at this
      cases this
      rfl
    · have hyn : ¬ y.name = name := hx.2 ▸ hxn
      simp only [hxn, hyn, decide_false] at hl ⊢
      exact ih hl

/-- **pipeline, helper form.** -/
theorem pipeline_means (rules : List Rule) (extras : Bool) (orules : List ORule) (uni : String → Option CharSet)
    (hany : ∀ r ∈ rules, r.name ≠ "ANY")
    (h : optimizeWith extras false rules = some orules)
    (rule : String) (input : Str) (r : Res) :
    Means rules extras uni rule input r ↔ Means (ofOptimizedRules orules) extras uni rule input r := by
  have hS := optimize_F2 extras rules orules h
  have hany1 : Ctx.has { rules := rules, input := input, extras := extras, uni := uni } "ANY" = false := by
    unfold Ctx.has Ctx.rule?
    rw [go_none_of_forall "ANY" rules 0 hany]; rfl
  -- the original context
  have hR : F2 (RuleRel { rules := rules, input := input, extras := extras, uni := uni }) rules
      (ofOptimizedRules orules) :=
    hS.mono fun x y hxy => astPasses_rel { rules := rules, input := input, extras := extras, uni := uni } rules
      (inlAgree_self { rules := rules, input := input, extras := extras, uni := uni }) hany1 x y hxy
  have hS' : F2 (fun r r' => astPasses extras false rules r = some r' ∧ r.name = r'.name) rules
      (ofOptimizedRules orules) :=
    hS.mono fun x y hxy => ⟨hxy, (astPasses_rel { rules := rules, input := input, extras := extras, uni := uni } rules
      (inlAgree_self { rules := rules, input := input, extras := extras, uni := uni }) hany1 x y hxy).1⟩
  -- the optimized context
  have hany2 : Ctx.has { rules := ofOptimizedRules orules, input := input, extras := extras, uni := uni } "ANY" = false := by
    unfold Ctx.has Ctx.rule?
    rcases rule?_go_rel (R := RuleRel { rules := rules, input := input, extras := extras, uni := uni })
      (fun r r' h => h.1) hR "ANY" 0 with ⟨_, h2⟩ | ⟨id, r, r', h1, _, _⟩
    · simp only []; rw [h2]; rfl
    · rw [go_none_of_forall "ANY" rules 0 hany] at h1; cases h1
  have hA : InlAgree rules { rules := ofOptimizedRules orules, input := input, extras := extras, uni := uni } := by
    intro name body k ch res hl hp
    exact lookup_agree hS' hl (litChoice_of_populate rules k body ch res hp)
  have hR' : F2 (RuleRel { rules := ofOptimizedRules orules, input := input, extras := extras, uni := uni })
      (ofOptimizedRules orules) rules :=
    (hS.mono fun x y hxy => (astPasses_rel
      { rules := ofOptimizedRules orules, input := input, extras := extras, uni := uni } rules hA hany2 x y hxy)).flip.mono
      fun x y hxy => hxy.symm
  constructor
  · exact means_of_means' (ofOptimizedRules orules) rules extras uni input hR' rule r
  · exact means_of_means' rules (ofOptimizedRules orules) extras uni input hR rule r

end PestModel.Ref
