import PestModel.Lemmas.ViewsRender
import PestModel.Lemmas.ViewsFlat
import PestModel.Lemmas.LineColBasic
/-! Helper lemmas for C04: the JSON renderer agrees with the tree-side function. -/
namespace PestModel.Views
open PestModel.PS (QTok)
open PestModel.LineCol (Str slice? isBoundary spanNew spanNew_iff)

variable {q : List QTok}

/-- every node's span can be sliced out of the input -/
def Sliceable (input : Str) (ts : List Tree) : Prop :=
  ∀ t ∈ preorderList ts, (strOf input t).isSome

theorem jsonPairs_of_list {input : Str} {a b : Nat} {ts : List Tree} (h : Layout q a ts b) (f lvl : Nat)
    (hl : jsonPairList q input f (lvl + 2) (starts a ts) = jsonOfList input (lvl + 2) ts) :
    jsonPairs q input (f + 1) lvl a b = jsonOfForest input lvl ts := by
  rw [jsonPairs]
  simp only [jsonOfForest, pairsList_of_layout' h]
  cases ts with
  | nil =>
    have := h.nil_eq
    subst this
    simp only [Nat.lt_irrefl, if_false, hl, List.head?_nil]
    cases jsonOfList input (lvl + 2) [] <;> rfl
  | cons t ts =>
    obtain ⟨e, h1, _, _, _, _, hlt, hlt'⟩ := h.cons_inv
    have hne : t :: ts ≠ [] := by simp
    have h' := h
    rw [← List.dropLast_concat_getLast hne] at h'
    obtain ⟨m, hm1, hm2⟩ := h'.split
    obtain ⟨_, h2, _, _, _⟩ := hm2.single_inv
    have hlt2 : a < b := by omega
    simp only [hlt2, if_true, posAt_start h1, posAt_end h2, hl, List.head?_cons,
      List.getLast?_eq_some_getLast hne]
    cases jsonOfList input (lvl + 2) (t :: ts) <;> rfl

theorem jsonList_of_layout {input : Str} {a b : Nat} {ts : List Tree} (h : Layout q a ts b) :
    Sliceable input ts → ∀ fuel lvl, 2 * (b - a) + 1 ≤ fuel →
    jsonPairList q input fuel lvl (starts a ts) = jsonOfList input lvl ts := by
  induction h with
  | nil a =>
    intro _ fuel lvl hf
    obtain ⟨f, rfl⟩ : ∃ f, fuel = f + 1 := ⟨fuel - 1, by omega⟩
    simp [starts, jsonPairList, jsonOfList]
  | cons h1 h2 hk hr ihk ihr =>
    rename_i a e b r p0 p1 tag kids rest
    intro hsl fuel lvl hf
    have := hk.le; have := hr.le
    obtain ⟨f, rfl⟩ : ∃ f, fuel = f + 3 := ⟨fuel - 3, by omega⟩
    have hobs : PairObs q a (.node r p0 p1 tag kids) := pairObs_of h1 h2 hk
    have hslk : Sliceable input kids := by
      intro t ht; exact hsl t (by simp [ht])
    have hslr : Sliceable input rest := by
      intro t ht; exact hsl t (by simp [ht])
    obtain ⟨str, hstr⟩ : ∃ str, slice? input p0 p1 = some str := by
      have := hsl (.node r p0 p1 tag kids) (by simp)
      simpa [strOf, Tree.start, Tree.stop, Option.isSome_iff_exists] using this
    have hp : jsonPair q input (f + 2) lvl a = jsonOfTree input lvl (.node r p0 p1 tag kids) := by
      rw [jsonPair]
      simp only [hobs.1, hobs.2.1, pairEnd_of h1, pairStr_of_obs hobs, strOf, Tree.rule, Tree.start,
        Tree.stop, hstr]
      cases kids with
      | nil =>
        have : ¬ a + 1 < e := by have := hk.nil_eq; omega
        simp only [this, if_false, jsonOfTree, hstr]
        rfl
      | cons k ks =>
        have : a + 1 < e := hk.lt_of_ne_nil (by simp)
        simp only [this, if_true]
        rw [jsonPairs_of_list hk f (lvl + 1) (ihk hslk f (lvl + 1 + 2) (by omega))]
        simp only [jsonOfTree]
        cases jsonOfForest input (lvl + 1) (k :: ks) <;> rfl
    rw [starts_cons_of hk, jsonPairList, ihr hslr (f + 2) lvl (by omega), hp]
    simp only [jsonOfList]
    generalize jsonOfTree input lvl _ = x
    generalize jsonOfList input lvl rest = y
    cases x <;> cases y <;> rfl

/-! ### unconditional soundness: whenever the JSON renderer returns, it returns the tree's JSON -/

theorem jsonPairs_sound_of_list {input : Str} {a b : Nat} {ts : List Tree} (h : Layout q a ts b) (f lvl : Nat)
    (hl : ∀ strs, jsonPairList q input f (lvl + 2) (starts a ts) = some strs →
      jsonOfList input (lvl + 2) ts = some strs) (s : Str) :
    jsonPairs q input (f + 1) lvl a b = some s → jsonOfForest input lvl ts = some s := by
  rw [jsonPairs]
  simp only [jsonOfForest, pairsList_of_layout' h]
  cases ts with
  | nil =>
    have := h.nil_eq
    subst this
    simp only [Nat.lt_irrefl, if_false, List.head?_nil]
    cases hjl : jsonPairList q input f (lvl + 2) (starts a []) with
    | none => intro h; cases h
    | some strs => rw [hl strs hjl]; exact id
  | cons t ts =>
    obtain ⟨e, h1, _, _, _, _, hlt, hlt'⟩ := h.cons_inv
    have hne : t :: ts ≠ [] := by simp
    have h' := h
    rw [← List.dropLast_concat_getLast hne] at h'
    obtain ⟨m, hm1, hm2⟩ := h'.split
    obtain ⟨_, h2, _, _, _⟩ := hm2.single_inv
    have hlt2 : a < b := by omega
    simp only [hlt2, if_true, posAt_start h1, posAt_end h2, List.head?_cons,
      List.getLast?_eq_some_getLast hne]
    cases hjl : jsonPairList q input f (lvl + 2) (starts a (t :: ts)) with
    | none => intro h; cases h
    | some strs => rw [hl strs hjl]; exact id

theorem jsonList_sound {input : Str} {a b : Nat} {ts : List Tree} (h : Layout q a ts b) :
    ∀ fuel lvl strs, jsonPairList q input fuel lvl (starts a ts) = some strs →
      jsonOfList input lvl ts = some strs := by
  induction h with
  | nil a =>
    intro fuel lvl strs hj
    cases fuel with
    | zero => simp [jsonPairList] at hj
    | succ f => simpa [starts, jsonPairList, jsonOfList] using hj
  | cons h1 h2 hk hr ihk ihr =>
    rename_i a e b r p0 p1 tag kids rest
    intro fuel lvl strs hj
    rw [starts_cons_of hk] at hj
    cases fuel with
    | zero => simp [jsonPairList] at hj
    | succ f =>
      rw [jsonPairList] at hj
      cases hjp : jsonPair q input f lvl a with
      | none => simp [hjp] at hj
      | some s =>
        cases hjr : jsonPairList q input f lvl (starts (e + 1) rest) with
        | none => simp [hjp, hjr] at hj
        | some ss =>
          simp only [hjp, hjr, Option.some.injEq] at hj
          subst hj
          have hobs : PairObs q a (.node r p0 p1 tag kids) := pairObs_of h1 h2 hk
          have hp : jsonOfTree input lvl (.node r p0 p1 tag kids) = some s := by
            cases f with
            | zero => simp [jsonPair] at hjp
            | succ f' =>
              rw [jsonPair] at hjp
              simp only [hobs.1, hobs.2.1, pairEnd_of h1, pairStr_of_obs hobs, strOf, Tree.rule, Tree.start,
                Tree.stop] at hjp
              cases hstr : slice? input p0 p1 with
              | none => simp [hstr] at hjp
              | some str =>
                simp only [hstr] at hjp
                cases kids with
                | nil =>
                  have : ¬ a + 1 < e := by have := hk.nil_eq; omega
                  simp only [this, if_false] at hjp
                  simp only [jsonOfTree, hstr]
                  exact hjp
                | cons k ks =>
                  have : a + 1 < e := hk.lt_of_ne_nil (by simp)
                  simp only [this, if_true] at hjp
                  cases f' with
                  | zero => simp [jsonPairs] at hjp
                  | succ f'' =>
                    cases hin : jsonPairs q input (f'' + 1) (lvl + 1) (a + 1) e with
                    | none => simp [hin] at hjp
                    | some inner =>
                      have := jsonPairs_sound_of_list hk f'' (lvl + 1) (ihk f'' (lvl + 1 + 2)) inner hin
                      simp only [hin] at hjp
                      simp only [jsonOfTree, this]
                      exact hjp
          simp only [jsonOfList, hp, ihr f lvl ss hjr]

/-! ### nested spans can be sliced -/

mutual
  theorem sliceable_of_nestedTree (input : Str) (lo hi : Nat) : (t : Tree) →
      nestedTree input lo hi t = true → ∀ u ∈ t.preorder, (strOf input u).isSome
    | .node r a b tag ks => by
      intro h u hu
      simp only [nestedTree, Bool.and_eq_true, decide_eq_true_eq] at h
      obtain ⟨⟨⟨⟨⟨_, h2⟩, _⟩, h4⟩, h5⟩, h6⟩ := h
      simp only [Tree.preorder_node, List.mem_cons] at hu
      rcases hu with rfl | hu
      · have := (spanNew_iff input a b).2 ⟨h2, h4, h5⟩
        simpa [strOf, Tree.start, Tree.stop, spanNew] using this
      · exact sliceable_of_nestedForest input a b ks h6 u hu
  theorem sliceable_of_nestedForest (input : Str) (lo hi : Nat) : (ts : List Tree) →
      nestedForest input lo hi ts = true → Sliceable input ts
    | [] => by intro _ u hu; simp at hu
    | t :: ts => by
      intro h u hu
      simp only [nestedForest, Bool.and_eq_true] at h
      simp only [preorderList_cons, List.mem_append] at hu
      rcases hu with hu | hu
      · exact sliceable_of_nestedTree input lo hi t h.1 u hu
      · exact sliceable_of_nestedForest input t.stop hi ts h.2 u hu
end

end PestModel.Views
