import PestModel.Lemmas.ValidatorTerm
/-! C06 helper lemmas, part 6: every expression of an accepted grammar evaluates to a definite result. -/
namespace PestModel.V
open PestModel.G PestModel.Ref
open PestModel.LineCol (Str bLen cLen)
open PestModel.Views (Tree)
open PestModel.PS (Atomicity CharSet)

section
variable {c : Ctx}

/-- One expression, at one level `N` of remaining input. `CTp` singles out the rule names whose
calls are already known to terminate at this level; `hcross` says what happens when the
left-recursion check did not look behind a sequence head that matched without consuming. -/
theorem expr_term (R : String → Prop) (M : Atomicity → Prop) (hK : ∀ m, M m → ∀ la s, valK c m la s ≠ .fuel) (N : Nat)
    (hlow : ∀ s, mu c s < N → ∀ m, M m → ∀ la e, Base c.extras c.rules R e → val c m la e s ≠ .fuel)
    (cur : String) (CTp : String → Prop)
    (hcall : ∀ nm, CTp nm → R nm → ∀ s, mu c s ≤ N → ∀ m, M m → ∀ la, valCa c m la nm s ≠ .fuel)
    (hcross : ∀ a b, Base c.extras c.rules R a → (∀ n ∈ lm c.extras c.rules cur a, CTp n) →
      (∃ m la s s' f, val c m la a s = .ok s' f ∧ s'.pos = s.pos) → cross c.rules cur a = false →
      ∀ n ∈ lm c.extras c.rules cur b, CTp n) :
    ∀ e, Base c.extras c.rules R e → (∀ n ∈ lm c.extras c.rules cur e, CTp n) →
      ∀ s, mu c s ≤ N → ∀ m, M m → ∀ la, val c m la e s ≠ .fuel := by
  intro e
  induction e with
  | str str => intro _ _ s _ m _ la; rw [val_str]; exact lit_ne_fuel _ _ _
  | insens str => intro _ _ s _ m _ la; rw [val_insens]; exact insensM_ne_fuel _ _ _
  | range a b => intro _ _ s _ m _ la; rw [val_range]; exact oneChar_ne_fuel _ _ _
  | ident n =>
    intro hb hcl s hs m hm la
    rw [val_ident]
    exact hcall n (hcl n (by simp [lm])) (hb.ids n (by simp [allIdents])) s hs m hm la
  | peekSlice a b =>
    intro _ _ s _ m _ la
    rw [val_eq]
    simp only [denoteF]
    split
    · split
      · simp
      · split <;> simp
    · simp
  | skip strs =>
    intro _ _ s _ m _ la
    rw [val_skip]
    split <;> simp
  | pushLiteral str => intro _ _ s _ m _ la; rw [val_pushLiteral]; simp
  | posPred e ih =>
    intro hb hcl s hs m hm la
    rw [val_posPred]
    have := ih hb.posPred (fun n hn => hcl n (by simpa only [lm] using hn)) s hs m hm true
    cases h1 : val c m true e s <;> simp_all
  | negPred e ih =>
    intro hb hcl s hs m hm la
    rw [val_negPred]
    have := ih hb.negPred (fun n hn => hcl n (by simpa only [lm] using hn)) s hs m hm true
    cases h1 : val c m true e s <;> simp_all
  | opt e ih =>
    intro hb hcl s hs m hm la
    exact opt_term N (fun s hs => ih hb.opt (fun n hn => hcl n (by simpa only [lm] using hn)) s hs m hm la) s hs
  | push e ih =>
    intro hb _ _ _ _ _ _
    exact absurd hb.sf (by simp [SF])
  | nodeTag e t ih =>
    intro hb hcl s hs m hm la
    obtain ⟨hbe, hex⟩ := hb.nodeTag
    rw [val_nodeTag]
    have := ih hbe (fun n hn => hcl n (by simpa only [lm, hex, if_true] using hn)) s hs m hm la
    cases h1 : val c m la e s <;> simp_all
  | choice a b iha ihb =>
    intro hb hcl s hs m hm la
    rw [val_choice]
    have h1 := iha hb.choice.1 (fun n hn => hcl n (by simp only [lm]; exact List.mem_append_left _ hn)) s hs m hm la
    have h2 := ihb hb.choice.2 (fun n hn => hcl n (by simp only [lm]; exact List.mem_append_right _ hn)) s hs m hm la
    cases h : val c m la a s <;> simp_all
  | seq a b iha ihb =>
    intro hb hcl s hs m hm la
    have hcla : ∀ n ∈ lm c.extras c.rules cur a, CTp n := by
      intro n hn
      refine hcl n ?_
      simp only [lm]
      split
      · exact List.mem_append_left _ hn
      · exact hn
    rw [val_seq]
    cases h1 : val c m la a s <;> simp only [] <;> try simp
    · rename_i s1 f1
      have f1' := val_fwd h1
      cases h2 : valK c m la s1 <;> simp only [] <;> try simp
      · rename_i s2 f2
        have f2' := valK_fwd h2
        cases h3 : val c m la b s2 <;> simp only [] <;> try simp
        have hfw := f1'.trans f2'
        by_cases hpos : s.pos < s2.pos
        · exact hlow s2 (by have := hfw.mu_lt hpos; omega) m hm la b hb.seq.2 h3
        · have hle1 := f1'.le
          have hle2 := f2'.le
          have hclb : ∀ n ∈ lm c.extras c.rules cur b, CTp n := by
            cases hx : cross c.rules cur a with
            | true =>
              intro n hn
              refine hcl n ?_
              simp only [lm, hx, if_true]
              exact List.mem_append_right _ hn
            | false =>
              exact hcross a b hb.seq.1 hcla ⟨m, la, s, s1, f1, h1, by omega⟩ hx
          exact ihb hb.seq.2 hclb s2 (by have := hfw.mu_le; omega) m hm la h3
      · exact absurd h2 (hK m hm la s1)
    · exact absurd h1 (iha hb.seq.1 hcla s hs m hm la)
  | rep e ih =>
    intro hb hcl s hs m hm la
    exact rep_term N hb.rep.2
      (fun s hs => ih hb.rep.1 (fun n hn => hcl n (by simpa only [lm] using hn)) s hs m hm la) (hK m hm la) s hs
  | repOnce e ih =>
    intro hb hcl s hs m hm la
    have he : ∀ s, mu c s ≤ N → val c m la e s ≠ .fuel :=
      fun s hs => ih hb.repOnce.1 (fun n hn => hcl n (by simpa only [lm] using hn)) s hs m hm la
    rw [val_repOnce]
    split
    · cases h1 : val c m la e s <;> simp only [] <;> try simp
      · rename_i s1 f1
        have := (val_fwd h1).mu_le
        exact valL_term N hb.repOnce.2 he (hK m hm la) N s1 f1 (by omega) (Nat.le_refl _)
      · exact absurd h1 (he s hs)
    · exact seqlist_term N (hK m hm la) [e, .rep e] _
        (by
          intro x hx
          simp only [List.mem_cons, List.not_mem_nil, or_false] at hx
          rcases hx with rfl | rfl
          · exact he
          · exact rep_term N hb.repOnce.2 he (hK m hm la))
        rfl s hs
  | repExact e k ih =>
    intro hb hcl s hs m hm la
    have he : ∀ s, mu c s ≤ N → val c m la e s ≠ .fuel :=
      fun s hs => ih hb.repExact (fun n hn => hcl n (by simpa only [lm] using hn)) s hs m hm la
    rw [val_repExact]
    split
    · rename_i u hu
      refine seqlist_term N (hK m hm la) _ u ?_ hu s hs
      intro x hx
      rw [List.eq_of_mem_replicate hx]; exact he
    · simp
  | repMin e k ih =>
    intro hb hcl s hs m hm la
    have he : ∀ s, mu c s ≤ N → val c m la e s ≠ .fuel :=
      fun s hs => ih hb.repMin.1 (fun n hn => hcl n (by simpa only [lm] using hn)) s hs m hm la
    rw [val_repMin]
    split
    · rename_i u hu
      refine seqlist_term N (hK m hm la) _ u ?_ hu s hs
      intro x hx
      simp only [List.mem_append, List.mem_singleton] at hx
      rcases hx with hx | rfl
      · rw [List.eq_of_mem_replicate hx]; exact he
      · exact rep_term N hb.repMin.2 he (hK m hm la)
    · simp
  | repMax e k ih =>
    intro hb hcl s hs m hm la
    have he : ∀ s, mu c s ≤ N → val c m la e s ≠ .fuel :=
      fun s hs => ih hb.repMax (fun n hn => hcl n (by simpa only [lm] using hn)) s hs m hm la
    rw [val_repMax]
    split
    · rename_i u hu
      refine seqlist_term N (hK m hm la) _ u ?_ hu s hs
      intro x hx
      rw [List.eq_of_mem_replicate hx]; exact opt_term N he
    · simp
  | repMinMax e lo hi ih =>
    intro hb hcl s hs m hm la
    have he : ∀ s, mu c s ≤ N → val c m la e s ≠ .fuel :=
      fun s hs => ih hb.repMinMax (fun n hn => hcl n (by simpa only [lm] using hn)) s hs m hm la
    rw [val_repMinMax]
    split
    · rename_i u hu
      refine seqlist_term N (hK m hm la) _ u ?_ hu s hs
      intro x hx
      simp only [List.mem_map] at hx
      obtain ⟨i, _, rfl⟩ := hx
      split
      · exact he
      · exact opt_term N he
    · simp

/-- what the validator establishes about a grammar; `R` is a set of rule names closed under
"mentioned in the body of". -/
structure Accepted (c : Ctx) (R : String → Prop) : Prop where
  sfAll : ∀ r ∈ c.rules, SF r.expr = true
  tagAll : ∀ r ∈ c.rules, TagOK c.extras r.expr = true
  bodies : ∀ n body, lookup c.rules n = some body → R n → Base c.extras c.rules R body
  lr : leftRecursion c.extras c.rules = []

variable {R : String → Prop}

theorem Accepted.hnc (h : Accepted c R) : ∀ id body, lookup c.rules id = some body → ¬ CReach c.extras c.rules id body id :=
  fun _ _ hl => no_cycle h.lr (fun _ hn => ⟨_, hl, hn⟩)

/-- a sequence head that the check did not look behind consumes when it matches. -/
theorem cross_false_progress (h : Accepted c R) {cur : String} {a : Expr} (hb : Base c.extras c.rules R a)
    (hcl : ∀ n ∈ lm c.extras c.rules cur a, E c.extras c.rules cur n) (hx : cross c.rules cur a = false)
    {m la s s' f} (hv : val c m la a s = .ok s' f) : s.pos < s'.pos := by
  have hnp : isNonProgressing c.rules (fuelFor c.rules a) a [cur] = false := by
    unfold cross at hx
    simp only [Bool.or_eq_false_iff] at hx
    exact hx.2
  rcases np_false_cases c.extras c.rules h.sfAll h.tagAll h.hnc
      _ a [cur] cur hb.sf hb.tag (fun _ => rfl) (fuelFor_ok _ _ _) hnp with hp | ⟨id, hid, hr⟩
  · exact prog_progress hp _ _ _ _ _ hv
  · simp only [List.mem_singleton] at hid
    subst hid
    exact absurd hr (no_cycle h.lr hcl)

variable (M : Atomicity → Prop)
  (hM : ∀ nm id r, R nm → c.rule? nm = some (id, r) → ∀ m, M m → M (bodyMode r.name r.ty m))
  (hK : ∀ m, M m → ∀ la s, valK c m la s ≠ .fuel)

include hM hK in
/-- all rule calls at level `N`. -/
theorem calls_term_level (h : Accepted c R) (N : Nat)
    (hlow : ∀ s, mu c s < N → ∀ m, M m → ∀ la e, Base c.extras c.rules R e → val c m la e s ≠ .fuel) :
    ∀ nm, R nm → ∀ s, mu c s ≤ N → ∀ m, M m → ∀ la, valCa c m la nm s ≠ .fuel := by
  intro nm
  induction acc_all h.lr nm with
  | intro nm _ ih =>
    intro hR s hs m hm la
    rw [valCa_unfold]
    cases hr : c.rule? nm with
    | none => exact builtin_ne_fuel _ _ _ _ _
    | some p =>
      obtain ⟨id, r⟩ := p
      obtain ⟨hl, hmem, hname⟩ := lookup_of_rule? hr
      have key : val c (bodyMode r.name r.ty m) la r.expr s ≠ .fuel := by
        refine expr_term R M hK N hlow nm (E c.extras c.rules nm) ?_ ?_ r.expr (h.bodies nm r.expr hl hR)
          (fun n hn => ⟨_, hl, hn⟩) s hs _ (hM nm id r hR hr m hm) la
        · intro n hE hRn
          exact ih n hE hRn
        · intro a b hb hcl ⟨m', la', s0, s1, f1, hv, hpos⟩ hx
          have := cross_false_progress h hb hcl hx hv
          omega
      simp only []
      cases h1 : val c (bodyMode r.name r.ty m) la r.expr s <;> simp only [] <;> try simp
      · split <;> simp
      · exact absurd h1 key

include hM hK in
theorem expr_term_level (h : Accepted c R) (N : Nat)
    (hlow : ∀ s, mu c s < N → ∀ m, M m → ∀ la e, Base c.extras c.rules R e → val c m la e s ≠ .fuel) :
    ∀ s, mu c s ≤ N → ∀ m, M m → ∀ la e, Base c.extras c.rules R e → val c m la e s ≠ .fuel := by
  intro s hs m hm la e hb
  exact expr_term R M hK N hlow "" (fun _ => True)
    (fun nm _ hR => calls_term_level M hM hK h N hlow nm hR)
    (fun _ _ _ _ _ _ _ _ => trivial) e hb (fun _ _ => trivial) s hs m hm la

include hM hK in
theorem expr_term_all (h : Accepted c R) :
    ∀ N s, mu c s ≤ N → ∀ m, M m → ∀ la e, Base c.extras c.rules R e → val c m la e s ≠ .fuel := by
  intro N
  induction N with
  | zero => exact expr_term_level M hM hK h 0 (fun s hs => by omega)
  | succ N ih => exact expr_term_level M hM hK h (N + 1) (fun s hs => ih s (by omega))

include hM hK in
theorem calls_term_all (h : Accepted c R) : ∀ nm, R nm → ∀ s m, M m → ∀ la, valCa c m la nm s ≠ .fuel := by
  intro nm hR s m hm la
  exact calls_term_level M hM hK h (mu c s) (fun s' _ => expr_term_all M hM hK h (mu c s') s' (Nat.le_refl _))
    nm hR s (Nat.le_refl _) m hm la

end
end PestModel.V
