import PestModel.Lemmas.VmRefMono
import PestModel.Model.Lower
import PestModel.Lemmas.VmRefEnv
import PestModel.Lemmas.RefPipe
/-! C01: divergence lemmas for `run` and the concrete diverging parse used to refute `vm_terminates`
as first stated (a stack-modifying `WHITESPACE`). -/
namespace PestModel.VmRef
open PestModel.G PestModel.PS PestModel.Lower PestModel.Ref

/-- the run never reaches a definite outcome. -/
def Div (cfg : Cfg) (p : Prog) (st : PState) : Prop := ∀ F, run cfg F p st = .fuel

variable {cfg : Cfg}

theorem run_fuel_or {F0 : Nat} {p : Prog} {st : PState} {o : Out} (h : run cfg F0 p st = o)
    (ho : o ≠ .fuel) (k : Nat) : run cfg k p st = .fuel ∨ run cfg k p st = o := by
  by_cases hk : run cfg k p st = .fuel
  · exact Or.inl hk
  · right
    have h1 := run_mono hk (Nat.le_max_left k F0)
    have h2 := run_mono (by rw [h]; exact ho) (Nat.le_max_right k F0)
    rw [← h1, h2, h]

theorem div_repLoop {p : Prog} {st : PState} (hA : ∃ F0, run cfg F0 p st = .ok st) :
    Div cfg (.repLoop p) st := by
  obtain ⟨F0, hF0⟩ := hA
  intro F
  induction F with
  | zero => exact run_zero _ _ _
  | succ k ih =>
    rw [run_repLoop]
    rcases run_fuel_or hF0 (by simp) k with h | h
    · rw [h]
    · rw [h]; exact ih

theorem div_andThen_right {p q : Prog} {st s1 : PState} (hp : ∃ F0, run cfg F0 p st = .ok s1)
    (hq : Div cfg q s1) : Div cfg (.andThen p q) st := by
  obtain ⟨F0, hF0⟩ := hp
  intro F
  cases F with
  | zero => exact run_zero _ _ _
  | succ k =>
    rw [run_andThen]
    rcases run_fuel_or hF0 (by simp) k with h | h
    · rw [h]
    · rw [h]; exact hq k

theorem div_andThen_left {p q : Prog} {st : PState} (hp : Div cfg p st) : Div cfg (.andThen p q) st := by
  intro F
  cases F with
  | zero => exact run_zero _ _ _
  | succ k => rw [run_andThen, hp k]

theorem div_sequence {p : Prog} {st : PState} (hi : incCall st = some st) (hp : Div cfg p (checkpoint st)) :
    Div cfg (.sequence p) st := by
  intro F
  cases F with
  | zero => exact run_zero _ _ _
  | succ k => rw [run_sequence, hi]; dsimp only; rw [hp k]

theorem div_repeat {p : Prog} {st : PState} (hi : incCall st = some st) (hp : Div cfg (.repLoop p) st) :
    Div cfg (.repeat_ p) st := by
  intro F
  cases F with
  | zero => exact run_zero _ _ _
  | succ k => rw [run_repeat, hi]; exact hp k

theorem div_call {i : Nat} {p : Prog} {st : PState} (hi : cfg.env[i]? = some p) (hp : Div cfg p st) :
    Div cfg (.call i) st := by
  intro F
  cases F with
  | zero => exact run_zero _ _ _
  | succ k => rw [run_call, hi]; exact hp k

theorem div_optional {p : Prog} {st : PState} (hi : incCall st = some st) (hp : Div cfg p st) :
    Div cfg (.optional p) st := by
  intro F
  cases F with
  | zero => exact run_zero _ _ _
  | succ k => rw [run_optional, hi]; dsimp only; rw [hp k]

/-! ### the diverging parse: `r = _{ PUSH("a") ~ (#t = POP_ALL)? ~ "b" ~ POP_ALL* }` on `"ab"`, WITHOUT
`grammar-extras`

(The former example `WHITESPACE = _{ POP_ALL }  r = _{ PUSH("a") ~ "b" ~ "c" }` no longer diverges: the
restorer now wraps a stack-modifying `WHITESPACE`/`COMMENT` body in `restore_on_err`, see
`wsPopAll` below and `C01.ws_popall_example_agrees`.) -/

def cexDivSrc : List Rule :=
  [⟨"r", .silent, .seq (.push (.str ['a'])) (.seq (.opt (.nodeTag (.ident "POP_ALL") ['t']))
    (.seq (.str ['b']) (.rep (.ident "POP_ALL"))))⟩]

def cexDiv : List ORule :=
  [⟨"r", .silent, .seq (.push (.str ['a'])) (.seq (.opt (.nodeTag (.ident "POP_ALL") ['t']))
    (.seq (.str ['b']) (.rep (.restoreOnErr (.ident "POP_ALL")))))⟩]

/-- without `grammar-extras` the restorer does not look inside `#t = POP_ALL`: the `?` operand stays
unwrapped (the `*` operand is wrapped). -/
theorem cexDiv_opt : optimizeWith false true cexDivSrc = some cexDiv := by decide

def divEnv : Env := { rules := cexDiv, uni := fun _ => none }
def divCfg : Cfg := { memchr := true, env := lowerAll .vm divEnv }

/-- the state of a successful outcome. -/
def okSt (o : Out) : PState := match o with | .ok s => s | _ => PState.new [] none false

def divPush : Prog := .andThen (.stackPush (.matchString ['a'])) .ok
def divOpt : Prog := .andThen (.optional (.andThen .stackMatchPop (.tagNode ['t']))) .ok
def divB : Prog := .andThen (.matchString ['b']) .ok
def divPop : Prog := .restoreOnErr .stackMatchPop
def divBody : Prog := .sequence (.andThen .ok divPop)
def divS0 : PState := PState.new ['a', 'b'] none false
/-- after `PUSH("a")`: stack `["a"]`. -/
def divS1 : PState := okSt (run divCfg 10 divPush (checkpoint divS0))
/-- after `(#t = POP_ALL)?`: the failed, unrestored `POP_ALL` has emptied the stack. -/
def divS2 : PState := okSt (run divCfg 10 divOpt (checkpoint divS1))
def divS3 : PState := okSt (run divCfg 10 divB (checkpoint divS2))
/-- after the first `POP_ALL` of `POP_ALL*`: on the empty stack it succeeds without consuming … -/
def divS4 : PState := okSt (run divCfg 10 divPop (checkpoint divS3))

theorem divS2_stack : divS2.stack.cache = [] ∧ divS1.stack.cache = [['a']] := by decide +kernel

/-- … and so does every further iteration: `POP_ALL*` never ends. -/
theorem cexDiv_diverges : Div divCfg (entry divEnv "r") (PState.new ['a', 'b'] none false) := by
  refine div_call (p := .sequence (.andThen divPush (.sequence (.andThen divOpt (.sequence (.andThen divB
    (.sequence (.optional (.andThen divPop (.repeat_ divBody))))))))))
    rfl ?_
  refine div_sequence rfl ?_
  refine div_andThen_right (s1 := divS1) ⟨10, rfl⟩ ?_
  refine div_sequence rfl ?_
  refine div_andThen_right (s1 := divS2) ⟨10, rfl⟩ ?_
  refine div_sequence rfl ?_
  refine div_andThen_right (s1 := divS3) ⟨10, rfl⟩ ?_
  refine div_sequence rfl ?_
  refine div_optional rfl ?_
  refine div_andThen_right (s1 := divS4) ⟨10, rfl⟩ ?_
  exact div_repeat rfl (div_repLoop ⟨10, rfl⟩)

/-! ### the former diverging parse `WHITESPACE = _{ POP_ALL }  r = _{ PUSH("a") ~ "b" ~ "c" }` on `"abc"` -/

def wsPopAllSrc : List Rule :=
  [⟨"WHITESPACE", .silent, .ident "POP_ALL"⟩,
   ⟨"r", .silent, .seq (.push (.str ['a'])) (.seq (.str ['b']) (.str ['c']))⟩]

/-- the restorer wraps the whole `WHITESPACE` body. -/
def wsPopAll : List ORule :=
  [⟨"WHITESPACE", .silent, .restoreOnErr (.ident "POP_ALL")⟩,
   ⟨"r", .silent, .seq (.push (.str ['a'])) (.seq (.str ['b']) (.str ['c']))⟩]

theorem wsPopAll_opt (b : Bool) : optimizeWith b true wsPopAllSrc = some wsPopAll := by cases b <;> decide

/-! ### the "undefined rule" slot: a reference to an undefined name in a grammar with `N + 1` rules,
`3 * N + 1 = 1000000000` (stated for a variable `N` so that nothing ever evaluates the rule list) -/

def bigSrc (N : Nat) : List Rule := ⟨"r0", .silent, .ident "NOSUCH"⟩ :: List.replicate N ⟨"x", .silent, .str []⟩
def bigRs (N : Nat) : List ORule := ⟨"r0", .silent, .ident "NOSUCH"⟩ :: List.replicate N ⟨"x", .silent, .str []⟩

theorem mapM_replicate {α β : Type} (f : α → Option β) (a : α) (b : β) (h : f a = some b) (n : Nat) :
    (List.replicate n a).mapM f = some (List.replicate n b) := by
  induction n with
  | zero => rfl
  | succ n ih => rw [List.replicate_succ, List.mapM_cons, h, ih]; rfl

def optF (rules : List Rule) (r : Rule) : Option ORule :=
  (astPasses true true rules r).bind fun r => (toOptimized true r.expr).map fun e => (⟨r.name, r.ty, e⟩ : ORule)

theorem big_opt (N : Nat) : optimizeWith true true (bigSrc N) = some (bigRs N) := by
  have h0 : ∀ rules : List Rule, optF rules ⟨"r0", .silent, .ident "NOSUCH"⟩ = some ⟨"r0", .silent, .ident "NOSUCH"⟩ := by
    intro rules
    simp [optF, astPasses, G.skip, rotate, rotateExpr, mapTopDown, rotateInternal, unroll, unrollExpr, unrollF,
      factor, factorF, concatenate, list, listF, mapBottomUp, toOptimized]
  have h1 : ∀ rules : List Rule, optF rules ⟨"x", .silent, .str []⟩ = some ⟨"x", .silent, .str []⟩ := by
    intro rules
    simp [optF, astPasses, G.skip, rotate, rotateExpr, mapTopDown, rotateInternal, unroll, unrollExpr, unrollF,
      factor, factorF, concatenate, list, listF, mapBottomUp, toOptimized]
  have hm : (bigSrc N).mapM (optF (bigSrc N)) = some (bigRs N) := by
    unfold bigSrc bigRs
    rw [List.mapM_cons, h0, mapM_replicate (optF _) _ _ (h1 _)]
    rfl
  show (match (bigSrc N).mapM (optF (bigSrc N)) with | none => none | some opt => some (opt.map (restoreOnErr true opt))) = _
  rw [hm]
  simp [bigRs, restoreOnErr, omapBottomUp, wrapBranching]

def bigEnv (N : Nat) : Env := { rules := bigRs N, uni := fun _ => none }

theorem big_index_r0 (N : Nat) : (bigEnv N).index "r0" = some 0 := by
  simp [bigEnv, bigRs, Env.index, Env.index.go]

theorem big_rule_none (N : Nat) (extras : Bool) (input : List Char) :
    (mkCtx (bigEnv N) extras input).rule? "NOSUCH" = none := by
  unfold Ctx.rule?
  apply go_none_of_forall
  intro r hr
  simp [mkCtx, bigEnv, bigRs, ofOptimizedRules] at hr
  rcases hr with rfl | ⟨_, rfl⟩ <;> simp

theorem big_index_none (N : Nat) : (bigEnv N).index "NOSUCH" = none := by
  cases h : (bigEnv N).index "NOSUCH" with
  | none => rfl
  | some i =>
    obtain ⟨r, -, -, -, hr, -⟩ := index_some (extras := true) (input := []) h
    rw [big_rule_none] at hr
    cases hr

theorem big_vm (N : Nat) (hN : 3 * N + 1 = 1000000000) :
    ∃ st, run (mkCfg (bigEnv N) true) 3 (entry (bigEnv N) "r0") (PState.new [] none false) = .ok st := by
  have e0 : entry (bigEnv N) "r0" = .call 0 := by
    simp [entry, callRule, big_index_r0, ctxIdx]
  have g0 : (bigEnv N).rules[0]? = some ⟨"r0", .silent, .ident "NOSUCH"⟩ := by simp [bigEnv, bigRs]
  have gN : (bigEnv N).rules[N]? = some ⟨"x", .silent, .str []⟩ := by
    cases N with
    | zero => omega
    | succ k => simp [bigEnv, bigRs]
  have c0 := env_get (memchr := true) .nonAtomic g0
  have cN := env_get (memchr := true) .atomic gN
  have e1 : vmRule (bigEnv N) 0 ⟨"r0", .silent, .ident "NOSUCH"⟩ .nonAtomic = .call 1000000000 := by
    have h := big_index_none N
    have hw : isWsCm "r0" = false := by decide
    simp only [vmRule, hw, vmExpr, callRule, h]
    simp [Lower.builtin, undefinedRule, bigEnv]
  have e2 : vmRule (bigEnv N) N ⟨"x", .silent, .str []⟩ .atomic = .matchString [] := by
    simp [vmRule, isWsCm, vmExpr]
  have hidx : 3 * N + ctxIdx .atomic = 1000000000 := by simp [ctxIdx]; omega
  rw [hidx] at cN
  simp only [Nat.mul_zero, ctxIdx, Nat.add_zero] at c0
  rw [e0, run_call, c0]
  dsimp only
  rw [e1, run_call, cN]
  dsimp only
  rw [e2]
  exact ⟨_, rfl⟩

theorem big_ref (N : Nat) (extras : Bool) :
    Ref.meaning (ofOptimizedRules (bigRs N)) extras (fun _ => none) 3 "r0" [] = .stuck := by
  have hr0 : (mkCtx (bigEnv N) extras []).rule? "r0" = some (0, ⟨"r0", .silent, .ident "NOSUCH"⟩) := by
    simp [mkCtx, bigEnv, bigRs, ofOptimizedRules, Ctx.rule?, Ctx.rule?.go, ofOptimized]
  show call (mkCtx (bigEnv N) extras []) 3 .nonAtomic false "r0" ⟨0, []⟩ = .stuck
  rw [call, hr0]
  dsimp only
  rw [denote, call, big_rule_none]
  rfl

end PestModel.VmRef
