import PestModel.Lemmas.GenVmFrameRun
/-! C02, part 4: fuel-stratified simulation between two configurations (`Sim`) and its congruence
rules for every combinator. -/
namespace PestModel.GenVm
open PestModel.PS PestModel.Stack
open PestModel.LineCol (Str isBoundary slice?)
open PestModel.VmRef (run_mono)

/-- every definite run of `P` in `A` with fuel `≤ n` is matched by a definite run of `Q` in `B`. -/
def Sim (A B : Cfg) (n : Nat) (P Q : Prog) : Prop :=
  ∀ k, k ≤ n → ∀ s1 s2, SEq s1 s2 → run A k P s1 ≠ .fuel → ∃ o2, Ev B Q s2 o2 ∧ OEq (run A k P s1) o2

def Both (A B : Cfg) (n : Nat) (P Q : Prog) : Prop := Sim A B n P Q ∧ Sim B A n Q P

variable {A B : Cfg} {n : Nat}

theorem Sim.mono {m : Nat} {P Q : Prog} (h : Sim A B n P Q) (hm : m ≤ n) : Sim A B m P Q :=
  fun k hk => h k (Nat.le_trans hk hm)

theorem Both.mono {m : Nat} {P Q : Prog} (h : Both A B n P Q) (hm : m ≤ n) : Both A B m P Q :=
  ⟨h.1.mono hm, h.2.mono hm⟩

theorem Both.symm {P Q : Prog} (h : Both A B n P Q) : Both B A n Q P := ⟨h.2, h.1⟩

theorem sim_zero (P Q : Prog) : Sim A B 0 P Q := by
  intro k hk s1 s2 _ hne
  have : k = 0 := by omega
  subst this
  rw [run_zero] at hne; exact absurd rfl hne

theorem OEq.ok_inv {a : PState} {o : Out} (h : OEq (.ok a) o) : ∃ b, o = .ok b ∧ SEq a b := by
  cases o with
  | ok b => exact ⟨b, rfl, h.1⟩
  | _ => exact False.elim h.1

theorem OEq.err_inv {a : PState} {o : Out} (h : OEq (.err a) o) : ∃ b, o = .err b ∧ SEq a b := by
  cases o with
  | err b => exact ⟨b, rfl, h.1⟩
  | _ => exact False.elim h.1

theorem OEq.panic_inv {o : Out} (h : OEq .panic o) : o = .panic := by
  cases o with
  | panic => rfl
  | _ => exact False.elim h.1

theorem OEq.mk_ok {a b : PState} (h : SEq a b) : OEq (.ok a) (.ok b) := ⟨h, by simp⟩
theorem OEq.mk_err {a b : PState} (h : SEq a b) : OEq (.err a) (.err b) := ⟨h, by simp⟩
theorem OEq.mk_panic : OEq .panic .panic := ⟨trivial, by simp⟩

theorem sim_andThen {P P' Q Q' : Prog} (hP : Sim A B n P P') (hQ : Sim A B n Q Q') :
    Sim A B n (.andThen P Q) (.andThen P' Q') := by
  intro k hk s1 s2 hs hne
  cases k with
  | zero => rw [run_zero] at hne; exact absurd rfl hne
  | succ k =>
    rw [run_andThen] at hne ⊢
    cases h1 : run A k P s1 with
    | fuel => rw [h1] at hne; exact absurd rfl hne
    | ok t1 =>
      rw [h1] at hne
      obtain ⟨o2, ev, oe⟩ := hP k (by omega) s1 s2 hs (by rw [h1]; simp)
      rw [h1] at oe
      obtain ⟨t2, rfl, ht⟩ := oe.ok_inv
      obtain ⟨o2', ev', oe'⟩ := hQ k (by omega) t1 t2 ht hne
      exact ⟨o2', ev_andThen_ok ev ev', oe'⟩
    | err t1 =>
      obtain ⟨o2, ev, oe⟩ := hP k (by omega) s1 s2 hs (by rw [h1]; simp)
      rw [h1] at oe
      obtain ⟨t2, rfl, ht⟩ := oe.err_inv
      exact ⟨_, ev_andThen_stop ev (by simp), oe⟩
    | panic =>
      obtain ⟨o2, ev, oe⟩ := hP k (by omega) s1 s2 hs (by rw [h1]; simp)
      rw [h1] at oe
      have := oe.panic_inv; subst this
      exact ⟨_, ev_andThen_stop ev (by simp), oe⟩

theorem sim_orElse {P P' Q Q' : Prog} (hP : Sim A B n P P') (hQ : Sim A B n Q Q') :
    Sim A B n (.orElse P Q) (.orElse P' Q') := by
  intro k hk s1 s2 hs hne
  cases k with
  | zero => rw [run_zero] at hne; exact absurd rfl hne
  | succ k =>
    rw [run_orElse] at hne ⊢
    cases h1 : run A k P s1 with
    | fuel => rw [h1] at hne; exact absurd rfl hne
    | err t1 =>
      rw [h1] at hne
      obtain ⟨o2, ev, oe⟩ := hP k (by omega) s1 s2 hs (by rw [h1]; simp)
      rw [h1] at oe
      obtain ⟨t2, rfl, ht⟩ := oe.err_inv
      obtain ⟨o2', ev', oe'⟩ := hQ k (by omega) t1 t2 ht hne
      exact ⟨o2', ev_orElse_err ev ev', oe'⟩
    | ok t1 =>
      obtain ⟨o2, ev, oe⟩ := hP k (by omega) s1 s2 hs (by rw [h1]; simp)
      rw [h1] at oe
      obtain ⟨t2, rfl, ht⟩ := oe.ok_inv
      exact ⟨_, ev_orElse_stop ev (by simp), oe⟩
    | panic =>
      obtain ⟨o2, ev, oe⟩ := hP k (by omega) s1 s2 hs (by rw [h1]; simp)
      rw [h1] at oe
      have := oe.panic_inv; subst this
      exact ⟨_, ev_orElse_stop ev (by simp), oe⟩

/-- environment slots related at level `n`. -/
def EnvSim (A B : Cfg) (n : Nat) : Prop :=
  ∀ i : Nat, (A.env[i]? = none ∧ B.env[i]? = none) ∨ ∃ p q, A.env[i]? = some p ∧ B.env[i]? = some q ∧ Sim A B n p q

theorem sim_call (h : EnvSim A B n) (i : Nat) : Sim A B (n + 1) (.call i) (.call i) := by
  intro k hk s1 s2 hs hne
  cases k with
  | zero => rw [run_zero] at hne; exact absurd rfl hne
  | succ k =>
    rw [run_call] at hne ⊢
    rcases h i with ⟨h1, h2⟩ | ⟨p, q, h1, h2, hsim⟩
    · rw [h1]
      exact ⟨.panic, ev_call_none h2, OEq.mk_panic⟩
    · rw [h1] at hne ⊢
      obtain ⟨o2, ev, oe⟩ := hsim k (by omega) s1 s2 hs hne
      exact ⟨o2, ev_call h2 ev, oe⟩

theorem oeq_K {pre : PState → PState} {K : PState → Out → Out} (hK : KOK K) (hF : KFrame pre K)
    {s1 s2 : PState} (hs : SEq s1 s2) {o1 o2 : Out} (ho : OEq o1 o2)
    (r1 : ∀ x, o1.state? = some x → Rel (pre s1) x) (r2 : ∀ x, o2.state? = some x → Rel (pre s2) x)
    (g1 : ∀ x, (K s1 o1).state? = some x → Good x) (g2 : ∀ x, (K s2 o2).state? = some x → Good x) :
    OEq (K s1 o1) (K s2 o2) :=
  ⟨ORel.upgrade (frame_K hK hF hs ho.1 r1 r2) g1 g2, hK.ne_fuel _ _ ho.2⟩

theorem Ev.rel {cfg : Cfg} {p : Prog} {s x : PState} {o : Out} (h : Ev cfg p s o) (hx : o.state? = some x) :
    Rel s x := by
  obtain ⟨m, rfl, -⟩ := h
  exact rel_of_state hx

theorem sim_bracket {X Y P Q : Prog} {pre : PState → PState} {K : PState → Out → Out}
    (hA : ∀ (f : Nat) (s : PState), run A (f+1) X s = bracket A f P pre K s)
    (hB : ∀ (f : Nat) (s : PState), run B (f+1) Y s = bracket B f Q pre K s)
    (hK : KOK K) (hF : KFrame pre K) (h : Sim A B n P Q) : Sim A B n X Y := by
  intro k hk s1 s2 hs hne
  cases k with
  | zero => rw [run_zero] at hne; exact absurd rfl hne
  | succ k =>
    have g1 := fun x (hx : (run A (k+1) X s1).state? = some x) => good_run hs.g1 hx
    rw [hA, bracket_good hs.g1] at hne g1 ⊢
    have hne' : run A k P (pre s1) ≠ .fuel := by
      intro hf; rw [hf, hK.fuel] at hne; exact hne rfl
    obtain ⟨o2, ev, oe⟩ := h k (by omega) _ _ (hF.hpre _ _ hs) hne'
    have ev2 := ev_bracket hB hK hs.g2 ev
    exact ⟨_, ev2, oeq_K hK hF hs oe (fun _ hx => rel_of_state hx) (fun _ hx => ev.rel hx) g1
      (fun _ hx => ev2.good hs.g2 hx)⟩

theorem sim_bracket0 {X Y P Q : Prog} {pre : PState → PState} {K : PState → Out → Out}
    (hA : ∀ (f : Nat) (s : PState), run A (f+1) X s = bracket0 A f P pre K s)
    (hB : ∀ (f : Nat) (s : PState), run B (f+1) Y s = bracket0 B f Q pre K s)
    (hK : KOK K) (hF : KFrame pre K) (h : Sim A B n P Q) : Sim A B n X Y := by
  intro k hk s1 s2 hs hne
  cases k with
  | zero => rw [run_zero] at hne; exact absurd rfl hne
  | succ k =>
    have g1 := fun x (hx : (run A (k+1) X s1).state? = some x) => good_run hs.g1 hx
    rw [hA] at hne g1 ⊢
    unfold bracket0 at hne g1 ⊢
    have hne' : run A k P (pre s1) ≠ .fuel := by
      intro hf; rw [hf, hK.fuel] at hne; exact hne rfl
    obtain ⟨o2, ev, oe⟩ := h k (by omega) _ _ (hF.hpre _ _ hs) hne'
    have ev2 := ev_bracket0 hB hK ev
    exact ⟨_, ev2, oeq_K hK hF hs oe (fun _ hx => rel_of_state hx) (fun _ hx => ev.rel hx) g1
      (fun _ hx => ev2.good hs.g2 hx)⟩

theorem sim_sequence {P Q : Prog} (h : Sim A B n P Q) : Sim A B n (.sequence P) (.sequence Q) :=
  sim_bracket (fun f s => run_sequence_K A f P s) (fun f s => run_sequence_K B f Q s) seqK_ok seqK_frame h

theorem sim_optional {P Q : Prog} (h : Sim A B n P Q) : Sim A B n (.optional P) (.optional Q) :=
  sim_bracket (fun f s => run_optional_K A f P s) (fun f s => run_optional_K B f Q s) optK_ok optK_frame h

theorem sim_lookahead (b : Bool) {P Q : Prog} (h : Sim A B n P Q) :
    Sim A B n (.lookahead b P) (.lookahead b Q) :=
  sim_bracket (fun f s => run_lookahead_K A f b P s) (fun f s => run_lookahead_K B f b Q s) (laK_ok b)
    (laK_frame b) h

theorem sim_atomic (a : Atomicity) {P Q : Prog} (h : Sim A B n P Q) : Sim A B n (.atomic a P) (.atomic a Q) :=
  sim_bracket (fun f s => run_atomic_K A f a P s) (fun f s => run_atomic_K B f a Q s) (atomK_ok a)
    (atomK_frame a) h

theorem sim_rule (r : Nat) {P Q : Prog} (h : Sim A B n P Q) : Sim A B n (.rule r P) (.rule r Q) :=
  sim_bracket (fun f s => run_rule_K A f r P s) (fun f s => run_rule_K B f r Q s) (ruleK_ok r)
    (ruleK_frame r) h

theorem sim_stackPush {P Q : Prog} (h : Sim A B n P Q) : Sim A B n (.stackPush P) (.stackPush Q) :=
  sim_bracket (fun f s => run_stackPush_K A f P s) (fun f s => run_stackPush_K B f Q s) pushK_ok
    pushK_frame h

theorem sim_restoreOnErr {P Q : Prog} (h : Sim A B n P Q) : Sim A B n (.restoreOnErr P) (.restoreOnErr Q) :=
  sim_bracket0 (fun f s => run_restoreOnErr_K A f P s) (fun f s => run_restoreOnErr_K B f Q s) roeK_ok
    roeK_frame h

theorem sim_repLoop {P Q : Prog} (h : Sim A B n P Q) : Sim A B n (.repLoop P) (.repLoop Q) := by
  intro k
  induction k with
  | zero => intro _ s1 s2 _ hne; rw [run_zero] at hne; exact absurd rfl hne
  | succ k ih =>
    intro hk s1 s2 hs hne
    rw [run_repLoop] at hne ⊢
    cases h1 : run A k P s1 with
    | fuel => rw [h1] at hne; exact absurd rfl hne
    | ok t1 =>
      rw [h1] at hne
      obtain ⟨o2, ev, oe⟩ := h k (by omega) s1 s2 hs (by rw [h1]; simp)
      rw [h1] at oe
      obtain ⟨t2, rfl, ht⟩ := oe.ok_inv
      obtain ⟨o2', ev', oe'⟩ := ih (by omega) t1 t2 ht hne
      exact ⟨o2', ev_repLoop_ok ev ev', oe'⟩
    | err t1 =>
      obtain ⟨o2, ev, oe⟩ := h k (by omega) s1 s2 hs (by rw [h1]; simp)
      rw [h1] at oe
      obtain ⟨t2, rfl, ht⟩ := oe.err_inv
      exact ⟨_, ev_repLoop_err ev, OEq.mk_ok ht⟩
    | panic =>
      obtain ⟨o2, ev, oe⟩ := h k (by omega) s1 s2 hs (by rw [h1]; simp)
      rw [h1] at oe
      have := oe.panic_inv; subst this
      exact ⟨_, ev_repLoop_panic ev, oe⟩

theorem sim_repeat {P Q : Prog} (h : Sim A B n P Q) : Sim A B n (.repeat_ P) (.repeat_ Q) :=
  sim_bracket (fun f s => run_repeat_K A f P s) (fun f s => run_repeat_K B f Q s) idK_ok idK_frame
    (sim_repLoop h)

/-! ### leaves -/

/-- programs without sub-programs and without `call`. -/
def Prog.isLeaf : Prog → Bool
  | .matchString _ | .matchInsensitive _ | .matchRange _ _ | .matchCharBy _ | .skip _ | .skipUntil _
  | .startOfInput | .endOfInput | .tagNode _ | .ok | .fail | .stackPeek | .stackPop | .stackMatchPeek
  | .stackMatchPop | .stackDrop | .stackMatchPeekSlice _ _ _ | .stackPushLiteral _ => true
  | _ => false

theorem leaf_cfg (hm : A.memchr = B.memchr) {p : Prog} (hp : Prog.isLeaf p = true) (k : Nat) (s : PState) :
    run A k p s = run B k p s := by
  cases k with
  | zero => rw [run_zero, run_zero]
  | succ k =>
    cases p <;> simp only [Prog.isLeaf] at hp <;> try (exact absurd hp (by decide))
    all_goals rw [PS.run, PS.run]
    all_goals (try rw [hm])

theorem sim_leaf (hm : A.memchr = B.memchr) {p : Prog} (hp : Prog.isLeaf p = true) : Sim A B n p p := by
  intro k _ s1 s2 hs hne
  have hf := run_frame B k p s1 s2 hs
  rw [← leaf_cfg hm hp k s1] at hf
  exact ⟨_, Ev.of_run (hf.ne_fuel hne), hf, hne⟩

/-! ### `ok` units -/

theorem run_ok_succ (cfg : Cfg) (k : Nat) (s : PState) : run cfg (k+1) .ok s = .ok s := by rw [PS.run]

theorem ev_ok (cfg : Cfg) (s : PState) : Ev cfg .ok s (.ok s) := ⟨1, run_ok_succ cfg 0 s, by simp⟩

theorem sim_andThen_ok_src {P Q : Prog} (h : Sim A B n P Q) : Sim A B n (.andThen P .ok) Q := by
  intro k hk s1 s2 hs hne
  cases k with
  | zero => rw [run_zero] at hne; exact absurd rfl hne
  | succ k =>
    have e : run A (k+1) (.andThen P .ok) s1 = run A k P s1 := by
      rw [run_andThen]
      cases k with
      | zero => rw [run_zero]
      | succ k => cases run A (k+1) P s1 <;> simp [run_ok_succ]
    rw [e] at hne ⊢
    exact h k (by omega) s1 s2 hs hne

theorem sim_andThen_ok_tgt {P Q : Prog} (h : Sim A B n P Q) : Sim A B n P (.andThen Q .ok) := by
  intro k hk s1 s2 hs hne
  obtain ⟨o2, ev, oe⟩ := h k hk s1 s2 hs hne
  refine ⟨o2, ?_, oe⟩
  cases o2 with
  | ok t => exact ev_andThen_ok ev (ev_ok B t)
  | err t => exact ev_andThen_stop ev (by simp)
  | panic => exact ev_andThen_stop ev (by simp)
  | fuel => exact absurd rfl ev.ne_fuel

theorem sim_ok_andThen_src {P Q : Prog} (h : Sim A B n P Q) : Sim A B n (.andThen .ok P) Q := by
  intro k hk s1 s2 hs hne
  cases k with
  | zero => rw [run_zero] at hne; exact absurd rfl hne
  | succ k =>
    rw [run_andThen] at hne ⊢
    cases k with
    | zero => rw [run_zero] at hne; exact absurd rfl hne
    | succ k =>
      rw [run_ok_succ] at hne ⊢
      exact h (k+1) (by omega) s1 s2 hs hne

theorem sim_ok_andThen_tgt {P Q : Prog} (h : Sim A B n P Q) : Sim A B n P (.andThen .ok Q) := by
  intro k hk s1 s2 hs hne
  obtain ⟨o2, ev, oe⟩ := h k hk s1 s2 hs hne
  exact ⟨o2, ev_andThen_ok (ev_ok B s2) ev, oe⟩

end PestModel.GenVm
