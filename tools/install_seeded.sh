#!/bin/sh
# usage: tools/install_seeded.sh <ID>  — copies /tmp/mut/out/<ID>/{patchK.diff,metaK.json,demoK} into /verif/seeded/<ID>/mK/
id=$1
for k in 1 2 3; do
  [ -f /tmp/mut/out/$id/patch$k.diff ] || continue
  d=/verif/seeded/$id/m$k
  mkdir -p $d
  cp /tmp/mut/out/$id/patch$k.diff $d/patch.diff
  [ -f /tmp/mut/out/$id/meta$k.json ] && cp /tmp/mut/out/$id/meta$k.json $d/meta.json
  [ -d /tmp/mut/out/$id/demo$k ] && { rm -rf $d/demo; cp -r /tmp/mut/out/$id/demo$k $d/demo; }
done
ls -R /verif/seeded/$id | head -30
