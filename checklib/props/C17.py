"""C17 — the debugger reports exactly the breakpoint hits of the parse under any timing."""
from props.common import *

MODULE = "PestModel.Thm.C17"
DRV, MODE = "drv_dbg", "dbg"
EARLY_ID = "C17-restart-deadlock-after-early-continue"


def classify(ctx, kind, t):
    """run() blocked in join after a restart that was preceded by a cont() with no breakpoint event
    outstanding is the recorded finding; any other hang or wrong event is a new violation."""
    i, op, imp, verdict = t
    if kind == "oracle" and verdict.startswith("FAIL[early-continue]") and ctx.match_known(lambda k: k["id"] == EARLY_ID):
        return {"id": EARLY_ID, "what": "run() never returns when an earlier cont() was issued with no breakpoint event outstanding and the restart races with two deliveries (history run, cont, run on a parse with two breakpoint entries, capacity 1): the parser thread blocks in send on the full channel while the controller waits in join"}
    return None


def run(ctx):
    simple_property(
        ctx, MODULE, DRV, MODE,
        oracle_kind="the real debugger threads, forced along a schedule, delivered an event that is not the next breakpoint entry of the parse / a wrong final event, or run() did not return although every delivered event had been received",
        corr_kind="correspondence `dbg` (the real DebuggerContext threads forced step by step along the schedule the protocol model resolves — hook H4 — vs PestModel.Dbg: labels passed, events received and left, return values of run/cont, blocked state)",
        rule="each case = (input, start rule, breakpoint set, channel capacity 1|2, controller history over run/cont/recv/add/del, schedule); the entries of the parse, its outcome and the VM's behaviour after an abort at each entry are measured on the real VM and given to the model, which resolves the schedule bits into a label trace; the real threads are then forced along exactly that trace in a child process (a watchdog turns a hang into the observation `blocked:<call>`); random cases plus, for 4 (quick) / 12 (thorough) small histories incl. restarts, EVERY resolution of the first 8 / 13 scheduling decisions (one real run per distinct schedule); runs in which a send would block are judged by the oracle only (std's channel parks the sender on the same token); non-trivial = all (every case spawns the two threads)",
        nontrivial_key="distinct_nontrivial",
        assumptions=[
            "theorems are about the protocol model PestModel.Dbg (atomic steps at the hook points of hook H4; SeqCst flag; mutex-protected breakpoint set; bounded FIFO channel; one park token); the parse is abstracted to its list of rule entries, outcome and abort behaviour, all measured on the real VM per case",
            "thread::park is assumed not to return spuriously and the park token to be touched only by the debugger's own park/unpark: a send that blocks on a full channel parks the thread inside std::sync::mpsc on the same token — those runs are excluded from the correspondence (counted as oracle_only_send_blocks) and judged by the oracle only",
            "liveness (restart_terminates_partial) assumes a runnable thread eventually runs",
            "the forced schedule serialises the real threads at the hook points; memory-model effects weaker than sequential consistency between the points are not exhibited (is_done is SeqCst except one Relaxed load in run(), which the single controller thread orders after its own stores)",
        ],
        featureset="dbg", classify=classify, leancheck=[MODULE],
    )


def replay(ctx, path):
    return replay_generic(ctx, path, DRV, MODE, featureset="dbg")
