"""C09 — the grammar front-end is total: any text yields rules or located errors."""
from props.common import *
import binascii

MODULE = "PestModel.Thm.C09"
DRV = "drv_front"
DEEP_ID = "C09-deep-nesting-stack-overflow"


def max_nesting(text):
    d = m = run = 0
    for ch in text:
        if ch in "([{":
            d += 1; m = max(m, d)
        elif ch in ")]}":
            d = max(0, d - 1)
        if ch in "!&":
            run += 1; m = max(m, run)
        elif not ch.isspace():
            run = 0
    return m


def classify(ctx, kind, t):
    """ABORT (native stack overflow) on texts nested deeper than 500 levels is the recorded finding."""
    i, op, imp, verdict = t
    if kind != "oracle" or "ABORT" not in imp:
        return None
    try:
        text = binascii.unhexlify(op.split()[1]).decode(errors="replace")
    except Exception:
        return None
    if max_nesting(text) > 500 and ctx.match_known(lambda k: k["id"] == DEEP_ID):
        return {"id": DEEP_ID, "what": "the recursive-descent front-end (generated meta-parser, consume_expr, validator, optimizer) overflows the native stack and aborts on expressions nested a few thousand levels deep, e.g. a = { (((…\"x\"…))) } with 3000 parentheses"}
    return None


def run(ctx):
    simple_property(
        ctx, MODULE, DRV, None,
        oracle_kind="the grammar front-end panicked, aborted, timed out, or returned an error without a location inside the text / that cannot be rendered",
        corr_kind="(no model column: outcomes are judged by the oracle)",
        rule="seeded mutations (deletions, insertions of delimiters/operators/escapes/non-ASCII, replacements, truncations, swaps, numeric edge values such as {4294967296} and PEEK[2147483648..], non-scalar \\u{…} escapes, bursts of opening parentheses, invalid rule snippets) of 12 real grammars and their rule-sized parts, run through pest_meta::parse_and_optimize and pest_generator::docs::consume in child processes (30 s per 1000 texts; a crash or time-out is an observation attributed to the text that caused it); plus the corpus (deep nesting); non-trivial = texts that reach a verdict (rules or errors)",
        nontrivial_key="distinct_nontrivial",
        assumptions=[
            "totality of the Rust front-end is sampled, not proved (DESIGN §6 C09: partial); the theorem side covers the modelled panic sites only",
            "repetition counts are kept bounded as the property states; nesting depth beyond ~500 is the recorded known finding (native stack)",
        ],
        classify=classify,
    )


def replay(ctx, path):
    return replay_generic(ctx, path, DRV, None)
