import PestModel.Model.PState
/-! # C03 — placeholder until the proofs land. -/
namespace PestModel.C03
open PestModel.PS

theorem smoke : normalizeIndex (-1) 3 = some 2 := by decide

end PestModel.C03
