import PestModel.Lemmas.ValidatorRec
/-! C06 helper lemmas, part 5: the termination argument. Induction on the remaining input, then on
the (well-founded) left-recursion graph, then on the expression. -/
namespace PestModel.V
open PestModel.G PestModel.Ref
open PestModel.LineCol (Str bLen cLen)
open PestModel.Views (Tree)
open PestModel.PS (Atomicity CharSet)

/-- every unbounded repetition body consumes. -/
def Good (rules : List Rule) : Expr → Prop
  | .rep e | .repOnce e | .repMin e _ => Prog rules e ∧ Good rules e
  | .posPred e | .negPred e | .opt e | .push e | .nodeTag e _ | .repExact e _ | .repMax e _
  | .repMinMax e _ _ => Good rules e
  | .seq a b | .choice a b => Good rules a ∧ Good rules b
  | _ => True

/-- all rule/built-in names mentioned anywhere in the expression. -/
def allIdents : Expr → List String
  | .ident n => [n]
  | .posPred e | .negPred e | .opt e | .rep e | .repOnce e | .push e | .nodeTag e _ => allIdents e
  | .repExact e _ | .repMin e _ | .repMax e _ | .repMinMax e _ _ => allIdents e
  | .seq a b | .choice a b => allIdents a ++ allIdents b
  | _ => []

/-- the static facts the argument needs about an expression; `R` is a set of names that contains
every name the expression mentions. -/
structure Base (extras : Bool) (rules : List Rule) (R : String → Prop) (e : Expr) : Prop where
  sf : SF e = true
  tag : TagOK extras e = true
  good : Good rules e
  ids : ∀ n ∈ allIdents e, R n

section base
variable {extras : Bool} {rules : List Rule} {R : String → Prop}

theorem tagOK_bin {a b : Expr} (h : (extras || (NoTag a && NoTag b)) = true) :
    TagOK extras a = true ∧ TagOK extras b = true := by
  unfold TagOK
  cases extras <;> simp_all

theorem Base.seq {a b : Expr} (h : Base extras rules R (.seq a b)) : Base extras rules R a ∧ Base extras rules R b := by
  obtain ⟨h1, h2, h3, h4⟩ := h
  simp only [SF, Bool.and_eq_true] at h1
  have := tagOK_bin (extras := extras) (a := a) (b := b) h2
  exact ⟨⟨h1.1, this.1, h3.1, fun n hn => h4 n (by simp only [allIdents]; exact List.mem_append_left _ hn)⟩,
    ⟨h1.2, this.2, h3.2, fun n hn => h4 n (by simp only [allIdents]; exact List.mem_append_right _ hn)⟩⟩

theorem Base.choice {a b : Expr} (h : Base extras rules R (.choice a b)) :
    Base extras rules R a ∧ Base extras rules R b := by
  obtain ⟨h1, h2, h3, h4⟩ := h
  simp only [SF, Bool.and_eq_true] at h1
  have := tagOK_bin (extras := extras) (a := a) (b := b) h2
  exact ⟨⟨h1.1, this.1, h3.1, fun n hn => h4 n (by simp only [allIdents]; exact List.mem_append_left _ hn)⟩,
    ⟨h1.2, this.2, h3.2, fun n hn => h4 n (by simp only [allIdents]; exact List.mem_append_right _ hn)⟩⟩

theorem Base.posPred {e : Expr} (h : Base extras rules R (.posPred e)) : Base extras rules R e := ⟨h.1, h.2, h.3, h.4⟩
theorem Base.negPred {e : Expr} (h : Base extras rules R (.negPred e)) : Base extras rules R e := ⟨h.1, h.2, h.3, h.4⟩
theorem Base.opt {e : Expr} (h : Base extras rules R (.opt e)) : Base extras rules R e := ⟨h.1, h.2, h.3, h.4⟩
theorem Base.rep {e : Expr} (h : Base extras rules R (.rep e)) : Base extras rules R e ∧ Prog rules e :=
  ⟨⟨h.1, h.2, h.3.2, h.4⟩, h.3.1⟩
theorem Base.repOnce {e : Expr} (h : Base extras rules R (.repOnce e)) : Base extras rules R e ∧ Prog rules e :=
  ⟨⟨h.1, h.2, h.3.2, h.4⟩, h.3.1⟩
theorem Base.repMin {e : Expr} {n : Nat} (h : Base extras rules R (.repMin e n)) :
    Base extras rules R e ∧ Prog rules e :=
  ⟨⟨h.1, h.2, h.3.2, h.4⟩, h.3.1⟩
theorem Base.repExact {e : Expr} {n : Nat} (h : Base extras rules R (.repExact e n)) : Base extras rules R e :=
  ⟨h.1, h.2, h.3, h.4⟩
theorem Base.repMax {e : Expr} {n : Nat} (h : Base extras rules R (.repMax e n)) : Base extras rules R e :=
  ⟨h.1, h.2, h.3, h.4⟩
theorem Base.repMinMax {e : Expr} {n k : Nat} (h : Base extras rules R (.repMinMax e n k)) : Base extras rules R e :=
  ⟨h.1, h.2, h.3, h.4⟩
theorem Base.nodeTag {e : Expr} {t : Str} (h : Base extras rules R (.nodeTag e t)) :
    Base extras rules R e ∧ extras = true := by
  obtain ⟨h1, h2, h3, h4⟩ := h
  have hex : extras = true := by simpa [TagOK, NoTag] using h2
  exact ⟨⟨h1, by simp [TagOK, hex], h3, h4⟩, hex⟩

theorem Base.mono {R' : String → Prop} {e : Expr} (h : Base extras rules R e) (hR : ∀ n, R n → R' n) :
    Base extras rules R' e := ⟨h.1, h.2, h.3, fun n hn => hR n (h.4 n hn)⟩

end base

/-! ### definite results of the primitives -/

theorem oneChar_ne_fuel (c : Ctx) (s : St) (p : Char → Bool) : oneChar c s p ≠ .fuel := by
  unfold oneChar
  split
  · split <;> simp
  · simp

theorem lit_ne_fuel (c : Ctx) (s : St) (str : Str) : lit c s str ≠ .fuel := by
  unfold lit
  split
  · split <;> simp
  · simp

theorem insensM_ne_fuel (c : Ctx) (s : St) (str : Str) : insensM c s str ≠ .fuel := by
  unfold insensM
  split
  · split
    · split <;> simp
    · simp
  · simp

set_option maxHeartbeats 400000 in
theorem builtin_ne_fuel (c : Ctx) (m : Atomicity) (la : Bool) (nm : String) (s : St) : builtin c m la nm s ≠ .fuel := by
  unfold builtin
  simp only []
  split
  all_goals try (exact oneChar_ne_fuel _ _ _)
  · split <;> simp
  · split <;> simp
  · split
    · simp
    · exact lit_ne_fuel _ _ _
  · split
    · simp
    · rename_i top rest _
      have := lit_ne_fuel c s top
      cases hx : lit c s top <;> simp_all
  · split <;> simp
  · split <;> simp
  · split <;> simp
  · have h1 := lit_ne_fuel c s ['\n']
    have h2 := lit_ne_fuel c s ['\r', '\n']
    have h3 := lit_ne_fuel c s ['\r']
    cases hx : lit c s ['\n'] <;> simp_all
    cases hy : lit c s ['\r', '\n'] <;> simp_all
  · split
    · exact oneChar_ne_fuel _ _ _
    · simp

/-! ### unfolding the loops of the limit semantics -/

theorem valSt_unfold (c : Ctx) (la : Bool) (nm : String) (s : St) (acc : List Tree) :
    valSt c la nm s acc =
      match valCa c .nonAtomic la nm s with
      | .ok s1 f1 => valSt c la nm s1 (acc ++ f1)
      | .fail => .ok s acc
      | r => r := by rw [valSt_eq]; rfl

theorem valCl_unfold (c : Ctx) (la : Bool) (s : St) (acc : List Tree) :
    valCl c la s acc =
      match valCa c .nonAtomic la "COMMENT" s with
      | .ok s1 f1 =>
        match valSt c la "WHITESPACE" s1 [] with
        | .ok s2 f2 => valCl c la s2 (acc ++ f1 ++ f2)
        | r => r
      | .fail => .ok s acc
      | r => r := by rw [valCl_eq]; rfl

theorem valK_unfold (c : Ctx) (m : Atomicity) (la : Bool) (s : St) :
    valK c m la s =
      if m ≠ .nonAtomic then .ok s [] else
      match c.has "WHITESPACE", c.has "COMMENT" with
      | false, false => .ok s []
      | true, false => valSt c la "WHITESPACE" s []
      | false, true => valSt c la "COMMENT" s []
      | true, true =>
        match valSt c la "WHITESPACE" s [] with
        | .ok s1 f1 => valCl c la s1 f1
        | r => r := by rw [valK_eq]; rfl

/-! ### loops terminate when their body consumes -/

section loops
variable {c : Ctx}

/-- `e*` after a first `e`. -/
theorem valL_term {m : Atomicity} {la : Bool} {e : Expr} (N : Nat) (hp : Prog c.rules e)
    (he : ∀ s, mu c s ≤ N → val c m la e s ≠ .fuel) (hK : ∀ s, valK c m la s ≠ .fuel) :
    ∀ (k : Nat) (s : St) (acc : List Tree), mu c s ≤ k → k ≤ N → valL c m la e s acc ≠ .fuel := by
  intro k
  induction k with
  | zero =>
    intro s acc hs hk
    rw [valL_unfold]
    cases h1 : valK c m la s <;> simp only [] <;> try simp
    · rename_i s1 f1
      have hm1 := (valK_fwd h1).mu_le
      cases h2 : val c m la e s1 <;> simp only [] <;> try simp
      · rename_i s2 f2
        have := (val_fwd h2).mu_lt (prog_progress hp _ _ _ _ _ h2)
        omega
      · exact absurd h2 (he s1 (by omega))
    · exact absurd h1 (hK s)
  | succ k ih =>
    intro s acc hs hk
    rw [valL_unfold]
    cases h1 : valK c m la s <;> simp only [] <;> try simp
    · rename_i s1 f1
      have hm1 := (valK_fwd h1).mu_le
      cases h2 : val c m la e s1 <;> simp only [] <;> try simp
      · rename_i s2 f2
        have := (val_fwd h2).mu_lt (prog_progress hp _ _ _ _ _ h2)
        exact ih s2 _ (by omega) (by omega)
      · exact absurd h2 (he s1 (by omega))
    · exact absurd h1 (hK s)

theorem rep_term {m : Atomicity} {la : Bool} {e : Expr} (N : Nat) (hp : Prog c.rules e)
    (he : ∀ s, mu c s ≤ N → val c m la e s ≠ .fuel) (hK : ∀ s, valK c m la s ≠ .fuel) :
    ∀ s, mu c s ≤ N → val c m la (.rep e) s ≠ .fuel := by
  intro s hs
  rw [val_rep]
  cases h1 : val c m la e s <;> simp only [] <;> try simp
  · rename_i s1 f1
    have := (val_fwd h1).mu_le
    exact valL_term N hp he hK N s1 f1 (by omega) (Nat.le_refl _)
  · exact absurd h1 (he s hs)

theorem opt_term {m : Atomicity} {la : Bool} {e : Expr} (N : Nat)
    (he : ∀ s, mu c s ≤ N → val c m la e s ≠ .fuel) : ∀ s, mu c s ≤ N → val c m la (.opt e) s ≠ .fuel := by
  intro s hs
  rw [val_opt]
  cases h1 : val c m la e s <;> simp only [] <;> try simp
  exact absurd h1 (he s hs)

/-- sequences of terminating expressions terminate. -/
theorem seqlist_term {m : Atomicity} {la : Bool} (N : Nat) (hK : ∀ s, valK c m la s ≠ .fuel) :
    ∀ (l : List Expr) (u : Expr), (∀ x ∈ l, ∀ s, mu c s ≤ N → val c m la x s ≠ .fuel) → seqOfList l = some u →
      ∀ s, mu c s ≤ N → val c m la u s ≠ .fuel := by
  intro l
  induction l with
  | nil => intro u _ hu; simp [seqOfList] at hu
  | cons x xs ih =>
    intro u hl hu
    cases xs with
    | nil =>
      simp only [seqOfList, Option.some.injEq] at hu
      subst hu
      exact hl x (by simp)
    | cons y ys =>
      simp only [seqOfList] at hu
      cases hr : seqOfList (y :: ys) with
      | none => rw [hr] at hu; simp at hu
      | some u' =>
        rw [hr] at hu
        simp only [Option.map_some, Option.some.injEq] at hu
        subst hu
        have hu' := ih u' (fun z hz => hl z (List.mem_cons_of_mem _ hz)) hr
        intro s hs
        rw [val_seq]
        cases h1 : val c m la x s <;> simp only [] <;> try simp
        · rename_i s1 f1
          have m1 := (val_fwd h1).mu_le
          cases h2 : valK c m la s1 <;> simp only [] <;> try simp
          · rename_i s2 f2
            have m2 := (valK_fwd h2).mu_le
            cases h3 : val c m la u' s2 <;> simp only [] <;> try simp
            exact absurd h3 (hu' s2 (by omega))
          · exact absurd h2 (hK s1)
        · exact absurd h1 (hl x (by simp) s hs)

/-- `name*` for a rule whose calls terminate and consume. -/
theorem valSt_term {la : Bool} {nm : String} (hca : ∀ s, valCa c .nonAtomic la nm s ≠ .fuel)
    (hpr : ∀ s s' f, valCa c .nonAtomic la nm s = .ok s' f → s.pos < s'.pos) :
    ∀ (k : Nat) (s : St) (acc : List Tree), mu c s ≤ k → valSt c la nm s acc ≠ .fuel := by
  intro k
  induction k with
  | zero =>
    intro s acc hs
    rw [valSt_unfold]
    cases h1 : valCa c .nonAtomic la nm s <;> simp only [] <;> try simp
    · have := (valCa_fwd h1).mu_lt (hpr _ _ _ h1); omega
    · exact absurd h1 (hca s)
  | succ k ih =>
    intro s acc hs
    rw [valSt_unfold]
    cases h1 : valCa c .nonAtomic la nm s <;> simp only [] <;> try simp
    · have := (valCa_fwd h1).mu_lt (hpr _ _ _ h1)
      exact ih _ _ (by omega)
    · exact absurd h1 (hca s)

theorem valCl_term {la : Bool} (hca : ∀ s, valCa c .nonAtomic la "COMMENT" s ≠ .fuel)
    (hpr : ∀ s s' f, valCa c .nonAtomic la "COMMENT" s = .ok s' f → s.pos < s'.pos)
    (hst : ∀ s acc, valSt c la "WHITESPACE" s acc ≠ .fuel) :
    ∀ (k : Nat) (s : St) (acc : List Tree), mu c s ≤ k → valCl c la s acc ≠ .fuel := by
  intro k
  induction k with
  | zero =>
    intro s acc hs
    rw [valCl_unfold]
    cases h1 : valCa c .nonAtomic la "COMMENT" s <;> simp only [] <;> try simp
    · have := (valCa_fwd h1).mu_lt (hpr _ _ _ h1); omega
    · exact absurd h1 (hca s)
  | succ k ih =>
    intro s acc hs
    rw [valCl_unfold]
    cases h1 : valCa c .nonAtomic la "COMMENT" s <;> simp only [] <;> try simp
    · rename_i s1 f1
      have m1 := (valCa_fwd h1).mu_lt (hpr _ _ _ h1)
      cases h2 : valSt c la "WHITESPACE" s1 [] <;> simp only [] <;> try simp
      · rename_i s2 f2
        have m2 := (valSt_fwd h2).mu_le
        exact ih _ _ (by omega)
      · exact absurd h2 (hst _ _)
    · exact absurd h1 (hca s)

end loops

end PestModel.V
