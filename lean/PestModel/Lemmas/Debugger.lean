import PestModel.Model.Debugger
/-! Lemmas for C17 (debugger protocol). -/
namespace PestModel.Dbg

end PestModel.Dbg
