import PestModel.Model.ReaderFull
/-
L8 (whole, three-valued) — `pest_meta::parser::consume_rules` with its failure modes kept apart:

* `.err`   — the Rust code returns `Err(vec![Error…])` (a located error: overflowing count, `{0}`, bad
  literal, `PUSH_LITERAL` without `grammar-extras`, `validate_ast` errors);
* `.panic` — the Rust code would hit `unwrap()` on `None`, `unreachable!()`, a string slice off a
  character boundary, or the Pratt parser's panics (every such site of `parser.rs` is one `.panic` here);
* `.ok v`  — the value.

`ReaderFull` (the two-valued model the C07 theorems are about) is this model with `.err` and `.panic`
identified (`Thm/C09`: `readerP_agrees`). C09's `frontend_no_panic` says `.panic` is unreachable on the
pairs the meta-grammar produces.

Evaluation order follows the Rust code where it matters for the classification: `?` stops at the first
`Err` (a later panic site is then not reached); the primaries of a Pratt stage are all evaluated before
the infix closures combine them, so a panic in any of them wins.
-/
namespace PestModel.ReaderP
open PestModel.G PestModel.Reader PestModel.ReaderFull
open PestModel.Views (Tree)
open PestModel.LineCol (Str)

inductive R3 (α : Type) where
  | ok (a : α)
  | err
  | panic
  deriving Repr

def R3.bind {α β : Type} (x : R3 α) (f : α → R3 β) : R3 β :=
  match x with
  | .ok a => f a
  | .err => .err
  | .panic => .panic

def R3.map {α β : Type} (f : α → β) (x : R3 α) : R3 β := x.bind fun a => .ok (f a)

def R3.toOption {α : Type} : R3 α → Option α
  | .ok a => some a
  | _ => none

/-- `None` is a panic (`unwrap`, slicing, `unreachable!`). -/
def orPanic {α : Type} : Option α → R3 α
  | some a => .ok a
  | none => .panic

/-- `None` is a located error (`ok_or_else(|| …)?`, `parse().map_err(…)?`). -/
def orErr {α : Type} : Option α → R3 α
  | some a => .ok a
  | none => .err

/-- `unescape(pair.as_str()).ok_or_else(bad_literal)?` then `string[1..string.len() - 1]`. -/
def literal (text : Str) (t : Tree) : R3 Str :=
  (orPanic (strOf text t)).bind fun s => (orErr (unescape s)).bind fun u => orPanic (stripEnds u)

/-- `number.as_str().parse::<u32>()`, an error when it overflows. -/
def numberOf (text : Str) (t : Tree) : R3 Nat := (orPanic (strOf text t)).bind fun s => orErr (parseU32 s)

def integerOf (text : Str) (t : Tree) : R3 Int := (orPanic (strOf text t)).bind fun s => orErr (parseI32 s)

def getNodeTag (text : Str) : List Tree → R3 (Tree × List Tree × Option Str)
  | [] => .panic
  | p :: rest =>
    match rest with
    | q :: rest1 =>
      if kind q = "assignment_operator" then
        match rest1 with
        | r :: rest2 =>
          (orPanic (strOf text p)).bind fun s => (orPanic (dropFirstByte s)).bind fun tag => .ok (r, rest2, some tag)
        | [] => .panic
      else .ok (p, rest, none)
    | [] => .ok (p, rest, none)

def peekSlice (text : Str) (cs : List Tree) : R3 Expr :=
  match cs with
  | _ :: ps :: rest =>
    let start? : R3 (Int × List Tree) :=
      if kind ps = "range_operator" then .ok (0, rest)
      else if kind ps = "integer" then
        match rest with
        | _ :: rest' => (integerOf text ps).map fun i => (i, rest')
        | [] => .panic
      else .panic
    start?.bind fun (a, more) =>
      match more with
      | pe :: rest' =>
        if kind pe = "closing_brack" then .ok (.peekSlice a none)
        else if kind pe = "integer" then
          match rest' with
          | _ :: _ => (integerOf text pe).map fun b => .peekSlice a (some b)
          | [] => .panic
        else .panic
      | [] => .panic
  | _ => .panic

def leafNode (extras : Bool) (text : Str) (pair : Tree) : R3 Expr :=
  let k := kind pair
  if k = "_push_literal" then
    if extras then
      match pair.children with
      | _ :: c :: _ => (literal text c).map .pushLiteral
      | _ => .panic
    else .err
  else if k = "peek_slice" then peekSlice text pair.children
  else if k = "identifier" then (orPanic (strOf text pair)).map fun s => .ident (String.ofList s)
  else if k = "string" then (literal text pair).map .str
  else if k = "insensitive_string" then
    match pair.children with
    | lit :: _ => (literal text lit).map .insens
    | [] => .panic
  else if k = "range" then
    match pair.children with
    | a :: _ :: b :: _ =>
      (literal text a).bind fun x => (literal text b).bind fun y =>
        -- the Rust reader keeps the two bounds as strings; `inner_chr` makes each exactly one character, so
        -- `theChar` cannot fail on pairs of the meta-grammar (it is not a panic site of the Rust code)
        (orErr (theChar x)).bind fun c => (orErr (theChar y)).bind fun d => .ok (.range c d)
    | _ => .panic
  else .panic

def postfixOp (text : Str) (node : Expr) (p : Tree) : R3 Expr :=
  let k := kind p
  if k = "optional_operator" then .ok (.opt node)
  else if k = "repeat_operator" then .ok (.rep node)
  else if k = "repeat_once_operator" then .ok (.repOnce node)
  else if k = "repeat_exact" then
    match p.children with
    | _ :: n :: _ => (numberOf text n).bind fun num => if num = 0 then .err else .ok (.repExact node num)
    | _ => .panic
  else if k = "repeat_min" then
    match p.children with
    | _ :: n :: _ => (numberOf text n).map fun m => .repMin node m
    | _ => .panic
  else if k = "repeat_max" then
    match p.children with
    | _ :: _ :: n :: _ => (numberOf text n).bind fun mx => if mx = 0 then .err else .ok (.repMax node mx)
    | _ => .panic
  else if k = "repeat_min_max" then
    match p.children with
    | _ :: a :: _ :: b :: _ =>
      (numberOf text a).bind fun mn => (numberOf text b).bind fun mx =>
        if mx = 0 then .err else .ok (.repMinMax node mn mx)
    | _ => .panic
  else if k = "closing_paren" then .ok node
  else .panic

def postfixes (text : Str) (node : Expr) : List Tree → R3 Expr
  | [] => .ok node
  | p :: ps => (postfixOp text node p).bind fun n => postfixes text n ps

/-- `map_infix`: `lhs?` then `rhs?` (both operands have been evaluated already). -/
def build (prims : List (R3 Expr)) : Bin → R3 Expr
  | .leaf i => match prims[i]? with | some r => r | none => .panic
  | .seq a b => (build prims a).bind fun x => (build prims b).bind fun y => .ok (.seq x y)
  | .alt a b => (build prims a).bind fun x => (build prims b).bind fun y => .ok (.choice x y)

def anyPanic : List (R3 Expr) → Bool
  | [] => false
  | .panic :: _ => true
  | _ :: rest => anyPanic rest

def infixStage (ps : List Tree) (prims : List (R3 Expr)) : R3 Expr :=
  match Pratt.parse readerTable (tokens ps 0) with
  | .ok (t, _) =>
    match ofTree t with
    | some b => if anyPanic prims then .panic else build prims b
    | none => .panic
  | _ => .panic

def nodeOf (extras : Bool) (text : Str) (ce un : List Tree → R3 Expr) (pair : Tree) (rest : List Tree) : R3 Expr :=
  let k := kind pair
  if k = "opening_paren" then un rest
  else if k = "positive_predicate_operator" then (un rest).map .posPred
  else if k = "negative_predicate_operator" then (un rest).map .negPred
  else
    let inner : R3 Expr :=
      if k = "expression" then ce pair.children
      else if k = "_push" then
        match pair.children with
        | _ :: e :: _ => (ce e.children).map .push
        | _ => .panic
      else leafNode extras text pair
    inner.bind fun n => postfixes text n rest

def wrapTag (extras : Bool) (node : R3 Expr) (tag : Option Str) : R3 Expr :=
  match tag with
  | some t => if extras then node.map fun n => .nodeTag n t else node
  | none => node

def unariesStep (extras : Bool) (text : Str) (ce un : List Tree → R3 Expr) (pairs : List Tree) : R3 Expr :=
  (getNodeTag text pairs).bind fun (pair, rest, tag) => wrapTag extras (nodeOf extras text ce un pair rest) tag

def consumeExprStep (un : List Tree → R3 Expr) (pairs : List Tree) : R3 Expr :=
  let ps := dropLead pairs
  infixStage ps ((ps.filter fun p => !isOp p).map fun p => un p.children)

mutual
  def consumeExpr (extras : Bool) (text : Str) : Nat → List Tree → R3 Expr
    | 0, _ => .panic
    | f + 1, pairs => consumeExprStep (unaries extras text f) pairs
  def unaries (extras : Bool) (text : Str) : Nat → List Tree → R3 Expr
    | 0, _ => .panic
    | f + 1, pairs => unariesStep extras text (consumeExpr extras text f) (unaries extras text f) pairs
end

def ruleParts (text : Str) (t : Tree) : R3 (String × RuleType × List Tree) :=
  match t.children with
  | id :: _ :: m :: rest =>
    let tyRest : R3 (RuleType × List Tree) :=
      if kind m ≠ "opening_brace" then (orPanic (modifierOf (kind m))).map fun ty => (ty, rest)
      else .ok (.normal, m :: rest)
    tyRest.bind fun (ty, more) =>
      match more with
      | _ :: e :: _ =>
        (orPanic (strOf text id)).bind fun name =>
          match e.children with
          | [] => .panic
          | inner => .ok (String.ofList name, ty, inner)
      | _ => .panic
  | _ => .panic

def consumeRule (extras : Bool) (text : Str) (fuel : Nat) (t : Tree) : R3 Rule :=
  (ruleParts text t).bind fun (name, ty, inner) =>
    (consumeExpr extras text fuel (dropLead inner)).map fun body => ⟨name, ty, body⟩

def consumeRulesGo (extras : Bool) (text : Str) (fuel : Nat) : List Tree → R3 (List Rule)
  | [] => .ok []
  | t :: ts =>
    if kind t = "grammar_rule" then
      match t.children with
      | [] => .panic
      | c :: _ =>
        if kind c = "line_doc" then consumeRulesGo extras text fuel ts
        else (consumeRule extras text fuel t).bind fun r => (consumeRulesGo extras text fuel ts).map fun rs => r :: rs
    else consumeRulesGo extras text fuel ts

def consumeRulesWithSpans (extras : Bool) (text : Str) (forest : List Tree) : R3 (List Rule) :=
  consumeRulesGo extras text (PestModel.Views.sizeList forest + 1) forest

def consumeRules (extras : Bool) (text : Str) (forest : List Tree) : R3 (List Rule) :=
  (consumeRulesWithSpans extras text forest).bind fun rules =>
    if (PestModel.V.validateAst extras rules).isEmpty then .ok rules else .err

/-- `parse(Rule::grammar_rules, text)` then `consume_rules`: `none` = the reference denotation gives no
verdict within the fuel; a parse failure of the text is a located error. -/
def readGrammar (extras : Bool) (text : Str) : Option (R3 (List Rule)) :=
  match PestModel.Ref.meaning PestModel.Gen.Meta.rules false noUni 1000000 "grammar_rules" text with
  | .ok _ forest => some (consumeRules extras text forest)
  | .fail => some .err
  | _ => none

end PestModel.ReaderP
