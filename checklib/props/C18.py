"""C18 — the bundled JSON grammar accepts exactly RFC 8259 JSON."""
from props.common import *

MODULE = ["PestModel.Thm.C18", "PestModel.Thm.Capstone"]
DRV, MODE = "drv_json", "grammar"


def run(ctx):
    simple_property(
        ctx, MODULE, DRV, MODE,
        oracle_kind="pest_grammars' JsonParser accepts a string that is not RFC 8259 JSON, or rejects one that is",
        corr_kind="correspondence `J` (JsonParser acceptance and token tree vs the Lean transcription of RFC 8259's ABNF, which must coincide with the reference denotation of the REGENERATED json.pest)",
        rule="EXHAUSTIVE over all strings of <= 5 (quick) / 6 (thorough) symbols from a JSON-heavy alphabet ({ } [ ] , : \" \\ 0 1 - . e space …), plus 50 hand-written near-misses (leading zeros, bare signs, trailing commas, control characters and bad escapes in strings, truncated literals, BOM, NaN …), plus seeded random documents of every shape to depth 4 and one-edit mutations, plus nesting to depth 150; each string goes through JsonParser (acceptance + full token tree with byte spans), the RFC recogniser in Rust (oracle), and in Lean both the RFC transcription and the reference denotation of json.pest (any split between the two is shown); non-trivial = accepted documents",
        nontrivial_key="distinct_nontrivial",
        exhaustive=True, scope="all strings up to the stated length over a 13/14-symbol alphabet",
        assumptions=[
            "RFC 8259 is transcribed twice, independently of json.pest: PestModel.Json.jsonText (Lean, also builds the document tree) and rfc_accepts (Rust); neither is another JSON library",
            "json.pest is REGENERATED into a Lean value on every run (tr_grammar); nesting beyond depth 150 is not exercised (native stack depth is outside any executable model)",
        ],
        leancheck=MODULE,
    )
    # the same shipped parser when the code generator is built with its optional feature `grammar-extras` (cargo unifies features:
    # anyone who enables it for a grammar of their own gets pest_grammars' parsers generated that way): same strings, same oracle,
    # same model
    ok, out, bindir, _ = cargo_build("derive_extras", [DRV])
    stats = {}
    if not ok:
        ctx.violation({"obligation": "harness does not build against /repo (features derive_extras)", "log": out[-2000:]}, no_input=True)
    else:
        c = correspond("gen-derive-extras", os.path.join(bindir, DRV), ["gen", ctx.tier, str(ctx.seed)], MODE, os.path.join(ctx.rundir, "gen-derive-extras"))
        if c.error:
            ctx.violation({"correspondence": c.name, "error": c.error}, no_input=True)
        else:
            stats = {"lines": c.n, "oracle_failures": len(c.oracle_fail), "mismatches": len(c.mismatch)}
            if c.oracle_fail:
                i, op, imp, v = min(c.oracle_fail, key=lambda t: (len(t[1]), t[1]))
                ctx.violation({"kind": "pest_grammars' JsonParser, generated with pest_generator's feature grammar-extras, accepts a string that is not RFC 8259 JSON, or rejects one that is",
                               "features": "derive_extras", "case": op, "impl": imp[:600], "oracle": v[:600], "failing_cases_in_run": len(c.oracle_fail)})
            elif c.mismatch:
                i, op, imp, mod = min(c.mismatch, key=lambda t: (len(t[1]), t[1]))
                ctx.violation({"kind": "correspondence `J` (JsonParser generated with grammar-extras vs the RFC transcription / reference denotation of json.pest) no longer checks",
                               "features": "derive_extras", "case": op, "impl": imp[:600], "model": mod[:600], "mismatches_in_run": len(c.mismatch)})
    ev_path = os.path.join(EVIDENCE, f"{ctx.prop}.json")
    ev = json.load(open(ev_path))
    ev["coverage"]["distribution"] = dict(ev["coverage"].get("distribution", {}), generator_with_grammar_extras=stats)
    ev["coverage"]["traces_validated_against_impl"] = ev["coverage"].get("traces_validated_against_impl", 0) + stats.get("lines", 0)
    ev["violations"] = len(ctx.violations)
    ev["wall_s"] = round(time.time() - ctx.t0, 2)
    json.dump(ev, open(ev_path, "w"), indent=1)


def replay(ctx, path):
    r = json.load(open(path))
    return replay_generic(ctx, path, DRV, MODE, featureset=("derive_extras" if r.get("features") == "derive_extras" else "default"))
