import PestModel.Thm.C11
/-!
# C11 — transactions: `snapshot; body; restore` is a no-op, `snapshot; body; clear_snapshot` is the body

Corollaries of `C11.run_refines` for *every* prefix history and *every* balanced body (nested
transactions at any depth, pops below the snapshot line, re-pushes): the statement the parser
relies on when it backtracks (`restore_on_err`, lookaheads) — stated on the model of `pest::Stack`,
not on the naive stack.
-/
namespace PestModel.C11
open PestModel.Stack
variable {α : Type}

/-- Histories in which every `restore`/`clearSnapshot` closes a `snapshot` opened inside the
history itself (a transaction body, with nested transactions allowed). -/
inductive Balanced : List (Op α) → Prop where
  | nil : Balanced []
  | push (x : α) {b} : Balanced b → Balanced (.push x :: b)
  | pop {b} : Balanced b → Balanced (.pop :: b)
  | peek {b} : Balanced b → Balanced (.peek :: b)
  | abort {b c} : Balanced b → Balanced c → Balanced (.snapshot :: b ++ .restore :: c)
  | commit {b c} : Balanced b → Balanced c → Balanced (.snapshot :: b ++ .clearSnapshot :: c)

theorem naive_run_append (n : Naive α) (a b : List (Op α)) :
    Naive.run n (a ++ b) =
      ((Naive.run (Naive.run n a).1 b).1, (Naive.run n a).2 ++ (Naive.run (Naive.run n a).1 b).2) := by
  induction a generalizing n with
  | nil => simp [Naive.run]
  | cons op a ih => simp [Naive.run, ih]

/-- A balanced body leaves the saved copies of the naive stack untouched. -/
theorem naive_balanced_saved (b : List (Op α)) (hb : Balanced b) (n : Naive α) :
    (Naive.run n b).1.saved = n.saved := by
  induction hb generalizing n with
  | nil => rfl
  | push x _ ih => simp [Naive.run, Naive.step, ih]
  | pop _ ih => simp [Naive.run, Naive.step, ih]
  | peek _ ih => simp [Naive.run, Naive.step, ih]
  | @abort b c _ _ ihb ihc =>
    have e : (.snapshot :: b ++ .restore :: c : List (Op α)) = (.snapshot :: b) ++ (.restore :: c) := rfl
    rw [e, naive_run_append]
    have h1 := ihb { cur := n.cur, saved := n.cur :: n.saved }
    simp only [Naive.run, Naive.step]
    rw [h1]; simp [ihc]
  | @commit b c _ _ ihb ihc =>
    have e : (.snapshot :: b ++ .clearSnapshot :: c : List (Op α)) = (.snapshot :: b) ++ (.clearSnapshot :: c) := rfl
    rw [e, naive_run_append]
    have h1 := ihb { cur := n.cur, saved := n.cur :: n.saved }
    simp only [Naive.run, Naive.step]
    rw [h1]; simp [ihc]

/-- **Abort is a no-op on the contents.** After any history `h`, `snapshot; b; restore` with `b`
any balanced body (nested transactions, pops below the snapshot line, re-pushes) does not panic and
leaves exactly the contents `h` left. -/
theorem transaction_abort (h b : List (Op α)) (hb : Balanced b) :
    ∃ s s', run Stk.new h = some s ∧
      run Stk.new (h ++ .snapshot :: b ++ [.restore]) = some s' ∧ s'.1.cache = s.1.cache := by
  obtain ⟨s, hs, hc⟩ := run_refines h
  obtain ⟨s', hs', hc'⟩ := run_refines (h ++ .snapshot :: b ++ [.restore])
  refine ⟨_, _, hs, hs', ?_⟩
  simp only [hc, hc']
  have e : h ++ .snapshot :: b ++ [.restore] = h ++ ((.snapshot :: b) ++ [.restore]) := by simp
  rw [e, naive_run_append, naive_run_append]
  generalize (Naive.run Naive.new h).1 = n
  have h1 := naive_balanced_saved b hb { cur := n.cur, saved := n.cur :: n.saved }
  simp only [Naive.run, Naive.step]
  rw [h1]

/-- A balanced body computes its contents from the contents alone: the saved copies that were
there before it are never read. -/
theorem naive_balanced_cur (b : List (Op α)) (hb : Balanced b) (cur : List α) (sv sv' : List (List α)) :
    (Naive.run ⟨cur, sv⟩ b).1.cur = (Naive.run ⟨cur, sv'⟩ b).1.cur := by
  induction hb generalizing cur sv sv' with
  | nil => rfl
  | push x _ ih => simp only [Naive.run, Naive.step]; exact ih _ _ _
  | pop _ ih => simp only [Naive.run, Naive.step]; exact ih _ _ _
  | peek _ ih => simp only [Naive.run, Naive.step]; exact ih _ _ _
  | @abort b c hb _ ihb ihc =>
    have e : (.snapshot :: b ++ .restore :: c : List (Op α)) = (.snapshot :: b) ++ (.restore :: c) := rfl
    rw [e, naive_run_append, naive_run_append]
    have h1 := naive_balanced_saved b hb { cur := cur, saved := cur :: sv }
    have h2 := naive_balanced_saved b hb { cur := cur, saved := cur :: sv' }
    simp only [Naive.run, Naive.step]
    rw [h1, h2]; exact ihc _ _ _
  | @commit b c hb _ ihb ihc =>
    have e : (.snapshot :: b ++ .clearSnapshot :: c : List (Op α)) = (.snapshot :: b) ++ (.clearSnapshot :: c) := rfl
    rw [e, naive_run_append, naive_run_append]
    have h1 := naive_balanced_saved b hb { cur := cur, saved := cur :: sv }
    have h2 := naive_balanced_saved b hb { cur := cur, saved := cur :: sv' }
    have h3 := ihb cur (cur :: sv) (cur :: sv')
    simp only [Naive.run, Naive.step]
    rw [h1, h2, h3]; exact ihc _ _ _

/-- **Commit keeps the body's effect.** `snapshot; b; clearSnapshot` leaves the contents that
`b` alone would have left after `h`. -/
theorem transaction_commit (h b : List (Op α)) (hb : Balanced b) :
    ∃ s s', run Stk.new (h ++ b) = some s ∧
      run Stk.new (h ++ .snapshot :: b ++ [.clearSnapshot]) = some s' ∧ s'.1.cache = s.1.cache := by
  obtain ⟨s, hs, hc⟩ := run_refines (h ++ b)
  obtain ⟨s', hs', hc'⟩ := run_refines (h ++ .snapshot :: b ++ [.clearSnapshot])
  refine ⟨_, _, hs, hs', ?_⟩
  simp only [hc, hc']
  have e : h ++ .snapshot :: b ++ [.clearSnapshot] = h ++ ((.snapshot :: b) ++ [.clearSnapshot]) := by simp
  rw [e, naive_run_append, naive_run_append, naive_run_append]
  generalize (Naive.run Naive.new h).1 = n
  simp only [Naive.run, Naive.step]
  exact naive_balanced_cur b hb n.cur _ _

/-- Non-vacuity: a nested body (an inner aborted transaction that pops below both snapshot lines,
then an inner committed one) is balanced. -/
example : Balanced ([.pop, .snapshot, .pop, .pop, .push 7, .restore, .snapshot, .push 8,
    .clearSnapshot, .peek] : List (Op Nat)) :=
  .pop (@Balanced.abort _ [.pop, .pop, .push 7] _ (.pop (.pop (.push 7 .nil)))
    (@Balanced.commit _ [.push 8] _ (.push 8 .nil) (.peek .nil)))

theorem naive_run_out_length (n : Naive α) (ops : List (Op α)) :
    (Naive.run n ops).2.length = ops.length := by
  induction ops generalizing n with
  | nil => rfl
  | cons op ops ih => simp [Naive.run, ih]

/-- On the specification an aborted transaction restores the *whole* state, saved copies included. -/
theorem naive_abort_state (n : Naive α) (b : List (Op α)) (hb : Balanced b) :
    (Naive.run n (.snapshot :: b ++ [.restore])).1 = n := by
  have e : (.snapshot :: b ++ [.restore] : List (Op α)) = (.snapshot :: b) ++ [.restore] := rfl
  rw [e, naive_run_append]
  have h1 := naive_balanced_saved b hb { cur := n.cur, saved := n.cur :: n.saved }
  simp only [Naive.run, Naive.step]
  rw [h1]

/-- **An aborted transaction is invisible to every future.** For every prefix history `h`, balanced
body `b` and continuation `k` (arbitrary: it may restore or clear snapshots opened in `h`), running
`k` after `h; snapshot; b; restore` does not panic, returns from every `pop`/`peek` of `k` what it
returns after `h` alone, and ends with the same contents. -/
theorem transaction_abort_future (h b k : List (Op α)) (hb : Balanced b) :
    ∃ s s' oh ot ok, run Stk.new (h ++ k) = some (s, oh ++ ok) ∧
      run Stk.new (h ++ (.snapshot :: b ++ [.restore]) ++ k) = some (s', oh ++ ot ++ ok) ∧
      oh.length = h.length ∧ ot.length = b.length + 2 ∧ ok.length = k.length ∧
      s'.cache = s.cache := by
  obtain ⟨s, hs, hc⟩ := run_refines (h ++ k)
  obtain ⟨s', hs', hc'⟩ := run_refines (h ++ (.snapshot :: b ++ [.restore]) ++ k)
  rw [naive_run_append] at hs hc
  rw [naive_run_append, naive_run_append] at hs' hc'
  rw [naive_abort_state _ b hb] at hs' hc'
  refine ⟨s, s', _, _, _, hs, hs', naive_run_out_length _ _, ?_, naive_run_out_length _ _, ?_⟩
  · rw [naive_run_out_length]; simp
  · rw [hc, hc']

/-- A balanced body's `pop`/`peek` results do not depend on the saved copies that were there before it. -/
theorem naive_balanced_out (b : List (Op α)) (hb : Balanced b) (cur : List α) (sv sv' : List (List α)) :
    (Naive.run ⟨cur, sv⟩ b).2 = (Naive.run ⟨cur, sv'⟩ b).2 := by
  induction hb generalizing cur sv sv' with
  | nil => rfl
  | push x _ ih => simp only [Naive.run, Naive.step]; rw [ih _ sv sv']
  | pop _ ih => simp only [Naive.run, Naive.step]; rw [ih _ sv sv']
  | peek _ ih => simp only [Naive.run, Naive.step]; rw [ih _ sv sv']
  | @abort b c hb _ ihb ihc =>
    have e : (.snapshot :: b ++ .restore :: c : List (Op α)) = (.snapshot :: b) ++ (.restore :: c) := rfl
    rw [e, naive_run_append, naive_run_append]
    have h1 := naive_balanced_saved b hb { cur := cur, saved := cur :: sv }
    have h2 := naive_balanced_saved b hb { cur := cur, saved := cur :: sv' }
    have h3 := ihb cur (cur :: sv) (cur :: sv')
    simp only [Naive.run, Naive.step]
    rw [h1, h2, h3, ihc _ sv sv']
  | @commit b c hb _ ihb ihc =>
    have e : (.snapshot :: b ++ .clearSnapshot :: c : List (Op α)) = (.snapshot :: b) ++ (.clearSnapshot :: c) := rfl
    rw [e, naive_run_append, naive_run_append]
    have h1 := naive_balanced_saved b hb { cur := cur, saved := cur :: sv }
    have h2 := naive_balanced_saved b hb { cur := cur, saved := cur :: sv' }
    have h3 := ihb cur (cur :: sv) (cur :: sv')
    have h4 := naive_balanced_cur b hb cur (cur :: sv) (cur :: sv')
    simp only [Naive.run, Naive.step]
    rw [h1, h2, h3, h4]; exact congrArg _ (congrArg _ (ihc _ _ _))

/-- On the specification a committed transaction ends in the state its body alone ends in. -/
theorem naive_commit_state (n : Naive α) (b : List (Op α)) (hb : Balanced b) :
    (Naive.run n (.snapshot :: b ++ [.clearSnapshot])).1 = (Naive.run n b).1 := by
  have e : (.snapshot :: b ++ [.clearSnapshot] : List (Op α)) = (.snapshot :: b) ++ [.clearSnapshot] := rfl
  rw [e, naive_run_append]
  have h1 := naive_balanced_saved b hb { cur := n.cur, saved := n.cur :: n.saved }
  have h2 := naive_balanced_saved b hb n
  have h3 := naive_balanced_cur b hb n.cur (n.cur :: n.saved) n.saved
  simp only [Naive.run, Naive.step]
  rw [h1]
  show Naive.mk _ _ = _
  rw [h3]
  cases hn : Naive.run n b with
  | mk m os => cases m; simp_all

/-- **A committed transaction is its body, for every future.** For every prefix history `h`,
balanced body `b` and arbitrary continuation `k`: `h; snapshot; b; clear_snapshot; k` does not panic,
and the `pop`/`peek` results of `b` and of `k` and the final contents are those of `h; b; k`. -/
theorem transaction_commit_future (h b k : List (Op α)) (hb : Balanced b) :
    ∃ s s' oh ob ok, run Stk.new (h ++ b ++ k) = some (s, oh ++ ob ++ ok) ∧
      run Stk.new (h ++ (.snapshot :: b ++ [.clearSnapshot]) ++ k)
        = some (s', oh ++ (.unit :: ob ++ [.unit]) ++ ok) ∧
      oh.length = h.length ∧ ob.length = b.length ∧ ok.length = k.length ∧
      s'.cache = s.cache := by
  obtain ⟨s, hs, hc⟩ := run_refines (h ++ b ++ k)
  obtain ⟨s', hs', hc'⟩ := run_refines (h ++ (.snapshot :: b ++ [.clearSnapshot]) ++ k)
  rw [naive_run_append, naive_run_append] at hs hc
  rw [naive_run_append, naive_run_append] at hs' hc'
  rw [naive_commit_state _ b hb] at hs' hc'
  have eo : ∀ n : Naive α, (Naive.run n (.snapshot :: b ++ [.clearSnapshot])).2
      = .unit :: (Naive.run n b).2 ++ [.unit] := by
    intro n
    have e : (.snapshot :: b ++ [.clearSnapshot] : List (Op α)) = (.snapshot :: b) ++ [.clearSnapshot] := rfl
    rw [e, naive_run_append]
    simp only [Naive.run, Naive.step]
    rw [naive_balanced_out b hb n.cur (n.cur :: n.saved) n.saved]
  rw [eo] at hs'
  exact ⟨s, s', _, _, _, hs, hs', naive_run_out_length _ _, naive_run_out_length _ _,
    naive_run_out_length _ _, by rw [hc, hc']⟩

theorem absSaved_length (cur popped : List α) (ls : List (Nat × Nat)) :
    (absSaved cur popped ls).length = ls.length := by
  induction ls generalizing cur popped with
  | nil => rfl
  | cons p ls ih => obtain ⟨len, rem⟩ := p; simp [absSaved, ih]

/-- **No bookkeeping leaks.** After every history the real stack holds exactly one `(len, remained)`
pair per open snapshot of the specification, and once no snapshot is open (every transaction
committed or aborted) the `popped` side vector is empty again — whatever happened inside. -/
theorem bookkeeping_no_leak (ops : List (Op α)) :
    ∃ s os, run Stk.new ops = some (s, os) ∧
      s.lengths.length = (Naive.run Naive.new ops).1.saved.length ∧
      ((Naive.run Naive.new ops).1.saved = [] → s.popped = [] ∧ s.lengths = []) := by
  obtain ⟨s, h1, hi, h3⟩ := run_refines_from (Stk.new : Stk α) ops inv_init
  have e : abs (Stk.new : Stk α) = Naive.new := rfl
  rw [e] at h1 h3
  have hl : s.lengths.length = (Naive.run Naive.new ops).1.saved.length := by
    rw [← h3]; simp [abs, absSaved_length]
  refine ⟨s, _, h1, hl, ?_⟩
  intro hs
  rw [hs] at hl
  have hn : s.lengths = [] := List.eq_nil_of_length_eq_zero hl
  refine ⟨?_, hn⟩
  have := hi
  unfold StkInv at this
  rw [hn] at this
  simp [StkInvL] at this
  exact this

/-- In particular a balanced history from the empty stack leaves no bookkeeping behind. -/
theorem balanced_no_leak (b : List (Op α)) (hb : Balanced b) :
    ∃ s os, run Stk.new b = some (s, os) ∧ s.popped = [] ∧ s.lengths = [] := by
  obtain ⟨s, os, h1, -, h3⟩ := bookkeeping_no_leak b
  exact ⟨s, os, h1, h3 (naive_balanced_saved b hb Naive.new)⟩

end PestModel.C11
