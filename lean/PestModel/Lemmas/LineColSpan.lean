import PestModel.Lemmas.LineColLineOf
namespace PestModel.LineCol

/-! ### spec side: `specLinesGo` -/

theorem specLinesGo_no_nl {H : Str} (hH : '\n' ∉ H) (post : Str) (st cur : Nat) :
    specLinesGo (H ++ post) st cur = specLinesGo post st (cur + bLen H) := by
  induction H generalizing cur with
  | nil => simp
  | cons c cs ih =>
    simp at hH
    simp only [List.cons_append, specLinesGo]
    rw [if_neg (fun e => hH.1 e.symm), ih hH.2]
    simp [Nat.add_assoc]

theorem specLinesGo_nl {post : Str} (h : '\n' ∈ post) (st cur : Nat) :
    specLinesGo post st cur = (st, cur + bLen (lineTail post)) ::
      specLinesGo (lineRest post) (cur + bLen (lineTail post)) (cur + bLen (lineTail post)) := by
  induction post generalizing cur with
  | nil => simp at h
  | cons c cs ih =>
    simp only [specLinesGo, lineTail, lineRest]
    by_cases hc : c = '\n'
    · subst hc; simp
    · have : '\n' ∈ cs := by
        simp at h; rcases h with h | h
        · exact absurd h.symm hc
        · exact h
      simp only [if_neg hc, ih this, bLen_cons, Nat.add_assoc]

theorem lineTail_closed {post : Str} (h : '\n' ∈ post) : ∃ d, lineTail post = d ++ ['\n'] := by
  induction post with
  | nil => simp at h
  | cons c cs ih =>
    simp only [lineTail]
    by_cases hc : c = '\n'
    · subst hc; exact ⟨[], by simp⟩
    · have : '\n' ∈ cs := by
        simp at h; rcases h with h | h
        · exact absurd h.symm hc
        · exact h
      obtain ⟨d, hd⟩ := ih this
      exact ⟨c :: d, by simp [hc, hd]⟩

theorem lineTail_no_nl {post : Str} (h : '\n' ∉ post) : lineTail post = post := by
  induction post with
  | nil => rfl
  | cons c cs ih =>
    simp at h
    simp only [lineTail]
    rw [if_neg (fun e => h.1 e.symm), ih h.2]

theorem specLinesGo_of_no_nl {post : Str} (h : '\n' ∉ post) (st cur : Nat) :
    specLinesGo post st cur = [(st, cur + bLen post)] := by
  have := specLinesGo_no_nl h [] st cur
  simpa [specLinesGo] using this

theorem specLinesGo_bounds (r : Str) (st cur : Nat) (h : st ≤ cur) :
    ∀ p ∈ specLinesGo r st cur, st ≤ p.1 ∧ cur ≤ p.2 ∧ p.2 ≤ cur + bLen r := by
  induction r generalizing st cur with
  | nil => simp [specLinesGo]
  | cons c cs ih =>
    intro p hp
    simp only [specLinesGo] at hp
    split at hp
    · rename_i hc; subst hc
      simp only [List.mem_cons] at hp
      rcases hp with rfl | hp
      · simp
      · have := ih (cur + 1) (cur + 1) (Nat.le_refl _) p hp
        simp; omega
    · have := ih st (cur + cLen c) (by omega) p hp
      simp; omega

theorem specLinesGo_closed_prefix (d rest : Str) (st cur : Nat) (h : st ≤ cur) :
    ∃ pref, specLinesGo (d ++ '\n' :: rest) st cur
        = pref ++ specLinesGo rest (cur + bLen d + 1) (cur + bLen d + 1) ∧
      ∀ p ∈ pref, p.2 ≤ cur + bLen d + 1 := by
  induction d generalizing st cur with
  | nil => exact ⟨[(st, cur + 1)], by simp [specLinesGo], by simp⟩
  | cons c cs ih =>
    simp only [List.cons_append, specLinesGo]
    by_cases hc : c = '\n'
    · subst hc
      obtain ⟨pref, h1, h2⟩ := ih (cur + 1) (cur + 1) (Nat.le_refl _)
      refine ⟨(st, cur + 1) :: pref, ?_, ?_⟩
      · simp [h1]; simp [Nat.add_assoc, Nat.add_comm 1]
      · intro p hp
        simp only [List.mem_cons] at hp
        rcases hp with rfl | hp
        · simp
        · have := h2 p hp; simp; omega
    · obtain ⟨pref, h1, h2⟩ := ih st (cur + cLen c) (by omega)
      refine ⟨pref, ?_, ?_⟩
      · simp [hc, h1]; simp [Nat.add_assoc]
      · intro p hp
        have := h2 p hp; simp; omega

theorem specLines_closed_prefix {A : Str} (hA : Closed A) (rest : Str) :
    ∃ pref, specLines (A ++ rest) = pref ++ specLinesGo rest (bLen A) (bLen A) ∧
      ∀ p ∈ pref, p.2 ≤ bLen A := by
  rcases hA with rfl | ⟨d, rfl⟩
  · exact ⟨[], by simp [specLines], by simp⟩
  · obtain ⟨pref, h1, h2⟩ := specLinesGo_closed_prefix d rest 0 0 (Nat.le_refl _)
    refine ⟨pref, ?_, ?_⟩
    · simp [specLines, h1]
    · simpa using h2

/-! ### model side: `linesSpanGo` -/

theorem linesSpanGo_gt {s : Str} {b pos : Nat} (h : pos > b) (fuel : Nat) :
    linesSpanGo s b fuel pos = [] := by
  cases fuel <;> simp [linesSpanGo, h]

theorem linesSpanGo_end (s : Str) (b fuel : Nat) : linesSpanGo s b fuel (bLen s) = [] := by
  cases fuel <;> simp [linesSpanGo]

theorem linesSpanGo_step {A : Str} (hA : Closed A) {H : Str} (hH : '\n' ∉ H) {post : Str}
    (hpost : post ≠ []) {b : Nat} (hb : bLen A + bLen H ≤ b) (fuel : Nat) :
    linesSpanGo (A ++ H ++ post) b (fuel + 1) (bLen A + bLen H) =
      (bLen A, bLen A + bLen H + bLen (lineTail post)) ::
        linesSpanGo (A ++ H ++ post) b fuel (bLen A + bLen H + bLen (lineTail post)) := by
  have hT := lineTail_pos hpost
  have hTle := bLen_lineTail_le post
  have hbd : isBoundary (A ++ H ++ post) (bLen A + bLen H) = true :=
    (isBoundary_iff _ _).2 ⟨A ++ H, post, rfl, by simp⟩
  have hls := findLineStart_spec hA hH post
  have hle := findLineEnd_spec (A ++ H) post
  rw [bLen_append] at hle
  have hsp : spanNew (A ++ H ++ post) (bLen A) (bLen A + bLen H + bLen (lineTail post)) = true := by
    unfold spanNew
    have := slice_append A (H ++ lineTail post) (lineRest post)
    simp only [List.append_assoc, lineTail_append_lineRest, bLen_append] at this
    simp only [List.append_assoc, Nat.add_assoc, this]
    rfl
  rw [linesSpanGo]
  rw [if_neg (by omega)]
  simp only [hbd, hls, hle, hsp]
  rw [if_neg (by simp)]
  simp; omega

theorem length_lineRest_lt {post : Str} (h : post ≠ []) : (lineRest post).length < post.length := by
  induction post with
  | nil => exact absurd rfl h
  | cons c cs ih =>
    simp only [lineRest]
    split
    · simp
    · cases cs with
      | nil => simp [lineRest]
      | cons d ds => have := ih (by simp); simp at this ⊢; omega

theorem linesSpanGo_spec (fuel : Nat) : ∀ (A H post : Str) (b : Nat), Closed A → '\n' ∉ H →
    post.length + 1 ≤ fuel → (H = [] ∨ bLen A + bLen H ≤ b) →
    linesSpanGo (A ++ H ++ post) b fuel (bLen A + bLen H) =
      (specLinesGo post (bLen A) (bLen A + bLen H)).filter
        (fun (x, y) => x < y ∧ x ≤ b ∧ bLen A + bLen H < y) := by
  induction fuel with
  | zero => intro A H post b _ _ h; omega
  | succ fuel ih =>
    intro A H post b hA hH hfuel hb
    by_cases hpost : post = []
    · subst hpost
      have : bLen A + bLen H = bLen (A ++ H ++ []) := by simp
      rw [this, linesSpanGo_end]
      simp [specLinesGo]
    by_cases hgt : bLen A + bLen H > b
    · rw [linesSpanGo_gt hgt]
      have hH0 : H = [] := by rcases hb with h | h; exact h; omega
      subst hH0
      symm
      rw [List.filter_eq_nil_iff]
      intro p hp
      have := specLinesGo_bounds post (bLen A) (bLen A + bLen []) (by simp) p hp
      obtain ⟨x, y⟩ := p
      simp only [bLen_nil, Nat.add_zero] at this hgt
      intro hd
      have hd' := of_decide_eq_true hd
      simp only [bLen_nil, Nat.add_zero] at hd'
      omega
    · have hb' : bLen A + bLen H ≤ b := by omega
      rw [linesSpanGo_step hA hH hpost hb']
      have hT := lineTail_pos hpost
      by_cases hnl : '\n' ∈ post
      · rw [specLinesGo_nl hnl]
        rw [List.filter_cons_of_pos (by simp; omega)]
        congr 1
        obtain ⟨d, hd⟩ := lineTail_closed hnl
        have hA' : Closed (A ++ H ++ lineTail post) := Or.inr ⟨A ++ H ++ d, by simp [hd]⟩
        have := ih (A ++ H ++ lineTail post) [] (lineRest post) b hA' (by simp)
          (by have := length_lineRest_lt hpost; omega) (Or.inl rfl)
        simp only [List.append_nil, bLen_append, bLen_nil, Nat.add_zero, List.append_assoc,
          lineTail_append_lineRest] at this
        simp only [List.append_assoc]
        rw [← Nat.add_assoc] at this
        rw [this]
        apply List.filter_congr
        intro p hp
        have := specLinesGo_bounds _ _ _ (Nat.le_refl _) p hp
        rw [Bool.eq_iff_iff]
        simp only [decide_eq_true_eq]
        omega
      · rw [specLinesGo_of_no_nl hnl, lineTail_no_nl hnl]
        have : bLen A + bLen H + bLen post = bLen (A ++ H ++ post) := by simp [Nat.add_assoc]
        rw [this, linesSpanGo_end]
        rw [lineTail_no_nl hnl] at hT
        rw [List.filter_cons_of_pos (by simp only [decide_eq_true_eq]; omega)]
        simp

theorem length_le_bLen (s : Str) : s.length ≤ bLen s := by
  induction s with
  | nil => simp
  | cons c cs ih => have := cLen_pos c; simp; omega

theorem linesSpan_boundary (pre post : Str) (b : Nat) (hab : bLen pre ≤ b) :
    linesSpan (pre ++ post) (bLen pre) b = specLinesSpan (pre ++ post) (bLen pre) b := by
  have hdec := linePre_append_lineHead pre
  have hlen : bLen (linePre pre) + bLen (lineHead pre) = bLen pre := by
    rw [← bLen_append, hdec]
  have hfuel : post.length + 1 ≤ bLen (pre ++ post) + 1 := by
    have := length_le_bLen post; simp; omega
  have h1 := linesSpanGo_spec (bLen (pre ++ post) + 1) (linePre pre) (lineHead pre) post b
    (linePre_closed pre) (lineHead_no_nl pre) hfuel (Or.inr (by omega))
  rw [hdec, hlen] at h1
  unfold linesSpan
  rw [h1]
  unfold specLinesSpan
  obtain ⟨pref, hp1, hp2⟩ := specLines_closed_prefix (linePre_closed pre) (lineHead pre ++ post)
  rw [← List.append_assoc, hdec] at hp1
  rw [hp1, List.filter_append, specLinesGo_no_nl (lineHead_no_nl pre), hlen]
  have : pref.filter (fun (x, y) => x < y ∧ x ≤ b ∧ bLen pre < y) = [] := by
    rw [List.filter_eq_nil_iff]
    rintro ⟨x, y⟩ hp hd
    have := hp2 _ hp
    have hd' := of_decide_eq_true hd
    simp only at this hd'
    omega
  rw [this]
  rfl

theorem linesSpan_eq_spec (s : Str) (a b : Nat) (hab : a ≤ b) (ha : isBoundary s a = true) :
    linesSpan s a b = specLinesSpan s a b := by
  obtain ⟨pre, post, rfl, rfl⟩ := (isBoundary_iff _ _).1 ha
  exact linesSpan_boundary pre post b hab

end PestModel.LineCol
