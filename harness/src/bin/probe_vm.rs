//! ad-hoc probe: `probe_vm <grammar text> <rule> <input>` prints what pest_meta + pest_vm do.
fn main() {
    let a: Vec<String> = std::env::args().collect();
    match pest_meta::parse_and_optimize(&a[1]) {
        Err(e) => { println!("grammar rejected:"); for x in e { println!("{}", x); } }
        Ok((_, rules)) => {
            let vm = pest_vm::Vm::new(rules);
            let r = std::panic::catch_unwind(std::panic::AssertUnwindSafe(|| vm.parse(&a[2], &a[3]).map(|p| format!("{:?}", p.map(|x| format!("{}({},{})", x.as_rule(), x.as_span().start(), x.as_span().end())).collect::<Vec<_>>())).map_err(|e| format!("{}", e))));
            println!("{:?}", r.map_err(|_| "PANIC"));
        }
    }
}
