import PestModel.Model.LineCol
/-! Specification-side definitions for C10 (counting definitions; no reference to the algorithms). -/
namespace PestModel.LineCol

/-- chars of the current line before the offset: after the last `'\n'` of `pre`. -/
def lineHead (pre : Str) : Str := (pre.reverse.takeWhile (· ≠ '\n')).reverse

/-- chars from the offset through the first `'\n'` inclusive (or to the end). -/
def lineTail : Str → Str
  | [] => []
  | c :: cs => if c = '\n' then [c] else c :: lineTail cs

/-- The line containing the split point `pre | post`: maximal `'\n'`-terminated segment. -/
def specLineOf (pre post : Str) : Str := lineHead pre ++ lineTail post

/-- All lines of `s` as byte ranges: maximal `'\n'`-terminated segments, the last one possibly
unterminated (possibly empty). Arguments: remaining chars, start of current line, current offset. -/
def specLinesGo : Str → Nat → Nat → List (Nat × Nat)
  | [], st, cur => [(st, cur)]
  | c :: cs, st, cur =>
    if c = '\n' then (st, cur + 1) :: specLinesGo cs (cur + 1) (cur + 1)
    else specLinesGo cs st (cur + cLen c)

def specLines (s : Str) : List (Nat × Nat) := specLinesGo s 0 0

/-- The non-empty lines meeting the closed byte range `[a, b]`. -/
def specLinesSpan (s : Str) (a b : Nat) : List (Nat × Nat) :=
  (specLines s).filter fun (x, y) => x < y ∧ x ≤ b ∧ a < y

end PestModel.LineCol
