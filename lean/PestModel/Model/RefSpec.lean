import PestModel.Model.Ref
/-! Meaning-equivalence of expressions under the reference denotation (C05, C01). -/
namespace PestModel.Ref
open PestModel.G
open PestModel.PS (Atomicity CharSet)

/-- `e` evaluates to the definite result `r` (success, failure or stuck) given enough fuel. -/
def Evals (c : Ctx) (m : Atomicity) (la : Bool) (e : Expr) (s : St) (r : Res) : Prop :=
  r ≠ .fuel ∧ ∃ fuel, denote c fuel m la e s = r

/-- `e` and `e'` mean the same in atomicity mode `m` (in every look-ahead context, from every
position and stack): same definite results, including the forest of pairs. -/
def Equiv (c : Ctx) (m : Atomicity) (e e' : Expr) : Prop :=
  ∀ la s r, Evals c m la e s r ↔ Evals c m la e' s r

/-- … in every mode. -/
def EquivAll (c : Ctx) (e e' : Expr) : Prop := ∀ m, Equiv c m e e'

/-- A whole parse from rule `rule` has the definite result `r`. -/
def Means (rules : List Rule) (extras : Bool) (uni : String → Option CharSet) (rule : String)
    (input : PestModel.LineCol.Str) (r : Res) : Prop :=
  r ≠ .fuel ∧ ∃ fuel, meaning rules extras uni fuel rule input = r

end PestModel.Ref
