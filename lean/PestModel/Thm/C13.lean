import PestModel.Model.Pratt
import PestModel.Lemmas.Pratt
import PestModel.Lemmas.PrattClimber
/-!
# C13 — operator-precedence parsers build the precedence-correct tree

Property theorems only; helper lemmas in `PestModel/Lemmas/Pratt*.lean`.
`parse` models `PrattParserMap::parse` (`expr/nud/led/lbp`), `climb` models `PrecClimber::climb`,
`shuntingYard` is the classical operator-precedence algorithm with the binding powers named in
the property (left power `p`; right power `p` for left-associative infix, `p - 1` for
right-associative infix and prefix operators).
-/
namespace PestModel.C13
open PestModel.Pratt

/-- All precedences in the table are positive (true of every table `PrattParser::op` and
`ConstPrattParser::new_const` can build: levels are 10, 20, 30, …). -/
def PosTable (t : Table) : Prop := ∀ r a p, t r = some (a, p) → 1 ≤ p

theorem prattTable_pos (levels : List (List (Nat × Affix))) : PosTable (prattTable levels) := by
  exact prattTable_pos' levels

theorem constTable_pos (ops : List (Nat × Affix × Bool)) (h : ∀ r a b rest, ops = (r, a, b) :: rest → b = true) :
    PosTable (constTable ops) := by
  exact constTable_pos' ops h

/-- On every well-formed sequence the Pratt parser does not panic, does not run out of the model's
fuel, and consumes all tokens. -/
theorem pratt_total (t : Table) (toks : List Nat) (hpos : PosTable t) (hwf : WellFormed t toks) :
    ∃ tree, parse t toks = .ok (tree, []) := by
  exact parse_total hpos hwf

/-- Every operator is applied exactly once and operand order is preserved: the in-order yield of
the result (plus the unconsumed rest) is the token sequence. -/
theorem pratt_yield (t : Table) (toks rest : List Nat) (tree : Tree)
    (h : parse t toks = .ok (tree, rest)) : tree.yield ++ rest = toks := by
  exact (yield_all t _).1 _ _ _ _ h

/-- **Main theorem.** For every table and every well-formed sequence the Pratt parser builds
exactly the tree of the classical shunting-yard algorithm. -/
theorem pratt_eq_shuntingYard (t : Table) (toks : List Nat) (hpos : PosTable t)
    (hwf : WellFormed t toks) :
    ∃ tree, parse t toks = .ok (tree, []) ∧ shuntingYard t toks = some tree := by
  obtain ⟨tree, h⟩ := parse_total hpos hwf
  exact ⟨tree, h, parse_sim h⟩

/-- The tree depends only on the affixes and on the *order* of the precedence levels. -/
theorem levels_iso (t t' : Table) (toks : List Nat) (hpos : PosTable t) (hpos' : PosTable t')
    (haff : ∀ r, (t r).map (·.1) = (t' r).map (·.1))
    (hord : ∀ r₁ r₂ a₁ a₂ p₁ p₂ q₁ q₂, t r₁ = some (a₁, p₁) → t r₂ = some (a₂, p₂) →
      t' r₁ = some (a₁, q₁) → t' r₂ = some (a₂, q₂) → (p₁ < p₂ ↔ q₁ < q₂)) :
    parse t toks = parse t' toks := by
  exact parse_iso ⟨hpos, hpos', haff, hord⟩ toks

/-- `ConstPrattParser` (array built by `pratt_precedence!`) gives the same result as `PrattParser`
built with `.op(...)` from the same levels — on every token sequence. -/
theorem const_eq_pratt (levels : List (List (Nat × Affix))) (toks : List Nat)
    (hne : ∀ l ∈ levels, l ≠ []) :
    parse (constTable (flattenLevels levels)) toks = parse (prattTable levels) toks := by
  exact parse_iso (const_iso_pratt levels hne) toks

/-- Infix-only levels as a Pratt table. -/
def toPrattLevels (cl : List (List (Nat × Assoc))) : List (List (Nat × Affix)) :=
  cl.map fun l => l.map fun (r, a) => (r, Affix.infix a)

/-- The deprecated `PrecClimber` builds the same tree for infix-only tables whose levels each have
a single associativity (rules distinct), on well-formed sequences. -/
theorem climber_eq (cl : List (List (Nat × Assoc))) (toks : List Nat)
    (hdistinct : (cl.flatten.map (·.1)).Nodup)
    (hsingle : ∀ l ∈ cl, ∀ x ∈ l, ∀ y ∈ l, x.2 = y.2)
    (hwf : WellFormed (prattTable (toPrattLevels cl)) toks) :
    ∃ tree, climb (climberTable cl) toks = .ok (tree, []) ∧
      parse (prattTable (toPrattLevels cl)) toks = .ok (tree, []) := by
  exact climb_eq_parse cl hdistinct hsingle hwf

/-- Non-vacuity: a well-formed sequence mixing prefix, postfix, left and right infix operators
within one table; the hypotheses of the theorems are satisfiable and the tree is non-trivial. -/
example :
    let t := prattTable [[(1, .infix .left), (2, .infix .right)], [(3, .prefix)], [(4, .postfix)]]
    WellFormed t [3, 9, 4, 1, 9, 2, 3, 9] ∧
    shuntingYard t [3, 9, 4, 1, 9, 2, 3, 9] =
      some (.inf (.inf (.pre 3 (.post (.prim 9) 4)) 1 (.prim 9)) 2 (.pre 3 (.prim 9))) := by
  intro t
  refine ⟨by unfold WellFormed; decide, by decide⟩

end PestModel.C13
