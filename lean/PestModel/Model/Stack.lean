/-
L1 — model of `pest/src/stack.rs` (`Stack<T>`).

Representation: the three Rust `Vec`s are Lean lists with the *head as the top /
most recently pushed element* (`cache.head` = `Vec::last`).  Every `usize`
subtraction and every `drain` range of the Rust code is guarded: where Rust
would panic (underflow, `start > end`, range past the end) the model returns
`none`.
-/
namespace PestModel.Stack

structure Stk (α : Type) where
  cache   : List α            -- head = top of stack
  popped  : List α            -- head = most recently recorded pop
  lengths : List (Nat × Nat)  -- head = latest snapshot, (len, remained)
  deriving Repr

inductive Op (α : Type) where
  | push (x : α)
  | pop
  | peek
  | snapshot
  | clearSnapshot
  | restore
  deriving Repr

/-- What an operation returns to the caller: `pop`/`peek` return `Option α`. -/
inductive Out (α : Type) where
  | unit
  | val (v : Option α)
  deriving Repr, DecidableEq

def Stk.new {α} : Stk α := ⟨[], [], []⟩

/-- `Stack::pop` -/
def pop {α} (s : Stk α) : Option (Stk α × Option α) :=
  match s.cache with
  | [] => some (s, none)
  | x :: c =>
    match s.lengths with
    | [] => some ({ s with cache := c }, some x)
    | (len, rem) :: ls =>
      -- `if len == *remained_count` with `len` = length before the pop
      if c.length + 1 = rem then
        -- `*remained_count -= 1` cannot underflow here: rem = c.length + 1 ≥ 1
        some ({ cache := c, popped := x :: s.popped, lengths := (len, rem - 1) :: ls }, some x)
      else
        some ({ s with cache := c }, some x)

/-- `Stack::clear_snapshot` -/
def clearSnapshot {α} (s : Stk α) : Option (Stk α) :=
  match s.lengths with
  | [] => some s
  | (len, rem) :: ls =>
    if len < rem then none else                        -- `len - remained`
    let pc := len - rem
    match ls with
    | [] =>
      if s.popped.length < pc then none else           -- `self.popped.len() - popped_count`
      some { s with popped := s.popped.drop pc, lengths := [] }
    | (plen, prem) :: ls' =>
      let merged := min prem rem
      let pp := prem - merged                          -- merged ≤ prem always
      if s.popped.length < pc then none else           -- `self.popped.len() - popped_count`
      if pc < pp then none else                        -- `popped_count - parent_popped`
      -- drain(popped_start .. popped_start + pc - pp): the *oldest* pc - pp entries of
      -- the child's segment; in head-first order the child's segment is `take pc`,
      -- its newest `pp` entries are kept.
      some { s with popped := (s.popped.take pc).take pp ++ s.popped.drop pc,
                    lengths := (plen, merged) :: ls' }

/-- `Stack::restore` -/
def restore {α} (s : Stk α) : Option (Stk α) :=
  match s.lengths with
  | [] => some { s with cache := [] }
  | (len, rem) :: ls =>
    let c1 := if rem < s.cache.length then s.cache.drop (s.cache.length - rem) else s.cache
    if rem < len then
      let rc := len - rem
      if s.popped.length < rc then none else           -- `self.popped.len() - rewind_count`
      -- drain(new_len..).rev() pushed one by one: newest pop is pushed first
      some { cache := (s.popped.take rc).reverse ++ c1, popped := s.popped.drop rc, lengths := ls }
    else
      some { cache := c1, popped := s.popped, lengths := ls }

/-- One public operation. `none` = the Rust code would panic. -/
def step {α} (s : Stk α) : Op α → Option (Stk α × Out α)
  | .push x => some ({ s with cache := x :: s.cache }, .unit)
  | .pop => (pop s).map fun (s', v) => (s', .val v)
  | .peek => some (s, .val s.cache.head?)
  | .snapshot => some ({ s with lengths := (s.cache.length, s.cache.length) :: s.lengths }, .unit)
  | .clearSnapshot => (clearSnapshot s).map fun s' => (s', .unit)
  | .restore => (restore s).map fun s' => (s', .unit)

/-- Run a history; collects outputs; `none` as soon as one step panics. -/
def run {α} (s : Stk α) : List (Op α) → Option (Stk α × List (Out α))
  | [] => some (s, [])
  | op :: ops =>
    match step s op with
    | none => none
    | some (s', o) =>
      match run s' ops with
      | none => none
      | some (s'', os) => some (s'', o :: os)

/-! ### The specification: copy at snapshot -/

structure Naive (α : Type) where
  cur   : List α          -- head = top
  saved : List (List α)   -- head = latest copy
  deriving Repr

def Naive.new {α} : Naive α := ⟨[], []⟩

def Naive.step {α} (n : Naive α) : Op α → Naive α × Out α
  | .push x => ({ n with cur := x :: n.cur }, .unit)
  | .pop => ({ n with cur := n.cur.tail }, .val n.cur.head?)
  | .peek => (n, .val n.cur.head?)
  | .snapshot => ({ n with saved := n.cur :: n.saved }, .unit)
  | .clearSnapshot => ({ n with saved := n.saved.tail }, .unit)
  | .restore =>
    match n.saved with
    | [] => ({ n with cur := [] }, .unit)
    | c :: cs => ({ cur := c, saved := cs }, .unit)

def Naive.run {α} (n : Naive α) : List (Op α) → Naive α × List (Out α)
  | [] => (n, [])
  | op :: ops =>
    let (n', o) := n.step op
    let (n'', os) := Naive.run n' ops
    (n'', o :: os)

end PestModel.Stack
