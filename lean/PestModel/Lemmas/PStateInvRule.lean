import PestModel.Lemmas.PStateInvRun
/-! The `rule` combinator: exact effect on the token queue. -/
namespace PestModel.PS
open PestModel.LineCol PestModel.Stack

theorem rulePre_of_cond {s1 : PState} (h : ruleCond s1) :
    rulePre s1 = { s1 with queue := s1.queue ++ [.start 0 s1.pos] } := by
  unfold rulePre; exact if_pos h

theorem rulePre_of_not {s1 : PState} (h : ¬ ruleCond s1) : rulePre s1 = s1 := by
  unfold rulePre; exact if_neg h

theorem rulePre_rel (s1 : PState) : Rel s1 (rulePre s1) := by
  by_cases hc : ruleCond s1
  · rw [rulePre_of_cond hc]
    exact ⟨rfl, rfl, rfl, rfl, Nat.le_refl _, QLe.append _ _, fun h => absurd hc.1 h, id,
      fun h => ⟨h, rfl⟩⟩
  · rw [rulePre_of_not hc]; exact Rel.refl _

theorem ruleTrackIf_eq (s1 : PState) (r : Nat) (ns : PState) :
    ∃ a b c, ruleTrackIf s1 r ns = { ns with posAtt := a, negAtt := b, attemptPos := c } := by
  unfold ruleTrackIf
  split
  · exact track_eq _ _ _ _ _ _
  · exact ⟨_, _, _, rfl⟩

theorem ruleAdd_eq {s1 ns ns' : PState} {r : Nat} (h : ruleAdd s1 r ns = some ns') :
    ∃ pa', ns' = { ns with pa := pa' } ∧ pa'.enabled = ns.pa.enabled :=
  tryAddRuleToStack_eq h

theorem ruleFinish_eq {s1 ns s' : PState} {r : Nat} (h : (ruleFinish s1 r ns).state? = some s') :
    ∃ pa', ruleFinish s1 r ns = .ok s' ∧ s' = { ns with pa := pa' } ∧ pa'.enabled = ns.pa.enabled := by
  unfold ruleFinish at h ⊢
  split at h
  · rename_i hen
    rw [if_pos hen]
    split at h
    · rename_i ns' ha
      simp at h; subst h
      obtain ⟨pa', h1, h2⟩ := ruleAdd_eq ha
      exact ⟨pa', rfl, h1, h2⟩
    · simp at h
  · rename_i hen
    rw [if_neg hen]
    simp at h; subst h; exact ⟨ns.pa, rfl, rfl, rfl⟩

theorem ruleFinish_no_panic {s1 ns : PState} {r : Nat} (h : ns.pa.enabled = false) :
    ruleFinish s1 r ns = .ok ns := by
  unfold ruleFinish; simp [h]

theorem getElem?_append_cons_length {α} (q : List α) (x : α) (inner : List α) :
    (q ++ x :: inner)[q.length]? = some x := by simp

theorem ruleEmit_loud {s1 ns : PState} {r a b : Nat} {inner : List QTok}
    (hla : ns.lookahead = .none) (hat : ns.atomicity ≠ .atomic)
    (hq : ns.queue = s1.queue ++ .start a b :: inner) :
    ruleEmit s1 r ns = some { ns with queue :=
      (s1.queue ++ QTok.start (s1.queue.length + 1 + inner.length) b :: inner ++
        [QTok.end_ s1.queue.length r none ns.pos]) } := by
  unfold ruleEmit
  rw [if_pos ⟨hla, hat⟩, hq, getElem?_append_cons_length]
  simp only [setAt_append_cons]
  congr 3
  simp; omega

theorem ruleEmit_silent {s1 ns : PState} {r : Nat}
    (h : ¬ (ns.lookahead = .none ∧ ns.atomicity ≠ .atomic)) : ruleEmit s1 r ns = some ns := by
  unfold ruleEmit; rw [if_neg h]

/-- Exact effect of the success path of `rule`. -/
theorem ruleOkPost_spec {s1 ns s' : PState} {r : Nat} (rb : Rel (rulePre s1) ns)
    (h : (ruleOkPost s1 r ns).state? = some s') :
    ruleOkPost s1 r ns = .ok s' ∧
    ∃ a b c pa' q', s' = { ns with posAtt := a, negAtt := b, attemptPos := c, pa := pa', queue := q' } ∧
      pa'.enabled = ns.pa.enabled ∧
      (ruleCond s1 → ∃ inner, ns.queue = s1.queue ++ .start 0 s1.pos :: inner ∧
        q' = s1.queue ++ .start (s1.queue.length + 1 + inner.length) s1.pos :: inner ++
          [.end_ s1.queue.length r none ns.pos]) ∧
      (¬ ruleCond s1 → q' = ns.queue) := by
  unfold ruleOkPost at h ⊢
  obtain ⟨a, b, c, ht⟩ := ruleTrackIf_eq s1 r ns
  rw [ht] at h ⊢
  by_cases hc : ruleCond s1
  · have rb' := rb
    rw [rulePre_of_cond hc] at rb'
    obtain ⟨inner, hq⟩ := QLe.snoc_start rb'.q
    have hla : ns.lookahead = .none := rb'.la.trans hc.1
    have hat : ns.atomicity ≠ .atomic := by rw [rb'.atom]; exact hc.2
    have he := ruleEmit_loud (s1 := s1) (r := r)
      (ns := { ns with posAtt := a, negAtt := b, attemptPos := c }) hla hat hq
    rw [he] at h ⊢
    simp only [] at h ⊢
    obtain ⟨pa', h1, h2, h3⟩ := ruleFinish_eq h
    refine ⟨h1, a, b, c, pa', _, h2, h3, fun _ => ⟨inner, hq, rfl⟩, fun hn => absurd hc hn⟩
  · have rb' := rb
    rw [rulePre_of_not hc] at rb'
    have hn : ¬ (ns.lookahead = .none ∧ ns.atomicity ≠ .atomic) := by
      rw [rb'.la, rb'.atom]; exact hc
    have he := ruleEmit_silent (s1 := s1) (r := r)
      (ns := { ns with posAtt := a, negAtt := b, attemptPos := c }) hn
    rw [he] at h ⊢
    simp only [] at h ⊢
    obtain ⟨pa', h1, h2, h3⟩ := ruleFinish_eq h
    exact ⟨h1, a, b, c, pa', _, h2, h3, fun hn => absurd hn hc, fun _ => rfl⟩

theorem ruleOkPost_rel {s1 ns s' : PState} {r : Nat} (rb : Rel (rulePre s1) ns)
    (h : (ruleOkPost s1 r ns).state? = some s') : Rel s1 s' := by
  obtain ⟨-, a, b, c, pa', q', rfl, hen, h1, h2⟩ := ruleOkPost_spec rb h
  by_cases hc : ruleCond s1
  · obtain ⟨inner, hq, rfl⟩ := h1 hc
    have rb' := rb
    rw [rulePre_of_cond hc] at rb'
    refine ⟨rb'.input, rb'.la, rb'.atom, hen.trans rb'.en, rb'.pos, ?_, fun h => absurd hc.1 h,
      rb'.bnd, rb'.stk⟩
    show QLe s1.queue (s1.queue ++ _ :: inner ++ _)
    rw [List.append_assoc]
    exact QLe.append _ _
  · have := h2 hc; subst this
    have rb' := rb
    rw [rulePre_of_not hc] at rb'
    exact ⟨rb'.input, rb'.la, rb'.atom, hen.trans rb'.en, rb'.pos, rb'.q, rb'.qla, rb'.bnd, rb'.stk⟩

theorem ruleErrAdd_eq {s1 ns ns' : PState} {r : Nat} (h : ruleErrAdd s1 r ns = some ns') :
    ∃ a b c pa', ns' = { ns with posAtt := a, negAtt := b, attemptPos := c, pa := pa' } ∧
      pa'.enabled = ns.pa.enabled := by
  unfold ruleErrAdd at h
  split at h
  · obtain ⟨a, b, c, ht⟩ : ∃ a b c, ruleTrack s1 r ns =
        { ns with posAtt := a, negAtt := b, attemptPos := c } := track_eq _ _ _ _ _ _
    rw [ht] at h
    split at h
    · obtain ⟨pa', h1, h2⟩ := ruleAdd_eq h
      exact ⟨a, b, c, pa', h1, h2⟩
    · simp at h; subst h; exact ⟨a, b, c, ns.pa, rfl, rfl⟩
  · simp at h; subst h; exact ⟨_, _, _, _, rfl, rfl⟩

theorem ruleErrAdd_no_panic {s1 ns : PState} {r : Nat} (h : ns.pa.enabled = false) :
    ∃ ns', ruleErrAdd s1 r ns = some ns' := by
  unfold ruleErrAdd
  split
  · obtain ⟨a, b, c, ht⟩ : ∃ a b c, ruleTrack s1 r ns =
        { ns with posAtt := a, negAtt := b, attemptPos := c } := track_eq _ _ _ _ _ _
    rw [ht]; simp [h]
  · exact ⟨_, rfl⟩

/-- Exact effect of the failure path of `rule`. -/
theorem ruleErrPost_spec {s1 ns s' : PState} {r : Nat} (rb : Rel (rulePre s1) ns)
    (h : (ruleErrPost s1 r ns).state? = some s') :
    ruleErrPost s1 r ns = .err s' ∧
    ∃ a b c pa' q', s' = { ns with posAtt := a, negAtt := b, attemptPos := c, pa := pa', queue := q' } ∧
      pa'.enabled = ns.pa.enabled ∧
      (ruleCond s1 → q' = s1.queue) ∧ (¬ ruleCond s1 → q' = ns.queue) := by
  unfold ruleErrPost at h ⊢
  split at h
  · simp at h
  · rename_i ns1 ha
    simp at h; subst h
    refine ⟨rfl, ?_⟩
    obtain ⟨a, b, c, pa', rfl, hen⟩ := ruleErrAdd_eq ha
    unfold ruleErrTrunc
    by_cases hc : ruleCond s1
    · have rb' := rb
      rw [rulePre_of_cond hc] at rb'
      obtain ⟨inner, hq⟩ := QLe.snoc_start rb'.q
      have hla : ns.lookahead = .none := rb'.la.trans hc.1
      have hat : ns.atomicity ≠ .atomic := by rw [rb'.atom]; exact hc.2
      rw [if_pos ⟨hla, hat⟩]
      exact ⟨a, b, c, pa', _, rfl, hen, fun _ => by simp [hq], fun hn => absurd hc hn⟩
    · have rb' := rb
      rw [rulePre_of_not hc] at rb'
      have hn : ¬ (ns.lookahead = .none ∧ ns.atomicity ≠ .atomic) := by
        rw [rb'.la, rb'.atom]; exact hc
      rw [if_neg hn]
      exact ⟨a, b, c, pa', _, rfl, hen, fun hn => absurd hn hc, fun _ => rfl⟩

theorem ruleErrPost_rel {s1 ns s' : PState} {r : Nat} (rb : Rel (rulePre s1) ns)
    (h : (ruleErrPost s1 r ns).state? = some s') : Rel s1 s' := by
  obtain ⟨-, a, b, c, pa', q', rfl, hen, h1, h2⟩ := ruleErrPost_spec rb h
  by_cases hc : ruleCond s1
  · have := h1 hc; subst this
    have rb' := rb
    rw [rulePre_of_cond hc] at rb'
    exact ⟨rb'.input, rb'.la, rb'.atom, hen.trans rb'.en, rb'.pos, QLe.refl _, fun _ => rfl,
      rb'.bnd, rb'.stk⟩
  · have := h2 hc; subst this
    have rb' := rb
    rw [rulePre_of_not hc] at rb'
    exact ⟨rb'.input, rb'.la, rb'.atom, hen.trans rb'.en, rb'.pos, rb'.q, rb'.qla, rb'.bnd, rb'.stk⟩

theorem rel_rule (cfg : Cfg) (fuel : Nat) (ih : IH cfg fuel) (r : Nat) (p : Prog) (s s' : PState)
    (h : (run cfg (fuel+1) (.rule r p) s).state? = some s') : Rel s s' := by
  rw [run_rule] at h
  split at h
  · simp at h; subst h; exact Rel.refl _
  · rename_i s1 hic
    refine (incCall_rel hic).trans ?_
    split at h
    · rename_i ns hb; exact ruleOkPost_rel (ih.ok hb) h
    · rename_i ns hb; exact ruleErrPost_rel (ih.err hb) h
    · rename_i o h1 h2
      cases ho : run cfg fuel p (rulePre s1) with
      | ok ns => exact absurd ho (h1 ns)
      | err ns => exact absurd ho (h2 ns)
      | panic => rw [ho] at h; simp at h
      | fuel => rw [ho] at h; simp at h

/-- **Main invariant.** -/
theorem run_rel (cfg : Cfg) : ∀ (fuel : Nat) (p : Prog) (s s' : PState),
    (run cfg fuel p s).state? = some s' → Rel s s'
  | 0, p, s, s', h => by rw [run_zero] at h; simp at h
  | fuel + 1, p, s, s', h => by
    have ih : IH cfg fuel := run_rel cfg fuel
    cases p with
    | sequence p => exact rel_sequence cfg fuel ih p s s' h
    | optional p => exact rel_optional cfg fuel ih p s s' h
    | repeat_ p => exact rel_repeat cfg fuel ih p s s' h
    | repLoop p => exact rel_repLoop cfg fuel ih p s s' h
    | lookahead b p => exact rel_lookahead cfg fuel ih b p s s' h
    | atomic a p => exact rel_atomic cfg fuel ih a p s s' h
    | rule r p => exact rel_rule cfg fuel ih r p s s' h
    | stackPush p => exact rel_stackPush cfg fuel ih p s s' h
    | restoreOnErr p => exact rel_restoreOnErr cfg fuel ih p s s' h
    | andThen p q => exact rel_andThen cfg fuel ih p q s s' h
    | orElse p q => exact rel_orElse cfg fuel ih p q s s' h
    | matchString str => exact rel_matchString cfg fuel str s s' h
    | matchInsensitive str => exact rel_matchInsensitive cfg fuel str s s' h
    | matchRange a b => exact rel_matchRange cfg fuel a b s s' h
    | matchCharBy cs => exact rel_matchCharBy cfg fuel cs s s' h
    | skip n => exact rel_skip cfg fuel n s s' h
    | skipUntil strs => exact rel_skipUntil cfg fuel strs s s' h
    | startOfInput => exact rel_startOfInput cfg fuel s s' h
    | endOfInput => exact rel_endOfInput cfg fuel s s' h
    | stackPeek => exact rel_stackPeek cfg fuel s s' h
    | stackPop => exact rel_stackPop cfg fuel s s' h
    | stackMatchPeek => exact rel_stackMatchPeek cfg fuel s s' h
    | stackMatchPop => exact rel_stackMatchPop cfg fuel s s' h
    | stackDrop => exact rel_stackDrop cfg fuel s s' h
    | stackMatchPeekSlice a b d => exact rel_stackMatchPeekSlice cfg fuel a b d s s' h
    | stackPushLiteral str => exact rel_stackPushLiteral cfg fuel str s s' h
    | tagNode t => exact rel_tagNode cfg fuel t s s' h
    | call i => exact rel_call cfg fuel ih i s s' h
    | ok => exact rel_ok cfg fuel s s' h
    | fail => exact rel_fail cfg fuel s s' h

end PestModel.PS
