import PestModel.Lemmas.GenVmSim
/-! C02, part 5: the generator's flattened sequences and choices. `Prefix C P0 X' X`: the program `X'`
behaves as "`P0`, then (on success) `X`" — the left-nested `and_then` chains the generator emits have
this shape with respect to their first item. A `sequence` nested at the end of a `sequence` can be
dissolved (`seqK_seqK`). -/
namespace PestModel.GenVm
open PestModel.PS PestModel.Stack
open PestModel.LineCol (Str isBoundary slice?)
open PestModel.VmRef (run_mono)

/-- `X'` behaves as `P0 ; X`. -/
structure Prefix (C : Cfg) (P0 X' X : Prog) : Prop where
  elim : ∀ F s, run C F X' s ≠ .fuel →
    (∃ s1 F1, F1 ≤ F ∧ run C F1 P0 s = .ok s1 ∧ run C F X s1 = run C F X' s) ∨
    (∃ F1, F1 ≤ F ∧ run C F1 P0 s = run C F X' s ∧ ∀ s1, run C F X' s ≠ .ok s1)
  intro_ok : ∀ s s1 o, Ev C P0 s (.ok s1) → Ev C X s1 o → Ev C X' s o
  intro_stop : ∀ s o, Ev C P0 s o → (∀ s1, o ≠ .ok s1) → Ev C X' s o

variable {C : Cfg}

theorem prefix_andThen (P0 X : Prog) : Prefix C P0 (.andThen P0 X) X where
  elim := fun F s hne => by
    cases F with
    | zero => rw [run_zero] at hne; exact absurd rfl hne
    | succ F =>
      rw [run_andThen] at hne ⊢
      cases h1 : run C F P0 s with
      | fuel => rw [h1] at hne; exact absurd rfl hne
      | ok s1 =>
        rw [h1] at hne
        exact Or.inl ⟨s1, F, Nat.le_succ _, h1, run_mono hne (Nat.le_succ _)⟩
      | err s1 => exact Or.inr ⟨F, Nat.le_succ _, h1, by simp⟩
      | panic => exact Or.inr ⟨F, Nat.le_succ _, h1, by simp⟩
  intro_ok := fun _ _ _ h1 h2 => ev_andThen_ok h1 h2
  intro_stop := fun _ _ h1 h2 => ev_andThen_stop h1 h2

theorem prefix_step {P0 X' X : Prog} (T : Prog) (h : Prefix C P0 X' X) :
    Prefix C P0 (.andThen X' T) (.andThen X T) where
  elim := fun F s hne => by
    cases F with
    | zero => rw [run_zero] at hne; exact absurd rfl hne
    | succ F =>
      rw [run_andThen] at hne ⊢
      cases h1 : run C F X' s with
      | fuel => rw [h1] at hne; exact absurd rfl hne
      | ok t =>
        rw [h1] at hne
        rcases h.elim F s (by rw [h1]; simp) with ⟨s1, F1, hF1, e1, e2⟩ | ⟨F1, hF1, e1, e2⟩
        · refine Or.inl ⟨s1, F1, by omega, e1, ?_⟩
          rw [run_andThen, e2, h1]
        · exact absurd h1 (e2 t)
      | err t =>
        rcases h.elim F s (by rw [h1]; simp) with ⟨s1, F1, hF1, e1, e2⟩ | ⟨F1, hF1, e1, e2⟩
        · refine Or.inl ⟨s1, F1, by omega, e1, ?_⟩
          rw [run_andThen, e2, h1]
        · exact Or.inr ⟨F1, by omega, by rw [e1, h1], by simp⟩
      | panic =>
        rcases h.elim F s (by rw [h1]; simp) with ⟨s1, F1, hF1, e1, e2⟩ | ⟨F1, hF1, e1, e2⟩
        · refine Or.inl ⟨s1, F1, by omega, e1, ?_⟩
          rw [run_andThen, e2, h1]
        · exact Or.inr ⟨F1, by omega, by rw [e1, h1], by simp⟩
  intro_ok := fun s s1 o h1 h2 => by
    obtain ⟨m, e, ne⟩ := h2
    cases m with
    | zero => rw [run_zero] at e; exact absurd e.symm ne
    | succ m =>
      rw [run_andThen] at e
      cases hx : run C m X s1 with
      | fuel => rw [hx] at e; exact absurd e.symm ne
      | ok t =>
        rw [hx] at e
        exact ev_andThen_ok (h.intro_ok s s1 _ h1 ⟨m, hx, by simp⟩) ⟨m, e, ne⟩
      | err t =>
        rw [hx] at e; subst e
        exact ev_andThen_stop (h.intro_ok s s1 _ h1 ⟨m, hx, by simp⟩) (by simp)
      | panic =>
        rw [hx] at e; subst e
        exact ev_andThen_stop (h.intro_ok s s1 _ h1 ⟨m, hx, by simp⟩) (by simp)
  intro_stop := fun s o h1 h2 => ev_andThen_stop (h.intro_stop s o h1 h2) h2

/-- the generator's `while let Seq` loop. -/
def seqStep (atomicGen : Bool) (skipP : Prog) (g : G.OExpr → Prog) (acc : Prog) (t : G.OExpr) : Prog :=
  if atomicGen then .andThen acc (g t) else .andThen (.andThen acc skipP) (g t)

theorem prefix_foldl (atomicGen : Bool) (skipP : Prog) (g : G.OExpr → Prog) {P0 : Prog} :
    ∀ (rest : List G.OExpr) {X' X : Prog}, Prefix C P0 X' X →
      Prefix C P0 (rest.foldl (seqStep atomicGen skipP g) X') (rest.foldl (seqStep atomicGen skipP g) X)
  | [], _, _, h => h
  | t :: rest, X', X, h => by
    rw [List.foldl_cons, List.foldl_cons]
    apply prefix_foldl atomicGen skipP g rest
    unfold seqStep
    cases atomicGen with
    | true => exact prefix_step _ h
    | false => exact prefix_step _ (prefix_step _ h)

/-! ### choice -/

/-- `X'` behaves as `P0 | X`. -/
structure PrefixE (C : Cfg) (P0 X' X : Prog) : Prop where
  elim : ∀ F s, run C F X' s ≠ .fuel →
    (∃ s1 F1, F1 ≤ F ∧ run C F1 P0 s = .err s1 ∧ run C F X s1 = run C F X' s) ∨
    (∃ F1, F1 ≤ F ∧ run C F1 P0 s = run C F X' s ∧ ∀ s1, run C F X' s ≠ .err s1)
  intro_err : ∀ s s1 o, Ev C P0 s (.err s1) → Ev C X s1 o → Ev C X' s o
  intro_stop : ∀ s o, Ev C P0 s o → (∀ s1, o ≠ .err s1) → Ev C X' s o

theorem prefixE_orElse (P0 X : Prog) : PrefixE C P0 (.orElse P0 X) X where
  elim := fun F s hne => by
    cases F with
    | zero => rw [run_zero] at hne; exact absurd rfl hne
    | succ F =>
      rw [run_orElse] at hne ⊢
      cases h1 : run C F P0 s with
      | fuel => rw [h1] at hne; exact absurd rfl hne
      | err s1 =>
        rw [h1] at hne
        exact Or.inl ⟨s1, F, Nat.le_succ _, h1, run_mono hne (Nat.le_succ _)⟩
      | ok s1 => exact Or.inr ⟨F, Nat.le_succ _, h1, by simp⟩
      | panic => exact Or.inr ⟨F, Nat.le_succ _, h1, by simp⟩
  intro_err := fun _ _ _ h1 h2 => ev_orElse_err h1 h2
  intro_stop := fun _ _ h1 h2 => ev_orElse_stop h1 h2

theorem prefixE_step {P0 X' X : Prog} (T : Prog) (h : PrefixE C P0 X' X) :
    PrefixE C P0 (.orElse X' T) (.orElse X T) where
  elim := fun F s hne => by
    cases F with
    | zero => rw [run_zero] at hne; exact absurd rfl hne
    | succ F =>
      rw [run_orElse] at hne ⊢
      cases h1 : run C F X' s with
      | fuel => rw [h1] at hne; exact absurd rfl hne
      | err t =>
        rw [h1] at hne
        rcases h.elim F s (by rw [h1]; simp) with ⟨s1, F1, hF1, e1, e2⟩ | ⟨F1, hF1, e1, e2⟩
        · refine Or.inl ⟨s1, F1, by omega, e1, ?_⟩
          rw [run_orElse, e2, h1]
        · exact absurd h1 (e2 t)
      | ok t =>
        rcases h.elim F s (by rw [h1]; simp) with ⟨s1, F1, hF1, e1, e2⟩ | ⟨F1, hF1, e1, e2⟩
        · refine Or.inl ⟨s1, F1, by omega, e1, ?_⟩
          rw [run_orElse, e2, h1]
        · exact Or.inr ⟨F1, by omega, by rw [e1, h1], by simp⟩
      | panic =>
        rcases h.elim F s (by rw [h1]; simp) with ⟨s1, F1, hF1, e1, e2⟩ | ⟨F1, hF1, e1, e2⟩
        · refine Or.inl ⟨s1, F1, by omega, e1, ?_⟩
          rw [run_orElse, e2, h1]
        · exact Or.inr ⟨F1, by omega, by rw [e1, h1], by simp⟩
  intro_err := fun s s1 o h1 h2 => by
    obtain ⟨m, e, ne⟩ := h2
    cases m with
    | zero => rw [run_zero] at e; exact absurd e.symm ne
    | succ m =>
      rw [run_orElse] at e
      cases hx : run C m X s1 with
      | fuel => rw [hx] at e; exact absurd e.symm ne
      | err t =>
        rw [hx] at e
        exact ev_orElse_err (h.intro_err s s1 _ h1 ⟨m, hx, by simp⟩) ⟨m, e, ne⟩
      | ok t =>
        rw [hx] at e; subst e
        exact ev_orElse_stop (h.intro_err s s1 _ h1 ⟨m, hx, by simp⟩) (by simp)
      | panic =>
        rw [hx] at e; subst e
        exact ev_orElse_stop (h.intro_err s s1 _ h1 ⟨m, hx, by simp⟩) (by simp)
  intro_stop := fun s o h1 h2 => ev_orElse_stop (h.intro_stop s o h1 h2) h2

theorem prefixE_foldl (g : G.OExpr → Prog) {P0 : Prog} :
    ∀ (rest : List G.OExpr) {X' X : Prog}, PrefixE C P0 X' X →
      PrefixE C P0 (rest.foldl (fun acc t => Prog.orElse acc (g t)) X')
        (rest.foldl (fun acc t => Prog.orElse acc (g t)) X)
  | [], _, _, h => h
  | t :: rest, X', X, h => by
    rw [List.foldl_cons, List.foldl_cons]
    exact prefixE_foldl g rest (prefixE_step _ h)

variable {A B : Cfg} {n : Nat}

theorem choice_VG {Av VB P0 X' X : Prog} (h1 : Sim A B n Av P0) (h2 : Sim A B n VB X)
    (hp : PrefixE B P0 X' X) : Sim A B n (.orElse Av VB) X' := by
  intro k hk s1 s2 hs hne
  cases k with
  | zero => rw [run_zero] at hne; exact absurd rfl hne
  | succ k =>
    rw [run_orElse] at hne ⊢
    cases e1 : run A k Av s1 with
    | fuel => rw [e1] at hne; exact absurd rfl hne
    | err t1 =>
      rw [e1] at hne
      obtain ⟨o2, ev, oe⟩ := h1 k (by omega) s1 s2 hs (by rw [e1]; simp)
      rw [e1] at oe
      obtain ⟨t2, rfl, ht⟩ := oe.err_inv
      obtain ⟨o2', ev', oe'⟩ := h2 k (by omega) t1 t2 ht hne
      exact ⟨o2', hp.intro_err _ _ _ ev ev', oe'⟩
    | ok t1 =>
      obtain ⟨o2, ev, oe⟩ := h1 k (by omega) s1 s2 hs (by rw [e1]; simp)
      rw [e1] at oe
      obtain ⟨t2, rfl, ht⟩ := oe.ok_inv
      exact ⟨_, hp.intro_stop _ _ ev (by simp), oe⟩
    | panic =>
      obtain ⟨o2, ev, oe⟩ := h1 k (by omega) s1 s2 hs (by rw [e1]; simp)
      rw [e1] at oe
      have := oe.panic_inv; subst this
      exact ⟨_, hp.intro_stop _ _ ev (by simp), oe⟩

theorem OEq.not_err {o1 o2 : Out} (h : OEq o1 o2) (hn : ∀ s, o1 ≠ .err s) : ∀ s, o2 ≠ .err s := by
  intro s hs; subst hs
  cases o1 with
  | err a => exact hn a rfl
  | _ => exact False.elim h.1

theorem OEq.not_ok {o1 o2 : Out} (h : OEq o1 o2) (hn : ∀ s, o1 ≠ .ok s) : ∀ s, o2 ≠ .ok s := by
  intro s hs; subst hs
  cases o1 with
  | ok a => exact hn a rfl
  | _ => exact False.elim h.1

theorem choice_GV {Av VB P0 X' X : Prog} (h1 : Sim A B n P0 Av) (h2 : Sim A B n X VB)
    (hp : PrefixE A P0 X' X) : Sim A B n X' (.orElse Av VB) := by
  intro k hk s1 s2 hs hne
  rcases hp.elim k s1 hne with ⟨t1, F1, hF1, e1, e2⟩ | ⟨F1, hF1, e1, e2⟩
  · obtain ⟨o2, ev, oe⟩ := h1 F1 (by omega) s1 s2 hs (by rw [e1]; simp)
    rw [e1] at oe
    obtain ⟨t2, rfl, ht⟩ := oe.err_inv
    obtain ⟨o2', ev', oe'⟩ := h2 k hk t1 t2 ht (by rw [e2]; exact hne)
    rw [e2] at oe'
    exact ⟨o2', ev_orElse_err ev ev', oe'⟩
  · obtain ⟨o2, ev, oe⟩ := h1 F1 (by omega) s1 s2 hs (by rw [e1]; exact hne)
    rw [e1] at oe
    exact ⟨o2, ev_orElse_stop ev (oe.not_err e2), oe⟩

end PestModel.GenVm
