import PestModel.Model.Reader
import PestModel.Model.ReaderFull
import PestModel.Model.ReaderP
import PestModel.Model.Pipeline
import PestModel.Model.GrammarDriver
import PestModel.Model.Proto
/-! Driver mode `read` (one answer line per input line; `<hex …>` = lower/upper-case hex of the UTF-8
bytes, `-` for the empty text):

* `Q <hex body>`   → what the reader makes of `a = { "<body>" }`: `str <hex>` | `reject` | `other`;
* `Y …`            → `same` (the round trip is judged by the oracle on the implementation);
* `R <hex text>`   → the WHOLE reader (`parse(Rule::grammar_rules, text)` then `consume_rules`, i.e.
                     `ReaderFull.readGrammar`) of the build WITHOUT `grammar-extras`:
                     `rules <rules>` (the s-expression syntax of `GrammarDriver.showRules`) | `reject`;
* `RX <hex text>`  → the same for the build WITH `grammar-extras`;
* `R 0 <hex text>` = `R <hex text>`, `R 1 <hex text>` = `RX <hex text>` (the flag as a leading word).

`reject` stands for both a parse error and an `Err(…)` of `consume_rules` (including the findings of
`validate_ast`); the model has no `panic` answer (no `unwrap` of the reader can fire on pairs produced
by the meta-grammar). `stuck` = the reference denotation ran out of fuel on the text (never observed);
`bad-op` = malformed line. -/
namespace PestModel.ReaderDriver
open PestModel.Reader PestModel.Proto PestModel.Ref PestModel.Views

def metaNames : List String := PestModel.Gen.Meta.rules.map (·.name)
def nameOf (r : Nat) : String := metaNames[r]?.getD (if r = metaNames.length then "EOI" else "?")

def sliceBytes (input : List Char) (a b : Nat) : Option (List Char) := PestModel.LineCol.slice? input a b

def runQ (body : List Char) : String :=
  let text := "a = { \"".toList ++ body ++ "\" }".toList
  match Ref.meaning PestModel.Gen.Meta.rules false (fun _ => none) 1000000 "grammar_rules" text with
  | .ok _ forest =>
    match forest with
    | [.node gr _ _ _ [_, _, _, .node ex _ _ _ [.node tm _ _ _ [.node st a b _ _]], _], .node eoi _ _ _ []] =>
      if nameOf gr = "grammar_rule" ∧ nameOf ex = "expression" ∧ nameOf tm = "term" ∧ nameOf st = "string" ∧ nameOf eoi = "EOI" then
        match sliceBytes text a b with
        | some lit =>
          match unescape lit with
          | some u => "str " ++ toHexOrDash (String.ofList ((u.drop 1).dropLast))
          | none => "reject"
        | none => "other"
      else "other"
    | _ => "other"
  | .fail => "reject"
  | _ => "stuck"

def runR (extras : Bool) (h : String) : String :=
  match hexOrDash h with
  | some t =>
    -- both reader models: the three-valued one (`ReaderP`, C09: located error vs panic) and the two-valued one the C07
    -- theorems are about (`ReaderFull`); they must agree (checked here on every text, not proved)
    match PestModel.ReaderP.readGrammar extras t.toList, PestModel.ReaderFull.readGrammarOutcome extras t.toList with
    | some (.ok rs), some (some rs') =>
      if PestModel.GrammarDriver.showRules rs = PestModel.GrammarDriver.showRules rs' then "rules " ++ PestModel.GrammarDriver.showRules rs
      else "MODELS-DISAGREE"
    | some .err, some none => "reject"
    | some .panic, some none => "panic"
    | none, none => "stuck"
    | _, _ => "MODELS-DISAGREE"
  | none => "bad-op"

/-- `F <hex>`: `pest_meta::parse_and_optimize` on a text — `rules n` / `errors n` / `PANIC` (the model of the whole pipeline). -/
def runF (extras : Bool) (h : String) : String :=
  match hexOrDash h with
  | some t =>
    match PestModel.Pipeline.parseAndOptimize extras t.toList with
    | some (.ok rs) => "rules " ++ toString rs.length
    | some (.err n) => "errors " ++ toString n
    | some .panic => "PANIC"
    | none => "stuck"
  | none => "bad-op"

def runLine (line : String) : String :=
  match words line with
  | "Y" :: _ => "same"
  | ["F", h] => runF false h
  | ["FX", h] => runF true h
  | ["R", h] => runR false h
  | ["RX", h] => runR true h
  | ["R", "0", h] => runR false h
  | ["R", "1", h] => runR true h
  | ["Q", h] => match hexOrDash h with | some b => runQ b.toList | none => "bad-op"
  | _ => "bad-op"

end PestModel.ReaderDriver
