import PestModel.Lemmas.GenVmFrame
/-! C02, part 3: `run` does not look at the saved snapshots: from `SEq` states the same program reaches
`SEq` outcomes with the same fuel (`run_frame`). -/
namespace PestModel.GenVm
open PestModel.PS PestModel.Stack
open PestModel.LineCol (Str isBoundary slice?)

variable {cfg : Cfg}

theorem frame_K {pre : PState → PState} {K : PState → Out → Out} (hK : KOK K) (hF : KFrame pre K)
    {s1 s2 : PState} (hs : SEq s1 s2) {o1 o2 : Out} (ho : OEqF o1 o2)
    (r1 : ∀ x, o1.state? = some x → Rel (pre s1) x) (r2 : ∀ x, o2.state? = some x → Rel (pre s2) x) :
    OEq0F (K s1 o1) (K s2 o2) := by
  cases o1 <;> cases o2 <;> try exact False.elim ho
  · exact hF.hok _ _ _ _ hs (r1 _ rfl) (r2 _ rfl) ho
  · exact hF.herr _ _ _ _ hs (r1 _ rfl) (r2 _ rfl) ho
  · rw [hK.panic, hK.panic]; trivial
  · rw [hK.fuel, hK.fuel]; trivial

theorem rel_of_state {n : Nat} {p : Prog} {s x : PState} (h : (run cfg n p s).state? = some x) : Rel s x :=
  run_rel cfg n p s x h

theorem frame_bracket {f : Nat} {pre : PState → PState} {K : PState → Out → Out} (hK : KOK K)
    (hF : KFrame pre K)
    (ih : ∀ p s1 s2, SEq s1 s2 → OEqF (run cfg f p s1) (run cfg f p s2))
    (body : Prog) {s1 s2 : PState} (hs : SEq s1 s2)
    (hg1 : ∀ x, (bracket cfg f body pre K s1).state? = some x → Good x)
    (hg2 : ∀ x, (bracket cfg f body pre K s2).state? = some x → Good x) :
    OEqF (bracket cfg f body pre K s1) (bracket cfg f body pre K s2) := by
  refine ORel.upgrade ?_ hg1 hg2
  rw [bracket_good hs.g1, bracket_good hs.g2]
  exact frame_K hK hF hs (ih body _ _ (hF.hpre _ _ hs)) (fun _ h => rel_of_state h) (fun _ h => rel_of_state h)

theorem frame_bracket0 {f : Nat} {pre : PState → PState} {K : PState → Out → Out} (hK : KOK K)
    (hF : KFrame pre K)
    (ih : ∀ p s1 s2, SEq s1 s2 → OEqF (run cfg f p s1) (run cfg f p s2))
    (body : Prog) {s1 s2 : PState} (hs : SEq s1 s2)
    (hg1 : ∀ x, (bracket0 cfg f body pre K s1).state? = some x → Good x)
    (hg2 : ∀ x, (bracket0 cfg f body pre K s2).state? = some x → Good x) :
    OEqF (bracket0 cfg f body pre K s1) (bracket0 cfg f body pre K s2) := by
  refine ORel.upgrade ?_ hg1 hg2
  unfold bracket0
  exact frame_K hK hF hs (ih body _ _ (hF.hpre _ _ hs)) (fun _ h => rel_of_state h) (fun _ h => rel_of_state h)

/-! ### leaves -/

theorem terminal_stack {s x : PState} {r : Option (Bool × Nat)} {tok : Option PTok}
    (hx : (terminal s r tok).state? = some x) : x.stack = s.stack := by
  have := terminal_ws s.stack s r tok
  rw [ws_self] at this
  exact mapState_fix this hx

theorem frame_plain (f : Nat) (p : Prog) (hp : Prog.plainLeaf p = true) (st : Stk Str) (s : PState)
    (hc : s.stack.cache = st.cache) : OEq0F (run cfg (f+1) p s) (run cfg (f+1) p (ws st s)) := by
  rw [leaf_ws cfg f p hp st s]
  refine oeq0_mapState fun x hx => ?_
  have := leaf_ws cfg f p hp s.stack s
  rw [ws_self] at this
  rw [mapState_fix this hx]; exact hc

theorem frame_terminal (st : Stk Str) (s : PState) (r : Option (Bool × Nat)) (tok : Option PTok)
    (hc : s.stack.cache = st.cache) : OEq0F (terminal s r tok) (terminal (ws st s) r tok) := by
  rw [terminal_ws]
  refine oeq0_mapState fun x hx => ?_
  rw [terminal_stack hx]; exact hc

theorem pop_frame {a b : Stk Str} (ia : StkInv a) (ib : StkInv b) (hc : a.cache = b.cache) :
    ∃ a' b' v, Stack.pop a = some (a', v) ∧ Stack.pop b = some (b', v) ∧ StkInv a' ∧ StkInv b' ∧
      a'.cache = b'.cache ∧ v = a.cache.head? := by
  obtain ⟨a', v, ha⟩ := pop_total a
  obtain ⟨b', w, hb⟩ := pop_total b
  obtain ⟨i1, e1, c1, -⟩ := pop_spec a a' v ia ha
  obtain ⟨i2, e2, c2, -⟩ := pop_spec b b' w ib hb
  have : w = v := by rw [e1, e2, hc]
  subst this
  exact ⟨a', b', w, ha, hb, i1, i2, by rw [c1, c2, hc], e1⟩

theorem matchPopLoop_frame (input : Str) : ∀ (n : Nat) (a b : Stk Str) (pos : Nat), StkInv a → StkInv b →
    a.cache = b.cache →
    (matchPopLoop input n a pos = none ∧ matchPopLoop input n b pos = none) ∨
    ∃ a' b' ok pos', matchPopLoop input n a pos = some (a', ok, pos') ∧
      matchPopLoop input n b pos = some (b', ok, pos') ∧ a'.cache = b'.cache
  | 0, a, b, pos, _, _, hc => Or.inr ⟨a, b, true, pos, rfl, rfl, hc⟩
  | n + 1, a, b, pos, ia, ib, hc => by
    obtain ⟨a', b', v, ha, hb, ia', ib', hc', -⟩ := pop_frame ia ib hc
    unfold matchPopLoop
    rw [ha, hb]
    cases v with
    | none => exact Or.inr ⟨a', b', true, pos, rfl, rfl, hc'⟩
    | some x =>
      dsimp only
      cases hm : posMatchString input pos x with
      | none => exact Or.inl ⟨rfl, rfl⟩
      | some r =>
        obtain ⟨ok, pos'⟩ := r
        cases ok with
        | true => exact matchPopLoop_frame input n a' b' pos' ia' ib' hc'
        | false => exact Or.inr ⟨a', b', false, pos, rfl, rfl, hc'⟩

theorem frame_stackPeek (f : Nat) (st : Stk Str) (s : PState) (hg : Good s)
    (hc : s.stack.cache = st.cache) : OEq0F (run cfg (f+1) .stackPeek s) (run cfg (f+1) .stackPeek (ws st s)) := by
  have hg2 : reachedCallLimit (ws st s) = false := hg.notLimit
  rw [PS.run, PS.run, hg.notLimit, hg2]
  show OEq0F (match s.stack.cache.head? with | none => _ | some str => _)
    (match st.cache.head? with | none => _ | some str => _)
  rw [← hc]
  cases s.stack.cache.head? with
  | none => trivial
  | some str => exact frame_terminal st s _ _ hc

theorem frame_stackPop (f : Nat) (st : Stk Str) (s : PState) (hg : Good s) (hi : StkInv st)
    (hc : s.stack.cache = st.cache) : OEq0F (run cfg (f+1) .stackPop s) (run cfg (f+1) .stackPop (ws st s)) := by
  have hg2 : reachedCallLimit (ws st s) = false := hg.notLimit
  obtain ⟨a', b', v, ha, hb, -, -, hc', -⟩ := pop_frame hg.wf.2 hi hc
  rw [PS.run, PS.run, hg.notLimit, hg2]
  show OEq0F (match Stack.pop s.stack with | none => _ | some (_, none) => _ | some (st', some str) => _)
    (match Stack.pop st with | none => _ | some (_, none) => _ | some (st', some str) => _)
  rw [ha, hb]
  cases v with
  | none => trivial
  | some str => exact frame_terminal b' (ws a' s) _ _ hc'

theorem frame_stackMatchPeek (f : Nat) (st : Stk Str) (s : PState)
    (hc : s.stack.cache = st.cache) :
    OEq0F (run cfg (f+1) .stackMatchPeek s) (run cfg (f+1) .stackMatchPeek (ws st s)) := by
  rw [PS.run, PS.run]
  show OEq0F (if s.stack.cache.isEmpty then _ else match matchAll s.input s.stack.cache s.pos with
      | none => _ | some (true, pos') => _ | some (false, _) => _)
    (if st.cache.isEmpty then _ else match matchAll s.input st.cache s.pos with
      | none => _ | some (true, pos') => _ | some (false, _) => _)
  rw [← hc]
  split
  · exact ⟨rfl, hc⟩
  · split
    · trivial
    · exact ⟨rfl, hc⟩
    · exact ⟨rfl, hc⟩

theorem frame_stackMatchPeekSlice (f : Nat) (a : Int) (b : Option Int) (d : MatchDir) (st : Stk Str) (s : PState)
    (hc : s.stack.cache = st.cache) :
    OEq0F (run cfg (f+1) (.stackMatchPeekSlice a b d) s) (run cfg (f+1) (.stackMatchPeekSlice a b d) (ws st s)) := by
  rw [PS.run, PS.run]
  simp only [ws_stack]
  rw [← hc]
  have e1 : (ws st s).input = s.input := rfl
  have e2 : (ws st s).pos = s.pos := rfl
  rw [e1, e2]
  split
  · exact ⟨rfl, hc⟩
  · split
    · exact ⟨rfl, hc⟩
    · split
      · trivial
      · exact ⟨rfl, hc⟩
      · exact ⟨rfl, hc⟩

theorem frame_stackMatchPop (f : Nat) (st : Stk Str) (s : PState) (hg : Good s) (hi : StkInv st)
    (hc : s.stack.cache = st.cache) :
    OEq0F (run cfg (f+1) .stackMatchPop s) (run cfg (f+1) .stackMatchPop (ws st s)) := by
  rw [PS.run, PS.run]
  show OEq0F (match matchPopLoop s.input (s.stack.cache.length + 1) s.stack s.pos with
      | none => _ | some (st', true, pos') => _ | some (st', false, _) => _)
    (match matchPopLoop s.input (st.cache.length + 1) st s.pos with
      | none => _ | some (st', true, pos') => _ | some (st', false, _) => _)
  rw [← hc]
  rcases matchPopLoop_frame s.input (s.stack.cache.length + 1) s.stack st s.pos hg.wf.2 hi hc with
    ⟨h1, h2⟩ | ⟨a', b', ok, pos', h1, h2, hc'⟩
  · rw [h1, h2]; trivial
  · rw [h1, h2]
    cases ok with
    | true => exact ⟨rfl, hc'⟩
    | false => exact ⟨rfl, hc'⟩

theorem frame_stackDrop (f : Nat) (st : Stk Str) (s : PState) (hg : Good s) (hi : StkInv st)
    (hc : s.stack.cache = st.cache) :
    OEq0F (run cfg (f+1) .stackDrop s) (run cfg (f+1) .stackDrop (ws st s)) := by
  obtain ⟨a', b', v, ha, hb, -, -, hc', -⟩ := pop_frame hg.wf.2 hi hc
  rw [PS.run, PS.run]
  show OEq0F (match Stack.pop s.stack with | none => _ | some (st', some _) => _ | some (_, none) => _)
    (match Stack.pop st with | none => _ | some (st', some _) => _ | some (_, none) => _)
  rw [ha, hb]
  cases v with
  | none => exact ⟨rfl, hc⟩
  | some str => exact ⟨rfl, hc'⟩

theorem frame_stackPushLiteral (f : Nat) (str : Str) (st : Stk Str) (s : PState)
    (hc : s.stack.cache = st.cache) :
    OEq0F (run cfg (f+1) (.stackPushLiteral str) s) (run cfg (f+1) (.stackPushLiteral str) (ws st s)) := by
  rw [PS.run, PS.run]
  exact ⟨rfl, congrArg (List.cons str) hc⟩

/-- **Frame independence**: the saved snapshots below the current one are never looked at. -/
theorem run_frame (cfg : Cfg) : ∀ (n : Nat) (p : Prog) (s1 s2 : PState), SEq s1 s2 →
    OEqF (run cfg n p s1) (run cfg n p s2)
  | 0, p, s1, s2, _ => by rw [run_zero, run_zero]; trivial
  | n + 1, p, s1, s2, hs => by
    have ih := run_frame cfg n
    have up : OEq0F (run cfg (n+1) p s1) (run cfg (n+1) p s2) → OEqF (run cfg (n+1) p s1) (run cfg (n+1) p s2) :=
      fun h => ORel.upgrade h (fun _ hx => good_run hs.g1 hx) (fun _ hx => good_run hs.g2 hx)
    cases p with
    | sequence p =>
      have g1 := fun x (hx : (run cfg (n+1) (.sequence p) s1).state? = some x) => good_run hs.g1 hx
      have g2 := fun x (hx : (run cfg (n+1) (.sequence p) s2).state? = some x) => good_run hs.g2 hx
      rw [run_sequence_K] at g1 g2 ⊢; rw [run_sequence_K]
      exact frame_bracket seqK_ok seqK_frame ih p hs g1 g2
    | optional p =>
      have g1 := fun x (hx : (run cfg (n+1) (.optional p) s1).state? = some x) => good_run hs.g1 hx
      have g2 := fun x (hx : (run cfg (n+1) (.optional p) s2).state? = some x) => good_run hs.g2 hx
      rw [run_optional_K] at g1 g2 ⊢; rw [run_optional_K]
      exact frame_bracket optK_ok optK_frame ih p hs g1 g2
    | repeat_ p =>
      have g1 := fun x (hx : (run cfg (n+1) (.repeat_ p) s1).state? = some x) => good_run hs.g1 hx
      have g2 := fun x (hx : (run cfg (n+1) (.repeat_ p) s2).state? = some x) => good_run hs.g2 hx
      rw [run_repeat_K] at g1 g2 ⊢; rw [run_repeat_K]
      exact frame_bracket idK_ok idK_frame ih _ hs g1 g2
    | lookahead b p =>
      have g1 := fun x (hx : (run cfg (n+1) (.lookahead b p) s1).state? = some x) => good_run hs.g1 hx
      have g2 := fun x (hx : (run cfg (n+1) (.lookahead b p) s2).state? = some x) => good_run hs.g2 hx
      rw [run_lookahead_K] at g1 g2 ⊢; rw [run_lookahead_K]
      exact frame_bracket (laK_ok b) (laK_frame b) ih p hs g1 g2
    | atomic a p =>
      have g1 := fun x (hx : (run cfg (n+1) (.atomic a p) s1).state? = some x) => good_run hs.g1 hx
      have g2 := fun x (hx : (run cfg (n+1) (.atomic a p) s2).state? = some x) => good_run hs.g2 hx
      rw [run_atomic_K] at g1 g2 ⊢; rw [run_atomic_K]
      exact frame_bracket (atomK_ok a) (atomK_frame a) ih p hs g1 g2
    | rule r p =>
      have g1 := fun x (hx : (run cfg (n+1) (.rule r p) s1).state? = some x) => good_run hs.g1 hx
      have g2 := fun x (hx : (run cfg (n+1) (.rule r p) s2).state? = some x) => good_run hs.g2 hx
      rw [run_rule_K] at g1 g2 ⊢; rw [run_rule_K]
      exact frame_bracket (ruleK_ok r) (ruleK_frame r) ih p hs g1 g2
    | stackPush p =>
      have g1 := fun x (hx : (run cfg (n+1) (.stackPush p) s1).state? = some x) => good_run hs.g1 hx
      have g2 := fun x (hx : (run cfg (n+1) (.stackPush p) s2).state? = some x) => good_run hs.g2 hx
      rw [run_stackPush_K] at g1 g2 ⊢; rw [run_stackPush_K]
      exact frame_bracket pushK_ok pushK_frame ih p hs g1 g2
    | restoreOnErr p =>
      have g1 := fun x (hx : (run cfg (n+1) (.restoreOnErr p) s1).state? = some x) => good_run hs.g1 hx
      have g2 := fun x (hx : (run cfg (n+1) (.restoreOnErr p) s2).state? = some x) => good_run hs.g2 hx
      rw [run_restoreOnErr_K] at g1 g2 ⊢; rw [run_restoreOnErr_K]
      exact frame_bracket0 roeK_ok roeK_frame ih p hs g1 g2
    | repLoop p =>
      rw [run_repLoop, run_repLoop]
      have h := ih p s1 s2 hs
      revert h
      cases run cfg n p s1 <;> cases run cfg n p s2 <;> intro h <;>
        first | exact False.elim h | exact ih _ _ _ h | exact h
    | andThen p q =>
      rw [run_andThen, run_andThen]
      have h := ih p s1 s2 hs
      revert h
      cases run cfg n p s1 <;> cases run cfg n p s2 <;> intro h <;>
        first | exact False.elim h | exact ih _ _ _ h | exact h
    | orElse p q =>
      rw [run_orElse, run_orElse]
      have h := ih p s1 s2 hs
      revert h
      cases run cfg n p s1 <;> cases run cfg n p s2 <;> intro h <;>
        first | exact False.elim h | exact ih _ _ _ h | exact h
    | call i =>
      rw [run_call, run_call]
      cases cfg.env[i]? with
      | none => trivial
      | some q => exact ih q s1 s2 hs
    | matchString str =>
      obtain ⟨st, rfl, hc⟩ := hs.core.exists; exact up (frame_plain n _ rfl st s1 hc)
    | matchInsensitive str =>
      obtain ⟨st, rfl, hc⟩ := hs.core.exists; exact up (frame_plain n _ rfl st s1 hc)
    | matchRange a b =>
      obtain ⟨st, rfl, hc⟩ := hs.core.exists; exact up (frame_plain n _ rfl st s1 hc)
    | matchCharBy cs =>
      obtain ⟨st, rfl, hc⟩ := hs.core.exists; exact up (frame_plain n _ rfl st s1 hc)
    | skip k =>
      obtain ⟨st, rfl, hc⟩ := hs.core.exists; exact up (frame_plain n _ rfl st s1 hc)
    | skipUntil strs =>
      obtain ⟨st, rfl, hc⟩ := hs.core.exists; exact up (frame_plain n _ rfl st s1 hc)
    | startOfInput =>
      obtain ⟨st, rfl, hc⟩ := hs.core.exists; exact up (frame_plain n _ rfl st s1 hc)
    | endOfInput =>
      obtain ⟨st, rfl, hc⟩ := hs.core.exists; exact up (frame_plain n _ rfl st s1 hc)
    | tagNode t =>
      obtain ⟨st, rfl, hc⟩ := hs.core.exists; exact up (frame_plain n _ rfl st s1 hc)
    | ok =>
      obtain ⟨st, rfl, hc⟩ := hs.core.exists; exact up (frame_plain n _ rfl st s1 hc)
    | fail =>
      obtain ⟨st, rfl, hc⟩ := hs.core.exists; exact up (frame_plain n _ rfl st s1 hc)
    | stackPeek =>
      obtain ⟨st, rfl, hc⟩ := hs.core.exists; exact up (frame_stackPeek n st s1 hs.g1 hc)
    | stackPop =>
      obtain ⟨st, rfl, hc⟩ := hs.core.exists; exact up (frame_stackPop n st s1 hs.g1 hs.g2.wf.2 hc)
    | stackMatchPeek =>
      obtain ⟨st, rfl, hc⟩ := hs.core.exists; exact up (frame_stackMatchPeek n st s1 hc)
    | stackMatchPop =>
      obtain ⟨st, rfl, hc⟩ := hs.core.exists; exact up (frame_stackMatchPop n st s1 hs.g1 hs.g2.wf.2 hc)
    | stackDrop =>
      obtain ⟨st, rfl, hc⟩ := hs.core.exists; exact up (frame_stackDrop n st s1 hs.g1 hs.g2.wf.2 hc)
    | stackMatchPeekSlice a b d =>
      obtain ⟨st, rfl, hc⟩ := hs.core.exists; exact up (frame_stackMatchPeekSlice n a b d st s1 hc)
    | stackPushLiteral str =>
      obtain ⟨st, rfl, hc⟩ := hs.core.exists; exact up (frame_stackPushLiteral n str st s1 hc)

end PestModel.GenVm
