import PestModel.Lemmas.LineColLineOf
namespace PestModel.LineCol

def ulPad (line : Str) (k : Nat) : Str :=
  let shown := (line.take k).map fun c => if c = '\t' then '\t' else ' '
  shown ++ List.replicate (k - shown.length) ' '

theorem ulPad_length (line : Str) (k : Nat) : (ulPad line k).length = k := by
  simp [ulPad]; omega

theorem ulPad_chars (line : Str) (k : Nat) : ∀ c ∈ ulPad line k, c = ' ' ∨ c = '\t' := by
  intro c hc
  simp only [ulPad, List.mem_append, List.mem_map, List.mem_replicate] at hc
  rcases hc with ⟨a, _, rfl⟩ | ⟨_, rfl⟩
  · split <;> simp
  · simp

theorem underline_pos (e : Err) (l k : Nat) (h : e.lineCol = .pos (l, k + 1)) :
    e.underline = some (ulPad e.line k ++ "^---".toList) := by
  simp [Err.underline, Err.start, h, ulPad]

theorem format_pos (e : Err) (lc : Nat × Nat) (u : Str) (h : e.lineCol = .pos lc)
    (hu : e.underline = some u) :
    e.format = some (
        e.spacing ++ "--> ".toList ++ natStr lc.1 ++ [':'] ++
          natStr lc.2 ++ ['\n'] ++
        e.spacing ++ " |\n".toList ++
        natStr lc.1 ++ " | ".toList ++ e.line ++ ['\n'] ++
        e.spacing ++ " | ".toList ++ u ++ ['\n'] ++
        e.spacing ++ " |\n".toList ++
        e.spacing ++ " = ".toList ++ e.message) := by
  simp [Err.format, hu, Err.start, h]

theorem newFromPos_boundary (pre post msg : Str) :
    newFromPos (pre ++ post) (bLen pre) msg = some
      { lineCol := .pos (lineColSpecChars pre),
        line := if (post.head? = some '\n' || post.head? = some '\r') then
          visualizeWs (specLineOf pre post) else stripCrLf (specLineOf pre post),
        continued := none, message := msg } := by
  simp [newFromPos, charAt?, splitAt_append, lineOf_boundary, lineCol_eq_spec, lineColSpec]

theorem newFromPos_boundary' (pre post msg : Str) :
    ∃ e, newFromPos (pre ++ post) (bLen pre) msg = some e ∧
      e.lineCol = .pos (lineColSpecChars pre) ∧
      (e.line = stripCrLf (specLineOf pre post) ∨ e.line = visualizeWs (specLineOf pre post)) ∧
      e.message = msg := by
  refine ⟨_, newFromPos_boundary pre post msg, rfl, ?_, rfl⟩
  dsimp only
  split
  · exact Or.inr rfl
  · exact Or.inl rfl

end PestModel.LineCol
