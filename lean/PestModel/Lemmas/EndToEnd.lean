import PestModel.Thm.C01
import PestModel.Thm.C02
import PestModel.Thm.C05
import PestModel.Thm.C06
import PestModel.Thm.C08
/-! Lemmas for the end-to-end composition: the optimizer does not introduce node tags. -/
namespace PestModel.E2E
open PestModel.G PestModel.V
open PestModel.LineCol (Str)

/-! ### the traversals -/

theorem noTag_mapTopDown (f : Expr → Expr) (hf : ∀ x, NoTag x = true → NoTag (f x) = true) :
    ∀ (n : Nat) (e : Expr), NoTag e = true → NoTag (mapTopDown f n e) = true := by
  intro n
  induction n with
  | zero => intro e h; exact h
  | succ n ih =>
    intro e h
    have h' := hf e h
    rw [mapTopDown]
    cases hfe : f e <;> rw [hfe] at h' <;> simp only [] <;>
      simp only [NoTag, Bool.and_eq_true] at h' ⊢ <;> first
        | exact h'
        | exact ih _ h'
        | exact ⟨ih _ h'.1, ih _ h'.2⟩

theorem noTag_mapBottomUp (f : Expr → Expr) (hf : ∀ x, NoTag x = true → NoTag (f x) = true) :
    ∀ e : Expr, NoTag e = true → NoTag (mapBottomUp f e) = true := by
  intro e
  induction e <;> intro h <;> simp only [mapBottomUp] <;> apply hf <;>
    simp only [NoTag, Bool.and_eq_true] at h ⊢ <;> first
      | exact h
      | (rename_i ih; exact ih h)
      | (rename_i iha ihb; exact ⟨iha h.1, ihb h.2⟩)

/-! ### rotate -/

theorem noTag_rotateInternal : ∀ (n : Nat) (e : Expr), NoTag e = true → NoTag (rotateInternal n e) = true := by
  intro n
  induction n with
  | zero => intro e h; exact h
  | succ n ih =>
    intro e h
    unfold rotateInternal
    split
    · exact h
    · rename_i hq; cases hq
      apply ih
      simp only [NoTag, Bool.and_eq_true] at h ⊢
      exact ⟨h.1.1, h.1.2, h.2⟩
    · rename_i hq; cases hq
      apply ih
      simp only [NoTag, Bool.and_eq_true] at h ⊢
      exact ⟨h.1.1, h.1.2, h.2⟩
    · exact h

theorem noTag_rotateExpr (e : Expr) (h : NoTag e = true) : NoTag (rotateExpr e) = true :=
  noTag_mapTopDown _ (fun x hx => noTag_rotateInternal _ x hx) _ e h

/-! ### skip -/

theorem noTag_skipF (rules : List Rule) (x : Expr) (h : NoTag x = true) : NoTag (skipF rules x) = true := by
  unfold skipF
  split
  · split
    · rename_i heq
      obtain ⟨strs, rfl⟩ := PestModel.Ref.populate_is_skip _ _ _ _ _ heq
      split
      · exact h
      · rfl
    · exact h
  · exact h

theorem noTag_skip (rules : List Rule) (r : Rule) (h : NoTag r.expr = true) :
    NoTag (skip rules r).expr = true := by
  unfold skip
  split
  · exact noTag_mapTopDown _ (noTag_skipF rules) _ _ h
  · exact h

/-! ### unroll -/

theorem noTag_seqOfList : ∀ (l : List Expr) (e : Expr), (∀ x ∈ l, NoTag x = true) → seqOfList l = some e →
    NoTag e = true := by
  intro l
  induction l with
  | nil => intro e _ h; simp [seqOfList] at h
  | cons x xs ih =>
    intro e hl h
    cases xs with
    | nil =>
      simp only [seqOfList, Option.some.injEq] at h
      subst h
      exact hl _ (by simp)
    | cons y ys =>
      simp only [seqOfList, Option.map_eq_some_iff] at h
      obtain ⟨e', he', rfl⟩ := h
      have h1 : NoTag e' = true := ih e' (fun z hz => hl z (List.mem_cons_of_mem _ hz)) (by simpa [seqOfList] using he')
      simp only [NoTag, Bool.and_eq_true]
      exact ⟨hl _ (by simp), h1⟩

theorem noTag_unrollF (extras : Bool) (x x' : Expr) (h : NoTag x = true) (hu : unrollF extras x = some x') :
    NoTag x' = true := by
  unfold unrollF at hu
  split at hu
  · split at hu
    · simp only [Option.some.injEq] at hu; subst hu; exact h
    · simp only [Option.some.injEq] at hu; subst hu
      simp only [NoTag, Bool.and_eq_true] at h ⊢
      exact ⟨h, h⟩
  · refine noTag_seqOfList _ _ ?_ hu
    intro z hz
    rw [List.eq_of_mem_replicate hz]
    simpa [NoTag] using h
  · refine noTag_seqOfList _ _ ?_ hu
    intro z hz
    simp only [NoTag] at h
    rcases List.mem_append.1 hz with hz | hz
    · rw [List.eq_of_mem_replicate hz]; exact h
    · simp only [List.mem_singleton] at hz; subst hz; simpa [NoTag] using h
  · refine noTag_seqOfList _ _ ?_ hu
    intro z hz
    rw [List.eq_of_mem_replicate hz]
    simpa [NoTag] using h
  · refine noTag_seqOfList _ _ ?_ hu
    intro z hz
    simp only [NoTag] at h
    obtain ⟨i, _, rfl⟩ := List.mem_map.1 hz
    split
    · exact h
    · simpa [NoTag] using h
  · simp only [Option.some.injEq] at hu; subst hu; exact h

theorem noTag_unrollExpr (extras : Bool) : ∀ (e e' : Expr), NoTag e = true → unrollExpr extras e = some e' →
    NoTag e' = true := by
  intro e
  induction e <;> intro e' h hu <;> simp only [unrollExpr, Option.bind_eq_some_iff] at hu
  case posPred e ih | negPred e ih | opt e ih | rep e ih | repOnce e ih | push e ih =>
    obtain ⟨e1, h1, h2⟩ := hu
    exact noTag_unrollF extras _ _ (by simpa [NoTag] using ih e1 (by simpa [NoTag] using h) h1) h2
  case repExact e n ih | repMin e n ih | repMax e n ih =>
    obtain ⟨e1, h1, h2⟩ := hu
    exact noTag_unrollF extras _ _ (by simpa [NoTag] using ih e1 (by simpa [NoTag] using h) h1) h2
  case repMinMax e lo hi ih =>
    obtain ⟨e1, h1, h2⟩ := hu
    exact noTag_unrollF extras _ _ (by simpa [NoTag] using ih e1 (by simpa [NoTag] using h) h1) h2
  case seq a b iha ihb | choice a b iha ihb =>
    obtain ⟨a1, h1, b1, h2, h3⟩ := hu
    simp only [NoTag, Bool.and_eq_true] at h
    exact noTag_unrollF extras _ _ (by simp [NoTag, iha a1 h.1 h1, ihb b1 h.2 h2]) h3
  case nodeTag e t ih => simp [NoTag] at h
  all_goals exact noTag_unrollF extras _ _ h hu

/-! ### concatenate, factor, list -/

theorem noTag_concatF (x : Expr) (h : NoTag x = true) : NoTag (concatF x) = true := by
  unfold concatF
  split
  · rfl
  · rfl
  · exact h

theorem noTag_concatenate (r : Rule) (h : NoTag r.expr = true) : NoTag (concatenate r).expr = true := by
  unfold concatenate
  split
  · exact noTag_mapBottomUp _ noTag_concatF _ h
  · exact h

theorem noTag_factorF (ty : RuleType) (x : Expr) (h : NoTag x = true) : NoTag (factorF ty x) = true := by
  unfold factorF
  split
  · split
    · simp only [NoTag, Bool.and_eq_true] at h ⊢
      exact ⟨h.1.1, h.1.2, h.2.2⟩
    · exact h
  · split
    · split
      · simp only [NoTag, Bool.and_eq_true] at h ⊢
        exact ⟨h.1.1, h.1.2⟩
      · exact h
    · exact h
  · split
    · simp only [NoTag, Bool.and_eq_true] at h
      exact h.1
    · exact h
  · exact h

theorem noTag_factor (r : Rule) (h : NoTag r.expr = true) : NoTag (factor r).expr = true :=
  noTag_mapTopDown _ (noTag_factorF r.ty) _ _ h

theorem noTag_listF (x : Expr) (h : NoTag x = true) : NoTag (listF x) = true := by
  unfold listF
  split
  · split
    · simp only [NoTag, Bool.and_eq_true] at h ⊢
      exact ⟨h.1.1, h.1.2, h.2⟩
    · exact h
  · exact h

theorem noTag_list (r : Rule) (h : NoTag r.expr = true) : NoTag (list r).expr = true :=
  noTag_mapBottomUp _ noTag_listF _ h

/-! ### the AST passes together -/

theorem noTag_astPasses (extras withList : Bool) (rules : List Rule) (r r' : Rule) (h : NoTag r.expr = true)
    (hp : astPasses extras withList rules r = some r') : NoTag r'.expr = true := by
  unfold astPasses at hp
  simp only [Option.map_eq_some_iff] at hp
  obtain ⟨r1, h1, rfl⟩ := hp
  unfold unroll at h1
  simp only [Option.map_eq_some_iff] at h1
  obtain ⟨e1, he1, rfl⟩ := h1
  have h2 : NoTag e1 = true :=
    noTag_unrollExpr extras _ _ (noTag_skip rules _ (by exact noTag_rotateExpr _ h)) he1
  have h3 := noTag_factor _ (noTag_concatenate ⟨(skip rules (rotate r)).name, (skip rules (rotate r)).ty, e1⟩ h2)
  cases withList
  · exact h3
  · exact noTag_list _ h3

/-! ### conversion and restorer -/

theorem noTag_toOptimized (extras : Bool) : ∀ (e : Expr) (o : OExpr), NoTag e = true → toOptimized extras e = some o →
    PestModel.VmRef.noTag o = true := by
  intro e
  induction e with
  | posPred e ih | negPred e ih | opt e ih | rep e ih | push e ih =>
    intro o hn h
    simp only [toOptimized, Option.map_eq_some_iff] at h
    obtain ⟨a, ha, rfl⟩ := h
    simpa [PestModel.VmRef.noTag] using ih a (by simpa [NoTag] using hn) ha
  | nodeTag e t ih => intro o hn h; simp [NoTag] at hn
  | seq a b iha ihb | choice a b iha ihb =>
    intro o hn h
    simp only [toOptimized, Option.bind_eq_some_iff, Option.map_eq_some_iff] at h
    obtain ⟨a', ha, b', hb, rfl⟩ := h
    simp only [NoTag, Bool.and_eq_true] at hn
    simp [PestModel.VmRef.noTag, iha a' hn.1 ha, ihb b' hn.2 hb]
  | repOnce e ih =>
    intro o hn h
    cases extras
    · simp [toOptimized] at h
    · simp only [toOptimized, if_true, Option.map_eq_some_iff] at h
      obtain ⟨a, ha, rfl⟩ := h
      simpa [PestModel.VmRef.noTag] using ih a (by simpa [NoTag] using hn) ha
  | repExact _ _ | repMin _ _ | repMax _ _ | repMinMax _ _ _ =>
    intro o hn h; simp [toOptimized] at h
  | _ =>
    intro o hn h
    simp only [toOptimized, Option.some.injEq] at h
    subst h; rfl

theorem noTag_omapBottomUp (extras : Bool) (f : OExpr → OExpr)
    (hf : ∀ x, PestModel.VmRef.noTag (f x) = PestModel.VmRef.noTag x) :
    ∀ e : OExpr, PestModel.VmRef.noTag e = true → PestModel.VmRef.noTag (omapBottomUp extras f e) = true := by
  intro e
  induction e <;> intro h <;> simp only [omapBottomUp] <;> (try split) <;> rw [hf] <;>
    simp only [PestModel.VmRef.noTag, Bool.and_eq_true] at h ⊢ <;> first
      | exact h
      | (rename_i ih; exact ih h)
      | (rename_i ih _; exact ih h)
      | (rename_i iha ihb; exact ⟨iha h.1, ihb h.2⟩)

theorem noTag_restoreOnErr (extras : Bool) (opt : List ORule) (r : ORule)
    (h : PestModel.VmRef.noTag r.expr = true) : PestModel.VmRef.noTag (restoreOnErr extras opt r).expr = true := by
  have h1 := noTag_omapBottomUp extras _ (PestModel.VmRef.noTag_wrap extras opt) _ h
  show PestModel.VmRef.noTag (if _ then _ else _) = true
  split
  · exact h1
  · exact h1

/-- **the optimizer does not introduce node tags.** -/
theorem noTag_optimizeWith (extras withList : Bool) (rules : List Rule) (rs : List ORule)
    (hn : ∀ r ∈ rules, NoTag r.expr = true) (h : optimizeWith extras withList rules = some rs) :
    ∀ r ∈ rs, PestModel.VmRef.noTag r.expr = true := by
  unfold optimizeWith at h
  split at h
  · cases h
  · rename_i opt hmap
    cases h
    intro r hr
    obtain ⟨r0, hr0, rfl⟩ := List.mem_map.1 hr
    obtain ⟨a, ha0, ha⟩ := PestModel.VmRef.mapM_option_mem _ _ _ hmap r0 hr0
    simp only [Option.bind_eq_some_iff, Option.map_eq_some_iff] at ha
    obtain ⟨r1, hr1, e1, he1, rfl⟩ := ha
    apply noTag_restoreOnErr
    exact noTag_toOptimized extras _ _ (noTag_astPasses extras withList rules a r1 (hn a ha0) hr1) he1

end PestModel.E2E
