import PestModel.Lemmas.ViewsLayout
import PestModel.Lemmas.ViewsBuild
import PestModel.Lemmas.ViewsPairs
import PestModel.Lemmas.ViewsToks
import PestModel.Lemmas.ViewsFlat
import PestModel.Lemmas.ViewsRender
import PestModel.Lemmas.ViewsJson
/-! Helper lemmas for C04 (umbrella file). -/
