import PestModel.Thm.C06
import PestModel.Lemmas.OptTotal
import PestModel.Lemmas.ReaderIdents
import PestModel.Lemmas.RefClosed
/-! C01 / C09: the "no `stuck` outcome" condition from what the pipeline establishes (names, stack-freedom, counts). -/
namespace PestModel.Ref
open PestModel.G
open PestModel.ReaderValue (idents)

/-- `NS` from its three ingredients. -/
theorem ns_of_parts (c : Ctx) : ∀ (e : Expr), PestModel.C06.StackFree e = true → PestModel.OptTotal.posCounts e = true →
    (∀ n ∈ idents e, nameOK c n = true) → NS c e = true
  | .ident n, _, _, h => by simp only [NS]; exact h n (by simp [idents])
  | .push _, h, _, _ => by simp [PestModel.C06.StackFree] at h
  | .peekSlice _ _, h, _, _ => by simp [PestModel.C06.StackFree] at h
  | .pushLiteral _, h, _, _ => by simp [PestModel.C06.StackFree] at h
  | .posPred e, h, hp, hi | .negPred e, h, hp, hi | .opt e, h, hp, hi | .rep e, h, hp, hi | .repOnce e, h, hp, hi
  | .nodeTag e _, h, hp, hi => by
    simp only [PestModel.C06.StackFree] at h; simp only [PestModel.OptTotal.posCounts] at hp; simp only [idents] at hi
    simp only [NS]; exact ns_of_parts c e h hp hi
  | .repMin e _, h, hp, hi => by
    simp only [PestModel.C06.StackFree] at h; simp only [PestModel.OptTotal.posCounts] at hp; simp only [idents] at hi
    simp only [NS]; exact ns_of_parts c e h hp hi
  | .repExact e n, h, hp, hi | .repMax e n, h, hp, hi => by
    simp only [PestModel.C06.StackFree] at h
    simp only [PestModel.OptTotal.posCounts, Bool.and_eq_true, decide_eq_true_eq] at hp; simp only [idents] at hi
    simp only [NS, Bool.and_eq_true, decide_eq_true_eq]; exact ⟨ns_of_parts c e h hp.2 hi, by omega⟩
  | .repMinMax e _ hi', h, hp, hi => by
    simp only [PestModel.C06.StackFree] at h
    simp only [PestModel.OptTotal.posCounts, Bool.and_eq_true, decide_eq_true_eq] at hp; simp only [idents] at hi
    simp only [NS, Bool.and_eq_true, decide_eq_true_eq]; exact ⟨ns_of_parts c e h hp.2 hi, by omega⟩
  | .seq a b, h, hp, hi | .choice a b, h, hp, hi => by
    simp only [PestModel.C06.StackFree, Bool.and_eq_true] at h
    simp only [PestModel.OptTotal.posCounts, Bool.and_eq_true] at hp
    simp only [idents, List.mem_append] at hi
    simp only [NS, Bool.and_eq_true]
    exact ⟨ns_of_parts c a h.1 hp.1 (fun n hn => hi n (.inl hn)), ns_of_parts c b h.2 hp.2 (fun n hn => hi n (.inr hn))⟩
  | .str _, _, _, _ | .insens _, _, _, _ | .range _ _, _, _, _ | .skip _, _, _, _ => rfl
end PestModel.Ref

namespace PestModel.E2E
open PestModel.G PestModel.Ref
open PestModel.ReaderValue (idents)

theorem stackFree_idents : ∀ (e : Expr), PestModel.C06.StackFree e = true → ∀ n ∈ idents e, PestModel.C06.stackBuiltins.contains n = false
  | .ident m, h, n, hn => by
    simp only [idents, List.mem_singleton] at hn; subst hn
    simpa [PestModel.C06.StackFree] using h
  | .push _, h, _, _ => by simp [PestModel.C06.StackFree] at h
  | .peekSlice _ _, _, _, hn => by simp [idents] at hn
  | .pushLiteral _, _, _, hn => by simp [idents] at hn
  | .posPred e, h, n, hn | .negPred e, h, n, hn | .opt e, h, n, hn | .rep e, h, n, hn | .repOnce e, h, n, hn
  | .nodeTag e _, h, n, hn | .repMin e _, h, n, hn | .repExact e _, h, n, hn | .repMax e _, h, n, hn
  | .repMinMax e _ _, h, n, hn => by
    simp only [PestModel.C06.StackFree] at h; simp only [idents] at hn; exact stackFree_idents e h n hn
  | .seq a b, h, n, hn | .choice a b, h, n, hn => by
    simp only [PestModel.C06.StackFree, Bool.and_eq_true] at h
    simp only [idents, List.mem_append] at hn
    rcases hn with hn | hn
    · exact stackFree_idents a h.1 n hn
    · exact stackFree_idents b h.2 n hn
  | .str _, _, _, hn | .insens _, _, _, hn | .range _ _, _, _, hn | .skip _, _, _, hn => by simp [idents] at hn

/-- the validator's explicit built-ins other than the stack operations cannot get stuck. -/
theorem explicit_plain : ∀ n ∈ PestModel.Gen.Unicode.builtinsExplicit, PestModel.C06.stackBuiltins.contains n = false →
    plainBuiltins.contains n = true := by decide

end PestModel.E2E
