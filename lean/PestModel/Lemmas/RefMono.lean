import PestModel.Lemmas.Ref
/-! C05 helper lemmas, part 2: `step` is monotone; fuel monotonicity. -/
namespace PestModel.Ref
open PestModel.G
open PestModel.LineCol (Str bLen cLen splitAt?)
open PestModel.Views (Tree)
open PestModel.PS (Atomicity CharSet restAt asciiLower eqIgnoreAsciiCase normalizeIndex)

structure Fam.le (X Y : Fam) : Prop where
  d : ∀ m la e s, (X.d m la e s).le (Y.d m la e s)
  l : ∀ m la e s acc, (X.l m la e s acc).le (Y.l m la e s acc)
  k : ∀ m la s, (X.k m la s).le (Y.k m la s)
  st : ∀ la n s acc, (X.st la n s acc).le (Y.st la n s acc)
  cl : ∀ la s acc, (X.cl la s acc).le (Y.cl la s acc)
  ca : ∀ m la n s, (X.ca m la n s).le (Y.ca m la n s)

local macro "mm " t:term : tactic =>
  `(tactic| (obtain hh | hh := $t; (· simp only [hh]; exact Or.inl rfl); simp only [hh]))

local macro "cs " t:term : tactic =>
  `(tactic| (cases $t:term <;> simp only [] <;> try exact Res.le_refl _))

theorem denoteF_mono (c : Ctx) {X Y : Fam} (h : X.le Y) m la e s :
    (denoteF c X m la e s).le (denoteF c Y m la e s) := by
  cases e <;> simp only [denoteF] <;> try exact Res.le_refl _
  case ident n => exact h.ca m la n s
  case posPred e =>
    mm h.d m true e s
    cs Y.d m true e s
  case negPred e =>
    mm h.d m true e s
    cs Y.d m true e s
  case seq a b =>
    mm h.d m la a s
    cs Y.d m la a s
    rename_i s1 f1
    mm h.k m la s1
    cs Y.k m la s1
    rename_i s2 f2
    mm h.d m la b s2
    cs Y.d m la b s2
  case choice a b =>
    mm h.d m la a s
    cs Y.d m la a s
    exact h.d m la b s
  case opt e =>
    mm h.d m la e s
    cs Y.d m la e s
  case rep e =>
    mm h.d m la e s
    cs Y.d m la e s
    exact h.l ..
  case repOnce e =>
    split
    · mm h.d m la e s
      cs Y.d m la e s
      exact h.l ..
    · exact h.d ..
  case push e =>
    mm h.d m la e s
    cs Y.d m la e s
  case nodeTag e t =>
    mm h.d m la e s
    cs Y.d m la e s
  all_goals (split <;> first | exact h.d .. | exact Res.le_refl _)

theorem repLoopF_mono {X Y : Fam} (h : X.le Y) m la e s acc :
    (repLoopF X m la e s acc).le (repLoopF Y m la e s acc) := by
  simp only [repLoopF]
  mm h.k m la s
  cs Y.k m la s
  rename_i s1 f1
  mm h.d m la e s1
  cs Y.d m la e s1
  exact h.l ..

theorem skipWsF_mono (c : Ctx) {X Y : Fam} (h : X.le Y) m la s :
    (skipWsF c X m la s).le (skipWsF c Y m la s) := by
  simp only [skipWsF]
  split
  · exact Res.le_refl _
  · split
    · exact Res.le_refl _
    · exact h.st ..
    · exact h.st ..
    · mm h.st la "WHITESPACE" s []
      cs Y.st la "WHITESPACE" s []
      exact h.cl ..

theorem starF_mono {X Y : Fam} (h : X.le Y) la n s acc :
    (starF X la n s acc).le (starF Y la n s acc) := by
  simp only [starF]
  mm h.ca .nonAtomic la n s
  cs Y.ca .nonAtomic la n s
  exact h.st ..

theorem commentLoopF_mono {X Y : Fam} (h : X.le Y) la s acc :
    (commentLoopF X la s acc).le (commentLoopF Y la s acc) := by
  simp only [commentLoopF]
  mm h.ca .nonAtomic la "COMMENT" s
  cs Y.ca .nonAtomic la "COMMENT" s
  rename_i s1 f1
  mm h.st la "WHITESPACE" s1 []
  cs Y.st la "WHITESPACE" s1 []
  exact h.cl ..

theorem callF_mono (c : Ctx) {X Y : Fam} (h : X.le Y) m la n s :
    (callF c X m la n s).le (callF c Y m la n s) := by
  simp only [callF]
  split
  · rename_i id r _
    mm h.d (bodyMode r.name r.ty m) la r.expr s
    cs Y.d (bodyMode r.name r.ty m) la r.expr s
  · exact Res.le_refl _

theorem step_mono (c : Ctx) {X Y : Fam} (h : X.le Y) : (step c X).le (step c Y) :=
  ⟨denoteF_mono c h, repLoopF_mono h, skipWsF_mono c h, starF_mono h, commentLoopF_mono h, callF_mono c h⟩

theorem lev_mono1 (c : Ctx) (n : Nat) : (lev c n).le (lev c (n + 1)) := by
  induction n with
  | zero =>
    constructor <;> intros
    · rw [lev_zero_d]; exact Res.fuel_le _
    · rw [lev_zero_l]; exact Res.fuel_le _
    · rw [lev_zero_k]; exact Res.fuel_le _
    · rw [lev_zero_st]; exact Res.fuel_le _
    · rw [lev_zero_cl]; exact Res.fuel_le _
    · rw [lev_zero_ca]; exact Res.fuel_le _
  | succ n ih =>
    rw [lev_succ c (n + 1), lev_succ c n]
    exact step_mono c ih

theorem Fam.le_refl (X : Fam) : X.le X := by
  constructor <;> intros <;> exact Res.le_refl _

theorem Fam.le_trans {X Y Z : Fam} (h1 : X.le Y) (h2 : Y.le Z) : X.le Z := by
  constructor <;> intros
  · exact Res.le_trans (h1.d ..) (h2.d ..)
  · exact Res.le_trans (h1.l ..) (h2.l ..)
  · exact Res.le_trans (h1.k ..) (h2.k ..)
  · exact Res.le_trans (h1.st ..) (h2.st ..)
  · exact Res.le_trans (h1.cl ..) (h2.cl ..)
  · exact Res.le_trans (h1.ca ..) (h2.ca ..)

theorem lev_mono (c : Ctx) {n n' : Nat} (h : n ≤ n') : (lev c n).le (lev c n') := by
  induction h with
  | refl => exact Fam.le_refl _
  | step _ ih => exact Fam.le_trans ih (lev_mono1 c _)

end PestModel.Ref
