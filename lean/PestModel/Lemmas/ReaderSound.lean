import PestModel.Lemmas.ReaderDen
/-!
C07, pair level, converse: on pairs of the shape the meta-grammar produces (`GrammarForest`, C09), **whatever the reader
returns is what the pairs denote** (`ExprV`); with `ReaderValue.consumeRules_value` the reader is characterised exactly.
-/
namespace PestModel.ReaderValue
open PestModel.G PestModel.Reader PestModel.ReaderFull PestModel.ReaderShape
open PestModel.Views (Tree sizeList)
open PestModel.LineCol (Str)
open PestModel.C07Full

/-! ### every primary of the infix stage is used -/

def leafIn (k : Nat) : Bin → Prop
  | .leaf i => i = k
  | .seq a b => leafIn k a ∨ leafIn k b
  | .alt a b => leafIn k a ∨ leafIn k b

theorem build_some_leaf (prims : List (Option Expr)) : ∀ (b : Bin) (e : Expr), build prims b = some e →
    ∀ k, leafIn k b → ∃ x, prims[k]? = some (some x)
  | .leaf i, e, h, k, hk => by
    simp only [leafIn] at hk; subst hk
    simp only [build] at h
    cases hp : prims[i]? with
    | none => simp [hp] at h
    | some r => cases r with
      | none => simp [hp] at h
      | some x => exact ⟨x, rfl⟩
  | .seq a b, e, h, k, hk => by
    simp only [build] at h
    cases ha : build prims a with
    | none => simp [ha] at h
    | some x => cases hb : build prims b with
      | none => simp [ha, hb] at h
      | some y =>
        rcases hk with hk | hk
        · exact build_some_leaf prims a x ha k hk
        · exact build_some_leaf prims b y hb k hk
  | .alt a b, e, h, k, hk => by
    simp only [build] at h
    cases ha : build prims a with
    | none => simp [ha] at h
    | some x => cases hb : build prims b with
      | none => simp [ha, hb] at h
      | some y =>
        rcases hk with hk | hk
        · exact build_some_leaf prims a x ha k hk
        · exact build_some_leaf prims b y hb k hk

theorem leafIn_joinB {k : Nat} {acc : Option Bin} {cur : Bin} (h : (∃ a, acc = some a ∧ leafIn k a) ∨ leafIn k cur) :
    leafIn k (joinB acc cur) := by
  cases acc with
  | none => rcases h with ⟨a, ha, _⟩ | h; cases ha; exact h
  | some a =>
    rcases h with ⟨a', ha, hk⟩ | h
    · cases ha; exact Or.inl hk
    · exact Or.inr h

theorem leafIn_shapeGo : ∀ (ops : List Bool) (acc : Option Bin) (cur : Bin) (i k : Nat),
    ((∃ a, acc = some a ∧ leafIn k a) ∨ leafIn k cur ∨ (i ≤ k ∧ k < i + ops.length)) → leafIn k (shapeGo acc cur i ops)
  | [], acc, cur, i, k, h => by
    simp only [shapeGo]
    apply leafIn_joinB
    rcases h with h | h | h
    · exact Or.inl h
    · exact Or.inr h
    · simp at h; omega
  | false :: r, acc, cur, i, k, h => by
    simp only [shapeGo]
    apply leafIn_shapeGo r acc _ (i + 1) k
    rcases h with h | h | h
    · exact Or.inl h
    · exact Or.inr (Or.inl (Or.inl h))
    · by_cases hik : k = i
      · exact Or.inr (Or.inl (Or.inr hik.symm))
      · simp only [List.length_cons] at h; exact Or.inr (Or.inr ⟨by omega, by omega⟩)
  | true :: r, acc, cur, i, k, h => by
    simp only [shapeGo]
    apply leafIn_shapeGo r _ _ (i + 1) k
    rcases h with h | h | h
    · exact Or.inl ⟨_, rfl, leafIn_joinB (Or.inl h)⟩
    · exact Or.inl ⟨_, rfl, leafIn_joinB (Or.inr h)⟩
    · by_cases hik : k = i
      · exact Or.inr (Or.inl hik.symm)
      · simp only [List.length_cons] at h; exact Or.inr (Or.inr ⟨by omega, by omega⟩)

theorem leafIn_shape (ops : List Bool) (k : Nat) (hk : k ≤ ops.length) : leafIn k (shape ops) := by
  unfold shape
  apply leafIn_shapeGo
  by_cases h0 : k = 0
  · exact Or.inr (Or.inl h0.symm)
  · exact Or.inr (Or.inr ⟨by omega, by omega⟩)


/-! ### postfix operators and leaves: success means the denoted value -/

theorem postV_of_success {text : Str} {p : Tree} {x y : Expr} (hp : PostfixT text p) (h : postfixOp text x p = some y) :
    PostV text p x y := by
  rcases hp with hk | hk | hk | ⟨hk, o, n, c, hc, _⟩ | ⟨hk, o, n, cm, c, hc, _⟩ | ⟨hk, o, cm, n, c, hc, _⟩ |
    ⟨hk, o, a, cm, b, c, hc, _, _⟩
  · simp [postfixOp, hk] at h; exact Or.inl ⟨hk, h.symm⟩
  · simp [postfixOp, hk] at h; exact Or.inr (Or.inl ⟨hk, h.symm⟩)
  · simp [postfixOp, hk] at h; exact Or.inr (Or.inr (Or.inl ⟨hk, h.symm⟩))
  · simp only [postfixOp, hk, hc] at h
    simp only [show ("repeat_exact" = "optional_operator") = False from by decide, show ("repeat_exact" = "repeat_operator") = False from by decide,
      show ("repeat_exact" = "repeat_once_operator") = False from by decide, if_false, if_true] at h
    cases hn : numberOf text n with
    | none => simp [hn] at h
    | some k =>
      simp only [hn] at h
      by_cases hk0 : k = 0
      · simp [hk0] at h
      · simp only [hk0, if_false, Option.some.injEq] at h
        exact Or.inr (Or.inr (Or.inr (Or.inl ⟨hk, o, n, c, [], hc, k, hn, hk0, h.symm⟩)))
  · simp only [postfixOp, hk, hc] at h
    simp only [show ("repeat_min" = "optional_operator") = False from by decide, show ("repeat_min" = "repeat_operator") = False from by decide,
      show ("repeat_min" = "repeat_once_operator") = False from by decide, show ("repeat_min" = "repeat_exact") = False from by decide,
      if_false, if_true] at h
    cases hn : numberOf text n with
    | none => simp [hn] at h
    | some k =>
      simp only [hn, Option.map_some, Option.some.injEq] at h
      exact Or.inr (Or.inr (Or.inr (Or.inr (Or.inl ⟨hk, o, n, [cm, c], hc, k, hn, h.symm⟩))))
  · simp only [postfixOp, hk, hc] at h
    simp only [show ("repeat_max" = "optional_operator") = False from by decide, show ("repeat_max" = "repeat_operator") = False from by decide,
      show ("repeat_max" = "repeat_once_operator") = False from by decide, show ("repeat_max" = "repeat_exact") = False from by decide,
      show ("repeat_max" = "repeat_min") = False from by decide, if_false, if_true] at h
    cases hn : numberOf text n with
    | none => simp [hn] at h
    | some k =>
      simp only [hn] at h
      by_cases hk0 : k = 0
      · simp [hk0] at h
      · simp only [hk0, if_false, Option.some.injEq] at h
        exact Or.inr (Or.inr (Or.inr (Or.inr (Or.inr (Or.inl ⟨hk, o, cm, n, [c], hc, k, hn, hk0, h.symm⟩)))))
  · simp only [postfixOp, hk, hc] at h
    simp only [show ("repeat_min_max" = "optional_operator") = False from by decide, show ("repeat_min_max" = "repeat_operator") = False from by decide,
      show ("repeat_min_max" = "repeat_once_operator") = False from by decide, show ("repeat_min_max" = "repeat_exact") = False from by decide,
      show ("repeat_min_max" = "repeat_min") = False from by decide, show ("repeat_min_max" = "repeat_max") = False from by decide,
      if_false, if_true] at h
    cases ha : numberOf text a with
    | none => simp [ha] at h
    | some lo =>
      cases hb : numberOf text b with
      | none => simp [ha, hb] at h
      | some hi =>
        simp only [ha, hb] at h
        by_cases h0 : hi = 0
        · simp [h0] at h
        · simp only [h0, if_false, Option.some.injEq] at h
          exact Or.inr (Or.inr (Or.inr (Or.inr (Or.inr (Or.inr ⟨hk, o, a, cm, b, [c], hc, lo, hi, ha, hb, h0, h.symm⟩)))))

theorem postsV_of_success {text : Str} : ∀ (ps : List Tree) (x y : Expr), (∀ p ∈ ps, PostfixT text p) →
    postfixes text x ps = some y → PostsV text ps x y
  | [], x, y, _, h => by simp only [postfixes_nil, Option.some.injEq] at h; subst h; exact .nil x
  | p :: ps, x, y, hp, h => by
    rw [postfixes_cons] at h
    cases hx : postfixOp text x p with
    | none => simp [hx] at h
    | some m =>
      simp only [hx, Option.bind_some] at h
      exact .cons (postV_of_success (hp p (by simp)) hx) (postsV_of_success ps m y (fun q hq => hp q (by simp [hq])) h)


/-! ### the infix stage, inverted -/

theorem restV_build {extras : Bool} {text : Str} (rd : Tree → Option Expr) : ∀ (rest : List (Tree × Tree)),
    (∀ p ∈ rest, IsInfix p.1 ∧ kind p.2 = "term") →
    (∀ p ∈ rest, ∃ x, rd p.2 = some x ∧ UnArgsV extras text p.2.children x) →
    ∃ xs, RestV extras text (rest.flatMap fun p => [p.1, p.2]) xs ∧ Reads rd (rest.flatMap fun p => [p.1, p.2]) xs
  | [], _, _ => ⟨[], .nil, .nil⟩
  | p :: rest, hk, hv => by
    obtain ⟨xs, h1, h2⟩ := restV_build rd rest (fun q hq => hk q (by simp [hq])) (fun q hq => hv q (by simp [hq]))
    obtain ⟨x, hx, hu⟩ := hv p (by simp)
    have hp := hk p (by simp)
    refine ⟨(decide (kind p.1 = "choice_operator"), x) :: xs, ?_, ?_⟩
    · simpa using RestV.cons (isOpOf_of_infix hp.1) hp.2 hu h1
    · simpa using Reads.cons (isOpOf_of_infix hp.1) (isTerm_of_kind hp.2) hx h2

theorem infixStage_inv {extras : Bool} {text : Str} (un : List Tree → Option Expr) (t0 : Tree) (rest : List (Tree × Tree)) (e : Expr)
    (h0 : kind t0 = "term") (hr : ∀ p ∈ rest, IsInfix p.1 ∧ kind p.2 = "term")
    (hval : ∀ t x, un t.children = some x → (t = t0 ∨ ∃ p ∈ rest, t = p.2) → UnArgsV extras text t.children x)
    (h : infixStage (t0 :: rest.flatMap fun p => [p.1, p.2])
      (((t0 :: rest.flatMap fun p => [p.1, p.2]).filter fun p => !isOp p).map fun p => un p.children) = some e) :
    ∃ x0 xs, UnArgsV extras text t0.children x0 ∧ RestV extras text (rest.flatMap fun p => [p.1, p.2]) xs ∧
      e = foldGo none x0 xs := by
  have htok : tokens (t0 :: rest.flatMap fun p => [p.1, p.2]) 0 = 100 :: opToks 1 (opsOf rest) := by
    rw [tokens_term (isTerm_of_kind h0), tokens_flat rest hr]
  have hprims : ((t0 :: rest.flatMap fun p => [p.1, p.2]).filter fun p => !isOp p).map (fun p => un p.children) =
      un t0.children :: rest.map fun p => un p.2.children := by
    simp [isOp_term (isTerm_of_kind h0), prims_flat un rest hr]
  obtain ⟨t, hparse, hof⟩ := pratt_shape (opsOf rest)
  have hb : build (un t0.children :: rest.map fun p => un p.2.children) (shape (opsOf rest)) = some e := by
    have h' := h
    unfold infixStage at h'
    rw [htok, hparse] at h'
    simp only [hof] at h'
    rw [hprims] at h'
    exact h'
  have hall : ∀ k, k ≤ rest.length → ∃ x, (un t0.children :: rest.map fun p => un p.2.children)[k]? = some (some x) :=
    fun k hk => build_some_leaf _ _ _ hb k (leafIn_shape _ k (by simpa [opsOf] using hk))
  obtain ⟨x0, hx0⟩ := hall 0 (Nat.zero_le _)
  simp only [List.getElem?_cons_zero, Option.some.injEq] at hx0
  have hv : ∀ p ∈ rest, ∃ x, un p.2.children = some x ∧ UnArgsV extras text p.2.children x := by
    intro p hp
    obtain ⟨i, hi, rfl⟩ := List.getElem_of_mem hp
    obtain ⟨x, hx⟩ := hall (i + 1) (by omega)
    simp only [List.getElem?_cons_succ, List.getElem?_map, List.getElem?_eq_getElem hi, Option.map_some, Option.some.injEq] at hx
    exact ⟨x, hx, hval _ x hx (Or.inr ⟨_, List.getElem_mem hi, rfl⟩)⟩
  obtain ⟨xs, hrv, hreads⟩ := restV_build (extras := extras) (text := text) (fun p => un p.children) rest hr hv
  have hfold := infixStage_fold (fun p => un p.children) t0 _ x0 xs (isTerm_of_kind h0) hx0 hreads
  rw [hfold] at h
  exact ⟨x0, xs, hval t0 x0 hx0 (Or.inl rfl), hrv, (Option.some.inj h).symm⟩


/-! ### whatever the reader returns is what the pairs denote -/

theorem unBodyV_head_kind {extras : Bool} {text : Str} {p : Tree} {r : List Tree} {x : Expr} (h : UnBodyV extras text (p :: r) x) :
    kind p ≠ "expression" := by
  cases h with
  | pos hk _ => simp [hk]
  | neg hk _ => simp [hk]
  | paren ho _ _ _ _ => simp [ho]
  | push ht _ _ _ _ => simp [ht]
  | leaf hl _ => rcases hl.1 with h | h | h | h | h | h <;> simp [h]

/-- on a list of the shape `prefix* node postfix*`, the reading as a term is the reading of that shape. -/
theorem unBodyV_of_unArgsV {extras : Bool} {text : Str} {l : List Tree} {x : Expr} (hs : UnBody text l)
    (h : UnArgsV extras text l x) : UnBodyV extras text l x := by
  cases h with
  | plain hb => exact hb
  | tagged _ ha _ => exact absurd ha hs.second
  | parenRest he _ _ _ =>
    obtain ⟨p, r, hl, _⟩ := hs.head
    cases hl
    cases hs with
    | pre hp _ => rcases hp with h | h <;> simp [h] at he
    | paren ho _ _ _ _ => simp [ho] at he
    | push ht _ _ _ _ => simp [ht] at he
    | leaf hl _ => rcases hl.kinds with h | h | h | h | h | h <;> simp [h] at he

/-- what follows an opening parenthesis reads as the parenthesised expression with the postfix operators. -/
theorem parenRest_inv {extras : Bool} {text : Str} {e c : Tree} {post : List Tree} {y : Expr} (he : kind e = "expression")
    (hc : kind c = "closing_paren") (h : UnArgsV extras text (e :: c :: post) y) :
    ∃ x, ExprV extras text e.children x ∧ PostsV text post x y := by
  cases h with
  | parenRest _ hx _ hp => exact ⟨_, hx, hp⟩
  | plain hb => exact absurd he (unBodyV_head_kind hb)
  | tagged _ ha _ => simp [hc] at ha

theorem body_sound {extras : Bool} {text : Str} {f : Nat}
    (ih1 : ∀ pairs e, ExprKids text pairs → consumeExpr extras text f pairs = some e → ExprV extras text pairs e)
    (ih2 : ∀ pairs e, UnArgs text pairs → unaries extras text f pairs = some e → UnArgsV extras text pairs e)
    {p : Tree} {r : List Tree} {x : Expr} (hs : UnBody text (p :: r)) (h : unaries extras text (f + 1) (p :: r) = some x) :
    UnBodyV extras text (p :: r) x := by
  have hnt : NoTag r := by
    intro q r' hq; subst hq; exact hs.second
  cases hs with
  | pre hp hb =>
    rcases hp with hk | hk
    · rw [unaries_pos extras text f p r hk hnt] at h
      cases hu : unaries extras text f r with
      | none => simp [hu] at h
      | some y =>
        simp only [hu, Option.map_some, Option.some.injEq] at h
        subst h
        exact .pos hk (unBodyV_of_unArgsV hb (ih2 r y (.plain hb) hu))
    · rw [unaries_neg extras text f p r hk hnt] at h
      cases hu : unaries extras text f r with
      | none => simp [hu] at h
      | some y =>
        simp only [hu, Option.map_some, Option.some.injEq] at h
        subst h
        exact .neg hk (unBodyV_of_unArgsV hb (ih2 r y (.plain hb) hu))
  | paren ho he hk hc hp =>
    rw [unaries_paren extras text f p _ ho hnt] at h
    obtain ⟨x', hx', hp'⟩ := parenRest_inv he hc (ih2 _ _ (.parenRest he hk hc hp) h)
    exact .paren ho he hx' hc hp'
  | push ht hc he hk hp =>
    rename_i o e c
    rw [unaries_push extras text f p o e [c] r ht hc hnt] at h
    cases hx : consumeExpr extras text f e.children with
    | none => simp [hx] at h
    | some x' =>
      simp only [hx, Option.bind_some] at h
      exact .push ht hc he (ih1 _ _ hk hx) (postsV_of_success r _ _ hp h)
  | leaf hl hp =>
    have hk := hl.kinds
    rw [unaries_leaf extras text f p r (by rcases hk with h | h | h | h | h | h <;> simp [h])
      (by rcases hk with h | h | h | h | h | h <;> simp [h]) (by rcases hk with h | h | h | h | h | h <;> simp [h])
      (by rcases hk with h | h | h | h | h | h <;> simp [h]) (by rcases hk with h | h | h | h | h | h <;> simp [h]) hnt] at h
    cases hx : leafNode extras text p with
    | none => simp [hx] at h
    | some x' =>
      simp only [hx, Option.bind_some] at h
      exact .leaf ⟨hk, hx⟩ (postsV_of_success r _ _ hp h)

theorem reads_sound (extras : Bool) (text : Str) : ∀ f : Nat,
    (∀ pairs e, ExprKids text pairs → consumeExpr extras text f pairs = some e → ExprV extras text pairs e) ∧
    (∀ pairs e, UnArgs text pairs → unaries extras text f pairs = some e → UnArgsV extras text pairs e) := by
  intro f
  induction f with
  | zero => exact ⟨fun _ _ _ h => by simp [consumeExpr] at h, fun _ _ _ h => by simp [unaries] at h⟩
  | succ f ih =>
    obtain ⟨ih1, ih2⟩ := ih
    constructor
    · intro pairs e hk h
      cases hk with
      | mk lead t0 rest hl h0 hu0 hr hur =>
        have hd : dropLead (lead ++ t0 :: rest.flatMap fun p => [p.1, p.2]) = t0 :: rest.flatMap fun p => [p.1, p.2] := by
          rcases hl with rfl | ⟨l, rfl, hk⟩
          · simp [dropLead, h0]
          · simp [dropLead, hk]
        simp only [consumeExpr, consumeExprStep, hd] at h
        obtain ⟨x0, xs, hx0, hrv, rfl⟩ := infixStage_inv (extras := extras) (text := text) (unaries extras text f) t0 rest e h0 hr
          (by
            intro t x hx ht
            rcases ht with rfl | ⟨p, hp, rfl⟩
            · exact ih2 _ _ hu0 hx
            · exact ih2 _ _ (hur p hp) hx) h
        exact .mk lead t0 _ x0 xs hl h0 hx0 hrv
    · intro pairs e hu h
      cases hu with
      | tagged hg ha hb =>
        rename_i g asg rest
        obtain ⟨p, r, rfl, _⟩ := hb.head
        obtain ⟨body, hbody⟩ := hg
        have hnt : NoTag r := by intro q r' hq; subst hq; exact hb.second
        rw [unaries_tag extras text f g asg p r '#' body ha hbody (by decide) hnt] at h
        cases hx : unaries extras text (f + 1) (p :: r) with
        | none => simp [hx] at h
        | some x =>
          simp only [hx, Option.map_some, Option.some.injEq] at h
          subst h
          exact .tagged hbody ha (body_sound ih1 ih2 hb hx)
      | plain hb =>
        obtain ⟨p, r, rfl, _⟩ := hb.head
        exact .plain (body_sound ih1 ih2 hb h)
      | parenRest he hk hc hp =>
        rename_i e' c post
        rw [unaries_expression extras text f e' (c :: post) he (by intro q r hq; cases hq; simp [hc])] at h
        cases hx : consumeExpr extras text f e'.children with
        | none => simp [hx] at h
        | some x =>
          simp only [hx, Option.bind_some] at h
          rw [postfixes_cons] at h
          have hcp : postfixOp text x c = some x := by simp [postfixOp, hc]
          simp only [hcp, Option.bind_some] at h
          exact .parenRest he (ih1 _ _ hk hx) hc (postsV_of_success post _ _ hp h)


/-! ### rules -/

theorem consumeExpr_dropLead {extras : Bool} {text : Str} {pairs : List Tree} (hk : ExprKids text pairs) (f : Nat) :
    consumeExpr extras text f (dropLead pairs) = consumeExpr extras text f pairs := by
  cases f with
  | zero => rfl
  | succ f =>
    obtain ⟨t0, rest, hd, h0, _⟩ := dropLead_kids hk
    have h2 : dropLead (dropLead pairs) = dropLead pairs := by rw [hd]; simp [dropLead, h0]
    simp only [consumeExpr, consumeExprStep, h2]

theorem ruleV_of_success {extras : Bool} {text : Str} {fuel : Nat} {t : Tree} {r : Rule} (hs : RuleT text t)
    (hnl : ∀ c rest, t.children = c :: rest → kind c ≠ "line_doc") (h : consumeRule extras text fuel t = some r) :
    RuleV extras text t r := by
  rcases hs with ⟨c, rest, hc, hk⟩ | ⟨id, asg, mods, ob, e, cb, hc, hid, ⟨w, hw⟩, hm, hob, he, hk⟩
  · exact absurd hk (hnl c rest hc)
  · have hne := exprKids_ne_nil hk
    have parts : ∃ ty, ruleParts text t = some (String.ofList w, ty, e.children) ∧ ModV mods ty := by
      rcases hm with rfl | ⟨m, rfl, hmod⟩
      · refine ⟨.normal, ?_, Or.inl ⟨rfl, rfl⟩⟩
        simp only [ruleParts, hc, List.nil_append, hob, ne_eq, not_true_eq_false, if_false, hw]
      · have hne' : kind m ≠ "opening_brace" := by rcases hmod with h | h | h | h <;> simp [h]
        have : ∃ ty, modifierOf (kind m) = some ty ∧ ModV [m] ty := by
          rcases hmod with h | h | h | h
          · exact ⟨.silent, by simp [h, modifierOf], Or.inr ⟨m, rfl, Or.inl ⟨h, rfl⟩⟩⟩
          · exact ⟨.atomic, by simp [h, modifierOf], Or.inr ⟨m, rfl, Or.inr (Or.inl ⟨h, rfl⟩)⟩⟩
          · exact ⟨.compound, by simp [h, modifierOf], Or.inr ⟨m, rfl, Or.inr (Or.inr (Or.inl ⟨h, rfl⟩))⟩⟩
          · exact ⟨.nonAtomic, by simp [h, modifierOf], Or.inr ⟨m, rfl, Or.inr (Or.inr (Or.inr ⟨h, rfl⟩))⟩⟩
        obtain ⟨ty, hty, hmv⟩ := this
        refine ⟨ty, ?_, hmv⟩
        simp only [ruleParts, hc, List.cons_append, List.nil_append, ne_eq, hne', not_false_eq_true, if_true, hty,
          Option.map_some, hw]
    obtain ⟨ty, hparts, hmv⟩ := parts
    simp only [consumeRule, hparts] at h
    rw [consumeExpr_dropLead hk] at h
    cases hx : consumeExpr extras text fuel e.children with
    | none => simp [hx] at h
    | some body =>
      simp only [hx, Option.map_some, Option.some.injEq] at h
      subst h
      refine ⟨id, asg, mods, ob, e, cb, hc, by simp [hid], ?_, hmv, hob, (reads_sound extras text fuel).1 _ _ hk hx⟩
      simp [hw]

theorem rulesV_of_success {extras : Bool} {text : Str} {fuel : Nat} : ∀ (ts : List Tree) (rs : List Rule),
    (∀ t ∈ ts, kind t = "grammar_rule" → RuleT text t) → consumeRulesGo extras text fuel ts = some rs →
    RulesV extras text ts rs
  | [], rs, _, h => by simp only [consumeRulesGo, Option.some.injEq] at h; subst h; exact .nil
  | t :: ts, rs, hs, h => by
    have ih := fun rs' => rulesV_of_success (extras := extras) (text := text) (fuel := fuel) ts rs' (fun x hx => hs x (by simp [hx]))
    simp only [consumeRulesGo] at h
    by_cases hk : kind t = "grammar_rule"
    · simp only [hk, if_true] at h
      have hr := hs t (by simp) hk
      cases hch : t.children with
      | nil => rcases hr with ⟨c, rest, hc, _⟩ | ⟨id, asg, mods, ob, e, cb, hc, _⟩ <;> simp [hch] at hc
      | cons c rest =>
        simp only [hch] at h
        by_cases hl : kind c = "line_doc"
        · simp only [hl, if_true] at h
          exact .doc hk hch hl (ih rs h)
        · simp only [hl, if_false] at h
          cases h1 : consumeRule extras text fuel t with
          | none => simp [h1] at h
          | some r =>
            cases h2 : consumeRulesGo extras text fuel ts with
            | none => simp [h1, h2] at h
            | some rs' =>
              simp only [h1, h2, Option.some.injEq] at h
              subst h
              exact .rule hk (ruleV_of_success hr (fun c' rest' hc' => by rw [hch] at hc'; cases hc'; exact hl) h1) (ih rs' h2)
    · simp only [hk, if_false] at h
      exact .other hk (ih rs h)

/-- **The reader, characterised**: on the pairs the meta-grammar produces, `consume_rules` returns `rs` exactly when the
pairs denote `rs` (precedence, grouping, tags, prefix and postfix operators as `ExprV` says) and `validate_ast` has nothing
to report. -/
theorem consumeRules_exact (extras : Bool) (text : Str) (forest : List Tree) (hs : GrammarForest text forest) (rs : List Rule) :
    consumeRules extras text forest = some rs ↔ RulesV extras text forest rs ∧ PestModel.V.validateAst extras rs = [] := by
  constructor
  · intro h
    obtain ⟨h1, h2⟩ := (consumeRules_iff extras text forest rs).1 h
    exact ⟨rulesV_of_success forest rs hs h1, h2⟩
  · intro ⟨h1, h2⟩
    exact consumeRules_value extras text forest rs h1 h2

end PestModel.ReaderValue
