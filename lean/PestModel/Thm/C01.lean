import PestModel.Model.Ref
import PestModel.Model.RefSpec
import PestModel.Model.Lower
import PestModel.Model.Views
import PestModel.Lemmas.VmRef
import PestModel.Lemmas.VmRefTop
import PestModel.Lemmas.VmRefCex
/-!
# C01 — parsing conforms to the documented PEG semantics

`PestModel.Ref` is the documented semantics written as an independent big-step denotation.
`PestModel.Lower.vmExpr`/`vmRule` is `pest_vm::Vm::{parse_rule, parse_expr, skip}` as call trees over
the `ParserState` model (`PestModel.PS.run`), which C03 proves things about and which the V-line
correspondence ties to the real VM.

The two statements as first written (`VmRefinesDenoteStmt`, `VmTerminatesStmt`: agreement for EVERY
optimized grammar) are FALSE of the model; they are kept as named propositions and refuted from
concrete grammars (`vm_refines_denote_refuted_*`, `vm_terminates_refuted`). What holds — and is proved
here for every optimized grammar, start rule, input and amount of fuel — are
`vm_refines_denote_partial` and `vm_terminates_partial`, under side conditions that exclude exactly
the two classes of counterexamples:

* a node tag on an expression that emits no token tags the PREVIOUS token (`tag_node` patches
  `queue.last_mut()`), and without `grammar-extras` the restorer does not look inside `#t = e`
  (side condition `TagRules`: node tags only with `grammar-extras` and only on operands that are
  guaranteed to emit a token in every mode the enclosing rule can be entered in; in particular every
  grammar without node tags qualifies);
* (a model artefact) "undefined rule" is `call 1000000000`, an existing slot once the grammar has more
  than 333 333 333 rules.

A third class is gone since the restorer fix: the implicit `skip` (`WHITESPACE`/`COMMENT` between
sequence elements) is not an expression of the grammar, so the restorer never wrapped it — a
`WHITESPACE`/`COMMENT` that failed after popping (`POP`, `POP_ALL`) left the stack changed. The restorer
now wraps the whole body of a stack-modifying `WHITESPACE`/`COMMENT` rule in `restore_on_err`, and no
side condition on these rules is needed any more (`ws_pop_example_agrees`,
`ws_popall_example_agrees` are the former counterexamples).
-/
namespace PestModel.C01
open PestModel.G PestModel.PS PestModel.Lower PestModel.Ref
open PestModel.LineCol (Str)

/-- `Vm::parse(name, input)` on the model: the entry call tree run from a fresh `ParserState`
(no call limit). -/
def vmParse (rs : List ORule) (uni : String → Option CharSet) (memchr detail : Bool) (fuel : Nat)
    (name : String) (input : Str) : Out :=
  let env : Env := { rules := rs, uni }
  run { memchr, env := lowerAll .vm env } fuel (entry env name) (PState.new input none detail)

/-- rule sets that come out of the optimizer model (in particular: through the restorer pass). -/
def Optimized (extras : Bool) (rs : List ORule) : Prop :=
  ∃ rules withList, optimizeWith extras withList rules = some rs

/-- **The VM refines the documented semantics** — the statement as first written, for every optimized
grammar: whatever definite outcome the VM model reaches is the outcome the reference denotation
assigns to the same (optimized) grammar: on success the same end position and stack and a token queue
that is exactly the encoding of the reference's forest of pairs; a failure is a failure; a Rust panic
is a `stuck` (documented panic: `PEEK`/`POP` on an empty stack, undefined rule).
FALSE as it stands: `vm_refines_denote_refuted_tag`,
`vm_refines_denote_refuted_tag_noextras`, `vm_refines_denote_refuted_undefined_slot`; true under side
conditions: `vm_refines_denote_partial`. -/
def VmRefinesDenoteStmt : Prop :=
  ∀ (extras : Bool) (rs : List ORule) (_hopt : Optimized extras rs)
    (uni : String → Option CharSet) (memchr detail : Bool) (fuel : Nat) (name : String) (input : Str),
    match vmParse rs uni memchr detail fuel name input with
    | .ok st => ∃ forest, PestModel.Views.build forest = st.queue ∧
        Means (ofOptimizedRules rs) extras uni name input (.ok ⟨st.pos, st.stack.cache⟩ forest)
    | .err _ => Means (ofOptimizedRules rs) extras uni name input .fail
    | .panic => Means (ofOptimizedRules rs) extras uni name input .stuck
    | .fuel => True

/-- **… and terminates whenever the reference does** — the statement as first written: if the
reference assigns a definite outcome, the VM model reaches a definite outcome too.
FALSE as it stands: `vm_terminates_refuted`; true under side conditions: `vm_terminates_partial`. -/
def VmTerminatesStmt : Prop :=
  ∀ (extras : Bool) (rs : List ORule) (_hopt : Optimized extras rs)
    (uni : String → Option CharSet) (memchr detail : Bool) (name : String) (input : Str) (r : Res)
    (_h : Means (ofOptimizedRules rs) extras uni name input r),
    ∃ fuel, vmParse rs uni memchr detail fuel name input ≠ .fuel

/-! ### what holds -/

/-- **The VM refines the documented semantics — proved form.** `VmRefinesDenoteStmt` with the side
conditions that turned out to be necessary (see the refutations below):
* `htag : TagRules extras rs`: node tags (`#t = e`) occur only with `grammar-extras`, and only on
  operands `e` that emit at least one token (`VmRef.emits`: a reference to a rule that produces a pair
  in the current atomicity mode, possibly inside `~`, `|` (both sides), `PUSH`, `+`, another tag) in
  every mode the enclosing rule can be entered in (`VmRef.Reach`); grammars without node tags satisfy
  it trivially (`vm_refines_denote_notag`);
  (no condition on `WHITESPACE` / `COMMENT`: a body that modifies the stack is wrapped in
  `restore_on_err` as a whole by the restorer, `VmRef.not_dirty_wscm`);
* `hsize`: at most a third of a billion rules (the model's "undefined rule" is `call 1000000000`). -/
theorem vm_refines_denote_partial (extras : Bool) (rs : List ORule) (hopt : Optimized extras rs)
    (htag : PestModel.VmRef.TagRules extras rs)
    (hsize : rs.length ≤ 333333333)
    (uni : String → Option CharSet) (memchr detail : Bool) (fuel : Nat) (name : String) (input : Str) :
    match vmParse rs uni memchr detail fuel name input with
    | .ok st => ∃ forest, PestModel.Views.build forest = st.queue ∧
        Means (ofOptimizedRules rs) extras uni name input (.ok ⟨st.pos, st.stack.cache⟩ forest)
    | .err _ => Means (ofOptimizedRules rs) extras uni name input .fail
    | .panic => Means (ofOptimizedRules rs) extras uni name input .stuck
    | .fuel => True := by
  have htx : ∀ r ∈ rs, PestModel.VmRef.tagsExtras extras r.expr := fun r hr =>
    PestModel.VmRef.tagsExtras_of_tagOK (htag r hr .nonAtomic (.entry r.name))
  have hgood := PestModel.VmRef.goodRules_of_optimized extras rs hopt htx
  have h := PestModel.VmRef.refines_top' { rules := rs, uni } extras memchr detail input hsize hgood htag
    fuel name
  unfold vmParse
  simp only [means_iff]
  cases hr : run { memchr := memchr, env := lowerAll .vm { rules := rs, uni := uni } } fuel
      (entry { rules := rs, uni := uni } name) (PState.new input none detail) with
  | ok st =>
    have h' := h
    simp only [PestModel.VmRef.mkCfg, hr] at h'
    obtain ⟨forest, hb, hv⟩ := h'
    exact ⟨forest, hb, by simp, hv⟩
  | err st =>
    have h' := h
    simp only [PestModel.VmRef.mkCfg, hr] at h'
    exact ⟨by simp, h'⟩
  | panic =>
    have h' := h
    simp only [PestModel.VmRef.mkCfg, hr] at h'
    exact ⟨by simp, h'⟩
  | fuel => trivial

/-- **… and terminates whenever the reference does — proved form** (same side conditions): if the
reference assigns a definite outcome, the VM model reaches a definite outcome too (which, by
`vm_refines_denote_partial`, is that one). -/
theorem vm_terminates_partial (extras : Bool) (rs : List ORule) (hopt : Optimized extras rs)
    (htag : PestModel.VmRef.TagRules extras rs)
    (hsize : rs.length ≤ 333333333)
    (uni : String → Option CharSet) (memchr detail : Bool) (name : String) (input : Str) (r : Res)
    (h : Means (ofOptimizedRules rs) extras uni name input r) :
    ∃ fuel, vmParse rs uni memchr detail fuel name input ≠ .fuel := by
  have htx : ∀ r ∈ rs, PestModel.VmRef.tagsExtras extras r.expr := fun r hr =>
    PestModel.VmRef.tagsExtras_of_tagOK (htag r hr .nonAtomic (.entry r.name))
  have hgood := PestModel.VmRef.goodRules_of_optimized extras rs hopt htx
  exact PestModel.VmRef.terminates_top { rules := rs, uni } extras memchr detail input hsize hgood htag
    name r h

/-- the special case of grammars without node tags. -/
theorem vm_refines_denote_notag (extras : Bool) (rs : List ORule) (hopt : Optimized extras rs)
    (htag : ∀ r ∈ rs, PestModel.VmRef.noTag r.expr = true)
    (hsize : rs.length ≤ 333333333)
    (uni : String → Option CharSet) (memchr detail : Bool) (fuel : Nat) (name : String) (input : Str) :
    match vmParse rs uni memchr detail fuel name input with
    | .ok st => ∃ forest, PestModel.Views.build forest = st.queue ∧
        Means (ofOptimizedRules rs) extras uni name input (.ok ⟨st.pos, st.stack.cache⟩ forest)
    | .err _ => Means (ofOptimizedRules rs) extras uni name input .fail
    | .panic => Means (ofOptimizedRules rs) extras uni name input .stuck
    | .fuel => True :=
  vm_refines_denote_partial extras rs hopt (PestModel.VmRef.tagRules_of_noTag extras rs htag) hsize
    uni memchr detail fuel name input

theorem vm_terminates_notag (extras : Bool) (rs : List ORule) (hopt : Optimized extras rs)
    (htag : ∀ r ∈ rs, PestModel.VmRef.noTag r.expr = true)
    (hsize : rs.length ≤ 333333333)
    (uni : String → Option CharSet) (memchr detail : Bool) (name : String) (input : Str) (r : Res)
    (h : Means (ofOptimizedRules rs) extras uni name input r) :
    ∃ fuel, vmParse rs uni memchr detail fuel name input ≠ .fuel :=
  vm_terminates_partial extras rs hopt (PestModel.VmRef.tagRules_of_noTag extras rs htag) hsize
    uni memchr detail name input r h

/-- the two together: the VM and the reference agree on every definite result. -/
theorem vm_agrees_partial (extras : Bool) (rs : List ORule) (hopt : Optimized extras rs)
    (htag : PestModel.VmRef.TagRules extras rs)
    (hsize : rs.length ≤ 333333333)
    (uni : String → Option CharSet) (memchr detail : Bool) (name : String) (input : Str) (r : Res)
    (h : Means (ofOptimizedRules rs) extras uni name input r) :
    ∃ fuel, match vmParse rs uni memchr detail fuel name input with
      | .ok st => ∃ forest, PestModel.Views.build forest = st.queue ∧
          r = .ok ⟨st.pos, st.stack.cache⟩ forest
      | .err _ => r = .fail
      | .panic => r = .stuck
      | .fuel => False := by
  obtain ⟨fuel, hf⟩ := vm_terminates_partial extras rs hopt htag hsize uni memchr detail name input r h
  have hp := vm_refines_denote_partial extras rs hopt htag hsize uni memchr detail fuel name input
  have det : ∀ r', Means (ofOptimizedRules rs) extras uni name input r' → r = r' := by
    intro r' h'
    rw [means_iff] at h h'
    rw [← h.2, ← h'.2]
  refine ⟨fuel, ?_⟩
  cases hr : vmParse rs uni memchr detail fuel name input with
  | ok st =>
    rw [hr] at hp
    obtain ⟨forest, hb, hm⟩ := hp
    exact ⟨forest, hb, det _ hm⟩
  | err st => rw [hr] at hp; exact det _ hp
  | panic => rw [hr] at hp; exact det _ hp
  | fuel => exact hf hr

/-! ### refutations of the statements as first written -/

/-- what a successful parse shows. -/
def outObs : Out → Option (List QTok × Nat × List Str)
  | .ok s => some (s.queue, s.pos, s.stack.cache)
  | _ => none

/-- a successful VM parse and the reference's (definite) result for the same optimized grammar that
differ in the token queue, the end position or the stack refute `VmRefinesDenoteStmt`. -/
theorem refute_of_obs (extras : Bool) (src : List Rule) (rs : List ORule)
    (hopt : optimizeWith extras true src = some rs) (fuel fuel' : Nat) (name : String) (input : Str)
    (Q : List QTok) (pos : Nat) (stk : List Str) (σ : St) (F : List PestModel.Views.Tree)
    (hvm : outObs (vmParse rs (fun _ => none) true false fuel name input) = some (Q, pos, stk))
    (href : Ref.meaning (ofOptimizedRules rs) extras (fun _ => none) fuel' name input = .ok σ F)
    (hne : ¬ (σ = ⟨pos, stk⟩ ∧ PestModel.Views.build F = Q)) : ¬ VmRefinesDenoteStmt := by
  intro H
  have h := H extras rs ⟨src, true, hopt⟩ (fun _ => none) true false fuel name input
  cases hr : vmParse rs (fun _ => none) true false fuel name input with
  | ok st =>
    rw [hr] at h hvm
    simp only [outObs, Option.some.injEq, Prod.mk.injEq] at hvm
    obtain ⟨hq, hp, hs⟩ := hvm
    obtain ⟨forest, hb, hm⟩ := h
    have hm' : Means (ofOptimizedRules rs) extras (fun _ => none) name input (.ok σ F) :=
      ⟨by simp, fuel', href⟩
    rw [means_iff] at hm hm'
    have := hm.2.symm.trans hm'.2
    simp only [Res.ok.injEq] at this
    obtain ⟨h1, h2⟩ := this
    apply hne
    rw [← h1, ← h2, hp, hs, hb, hq]
    exact ⟨rfl, rfl⟩
  | err st => rw [hr] at hvm; simp [outObs] at hvm
  | panic => rw [hr] at hvm; simp [outObs] at hvm
  | fuel => rw [hr] at hvm; simp [outObs] at hvm

/-- `x = { "a" }  r = { x ~ #t = "b" }` (grammar-extras), input `"ab"`. -/
def cexTagSrc : List Rule :=
  [⟨"x", .normal, .str ['a']⟩,
   ⟨"r", .normal, .seq (.ident "x") (.nodeTag (.str ['b']) ['t'])⟩]

def cexTag : List ORule :=
  [⟨"x", .normal, .str ['a']⟩,
   ⟨"r", .normal, .seq (.ident "x") (.nodeTag (.str ['b']) ['t'])⟩]

/-- **Refutation 1 (tag on a token-less expression).** `#t = "b"` emits no token, so `tag_node` —
which patches `queue.last_mut()` — tags the End token of the PREVIOUS sibling `x`: the VM's queue is
`[Start, Start, End(x, tag t), End(r)]`, while in the reference the tag is lost
(`[.node r 0 2 none [.node x 0 1 none []]]`). -/
theorem vm_refines_denote_refuted_tag : ¬ VmRefinesDenoteStmt :=
  refute_of_obs true cexTagSrc cexTag (by decide) 12 12 "r" ['a', 'b']
    [.start 3 0, .start 2 0, .end_ 1 0 (some ['t']) 1, .end_ 0 1 none 2] 2 []
    ⟨2, []⟩ [.node 1 0 2 none [.node 0 0 1 none []]] (by decide +kernel) (by rfl) (by decide)

/-- `WHITESPACE = _{ POP }  r = { PUSH("a") ~ "b" }`, input `"ab"`. -/
def cexWsSrc : List Rule :=
  [⟨"WHITESPACE", .silent, .ident "POP"⟩,
   ⟨"r", .normal, .seq (.push (.str ['a'])) (.str ['b'])⟩]

/-- what the optimizer makes of it: the restorer wraps the whole `WHITESPACE` body. -/
def cexWs : List ORule :=
  [⟨"WHITESPACE", .silent, .restoreOnErr (.ident "POP")⟩,
   ⟨"r", .normal, .seq (.push (.str ['a'])) (.str ['b'])⟩]

/-- **Former refutation 2 (stack-modifying `WHITESPACE`) — now an agreement.** The implicit `skip` after
`PUSH("a")` runs `repeat(WHITESPACE)`; `POP` pops `"a"` and fails to match it against `"b"`. Before the
restorer fix nothing restored the stack (the restorer only wrapped expressions of the grammar, and the
implicit `skip` is not one): the VM ended with an empty stack, the reference with `["a"]`. Now the
restorer wraps the body of a stack-modifying `WHITESPACE`/`COMMENT` rule as a whole, the failed attempt
restores the stack, and the VM model and the reference agree on this example (either feature set):
position 2, stack `["a"]`, and the VM's queue is the encoding of the reference's forest. -/
theorem ws_pop_example_agrees (extras : Bool) :
    optimizeWith extras true cexWsSrc = some cexWs ∧
    outObs (vmParse cexWs (fun _ => none) true false 14 "r" ['a', 'b']) =
      some ([.start 1 0, .end_ 0 1 none 2], 2, [['a']]) ∧
    Ref.meaning (ofOptimizedRules cexWs) extras (fun _ => none) 14 "r" ['a', 'b'] =
      .ok ⟨2, [['a']]⟩ [.node 1 0 2 none []] ∧
    PestModel.Views.build [.node 1 0 2 none []] = [.start 1 0, .end_ 0 1 none 2] := by
  refine ⟨by cases extras <;> decide, by decide +kernel, by cases extras <;> rfl, by decide⟩

/-- **Former refutation of termination — now an agreement.**
`WHITESPACE = _{ POP_ALL }  r = _{ PUSH("a") ~ "b" ~ "c" }` on `"abc"`: before the restorer fix the first
implicit `skip` emptied the stack (a failed `POP_ALL` was not restored) and on the empty stack `POP_ALL`
succeeds without consuming, so the second `skip`'s `repeat(WHITESPACE)` never ended. Now the failed
`POP_ALL` restores the stack and both sides succeed at position 3 with stack `["a"]`. -/
theorem ws_popall_example_agrees (extras : Bool) :
    optimizeWith extras true PestModel.VmRef.wsPopAllSrc = some PestModel.VmRef.wsPopAll ∧
    outObs (vmParse PestModel.VmRef.wsPopAll (fun _ => none) true false 20 "r" ['a', 'b', 'c']) =
      some ([], 3, [['a']]) ∧
    Ref.meaning (ofOptimizedRules PestModel.VmRef.wsPopAll) extras (fun _ => none) 20 "r" ['a', 'b', 'c'] =
      .ok ⟨3, [['a']]⟩ [] := by
  refine ⟨PestModel.VmRef.wsPopAll_opt extras, by decide +kernel, by cases extras <;> rfl⟩

/-- `r = { PUSH("a") ~ (#t = POP)? ~ "b" }` WITHOUT grammar-extras, input `"ab"`. -/
def cexTagNoExtrasSrc : List Rule :=
  [⟨"r", .normal, .seq (.push (.str ['a'])) (.seq (.opt (.nodeTag (.ident "POP") ['t'])) (.str ['b']))⟩]

def cexTagNoExtras : List ORule :=
  [⟨"r", .normal, .seq (.push (.str ['a'])) (.seq (.opt (.nodeTag (.ident "POP") ['t'])) (.str ['b']))⟩]

/-- **Refutation 2 (node tag without grammar-extras).** Without the feature neither
`iter_top_down` (in `child_modifies_state`) nor `map_bottom_up` descends into `NodeTag`, so the `POP`
under the `?` is not seen and not wrapped in `restore_on_err`: the failed `POP` leaves the stack
popped. (With grammar-extras the optimizer wraps it and both sides agree. The real meta-parser only
produces `NodeTag` with the feature on, so this one is a fact about the model's optimizer input
space.) -/
theorem vm_refines_denote_refuted_tag_noextras : ¬ VmRefinesDenoteStmt :=
  refute_of_obs false cexTagNoExtrasSrc cexTagNoExtras (by decide) 16 16 "r" ['a', 'b']
    [.start 1 0, .end_ 0 0 none 2] 2 []
    ⟨2, [['a']]⟩ [.node 0 0 2 none []] (by decide +kernel) (by rfl) (by decide)

/-- **Refutation 3 (the "undefined rule" slot — an artefact of the model's encoding).** The lowering
encodes `panic!("undefined rule")` as `call 1000000000`. In a grammar with 333 333 334 rules
(`r0 = _{ NOSUCH }` followed by 333 333 333 copies of `x = _{ "" }`) that slot exists: it is rule
number 333 333 333 in the atomic context, so the VM model runs that rule and succeeds where the
reference (and the real VM) report an undefined rule. Hence the hypothesis `rs.length ≤ 333333333` of
the proved forms. (Proved for a symbolic rule count; the rule list is never evaluated.) -/
theorem vm_refines_denote_refuted_undefined_slot : ¬ VmRefinesDenoteStmt := by
  have key : ∀ N : Nat, 3 * N + 1 = 1000000000 → ¬ VmRefinesDenoteStmt := by
    intro N hN H
    have h := H true (PestModel.VmRef.bigRs N)
      ⟨PestModel.VmRef.bigSrc N, true, PestModel.VmRef.big_opt _⟩ (fun _ => none) true false 3 "r0" []
    obtain ⟨st, hst⟩ := PestModel.VmRef.big_vm N hN
    have hv : vmParse (PestModel.VmRef.bigRs N) (fun _ => none) true false 3 "r0" [] = .ok st := hst
    rw [hv] at h
    obtain ⟨forest, -, hm⟩ := h
    have hs : Means (ofOptimizedRules (PestModel.VmRef.bigRs N)) true (fun _ => none) "r0" [] .stuck :=
      ⟨by simp, 3, PestModel.VmRef.big_ref _ _⟩
    rw [means_iff] at hm hs
    have := hm.2.symm.trans hs.2
    cases this
  exact key 333333333 (by decide)

theorem vm_refines_denote_refuted : ¬ VmRefinesDenoteStmt := vm_refines_denote_refuted_tag

/-- **Refutation of termination (node tag without grammar-extras).**
`r = _{ PUSH("a") ~ (#t = POP_ALL)? ~ "b" ~ POP_ALL* }` WITHOUT grammar-extras on `"ab"`: the restorer
does not look inside `#t = POP_ALL`, so the `?` operand is not wrapped in `restore_on_err` and the failed
`POP_ALL` (it pops `"a"` and fails to match it against `"b"`) leaves the stack empty; on the empty stack
`POP_ALL` succeeds without consuming, so `POP_ALL*` never ends — the VM model has no definite outcome at
any fuel (`cexDiv_diverges`), while the reference, whose failed `POP_ALL` leaves the stack alone, ends
`POP_ALL*` at once (`"a"` does not match at the end of input) and succeeds at position 2 with stack
`["a"]`. (Like `vm_refines_denote_refuted_tag_noextras` a fact about the model's optimizer input space:
the real meta-parser only produces `NodeTag` with the feature on. The former counterexample, a
stack-modifying `WHITESPACE`, is gone: `ws_popall_example_agrees`.) -/
theorem vm_terminates_refuted : ¬ VmTerminatesStmt := by
  intro H
  have hm : Means (ofOptimizedRules PestModel.VmRef.cexDiv) false (fun _ => none) "r" ['a', 'b']
      (.ok ⟨2, [['a']]⟩ []) := ⟨by simp, 16, by rfl⟩
  obtain ⟨fuel, hf⟩ := H false PestModel.VmRef.cexDiv ⟨_, true, PestModel.VmRef.cexDiv_opt⟩
    (fun _ => none) true false "r" ['a', 'b'] _ hm
  exact hf (PestModel.VmRef.cexDiv_diverges fuel)

/-! ### non-vacuity -/

/-- non-vacuity: a two-rule grammar with implicit whitespace, a repetition and the stack. -/
def exRules : List Rule :=
  [⟨"WHITESPACE", .silent, .str [' ']⟩,
   ⟨"r", .normal, .seq (.push (.ident "x")) (.seq (.rep (.str ['b'])) (.ident "POP"))⟩,
   ⟨"x", .normal, .range 'a' 'b'⟩]

theorem pos_of_obs {o : Out} {Q : List QTok} {p : Nat} {s : List Str} (h : outObs o = some (Q, p, s)) :
    match o with | .ok st => st.pos = p | _ => False := by
  cases o <;> simp [outObs] at h ⊢
  exact h.2.1

example : ∃ rs, optimizeWith false true exRules = some rs ∧
    (match vmParse rs (fun _ => none) true false 200 "r" "a b a".toList with | .ok st => st.pos = 5 | _ => False) := by
  refine ⟨(optimizeWith false true exRules).getD [], by decide, ?_⟩
  have h : outObs (vmParse ((optimizeWith false true exRules).getD []) (fun _ => none) true false 200 "r"
      "a b a".toList) = some ([.start 3 0, .start 2 0, .end_ 1 2 none 1, .end_ 0 1 none 5], 5, []) := by
    decide +kernel
  exact pos_of_obs h

/-- … and the proved theorems apply to it: it satisfies all side conditions. -/
example : ∃ rs, optimizeWith false true exRules = some rs ∧
    PestModel.VmRef.TagRules false rs ∧ rs.length ≤ 333333333 := by
  refine ⟨(optimizeWith false true exRules).getD [], by decide,
    PestModel.VmRef.tagRules_of_noTag _ _ (by decide), by decide⟩

/-- … and so does a grammar whose `WHITESPACE` pops the stack (`WHITESPACE = _{ POP }`, the former
counterexample): the optimizer's output has the body wrapped in `restore_on_err`. -/
example : Optimized true cexWs ∧ PestModel.VmRef.TagRules true cexWs ∧ cexWs.length ≤ 333333333 ∧
    lookupO cexWs "WHITESPACE" = some (.restoreOnErr (.ident "POP")) :=
  ⟨⟨cexWsSrc, true, (ws_pop_example_agrees true).1⟩, PestModel.VmRef.tagRules_of_noTag _ _ (by decide),
    by decide, by decide⟩

/-- a grammar WITH a node tag that satisfies the side conditions (grammar-extras):
`x = { "a" }  r = { #t = x ~ "b" }` — the tag sits on a reference to a normal rule, and `r` is only
ever entered in the non-atomic mode, where `x` produces a pair. -/
def exTagRules : List ORule :=
  [⟨"x", .normal, .str ['a']⟩,
   ⟨"r", .normal, .seq (.nodeTag (.ident "x") ['t']) (.str ['b'])⟩]

theorem exTag_reach (n : String) (m : Atomicity) (h : PestModel.VmRef.Reach exTagRules n m) :
    m = .nonAtomic := by
  induction h with
  | entry n => rfl
  | @step n n' m r _ hf hi ih =>
    subst ih
    have hr : r ∈ exTagRules := List.mem_of_find?_eq_some hf
    simp only [exTagRules, List.mem_cons, List.not_mem_nil, or_false] at hr
    rcases hr with rfl | rfl
    · simp [identsOf] at hi
    · rfl

example : Optimized true exTagRules ∧ PestModel.VmRef.TagRules true exTagRules ∧
    exTagRules.length ≤ 333333333 ∧
    outObs (vmParse exTagRules (fun _ => none) true false 12 "r" ['a', 'b']) =
      some ([.start 3 0, .start 2 0, .end_ 1 0 (some ['t']) 1, .end_ 0 1 none 2], 2, []) := by
  refine ⟨⟨[⟨"x", .normal, .str ['a']⟩, ⟨"r", .normal, .seq (.nodeTag (.ident "x") ['t']) (.str ['b'])⟩],
    true, by decide⟩, ?_, by decide, by decide +kernel⟩
  intro r hr m hm
  have := exTag_reach _ _ hm
  subst this
  simp only [exTagRules, List.mem_cons, List.not_mem_nil, or_false] at hr
  rcases hr with rfl | rfl
  · trivial
  · exact ⟨⟨rfl, by decide, trivial⟩, trivial⟩

end PestModel.C01
