// Regenerates the table of `pest::unicode::NAME` functions from /repo's source on every build,
// so that the C16 driver calls every advertised property function by name.
use std::{env, fs, path::Path};
fn main() {
    let src = "/repo/pest/src/unicode/mod.rs";
    println!("cargo:rerun-if-changed={}", src);
    let text = fs::read_to_string(src).unwrap_or_default();
    let mut out = String::from("pub static FUNCS: &[(&str, &str, fn(char) -> bool)] = &[\n");
    for (group, key) in [("binary", "BINARY_PROPERTY_NAMES"), ("category", "CATEGORY_PROPERTY_NAMES"), ("script", "SCRIPT_PROPERTY_NAMES")] {
        if let Some(i) = text.find(&format!("static {} = [", key)) {
            let body = &text[i..];
            let end = body.find("];").unwrap_or(body.len());
            let body: String = body[body.find('[').unwrap() + 1..end].lines().map(|l| l.split("//").next().unwrap()).collect::<Vec<_>>().join(" ");
            // identifiers in upper case (binary: bare names; others: second tuple component)
            let mut names: Vec<String> = vec![];
            let mut cur = String::new();
            let mut in_str = false;
            for ch in body.chars().chain(" ".chars()) {
                if ch == '"' { in_str = !in_str; cur.clear(); continue; }
                if in_str { continue; }
                if ch.is_ascii_uppercase() || ch.is_ascii_digit() || ch == '_' { cur.push(ch); } else { if cur.len() > 1 && cur.chars().next().unwrap().is_ascii_uppercase() { names.push(cur.clone()); } cur.clear(); }
            }
            for n in names { out.push_str(&format!("    (\"{}\", \"{}\", pest::unicode::{}),\n", group, n, n)); }
        }
    }
    out.push_str("];\n");
    fs::write(Path::new(&env::var("OUT_DIR").unwrap()).join("unicode_fns.rs"), out).unwrap();
}
