import PestModel.Model.Stack
/-!
Invariant and abstraction function relating `Stk` (the index-arithmetic stack of
`pest/src/stack.rs`) to `Naive` (copy at snapshot).  Read off the comments in the Rust
source and made exact.
-/
namespace PestModel.Stack

/-- `StkInvL n p ls`: `ls` are the snapshots (latest first) of a stack whose current length is `n`
and whose `popped` vector has length `p`.  For the latest snapshot `(len, rem)`:
`rem ≤ len`, `rem ≤ n` (the survivors are still there), its `len - rem` recorded pops are in
`popped`; the next (older) snapshot is judged against `len` — the length the stack had when
this snapshot was taken.  With no snapshot left, `popped` is empty. -/
def StkInvL : Nat → Nat → List (Nat × Nat) → Prop
  | _, p, [] => p = 0
  | n, p, (len, rem) :: ls => rem ≤ len ∧ rem ≤ n ∧ len - rem ≤ p ∧ StkInvL len (p - (len - rem)) ls

def StkInv {α} (s : Stk α) : Prop := StkInvL s.cache.length s.popped.length s.lengths

/-- The saved copies (latest first) that the snapshots of `s` stand for: the copy of the
latest snapshot is its recorded pops, replayed, on top of the bottom `rem` elements of the
current stack; older copies are rebuilt the same way from the newer copy. -/
def absSaved {α} : List α → List α → List (Nat × Nat) → List (List α)
  | _, _, [] => []
  | cur, popped, (len, rem) :: ls =>
    let copy := (popped.take (len - rem)).reverse ++ cur.drop (cur.length - rem)
    copy :: absSaved copy (popped.drop (len - rem)) ls

def abs {α} (s : Stk α) : Naive α := { cur := s.cache, saved := absSaved s.cache s.popped s.lengths }

end PestModel.Stack
