import PestModel.Lemmas.PStateInvRunEq
/-! C01 (termination), part 1: more fuel never changes a definite outcome of `run`. -/
namespace PestModel.VmRef
open PestModel.PS

variable {cfg : Cfg}

theorem run_succ : ∀ (F : Nat) (p : Prog) (s : PState), run cfg F p s ≠ .fuel →
    run cfg (F + 1) p s = run cfg F p s
  | 0, p, s, h => by rw [run_zero] at h; exact absurd rfl h
  | k + 1, p, s, h => by
    have ih := fun p s => run_succ k p s
    cases p with
    | call i =>
      rw [run_call] at h ⊢; rw [run_call]
      cases hi : cfg.env[i]? with
      | none => rfl
      | some q => rw [hi] at h; exact ih q s h
    | andThen p q =>
      rw [run_andThen] at h ⊢; rw [run_andThen]
      cases hr : run cfg k p s with
      | ok s1 => rw [hr] at h; rw [ih p s (by rw [hr]; simp), hr]; exact ih q s1 h
      | err s1 => rw [ih p s (by rw [hr]; simp), hr]
      | panic => rw [ih p s (by rw [hr]; simp), hr]
      | fuel => rw [hr] at h; exact absurd rfl h
    | orElse p q =>
      rw [run_orElse] at h ⊢; rw [run_orElse]
      cases hr : run cfg k p s with
      | ok s1 => rw [ih p s (by rw [hr]; simp), hr]
      | err s1 => rw [hr] at h; rw [ih p s (by rw [hr]; simp), hr]; exact ih q s1 h
      | panic => rw [ih p s (by rw [hr]; simp), hr]
      | fuel => rw [hr] at h; exact absurd rfl h
    | sequence p =>
      rw [run_sequence] at h ⊢; rw [run_sequence]
      cases hi : incCall s with
      | none => rfl
      | some s1 =>
        rw [hi] at h; dsimp only at h ⊢
        cases hr : run cfg k p (checkpoint s1) with
        | fuel => rw [hr] at h; exact absurd rfl h
        | _ => rw [ih p _ (by rw [hr]; simp), hr]
    | restoreOnErr p =>
      rw [run_restoreOnErr] at h ⊢; rw [run_restoreOnErr]
      cases hr : run cfg k p (checkpoint s) with
      | fuel => rw [hr] at h; exact absurd rfl h
      | _ => rw [ih p _ (by rw [hr]; simp), hr]
    | optional p =>
      rw [run_optional] at h ⊢; rw [run_optional]
      cases hi : incCall s with
      | none => rfl
      | some s1 =>
        rw [hi] at h; dsimp only at h ⊢
        cases hr : run cfg k p s1 with
        | fuel => rw [hr] at h; exact absurd rfl h
        | _ => rw [ih p _ (by rw [hr]; simp), hr]
    | repeat_ p =>
      rw [run_repeat] at h ⊢; rw [run_repeat]
      cases hi : incCall s with
      | none => rfl
      | some s1 => rw [hi] at h; exact ih _ s1 h
    | repLoop p =>
      rw [run_repLoop] at h ⊢; rw [run_repLoop]
      cases hr : run cfg k p s with
      | ok s1 => rw [hr] at h; rw [ih p s (by rw [hr]; simp), hr]; exact ih _ s1 h
      | err s1 => rw [ih p s (by rw [hr]; simp), hr]
      | panic => rw [ih p s (by rw [hr]; simp), hr]
      | fuel => rw [hr] at h; exact absurd rfl h
    | lookahead b p =>
      rw [run_lookahead] at h ⊢; rw [run_lookahead]
      cases hi : incCall s with
      | none => rfl
      | some s1 =>
        rw [hi] at h; dsimp only at h ⊢
        cases hr : run cfg k p (checkpoint { s1 with lookahead := laMode b s1.lookahead }) with
        | fuel => rw [hr] at h; exact absurd rfl h
        | _ => rw [ih p _ (by rw [hr]; simp), hr]
    | atomic a p =>
      rw [run_atomic] at h ⊢; rw [run_atomic]
      cases hi : incCall s with
      | none => rfl
      | some s1 =>
        rw [hi] at h; dsimp only at h ⊢
        cases hr : run cfg k p (atomPre a s1) with
        | fuel => rw [hr] at h; exact absurd rfl h
        | _ => rw [ih p _ (by rw [hr]; simp), hr]
    | rule r p =>
      rw [run_rule] at h ⊢; rw [run_rule]
      cases hi : incCall s with
      | none => rfl
      | some s1 =>
        rw [hi] at h; dsimp only at h ⊢
        cases hr : run cfg k p (rulePre s1) with
        | fuel => rw [hr] at h; exact absurd rfl h
        | _ => rw [ih p _ (by rw [hr]; simp), hr]
    | stackPush p =>
      rw [run_stackPush] at h ⊢; rw [run_stackPush]
      cases hi : incCall s with
      | none => rfl
      | some s1 =>
        rw [hi] at h; dsimp only at h ⊢
        cases hr : run cfg k p s1 with
        | fuel => rw [hr] at h; exact absurd rfl h
        | _ => rw [ih p _ (by rw [hr]; simp), hr]
    | _ => rw [run, run]

theorem run_mono {F F' : Nat} {p : Prog} {s : PState} (h : run cfg F p s ≠ .fuel) (hle : F ≤ F') :
    run cfg F' p s = run cfg F p s := by
  induction hle with
  | refl => rfl
  | step _ ih => rw [run_succ _ _ _ (by rw [ih]; exact h), ih]

end PestModel.VmRef
