import PestModel.Model.Debugger
/-! Lemmas for C17 (debugger protocol): the global invariant `Inv` of the protocol model. -/
namespace PestModel.Dbg

/-! ### expected events -/

theorem expectedEvents_nil (entries : List (Rule × Nat)) : expectedEvents entries [] = [] := by
  simp [expectedEvents]

theorem zip_snoc {α β} (l : List α) (m : List β) (b : β) (a : α) (hk : l[m.length]? = some a) :
    l.zip (m ++ [b]) = l.zip m ++ [(a, b)] := by
  induction m generalizing l with
  | nil =>
    cases l with
    | nil => simp at hk
    | cons e es => simp at hk; subst hk; simp
  | cons x xs ih =>
    cases l with
    | nil => simp at hk
    | cons e es =>
      simp at hk
      simp [ih es hk]

theorem expectedEvents_snoc (entries : List (Rule × Nat)) (bpsAt : List (List Rule)) (bps : List Rule) (r : Rule) (p : Nat)
    (hk : entries[bpsAt.length]? = some (r, p)) :
    expectedEvents entries (bpsAt ++ [bps]) =
      expectedEvents entries bpsAt ++ (if bps.contains r then [Event.breakpoint r p] else []) := by
  unfold expectedEvents
  rw [zip_snoc _ _ _ _ hk, List.filterMap_append]
  congr 1
  by_cases h : r ∈ bps <;> simp [h]

/-! ### classification of program counters -/

def allBp (l : List Event) : Prop := ∀ e ∈ l, isBreakpoint e = true

theorem allBp_nil : allBp [] := by simp [allBp]

theorem allBp_snoc_bp {l : List Event} (h : allBp l) (r : Rule) (p : Nat) : allBp (l ++ [Event.breakpoint r p]) := by
  intro e he
  simp at he
  rcases he with he | he
  · exact h e he
  · subst he; rfl

theorem allBp_filter {l : List Event} (h : allBp l) : l.filter isBreakpoint = l := by
  simpa [allBp] using h

def finalEv (s : State) : Event := if s.finalOk then Event.eof else Event.error

theorem finalEv_not_bp (s : State) : isBreakpoint (finalEv s) = false := by
  unfold finalEv; split <;> rfl

def FinalShape (s : State) (sent : List Event) : Prop :=
  s.bpsAt.length = s.entries.length ∧ sent = expectedEvents s.entries s.bpsAt ++ [finalEv s]

/-- what is known about the ghost fields at each program counter of the thread. -/
def PcData (s : State) (sent : List Event) : PPc → Prop
  | .checkDone k => s.bpsAt.length = k ∧ k ≤ s.entries.length ∧ allBp sent
  | .lockBps k => s.bpsAt.length = k ∧ k < s.entries.length ∧ allBp sent
  | .send k => s.bpsAt.length = k + 1 ∧ k < s.entries.length ∧ allBp sent
  | .park k => s.bpsAt.length = k + 1 ∧ k < s.entries.length ∧ allBp sent
  | .abortCheck _ _ => s.isDone = true ∧ allBp sent
  | .checkCancel ok => allBp sent ∧ (s.isDone = true ∨ (s.bpsAt.length = s.entries.length ∧ ok = s.finalOk))
  | .finishSend ok => allBp sent ∧ s.bpsAt.length = s.entries.length ∧ ok = s.finalOk
  | .setDone => FinalShape s sent
  | .exited _ => allBp sent ∨ FinalShape s sent

/-- the breakpoint event the thread has decided to send and not yet sent (same as `Thm.C17.pendingEv`). -/
def pendEv (s : State) (t : Thread) : List Event :=
  match t.pc with
  | .send k => (match s.entries[k]? with | some (r, p) => [.breakpoint r p] | none => [])
  | _ => []

def isPark : PPc → Bool
  | .park _ => true
  | _ => false

def isExited : PPc → Bool
  | .exited _ => true
  | _ => false

/-- program counters at which, before the stop flag is set by a clean restart, nothing is in the
channel and no wake-up is outstanding. -/
def quietPc : PPc → Bool
  | .park _ | .setDone | .exited _ => false
  | _ => true

def needsEmpty : PPc → Bool
  | .lockBps _ | .send _ | .finishSend _ => true
  | _ => false

def needsTok : PPc → Bool
  | .lockBps _ | .send _ | .park _ => true
  | _ => false

def TokOk (t : Thread) : Prop :=
  (t.sent.filter isBreakpoint).length + (if t.token then 1 else 0) ≤ t.unparks + (if isPark t.pc then 1 else 0)

def RJ (t : Thread) : Prop :=
  (quietPc t.pc = true → t.chan = [] ∧ t.token = false) ∧ (isPark t.pc = true → t.chan = [] ∨ t.token = false)

def RU (t : Thread) : Prop := needsEmpty t.pc = true → t.chan = []

def RG (t : Thread) : Prop := (needsEmpty t.pc = true → t.chan = []) ∧ (needsTok t.pc = true → t.token = true)

/-- the global invariant. -/
structure Inv (s : State) : Prop where
  cap_pos : 0 < s.cap
  noCur : s.cpc = .runStoreFalse ∨ s.cpc = .runSpawn → s.cur = none
  spawnDone : s.cpc = .runSpawn → s.isDone = false
  hasCur : s.cpc = .runLoadDone ∨ s.cpc = .runStoreDone ∨ s.cpc = .runUnpark ∨ s.cpc = .runJoin → s.cur ≠ none
  doneLate : s.cpc = .runUnpark ∨ s.cpc = .runJoin → s.isDone = true
  doneExited : ∀ t, s.cur = some t → s.isDone = true →
    (s.cpc = .idle ∨ s.cpc = .contLoadDone ∨ s.cpc = .contUnpark ∨ s.cpc = .runLoadDone ∨ s.cpc = .runStoreDone) →
    isExited t.pc = true
  fifo : ∀ t, s.cur = some t → s.received ++ t.chan = t.sent
  pcData : ∀ t, s.cur = some t → PcData s t.sent t.pc
  expd : ∀ t, s.cur = some t → t.sent.filter isBreakpoint ++ pendEv s t = expectedEvents s.entries s.bpsAt
  tok : ∀ t, s.cur = some t → TokOk t
  rJ : ∀ t, s.cur = some t → s.cleanRestart = true → (s.cpc = .runLoadDone ∨ s.cpc = .runStoreDone) → RJ t
  rU : ∀ t, s.cur = some t → s.cleanRestart = true → s.cpc = .runUnpark → RU t
  rG : ∀ t, s.cur = some t → s.cleanRestart = true → s.cpc = .runJoin → RG t

theorem Inv_init (entries : List (Rule × Nat)) (ok : Bool) (ab : List (Nat × Outcome)) (cap : Nat) (bps : List Rule)
    (todo : List Cmd) (hcap : 0 < cap) : Inv (State.init entries ok ab cap bps todo) := by
  constructor <;> simp [State.init, hcap]

end PestModel.Dbg
