import PestModel.Model.Json
import PestModel.Model.RefSpec
import PestModel.Gen.JsonGrammar
import PestModel.Lemmas.RefAll
/-!
C18 helper lemmas, part 1: the RFC side (`PestModel.Json`): cursors, fuel-free forms of `ws` and
`digits1`, and the rule-id / tree translation used by the layer lemmas.
-/
namespace PestModel.Json
open PestModel.LineCol (Str cLen bLen)
open PestModel.PS (restAt restAt_iff restAt_advance)

/-! ### cursors -/

/-- the cursor is a position of `input`: the rest of the input at byte offset `pos` is `rest`. -/
def At (input : Str) (c : Cur) : Prop := restAt input c.pos = some c.rest

/-- `c'` is reached from `c` by consuming `mid`. -/
def Reach (c c' : Cur) : Prop := ∃ mid, c.rest = mid ++ c'.rest ∧ c'.pos = c.pos + bLen mid

theorem Reach.refl (c : Cur) : Reach c c := ⟨[], by simp, by simp⟩

theorem Reach.trans {a b c : Cur} (h1 : Reach a b) (h2 : Reach b c) : Reach a c := by
  obtain ⟨m1, e1, p1⟩ := h1
  obtain ⟨m2, e2, p2⟩ := h2
  exact ⟨m1 ++ m2, by rw [e1, e2]; simp, by rw [p2, p1]; simp; omega⟩

theorem Reach.adv (c : Cur) : Reach c c.adv := by
  unfold Cur.adv
  split
  · exact Reach.refl c
  · rename_i ch cs h
    exact ⟨[ch], by simp [h], by simp⟩

theorem Reach.len {c c' : Cur} (h : Reach c c') : c'.rest.length ≤ c.rest.length := by
  obtain ⟨m, e, _⟩ := h
  rw [e]; simp

theorem Reach.pos_le {c c' : Cur} (h : Reach c c') : c.pos ≤ c'.pos := by
  obtain ⟨m, _, e⟩ := h
  omega

theorem At.reach {input : Str} {c c' : Cur} (h : At input c) (hr : Reach c c') : At input c' := by
  obtain ⟨m, e, p⟩ := hr
  unfold At at *
  rw [p]
  exact restAt_advance h e

theorem At.adv {input : Str} {c : Cur} (h : At input c) : At input c.adv := h.reach (Reach.adv c)

theorem adv_cons {c : Cur} {ch : Char} {cs : Str} (h : c.rest = ch :: cs) :
    c.adv = ⟨cs, c.pos + cLen ch⟩ := by
  unfold Cur.adv; simp [h]

theorem adv_len_lt {c : Cur} {ch : Char} {cs : Str} (h : c.rest = ch :: cs) :
    c.adv.rest.length < c.rest.length := by
  rw [adv_cons h, h]; simp

theorem At.start (input : Str) : At input ⟨input, 0⟩ :=
  (restAt_iff _ _ _).2 ⟨[], by simp, by simp⟩

theorem At.eoi {input : Str} {c : Cur} (h : At input c) : c.pos = bLen input ↔ c.rest = [] := by
  obtain ⟨pre, e, p⟩ := (restAt_iff _ _ _).1 h
  rw [e, ← p]
  simp only [PestModel.LineCol.bLen_append]
  constructor
  · intro h'
    exact PestModel.LineCol.bLen_eq_zero (by omega)
  · intro h'; rw [h']; simp

/-! ### `ws` without fuel -/

def isWs (ch : Char) : Prop := ch = ' ' ∨ ch = '\t' ∨ ch = '\n' ∨ ch = '\r'

instance (ch : Char) : Decidable (isWs ch) := by unfold isWs; infer_instance

/-- skip the longest run of whitespace. -/
def wsL : Str → Nat → Cur
  | [], p => ⟨[], p⟩
  | ch :: cs, p => if isWs ch then wsL cs (p + cLen ch) else ⟨ch :: cs, p⟩

def wsC (c : Cur) : Cur := wsL c.rest c.pos

theorem ws_eq_wsL (n : Nat) (rest : Str) (p : Nat) (h : rest.length ≤ n) : ws n ⟨rest, p⟩ = wsL rest p := by
  induction n generalizing rest p with
  | zero =>
    cases rest with
    | nil => rfl
    | cons ch cs => simp at h
  | succ n ih =>
    cases rest with
    | nil => rfl
    | cons ch cs =>
      simp only [ws, wsL]
      by_cases hw : isWs ch
      · have hw' : ch = ' ' ∨ ch = '\t' ∨ ch = '\n' ∨ ch = '\r' := hw
        rw [if_pos hw, if_pos hw', adv_cons rfl]; exact ih cs _ (by simpa using h)
      · have hw' : ¬ (ch = ' ' ∨ ch = '\t' ∨ ch = '\n' ∨ ch = '\r') := hw
        rw [if_neg hw, if_neg hw']

theorem ws_eq (n : Nat) (c : Cur) (h : c.rest.length ≤ n) : ws n c = wsC c := by
  cases c; exact ws_eq_wsL n _ _ h

theorem wsL_reach (rest : Str) (p : Nat) : Reach ⟨rest, p⟩ (wsL rest p) := by
  induction rest generalizing p with
  | nil => exact Reach.refl _
  | cons ch cs ih =>
    simp only [wsL]
    split
    · exact Reach.trans ⟨[ch], by simp, by simp⟩ (ih _)
    · exact Reach.refl _

theorem wsC_reach (c : Cur) : Reach c (wsC c) := by cases c; exact wsL_reach _ _

theorem wsL_head (rest : Str) (p : Nat) : ∀ ch cs, (wsL rest p).rest = ch :: cs → ¬ isWs ch := by
  induction rest generalizing p with
  | nil => intro ch cs h; simp [wsL] at h
  | cons a as ih =>
    intro ch cs h
    simp only [wsL] at h
    split at h
    · exact ih _ ch cs h
    · simp at h; rw [← h.1]; assumption

theorem wsC_head (c : Cur) : ∀ ch cs, (wsC c).rest = ch :: cs → ¬ isWs ch := wsL_head _ _

theorem wsL_of_not_ws {ch : Char} (h : ¬ isWs ch) (cs : Str) (p : Nat) : wsL (ch :: cs) p = ⟨ch :: cs, p⟩ := by
  simp [wsL, h]

theorem wsC_of_head {c : Cur} {ch : Char} {cs : Str} (h : c.rest = ch :: cs) (hw : ¬ isWs ch) : wsC c = c := by
  cases c; simp only at h; subst h; exact wsL_of_not_ws hw _ _

theorem wsC_nil {c : Cur} (h : c.rest = []) : wsC c = c := by
  cases c; simp only at h; subst h; rfl

theorem wsC_idem (c : Cur) : wsC (wsC c) = wsC c := by
  cases hr : (wsC c).rest with
  | nil => exact wsC_nil hr
  | cons ch cs => exact wsC_of_head hr (wsC_head c ch cs hr)

/-! ### `digits1` without fuel -/

/-- skip the longest run of digits. -/
def digL : Str → Nat → Cur
  | [], p => ⟨[], p⟩
  | ch :: cs, p => if isDigit ch then digL cs (p + cLen ch) else ⟨ch :: cs, p⟩

def digC (c : Cur) : Cur := digL c.rest c.pos

theorem digL_reach (rest : Str) (p : Nat) : Reach ⟨rest, p⟩ (digL rest p) := by
  induction rest generalizing p with
  | nil => exact Reach.refl _
  | cons ch cs ih =>
    simp only [digL]
    split
    · exact Reach.trans ⟨[ch], by simp, by simp⟩ (ih _)
    · exact Reach.refl _

theorem digC_reach (c : Cur) : Reach c (digC c) := by cases c; exact digL_reach _ _

theorem digits1_nil (n : Nat) (p : Nat) : digits1 n ⟨[], p⟩ = none := by
  cases n <;> rfl

theorem digits1_cons (n : Nat) (ch : Char) (cs : Str) (p : Nat) (h : cs.length < n) :
    digits1 n ⟨ch :: cs, p⟩ = if isDigit ch then some (digL cs (p + cLen ch)) else none := by
  induction n generalizing ch cs p with
  | zero => omega
  | succ n ih =>
    simp only [digits1]
    split
    · rw [adv_cons rfl]
      cases cs with
      | nil => rw [digits1_nil]; rfl
      | cons d ds =>
        rw [ih d ds _ (by simpa using h)]
        simp only [digL]
        by_cases hd : isDigit d = true <;> simp [hd]
    · rfl

/-! ### rule ids and the tree translation (same definitions as in `Thm/C18.lean`) -/

/-- rule id of a label of the RFC tree (`EOI` = number of rules). -/
def ruleIdx (label : String) : Nat :=
  match PestModel.Gen.Json.rules.findIdx? (·.name = label) with
  | some i => i
  | none => PestModel.Gen.Json.rules.length

mutual
  def JT : JTree → PestModel.Views.Tree
    | .node l a b ks => .node (ruleIdx l) a b none (JTs ks)
  def JTs : List JTree → List PestModel.Views.Tree
    | [] => []
    | k :: ks => JT k :: JTs ks
end

theorem JTs_eq_map (ks : List JTree) : JTs ks = ks.map JT := by
  induction ks with
  | nil => rfl
  | cons k ks ih => simp [JTs, ih]

theorem JT_node (l : String) (a b : Nat) (ks : List JTree) :
    JT (.node l a b ks) = .node (ruleIdx l) a b none (ks.map JT) := by
  rw [JT, JTs_eq_map]

end PestModel.Json
