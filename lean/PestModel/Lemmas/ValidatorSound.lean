import PestModel.Lemmas.ValidatorTerm2
/-! C06 helper lemmas, part 7: from `validateAst … = []` to termination of every rule call. -/
namespace PestModel.V
open PestModel.G PestModel.Ref
open PestModel.LineCol (Str bLen cLen)
open PestModel.Views (Tree)
open PestModel.PS (Atomicity CharSet)

/-- what `validateRepetition` checks at a node. -/
def RepOK (rules : List Rule) : Expr → Prop
  | .rep i | .repOnce i | .repMin i _ => isNonProgressing rules (fuelFor rules i) i [] = false
  | _ => True

theorem repOK_of_validate {extras : Bool} {rules : List Rule} (h : validateRepetition extras rules = []) :
    ∀ r ∈ rules, ∀ x ∈ subExprs extras r.expr, RepOK rules x := by
  unfold validateRepetition at h
  rw [List.flatMap_eq_nil_iff] at h
  intro r hr x hx
  have h1 := h r hr
  rw [List.filterMap_eq_nil_iff] at h1
  have h2 := h1 x hx
  cases x <;> simp only [RepOK] <;> try trivial
  all_goals
    simp only [] at h2
    split at h2
    · simp at h2
    · split at h2
      · simp at h2
      · rename_i hnp; simpa using hnp

section
variable {extras : Bool} {rules : List Rule}
  (hsf : ∀ r ∈ rules, SF r.expr = true) (htag : ∀ r ∈ rules, TagOK extras r.expr = true)
  (hlr : leftRecursion extras rules = [])

include hsf htag hlr in
theorem prog_of_np {e : Expr} (hs : SF e = true) (ht : TagOK extras e = true)
    (h : isNonProgressing rules (fuelFor rules e) e [] = false) : Prog rules e := by
  rcases np_false_cases extras rules hsf htag (fun _ _ hl => no_cycle hlr (fun _ hn => ⟨_, hl, hn⟩))
      _ e [] "" hs ht (fun hne => absurd rfl hne) (fuelFor_ok _ _ _) h with hp | ⟨id, hid, _⟩
  · exact hp
  · simp at hid

include hsf htag hlr in
theorem good_of_validate : ∀ e : Expr, SF e = true → TagOK extras e = true →
    (∀ x ∈ subExprs extras e, RepOK rules x) → Good rules e := by
  intro e
  induction e with
  | seq a b iha ihb | choice a b iha ihb =>
    intro hs ht hx
    simp only [SF, Bool.and_eq_true] at hs
    have htt := tagOK_bin (extras := extras) (a := a) (b := b) ht
    simp only [subExprs, List.mem_cons, List.mem_append] at hx
    exact ⟨iha hs.1 htt.1 (fun x h => hx x (Or.inr (Or.inl h))), ihb hs.2 htt.2 (fun x h => hx x (Or.inr (Or.inr h)))⟩
  | rep i ih | repOnce i ih | repMin i n ih =>
    intro hs ht hx
    simp only [subExprs, List.mem_cons] at hx
    have h1 := hx _ (Or.inl rfl)
    simp only [RepOK] at h1
    exact ⟨prog_of_np hsf htag hlr hs ht h1, ih hs ht (fun x h => hx x (Or.inr h))⟩
  | posPred i ih | negPred i ih | opt i ih | repExact i n ih | repMax i n ih | repMinMax i lo hi ih =>
    intro hs ht hx
    simp only [subExprs, List.mem_cons] at hx
    exact ih hs ht (fun x h => hx x (Or.inr h))
  | push i ih => intro hs; simp [SF] at hs
  | nodeTag i t ih =>
    intro hs ht hx
    have hex : extras = true := by simpa [TagOK, NoTag] using ht
    subst hex
    simp only [subExprs, List.mem_cons, if_true] at hx
    exact ih hs (by simp [TagOK]) (fun x h => hx x (Or.inr h))
  | _ => intros; trivial

end

/-- an accepted stack-free grammar (tags only with `grammar-extras`) satisfies the static facts. -/
theorem accepted_of_validate {c : Ctx} (hsf : ∀ r ∈ c.rules, SF r.expr = true)
    (htag : ∀ r ∈ c.rules, TagOK c.extras r.expr = true) (hv : validateAst c.extras c.rules = []) :
    Accepted c := by
  unfold validateAst at hv
  simp only [List.append_eq_nil_iff] at hv
  obtain ⟨⟨⟨⟨hrep, _⟩, hws⟩, hlr⟩, _⟩ := hv
  refine ⟨hsf, htag, ?_, hlr, ?_⟩
  · intro n body hl
    obtain ⟨r, hr, _, hrb⟩ := lookup_some_mem hl
    subst hrb
    exact ⟨hsf r hr, htag r hr,
      good_of_validate hsf htag hlr r.expr (hsf r hr) (htag r hr) (repOK_of_validate hrep r hr)⟩
  · intro r hr hn
    unfold validateWsComment at hws
    rw [List.filterMap_eq_nil_iff] at hws
    have h1 := hws r hr
    rw [if_pos hn] at h1
    refine prog_of_np hsf htag hlr (hsf r hr) (htag r hr) ?_
    split at h1
    · simp at h1
    · split at h1
      · simp at h1
      · rename_i hnp; simpa using hnp

/-- **termination of every rule call** in an accepted grammar. -/
theorem sound_core {c : Ctx} (hsf : ∀ r ∈ c.rules, SF r.expr = true)
    (htag : ∀ r ∈ c.rules, TagOK c.extras r.expr = true) (hv : validateAst c.extras c.rules = []) :
    ∀ nm s m la, valCa c m la nm s ≠ .fuel :=
  calls_term_all (accepted_of_validate hsf htag hv)

end PestModel.V
