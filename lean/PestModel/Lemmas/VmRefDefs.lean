import PestModel.Model.Grammar
import PestModel.Model.Ref
import PestModel.Model.Lower
/-! Definitions for C01 about what the restorer pass guarantees (`Dirty`, `GoodE`, `GoodRules`) and
the reachability notion its analysis `modifies` decides (`Mod`). -/
namespace PestModel.VmRef
open PestModel.G
open PestModel.PS (Atomicity)

/-- the items of `iter_top_down` that `child_modifies_state` answers `true` for directly. -/
def isModItem : OExpr → Bool
  | .push _ => true
  | .ident n => n = "DROP" ∨ n = "POP" ∨ n = "POP_ALL"
  | _ => false

/-- a state-modifying item is reachable from `e` through `iter_top_down` and rule references:
what `modifies` (a memoised depth-first search) decides. -/
inductive Mod (extras : Bool) (rules : List ORule) : OExpr → Prop
  | here {e x : OExpr} : x ∈ e.topDown extras → isModItem x = true → Mod extras rules e
  | there {e : OExpr} {n : String} {body : OExpr} : OExpr.ident n ∈ e.topDown extras →
      lookupO rules n = some body → Mod extras rules body → Mod extras rules e

/-- `e` may FAIL and leave the stack changed (only `POP`/`POP_ALL` fail after popping; failure
propagates through rule references, `PUSH(..)` and the alternatives of a choice; `~`, `*`, `+`, `?`,
predicates and `restore_on_err` either restore the stack or never fail).
A user rule named `POP`/`POP_ALL` is counted as dirty too (harmless over-approximation). -/
inductive Dirty (rs : List ORule) : OExpr → Prop
  | pop : Dirty rs (.ident "POP")
  | popAll : Dirty rs (.ident "POP_ALL")
  | ident {n : String} {body : OExpr} : lookupO rs n = some body → Dirty rs body → Dirty rs (.ident n)
  | push {e : OExpr} : Dirty rs e → Dirty rs (.push e)
  | choiceL {a b : OExpr} : Dirty rs a → Dirty rs (.choice a b)
  | choiceR {a b : OExpr} : Dirty rs b → Dirty rs (.choice a b)
  | nodeTag {e : OExpr} {t : PestModel.LineCol.Str} : Dirty rs e → Dirty rs (.nodeTag e t)

/-- no `#tag = …` anywhere. -/
def noTag : OExpr → Bool
  | .posPred e | .negPred e | .opt e | .rep e | .repOnce e | .push e | .restoreOnErr e => noTag e
  | .seq a b | .choice a b => noTag a && noTag b
  | .nodeTag _ _ => false
  | _ => true

/-- what the simulation needs of an expression (as far as the restorer is concerned): the operand of
`?`/`*` and the left operand of `|` cannot fail dirty; `e+` only occurs with `grammar-extras`. -/
def GoodE (extras : Bool) (rs : List ORule) : OExpr → Prop
  | .posPred e | .negPred e | .push e | .restoreOnErr e | .nodeTag e _ => GoodE extras rs e
  | .seq a b => GoodE extras rs a ∧ GoodE extras rs b
  | .choice a b => ¬ Dirty rs a ∧ GoodE extras rs a ∧ GoodE extras rs b
  | .opt e | .rep e => ¬ Dirty rs e ∧ GoodE extras rs e
  | .repOnce e => extras = true ∧ GoodE extras rs e
  | _ => True

structure GoodRules (extras : Bool) (rs : List ORule) : Prop where
  expr : ∀ r ∈ rs, GoodE extras rs r.expr
  ws : ¬ Dirty rs (.ident "WHITESPACE")
  cm : ¬ Dirty rs (.ident "COMMENT")

/-! ### node tags -/

/-- `e`, when it succeeds outside a predicate in atomicity mode `m`, emits at least one token (so that
`tag_node` tags a token of `e` itself): a reference to a rule that produces a pair in this mode,
propagated through the constructs that keep the tokens of an operand. -/
def emits (rs : List ORule) (m : Atomicity) : OExpr → Bool
  | .ident n =>
    match rs.find? (fun r => r.name = n) with
    | some r => PestModel.Ref.emitsFor r.ty m false
    | none => false
  | .seq a b => emits rs m a || emits rs m b
  | .choice a b => emits rs m a && emits rs m b
  | .push e | .restoreOnErr e | .repOnce e | .nodeTag e _ => emits rs m e
  | _ => false

/-- every node tag in `e` (evaluated in mode `m`) sits on an operand that emits a token, and node tags
only occur with `grammar-extras`. -/
def TagOK (extras : Bool) (rs : List ORule) (m : Atomicity) : OExpr → Prop
  | .nodeTag e _ => extras = true ∧ emits rs m e = true ∧ TagOK extras rs m e
  | .posPred e | .negPred e | .opt e | .rep e | .repOnce e | .push e | .restoreOnErr e => TagOK extras rs m e
  | .seq a b | .choice a b => TagOK extras rs m a ∧ TagOK extras rs m b
  | _ => True

/-- the atomicity modes a rule can be entered in: every rule can be the start rule (and `WHITESPACE`,
`COMMENT` are called by the implicit `skip`) in the non-atomic context; a rule referenced in the body
of a rule entered in mode `m` is entered in that body's mode. -/
inductive Reach (rs : List ORule) : String → Atomicity → Prop
  | entry (n : String) : Reach rs n .nonAtomic
  | step {n n' : String} {m : Atomicity} {r : ORule} : Reach rs n m →
      rs.find? (fun r => r.name = n) = some r → n' ∈ PestModel.Lower.identsOf r.expr →
      Reach rs n' (PestModel.Ref.bodyMode r.name r.ty m)

/-- the side condition on node tags: in every mode a rule can be entered in, its tags are `TagOK`. -/
def TagRules (extras : Bool) (rs : List ORule) : Prop :=
  ∀ r ∈ rs, ∀ m, Reach rs r.name m → TagOK extras rs (PestModel.Ref.bodyMode r.name r.ty m) r.expr

theorem tagOK_of_noTag (extras : Bool) (rs : List ORule) (m : Atomicity) (e : OExpr) (h : noTag e = true) :
    TagOK extras rs m e := by
  induction e with
  | nodeTag e t _ => simp [noTag] at h
  | seq a b iha ihb | choice a b iha ihb =>
    simp only [noTag, Bool.and_eq_true] at h
    exact ⟨iha h.1, ihb h.2⟩
  | posPred e ih | negPred e ih | opt e ih | rep e ih | repOnce e ih | push e ih | restoreOnErr e ih =>
    exact ih (by simpa [noTag] using h)
  | _ => trivial

theorem tagRules_of_noTag (extras : Bool) (rs : List ORule) (h : ∀ r ∈ rs, noTag r.expr = true) :
    TagRules extras rs := fun r hr _ _ => tagOK_of_noTag extras rs _ r.expr (h r hr)

/-- node tags only with `grammar-extras` (a consequence of `TagRules`). -/
def tagsExtras (extras : Bool) (e : OExpr) : Prop := extras = true ∨ noTag e = true

theorem tagsExtras_of_tagOK {extras : Bool} {rs : List ORule} {m : Atomicity} {e : OExpr}
    (h : TagOK extras rs m e) : tagsExtras extras e := by
  cases extras with
  | true => exact Or.inl rfl
  | false =>
    right
    induction e with
    | nodeTag e t _ => exact absurd h.1 (by simp)
    | seq a b iha ihb | choice a b iha ihb =>
      simp only [noTag, Bool.and_eq_true]
      exact ⟨iha h.1, ihb h.2⟩
    | posPred e ih | negPred e ih | opt e ih | rep e ih | repOnce e ih | push e ih | restoreOnErr e ih =>
      simpa [noTag] using ih h
    | _ => rfl

end PestModel.VmRef
