"""C18 — the bundled JSON grammar accepts exactly RFC 8259 JSON."""
from props.common import *

MODULE = ["PestModel.Thm.C18", "PestModel.Thm.Capstone"]
DRV, MODE = "drv_json", "grammar"


def run(ctx):
    simple_property(
        ctx, MODULE, DRV, MODE,
        oracle_kind="pest_grammars' JsonParser accepts a string that is not RFC 8259 JSON, or rejects one that is",
        corr_kind="correspondence `J` (JsonParser acceptance and token tree vs the Lean transcription of RFC 8259's ABNF, which must coincide with the reference denotation of the REGENERATED json.pest)",
        rule="EXHAUSTIVE over all strings of <= 5 (quick) / 6 (thorough) symbols from a JSON-heavy alphabet ({ } [ ] , : \" \\ 0 1 - . e space …), plus 50 hand-written near-misses (leading zeros, bare signs, trailing commas, control characters and bad escapes in strings, truncated literals, BOM, NaN …), plus seeded random documents of every shape to depth 4 and one-edit mutations, plus nesting to depth 150; each string goes through JsonParser (acceptance + full token tree with byte spans), the RFC recogniser in Rust (oracle), and in Lean both the RFC transcription and the reference denotation of json.pest (any split between the two is shown); non-trivial = accepted documents",
        nontrivial_key="distinct_nontrivial",
        exhaustive=True, scope="all strings up to the stated length over a 13/14-symbol alphabet",
        assumptions=[
            "RFC 8259 is transcribed twice, independently of json.pest: PestModel.Json.jsonText (Lean, also builds the document tree) and rfc_accepts (Rust); neither is another JSON library",
            "json.pest is REGENERATED into a Lean value on every run (tr_grammar); nesting beyond depth 150 is not exercised (native stack depth is outside any executable model)",
        ],
        leancheck=MODULE,
    )


def replay(ctx, path):
    return replay_generic(ctx, path, DRV, MODE)
