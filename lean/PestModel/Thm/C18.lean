import PestModel.Model.Json
import PestModel.Model.RefSpec
import PestModel.Gen.JsonGrammar
import PestModel.Lemmas.JsonRfc
import PestModel.Lemmas.JsonTop
/-!
# C18 — the bundled JSON grammar accepts exactly RFC 8259 JSON

`PestModel.Gen.Json.rules` is REGENERATED from `grammars/src/grammars/json.pest` on every run;
`PestModel.Json.jsonText` is the transcription of RFC 8259's ABNF (with the document tree).
Meaning of the grammar = the reference denotation (`PestModel.Ref`), to which the real pipeline is
tied by C01/C05/C14.

Proof outline (`PestModel/Lemmas/Json*.lean`): the fuel-free semantics `valCa` of the reference
denotation is computed rule by rule at a cursor of the input and shown EQUAL to the RFC recogniser:
`skip_at` (implicit whitespace = `ws`), `number_call`, `string_call`, `bool_call`/`null_call`,
`pair_call`, `struct_all` (value / object / array by induction on the RFC fuel, with a bound that
`jsonText`'s fuel `4 * (length + 1)` satisfies), `json_val` (the top rule). Soundness, completeness
and definite rejection are the three readings of that one equation.
-/
namespace PestModel.C18
open PestModel.Json PestModel.Ref PestModel.G
open PestModel.LineCol (Str)
open PestModel.PS (CharSet)

/-- rule id of a label of the RFC tree (`EOI` = number of rules). -/
def ruleId (label : String) : Nat :=
  match PestModel.Gen.Json.rules.findIdx? (·.name = label) with
  | some i => i
  | none => PestModel.Gen.Json.rules.length

/-- the RFC document tree as a pest token tree. -/
def toTree : JTree → PestModel.Views.Tree
  | .node l a b ks => .node (ruleId l) a b none (ks.attach.map fun ⟨k, _⟩ => toTree k)
termination_by t => sizeOf t
decreasing_by all_goals simp_wf; (try have := List.sizeOf_lt_of_mem ‹_›); omega

/-! ### glue: `toTree` is the translation used in the lemma files; fuel -/

theorem ruleId_eq (l : String) : ruleId l = ruleIdx l := rfl

theorem toTree_eq_aux (n : Nat) : ∀ t : JTree, sizeOf t ≤ n → toTree t = JT t := by
  induction n with
  | zero =>
    intro t h
    cases t
    simp at h
  | succ n ih =>
    intro t h
    cases t with
    | node l a b ks =>
      rw [toTree, JT_node, ruleId_eq]
      congr 1
      apply List.ext_getElem
      · simp
      · intro i h1 h2
        simp only [List.getElem_map, List.getElem_attach]
        apply ih
        have hm : ks[i]'(by simpa using h2) ∈ ks := List.getElem_mem _
        have := List.sizeOf_lt_of_mem hm
        simp at h
        omega

theorem toTree_eq (t : JTree) : toTree t = JT t := toTree_eq_aux _ t (Nat.le_refl _)

theorem meaning_eq (uni : String → Option CharSet) (fuel : Nat) (input : Str) :
    meaning PestModel.Gen.Json.rules false uni fuel "json" input =
      call (jctx input uni) fuel .nonAtomic false "json" ⟨0, []⟩ := rfl

/-! ### the layers (each is an equation between the grammar's denotation at an arbitrary position of
the input — `restAt input c.pos = some c.rest` — and the RFC recogniser; `∃ fuel` + a definite
right-hand side means: for every larger fuel too, by `denote_fuel_mono`) -/

/-- implicit whitespace of non-atomic rules = RFC `ws`. -/
theorem ws_iff (uni : String → Option CharSet) (input : Str) (c : Cur) (stk : List Str) (la : Bool)
    (h : PestModel.PS.restAt input c.pos = some c.rest) :
    ∃ fuel, skipWs (jctx input uni) fuel .nonAtomic la ⟨c.pos, stk⟩ =
      .ok ⟨(ws c.rest.length c).pos, stk⟩ [] := by
  obtain ⟨N, hN⟩ := (lev_conv (jctx input uni)).k .nonAtomic la ⟨c.pos, stk⟩
  refine ⟨N, ?_⟩
  have := hN N (Nat.le_refl _)
  simp only [lev] at this
  rw [this, ws_eq _ c (Nat.le_refl _)]
  exact skip_at (uni := uni) (show At input c from h) la stk

/-- rule `number` = RFC `number`, with the same leaf. -/
theorem number_iff (uni : String → Option CharSet) (input : Str) (c : Cur) (stk : List Str)
    (h : PestModel.PS.restAt input c.pos = some c.rest) :
    ∃ fuel, call (jctx input uni) fuel .nonAtomic false "number" ⟨c.pos, stk⟩ =
      match number c with
      | some (t, c') => .ok ⟨c'.pos, stk⟩ [toTree t]
      | none => .fail := by
  obtain ⟨n, hn⟩ := exists_call (jctx input uni) .nonAtomic false "number" ⟨c.pos, stk⟩
  refine ⟨n, ?_⟩
  rw [hn, number_call (show At input c from h)]
  cases number c with
  | none => rfl
  | some p => obtain ⟨t, c'⟩ := p; simp only [toTree_eq]

/-- rule `string` = RFC `string`, with the same leaf. -/
theorem string_iff (uni : String → Option CharSet) (input : Str) (c : Cur) (stk : List Str)
    (h : PestModel.PS.restAt input c.pos = some c.rest) :
    ∃ fuel, call (jctx input uni) fuel .nonAtomic false "string" ⟨c.pos, stk⟩ =
      match string c with
      | some (t, c') => .ok ⟨c'.pos, stk⟩ [toTree t]
      | none => .fail := by
  obtain ⟨n, hn⟩ := exists_call (jctx input uni) .nonAtomic false "string" ⟨c.pos, stk⟩
  refine ⟨n, ?_⟩
  rw [hn, string_call (show At input c from h)]
  cases string c with
  | none => rfl
  | some p => obtain ⟨t, c'⟩ := p; simp only [toTree_eq]

/-- rule `value` = RFC `value` (given RFC fuel for the rest of the input), with the same tree. -/
theorem value_iff (uni : String → Option CharSet) (input : Str) (c : Cur) (stk : List Str) (f : Nat)
    (h : PestModel.PS.restAt input c.pos = some c.rest) (hf : 3 * c.rest.length + 1 ≤ f) :
    ∃ fuel, call (jctx input uni) fuel .nonAtomic false "value" ⟨c.pos, stk⟩ =
      match value f c with
      | some (t, c') => .ok ⟨c'.pos, stk⟩ [toTree t]
      | none => .fail := by
  obtain ⟨n, hn⟩ := exists_call (jctx input uni) .nonAtomic false "value" ⟨c.pos, stk⟩
  refine ⟨n, ?_⟩
  rw [hn, value_call (show At input c from h) stk f hf]
  cases value f c with
  | none => rfl
  | some p => obtain ⟨t, c'⟩ := p; simp only [vRes_some, toTree_eq]

/-- the whole parse: the definite result of rule `json` is `jsonText`'s. -/
theorem json_iff (uni : String → Option CharSet) (input : Str) :
    ∃ fuel, meaning PestModel.Gen.Json.rules false uni fuel "json" input =
      match jsonText input with
      | some t => .ok ⟨PestModel.LineCol.bLen input, []⟩ [toTree t]
      | none => .fail := by
  obtain ⟨n, hn⟩ := exists_call (jctx input uni) .nonAtomic false "json" ⟨0, []⟩
  refine ⟨n, ?_⟩
  rw [meaning_eq, hn, json_val, jRes]
  cases jsonText input with
  | none => rfl
  | some t => simp only [toTree_eq]

/-! ### the three theorems -/

/-- **Soundness**: whatever the grammar accepts (as the whole input, from rule `json`) is an RFC 8259
JSON text, and the pairs are exactly the RFC document tree with its byte spans. -/
theorem json_sound (uni : String → Option CharSet) (fuel : Nat) (input : Str) (s : St)
    (f : List PestModel.Views.Tree)
    (h : meaning PestModel.Gen.Json.rules false uni fuel "json" input = .ok s f) :
    ∃ t, jsonText input = some t ∧ f = [toTree t] := by
  rw [meaning_eq] at h
  have hv := valCa_of_call h (by simp)
  rw [json_val, jRes] at hv
  cases ht : jsonText input with
  | none => rw [ht] at hv; simp at hv
  | some t =>
    rw [ht] at hv
    simp only [Res.ok.injEq] at hv
    exact ⟨t, rfl, by rw [← hv.2, toTree_eq]⟩

/-- **Completeness**: every RFC 8259 JSON text (with optional surrounding whitespace) is accepted,
consuming all input, with exactly the RFC document tree — for every nesting depth and length. -/
theorem json_complete (uni : String → Option CharSet) (input : Str) (t : JTree)
    (h : jsonText input = some t) :
    ∃ fuel s, meaning PestModel.Gen.Json.rules false uni fuel "json" input = .ok s [toTree t] := by
  obtain ⟨n, hn⟩ := json_iff uni input
  rw [h] at hn
  exact ⟨n, _, hn⟩

/-- rejection is definite: on a non-JSON text the grammar fails (it does not get stuck or diverge). -/
theorem json_rejects (uni : String → Option CharSet) (input : Str) (h : jsonText input = none) :
    ∃ fuel, meaning PestModel.Gen.Json.rules false uni fuel "json" input = .fail := by
  obtain ⟨n, hn⟩ := json_iff uni input
  rw [h] at hn
  exact ⟨n, hn⟩

end PestModel.C18
