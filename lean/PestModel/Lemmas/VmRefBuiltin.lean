import PestModel.Lemmas.VmRefEnv
/-! C01, part 6: the hard-wired built-in rules. -/
namespace PestModel.VmRef
open PestModel.G PestModel.PS PestModel.Lower PestModel.Ref PestModel.Views
open PestModel.LineCol (Str isBoundary bLen cLen splitAt? slice?)

variable {env : Env} {extras memchr : Bool} {input : Str}

theorem altD_oneChar (c : Ctx) (p q : Char → Bool) (σ : St) :
    altD (fun σ => oneChar c σ p) (fun σ => oneChar c σ q) σ = oneChar c σ (fun ch => p ch || q ch) := by
  unfold altD oneChar
  dsimp only
  cases restAt c.input σ.pos with
  | none => rfl
  | some rest =>
    cases rest with
    | nil => rfl
    | cons ch cs =>
      dsimp only
      by_cases hp : p ch = true <;> by_cases hq : q ch = true <;> simp [hp, hq]

theorem spec_rng {n m la} (a b : Char) :
    Spec (mkCfg env memchr) input n (rng a b) m la
      (fun σ => oneChar (mkCtx env extras input) σ (fun ch => a ≤ ch ∧ ch ≤ b)) (Rest True) :=
  spec_matchRange (c := mkCtx env extras input) a b

theorem spec_rng2 {n m la} (a b a' b' : Char) :
    Spec (mkCfg env memchr) input n (.orElse (rng a b) (rng a' b')) m la
      (fun σ => oneChar (mkCtx env extras input) σ (fun ch => (a ≤ ch ∧ ch ≤ b) ∨ (a' ≤ ch ∧ ch ≤ b')))
      (Rest True) := by
  refine (spec_orElse (spec_rng (extras := extras) a b) (spec_rng (extras := extras) a' b')).congr fun σ => ?_
  rw [altD_oneChar]
  congr 1
  funext ch
  simp [Bool.decide_or]

theorem spec_rng3 {n m la} (a b a' b' a'' b'' : Char) :
    Spec (mkCfg env memchr) input n (.orElse (.orElse (rng a b) (rng a' b')) (rng a'' b'')) m la
      (fun σ => oneChar (mkCtx env extras input) σ
        (fun ch => (a ≤ ch ∧ ch ≤ b) ∨ (a' ≤ ch ∧ ch ≤ b') ∨ (a'' ≤ ch ∧ ch ≤ b''))) (Rest True) := by
  refine (spec_orElse (spec_rng2 (extras := extras) a b a' b') (spec_rng (extras := extras) a'' b'')).congr fun σ => ?_
  rw [altD_oneChar]
  congr 1
  funext ch
  simp [Bool.decide_or, Bool.or_assoc]

theorem spec_newline {n m la} :
    Spec (mkCfg env memchr) input n
      (.orElse (.orElse (.matchString ['\n']) (.matchString ['\r', '\n'])) (.matchString ['\r'])) m la
      (fun σ => match lit (mkCtx env extras input) σ ['\n'] with
        | .fail => (match lit (mkCtx env extras input) σ ['\r', '\n'] with
          | .fail => lit (mkCtx env extras input) σ ['\r'] | r => r)
        | r => r) (Rest True) := by
  refine (spec_orElse (spec_orElse (spec_matchString (c := mkCtx env extras input) ['\n'])
    (spec_matchString (c := mkCtx env extras input) ['\r', '\n']))
    (spec_matchString (c := mkCtx env extras input) ['\r'])).congr fun σ => ?_
  unfold altD
  dsimp only
  cases h1 : lit (mkCtx env extras input) σ ['\n'] <;> dsimp only
  cases h2 : lit (mkCtx env extras input) σ ['\r', '\n'] <;> rfl

theorem spec_eoi {n m la} :
    Spec (mkCfg env memchr) input n (.rule env.rules.length .endOfInput) m la
      (fun σ => if σ.pos = bLen (mkCtx env extras input).input then
          .ok σ (if emitsFor .normal m la then
            [.node (mkCtx env extras input).rules.length σ.pos σ.pos none []] else [])
        else .fail) (Rest True) := by
  refine (spec_rule env.rules.length (spec_endOfInput (c := mkCtx env extras input))).congr fun σ => ?_
  have hl : (mkCtx env extras input).rules.length = env.rules.length := by
    simp [mkCtx, ofOptimizedRules]
  rw [hl]
  unfold ruleD emitsFor
  dsimp only
  by_cases hc : σ.pos = bLen (mkCtx env extras input).input
  · simp only [if_pos hc]
    split <;> rfl
  · simp only [if_neg hc]

theorem undefined_none (hsize : env.rules.length ≤ 333333333) :
    (mkCfg env memchr).env[1000000000]? = none := by
  have : (1000000000 : Nat) = 3 * 333333333 + ctxIdx .atomic := by simp [ctxIdx]
  show (lowerAll.go .vm env env.rules 0)[1000000000]? = none
  rw [this, lowerAll_go_get]
  simp
  omega

theorem rest_weaken {cl : Prop} {a b : PState} (h : Rest True a b) : Rest cl a b :=
  h.mono fun _ => trivial

theorem spec_builtin {n m la} (hsize : env.rules.length ≤ 333333333) (name : String) :
    Spec (mkCfg env memchr) input n (Lower.builtin env name) m la
      (fun σ => Ref.builtin (mkCtx env extras input) m la name σ)
      (Rest (¬ Dirty env.rules (.ident name))) := by
  unfold Lower.builtin
  split
  · exact (spec_skip1 (c := mkCtx env extras input)).weaken fun _ _ => rest_weaken
  · exact (spec_eoi (extras := extras)).weaken fun _ _ => rest_weaken
  · exact (spec_startOfInput (c := mkCtx env extras input)).weaken fun _ _ => rest_weaken
  · exact (spec_stackPeek (c := mkCtx env extras input)).weaken fun _ _ => rest_weaken
  · exact (spec_stackMatchPeek (c := mkCtx env extras input)).weaken fun _ _ => rest_weaken
  · exact (spec_stackPop (c := mkCtx env extras input)).weaken fun _ _ h =>
      h.mono fun hd => hd Dirty.pop
  · exact (spec_stackMatchPop (c := mkCtx env extras input)).weaken fun _ _ h =>
      h.mono fun hd => hd Dirty.popAll
  · exact (spec_stackDrop (c := mkCtx env extras input)).weaken fun _ _ => rest_weaken
  · exact (spec_rng (extras := extras) '0' '9').weaken fun _ _ => rest_weaken
  · exact (spec_rng (extras := extras) '1' '9').weaken fun _ _ => rest_weaken
  · exact (spec_rng (extras := extras) '0' '1').weaken fun _ _ => rest_weaken
  · exact (spec_rng (extras := extras) '0' '7').weaken fun _ _ => rest_weaken
  · exact (spec_rng3 (extras := extras) '0' '9' 'a' 'f' 'A' 'F').weaken fun _ _ => rest_weaken
  · exact (spec_rng (extras := extras) 'a' 'z').weaken fun _ _ => rest_weaken
  · exact (spec_rng (extras := extras) 'A' 'Z').weaken fun _ _ => rest_weaken
  · exact (spec_rng2 (extras := extras) 'a' 'z' 'A' 'Z').weaken fun _ _ => rest_weaken
  · exact (spec_rng3 (extras := extras) 'a' 'z' 'A' 'Z' '0' '9').weaken fun _ _ => rest_weaken
  · exact (spec_rng (extras := extras) '\x00' '\x7f').weaken fun _ _ => rest_weaken
  · exact (spec_newline (extras := extras)).weaken fun _ _ => rest_weaken
  · rename_i h1 h2 h3 h4 h5 h6 h7 h8 h9 h10 h11 h12 h13 h14 h15 h16 h17 h18 h19
    have hb : ∀ σ, Ref.builtin (mkCtx env extras input) m la name σ =
        match env.uni name with
        | some cs => oneChar (mkCtx env extras input) σ cs.mem
        | none => .stuck := by
      intro σ
      unfold Ref.builtin
      split <;> first | contradiction | rfl
    split
    · rename_i cs hu
      refine ((spec_matchCharBy (c := mkCtx env extras input) cs).weaken fun _ _ => rest_weaken).congr
        fun σ => ?_
      rw [hb, hu]
    · rename_i hu
      refine spec_call_none (undefined_none hsize) fun σ => ?_
      rw [hb, hu]

end PestModel.VmRef
