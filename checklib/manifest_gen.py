#!/usr/bin/env python3
"""Regenerates MANIFEST.json from the table below (kept in one place so it stays valid)."""
import json, os
V = os.path.dirname(os.path.dirname(os.path.abspath(__file__)))
PROPS = [json.loads(l) for l in open(os.path.join(V, "properties.jsonl"))]
ALL = [p["id"] for p in PROPS]

# id -> (category, text, design_ref, level_note, technique)
CLAIMED = {
 "C11": ("proof",
   "Lean 4 model of pest::Stack (every usize subtraction / drain range an explicit panic outcome); kernel-checked refinement to the copy-at-snapshot stack for every history at any snapshot depth (inv_init, step_no_panic, step_inv, step_refines, run_refines); tied to the code by exhaustive (all histories to length 6/7 over 7 operations) plus random correspondence through the public API, with the naive stack also evaluated on the implementation as oracle.",
   "DESIGN.md §6 C11",
   "Lean kernel; axioms propext/Classical.choice/Quot.sound only; hand-written model tied by correspondence (differential), harness and runner trusted.",
   "Lean 4 refinement proof (invariant + abstraction function) + exhaustive/random correspondence with pest::Stack"),
 "C10": ("proof",
   "Lean 4 model of Position::line_col/line_of, LineIndex, Span::new/lines_span and Error::new_from_pos/new_from_span/underline/format (every usize subtraction, slice and unreachable! an explicit panic outcome), with the counting definitions as specification; kernel-checked theorems for all strings and offsets: splitAt_iff, lineCol_spec, lineIndex_eq, lineOf_spec, spanNew_iff, linesSpan_spec, render_total_pos, render_total_span, render_shows_pos; tied to the code by an exhaustive correspondence (all strings to 5/6 characters over {a, LF, CR, TAB, 2- and 3-byte chars} x all offsets and ordered offset pairs, byte-exact Display output) with the counting definitions also evaluated on the implementation as oracle.",
   "DESIGN.md §6 C10",
   "Lean kernel; axioms propext/Classical.choice/Quot.sound only; hand-written model tied by correspondence; slice::partition_point, String::replace and format! padding modelled by their contracts.",
   "Lean 4 model + theorems against counting definitions + exhaustive correspondence with pest Position/Span/LineIndex/Error"),
 "C13": ("proof",
   "Lean 4 model of PrattParserMap::expr/nud/led/lbp, PrattParser::op / ConstPrattParser::new_const level assignment and PrecClimber::climb_rec (three-valued results: ok / Rust panic / model fuel), with the classical shunting-yard machine as specification; kernel-checked theorems for every table and well-formed sequence: pratt_total, pratt_yield, pratt_eq_shuntingYard, levels_iso, const_eq_pratt, climber_eq, prattTable_pos, constTable_pos; tied to the code by correspondence on random tables x sequences through PairsBuilder (all three parsers), with a Rust shunting-yard evaluated on the implementation as oracle.",
   "DESIGN.md §6 C13",
   "Lean kernel; axioms propext/Classical.choice/Quot.sound only; hand-written model tied by correspondence; Prec as Nat (u32 overflow out of scope).",
   "Lean 4 model + simulation proof against shunting-yard + random correspondence with PrattParser/ConstPrattParser/PrecClimber"),
 "C03": ("proof",
   "Lean 4 model of the whole ParserState (position primitives incl. both skip_until paths, token queue, look-ahead/atomicity flags, attempts, call limit, snapshot stack, ParseAttempts) as an interpreter of call trees over every public operation; 26 kernel-checked theorems for every call tree, input, fuel, call limit and detail setting: sequence_err_restores, lookahead_restores, rule_ok_emits/rule_err_truncates/rule_silent, run_wf, run_queue, run_queue_lookahead, run_saved, restoreOnErr_restores, stackPush_pushes_span, run_no_panic, the primitive specs (matchString/Insensitive/Range/CharBy/skip/skipUntil/peekSlice/normalizeIndex/matchAll) and skipUntil_memchr_eq_basic; tied to the code by correspondence on the complete state snapshot (hook H1) after random call trees, in two builds (default, pest without memchr), with the contracts also evaluated directly on the real snapshots as oracle.",
   "DESIGN.md §6 C03",
   "Lean kernel; axioms propext/Classical.choice/Quot.sound only; hand-written model tied by correspondence; byte-level matching modelled at character level; hook H1 trusted to print the state faithfully.",
   "Lean 4 model of ParserState + invariant proofs + snapshot correspondence on random call trees (hook H1), memchr on/off"),
 "C04": ("proof",
   "Lean 4 model of PairsBuilder::push_node and of the index-window views (Pairs, Pair, FlatPairs, Tokens, Pairs::single) and renderers (Display, alternate Display, Debug, JSON), every queue index / unreachable!/usize subtraction an explicit panic outcome; specification = list operations on the forest itself; 17 kernel-checked theorems: parse_queue_wf (every run of any call tree from a fresh state leaves a balanced, nested, boundary-aligned token forest), parse_pairs_new, build_encodes, pairs_new, pairs_nil/next/nextBack, pair_views, pairs_interleave, flat_interleave, tokens_interleave (any interleaving of next/next_back with len), pairs_strings, pairs_render (+_partial, _nested, pairs_json_sound), nested_children; tied to the code by correspondence on random forests x random interleaved view scripts (pretty-print build, JSON parsed back), with the forest-based oracle also evaluated on the implementation.",
   "DESIGN.md §6 C04",
   "Lean kernel; axioms propext/Classical.choice/Quot.sound only; hand-written model tied by correspondence; Debug/JSON escaping modelled for the generated alphabet.",
   "Lean 4 model of the iterator windows + refinement to list operations on the forest + random-script correspondence with pest::iterators"),
 "C01": ("proof",
   "The documented semantics is written down as an independent executable reference denotation in Lean (PestModel.Ref) and Vm::parse as call trees over the proved ParserState model (PestModel.Lower.vmExpr/vmRule, tied to the real VM by the V-line correspondence of C08/C12/C15). Kernel-checked for every optimized grammar, start rule, input and fuel: vm_refines_denote_partial (every definite outcome of the VM model is the reference's: same end position and stack, token queue = encoding of the reference's forest of pairs, failure = failure, Rust panic = documented stuck), vm_terminates_partial and vm_agrees_partial, under the side conditions TagRules (tags only on token-emitting operands) and fewer than 333333334 rules; the unrestricted statements are REFUTED in Lean by concrete grammars (vm_refines_denote_refuted_tag / _tag_noextras / _undefined_slot, vm_terminates_refuted — all outside what the real front-end produces or documents). A third refutation (a failed WHITESPACE/COMMENT attempt left the stack modified) was reproduced on the real VM, FIXED in the optimizer (3950a82), mirrored in the model, and its side condition removed from the theorems (ws_pop_example_agrees). Capstone (PestModel.Thm.EndToEnd, composing C06, C05, C01, C02, C08): for every grammar the validator accepts (well named, stack-free, untagged, `list` pass idle), every start rule and every input, the documented semantics assign a definite result to the grammar AS WRITTEN and the VM model run on the optimizer's output reaches exactly it (accepted_grammar_parses_as_documented), the generated parser's model terminates with the same report (accepted_grammar_generated_parser_agrees), and a failure carries the specified report (accepted_grammar_failure_report). The real pipeline (optimize + Vm::parse, hook-free) is compared against the reference on every start rule and ALL inputs up to a length bound for random guarded grammars incl. stack-stress, predicate-over-rule, skip-until and WHITESPACE-through-rule idioms, in two builds.",
   "DESIGN.md §6 C01, §13",
   "Lean kernel (axioms propext/Classical.choice/Quot.sound) for the VM model vs the reference under stated side conditions; reference denotation = transcription of derive/src/lib.rs prose + DESIGN §10 decisions; real VM tied by differential and V-line correspondence; lister finding classified.",
   "Lean 4 simulation proof (lowered VM over the ParserState model refines the reference denotation) + exhaustive-per-grammar differential against optimize+Vm::parse"),
 "C05": ("proof",
   "Lean transcriptions of all seven passes and of optimize() whose outputs are compared AS TREES with the real passes (hook H2) on every run — the tightest tie a pure function admits — in two builds (default, grammar-extras); meaning preservation is kernel-checked against the reference denotation for every grammar, input, mode and stack: rotate_preserves, unroll_preserves, concat_preserves, factor_preserves, skip_preserves (at boundary positions; the unrestricted form is refuted), rules_congruence, and pipeline_preserves_without_list (the whole pipeline minus `list`, as an iff on definite results incl. pairs), plus list_not_preserving (the lister rewrite is NOT meaning-preserving: recorded known finding) and denote_fuel_mono / evals_det; the check additionally searches inputs up to a length bound per pass.",
   "DESIGN.md §6 C05",
   "Lean kernel for the proved part; syntactic equality of pass outputs on generated rule sets; reference denotation as the meaning; hook H2.",
   "Lean 4 transcription of the passes validated by tree equality with the real passes + meaning-preservation theorems/search on the reference denotation"),
 "C12": ("proof",
   "Call counting is part of the proved ParserState model (C03) and of the lowered VM model; the property itself is swept on the implementation: every limit from 1 to 24/60 for random grammars x inputs, oracle = the unlimited result (needs no model); kernel-checked theorems over the model for every call tree, input and limit: calls_monotone, reached_stays, no_refusal_simulates, limit_transparent (for completed runs; limit_transparent' unconditional up to model fuel/panic), limit_monotone. Two genuine defects were found and fixed (absorbed refusal, PEEK/POP panic after the limit).",
   "DESIGN.md §6 C12",
   "Sweep on the implementation with the unlimited result as oracle; Lean kernel for the proved part; model tied by V-line correspondence.",
   "limit sweep with unlimited-result oracle + Lean 4 simulation theorems over the ParserState model"),
 "C15": ("proof",
   "The detailed-attempts bookkeeping (try_add_new_token / try_add_new_stack_rule / nullify, splice and truncate indices as explicit panic outcomes) is part of the ParserState model; every generated parse is run with detail on and off on the implementation (oracle: identical outcomes, help message renders, max_position on a boundary) and the recorded ParseAttempts are compared with the model; kernel-checked theorems: detail_erasure_total (erasing the attempt information from the outcome of a detailed run gives exactly the outcome of the run with detail off — hence detail_erasure and detail_no_panic), splice_in_range, attempts_monotone, maxpos_boundary.",
   "DESIGN.md §6 C15",
   "On/off differential on the implementation; Lean kernel for the proved part; model tied by V-line correspondence incl. raw call stacks and token sets.",
   "detail on/off differential + Lean 4 erasure theorem over the ParserState model"),
 "C08": ("proof",
   "The property's statement is formalised as specReport, a structural function of the call tree of the reference semantics (furthest reportable attempt; a failing or negated-matching rule stands for the attempts inside it at the same position unless exactly one was made). Kernel-checked: spec_position_furthest, spec_position_attained, spec_expected_sound, spec_unexpected_sound (the specification has the properties the statement asks for) and track_eq_spec / track_eq_spec_exact: for every optimized grammar, start rule, input, fuel, detail setting, the failure report of the VM model — ParserState::track, rule, the look-ahead flags, the sort/dedup epilogue — is exactly specReport of the reference call tree (even as unsorted lists), under the side conditions of C01's refinement theorem. Ties: the VM model reproduces Vm::parse's error position and expected/unexpected sets on every failing case (V lines); specReport evaluated on the optimized rule set is compared with the real report for every failing parse of the run (about 54,000, no caveat), and specReport on the UNOPTIMIZED grammar for the lister classification.",
   "DESIGN.md §6 C08, §13",
   "Lean kernel (axioms propext/Classical.choice/Quot.sound); specReport is the formalised property; differential against Vm::parse on all failing inputs up to a length bound; lister classified with hook H2.",
   "Lean 4 proof that the model of ParserState::track computes the specified report + exhaustive-per-grammar differential against Vm::parse"),
 "C02": ("proof",
   "The code pest_generator emits is translated (syn AST -> call trees, failing loudly outside the generator's sub-language) and (a) compared AS A TREE, rule function by rule function, with the Lean transcription of generate_rule/generate_expr/generate_expr_atomic, (b) executed call by call on the real ParserState and compared with the Lean gen-lowering on the proved ParserState model, (c) compared with Vm::parse on all inputs up to a length bound (the property itself: identical pairs, error position and expected/unexpected sets), in two builds, incl. tagged optional/repeated references with grammar-extras. Kernel-checked: gen_eq_vm_partial and gen_vm_terminate_partial — for every rule set satisfying GenVm.RulesOK (no #t = e? / #t = e*; in atomically generated rules the operand of every * fails clean; fewer than 333333334 rules), every start rule, input, detail setting and fuel, the generator's lowering and the VM's lowering yield the same report (token queue; error position and expected/unexpected sets; panic) and one terminates iff the other does — and gen_eq_vm_optimized: the conditions other than the tag shape hold for every output of the optimizer (the restorer makes repetition operands fail clean). The unrestricted statements are REFUTED (gen_eq_vm_refuted, _tag_rep, _pop, gen_vm_terminate_refuted); the two tag refutations are producible by the real front-end, were reproduced on the real VM and generated code, and are recorded as a known finding. Four genuine divergences/defects were fixed earlier.",
   "DESIGN.md §6 C02, §13",
   "Lean kernel for the two lowerings over the ParserState model; rustc is not in the loop for the generated code; the translator gencode.rs is trusted; differential as strong as the generator.",
   "Lean 4 simulation proof between the generator's and the VM's lowering + translation of the emitted code to call trees (tree equality with the Lean generator model, execution against Vm::parse)"),
 "C16": ("proof",
   "The Unicode tables and all name lists are REGENERATED from the source on every run (translators/tr_unicode.py -> lean/PestModel/Gen/UnicodeTables.lean), so the theorems are re-checked against what the code says now: gc_partition (every scalar value is in exactly one of the 29 two-letter general categories), surrogate_no_scalar, group_eq_union (8 groups), scripts_disjoint — each a single kernel computation on 1.1M-bit numbers (decide +kernel, no native_decide) lifted to all code points by proved generic lemmas — plus names_agree (every advertised name resolves through by_name to the constant its function reads), validator_accepts, backend_builtins_agree. The translator's trie expansion is validated on every run by an EXHAUSTIVE correspondence: every advertised function and by_name closure on all 1,112,064 scalar values, and the VM built-in on the boundary code points. When an obligation fails the check searches the implementation for the offending code point.",
   "DESIGN.md §6 C16",
   "Lean kernel (decide +kernel: GMP arithmetic); translator (regex + re-implemented ucd-trie lookup) validated exhaustively against TrieSet::contains_char; name lists extracted textually.",
   "regenerated tables + Lean 4 kernel evaluation over the whole finite domain + exhaustive code-point correspondence"),
 "C14": ("translation_validation",
   "The bootstrap is validated as a translation: (1) the current generator applied to the current grammar.pest must reproduce meta/src/grammar.rs byte for byte (equal programs need no behavioural argument); (2) the grammar is REGENERATED into a Lean value on every run and the kernel checks that the Lean optimizer model reproduces the real optimizer on it and that the lister does not touch it (so C05's pipeline theorem applies); (3) on snippets of real grammars and their mutations, for the top rule and 19 sub-rules, the checked-in parser, the VM over parse_and_optimize(grammar.pest), a freshly generated parser and the reference denotation of the regenerated grammar agree on acceptance, token tree and (among the implementations) error position and rule sets; (4) capstone (PestModel.Thm.Capstone, re-checked on the regenerated values every run): meta_accepted (grammar.pest with the real optimizer's output satisfies every hypothesis of the end-to-end theorems) and meta_vm_conforms / meta_generated_agrees: for every rule of grammar.pest and every text the VM model terminates with exactly the result the documented semantics assign to grammar.pest as written, and the generated-parser model reports the same.",
   "DESIGN.md §6 C14",
   "textual equality of generated code; Lean kernel for the optimizer equality; differential on mutated real grammars.",
   "regeneration equality + kernel-checked optimizer equality on the regenerated grammar + four-way differential"),
 "C18": ("proof",
   "RFC 8259's ABNF is transcribed into an executable Lean recogniser that also builds the document tree (PestModel.Json.jsonText, written without looking at json.pest); json.pest is REGENERATED into a Lean value on every run and the kernel checks, for ALL strings of every length and nesting depth: json_sound (whatever the grammar accepts from rule json is an RFC 8259 text and the pairs are exactly the RFC document tree with its byte spans), json_complete (every RFC text is accepted with that tree), json_rejects (rejection is definite), via json_iff and the layer theorems ws_iff / number_iff / string_iff / value_iff. Capstone (PestModel.Thm.Capstone): json_accepted, json_vm_conforms and json_generated_conforms — the VM model and the generated-parser model run on the real optimizer's output of json.pest accept exactly the RFC 8259 texts, with exactly the RFC document tree as token queue, and never panic. The real JsonParser is tied to both by an EXHAUSTIVE differential on all strings up to a length bound over a JSON-heavy alphabet, near-misses and generated documents (acceptance and full token tree), with a second independent RFC recogniser in Rust as oracle.",
   "DESIGN.md §6 C18",
   "Lean kernel; axioms propext/Classical.choice/Quot.sound only; grammar regenerated by translator tr_grammar; reference denotation (C01) as the meaning of the grammar; JsonParser tied by differential (C02's generated-code tie is separate).",
   "Lean 4 proof that the reference denotation of the regenerated json.pest equals the RFC 8259 transcription + exhaustive-to-length differential against JsonParser"),
 "C17": ("other",
   "Lean 4 labelled transition system of the debugger protocol (parser thread: flag check, breakpoint-set lookup, send, park, cancellation check, final send, flag store; controller: run = flag/unpark/join/spawn, cont, add/delete breakpoint, recv; bounded FIFO channel, one park token), quantified over every schedule and command history (Reach); theorems: sent_eq_expected (the breakpoint events are exactly the entries of the parse whose rule was in the set when checked, in order), received_prefix (FIFO, lossless), final_event (the plain parse's outcome, after all of them, nothing after), one_per_continue, quiet_while_waiting, abort_isDone, restart_terminates_partial (a restart issued with an empty channel and no outstanding wake-up makes the previous thread exit in finitely many non-blocking steps) and restart_deadlock_with_early_continue (the unrestricted statement is false: recorded known finding). Tie: the REAL threads are forced step by step along the schedules the model resolves (hook H4 turnstile, child process per case, hangs observed by a watchdog) — random cases plus every resolution of the first 8/13 decisions of small restart histories — and labels passed, events, return values and blocked state must coincide; a model-free oracle checks the event sequence and that clean restarts return. One genuine deadlock was fixed (cdede9e). Level other: the parse is abstracted to its measured entry list, and real timing/memory-model behaviour between hook points is outside the model.",
   "DESIGN.md §6 C17",
   "Lean kernel for the protocol model; forced-schedule correspondence on real threads (hook H4); park assumed non-spurious; runs with a blocking send judged by the oracle only.",
   "Lean 4 LTS of the protocol with invariants over all schedules + forced-schedule correspondence on the real threads"),
 "C09": ("other",
   "Totality of the Rust front-end cannot be proved by a model of it, so it is sampled hard: tens of thousands of mutated real grammars (delimiters, escapes, numeric edge values, non-scalar \\u{…}, non-ASCII, truncations) go through parse_and_optimize and docs::consume in child processes where a panic, abort or time-out is an observation attributed to its text; every error must carry a location inside the text and render. The Lean side covers the modelled panic sites of the back half (unrollF_total: unroll cannot panic on the counts the reader lets through; optimize on the regenerated grammars is kernel-evaluated in C14). One genuine defect was fixed (expect/unwrap on non-scalar escapes and PEEK indices) and one is recorded (native stack overflow on very deep nesting).",
   "DESIGN.md §6 C09",
   "sampling in child processes; partial by nature (DESIGN §6 C09); repetition counts bounded as the property states.",
   "child-process totality sampling on mutated grammars + Lean 4 lemmas on modelled panic sites"),
 "C07": ("other",
   "Round trip on the implementation: random abstract rule sets are written in pest syntax with a random LEGAL spelling (only the parentheses precedence requires, arbitrary spacing, block/line/doc comments, leading |, per-character escape forms, leading-zero counts) and must read back as the same rules (oracle: the abstract grammar), in two builds (default, grammar-extras). Lean side: a model of unescape, the number parsers and the operator-precedence stage (C13's Pratt parser with the reader's table), with kernel-checked theorems unescape_spell, unescape_unicode_none, count_roundtrip, index_roundtrip, pratt_rebuilds, and a Lean model of the WHOLE reader (PestModel.Reader.readGrammar: reference denotation of the REGENERATED meta-grammar, then consume_rules_with_spans / consume_expr / unaries / the Pratt stage / convert_rule / validate_ast as ReaderFull.consumeRules) with theorems consumeRules_iff, consumeExpr_fold / fold_groups (the infix stage is the left-to-right fold with ~ binding tighter), consumeExpr_lead, unaries_tag / _pos / _neg / _paren / _push, postfixes_cons and fuel monotonicity. Ties: every printed grammar text of the run goes through the whole-reader correspondence (R / RX lines: the AST the real parse + consume_rules return vs the Lean reader, both builds; 2500 texts per build in the quick tier) and thousands of literal bodies through the literal correspondence (Q lines, with an oracle for bodies of position-independent meaning). read_print for arbitrary spacing is sampled, not proved: level other.",
   "DESIGN.md §6 C07",
   "round trip sampling with the abstract grammar as oracle; Lean kernel for the proved parts; regenerated meta-grammar.",
   "print/read round trip with random spellings + Lean 4 theorems on unescape / numbers / precedence stage"),
 "C06": ("proof",
   "A Lean model of validate_ast (is_non_failing, is_non_progressing, validate_repetition / choices / whitespace_comment, left_recursion over (rule, skipping) pairs with the implicit WHITESPACE/COMMENT calls, tag checks) is compared with pest_meta's verdict — accepted, or the exact multiset of finding kinds and left-recursive rules — on thousands of near-miss grammars in two builds. Kernel-checked for every grammar and input: validator_sound_partial (an accepted stack-free grammar terminates under the reference semantics from every rule, mode and position; only side condition: no node tags when grammar-extras is off, which the real front-end cannot produce), validator_sound_extras (no side condition with grammar-extras), validator_complete (every strictly guarded, well-named grammar is accepted), with the full statement kept as ValidatorSoundStmt and refuted only by the hand-built tag AST (validator_sound_refuted_tag). The proof attempts found two real soundness gaps (WHITESPACE = _{ a }  a = !{ EOI ~ \"x\" }; WHITESPACE = _{ a ~ \"y\" }  a = !{ \"x\"{,2} }: accepted, native stack overflow), both reproduced on the real front-end + VM, FIXED in the validator (6bb90d0, 3c20b74), mirrored in the model (cexWs_rejected, cexRep_rejected) and the side condition removed. On the implementation: accepted stack-free grammars are run in the VM on all short inputs in a child process under a time limit; grammars the implementation accepts although the model rejects them go through the same oracle; strictly guarded grammars must be accepted. Five genuine defects fixed in all.",
   "DESIGN.md §6 C06, §13",
   "Lean kernel for the validator model vs the reference semantics; verdict correspondence through the real front-end; termination observed (time limit) on the implementation.",
   "Lean 4 validator model with soundness and completeness theorems + verdict correspondence on near-miss grammars + child-process termination oracle"),
}
REASON_TODO = "not claimed yet: machinery for this property is not built in the committed tree (planned in DESIGN.md §6); no check is registered rather than an unsound one"

def main():
    checks = []
    for pid in ALL:
        if pid not in CLAIMED or pid in PENDING:
            continue
        cat, text, ref, note, tech = CLAIMED[pid]
        checks.append({
            "property_id": pid,
            "quick_cmd": f"./check {pid} --tier quick",
            "thorough_cmd": f"./check {pid} --tier thorough",
            "evidence_file": f"/verif/evidence/{pid}.json",
            "replay_cmd_template": f"./check {pid} --replay {{path}}",
            "engine": "lean4-model+correspondence",
            "level_claimed": {"category": cat, "text": text, "design_ref": ref},
            "level_note": note,
            "technique": tech,
        })
    m = {
        "version": 1,
        "setup_cmd": "./check --setup",
        "hooks": {
            "guard": "pest_parser_pest_verif",
            "enable": "RUSTFLAGS=\"--cfg pest_parser_pest_verif\" (set by ./check when it builds /verif/harness against /repo)",
            "baseline_off_cmd": "cd /repo && cargo test --workspace --no-fail-fast --offline",
            "source_commits": HOOK_COMMITS,
            "add_only": True,
        },
        "engines": [{
            "name": "lean4-model+correspondence",
            "path": "/verif/lean, /verif/harness, /verif/check",
            "serves_properties": sorted(p for p in CLAIMED if p not in PENDING),
            "kind_free_text": "Lean 4 models + kernel-checked theorems (lake build, #print axioms audit), tied to /repo on every run by translators (regenerated Lean data) and by a line-protocol correspondence between the real Rust code and the compiled Lean model (pestmodel)",
        }],
        "checks": checks,
        "not_applicable": [{"property_id": p, "reason": REASON_TODO} for p in ALL if p not in CLAIMED or p in PENDING],
        "notes": "Every check rebuilds the harness from /repo's working tree (path dependencies) and the Lean project from /verif/lean; replay files are written to /verif/replay. See DESIGN.md.",
    }
    json.dump(m, open(os.path.join(V, "MANIFEST.json"), "w"), indent=1)
    open(os.path.join(V, "MANIFEST.json"), "a").write("\n")

PENDING = set()   # properties whose machinery is built but not yet claimed
HOOK_COMMITS = ["3f989e6", "590f51d", "a066eba", "0b6d328", "fdfdd20", "4c10484"]
if __name__ == "__main__":
    main()
