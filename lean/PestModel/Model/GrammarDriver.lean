import PestModel.Model.Grammar
import PestModel.Model.Lower
import PestModel.Model.Ref
import PestModel.Model.RefTrace
import PestModel.Model.PStateDriver
import PestModel.Model.Unicode
import PestModel.Gen.MetaGrammar
import PestModel.Gen.JsonGrammar
import PestModel.Model.Json
import PestModel.Model.Validator
/-! Driver modes for the grammar layer:
`O <extras> <pass> <rules>`                      → rules after the pass
`V <cfg> <vm|gen> <orules> <rule> <input-hex>`  → outcome of the lowered back-end on the model state
`D <extras> <rules> <rule> <input-hex>`          → reference denotation -/
namespace PestModel.GrammarDriver
open PestModel.G PestModel.Proto PestModel.PS PestModel.Lower
open PestModel.LineCol (Str)

def strOf (h : String) : Option Str := (hexOrDash h).map (·.toList)
def hexS (s : Str) : String := toHexOrDash (String.ofList s)
def charOfNat? (n : Nat) : Option Char := if h : n.isValidChar then some (Char.ofNatAux n h) else none

partial def exprOf : SExp → Option Expr
  | .list [.atom "str", .atom h] => (strOf h).map .str
  | .list [.atom "ins", .atom h] => (strOf h).map .insens
  | .list [.atom "rng", .atom a, .atom b] =>
    match a.toNat? >>= charOfNat?, b.toNat? >>= charOfNat? with | some a, some b => some (.range a b) | _, _ => none
  | .list [.atom "id", .atom n] => some (.ident n)
  | .list [.atom "peek", .atom a, .atom b] =>
    match PStateDriver.parseInt a, (if b = "_" then some none else (PStateDriver.parseInt b).map some) with
    | some a, some b => some (.peekSlice a b) | _, _ => none
  | .list [.atom "pos", e] => (exprOf e).map .posPred
  | .list [.atom "neg", e] => (exprOf e).map .negPred
  | .list [.atom "seq", a, b] => match exprOf a, exprOf b with | some a, some b => some (.seq a b) | _, _ => none
  | .list [.atom "alt", a, b] => match exprOf a, exprOf b with | some a, some b => some (.choice a b) | _, _ => none
  | .list [.atom "opt", e] => (exprOf e).map .opt
  | .list [.atom "rep", e] => (exprOf e).map .rep
  | .list [.atom "rep1", e] => (exprOf e).map .repOnce
  | .list [.atom "repx", e, .atom n] => match exprOf e, n.toNat? with | some e, some n => some (.repExact e n) | _, _ => none
  | .list [.atom "repmin", e, .atom n] => match exprOf e, n.toNat? with | some e, some n => some (.repMin e n) | _, _ => none
  | .list [.atom "repmax", e, .atom n] => match exprOf e, n.toNat? with | some e, some n => some (.repMax e n) | _, _ => none
  | .list [.atom "repmm", e, .atom m, .atom n] =>
    match exprOf e, m.toNat?, n.toNat? with | some e, some m, some n => some (.repMinMax e m n) | _, _, _ => none
  | .list (.atom "skip" :: hs) => (hs.mapM fun (x : SExp) => match x with | .atom h => strOf h | _ => none).map .skip
  | .list [.atom "push", e] => (exprOf e).map .push
  | .list [.atom "pushlit", .atom h] => (strOf h).map .pushLiteral
  | .list [.atom "tag", e, .atom h] => match exprOf e, strOf h with | some e, some t => some (.nodeTag e t) | _, _ => none
  | _ => none

partial def oexprOf : SExp → Option OExpr
  | .list [.atom "str", .atom h] => (strOf h).map .str
  | .list [.atom "ins", .atom h] => (strOf h).map .insens
  | .list [.atom "rng", .atom a, .atom b] =>
    match a.toNat? >>= charOfNat?, b.toNat? >>= charOfNat? with | some a, some b => some (.range a b) | _, _ => none
  | .list [.atom "id", .atom n] => some (.ident n)
  | .list [.atom "peek", .atom a, .atom b] =>
    match PStateDriver.parseInt a, (if b = "_" then some none else (PStateDriver.parseInt b).map some) with
    | some a, some b => some (.peekSlice a b) | _, _ => none
  | .list [.atom "pos", e] => (oexprOf e).map .posPred
  | .list [.atom "neg", e] => (oexprOf e).map .negPred
  | .list [.atom "seq", a, b] => match oexprOf a, oexprOf b with | some a, some b => some (.seq a b) | _, _ => none
  | .list [.atom "alt", a, b] => match oexprOf a, oexprOf b with | some a, some b => some (.choice a b) | _, _ => none
  | .list [.atom "opt", e] => (oexprOf e).map .opt
  | .list [.atom "rep", e] => (oexprOf e).map .rep
  | .list [.atom "rep1", e] => (oexprOf e).map .repOnce
  | .list (.atom "skip" :: hs) => (hs.mapM fun (x : SExp) => match x with | .atom h => strOf h | _ => none).map .skip
  | .list [.atom "push", e] => (oexprOf e).map .push
  | .list [.atom "pushlit", .atom h] => (strOf h).map .pushLiteral
  | .list [.atom "tag", e, .atom h] => match oexprOf e, strOf h with | some e, some t => some (.nodeTag e t) | _, _ => none
  | .list [.atom "roe", e] => (oexprOf e).map .restoreOnErr
  | _ => none

def tyOf : String → Option RuleType
  | "n" => some .normal | "s" => some .silent | "a" => some .atomic | "c" => some .compound | "x" => some .nonAtomic
  | _ => none

def showTy : RuleType → String
  | .normal => "n" | .silent => "s" | .atomic => "a" | .compound => "c" | .nonAtomic => "x"

def ruleOf : SExp → Option Rule
  | .list [.atom "rule", .atom n, .atom t, e] => match tyOf t, exprOf e with | some t, some e => some ⟨n, t, e⟩ | _, _ => none
  | _ => none

def oruleOf : SExp → Option ORule
  | .list [.atom "rule", .atom n, .atom t, e] => match tyOf t, oexprOf e with | some t, some e => some ⟨n, t, e⟩ | _, _ => none
  | _ => none

def showOptInt : Option Int → String
  | some i => toString i
  | none => "_"

partial def showExpr : Expr → String
  | .str s => s!"(str {hexS s})"
  | .insens s => s!"(ins {hexS s})"
  | .range a b => s!"(rng {a.toNat} {b.toNat})"
  | .ident n => s!"(id {n})"
  | .peekSlice a b => s!"(peek {a} {showOptInt b})"
  | .posPred e => s!"(pos {showExpr e})"
  | .negPred e => s!"(neg {showExpr e})"
  | .seq a b => s!"(seq {showExpr a} {showExpr b})"
  | .choice a b => s!"(alt {showExpr a} {showExpr b})"
  | .opt e => s!"(opt {showExpr e})"
  | .rep e => s!"(rep {showExpr e})"
  | .repOnce e => s!"(rep1 {showExpr e})"
  | .repExact e n => s!"(repx {showExpr e} {n})"
  | .repMin e n => s!"(repmin {showExpr e} {n})"
  | .repMax e n => s!"(repmax {showExpr e} {n})"
  | .repMinMax e m n => s!"(repmm {showExpr e} {m} {n})"
  | .skip ss => "(skip" ++ String.join (ss.map fun s => " " ++ hexS s) ++ ")"
  | .push e => s!"(push {showExpr e})"
  | .pushLiteral s => s!"(pushlit {hexS s})"
  | .nodeTag e t => s!"(tag {showExpr e} {hexS t})"

partial def showOExpr : OExpr → String
  | .str s => s!"(str {hexS s})"
  | .insens s => s!"(ins {hexS s})"
  | .range a b => s!"(rng {a.toNat} {b.toNat})"
  | .ident n => s!"(id {n})"
  | .peekSlice a b => s!"(peek {a} {showOptInt b})"
  | .posPred e => s!"(pos {showOExpr e})"
  | .negPred e => s!"(neg {showOExpr e})"
  | .seq a b => s!"(seq {showOExpr a} {showOExpr b})"
  | .choice a b => s!"(alt {showOExpr a} {showOExpr b})"
  | .opt e => s!"(opt {showOExpr e})"
  | .rep e => s!"(rep {showOExpr e})"
  | .repOnce e => s!"(rep1 {showOExpr e})"
  | .skip ss => "(skip" ++ String.join (ss.map fun s => " " ++ hexS s) ++ ")"
  | .push e => s!"(push {showOExpr e})"
  | .pushLiteral s => s!"(pushlit {hexS s})"
  | .nodeTag e t => s!"(tag {showOExpr e} {hexS t})"
  | .restoreOnErr e => s!"(roe {showOExpr e})"

def showRules (rs : List Rule) : String :=
  "(" ++ " ".intercalate (rs.map fun r => s!"(rule {r.name} {showTy r.ty} {showExpr r.expr})") ++ ")"

def showORules (rs : List ORule) : String :=
  "(" ++ " ".intercalate (rs.map fun r => s!"(rule {r.name} {showTy r.ty} {showOExpr r.expr})") ++ ")"

/-- Unicode property built-ins resolve through the regenerated tables (C16). -/
def noUni : String → Option CharSet := fun n => PestModel.Unicode.tableOf n

def runPass (extras : Bool) (pass : String) (rules : List Rule) : String :=
  let each (f : Rule → Option Rule) : String :=
    match rules.mapM f with | some rs => showRules rs | none => "panic"
  match pass with
  | "rotate" => each (fun r => some (rotate r))
  | "skip" => each (fun r => some (G.skip rules r))
  | "unroll" => each (unroll extras)
  | "concat" => each (fun r => some (concatenate r))
  | "factor" => each (fun r => some (factor r))
  | "list" => each (fun r => some (list r))
  | "optimize" => match optimize extras rules with | some rs => showORules rs | none => "panic"
  | "optnolist" => match optimizeWith extras false rules with | some rs => showORules rs | none => "panic"
  | _ => "bad-op"

def ruleName (rules : List String) (id : Nat) : String :=
  match rules[id]? with
  | some n => n
  | none => if id = rules.length then "EOI" else s!"?{id}"

partial def showTree (names : List String) : Views.Tree → String
  | .node r a b tag ks =>
    s!"({ruleName names r} {a} {b} {match tag with | some t => hexS t | none => "_"}" ++
      String.join (ks.map fun k => " " ++ showTree names k) ++ ")"

def showForest (names : List String) (f : List Views.Tree) : String :=
  "ok" ++ String.join (f.map fun t => " " ++ showTree names t)

/-- sort and deduplicate rule names the way `Vec<&str>::sort(); dedup()` does. -/
def sortNames (xs : List String) : List String :=
  let rec ins (x : String) : List String → List String
    | [] => [x]
    | y :: ys => if x < y then x :: y :: ys else if x = y then y :: ys else y :: ins x ys
  xs.foldr ins []

/-- Rust's derived `Ord` on `ParsingToken`: variant order, then fields (strings bytewise = by code point). -/
def ptokKey : PTok → Nat × String × String
  | .sens s => (0, String.ofList s, "")
  | .insens s => (1, String.ofList s, "")
  | .range a b => (2, String.singleton a, String.singleton b)
  | .builtin => (3, "", "")

def ptokLt (a b : PTok) : Bool :=
  let (k1, x1, y1) := ptokKey a
  let (k2, x2, y2) := ptokKey b
  k1 < k2 || (k1 == k2 && (x1 < x2 || (x1 == x2 && y1 < y2)))

/-- `iter().cloned().collect::<BTreeSet<_>>().into_iter().collect()`. -/
def sortDedupToks (xs : List PTok) : List PTok :=
  let rec ins (x : PTok) : List PTok → List PTok
    | [] => [x]
    | y :: ys => if ptokLt x y then x :: y :: ys else if x = y then y :: ys else y :: ins x ys
  xs.foldr ins []

def debugChar (c : Char) : String :=
  if c = '\'' then "'\\''" else if c = '\\' then "'\\\\'" else if c = '\n' then "'\\n'"
  else if c = '\r' then "'\\r'" else if c = '\t' then "'\\t'" else "'" ++ String.singleton c ++ "'"

/-- `format!("{:?}", token)`. -/
def debugPTok : PTok → String
  | .sens s => "Sensitive { token: " ++ String.ofList (Views.debugStr s) ++ " }"
  | .insens s => "Insensitive { token: " ++ String.ofList (Views.debugStr s) ++ " }"
  | .range a b => "Range { start: " ++ debugChar a ++ ", end: " ++ debugChar b ++ " }"
  | .builtin => "BuiltInRule"

def showPA (names : List String) (pa : PAttempts) : String :=
  let cs := pa.callStacks.map fun c =>
    (match c.deepest with | .rule r => ruleName names r | .token => "T") ++
    (match c.parent with | some r => "<" ++ ruleName names r | none => "")
  let ts := fun (l : List PTok) => " ".intercalate ((sortDedupToks l).map fun t => toHexOrDash (debugPTok t))
  s!" PA max={pa.maxPos} cs=[{" ".intercalate cs}] exp=[{ts pa.expected}] unexp=[{ts pa.unexpected}]"

/-- sort keeping duplicates. -/
def sortNamesDup (xs : List String) : List String :=
  let rec ins (x : String) : List String → List String
    | [] => [x]
    | y :: ys => if x ≤ y then x :: y :: ys else y :: ins x ys
  xs.foldr ins []

def showReport (names : List String) (o : Out) : String :=
  match o with
  | .ok s =>
    if reachedCallLimit s then s!"limit {s.attemptPos}" else
    match Views.forestOf s.queue s.queue.length 0 s.queue.length with
    | some f => showForest names f
    | none => "ok <ill-formed queue>"
  | .err s =>
    let pa := if s.pa.enabled then showPA names s.pa else ""
    if reachedCallLimit s then s!"limit {s.attemptPos}" ++ pa
    else
      let p := sortNames (s.posAtt.map (ruleName names))
      let n := sortNames (s.negAtt.map (ruleName names))
      s!"err {s.attemptPos} [{",".intercalate p}] [{",".intercalate n}]" ++ pa
  | .panic => "panic"
  | .fuel => "fuel"

partial def showJ : Json.JTree → String
  | .node l a b ks => s!"({l} {a} {b} _" ++ String.join (ks.map fun k => " " ++ showJ k) ++ ")"

def showRef (names : List String) : Ref.Res → String
  | .ok _ f => showForest names f
  | .fail => "fail"
  | .stuck => "stuck"
  | .fuel => "fuel"

def runLine (line : String) : String :=
  match sexpTokens line with
  | "O" :: ex :: pass :: rest =>
    match sexpParse rest with
    | some [.list rs] => match rs.mapM ruleOf with | some rules => runPass (ex = "1") pass rules | none => "bad-op"
    | _ => "bad-op"
  | "V" :: cfgw :: backend :: rest =>
    match PStateDriver.parseCfg cfgw, sexpParse rest with
    | some rc, some (.list rs :: .atom rule :: ins) =>
      match rs.mapM oruleOf, ins.mapM (fun (x : SExp) => match x with | .atom h => strOf h | _ => none) with
      | some orules, some inputs =>
        let env : Env := { rules := orules, uni := noUni }
        let b := if backend = "gen" then Backend.gen else Backend.vm
        let cfg : Cfg := { memchr := rc.memchr, env := lowerAll b env }
        let names := orules.map (·.name)
        " | ".intercalate (inputs.map fun input =>
          showReport names (run cfg PStateDriver.fuelDefault (entry env rule) (PState.new input rc.limit rc.detail)))
      | _, _ => "bad-op"
    | _, _ => "bad-op"
  | "E" :: ex :: pass :: rest =>
    -- semantic comparison of a grammar with its image under a pass, on the reference denotation
    match sexpParse rest with
    | some (.list rs :: .atom rule :: ins) =>
      match rs.mapM ruleOf, ins.mapM (fun (x : SExp) => match x with | .atom h => strOf h | _ => none) with
      | some rules, some inputs =>
        let extras := ex = "1"
        let each (f : Rule → Option Rule) : Option (List Rule) := rules.mapM f
        let image : Option (List Rule) :=
          match pass with
          | "rotate" => each (fun r => some (rotate r))
          | "skip" => each (fun r => some (G.skip rules r))
          | "unroll" => each (unroll extras)
          | "concat" => each (fun r => some (concatenate r))
          | "factor" => each (fun r => some (factor r))
          | "list" => each (fun r => some (list r))
          | "optimize" => (optimize extras rules).map Ref.ofOptimizedRules
          | "optnolist" => (optimizeWith extras false rules).map Ref.ofOptimizedRules
          | _ => none
        match image with
        | none => "panic"
        | some rules' =>
          let names := rules.map (·.name)
          let diffs := (List.range inputs.length).filter fun i =>
            let input := inputs[i]!
            showRef names (Ref.meaning rules extras noUni 100000 rule input) !=
              showRef names (Ref.meaning rules' extras noUni 100000 rule input)
          if diffs.isEmpty then "same" else "diff " ++ " ".intercalate (diffs.map toString)
      | _, _ => "bad-op"
    | _ => "bad-op"
  | "G" :: rest =>
    -- C02: the rule functions as the generator emits them (skip and rule calls symbolic)
    match sexpParse rest with
    | some [.list rs] =>
      match rs.mapM oruleOf with
      | some orules =>
        let names := Lower.symbolNames orules
        let decode := fun (s : String) =>
          -- (call 8000000NN) -> (fn NAME), (call 900000000) -> (fnskip)
          (names.zipIdx.foldl (fun (acc : String) (n, i) => acc.replace s!"(call {Lower.nameMarker + i})" s!"(fn {n})") s).replace
            s!"(call {Lower.skipMarker})" "(fnskip)"
        " ; ".intercalate (orules.zipIdx.map fun (r, i) =>
          r.name ++ " " ++ decode (PStateDriver.showProg (Lower.genRuleSym names i r)))
      | none => "bad-op"
    | _ => "bad-op"
  -- C02: Unicode property built-ins are judged by the oracle only (generated parser vs VM); the tables are C16's
  | "X" :: _ => "oracle-only"
  | "SO" :: ex :: rest =>
    -- C08, search step: the specified report for an OPTIMIZED rule set (read back as core expressions)
    match sexpParse rest with
    | some (.list rs :: .atom rule :: ins) =>
      match rs.mapM oruleOf, ins.mapM (fun (x : SExp) => match x with | .atom h => strOf h | _ => none) with
      | some orules, some inputs =>
        let rules := Ref.ofOptimizedRules orules
        let names := rules.map (·.name)
        " | ".intercalate (inputs.map fun input =>
          match RefTrace.traceMeaning rules (ex = "1") noUni 100000 rule input with
          | (.ok _, _) => "ok"
          | (.stuck, _) => "stuck"
          | (.fuel, _) => "fuel"
          | (.fail, calls) =>
            let (p, pos, neg) := RefTrace.specReport calls
            s!"err {p} [{",".intercalate (sortNames (pos.map (ruleName names)))}] [{",".intercalate (sortNames (neg.map (ruleName names)))}]")
      | _, _ => "bad-op"
    | _ => "bad-op"
  | "SA" :: ex :: rest =>
    -- C08, soundness on the grammar as written: furthest position and ALL attempts made there
    match sexpParse rest with
    | some (.list rs :: .atom rule :: ins) =>
      match rs.mapM ruleOf, ins.mapM (fun (x : SExp) => match x with | .atom h => strOf h | _ => none) with
      | some rules, some inputs =>
        let names := rules.map (·.name)
        " | ".intercalate (inputs.map fun input =>
          match RefTrace.traceMeaning rules (ex = "1") noUni 100000 rule input with
          | (.ok _, _) => "ok"
          | (.stuck, _) => "stuck"
          | (.fuel, _) => "fuel"
          | (.fail, calls) =>
            let (p, pos, neg) := RefTrace.allAttempts calls
            s!"err {p} [{",".intercalate (sortNames (pos.map (ruleName names)))}] [{",".intercalate (sortNames (neg.map (ruleName names)))}]")
      | _, _ => "bad-op"
    | _ => "bad-op"
  | "S" :: ex :: rest =>
    -- C08: the failure report specified on the call tree of the reference semantics
    match sexpParse rest with
    | some (.list rs :: .atom rule :: ins) =>
      match rs.mapM ruleOf, ins.mapM (fun (x : SExp) => match x with | .atom h => strOf h | _ => none) with
      | some rules, some inputs =>
        let names := rules.map (·.name)
        " | ".intercalate (inputs.map fun input =>
          match RefTrace.traceMeaning rules (ex = "1") noUni 100000 rule input with
          | (.ok _, _) => "ok"
          | (.stuck, _) => "stuck"
          | (.fuel, _) => "fuel"
          | (.fail, calls) =>
            let (p, pos, neg) := RefTrace.specReport calls
            s!"err {p} [{",".intercalate (sortNames (pos.map (ruleName names)))}] [{",".intercalate (sortNames (neg.map (ruleName names)))}]")
      | _, _ => "bad-op"
    | _ => "bad-op"
  | "J" :: ins =>
    -- C18: RFC 8259 (executable transcription of the ABNF) and the reference denotation of the
    -- regenerated json.pest must agree; the line shows the RFC verdict and tree
    match ins.mapM strOf with
    | some inputs =>
      let rules := PestModel.Gen.Json.rules
      let names := rules.map (·.name)
      " | ".intercalate (inputs.map fun input =>
        let rfc := match Json.jsonText input with | some t => "ok " ++ showJ t | none => "fail"
        let den := match Ref.meaning rules false noUni 1000000 "json" input with
          | .ok _ f => showForest names f
          | .fail => "fail"
          | .stuck => "stuck"
          | .fuel => "fuel"
        if rfc = den then rfc else s!"SPLIT rfc=[{rfc}] grammar=[{den}]")
    | none => "bad-op"
  | "L" :: ex :: rest =>
    -- C06: the validator's verdict (kinds of findings, sorted)
    match sexpParse rest with
    | some (.list rs :: _) =>
      match rs.mapM ruleOf with
      | some rules =>
        let errs := V.validateAst (ex = "1") rules
        if errs.isEmpty then "ok" else
        let tag : V.Err → String
          | .repCannotFail _ => "RF"
          | .repNonProgressing _ => "RP"
          | .choiceUnreachable _ => "CU"
          | .wsCannotFail n => "WF:" ++ n
          | .wsNonProgressing n => "WP:" ++ n
          | .leftRecursive n => "LR:" ++ n
          | .tagSilent => "TS"
          | .tagBuiltin => "TB"
        "err " ++ " ".intercalate (sortNamesDup (errs.map tag))
      | none => "bad-op"
    | _ => "bad-op"
  | "R" :: _ => "same"
  | "M0" :: _ :: ins => " | ".intercalate (ins.map fun _ => "-")
  | "M" :: rule :: ins =>
    -- C14: the reference denotation of the regenerated meta-grammar
    match ins.mapM strOf with
    | some inputs =>
      let rules := PestModel.Gen.Meta.rules
      let names := rules.map (·.name)
      " | ".intercalate (inputs.map fun input => showRef names (Ref.meaning rules false noUni 1000000 rule input))
    | none => "bad-op"
  | "D" :: ex :: rest =>
    match sexpParse rest with
    | some (.list rs :: .atom rule :: ins) =>
      match rs.mapM ruleOf, ins.mapM (fun (x : SExp) => match x with | .atom h => strOf h | _ => none) with
      | some rules, some inputs =>
        let names := rules.map (·.name)
        " | ".intercalate (inputs.map fun input =>
          showRef names (Ref.meaning rules (ex = "1") noUni 100000 rule input))
      | _, _ => "bad-op"
    | _ => "bad-op"
  | _ => "bad-op"

end PestModel.GrammarDriver
