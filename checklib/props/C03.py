"""C03 — parser-state combinators are all-or-nothing and match exactly."""
from props.common import *

MODULE = ["PestModel.Thm.C03", "PestModel.Thm.C03Prim"]
DRV, MODE = "drv_prog", "prog"


def run(ctx):
    frag, problems = proof_leg(ctx, MODULE)
    allcs, found_input, stats = [], False, {}
    for fs in ("default", "nomemchr"):
        ok, out, bindir, _ = cargo_build(fs, [DRV])
        if not ok:
            ctx.violation({"obligation": f"harness does not build against /repo (features {fs})", "log": out[-3000:]}, no_input=True)
            continue
        drv = os.path.join(bindir, DRV)
        runs = [("gen-" + fs, ["gen", ctx.tier, str(ctx.seed)])]
        cs = run_corpus_and_gen(ctx, drv, MODE, runs) if fs == "default" else \
            [correspond("gen-" + fs, drv, ["gen", ctx.tier, str(ctx.seed)], MODE, os.path.join(ctx.rundir, "gen-" + fs))]
        for c in cs:
            allcs.append(c)
            if c.error:
                ctx.violation({"correspondence": c.name, "error": c.error}, no_input=True)
                continue
            stats[c.name] = c.stats
            if c.oracle_fail:
                i, op, imp, verdict = min(c.oracle_fail, key=lambda t: (len(t[1]), t[1]))
                ctx.violation({"kind": "a documented ParserState contract fails on the real parser state (evaluated on snapshots taken through the hook)",
                               "features": fs, "case": op, "impl": imp, "oracle": verdict,
                               "failing_cases_in_run": len(c.oracle_fail),
                               "classes": sorted({t[3][:60] for t in c.oracle_fail})[:10]})
                found_input = True
            elif c.mismatch:
                i, op, imp, mod = min(c.mismatch, key=lambda t: (len(t[1]), t[1]))
                ctx.violation({"kind": "correspondence `prog` (pest::ParserState call trees vs PestModel.PS.run) no longer checks; the contracts evaluated on the real snapshots are satisfied on all explored programs",
                               "features": fs, "case": op, "impl": imp, "model": mod, "mismatches_in_run": len(c.mismatch)}, no_input=True)
    if problems and not found_input:
        ctx.violation({"obligation": MODULE, "problems": problems}, no_input=True)
    cov = dict(frag)
    g = stats.get("gen-default", {})
    cov.update({
        "trusted_base": TRUSTED_COMMON + ["hook H1 (ParserState::verif_snapshot, read-only, cfg pest_parser_pest_verif)"],
        "evaluations": sum(c.n for c in allcs),
        "distinct_nontrivial": sum(s.get("distinct_nontrivial", 0) for s in stats.values()),
        "rule": "seeded random call trees (depth <= 6 quick / 9 thorough) over every public ParserState operation (sequence optional repeat lookahead atomic rule stack_push restore_on_err and_then/or_else chains, match_string/insensitive/range/char_by, skip, skip_until with 0-4 strings incl. empty ones, start/end_of_input, stack_peek/pop/match_peek/match_pop/drop/match_peek_slice with negative indices, stack_push_literal, tag_node, recursive sub-programs), inputs of <= 8 characters over {a b c A B, 2- and 3-byte chars}; every 4th case with error detail on, every 10th with a call limit; two builds: default features and pest without memchr; repeat bodies are generated progress-or-fail; non-trivial = distinct cases that consumed input, emitted tokens or left strings on the stack",
        "traces_validated_against_impl": sum(c.n for c in allcs),
        "samples": g.get("samples", []),
        "distribution": {k: {kk: vv for kk, vv in v.items() if kk != "samples"} for k, v in stats.items()},
        "mismatches": sum(len(c.mismatch) for c in allcs), "oracle_failures": sum(len(c.oracle_fail) for c in allcs),
    })
    if ctx.thorough() and not problems:
        okc, outc = leanchecker(MODULE + ["PestModel.Model.PState"])
        cov["leanchecker"] = "ok" if okc else outc
    ctx.evidence(level_of(ctx.prop), cov, [
        "theorems are about PestModel.PS.run (hand-written model of parser_state.rs / position.rs); tie = correspondence on the complete state snapshot after every generated call tree",
        "byte-level comparisons (as_bytes, memchr, memmem) are modelled at the character level (UTF-8 is a prefix code); exercised with multi-byte inputs",
        "the closure given to match_char_by is modelled as a finite list of code-point ranges",
    ])


def replay(ctx, path):
    r = json.load(open(path))
    return replay_generic(ctx, path, DRV, MODE, featureset=("nomemchr" if r.get("features") == "nomemchr" else "default"))
